#!/usr/bin/env python3
"""Runner for the runtime-monitoring checks of tikv/client-go (see DESIGN.md §1).

    tools/vcheck.py <PROPERTY-ID> <quick|thorough> [--seed N] [--replay FILE] [--only UNIT] [--keep]
    tools/vcheck.py --warm            build (not run) every unit, to fill the build cache
    tools/vcheck.py --list

For one property it builds the harness units of that property against /repo's
*current working tree* (go -overlay + -modfile; /repo is never modified), runs
each unit in its own process under a watchdog, reads the machine readable unit
reports written by harness/lib/vrep, merges race-detector logs, applies
KNOWN_FINDINGS.txt, writes evidence/<id>.json and prints

    VIOLATION property=<id> replay=<path>         (exit 1)
    KNOWN-FINDING: property=<id> <what fails>     (exit 0)
    INCONCLUSIVE property=<id> <why>              (exit 3, never a VIOLATION line)

Python standard library only.
"""
import glob
import hashlib
import json
import os
import re
import shutil
import subprocess
import sys
import time

VERIF = os.path.dirname(os.path.dirname(os.path.abspath(__file__)))
REPO = os.environ.get("VERIF_REPO", "/repo")
WORK = os.path.join(VERIF, ".work") if REPO == "/repo" else os.path.join(
    VERIF, ".work", "alt-" + hashlib.sha1(REPO.encode()).hexdigest()[:8])
ALT = REPO != "/repo"
MODPATH = "github.com/tikv/client-go/v2"

sys.path.insert(0, os.path.join(VERIF, "tools"))
from units import UNITS, LEVELS  # noqa: E402


# --------------------------------------------------------------------------
# toolchain / environment

def go_env():
    """Environment for every go invocation: offline, module cache only, the
    toolchain named in /repo/go.mod taken directly from the module cache."""
    env = dict(os.environ)
    ver = None
    try:
        for line in open(os.path.join(REPO, "go.mod")):
            m = re.match(r"^(?:go|toolchain)\s+(?:go)?(\d+\.\d+(?:\.\d+)?)\s*$", line.strip())
            if m:
                ver = m.group(1)
                if line.startswith("toolchain"):
                    break
    except OSError:
        pass
    gomodcache = env.get("GOMODCACHE") or os.path.join(env.get("GOPATH") or os.path.expanduser("~/go"), "pkg/mod")
    tc = None
    if ver:
        cand = os.path.join(gomodcache, "golang.org", "toolchain@v0.0.1-go%s.linux-amd64" % ver)
        if os.path.exists(os.path.join(cand, "bin", "go")):
            tc = cand
    if tc:
        env["PATH"] = os.path.join(tc, "bin") + os.pathsep + env.get("PATH", "")
        env["GOROOT"] = tc
        env["GOTOOLCHAIN"] = "local"
        env["GOSUMDB"] = "off"
    else:
        env.pop("GOROOT", None)
        env["GOTOOLCHAIN"] = "auto"
        env.pop("GOSUMDB", None)
    env["GOFLAGS"] = "-mod=mod"
    env["GOPROXY"] = "off"
    env["GONOSUMDB"] = "*"
    env["GONOSUMCHECK"] = "1"
    env["GOFLAGS"] = "-mod=mod"
    env.pop("GOWORK", None)
    env["GOWORK"] = "off"
    return env


EXTRA_REQUIRES = [
    ("github.com/anishathalye/porcupine", "v1.3.0"),
]


def gen_modfile():
    """Copy /repo/go.mod (+ porcupine) to .work/main.mod, go.sum next to it."""
    os.makedirs(WORK, exist_ok=True)
    src = open(os.path.join(REPO, "go.mod")).read()
    extra = "".join("\nrequire %s %s\n" % (m, v) for m, v in EXTRA_REQUIRES if m not in src)
    dst = os.path.join(WORK, "main.mod")
    _write_if_changed(dst, src + extra)
    sums = open(os.path.join(REPO, "go.sum")).read()
    extra_sum = os.path.join(VERIF, "tools", "extra.sum")
    if os.path.exists(extra_sum):
        sums += open(extra_sum).read()
    # keep sums go added itself on earlier runs (it appends missing ones)
    old = os.path.join(WORK, "main.sum")
    have = set(sums.splitlines())
    if os.path.exists(old):
        for l in open(old).read().splitlines():
            if l and l not in have:
                sums += l + "\n"
                have.add(l)
    _write_if_changed(old, sums)
    return dst


def gen_e2e_module():
    """harness/e2e is its own module (needs pingcap/tidb for unistore): go.mod
    and go.sum are derived from /repo/integration_tests on every run."""
    e2e = os.path.join(VERIF, "harness", "e2e")
    src = open(os.path.join(REPO, "integration_tests", "go.mod")).read()
    src = re.sub(r"^module\s+\S+", "module verif/e2e", src, count=1, flags=re.M)
    src = re.sub(r"(github\.com/tikv/client-go/v2\s*=>\s*)\.\./?", r"\g<1>" + REPO, src)
    extra = "".join("\nrequire %s %s\n" % (m, v) for m, v in EXTRA_REQUIRES if m not in src)
    # The module directory is shared by concurrent runs against different trees (VERIF_REPO): the generated
    # go.mod/go.sum go to the run's own work directory and are passed with -modfile; the file inside the
    # module directory only marks the module root (and serves hand runs against /repo).
    modfile = os.path.join(WORK, "e2e.mod")
    _write_if_changed(modfile, src + extra)
    if not ALT or not os.path.exists(os.path.join(e2e, "go.mod")):
        _write_if_changed(os.path.join(e2e, "go.mod"), src + extra)
    sums = open(os.path.join(REPO, "integration_tests", "go.sum")).read()
    have = set(sums.splitlines())
    for extra_file in (os.path.join(REPO, "go.sum"), os.path.join(VERIF, "tools", "extra.sum"), os.path.join(e2e, "go.sum")):
        if os.path.exists(extra_file):
            for l in open(extra_file).read().splitlines():
                if l and l not in have:
                    sums += l + "\n"
                    have.add(l)
    old_sum = os.path.join(WORK, "e2e.sum")
    if os.path.exists(old_sum):
        for l in open(old_sum).read().splitlines():
            if l and l not in have:
                sums += l + "\n"
                have.add(l)
    _write_if_changed(old_sum, sums)
    if not ALT or not os.path.exists(os.path.join(e2e, "go.sum")):
        _write_if_changed(os.path.join(e2e, "go.sum"), sums)
    return e2e


def _write_if_changed(path, content):
    try:
        if open(path).read() == content:
            return
    except OSError:
        pass
    os.makedirs(os.path.dirname(path), exist_ok=True)
    with open(path, "w") as f:
        f.write(content)


def gen_overlay(unit):
    """Overlay: (a) harness/lib/<p>/*.go -> /repo/verifh/<p>/ (virtual packages),
    (b) for an in-package unit: the package's own *_test.go deleted (except
    unit['keep_tests']) and the unit's harness files added as zz_verif_*."""
    replace = {}
    lib = os.path.join(VERIF, "harness", "lib")
    for root, _dirs, files in os.walk(lib):
        rel = os.path.relpath(root, lib)
        for f in files:
            if f.endswith(".go"):
                replace[os.path.join(REPO, "verifh", rel, f)] = os.path.join(root, f)
    if unit.get("module", "main") == "main":
        pkgdir = os.path.normpath(os.path.join(REPO, unit["pkg"]))
        keep = set(unit.get("keep_tests", []))
        if os.path.isdir(pkgdir):
            for f in os.listdir(pkgdir):
                if f.endswith("_test.go") and f not in keep and not unit.get("keep_all_tests"):
                    replace[os.path.join(pkgdir, f)] = ""
        srcdir = os.path.join(VERIF, "harness", "inpkg", unit["src"])
        files = unit.get("files")
        for f in sorted(os.listdir(srcdir)):
            if not f.endswith(".go"):
                continue
            if files and f not in files:
                continue
            name = f if f.endswith("_test.go") else f[:-3] + "_test.go"
            replace[os.path.join(pkgdir, "zz_verif_" + name)] = os.path.join(srcdir, f)
    path = os.path.join(WORK, "overlay-%s.json" % unit["name"])
    _write_if_changed(path, json.dumps({"Replace": replace}, indent=1, sort_keys=True))
    return path


# --------------------------------------------------------------------------
# running one unit

def build_cmd(unit, tier, compile_only=False):
    overlay = gen_overlay(unit)
    args = ["go", "test", "-tags", "verif", "-vet=off", "-count=1", "-overlay", overlay]
    if unit.get("module", "main") == "main":
        args += ["-modfile", gen_modfile()]
        cwd = REPO
        pkg = unit["pkg"]
    else:
        cwd = gen_e2e_module()
        args += ["-modfile", os.path.join(WORK, "e2e.mod")]
        pkg = unit["pkg"]
    if unit.get("race", True):
        args.append("-race")
    if unit.get("asan") and tier == "thorough":
        args.append("-asan")
        if "-race" in args:
            args.remove("-race")
    if unit.get("gcflags"):
        args.append("-gcflags=" + unit["gcflags"])
    if compile_only:
        args += ["-run", "^$"]
    else:
        tmo = unit.get("timeout_s", {}).get(tier, 900 if tier == "quick" else 3600)
        args += ["-run", unit["run"], "-timeout", "%ds" % (tmo + 60), "-v"]
        if unit.get("test_args"):
            args += unit["test_args"]
    args.append(pkg)
    return args, cwd


def run_unit(unit, tier, seed, replay=None):
    name = unit["name"]
    out = os.path.join(WORK, "out", name)
    shutil.rmtree(out, ignore_errors=True)
    os.makedirs(out)
    racedir = os.path.join(out, "race")
    os.makedirs(racedir)
    env = go_env()
    env["VERIF_OUT"] = out
    env["VERIF_SEED"] = str(seed)
    env["VERIF_TIER"] = tier
    env["VERIF_DIR"] = VERIF
    env["VERIF_REPO"] = REPO
    if replay:
        env["VERIF_REPLAY"] = os.path.abspath(replay)
    else:
        env.pop("VERIF_REPLAY", None)
    env["GORACE"] = "halt_on_error=0 log_path=%s/race history_size=3" % racedir
    for k, v in unit.get("env", {}).items():
        env[k] = v
    for k, v in unit.get("env_" + tier, {}).items():
        env[k] = v
    args, cwd = build_cmd(unit, tier)
    tmo = unit.get("timeout_s", {}).get(tier, 900 if tier == "quick" else 3600)
    log = os.path.join(out, "go-test.log")
    t0 = time.time()
    with open(log, "w") as lf:
        lf.write("# cwd=%s\n# %s\n" % (cwd, " ".join(args)))
        lf.flush()
        p = subprocess.run(["timeout", "-s", "QUIT", "-k", "30", str(tmo + 120)] + args, cwd=cwd, env=env,
                           stdout=lf, stderr=subprocess.STDOUT)
    wall = time.time() - t0
    text = open(log, errors="replace").read()
    res = {"unit": name, "exit": p.returncode, "wall_s": round(wall, 1), "log": log, "reports": [],
           "build_failed": False, "crash": None, "timed_out": p.returncode in (124, 137)}
    if "[build failed]" in text or "[setup failed]" in text or re.search(r"^# .*\n.*\.go:\d+:\d+: ", text, re.M) and "--- " not in text and "=== RUN" not in text:
        res["build_failed"] = True
    for f in sorted(glob.glob(os.path.join(out, "*.json"))):
        try:
            res["reports"].append(json.load(open(f)))
        except Exception as e:  # partial file
            res["reports"].append({"unit": os.path.basename(f), "finished": False, "parse_error": str(e)})
    m = re.search(r"^(panic: .*|fatal error: .*|.*ERROR: AddressSanitizer.*)$", text, re.M)
    if not m and p.returncode not in (0, 124, 137):
        # a zap Fatal of the code under test ends the process without a panic line
        f = re.search(r"^\[[^\]]*\] \[FATAL\] (\[[^\]]*\] \[\"[^\"]*\"\])", text, re.M)
        if f:
            m = re.match(r"(.*)", "fatal log: " + f.group(1))
    if m and not res["build_failed"]:
        res["crash"] = m.group(1)[:300]
    res["races"] = collect_races(racedir)
    return res


RACE_RE = re.compile(r"WARNING: DATA RACE\n(.*?)\n==================", re.S)


def collect_races(racedir):
    """De-duplicate race reports: by the pair of outermost frames, then by the
    stack pair with line numbers stripped."""
    seen = {}
    total = 0
    for f in glob.glob(os.path.join(racedir, "race*")):
        text = open(f, errors="replace").read()
        for blk in RACE_RE.findall(text):
            total += 1
            stacks = re.split(r"\n\n", blk.strip())
            key_frames = []
            files = set()
            for st in stacks[:2]:
                frames = re.findall(r"^  (\S+)\(\)\n\s+(\S+?):\d+", st, re.M)
                if frames:
                    key_frames.append(frames[0][0] + " <- " + frames[-1][0])
                for _fn, path in frames:
                    if "/repo/" in path or path.startswith(REPO):
                        files.add(path.split("/repo/")[-1])
            key = " || ".join(key_frames)
            if key not in seen:
                seen[key] = {"key": key, "count": 0, "files": sorted(files), "first": blk[:1500]}
            seen[key]["count"] += 1
    return {"total": total, "distinct": list(seen.values())}


# --------------------------------------------------------------------------
# known findings

def load_known(pid):
    known = {}
    path = os.path.join(VERIF, "KNOWN_FINDINGS.txt")
    if not os.path.exists(path):
        return known
    for line in open(path):
        line = line.strip()
        m = re.match(r"^finding:\s+property=(\S+)\s+key=(\S+)\s*(.*)$", line)
        if m and m.group(1) == pid:
            known[m.group(2)] = m.group(3)
    return known


# --------------------------------------------------------------------------

def check(pid, tier, seed, replay=None, only=None):
    units = [u for u in UNITS if u["property"] == pid and (not only or u["name"] == only)]
    if not units:
        print("no units registered for", pid)
        return 2
    if tier == "quick":
        units = [u for u in units if not u.get("thorough_only")]
    t0 = time.time()
    level = LEVELS.get(pid, "exploration")
    known = load_known(pid)
    violations = []      # (sig, msg, detail, unit)
    inconclusive = []
    merged = {"evaluations": 0, "distinct_nontrivial": 0, "rule": [], "samples": [], "units": {}, "races": {},
              "whitebox_unavailable": []}
    assumptions = []
    exhaustive = []
    # units are independent processes with their own output directories: run up to VERIF_UNIT_JOBS side by side
    jobs = max(1, int(os.environ.get("VERIF_UNIT_JOBS", "6")))
    if len(units) > 1 and jobs > 1:
        for u in units:
            build_cmd(u, tier, compile_only=True)  # generate the shared overlay / module files before the workers start
        from concurrent.futures import ThreadPoolExecutor
        with ThreadPoolExecutor(max_workers=jobs) as ex:
            results = list(ex.map(lambda u: run_unit(u, tier, seed, replay), units))
    else:
        results = [run_unit(u, tier, seed, replay) for u in units]
    for u, r in zip(units, results):
        uinfo = {"exit": r["exit"], "wall_s": r["wall_s"], "reports": {}}
        merged["units"][u["name"]] = uinfo
        if r["build_failed"]:
            if u.get("optional"):
                merged["whitebox_unavailable"].append(u["name"])
                continue
            inconclusive.append("unit %s: harness does not build against the current tree (see %s)" % (u["name"], r["log"]))
            uinfo["build_failed"] = True
            continue
        finished = [x for x in r["reports"] if x.get("finished") and x.get("property") in (None, pid)]
        for rep in r["reports"]:
            rname = rep.get("unit", "?")
            if rep.get("property") not in (None, pid):
                # a monitor of another property riding on this workload (e.g. the C04 trace monitor on the
                # C01 executions): it is judged by that property's own check, which runs the same unit
                continue
            merged["evaluations"] += int(rep.get("evaluations", 0))
            merged["distinct_nontrivial"] += int(rep.get("distinct_nontrivial", 0))
            if rep.get("rule"):
                merged["rule"].append("[%s] %s" % (rname, rep["rule"]))
            for s in (rep.get("samples") or [])[:3]:
                merged["samples"].append({"unit": rname, "case": s})
            uinfo["reports"][rname] = {"evaluations": rep.get("evaluations", 0),
                                       "distinct_nontrivial": rep.get("distinct_nontrivial", 0),
                                       "counters": rep.get("counters", {}), "finished": rep.get("finished", False),
                                       "violations": rep.get("violations_total", 0), "wall_s": rep.get("wall_s")}
            if rep.get("exhaustive"):
                exhaustive.append(rname)
            for a in rep.get("assumptions") or []:
                if a not in assumptions:
                    assumptions.append(a)
            for v in rep.get("violations") or []:
                violations.append((v.get("sig", "?"), v.get("msg", ""), v.get("detail"), rname))
            if int(rep.get("violations_total", 0)) > 0 and not rep.get("violations"):
                violations.append(("unlisted", "violations counted but none recorded", None, rname))
            for i in rep.get("inconclusive") or []:
                inconclusive.append("%s: %s" % (rname, i))
        if r["crash"]:
            # a process-fatal report (panic in the code under test, checkptr, ASan,
            # race-detector abort) ends every monitor in that process
            sig = "crash:" + re.sub(r"0x[0-9a-f]+|\d{3,}", "N", r["crash"])[:120].replace(" ", "_")
            violations.append((sig, "unit %s died: %s" % (u["name"], r["crash"]), {"log_tail": tail(r["log"], 120)}, u["name"]))
        elif r["timed_out"]:
            inconclusive.append("unit %s: watchdog fired after %.0fs (see %s)" % (u["name"], r["wall_s"], r["log"]))
        elif not finished:
            inconclusive.append("unit %s wrote no finished report (exit %s, see %s)" % (u["name"], r["exit"], r["log"]))
        elif r["exit"] != 0 and not any(int(x.get("violations_total", 0)) for x in r["reports"]) and not u.get("shared_workload"):
            inconclusive.append("unit %s: go test exit %s without recorded violation (see %s)" % (u["name"], r["exit"], r["log"]))
        # races
        if r["races"]["total"]:
            merged["races"][u["name"]] = {"total": r["races"]["total"],
                                          "distinct": [{k: d[k] for k in ("key", "count", "files")} for d in r["races"]["distinct"]]}
            if u.get("race_is_violation"):
                pats = u["race_is_violation"]
                for d in r["races"]["distinct"]:
                    if any(any(p in f for p in pats) for f in d["files"]):
                        violations.append(("race:" + hashlib.sha1(d["key"].encode()).hexdigest()[:10],
                                           "data race in anchored code: " + d["key"], {"report": d["first"]}, u["name"]))
    # ---- verdict
    outroot = WORK if ALT else VERIF
    os.makedirs(os.path.join(outroot, "replay"), exist_ok=True)
    os.makedirs(os.path.join(outroot, "evidence"), exist_ok=True)
    new, known_hit = [], {}
    for sig, msg, detail, uname in violations:
        if sig in known:
            known_hit.setdefault(sig, msg)
        else:
            new.append((sig, msg, detail, uname))
    lines = []
    for k, text in known.items():
        lines.append("KNOWN-FINDING: property=%s key=%s %s (%s)" % (pid, k, text, "observed in this run" if k in known_hit else "not reproduced by this run"))
    rc = 0
    replay_paths = []
    seen_sig = set()
    for n, (sig, msg, detail, uname) in enumerate(new):
        if sig in seen_sig:
            continue
        seen_sig.add(sig)
        path = os.path.join(outroot, "replay", "%s-%s-%d-%d.json" % (pid, tier, seed, len(seen_sig)))
        with open(path, "w") as f:
            json.dump({"property": pid, "tier": tier, "seed": seed, "unit": uname, "sig": sig, "msg": msg, "detail": detail,
                       "rerun": "VERIF_SEED=%d tools/vcheck.py %s %s --only %s" % (seed, pid, tier, unit_of(uname, units))}, f, indent=1, default=str)
        replay_paths.append(path)
        lines.append("VIOLATION property=%s replay=%s sig=%s :: %s" % (pid, path, sig, msg[:300]))
        rc = 1
    if rc == 0 and inconclusive:
        rc = 3
        for i in inconclusive[:10]:
            lines.append("INCONCLUSIVE property=%s %s" % (pid, i))
    cov = {
        "evaluations": merged["evaluations"],
        "distinct_nontrivial": merged["distinct_nontrivial"],
        "rule": " ;; ".join(merged["rule"])[:6000],
        "samples": merged["samples"][:12],
        "units": merged["units"],
        "race_reports": merged["races"],
        "whitebox_unavailable": merged["whitebox_unavailable"],
        "inconclusive": inconclusive[:20],
        "known_findings_observed": sorted(known_hit),
        "violation_signatures": sorted(seen_sig),
        "verdict": {0: "held on what was observed", 1: "violated", 3: "inconclusive"}.get(rc, "error"),
    }
    if exhaustive:
        cov["exhaustive_units"] = exhaustive
    ev = {"property_id": pid, "tier": tier, "seed": seed, "level": level, "coverage": cov,
          "assumptions": assumptions, "wall_s": round(time.time() - t0, 1), "violations": len(seen_sig)}
    with open(os.path.join(outroot, "evidence", pid + ".json"), "w") as f:
        json.dump(ev, f, indent=1, default=str)
    for l in lines:
        print(l)
    print("%s %s seed=%d: %s; evaluations=%d distinct=%d races=%d wall=%.0fs" % (
        pid, tier, seed, cov["verdict"], cov["evaluations"], cov["distinct_nontrivial"],
        sum(v["total"] for v in merged["races"].values()), time.time() - t0))
    return rc


def unit_of(report_name, units):
    for u in units:
        if report_name == u["name"] or report_name.startswith(u["name"]):
            return u["name"]
    return units[0]["name"]


def tail(path, n):
    try:
        return open(path, errors="replace").read().splitlines()[-n:]
    except OSError:
        return []


def warm():
    """setup_cmd: compile every unit once so later runs hit the build cache."""
    rc = 0
    seen = set()
    for u in UNITS:
        for tier in ("quick",):
            args, cwd = build_cmd(u, tier, compile_only=True)
            key = (cwd, tuple(a for a in args if not a.endswith(".json")), u["src"] if "src" in u else "")
            if key in seen:
                continue
            seen.add(key)
            t0 = time.time()
            p = subprocess.run(args, cwd=cwd, env=go_env(), stdout=subprocess.PIPE, stderr=subprocess.STDOUT, text=True)
            ok = p.returncode == 0
            print("warm %-28s %s %.0fs" % (u["name"], "ok" if ok else "FAILED", time.time() - t0), flush=True)
            if not ok:
                print(p.stdout[-3000:])
                if not u.get("optional"):
                    rc = 1
    return rc


def main(argv):
    if len(argv) >= 2 and argv[1] == "--warm":
        return warm()
    if len(argv) >= 2 and argv[1] == "--list":
        for u in UNITS:
            print(u["property"], u["name"], u.get("module", "main"), u["pkg"])
        return 0
    if len(argv) < 3:
        print(__doc__)
        return 2
    pid, tier = argv[1], argv[2]
    seed = int(os.environ.get("VERIF_SEED", "1") or 1)
    replay = only = None
    i = 3
    while i < len(argv):
        if argv[i] == "--seed":
            seed = int(argv[i + 1]); i += 2
        elif argv[i] == "--replay":
            replay = argv[i + 1]; i += 2
            try:
                rj = json.load(open(replay))
                seed = int(rj.get("seed", seed))
                only = only or rj.get("unit_name")
            except Exception:
                pass
        elif argv[i] == "--only":
            only = argv[i + 1]; i += 2
        else:
            i += 1
    if os.environ.get("VERIF_TIER") in ("quick", "thorough") and tier not in ("quick", "thorough"):
        tier = os.environ["VERIF_TIER"]
    return check(pid, tier, seed, replay, only)


if __name__ == "__main__":
    sys.exit(main(sys.argv))
