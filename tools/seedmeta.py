#!/usr/bin/env python3
"""tools/seedmeta.py <seed-id> <caught_by ; separated> <what I ran> [note] -> seeded/<id>/meta.json"""
import json, sys
sid, caught, ran = sys.argv[1], sys.argv[2], sys.argv[3]
d = '/verif/seeded/' + sid
a = json.load(open(d + '/agent_meta.json'))
m = dict(id=sid, property=a['property'], breaks=a.get('summary') or a.get('breaks'), needs_to_manifest=a.get('needs_to_manifest'), files=a.get('files'), demo_cmd=a.get('demo_cmd') or ('go test -vet=off -count=1 -run TestSeededDemo ' + str(a.get('demo_pkg')) + ' (in ' + str(a.get('module_subdir')) + ')'),
         confirmed='patch applies to /repo HEAD at adoption time, builds, demonstration fails with the patch and passes without it (tools/adopt_seed.sh)',
         what_i_ran=ran, caught_by=[c.strip() for c in caught.split(';') if c.strip()])
if len(sys.argv) > 4:
    m['note'] = sys.argv[4]
json.dump(m, open(d + '/meta.json', 'w'), indent=1)
print('wrote', d + '/meta.json')
