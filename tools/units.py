"""Registry of harness units per property (consumed by vcheck.py): the union of
tools/units.d/<property>.json (a JSON list of unit objects each).

A unit = one `go test` process.
  module "main" (default): the unit's files (harness/inpkg/<src>/*.go, or only
      those named in "files") are mounted by -overlay into /repo/<pkg> as
      zz_verif_*_test.go; the package's own *_test.go files are hidden unless
      listed in keep_tests (or keep_all_tests is true).
  module "e2e":  a package of the stand-alone module harness/e2e (needs the
      unistore mock from pingcap/tidb; go.mod derived from
      /repo/integration_tests/go.mod with client-go replaced by /repo).
Fields: property, name, pkg, src, run (test regex), race (default true),
timeout_s {quick, thorough}, env / env_quick / env_thorough, test_args,
thorough_only, optional (white-box extension: a build failure is recorded as
whitebox_unavailable, not as a broken check), race_is_violation (list of path
fragments: a race report touching such a file is a violation), asan (thorough
tier builds with -asan instead of -race).
"""
import glob
import json
import os

_here = os.path.dirname(os.path.abspath(__file__))
UNITS = []
for _f in sorted(glob.glob(os.path.join(_here, "units.d", "*.json"))):
    UNITS.extend(json.load(open(_f)))

LEVELS = {"C%02d" % i: "exploration" for i in range(1, 21)}
for _f in sorted(glob.glob(os.path.join(_here, "claims.d", "*.json"))):
    _c = json.load(open(_f))
    LEVELS[os.path.basename(_f)[:-5]] = _c.get("level", "exploration")
