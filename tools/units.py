"""Registry of harness units per property (consumed by vcheck.py).

A unit = one `go test` process.
  module "main": the unit's files (harness/inpkg/<src>/*.go) are mounted by
      -overlay into /repo/<pkg> as zz_verif_*_test.go; the package's own
      *_test.go files are hidden unless listed in keep_tests.
  module "e2e":  a package of the stand-alone module harness/e2e (needs the
      unistore mock from pingcap/tidb; go.mod derived from
      /repo/integration_tests/go.mod with client-go replaced by /repo).
Fields: property, name, pkg, src, run (test regex), race (default True),
timeout_s {quick, thorough}, optional (white-box extension: a build failure is
recorded as whitebox_unavailable, not as a broken check), race_is_violation
(list of path fragments: a race report touching such a file is a violation).
"""

LEVELS = {pid: "exploration" for pid in ["C%02d" % i for i in range(1, 21)]}
LEVELS.update({"C02": "fault_enumeration", "C03": "fault_enumeration"})

UNITS = [
    # ---- C19 codec
    dict(property="C19", name="c19-codec", pkg="./util/codec/", src="util_codec", run="^TestVerifC19",
         timeout_s=dict(quick=300, thorough=1800)),
]
