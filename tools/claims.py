"""Per-property claim texts for MANIFEST.json (see genmanifest.py)."""

HOOK_COMMITS = []

NOT_APPLICABLE = {}

CLAIMS = {
    "C19": dict(
        technique="runtime monitor: round-trip/order/prefix oracles + reference decoders over exhaustive-short and boundary inputs, under -race (checkptr)",
        text="Exploration: the real encoders/decoders are executed on every byte string of length <=3 over the boundary alphabet, "
             "lengths 0..26 around the 8-byte group, boundary integers (±2^k±{0,1,2}, varint tag borders) and seeded random inputs; "
             "each execution is judged by oracles for decode∘encode=id, returned suffix, order, prefix-freeness, and malformed inputs "
             "are compared with small reference decoders. Held = no oracle failed on the inputs listed in the evidence.",
        note="Trusts the reference decoders written in the harness (one screen each) and Go's bytes.Compare; sampled beyond the exhaustive part.",
    ),
}
