"""Per-property claim texts for MANIFEST.json: tools/claims.d/<property>.json
with keys technique, text, note, level (see genmanifest.py)."""
import glob
import json
import os

_here = os.path.dirname(os.path.abspath(__file__))
HOOK_COMMITS = []
NOT_APPLICABLE = {}
CLAIMS = {}
for _f in sorted(glob.glob(os.path.join(_here, "claims.d", "*.json"))):
    CLAIMS[os.path.basename(_f)[:-5]] = json.load(open(_f))
