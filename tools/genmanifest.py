#!/usr/bin/env python3
"""Regenerates /verif/MANIFEST.json from tools/units.py and tools/claims.py."""
import json
import os
import sys

VERIF = os.path.dirname(os.path.dirname(os.path.abspath(__file__)))
sys.path.insert(0, os.path.join(VERIF, "tools"))
from units import UNITS, LEVELS  # noqa: E402
from claims import CLAIMS, NOT_APPLICABLE, HOOK_COMMITS  # noqa: E402

props = [json.loads(l) for l in open(os.path.join(VERIF, "properties.jsonl")) if l.strip()]
ids = [p["id"] for p in props]
have = sorted({u["property"] for u in UNITS})

checks = []
for pid in ids:
    if pid not in have or pid not in CLAIMS:
        continue
    c = CLAIMS[pid]
    checks.append({
        "property_id": pid,
        "quick_cmd": "python3 tools/vcheck.py %s quick" % pid,
        "thorough_cmd": "python3 tools/vcheck.py %s thorough" % pid,
        "evidence_file": "/verif/evidence/%s.json" % pid,
        "replay_cmd_template": "python3 tools/vcheck.py %s quick --replay {path}" % pid,
        "engine": "vcheck",
        "level_claimed": {"category": LEVELS[pid], "text": c["text"], "design_ref": c.get("design_ref", "DESIGN.md §2 " + pid)},
        "level_note": c["note"],
        "technique": c["technique"],
    })

na = []
for pid in ids:
    if pid in [c["property_id"] for c in checks]:
        continue
    na.append({"property_id": pid, "reason": NOT_APPLICABLE.get(pid, "check not built yet in this round; no claim is made")})

manifest = {
    "version": 1,
    "setup_cmd": "bash tools/setup.sh",
    "hooks": {
        "guard": "verif",
        "enable": "go test -tags verif -overlay <generated> -modfile <generated>: harness files live in /verif and are mounted into /repo packages by the go overlay; /repo itself carries no hook code",
        "baseline_off_cmd": "cd /repo && GOFLAGS=-mod=mod GOPROXY=off go test -vet=off -count=1 -timeout 25m ./...",
        "source_commits": HOOK_COMMITS,
        "add_only": True,
    },
    "engines": [{
        "name": "vcheck",
        "path": "tools/vcheck.py",
        "serves_properties": [c["property_id"] for c in checks],
        "kind_free_text": "runtime monitoring: real client-go code driven by generated/hostile/fault-injected workloads under the Go race detector (checkptr), monitors = reference models, trace monitors and history checkers over events recorded at the client boundary; harness mounted by go -overlay, results via harness/lib/vrep",
    }],
    "checks": checks,
    "not_applicable": na,
    "notes": "All checks rebuild from /repo's working tree on every run (go -overlay, nothing copied). Known findings: KNOWN_FINDINGS.txt. Exit 3 + INCONCLUSIVE line = watchdog/coverage floor, never folded into held/violated.",
}
with open(os.path.join(VERIF, "MANIFEST.json"), "w") as f:
    json.dump(manifest, f, indent=1)
print("MANIFEST.json: %d checks, %d not claimed" % (len(checks), len(na)))
