#!/bin/bash
# tools/adopt_seed.sh <seed-worktree> <seed-id> <demo-file-relative-to-repo> <go-package> <TestName> [module-subdir]
# Copies OUT/ of a seeded-change agent to seeded/<id>/ and confirms, in a fresh scratch worktree of /repo HEAD:
# the patch applies, the tree builds, the demonstration FAILS with the patch and PASSES without it.
set -u
src=$1; id=$2; demo=$3; pkg=$4; tname=$5; sub=${6:-.}
export GOFLAGS=-mod=mod GOPROXY=off
dst=/verif/seeded/$id; mkdir -p "$dst/demo"
cp "$src/OUT/patch.diff" "$dst/patch.diff"; cp -r "$src/OUT/demo/." "$dst/demo/"; cp "$src/OUT/meta.json" "$dst/agent_meta.json"
wt=/tmp/adopt-$id-$$; git -C /repo worktree add -q "$wt" HEAD || exit 2
mkdir -p "$(dirname "$wt/$demo")"; cp "$src/$demo" "$wt/$demo"
run() { (cd "$wt/$sub" && go test -vet=off -count=1 -run "$tname" "$pkg" > "$wt/demo.out" 2>&1; echo $?); }
without=$(run)
if ! git -C "$wt" apply "$dst/patch.diff"; then echo "PATCH DOES NOT APPLY"; git -C /repo worktree remove --force "$wt"; exit 2; fi
build=$( (cd "$wt" && go build ./... >/dev/null 2>&1; echo $?) )
with=$(run)
tail -5 "$wt/demo.out" | cut -c1-200
echo "seed=$id build_rc=$build demo_without_patch_rc=$without demo_with_patch_rc=$with"
git -C /repo worktree remove --force "$wt"
[ "$build" = 0 ] && [ "$without" = 0 ] && [ "$with" != 0 ] && echo CONFIRMED || echo NOT-CONFIRMED
