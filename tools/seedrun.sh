#!/bin/bash
# tools/seedrun.sh <seeded-dir> [tier] [property...]
# Applies seeded/<id>/patch.diff to a scratch worktree of /repo's HEAD (outside /repo and /verif), runs the given
# properties' checks (default: the property named in meta.json) against it with VERIF_REPO, prints the verdicts and
# removes the worktree again.  /repo itself is never touched.
set -u
dir=$(cd "$1" && pwd); tier=${2:-quick}; shift; shift || true
props="$*"
[ -z "$props" ] && props=$(python3 -c "import json,sys;print(json.load(open('$dir/meta.json'))['property'])")
wt=/tmp/seedrun-$(basename "$dir")-$$
git -C /repo worktree add -q "$wt" HEAD || exit 2
if ! git -C "$wt" apply "$dir/patch.diff"; then echo "PATCH DOES NOT APPLY: $dir"; git -C /repo worktree remove --force "$wt"; exit 2; fi
cd "$(dirname "$0")/.."
for p in $props; do
  VERIF_REPO="$wt" python3 tools/vcheck.py "$p" "$tier" 2>&1 | grep -E "^(VIOLATION|INCONCLUSIVE|KNOWN|C[0-9]+ )" | cut -c1-400
done
git -C /repo worktree remove --force "$wt"
rm -rf ".work/alt-$(python3 -c "import hashlib;print(hashlib.sha1('$wt'.encode()).hexdigest()[:8])")"
