#!/bin/bash
# setup_cmd: builds (does not run) every harness unit against /repo so that the
# checks start from a warm build cache.  Offline; files on disk only.
cd "$(dirname "$0")/.."
exec python3 tools/vcheck.py --warm
