package uni

import (
	"bytes"
	"context"
	"fmt"
	"runtime"
	"sync"
	"sync/atomic"
	"time"

	"github.com/pingcap/failpoint"
	"github.com/pingcap/kvproto/pkg/metapb"
	"github.com/pingcap/tidb/pkg/store/mockstore/unistore"
	ustikv "github.com/pingcap/tidb/pkg/store/mockstore/unistore/tikv"
	"github.com/tikv/client-go/v2/testutils"
	"github.com/tikv/client-go/v2/tikv"
	"github.com/tikv/client-go/v2/tikvrpc"
	"github.com/tikv/client-go/v2/txnkv/transaction"
	"github.com/tikv/client-go/v2/util"
	"github.com/tikv/client-go/v2/util/async"
	"github.com/tikv/client-go/v2/util/codec"
	pd "github.com/tikv/pd/client"
	"github.com/tikv/pd/client/constants"
)

// Backend names.
const (
	Mock = "mocktikv"
	Uni  = "unistore"
)

// Universe = one back-end + N client stores + log + virtual clock.
type Universe struct {
	Backend string
	Log     *Log
	Clock   *VClock

	// back-end
	backClient tikv.Client
	backPD     pd.Client
	Cluster    testutils.Cluster
	MockCl     *testutils.MockCluster // nil on unistore
	StoreIDs   []uint64

	Clients   []*ClientStore // guarded by clientsMu (NewClient may be called from fault hooks inside concurrent RPCs)
	clientsMu sync.Mutex
	// Truth is an un-interposed, un-recorded store for ground-truth RPCs.
	truth *tikv.KVStore

	defaultDecider atomic.Pointer[Decider]
	late           lateQueue
	bg             atomic.Int64 // background goroutines of transactions begun through the harness
	closed         bool
	asyncGuard     sync.RWMutex // unistore only: no TSO is issued while an async-commit/1PC prewrite executes (see Net.forward)
	topoMu         sync.Mutex   // serializes topology changes issued from concurrent RPC hooks
	borders        [][]byte     // raw split keys currently in effect (guarded by topoMu)
	panicMu        sync.Mutex
	panics         []BackendPanic
}

// ClientStore is one KVStore with its interposers.
type ClientStore struct {
	ID    int
	Store *tikv.KVStore
	Net   *Net
	PD    *PD
	u     *Universe
}

type unistoreClientWrapper struct {
	*unistore.RPCClient
}

func (c *unistoreClientWrapper) SendRequestAsync(ctx context.Context, addr string, req *tikvrpc.Request, cb async.Callback[*tikvrpc.Response]) {
	go func() {
		cb.Schedule(c.RPCClient.SendRequest(ctx, addr, req, tikv.ReadTimeoutShort))
	}()
}

func (c *unistoreClientWrapper) SetEventListener(listener tikv.ClientEventListener) {}

// New creates a universe.  stores is the number of stores (mocktikv only;
// unistore is single-store).
func New(backend string, stores int) (*Universe, error) {
	enableFailpointsOnce.Do(func() {
		// The stores of both mocks have no real address: the client's store health check would dial
		// "store1" and mark the store unreachable for good after the first injected transport error.
		util.EnableFailpoints()
		_ = failpoint.Enable("tikvclient/injectLiveness", `return("reachable")`)
	})
	u := &Universe{Backend: backend, Log: &Log{}, Clock: NewVClock()}
	switch backend {
	case Mock:
		client, cluster, pdClient, err := testutils.NewMockTiKV("", nil)
		if err != nil {
			return nil, err
		}
		if stores <= 1 {
			sid, _, _ := testutils.BootstrapWithSingleStore(cluster)
			u.StoreIDs = []uint64{sid}
		} else {
			sids, _, _, _ := testutils.BootstrapWithMultiStores(cluster, stores)
			u.StoreIDs = sids
		}
		u.backClient, u.backPD, u.Cluster, u.MockCl = client, pdClient, cluster, cluster
	case Uni:
		client, pdClient, cluster, err := unistore.New("", nil, constants.NullKeyspaceID, nil)
		if err != nil {
			return nil, err
		}
		sid, _, _ := unistore.BootstrapWithSingleStore(cluster)
		u.StoreIDs = []uint64{sid}
		u.backClient, u.backPD, u.Cluster = &unistoreClientWrapper{client}, pdClient, cluster
		u.Clock = NewVClockFrom(ustikv.GetTS)
	default:
		return nil, fmt.Errorf("unknown backend %q", backend)
	}
	// the truth store uses the virtual clock as well (its reads must be able to
	// see everything) but is neither recorded nor fault-injected
	tpd := &PD{Client: u.backPD, u: u, id: -1}
	ts, err := tikv.NewTestTiKVStore(&passClient{u.backClient}, tpd, nil, nil, 0)
	if err != nil {
		return nil, err
	}
	u.truth = ts
	return u, nil
}

// passClient protects the shared back-end client from being closed by one store.
type passClient struct{ tikv.Client }

func (p *passClient) Close() error { return nil }

// SetDefaultDecider installs a fault plan consulted by every client that has no plan of its own.
func (u *Universe) SetDefaultDecider(d Decider) {
	if d == nil {
		u.defaultDecider.Store(nil)
		return
	}
	u.defaultDecider.Store(&d)
}

// clients returns a snapshot of the fully constructed clients.
func (u *Universe) clients() []*ClientStore {
	u.clientsMu.Lock()
	defer u.clientsMu.Unlock()
	out := make([]*ClientStore, 0, len(u.Clients))
	for _, c := range u.Clients {
		if c != nil {
			out = append(out, c)
		}
	}
	return out
}

// NewClient adds a client KVStore to the universe.
func (u *Universe) NewClient(opts ...tikv.Option) (*ClientStore, error) {
	u.clientsMu.Lock()
	id := len(u.Clients)
	u.Clients = append(u.Clients, nil) // reserve the id
	u.clientsMu.Unlock()
	net := &Net{u: u, id: id, inner: u.backClient}
	p := &PD{Client: u.backPD, u: u, id: id, net: net}
	st, err := tikv.NewTestTiKVStore(net, p, nil, nil, 0, opts...)
	if err != nil {
		return nil, err
	}
	c := &ClientStore{ID: id, Store: st, Net: net, PD: p, u: u}
	u.clientsMu.Lock()
	u.Clients[id] = c
	u.clientsMu.Unlock()
	return c, nil
}

// Begin starts a transaction whose background goroutines are counted by the
// universe (drain condition).
func (c *ClientStore) Begin(opts ...tikv.TxnOption) (*transaction.KVTxn, error) {
	txn, err := c.Store.Begin(opts...)
	if err != nil {
		return nil, err
	}
	c.u.Track(txn)
	return txn, nil
}

// Track counts the background goroutines of txn for Drain.
func (u *Universe) Track(txn *transaction.KVTxn) {
	txn.SetBackgroundGoroutineLifecycleHooks(transaction.LifecycleHooks{
		Pre:  func() { u.bg.Add(1) },
		Post: func() { u.bg.Add(-1) },
	})
}

// Kill makes the client dead: every later RPC and TSO request of it fails at once.
func (c *ClientStore) Kill() {
	c.Net.Kill()
	c.u.Log.Notef("kill client %d", c.ID)
}

// Quiet reports whether no tracked background goroutine runs and no RPC is in flight.
func (u *Universe) Quiet() bool {
	if u.bg.Load() != 0 {
		return false
	}
	for _, c := range u.clients() {
		if c.Net.Inflight() != 0 {
			return false
		}
	}
	return true
}

// Drain waits until the universe has been quiet, with no new event, for a
// number of consecutive polls.  It returns false when the (generous) bound
// was hit: the caller treats that as inconclusive, not as a violation.
func (u *Universe) Drain() bool {
	const need = 6
	stable := 0
	last := u.Log.Now()
	deadline := time.Now().Add(60 * time.Second) // watchdog only
	for i := 0; ; i++ {
		runtime.Gosched()
		if i > 20 {
			time.Sleep(time.Duration(min(i/20, 10)) * 200 * time.Microsecond)
		}
		now := u.Log.Now()
		if u.Quiet() && now == last {
			stable++
			if stable >= need {
				return true
			}
		} else {
			stable = 0
			last = now
		}
		if i%256 == 255 && time.Now().After(deadline) {
			return false
		}
	}
}

// Close closes all client stores (not a drain: Close cancels background work).
func (u *Universe) Close() {
	if u.closed {
		return
	}
	u.closed = true
	for _, c := range u.clients() {
		c.Store.Close()
	}
	u.truth.Close()
	u.backClient.Close()
}

// ---- topology

// SplitAt splits the region containing key at key (raw key).  Returns false
// if key already is a region start.
func (u *Universe) SplitAt(key []byte) bool {
	u.topoMu.Lock()
	defer u.topoMu.Unlock()
	if len(key) == 0 {
		return false
	}
	// the region managers of both mocks compare their argument as is with the memcomparable-encoded region keys
	lookup := codec.EncodeBytes(nil, key)
	region, leader, _, _ := u.Cluster.GetRegionByKey(lookup)
	if region == nil {
		return false
	}
	// region keys of both mocks are memcomparable-encoded; a key that already is a border must not be split
	// again (mocktikv's lookup returns the left neighbour for a border key and would create an empty region)
	enc := codec.EncodeBytes(nil, key)
	if bytes.Equal(region.StartKey, enc) || bytes.Equal(region.EndKey, enc) {
		return false
	}
	for _, b := range u.borders {
		if bytes.Equal(b, key) {
			return false
		}
	}
	newRegionID := u.Cluster.AllocID()
	peerIDs := make([]uint64, len(region.Peers))
	var leaderPeer uint64
	for i, p := range region.Peers {
		peerIDs[i] = u.Cluster.AllocID()
		if leader != nil && p.StoreId == leader.StoreId {
			leaderPeer = peerIDs[i]
		}
	}
	if leaderPeer == 0 {
		leaderPeer = peerIDs[0]
	}
	u.Cluster.Split(region.Id, newRegionID, key, peerIDs, leaderPeer)
	u.borders = append(u.borders, append([]byte(nil), key...))
	u.Log.Notef("split region %d at %q -> %d", region.Id, key, newRegionID)
	return true
}

// MoveLeader transfers the leader of the region containing key to another
// store (mocktikv with several stores only).
func (u *Universe) MoveLeader(key []byte, pick int) bool {
	u.topoMu.Lock()
	defer u.topoMu.Unlock()
	if u.MockCl == nil {
		return false
	}
	region, leader, _, _ := u.MockCl.GetRegionByKey(codec.EncodeBytes(nil, key))
	if region == nil || len(region.Peers) < 2 {
		return false
	}
	var cands []*metapb.Peer
	for _, p := range region.Peers {
		if leader == nil || p.Id != leader.Id {
			cands = append(cands, p)
		}
	}
	if len(cands) == 0 {
		return false
	}
	np := cands[pick%len(cands)]
	u.MockCl.ChangeLeader(region.Id, np.Id)
	u.Log.Notef("move leader of region %d to peer %d (store %d)", region.Id, np.Id, np.StoreId)
	return true
}

// MergeAt merges the region containing key with its right neighbour (mocktikv only).
func (u *Universe) MergeAt(key []byte) bool {
	u.topoMu.Lock()
	defer u.topoMu.Unlock()
	if u.MockCl == nil {
		return false
	}
	region, _, _, _ := u.MockCl.GetRegionByKey(codec.EncodeBytes(nil, key))
	if region == nil || len(region.EndKey) == 0 {
		return false
	}
	// region keys are memcomparable-encoded, GetRegionByKey wants the raw key (it encodes it itself)
	_, rawEnd, err := codec.DecodeBytes(region.EndKey, nil)
	if err != nil {
		return false
	}
	right, _, _, _ := u.MockCl.GetRegionByKey(region.EndKey)
	if right == nil || right.Id == region.Id || !bytes.Equal(right.StartKey, region.EndKey) {
		return false
	}
	u.MockCl.Merge(region.Id, right.Id)
	for i, b := range u.borders {
		if bytes.Equal(b, rawEnd) {
			u.borders = append(u.borders[:i], u.borders[i+1:]...)
			break
		}
	}
	u.Log.Notef("merge region %d <- %d", region.Id, right.Id)
	return true
}

// AdvanceClock moves the virtual TSO clock.
func (u *Universe) AdvanceClock(ms int64) {
	u.Clock.Advance(ms)
	u.Log.Notef("clock +%dms", ms)
}

// BackendPanic is a panic of the in-process store while serving a request.
type BackendPanic struct {
	Msg  string
	Call string
	Req  string
	Seq  int64
}

func (u *Universe) notePanic(msg string, c *Call, req *tikvrpc.Request) {
	u.panicMu.Lock()
	defer u.panicMu.Unlock()
	region, _, _, _ := u.Cluster.GetRegionByKey(nil)
	_ = region
	u.panics = append(u.panics, BackendPanic{Msg: msg, Call: c.String(), Seq: c.Seq,
		Req: fmt.Sprintf("%s region=%d ver=%d conf=%d body={%v}", req.Type, req.Context.GetRegionId(), req.Context.GetRegionEpoch().GetVersion(), req.Context.GetRegionEpoch().GetConfVer(), req.Req)})
}

// Panics returns the back-end panics recorded so far.
func (u *Universe) Panics() []BackendPanic {
	u.panicMu.Lock()
	defer u.panicMu.Unlock()
	return append([]BackendPanic(nil), u.panics...)
}

var enableFailpointsOnce sync.Once
