package uni

import (
	"context"
	"fmt"
	"sync"
	"sync/atomic"
	"time"

	"github.com/pingcap/kvproto/pkg/errorpb"
	"github.com/pingcap/kvproto/pkg/kvrpcpb"
	"github.com/pkg/errors"
	"github.com/tikv/client-go/v2/tikv"
	"github.com/tikv/client-go/v2/tikvrpc"
	"github.com/tikv/client-go/v2/util/async"
)

// ActKind is what the interposer does with one request.
type ActKind int

const (
	// Pass delivers the request.
	Pass ActKind = iota
	// DropReq: never delivered; the caller gets a transport error.
	DropReq
	// DropResp: delivered and executed; the caller gets a transport error.
	DropResp
	// Late: the caller gets a transport error now, the request is executed
	// when the driver calls Universe.DeliverLate.
	Late
	// RegionErr: not delivered; a region error response is synthesized.
	RegionErr
	// KillBefore: the client dies now; this request is never delivered.
	KillBefore
	// KillAfter: this request is delivered, then the client is dead and the
	// caller never learns the answer.
	KillAfter
)

func (k ActKind) String() string {
	return [...]string{"pass", "drop-req", "drop-resp", "late", "region-err", "kill-before", "kill-after"}[k]
}

// Action is the decision of a fault plan for one call.  Before runs in the
// RPC's goroutine before the request is forwarded (it may block: that is a
// gate), After runs after the back-end replied and before the caller sees
// the reply.
type Action struct {
	Kind   ActKind
	RegErr *errorpb.Error
	Before func()
	After  func()
}

// Decider is a fault plan: called once per RPC (call event already recorded).
type Decider func(c *Call) Action

// ErrInjected is the transport error of dropped requests/responses.
var ErrInjected = errors.New("verif: injected transport error")

// Net wraps the tikv.Client of one client store.
type Net struct {
	u      *Universe
	id     int
	inner  tikv.Client
	killed atomic.Bool
	// inflight counts calls between call and return event
	inflight atomic.Int64
	decide   atomic.Pointer[Decider]
}

var _ tikv.Client = (*Net)(nil)

// SetDecider installs the fault plan of this client (nil = pass everything).
func (n *Net) SetDecider(d Decider) {
	if d == nil {
		n.decide.Store(nil)
		return
	}
	n.decide.Store(&d)
}

// Kill makes the client dead from now on.
func (n *Net) Kill() { n.killed.Store(true) }

// Killed reports whether the client is dead.
func (n *Net) Killed() bool { return n.killed.Load() }

// Inflight returns the number of RPCs between call and return.
func (n *Net) Inflight() int64 { return n.inflight.Load() }

// Close does not close the shared back-end.
func (n *Net) Close() error { return nil }

// CloseAddr is a no-op (in-process back-end).
func (n *Net) CloseAddr(addr string) error { return nil }

// SetEventListener is a no-op.
func (n *Net) SetEventListener(tikv.ClientEventListener) {}

// SendRequestAsync runs the synchronous path in a goroutine, like the
// unistore wrapper of the integration tests does.
func (n *Net) SendRequestAsync(ctx context.Context, addr string, req *tikvrpc.Request, cb async.Callback[*tikvrpc.Response]) {
	go func() {
		cb.Schedule(n.SendRequest(ctx, addr, req, tikv.ReadTimeoutShort))
	}()
}

func errKilled() error { return errors.WithStack(context.Canceled) }

// SendRequest records, consults the fault plan, forwards.
func (n *Net) SendRequest(ctx context.Context, addr string, req *tikvrpc.Request, timeout time.Duration) (*tikvrpc.Response, error) {
	if n.killed.Load() {
		return nil, errKilled()
	}
	n.inflight.Add(1)
	defer n.inflight.Add(-1)
	c := &Call{Client: n.id, Addr: addr, Cmd: req.Type, Req: cloneMsg(req.Req)}
	if rc := req.Context.GetRegionId(); rc != 0 || req.Context.GetPeer() != nil {
		c.RegionID = req.Context.GetRegionId()
		c.RegionVer = req.Context.GetRegionEpoch().GetVersion()
		c.RegionConf = req.Context.GetRegionEpoch().GetConfVer()
		c.PeerID = req.Context.GetPeer().GetId()
		c.StoreID = req.Context.GetPeer().GetStoreId()
	}
	c.ReplicaRead = req.Context.GetReplicaRead() || req.ReplicaRead
	c.StaleRead = req.Context.GetStaleRead() || req.StaleRead
	c.IsRetry = req.Context.GetIsRetryRequest()
	c.StartTS = StartTSOf(c.Req)
	n.u.Log.addCall(c)

	act := Action{}
	if d := n.decide.Load(); d != nil {
		act = (*d)(c)
	} else if d := n.u.defaultDecider.Load(); d != nil {
		act = (*d)(c)
	}
	n.u.Log.mu.Lock()
	c.Action = act.Kind.String()
	n.u.Log.mu.Unlock()
	// fin records the return event under the log's lock (monitors may read concurrently)
	fin := func(f func()) {
		n.u.Log.mu.Lock()
		if f != nil {
			f()
		}
		c.RetSeq = n.u.Log.Next()
		n.u.Log.mu.Unlock()
	}
	if act.Before != nil {
		act.Before()
	}
	if n.killed.Load() && act.Kind != KillAfter && act.Kind != KillBefore {
		// killed while gated
		fin(func() { c.Action = "killed"; c.Err = "killed" })
		return nil, errKilled()
	}
	switch act.Kind {
	case KillBefore:
		n.killed.Store(true)
		fin(func() { c.Err = "killed" })
		return nil, errKilled()
	case DropReq:
		fin(func() { c.Err = ErrInjected.Error() })
		return nil, errors.WithStack(ErrInjected)
	case Late:
		// the request object may be reused by the caller: keep a private copy
		lreq := *req
		lreq.Req = cloneMsg(req.Req)
		n.u.addLate(func() {
			resp, err := n.inner.SendRequest(context.Background(), addr, &lreq, timeout)
			n.u.Log.mu.Lock()
			c.Delivered = err == nil
			if resp != nil {
				c.Resp = cloneMsg(resp.Resp)
			}
			n.u.Log.mu.Unlock()
		})
		fin(func() { c.Err = ErrInjected.Error() })
		return nil, errors.WithStack(ErrInjected)
	case RegionErr:
		resp, err := tikvrpc.GenRegionErrorResp(req, act.RegErr)
		fin(func() { c.RegionErr = act.RegErr })
		return resp, err
	}
	resp, err := n.forward(ctx, addr, req, timeout, c)
	if act.After != nil {
		act.After()
	}
	record := func() {
		c.Delivered = err == nil
		if err != nil {
			c.Err = err.Error()
		} else if resp != nil {
			c.Resp = cloneMsg(resp.Resp)
			if re, e2 := resp.GetRegionError(); e2 == nil && re != nil {
				c.RegionErr = re
				c.Delivered = false
			}
		}
	}
	switch act.Kind {
	case KillAfter:
		n.killed.Store(true)
		fin(func() { record(); c.Err = "killed" })
		return nil, errKilled()
	case DropResp:
		fin(func() { record(); c.Err = ErrInjected.Error() })
		return nil, errors.WithStack(ErrInjected)
	}
	if n.killed.Load() {
		fin(func() { record(); c.Err = "killed" })
		return nil, errKilled()
	}
	fin(record)
	return resp, err
}

// forward delivers the request; a panic of the in-process back-end (the mock
// stores panic on requests they consider impossible, e.g. "key not in
// region") is recorded with the request that caused it and turned into a
// transport error so that the other monitors of this process survive.
func (n *Net) forward(ctx context.Context, addr string, req *tikvrpc.Request, timeout time.Duration, c *Call) (resp *tikvrpc.Response, err error) {
	defer func() {
		if p := recover(); p != nil {
			n.u.notePanic(fmt.Sprintf("%v", p), c, req)
			resp, err = nil, errors.Errorf("verif: back-end panic: %v", p)
		}
	}()
	if n.u.Backend == Uni {
		// unistore computes an async-commit / 1PC prewrite's min_commit_ts from a fresh timestamp *before* it
		// writes the locks and has no in-memory lock table (a TODO in its source): a reader whose start ts is
		// issued inside that window reads below a commit that lands under its ts.  TiKV closes the window with its
		// concurrency manager; the harness closes it by not issuing timestamps while such a prewrite executes.
		if p, ok := req.Req.(*kvrpcpb.PrewriteRequest); ok && (p.UseAsyncCommit || p.TryOnePc) {
			n.u.asyncGuard.Lock()
			defer n.u.asyncGuard.Unlock()
		}
	}
	return n.inner.SendRequest(ctx, addr, req, timeout)
}

// lateQueue holds deliver-late closures.
type lateQueue struct {
	mu sync.Mutex
	q  []func()
}

func (u *Universe) addLate(f func()) {
	u.late.mu.Lock()
	u.late.q = append(u.late.q, f)
	u.late.mu.Unlock()
}

// DeliverLate executes all requests whose delivery was postponed and returns
// how many there were.
func (u *Universe) DeliverLate() int {
	u.late.mu.Lock()
	q := u.late.q
	u.late.q = nil
	u.late.mu.Unlock()
	for _, f := range q {
		f()
	}
	return len(q)
}

// StartTSOf extracts the transaction start ts (or read version) of a request body.
func StartTSOf(m any) uint64 {
	switch r := m.(type) {
	case *kvrpcpb.GetRequest:
		return r.Version
	case *kvrpcpb.BatchGetRequest:
		return r.Version
	case *kvrpcpb.BufferBatchGetRequest:
		return r.Version
	case *kvrpcpb.ScanRequest:
		return r.Version
	case *kvrpcpb.PrewriteRequest:
		return r.StartVersion
	case *kvrpcpb.CommitRequest:
		return r.StartVersion
	case *kvrpcpb.BatchRollbackRequest:
		return r.StartVersion
	case *kvrpcpb.CleanupRequest:
		return r.StartVersion
	case *kvrpcpb.PessimisticLockRequest:
		return r.StartVersion
	case *kvrpcpb.PessimisticRollbackRequest:
		return r.StartVersion
	case *kvrpcpb.TxnHeartBeatRequest:
		return r.StartVersion
	case *kvrpcpb.CheckTxnStatusRequest:
		return r.LockTs
	case *kvrpcpb.CheckSecondaryLocksRequest:
		return r.StartVersion
	case *kvrpcpb.ResolveLockRequest:
		return r.StartVersion
	case *kvrpcpb.FlushRequest:
		return r.StartTs
	}
	return 0
}
