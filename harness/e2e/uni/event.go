// Package uni is the "universe" of the end-to-end harness: one in-process
// back-end (mocktikv or unistore) shared by several client KVStores, each of
// which talks to it through a recording / fault-injecting RPC interposer and a
// PD interposer that issues timestamps from a virtual clock.  Histories are
// recorded at the client boundary (tikv.Client and pd.Client), ordered by one
// global atomic sequencer.
package uni

import (
	"fmt"
	"sync"
	"sync/atomic"

	"github.com/gogo/protobuf/proto"
	"github.com/pingcap/kvproto/pkg/errorpb"
	"github.com/tikv/client-go/v2/tikvrpc"
)

// Call is one RPC of one client store: the call event is recorded before the
// request is forwarded, the return event after the reply.
type Call struct {
	Seq    int64 // sequence number of the call event
	RetSeq int64 // sequence number of the return event (0 while open)
	Client int
	Addr   string
	Cmd    tikvrpc.CmdType
	// Req is a deep copy of the request body taken at call time; Ctx fields
	// are copied separately because the sender mutates them between attempts.
	Req                             any
	RegionID                        uint64
	RegionVer                       uint64
	RegionConf                      uint64
	PeerID                          uint64
	StoreID                         uint64
	ReplicaRead, StaleRead, IsRetry bool
	// filled at return
	Resp      any    // deep copy of the response body (nil on transport error)
	Err       string // transport error seen by the caller ("" if none)
	RegionErr *errorpb.Error
	// what the interposer did
	Action    string // pass | drop-req | drop-resp | late | region-err | killed
	Delivered bool   // the back-end executed the request
	// derived, for monitors
	StartTS uint64
}

func (c *Call) String() string {
	return fmt.Sprintf("#%d c%d %s ts=%d act=%s err=%q regErr=%v", c.Seq, c.Client, c.Cmd, c.StartTS, c.Action, c.Err, c.RegionErr != nil)
}

// TSOEvent is one timestamp handed to a client by the PD interposer.
type TSOEvent struct {
	Seq    int64
	Client int
	TS     uint64
}

// Log is the append-only, sequencer-ordered event log of a universe.
type Log struct {
	seq   atomic.Int64
	mu    sync.Mutex
	calls []*Call
	tsos  []TSOEvent
	notes []Note
	// per client: the newest TSO issued (for C04 rule 5/7)
}

// Note is a driver annotation (topology change, clock jump, kill, ...).
type Note struct {
	Seq  int64
	Text string
}

// Next hands out the next global sequence number.
func (l *Log) Next() int64 { return l.seq.Add(1) }

// Now returns the current sequence number without advancing it.
func (l *Log) Now() int64 { return l.seq.Load() }

func (l *Log) addCall(c *Call) {
	l.mu.Lock()
	c.Seq = l.seq.Add(1) // under the lock: the slice stays ordered by Seq
	l.calls = append(l.calls, c)
	l.mu.Unlock()
}

func (l *Log) addTSO(e TSOEvent) {
	l.mu.Lock()
	e.Seq = l.seq.Add(1)
	l.tsos = append(l.tsos, e)
	l.mu.Unlock()
}

// Notef records a driver annotation.
func (l *Log) Notef(format string, a ...any) {
	n := Note{Seq: l.Next(), Text: fmt.Sprintf(format, a...)}
	l.mu.Lock()
	l.notes = append(l.notes, n)
	l.mu.Unlock()
}

// Calls returns a snapshot (value copies taken under the log's lock) of all
// calls recorded so far, ordered by Seq.  A call whose RetSeq is 0 is open.
func (l *Log) Calls() []Call {
	return l.CallsFrom(0)
}

// CallsFrom returns copies of the calls with index >= from.
func (l *Log) CallsFrom(from int) []Call {
	l.mu.Lock()
	defer l.mu.Unlock()
	if from > len(l.calls) {
		from = len(l.calls)
	}
	out := make([]Call, len(l.calls)-from)
	for i, c := range l.calls[from:] {
		out[i] = *c
	}
	return out
}

// TSOs returns a snapshot of the issued timestamps.
func (l *Log) TSOs() []TSOEvent {
	l.mu.Lock()
	defer l.mu.Unlock()
	out := make([]TSOEvent, len(l.tsos))
	copy(out, l.tsos)
	return out
}

// Notes returns the driver annotations.
func (l *Log) Notes() []Note {
	l.mu.Lock()
	defer l.mu.Unlock()
	out := make([]Note, len(l.notes))
	copy(out, l.notes)
	return out
}

// Len returns the number of calls recorded.
func (l *Log) Len() int {
	l.mu.Lock()
	defer l.mu.Unlock()
	return len(l.calls)
}

func cloneMsg(m any) any {
	if m == nil {
		return nil
	}
	if pm, ok := m.(proto.Message); ok {
		defer func() { recover() }() // a nil typed pointer inside an interface
		return proto.Clone(pm)
	}
	return m
}
