package uni

import (
	"bytes"
	"context"
	"fmt"
	"sort"
	"time"

	"github.com/pingcap/kvproto/pkg/kvrpcpb"
	"github.com/tikv/client-go/v2/tikv"
	"github.com/tikv/client-go/v2/tikvrpc"
)

// Write is one committed (or rollback) record of a key.
type Write struct {
	StartTS  uint64
	CommitTS uint64
	Type     kvrpcpb.Op // Put, Del, Lock, Rollback
	Value    []byte     // for Put (short or long value)
}

// LockRec is a lock found on a key.
type LockRec struct {
	Key         []byte
	StartTS     uint64
	Primary     []byte
	Type        kvrpcpb.Op
	ForUpdateTS uint64
	TTL         uint64
	MinCommitTS uint64
	UseAsync    bool
	Secondaries [][]byte
}

// KeyTruth is the ground truth of one key: the MVCC records as the store has them.
type KeyTruth struct {
	Key    []byte
	Lock   *LockRec
	Writes []Write // newest commit ts first
}

// Truth is the ground truth of a key universe.
type Truth struct {
	Keys map[string]*KeyTruth
}

// ReadTruth reads the MVCC records of every key through MvccGetByKey RPCs of
// the un-interposed truth store.
func (u *Universe) ReadTruth(keys [][]byte) (*Truth, error) {
	t := &Truth{Keys: map[string]*KeyTruth{}}
	for _, k := range keys {
		kt, err := u.truthKey(k)
		if err != nil {
			return nil, err
		}
		t.Keys[string(k)] = kt
	}
	return t, nil
}

func (u *Universe) truthKey(key []byte) (*KeyTruth, error) {
	for attempt := 0; attempt < 50; attempt++ {
		bo := tikv.NewBackofferWithVars(context.Background(), 20000, nil)
		loc, err := u.truth.GetRegionCache().LocateKey(bo, key)
		if err != nil {
			return nil, err
		}
		req := tikvrpc.NewRequest(tikvrpc.CmdMvccGetByKey, &kvrpcpb.MvccGetByKeyRequest{Key: key})
		resp, err := u.truth.SendReq(bo, req, loc.Region, 10*time.Second)
		if err != nil {
			return nil, err
		}
		if re, _ := resp.GetRegionError(); re != nil {
			continue
		}
		r, ok := resp.Resp.(*kvrpcpb.MvccGetByKeyResponse)
		if !ok || r == nil {
			return nil, fmt.Errorf("truth: unexpected response %T", resp.Resp)
		}
		if r.Error != "" {
			return nil, fmt.Errorf("truth: %s", r.Error)
		}
		kt := &KeyTruth{Key: key}
		info := r.Info
		if info == nil {
			return kt, nil
		}
		if l := info.Lock; l != nil && l.StartTs != 0 {
			kt.Lock = &LockRec{Key: key, StartTS: l.StartTs, Primary: l.Primary, Type: l.Type, ForUpdateTS: l.ForUpdateTs,
				TTL: l.Ttl, UseAsync: l.UseAsyncCommit, Secondaries: l.Secondaries}
		}
		vals := map[uint64][]byte{}
		for _, v := range info.Values {
			vals[v.StartTs] = v.Value
		}
		for _, w := range info.Writes {
			wr := Write{StartTS: w.StartTs, CommitTS: w.CommitTs, Type: w.Type}
			if w.Type == kvrpcpb.Op_Put {
				if len(w.ShortValue) > 0 {
					wr.Value = w.ShortValue
				} else {
					wr.Value = vals[w.StartTs]
				}
			}
			kt.Writes = append(kt.Writes, wr)
		}
		sort.SliceStable(kt.Writes, func(i, j int) bool { return kt.Writes[i].CommitTS > kt.Writes[j].CommitTS })
		return kt, nil
	}
	return nil, fmt.Errorf("truth: region errors did not settle for key %q", key)
}

// ScanLocksTruth returns every lock in the store (lock scan with max version).
func (u *Universe) ScanLocksTruth() ([]LockRec, error) {
	var out []LockRec
	start := []byte{}
	for {
		bo := tikv.NewBackofferWithVars(context.Background(), 20000, nil)
		loc, err := u.truth.GetRegionCache().LocateKey(bo, start)
		if err != nil {
			return nil, err
		}
		req := tikvrpc.NewRequest(tikvrpc.CmdScanLock, &kvrpcpb.ScanLockRequest{MaxVersion: ^uint64(0), StartKey: start, EndKey: loc.EndKey, Limit: 100000})
		resp, err := u.truth.SendReq(bo, req, loc.Region, 10*time.Second)
		if err != nil {
			return nil, err
		}
		if re, _ := resp.GetRegionError(); re != nil {
			continue
		}
		r := resp.Resp.(*kvrpcpb.ScanLockResponse)
		if r.Error != nil {
			return nil, fmt.Errorf("truth: scan lock: %v", r.Error)
		}
		for _, l := range r.Locks {
			if len(loc.EndKey) > 0 && bytes.Compare(l.Key, loc.EndKey) >= 0 {
				continue
			}
			if bytes.Compare(l.Key, start) < 0 {
				continue
			}
			out = append(out, LockRec{Key: l.Key, StartTS: l.LockVersion, Primary: l.PrimaryLock, Type: l.LockType, ForUpdateTS: l.LockForUpdateTs,
				TTL: l.LockTtl, MinCommitTS: l.MinCommitTs, UseAsync: l.UseAsyncCommit})
		}
		if len(loc.EndKey) == 0 {
			break
		}
		start = loc.EndKey
	}
	// mocktikv's ScanLock does not fill the lock type (it reads as Put): take type, for-update ts and
	// async-commit flag from the MVCC record of the key
	for i := range out {
		if kt, err := u.truthKey(out[i].Key); err == nil && kt.Lock != nil && kt.Lock.StartTS == out[i].StartTS {
			out[i].Type = kt.Lock.Type
			if out[i].ForUpdateTS == 0 {
				out[i].ForUpdateTS = kt.Lock.ForUpdateTS
			}
			out[i].UseAsync = out[i].UseAsync || kt.Lock.UseAsync
		}
	}
	return out, nil
}

// VisibleAt returns the value of the newest Put/Del with commit ts <= ts (nil if none or deleted).
func (k *KeyTruth) VisibleAt(ts uint64) (val []byte, startTS, commitTS uint64) {
	for _, w := range k.Writes {
		if w.CommitTS > ts {
			continue
		}
		switch w.Type {
		case kvrpcpb.Op_Put:
			return w.Value, w.StartTS, w.CommitTS
		case kvrpcpb.Op_Del:
			return nil, w.StartTS, w.CommitTS
		}
	}
	return nil, 0, 0
}

// WriteOf returns the non-rollback write record of transaction startTS on this key.
func (k *KeyTruth) WriteOf(startTS uint64) *Write {
	for i := range k.Writes {
		if k.Writes[i].StartTS == startTS && k.Writes[i].Type != kvrpcpb.Op_Rollback {
			return &k.Writes[i]
		}
	}
	return nil
}

// RolledBack reports whether a rollback record of startTS exists on this key.
func (k *KeyTruth) RolledBack(startTS uint64) bool {
	for i := range k.Writes {
		if k.Writes[i].StartTS == startTS && k.Writes[i].Type == kvrpcpb.Op_Rollback {
			return true
		}
	}
	return false
}

// TruthStore exposes the un-interposed store (for observers that must not be recorded).
func (u *Universe) TruthStore() *tikv.KVStore { return u.truth }
