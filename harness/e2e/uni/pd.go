package uni

import (
	"context"
	"sync"
	"sync/atomic"

	"github.com/pkg/errors"
	"github.com/tikv/client-go/v2/oracle"
	pd "github.com/tikv/pd/client"
	"github.com/tikv/pd/client/clients/tso"
	"github.com/tikv/pd/client/pkg/caller"
)

// VClock is the virtual TSO clock of a universe.
//
// mocktikv: the physical part starts at a fixed instant and only moves when
// the driver (or a chaos hook) advances it; the logical part strictly
// increases over all clients, so every timestamp issued in the universe is
// unique and issue order = numeric order.
//
// unistore: its prewrite asks its *own* TSO (package-level, wall-clock based)
// for a fresh timestamp as the lower bound of min_commit_ts - that is its
// guard against committing below a concurrent reader - and falls back from
// async commit / 1PC when that exceeds the client's max_commit_ts.  The client
// side therefore has to issue timestamps from the very same source
// (ustikv.GetTS) plus a driver-controlled offset: while the offset is 0 the
// guard works as in production; the driver only advances the clock when no
// async-commit/1PC writer runs concurrently with readers (recovery phases).
type VClock struct {
	mu       sync.Mutex
	physical int64 // ms (mocktikv) / offset ms (external source)
	logical  int64
	last     uint64
	source   func() (int64, int64)
}

// NewVClock starts the clock at a fixed instant (2024-01-01T00:00:00Z).
func NewVClock() *VClock { return &VClock{physical: 1704067200000} }

// NewVClockFrom issues timestamps from an external monotone source plus an offset.
func NewVClockFrom(src func() (int64, int64)) *VClock { return &VClock{source: src} }

// Next issues the next timestamp.
func (c *VClock) Next() (int64, int64) {
	c.mu.Lock()
	defer c.mu.Unlock()
	if c.source != nil {
		p, l := c.source()
		p += c.physical
		ts := oracle.ComposeTS(p, l)
		if ts <= c.last { // the offset moved while the source stood still within one ms
			ts = c.last + 1
			p, l = oracle.ExtractPhysical(ts), oracle.ExtractLogical(ts)
		}
		c.last = ts
		return p, l
	}
	c.logical++
	if c.logical >= 1<<18-1 {
		c.physical++
		c.logical = 1
	}
	c.last = oracle.ComposeTS(c.physical, c.logical)
	return c.physical, c.logical
}

// Advance moves the physical clock forward by ms milliseconds.
func (c *VClock) Advance(ms int64) {
	c.mu.Lock()
	c.physical += ms
	if c.source == nil {
		c.logical = 0
	}
	c.mu.Unlock()
}

// Last returns the newest timestamp issued.
func (c *VClock) Last() uint64 {
	c.mu.Lock()
	defer c.mu.Unlock()
	return c.last
}

// Virtual reports whether the clock is fully driver-controlled (no wall-clock source).
func (c *VClock) Virtual() bool { return c.source == nil }

// PD wraps the pd.Client of one client store: timestamps come from the
// universe's virtual clock and are logged per client; region/store queries pass
// through to the back-end's mock PD.
type PD struct {
	pd.Client
	u      *Universe
	id     int
	net    *Net
	lastTS atomic.Uint64
	// tsoHook, when set, runs inside every timestamp request of this client before the timestamp is issued (PD latency)
	tsoHook atomic.Pointer[func()]
}

// SetTSOHook installs (or, with nil, removes) a hook that runs inside every timestamp request of this client.
func (p *PD) SetTSOHook(f func()) {
	if f == nil {
		p.tsoHook.Store(nil)
		return
	}
	p.tsoHook.Store(&f)
}

// WithCallerComponent must not unwrap the interposer.
func (p *PD) WithCallerComponent(caller.Component) pd.Client { return p }

// Close does not close the shared back-end PD.
func (p *PD) Close() {}

func (p *PD) issue() (int64, int64, error) {
	if h := p.tsoHook.Load(); h != nil {
		(*h)()
	}
	if p.net != nil && p.net.Killed() {
		return 0, 0, errors.WithStack(context.Canceled)
	}
	p.u.asyncGuard.RLock()
	ph, lg := p.u.Clock.Next()
	p.u.asyncGuard.RUnlock()
	ts := oracle.ComposeTS(ph, lg)
	p.lastTS.Store(ts)
	p.u.Log.addTSO(TSOEvent{Client: p.id, TS: ts})
	return ph, lg, nil
}

// LastTS is the newest timestamp issued to this client.
func (p *PD) LastTS() uint64 { return p.lastTS.Load() }

// GetTS issues a virtual timestamp.
func (p *PD) GetTS(ctx context.Context) (int64, int64, error) { return p.issue() }

// GetMinTS issues a virtual timestamp.
func (p *PD) GetMinTS(ctx context.Context) (int64, int64, error) { return p.issue() }

// GetLocalTS issues a virtual timestamp.
func (p *PD) GetLocalTS(ctx context.Context, dc string) (int64, int64, error) { return p.issue() }

type tsFut struct {
	ph, lg int64
	err    error
}

func (f tsFut) Wait() (int64, int64, error) { return f.ph, f.lg, f.err }

// GetTSAsync issues the timestamp at call time (like a PD that answers at once).
func (p *PD) GetTSAsync(ctx context.Context) tso.TSFuture {
	ph, lg, err := p.issue()
	return tsFut{ph, lg, err}
}

// GetLocalTSAsync issues a virtual timestamp.
func (p *PD) GetLocalTSAsync(ctx context.Context, dc string) tso.TSFuture {
	return p.GetTSAsync(ctx)
}
