package uni

import (
	"context"
	"sync"
	"sync/atomic"

	"github.com/pkg/errors"
	"github.com/tikv/client-go/v2/oracle"
	pd "github.com/tikv/pd/client"
	"github.com/tikv/pd/client/clients/tso"
	"github.com/tikv/pd/client/pkg/caller"
)

// VClock is the virtual TSO clock of a universe.  The physical part only
// moves when the driver (or a chaos goroutine) advances it; the logical part
// strictly increases over all clients, so every timestamp issued in the
// universe is unique and issue order = numeric order.
type VClock struct {
	mu       sync.Mutex
	physical int64 // ms
	logical  int64
	last     uint64
}

// NewVClock starts the clock at a fixed instant (2024-01-01T00:00:00Z).
func NewVClock() *VClock { return &VClock{physical: 1704067200000} }

// Next issues the next timestamp.
func (c *VClock) Next() (int64, int64) {
	c.mu.Lock()
	defer c.mu.Unlock()
	c.logical++
	if c.logical >= 1<<18-1 {
		c.physical++
		c.logical = 1
	}
	c.last = oracle.ComposeTS(c.physical, c.logical)
	return c.physical, c.logical
}

// Advance moves the physical clock forward by ms milliseconds.
func (c *VClock) Advance(ms int64) {
	c.mu.Lock()
	c.physical += ms
	c.logical = 0
	c.mu.Unlock()
}

// Last returns the newest timestamp issued.
func (c *VClock) Last() uint64 {
	c.mu.Lock()
	defer c.mu.Unlock()
	return c.last
}

// PhysicalMS returns the current physical time in ms.
func (c *VClock) PhysicalMS() int64 {
	c.mu.Lock()
	defer c.mu.Unlock()
	return c.physical
}

// PD wraps the pd.Client of one client store: timestamps come from the
// universe's virtual clock and are logged per client; region/store queries pass
// through to the back-end's mock PD.
type PD struct {
	pd.Client
	u      *Universe
	id     int
	net    *Net
	lastTS atomic.Uint64
}

// WithCallerComponent must not unwrap the interposer.
func (p *PD) WithCallerComponent(caller.Component) pd.Client { return p }

// Close does not close the shared back-end PD.
func (p *PD) Close() {}

func (p *PD) issue() (int64, int64, error) {
	if p.net != nil && p.net.Killed() {
		return 0, 0, errors.WithStack(context.Canceled)
	}
	ph, lg := p.u.Clock.Next()
	ts := oracle.ComposeTS(ph, lg)
	p.lastTS.Store(ts)
	p.u.Log.addTSO(TSOEvent{Client: p.id, TS: ts})
	return ph, lg, nil
}

// LastTS is the newest timestamp issued to this client.
func (p *PD) LastTS() uint64 { return p.lastTS.Load() }

// GetTS issues a virtual timestamp.
func (p *PD) GetTS(ctx context.Context) (int64, int64, error) { return p.issue() }

// GetMinTS issues a virtual timestamp.
func (p *PD) GetMinTS(ctx context.Context) (int64, int64, error) { return p.issue() }

// GetLocalTS issues a virtual timestamp.
func (p *PD) GetLocalTS(ctx context.Context, dc string) (int64, int64, error) { return p.issue() }

type tsFut struct {
	ph, lg int64
	err    error
}

func (f tsFut) Wait() (int64, int64, error) { return f.ph, f.lg, f.err }

// GetTSAsync issues the timestamp at call time (like a PD that answers at once).
func (p *PD) GetTSAsync(ctx context.Context) tso.TSFuture {
	ph, lg, err := p.issue()
	return tsFut{ph, lg, err}
}

// GetLocalTSAsync issues a virtual timestamp.
func (p *PD) GetLocalTSAsync(ctx context.Context, dc string) tso.TSFuture {
	return p.GetTSAsync(ctx)
}
