package uni

import "github.com/tikv/client-go/v2/tikv"

// C14WrapBackend puts wrap(back-end) between the RPC interposers of the client stores created *afterwards*
// and the in-process store (the truth store keeps talking to the bare back-end).  The C14 check uses it to
// give the two requests whose range arguments both mocks ignore the semantics TiKV gives them
// (ScanLock: start key / end key / limit; DeleteRange: range must lie inside the addressed region).
// The wrapper's Close must forward to the wrapped client.
func (u *Universe) C14WrapBackend(wrap func(inner tikv.Client) tikv.Client) {
	u.backClient = wrap(u.backClient)
}
