package uni

import (
	"bytes"

	"github.com/pingcap/kvproto/pkg/metapb"
	"github.com/tikv/client-go/v2/util/codec"
)

// Topology helpers of the C05 check.  The region keys of both mocks are memcomparable-encoded and
// Cluster.GetRegionByKey compares its argument with them as it is (the PD client hands it encoded
// keys), so every lookup here uses the encoded form of the raw key.  (A raw key sorts *before* its
// encoded form: looking up raw "c" finds the region that ends at "c"; splitting there again would
// create an empty region ["c","c"), and raw keys with trailing zero bytes land in a wrong region.)

func (u *Universe) c05Region(raw []byte) (*metapb.Region, *metapb.Peer) {
	lookup := raw
	if len(raw) > 0 {
		lookup = codec.EncodeBytes(nil, raw)
	}
	region, leader, _, _ := u.Cluster.GetRegionByKey(lookup)
	return region, leader
}

// C05SplitAt splits the region containing the raw key at that key; false if it is a region start already.
func (u *Universe) C05SplitAt(key []byte) bool {
	u.topoMu.Lock()
	defer u.topoMu.Unlock()
	if len(key) == 0 {
		return false
	}
	region, leader := u.c05Region(key)
	if region == nil || bytes.Equal(region.StartKey, codec.EncodeBytes(nil, key)) {
		return false
	}
	newRegionID := u.Cluster.AllocID()
	peerIDs := make([]uint64, len(region.Peers))
	var leaderPeer uint64
	for i, p := range region.Peers {
		peerIDs[i] = u.Cluster.AllocID()
		if leader != nil && p.StoreId == leader.StoreId {
			leaderPeer = peerIDs[i]
		}
	}
	if leaderPeer == 0 {
		leaderPeer = peerIDs[0]
	}
	u.Cluster.Split(region.Id, newRegionID, key, peerIDs, leaderPeer)
	u.Log.Notef("split region %d at %q -> %d", region.Id, key, newRegionID)
	return true
}

// C05MergeAt merges the region containing the raw key with its right neighbour (mocktikv only).
func (u *Universe) C05MergeAt(key []byte) bool {
	u.topoMu.Lock()
	defer u.topoMu.Unlock()
	if u.MockCl == nil {
		return false
	}
	region, _ := u.c05Region(key)
	if region == nil || len(region.EndKey) == 0 {
		return false
	}
	right, _, _, _ := u.MockCl.GetRegionByKey(region.EndKey) // the end key is encoded already
	if right == nil || right.Id == region.Id || !bytes.Equal(right.StartKey, region.EndKey) {
		return false
	}
	u.MockCl.Merge(region.Id, right.Id)
	u.Log.Notef("merge region %d <- %d", region.Id, right.Id)
	return true
}

// C05MoveLeader transfers the leader of the region containing the raw key to another store (mocktikv).
func (u *Universe) C05MoveLeader(key []byte, pick int) bool {
	u.topoMu.Lock()
	defer u.topoMu.Unlock()
	if u.MockCl == nil {
		return false
	}
	region, leader := u.c05Region(key)
	if region == nil || len(region.Peers) < 2 {
		return false
	}
	var cands []*metapb.Peer
	for _, p := range region.Peers {
		if leader == nil || p.Id != leader.Id {
			cands = append(cands, p)
		}
	}
	if len(cands) == 0 {
		return false
	}
	np := cands[pick%len(cands)]
	u.MockCl.ChangeLeader(region.Id, np.Id)
	u.Log.Notef("move leader of region %d to peer %d (store %d)", region.Id, np.Id, np.StoreId)
	return true
}
