//go:build verif

package c05

// The "early look" history family: the lock resolver of a client store S looks at a transaction T while
// T is in an intermediate state, T then moves on, and later reads through S (warm resolver / status cache)
// and through a fresh store must still resolve T's locks to T's true outcome.
//
//	phase 1  T in an intermediate state: only pessimistic locks | an orphan pessimistic lock on a non-primary
//	         key with nothing on the primary | prewritten and alive | prewritten, expired by the lock's own ttl
//	         but heart-beaten | secondaries prewritten before the primary.  Then an early look through S by a
//	         reader (get / batch get / scan), a pessimistic LockKeys of another transaction, an optimistic
//	         write of another transaction, or GC's ResolveLocksForRange; with the clock before / after the ttl.
//	phase 2  T proceeds: locks again, prewrites, commits its primary and leaves secondaries locked - or rolls back.
//	phase 3  the four access paths through S and through a fresh store.
//
// The MVCC truth is captured after phase 2, BEFORE the reads (a wrong resolve destroys it): the expected
// answer per key is the newest committed version <= ts where a lock counts as committed iff its primary is
// committed.  After the reads the truth is read again: no committed record may have changed and every key of
// T must still carry the outcome of T's primary.

import (
	"context"
	"fmt"
	"math/rand"
	"sort"
	"testing"
	"time"

	"github.com/pingcap/kvproto/pkg/kvrpcpb"
	"github.com/tikv/client-go/v2/config"
	"github.com/tikv/client-go/v2/kv"
	"github.com/tikv/client-go/v2/oracle"
	"github.com/tikv/client-go/v2/tikv"
	"github.com/tikv/client-go/v2/tikvrpc"
	"github.com/tikv/client-go/v2/verifh/vrep"

	"verif/e2e/uni"
)

const (
	stPessOnly = iota
	stOrphanPess
	stPrewrittenAlive
	stPrewrittenHeartbeat
	stSecondaryFirst
)

var stateNames = []string{"pessimistic-locks-only", "orphan-pessimistic-lock-no-primary", "prewritten-alive", "prewritten-expired-heartbeaten", "secondaries-before-primary"}

const (
	lookReader = iota
	lookPessLock
	lookOptimisticWrite
	lookGC
)

var lookNames = []string{"reader", "pessimistic-LockKeys", "optimistic-write", "gc-ResolveLocksForRange"}

func (d *driver) heartbeat(t *txn, adviseTTL uint64) bool {
	req := &kvrpcpb.TxnHeartBeatRequest{PrimaryLock: t.primary(), StartVersion: t.startTS, AdviseLockTtl: adviseTTL}
	resp, err := send(d.c, t.primary(), tikvrpc.CmdTxnHeartBeat, req)
	if err != nil {
		d.noteErr("heartbeat", "rpc")
		return false
	}
	r := resp.Resp.(*kvrpcpb.TxnHeartBeatResponse)
	if r.Error != nil {
		d.noteErr("heartbeat", keyErrKind(r.Error))
		d.logf("  t%d heartbeat: key error %s", t.id, keyErrKind(r.Error))
		return false
	}
	d.logf("  t%d heartbeat advise=%d -> ttl=%d", t.id, adviseTTL, r.LockTtl)
	return true
}

// newSess opens a snapshot on a client store for scripted reads.
func (h *hist) newSess(si int, rd *uni.ClientStore, ts uint64, note string) *sessState {
	st := &sessState{rd: rd, read: map[string]bool{}, asyncBG: h.rng.Intn(2) == 0, ts: ts}
	config.UpdateGlobal(func(c *config.Config) { c.EnableAsyncBatchGet = st.asyncBG })
	st.snap = rd.Store.GetSnapshot(ts)
	if h.rng.Intn(2) == 0 {
		st.batchSize = batchSizes[h.rng.Intn(len(batchSizes))]
		st.snap.SetScanBatchSize(st.batchSize)
	}
	h.sess[si] = st
	st.log = append(st.log, fmt.Sprintf("session %d client %d ts=%d asyncBatchGet=%v batch=%d (%s)", si, rd.ID, ts, st.asyncBG, st.batchSize, note))
	return st
}

// allPaths reads the keys through every access path of one snapshot, each twice.
func (h *hist) allPaths(si int, st *sessState, keys []string) {
	ks := append([]string(nil), keys...)
	sort.Strings(ks)
	paths := []string{"get", "batchget", "iter"}
	if h.backend == uni.Mock {
		paths = append(paths, "iterrev")
	}
	h.rng.Shuffle(len(paths), func(i, j int) { paths[i], paths[j] = paths[j], paths[i] })
	oi := 0
	for _, p := range paths {
		var rk []string
		var lower, upper []byte
		switch p {
		case "get":
			rk = []string{ks[h.rng.Intn(len(ks))]}
		case "batchget":
			rk = append(rk, ks...)
			for _, k := range h.keys {
				if h.rng.Intn(4) == 0 {
					rk = append(rk, k)
				}
			}
			h.rng.Shuffle(len(rk), func(i, j int) { rk[i], rk[j] = rk[j], rk[i] })
		default:
			if h.rng.Intn(2) == 0 {
				lower = []byte(ks[0])
			}
			if h.rng.Intn(2) == 0 {
				upper = append([]byte(ks[len(ks)-1]), 0)
			}
		}
		for rep := 0; rep < 2 && !h.aborted; rep++ {
			h.doRead(si, oi, rep, st, p, rk, lower, upper)
		}
		oi++
	}
}

// effectiveTruth overlays the locks of committed transactions onto the write records: a lock whose primary
// carries a commit record of the same transaction is a committed version of its key at that commit ts.
func effectiveTruth(u *uni.Universe, truth *uni.Truth, muts map[uint64]map[string]mutation) *uni.Truth {
	out := &uni.Truth{Keys: map[string]*uni.KeyTruth{}}
	for k, kt := range truth.Keys {
		c := &uni.KeyTruth{Key: kt.Key, Lock: kt.Lock, Writes: append([]uni.Write(nil), kt.Writes...)}
		out.Keys[k] = c
		l := kt.Lock
		if l == nil || (l.Type != kvrpcpb.Op_Put && l.Type != kvrpcpb.Op_Del) {
			continue
		}
		pt := truth.Keys[string(l.Primary)]
		if pt == nil {
			if tr, err := u.ReadTruth([][]byte{l.Primary}); err == nil {
				pt = tr.Keys[string(l.Primary)]
			}
		}
		if pt == nil {
			continue
		}
		w := pt.WriteOf(l.StartTS)
		if w == nil {
			continue
		}
		m, ok := muts[l.StartTS][k]
		if !ok {
			continue
		}
		c.Writes = append(c.Writes, uni.Write{StartTS: l.StartTS, CommitTS: w.CommitTS, Type: m.op, Value: m.val})
		sort.SliceStable(c.Writes, func(i, j int) bool { return c.Writes[i].CommitTS > c.Writes[j].CommitTS })
	}
	return out
}

func runEarlyLook(t *testing.T, r *vrep.Report, id int, backend string, seed int64) {
	u, err := uni.New(backend, 3)
	if err != nil {
		r.Inconc("universe: %v", err)
		return
	}
	defer u.Close()
	rng := rand.New(rand.NewSource(seed))
	drv, err := u.NewClient()
	if err != nil {
		r.Inconc("client: %v", err)
		return
	}
	s, err := u.NewClient() // the store whose resolver takes the early look
	if err != nil {
		r.Inconc("client: %v", err)
		return
	}
	h := &hist{id: id, backend: backend, seed: seed, u: u, rng: rng, keys: keyUniverse, points: splitPoints, sess: map[int]*sessState{}, r: r}
	h.d = newDriver(u, drv, rand.New(rand.NewSource(seed^0x5eed5eed)), keyUniverse)
	h.rd = []*uni.ClientStore{s}
	h.rewriters = append(h.rewriters, installRewriter(s, seed, 25))
	d := h.d
	for _, p := range splitPoints {
		if rng.Intn(3) == 0 {
			u.SplitAt([]byte(p))
		}
	}
	for i := 0; i < 2+rng.Intn(3); i++ {
		d.NewTxn(fCommitAll)
	}

	// ---- phase 1: T in an intermediate state
	state := []int{stOrphanPess, stOrphanPess, stOrphanPess, stPessOnly, stPessOnly, stPrewrittenAlive, stPrewrittenAlive, stPrewrittenHeartbeat, stPrewrittenHeartbeat, stSecondaryFirst}[rng.Intn(10)]
	afterTTL := rng.Intn(10) < 6
	if state == stPrewrittenHeartbeat {
		afterTTL = true
	}
	if state == stPrewrittenAlive {
		afterTTL = false
	}
	look := []int{lookPessLock, lookPessLock, lookPessLock, lookOptimisticWrite, lookOptimisticWrite, lookOptimisticWrite, lookReader, lookReader, lookReader, lookGC}[rng.Intn(10)]
	perm := rng.Perm(len(keyUniverse))
	n := 2 + rng.Intn(2)
	T := &txn{id: len(d.txns) + 1, fate: fCommitPrimaryOnly, locked: map[string]bool{}, ttl: ttlAlive, txnSize: uint64(n)}
	if afterTTL {
		T.ttl = ttlShort
	}
	if rng.Intn(3) == 0 {
		T.txnSize = 16 + uint64(rng.Intn(100))
	}
	for _, i := range perm[:n] {
		m := mutation{key: keyUniverse[i], op: kvrpcpb.Op_Put}
		if rng.Intn(6) == 0 {
			m.op = kvrpcpb.Op_Del
		} else {
			m.val = d.value(T, m.key)
		}
		T.muts = append(T.muts, m)
	}
	T.pess = state == stPessOnly || state == stOrphanPess || (state != stSecondaryFirst && rng.Intn(3) == 0)
	d.txns = append(d.txns, T)
	T.startTS = d.ts()
	d.logf("T=t%d early-look family: state=%s look=%s clock-after-ttl=%v pess=%v ttl=%d start=%d keys=%v", T.id, stateNames[state], lookNames[look], afterTTL, T.pess, T.ttl, T.startTS, T.muts)
	if T.pess {
		T.forUpdateTS = d.ts()
	}
	pre := map[string]bool{} // keys prewritten in phase 1
	switch state {
	case stPessOnly:
		for _, m := range T.muts {
			d.pessLock(T, m.key)
		}
	case stOrphanPess:
		// the lock request of a failed first statement for a secondary arrives late / its rollback is lost
		for _, m := range T.muts[1:] {
			d.pessLock(T, m.key)
			if rng.Intn(2) == 0 {
				break
			}
		}
	case stPrewrittenAlive, stPrewrittenHeartbeat:
		if T.pess {
			for _, m := range T.muts {
				d.pessLock(T, m.key)
			}
		}
		for _, m := range T.muts {
			if !T.pess || T.locked[m.key] {
				pre[m.key] = d.prewrite(T, m)
			}
		}
	case stSecondaryFirst:
		for _, m := range T.muts[1:] {
			pre[m.key] = d.prewrite(T, m)
		}
	}
	var lookKeys []string
	for _, m := range T.muts {
		if T.locked[m.key] || rng.Intn(2) == 0 {
			lookKeys = append(lookKeys, m.key)
		}
	}
	if afterTTL {
		d.Advance(int64(ttlShort + 1 + rng.Intn(300)))
	}
	if state == stPrewrittenHeartbeat {
		elapsed := oracle.ExtractPhysical(u.Clock.Last()) - oracle.ExtractPhysical(T.startTS)
		d.heartbeat(T, uint64(elapsed)+ttlAlive)
	}
	r.Count("early:state:"+stateNames[state], 1)
	r.Count("early:look:"+lookNames[look], 1)
	r.Count(map[bool]string{true: "early:look-after-lock-ttl", false: "early:look-before-lock-ttl"}[afterTTL], 1)

	// ---- the early look through S
	ctx := context.Background()
	si := 0
	lookDone := make(chan string, 1)
	go func() {
		defer func() {
			if p := recover(); p != nil {
				lookDone <- fmt.Sprintf("panic: %v", p)
			}
		}()
		switch look {
		case lookReader:
			fence, err := s.Store.CurrentTimestamp(oracle.GlobalTxnScope)
			if err != nil {
				lookDone <- err.Error()
				return
			}
			st := h.newSess(si, s, fence, "early look")
			h.allPaths(si, st, lookKeys)
		case lookPessLock:
			txn2, err := s.Begin()
			if err != nil {
				lookDone <- err.Error()
				return
			}
			txn2.SetPessimistic(true)
			fts, _ := s.Store.CurrentTimestamp(oracle.GlobalTxnScope)
			var ks [][]byte
			for _, k := range lookKeys {
				ks = append(ks, []byte(k))
			}
			err = txn2.LockKeys(ctx, kv.NewLockCtx(fts, kv.LockNoWait, time.Now()), ks...)
			d.Note("  look: txn %d pessimistic LockKeys %q -> %v", txn2.StartTS(), lookKeys, err)
			_ = txn2.Rollback()
		case lookOptimisticWrite:
			txn3, err := s.Begin()
			if err != nil {
				lookDone <- err.Error()
				return
			}
			for _, k := range lookKeys {
				_ = txn3.Set([]byte(k), []byte(fmt.Sprintf("w%d:%s", id, k)))
			}
			err = txn3.Commit(ctx)
			d.Note("  look: txn %d optimistic write of %q -> commit %v (commit_ts %d)", txn3.StartTS(), lookKeys, err, txn3.CommitTS())
		case lookGC:
			sp, _ := s.Store.CurrentTimestamp(oracle.GlobalTxnScope)
			if rng.Intn(2) == 0 {
				sp = T.startTS - 1 // a safe point below T: GC must leave T alone
			}
			_, err := tikv.ResolveLocksForRange(ctx, tikv.NewRegionLockResolver("c05-early-look", s.Store), sp, nil, nil, tikv.NewGcResolveLockMaxBackoffer, tikv.GCScanLockLimit)
			d.Note("  look: ResolveLocksForRange safe point %d -> %v", sp, err)
		}
		lookDone <- ""
	}()
	select {
	case msg := <-lookDone:
		if msg != "" {
			d.Note("  look failed: %s", msg)
		}
	case <-time.After(3 * time.Minute): // watchdog only
		r.Inconc("early-look history %d (%s seed %d): the look (%s) did not return", id, backend, seed, lookNames[look])
		return
	}
	if h.aborted {
		return
	}
	si++
	if !u.Drain() {
		r.Inconc("early-look history %d (%s seed %d): background work of the look did not drain", id, backend, seed)
		return
	}

	// ---- phase 2: T proceeds
	wantCommit := rng.Intn(10) < 7
	T.ttl = 3000
	ok := true
	if wantCommit {
		if T.pess && (state == stPessOnly || state == stOrphanPess) {
			// the next statement of T locks its keys (again)
			T.forUpdateTS = d.ts()
			for _, m := range T.muts {
				if !d.pessLock(T, m.key) {
					ok = false
				}
			}
		}
		for _, m := range T.muts {
			if ok && !pre[m.key] && (!T.pess || T.locked[m.key]) && !d.prewrite(T, m) {
				ok = false
			}
		}
		if ok {
			d.finish(T, true, 0.25)
		}
	}
	if !wantCommit || !ok {
		T.failed = !ok
		for _, m := range T.muts {
			d.rollback(T, m.key)
		}
		T.finished = true
	}
	if !u.Drain() {
		r.Inconc("early-look history %d (%s seed %d): did not drain after phase 2", id, backend, seed)
		return
	}

	// ---- the truth BEFORE the reads
	var ks [][]byte
	for _, k := range keyUniverse {
		ks = append(ks, []byte(k))
	}
	truth0, err := u.ReadTruth(ks)
	if err != nil {
		r.Inconc("early-look history %d: truth: %v", id, err)
		return
	}
	muts := map[uint64]map[string]mutation{}
	for _, x := range d.txns {
		mm := map[string]mutation{}
		for _, m := range x.muts {
			mm[m.key] = m
		}
		muts[x.startTS] = mm
	}
	eff := effectiveTruth(u, truth0, muts)
	var commitTS uint64
	if w := truth0.Keys[T.muts[0].key].WriteOf(T.startTS); w != nil {
		commitTS = w.CommitTS
	}
	leftover := 0
	for _, m := range T.muts {
		if l := truth0.Keys[m.key].Lock; l != nil && l.StartTS == T.startTS && (l.Type == kvrpcpb.Op_Put || l.Type == kvrpcpb.Op_Del) {
			leftover++
		}
	}
	outcome := "rolled-back-or-undecided"
	if commitTS != 0 {
		outcome = "committed"
		if leftover > 0 {
			r.Count("early:committed-with-leftover-secondary-locks", 1)
		}
	}
	r.Count("early:outcome:"+outcome, 1)
	d.Note("T outcome before the reads: %s commit_ts=%d leftover prewrite locks=%d", outcome, commitTS, leftover)

	// ---- phase 3: reads through S (warm resolver) and through a fresh store
	fresh, err := u.NewClient()
	if err != nil {
		r.Inconc("client: %v", err)
		return
	}
	h.rd = append(h.rd, fresh)
	h.rewriters = append(h.rewriters, installRewriter(fresh, seed, 25))
	stores := []*uni.ClientStore{s, fresh}
	if rng.Intn(10) < 3 {
		stores[0], stores[1] = stores[1], stores[0]
	}
	var tkeys []string
	for _, m := range T.muts {
		tkeys = append(tkeys, m.key)
	}
	for _, c := range stores {
		fence, err := c.Store.CurrentTimestamp(oracle.GlobalTxnScope)
		if err != nil {
			r.Inconc("early-look history %d: no timestamp: %v", id, err)
			return
		}
		tss := []uint64{fence}
		if commitTS != 0 {
			tss = append(tss, []uint64{commitTS, commitTS + 1, commitTS - 1, T.startTS}[rng.Intn(4)])
		} else {
			tss = append(tss, []uint64{T.startTS, T.startTS + 1, fence}[rng.Intn(3)])
		}
		for _, ts := range tss {
			if ts > fence || h.aborted {
				continue
			}
			who := "store of the early look"
			if c == fresh {
				who = "fresh store"
			}
			st := h.newSess(si, c, ts, who)
			h.allPaths(si, st, tkeys)
			si++
			r.Count("early:read-sessions:"+who, 1)
		}
	}
	for _, c := range h.rd {
		c.Net.SetDecider(nil)
	}
	if h.aborted {
		return
	}
	if !u.Drain() {
		r.Inconc("early-look history %d (%s seed %d): reads did not drain", id, backend, seed)
		return
	}

	// ---- the truth AFTER the reads: a read must not change a committed outcome
	truth1, err := u.ReadTruth(ks)
	if err != nil {
		r.Inconc("early-look history %d: truth after the reads: %v", id, err)
		return
	}
	detail := func() map[string]any {
		dd := map[string]any{"backend": backend, "history": id, "history_seed": seed, "driver_history": d.Descr()}
		var reads []string
		for _, o := range h.obs {
			reads = append(reads, describe(o))
		}
		dd["reads"] = reads
		return dd
	}
	for _, k := range keyUniverse {
		k0, k1 := truth0.Keys[k], truth1.Keys[k]
		r.Eval(1)
		for _, w := range k0.Writes {
			if w.Type == kvrpcpb.Op_Rollback {
				continue
			}
			found := false
			for _, w1 := range k1.Writes {
				if w1.StartTS == w.StartTS && w1.CommitTS == w.CommitTS && w1.Type == w.Type {
					found = true
				}
			}
			if !found {
				r.Violate("reads-changed-committed-data:record-lost:"+backend, fmt.Sprintf("%s early-look history %d (seed %d): key %q lost its %s record start=%d commit=%d during the reads", backend, id, seed, k, w.Type, w.StartTS, w.CommitTS), detail())
			}
		}
		l := k0.Lock
		if l == nil || (l.Type != kvrpcpb.Op_Put && l.Type != kvrpcpb.Op_Del) {
			continue
		}
		var pc uint64
		if pt := truth0.Keys[string(l.Primary)]; pt != nil {
			if w := pt.WriteOf(l.StartTS); w != nil {
				pc = w.CommitTS
			}
		}
		w1 := k1.WriteOf(l.StartTS)
		stillLocked := k1.Lock != nil && k1.Lock.StartTS == l.StartTS
		switch {
		case pc != 0 && w1 == nil && !stillLocked:
			r.Violate("reads-changed-committed-data:lock-of-committed-txn-rolled-back:"+backend,
				fmt.Sprintf("%s early-look history %d (seed %d, state %s, look %s): key %q carried a lock of txn %d whose primary %q is committed at %d; after the reads the lock is gone and the key has no commit record (rollback record: %v)",
					backend, id, seed, stateNames[state], lookNames[look], k, l.StartTS, l.Primary, pc, k1.RolledBack(l.StartTS)), detail())
		case pc != 0 && w1 != nil && w1.CommitTS != pc:
			r.Violate("reads-changed-committed-data:secondary-committed-at-another-ts:"+backend,
				fmt.Sprintf("%s early-look history %d (seed %d): key %q of txn %d committed at %d, primary at %d", backend, id, seed, k, l.StartTS, w1.CommitTS, pc), detail())
		}
	}
	for _, p := range u.Panics() {
		r.Violate(fmt.Sprintf("backend-panic:%s:early-look:%s", p.Msg, backend), fmt.Sprintf("%s early-look history %d (seed %d): the store panicked (%s) serving %s", backend, id, seed, p.Msg, p.Req), detail())
	}
	for _, o := range h.obs {
		h.judge(o, eff)
	}
	h.countRewrites()
	r.Count("early:histories", 1)
	r.Count("early:histories:"+backend, 1)
	r.Count("sessions", len(h.sess))
	for e, n := range d.keyErrs {
		r.Count("early:driver_key_error:"+e, n)
	}
	r.Count("topology_changes_during_reads", int(h.topo.split.Load()+h.topo.merge.Load()+h.topo.move.Load()))
}
