//go:build verif

// Package c05 is the check of property C05: snapshot reads are stable and identical across all access
// paths (point get, batch get, forward scan, reverse scan), whichever locks are met, for every region
// layout and while regions split / merge / move during the read.
package c05

import (
	"context"
	"fmt"
	"math/rand"
	"os"
	"sort"
	"strconv"
	"strings"
	"testing"
	"time"

	"github.com/pingcap/failpoint"
	"github.com/pingcap/kvproto/pkg/kvrpcpb"
	"github.com/tikv/client-go/v2/oracle"
	"github.com/tikv/client-go/v2/verifh/vrep"

	"verif/e2e/uni"
)

// Key universe (sorted): shared prefixes, a key that is another key plus \x00, keys next to the split
// points; "c5" and "g" are rarely written (reads of keys that never existed).
var keyUniverse = []string{"a", "a\x00", "a1", "b", "b5", "c", "c5", "c\xff", "d", "d7", "e", "e1", "f", "g"}

// Candidate split points / scan bounds: on keys, between keys, right after a key.
var splitPoints = []string{"a\x00", "a5", "b", "b5\x00", "c", "c\xff", "d3", "e", "e1", "f5"}

type histCfg struct {
	backend  string
	seed     int64
	nBuild   int
	sessions int
	opsMax   int
}

func runHistory(t *testing.T, r *vrep.Report, id int, cfg histCfg) {
	u, err := uni.New(cfg.backend, 3)
	if err != nil {
		r.Inconc("universe: %v", err)
		return
	}
	defer u.Close()
	rng := rand.New(rand.NewSource(cfg.seed))
	drv, err := u.NewClient()
	if err != nil {
		r.Inconc("client: %v", err)
		return
	}
	h := &hist{id: id, backend: cfg.backend, seed: cfg.seed, u: u, rng: rng, keys: keyUniverse, points: splitPoints, sess: map[int]*sessState{}, r: r}
	h.d = newDriver(u, drv, rand.New(rand.NewSource(cfg.seed^0x5eed5eed)), keyUniverse)
	for i := 0; i < 2; i++ {
		c, err := u.NewClient()
		if err != nil {
			r.Inconc("client: %v", err)
			return
		}
		h.rd = append(h.rd, c)
		h.rewriters = append(h.rewriters, installRewriter(c, cfg.seed, 25))
	}
	// initial layout
	for _, p := range splitPoints {
		if rng.Intn(3) == 0 {
			u.SplitAt([]byte(p))
		}
	}
	for i := 0; i < 3; i++ {
		u.MoveLeader([]byte(keyUniverse[rng.Intn(len(keyUniverse))]), rng.Intn(3))
	}
	// build phase
	for i := 0; i < cfg.nBuild; i++ {
		h.d.NewTxn(h.d.pickFate(cfg.backend))
		if rng.Intn(4) == 0 {
			h.d.Advance(int64(1 + rng.Intn(5)))
		}
	}
	// short TTLs are over now (a read that meets a short-TTL lock which is still alive spins through its whole
	// back-off budget in 15 ms steps: thousands of RPCs under virtualised sleeping)
	h.d.Advance(int64(ttlShort + 1 + rng.Intn(200)))
	// read phase, the history keeps growing between sessions
	for si := 0; si < cfg.sessions && !h.aborted; si++ {
		h.session(si, 3+rng.Intn(cfg.opsMax))
		if h.aborted {
			break
		}
		switch x := rng.Intn(100); {
		case x < 30:
			h.d.NewTxn(h.d.pickFate(cfg.backend))
			h.d.Advance(int64(ttlShort + 1 + rng.Intn(50)))
		case x < 45:
			h.d.FinishPending()
		case x < 65:
			h.d.Advance(int64(ttlShort + 1 + rng.Intn(4000)))
		case x < 85:
			pt := []byte(splitPoints[rng.Intn(len(splitPoints))])
			k := []byte(keyUniverse[rng.Intn(len(keyUniverse))])
			switch rng.Intn(3) {
			case 0:
				u.SplitAt(pt)
			case 1:
				u.MergeAt(k)
			default:
				u.MoveLeader(k, rng.Intn(3))
			}
		}
	}
	for _, c := range h.rd {
		c.Net.SetDecider(nil)
	}
	if h.aborted {
		return
	}
	if !u.Drain() {
		r.Inconc("history %d (%s seed %d): background work did not drain", id, cfg.backend, cfg.seed)
		return
	}
	// settle: every lock expires, an observer reads everything (which resolves every lock that can block a read)
	u.AdvanceClock(4 * 3600 * 1000)
	obsC, err := u.NewClient()
	if err != nil {
		r.Inconc("observer: %v", err)
		return
	}
	if err := settle(u, obsC); err != nil {
		r.Inconc("history %d (%s seed %d): settle: %v", id, cfg.backend, cfg.seed, err)
		return
	}
	var ks [][]byte
	for _, k := range keyUniverse {
		ks = append(ks, []byte(k))
	}
	truth, err := u.ReadTruth(ks)
	if err != nil {
		r.Inconc("history %d: truth: %v", id, err)
		return
	}
	for k, kt := range truth.Keys {
		if kt.Lock != nil && (kt.Lock.Type == kvrpcpb.Op_Put || kt.Lock.Type == kvrpcpb.Op_Del) {
			r.Inconc("history %d (%s seed %d): key %q still carries a prewrite lock of %d after settling", id, cfg.backend, cfg.seed, k, kt.Lock.StartTS)
			return
		}
	}
	panicSeen := map[string]int{}
	for _, p := range u.Panics() {
		var o *obs
		for _, x := range h.obs {
			if x.seqFrom <= p.Seq && p.Seq <= x.seqTo {
				o = x
			}
		}
		what := "driver"
		d := map[string]any{"backend": cfg.backend, "history": id, "history_seed": cfg.seed, "panic": p, "driver_history": h.d.Descr()}
		if o != nil {
			what = o.path
			if (o.path == "iter" || o.path == "iterrev") && len(o.lower) > 0 && string(o.lower) == string(o.upper) {
				what += ":empty-range"
			}
			d["read"] = describe(o)
			d["layout_at_start"] = o.layout
			if st := h.sess[o.sess]; st != nil {
				d["session"] = st.log
			}
		}
		sig := fmt.Sprintf("backend-panic:%s:%s:%s", p.Msg, what, cfg.backend)
		if panicSeen[sig]++; panicSeen[sig] > 2 {
			continue // the sender retries the request that makes the store panic many times
		}
		r.Violate(sig, fmt.Sprintf("%s history %d (seed %d): the store panicked (%s) serving %s", cfg.backend, id, cfg.seed, p.Msg, p.Req), d)
	}
	// all-or-nothing: a transaction one of whose keys was rolled back is rolled back
	partial := h.partialTxns(truth)
	for _, what := range partial {
		r.Violate("txn-partially-committed-after-lock-resolution:"+cfg.backend,
			fmt.Sprintf("%s history %d (seed %d): %s", cfg.backend, id, cfg.seed, what),
			map[string]any{"backend": cfg.backend, "history": id, "history_seed": cfg.seed, "driver_history": h.d.Descr()})
	}
	judged := withoutTxns(truth, partial)
	for _, o := range h.obs {
		h.judge(o, judged)
	}
	h.judgeOutcomes(truth)
	h.countRewrites()
	r.Count("async_gate:missing-lock-answer-first", int(h.gates.missingFirst.Load()))
	r.Count("async_gate:present-lock-answers-first", int(h.gates.presentFirst.Load()))
	r.Count("async_gate:other-answer-never-came", int(h.gates.timeouts.Load()))
	// evidence
	r.Count("histories", 1)
	r.Count("histories:"+cfg.backend, 1)
	r.Count("sessions", len(h.sess))
	r.Count("txns_in_histories", len(h.d.txns))
	for f, n := range h.d.fates {
		r.Count("txn_fate:"+f, n)
	}
	for e, n := range h.d.keyErrs {
		r.Count("driver_key_error:"+e, n)
	}
	r.Count("topology_in_rpc:split", int(h.topo.split.Load()))
	r.Count("topology_in_rpc:merge", int(h.topo.merge.Load()))
	r.Count("topology_in_rpc:move-leader", int(h.topo.move.Load()))
	r.Count("in_rpc_clock_jumps", int(h.topo.clock.Load()))
	r.Count("in_rpc_pending_txn_finished", int(h.topo.finish.Load()))
	r.Count("topology_changes_during_reads", int(h.topo.split.Load()+h.topo.merge.Load()+h.topo.move.Load()))
	r.Count("rpcs", u.Log.Len())
	if r.SampleN() < 4 {
		// a read that met locks, with its answer
		for _, o := range h.obs {
			if len(o.classes) >= 2 && o.err == "" && (o.path == "iterrev" || o.path == "batchget" || cfg.backend == uni.Uni) {
				r.Sample(map[string]any{"backend": cfg.backend, "history_seed": cfg.seed, "read": describe(o), "history": h.d.Descr()})
				break
			}
		}
	}
}

// settle lets an observer read every key through every forward path at a fresh timestamp until no
// prewrite lock is left (reads resolve what blocks them; the clean-up may finish in the background).
func settle(u *uni.Universe, obsC *uni.ClientStore) error {
	ctx := context.Background()
	desc := ""
	for round := 0; round < 8; round++ {
		ts, err := obsC.Store.CurrentTimestamp(oracle.GlobalTxnScope)
		if err != nil {
			return err
		}
		snap := obsC.Store.GetSnapshot(ts)
		var ks [][]byte
		for _, k := range keyUniverse {
			ks = append(ks, []byte(k))
		}
		if _, err := snap.BatchGet(ctx, ks); err != nil {
			return fmt.Errorf("observer batch get: %w", err)
		}
		it, err := snap.Iter(nil, nil)
		if err != nil {
			return fmt.Errorf("observer scan: %w", err)
		}
		for it.Valid() {
			if err := it.Next(); err != nil {
				return fmt.Errorf("observer scan: %w", err)
			}
		}
		it.Close()
		if !u.Drain() {
			return fmt.Errorf("observer's background work did not drain")
		}
		locks, err := u.ScanLocksTruth()
		if err != nil {
			return err
		}
		left := 0
		desc = ""
		for _, l := range locks {
			if l.Type == kvrpcpb.Op_Put || l.Type == kvrpcpb.Op_Del {
				left++
				desc += fmt.Sprintf(" {key=%q type=%s start=%d primary=%q ttl=%d async=%v minCommit=%d}", l.Key, l.Type, l.StartTS, l.Primary, l.TTL, l.UseAsync, l.MinCommitTS)
			}
		}
		if left == 0 {
			return nil
		}
	}
	return fmt.Errorf("prewrite locks remain after 8 observer rounds:%s", desc)
}

func TestVerifC05(t *testing.T) {
	r := vrep.New("C05", "c05-e2e", "MVCC histories built by raw Prewrite/Commit/BatchRollback/PessimisticLock RPCs (leftover locks: committed primary + unresolved secondaries, rolled-back primary, pending expired/alive, large-txn min_commit_ts, pessimistic, lock-only, secondaries without primary, async-commit on unistore) on mocktikv(3 stores) and unistore; KVSnapshot Get/BatchGet/Iter/IterReverse at the history's timestamps +-1, each read twice, cold/warm cache, after SetSnapshotTS forwards/backwards, key-only, scan batch sizes 2.., sync/async batch get, with region split/merge/leader move, clock jumps and commits of pending txns executed inside the read's RPCs; every read that returned without error is compared with the MVCC truth (MvccGetByKey after all locks were settled); an error is a violation only if every blocking lock on the read's keys belonged to a finished txn; distinct = distinct (backend, path, lock classes on the touched keys relative to ts, cache state, ts movement, key-only, in-RPC event, batch size, request count) among reads that touch a lock / moved ts / had an in-RPC event")
	defer r.Finish(t)
	_ = failpoint.Enable("tikvclient/fastBackoffBySkipSleep", "return")
	defer failpoint.Disable("tikvclient/fastBackoffBySkipSleep")
	seed := vrep.Seed()
	nMock, nUni := vrep.Pick(150, 1500), vrep.Pick(70, 700)
	nEarlyMock, nEarlyUni := vrep.Pick(70, 700), vrep.Pick(35, 350)
	if s := os.Getenv("VERIF_C05_N"); s != "" {
		if v, err := strconv.Atoi(s); err == nil {
			nMock, nUni, nEarlyMock, nEarlyUni = v, v/2, v/2, v/4
		}
	}
	only := os.Getenv("VERIF_C05_ONLY") // "mocktikv" | "unistore" | "<backend>:<history seed>" (with a VERIF_C05_N / tier that includes it)
	t0 := time.Now()
	id := 0
	run := func(backend string, base int64, n int) {
		for i := 0; i < n; i++ {
			id++
			// the history seed depends on (VERIF_SEED, back-end, index) only, so a history can be replayed alone
			cfg := histCfg{backend: backend, seed: seed*1000003 + base + int64(i), nBuild: 4 + i%7, sessions: 8, opsMax: 7}
			if only != "" && !strings.HasPrefix(fmt.Sprintf("%s:%d", backend, cfg.seed), only) {
				continue
			}
			t.Logf("history %d %s seed=%d", id, backend, cfg.seed) // before running it: a crash names the history
			h0 := time.Now()
			runHistory(t, r, id, cfg)
			if d := time.Since(h0); d > 5*time.Second {
				t.Logf("history %d %s seed=%d took %v", id, backend, cfg.seed, d)
			}
			if id%10 == 0 {
				r.Flush()
			}
		}
	}
	run(uni.Mock, 0, nMock)
	run(uni.Uni, 500000, nUni)
	// the "early look" family: S's resolver looks at T in an intermediate state, T moves on, reads through S
	runEarly := func(backend string, base int64, n int) {
		for i := 0; i < n; i++ {
			id++
			hs := seed*1000003 + base + int64(i)
			if only != "" && !strings.HasPrefix(fmt.Sprintf("%s-early:%d", backend, hs), only) {
				continue
			}
			t.Logf("history %d %s-early seed=%d", id, backend, hs)
			runEarlyLook(t, r, id, backend, hs)
			if id%10 == 0 {
				r.Flush()
			}
		}
	}
	runEarly(uni.Mock, 800000, nEarlyMock)
	runEarly(uni.Uni, 900000, nEarlyUni)
	t.Logf("wall %v", time.Since(t0))
	if only == "" && os.Getenv("VERIF_C05_N") == "" {
		// a run that did not see these things must not count as "held"
		r.Floor("histories:"+uni.Mock, 100)
		r.Floor("histories:"+uni.Uni, 50)
		r.Floor("reads_judged", 8000)
		r.Floor("reads:get", 1500)
		r.Floor("reads:batchget", 1500)
		r.Floor("reads:iter", 1500)
		r.Floor("reads:iterrev", 800)
		r.Floor("reads_judged_with_decided_locks", 2000)
		r.Floor("reads_warm_cache", 1000)
		r.Floor("lock_in_judged_read:committed<=ts", 100)
		r.Floor("lock_in_judged_read:committed>ts", 60)
		r.Floor("lock_in_judged_read:rolledback", 150)
		r.Floor("lock_in_judged_read:pessimistic", 500)
		r.Floor("lock_in_judged_read:later:pending-alive", 100)
		r.Floor("lock_in_judged_read:large-alive", 100)
		r.Floor("lock_in_judged_read:pending-expired", 50)
		r.Floor("lock_in_judged_read:async", 10)
		r.Floor("topology_changes_during_reads", 400)
		r.Floor("set_ts_backward", 300)
		r.Floor("set_ts_forward", 300)
		r.Floor("targeted_sessions", 50)
		r.Floor("multi_request:batchget", 500)
		r.Floor("multi_request:iter", 500)
		r.Floor("multi_request:iterrev", 500)
		r.Floor("txn_outcomes_checked", 1000)
		r.Floor("txn_fate:"+fAsyncMissing.String(), 8)
		r.Floor("txn_fate:"+fAsyncSecondaryRolledBack.String(), 8)
		r.Floor("txn_fate:"+fAsyncPrimaryCommitted.String(), 5)
		r.Floor("txn_fate:"+fAsyncLeft.String(), 5)
		r.Floor("async_gate:missing-lock-answer-first", 3)
		r.Floor("async_gate:present-lock-answers-first", 3)
		r.Floor("response_level_lock_error:batchget", 100)
		r.Floor("response_level_lock_error:batchget-with-several-keys", 50)
		r.Floor("response_level_lock_error:scan", 100)
		r.Floor("early:histories", 80)
		r.Floor("early:state:"+stateNames[stOrphanPess], 15)
		r.Floor("early:state:"+stateNames[stPessOnly], 8)
		r.Floor("early:state:"+stateNames[stPrewrittenHeartbeat], 8)
		r.Floor("early:look:"+lookNames[lookPessLock], 15)
		r.Floor("early:look:"+lookNames[lookOptimisticWrite], 15)
		r.Floor("early:look:"+lookNames[lookReader], 15)
		r.Floor("early:look:"+lookNames[lookGC], 3)
		r.Floor("early:committed-with-leftover-secondary-locks", 25)
	}
	// stable order of the counters that name lock classes (for the log)
	var names []string
	for _, k := range []string{"reads_judged", "read_errors", "read_errors_undecided_lock"} {
		names = append(names, fmt.Sprintf("%s=%d", k, r.Get(k)))
	}
	sort.Strings(names)
	t.Logf("summary: %s", strings.Join(names, " "))
}

// judgeOutcomes checks "locks of finished transactions are resolved to their true outcome" on the store
// itself: after all locks were settled (by the readers' and the observer's resolvers - the driver never
// commits a key of a transaction whose primary it did not commit), every key a transaction prewrote must
// carry the outcome of the transaction's primary: committed at the primary's commit ts, or not at all.
func (h *hist) judgeOutcomes(truth *uni.Truth) {
	for _, t := range h.d.txns {
		pk := truth.Keys[t.muts[0].key]
		if pk == nil {
			continue
		}
		var commitTS uint64
		if w := pk.WriteOf(t.startTS); w != nil {
			commitTS = w.CommitTS
		}
		h.r.Eval(1)
		h.r.Count("txn_outcomes_checked", 1)
		for _, m := range t.muts[1:] {
			kt := truth.Keys[m.key]
			if kt == nil {
				continue
			}
			w := kt.WriteOf(t.startTS)
			var bad string
			switch {
			case commitTS == 0 && w != nil:
				bad = fmt.Sprintf("key %q carries a %s record of the transaction committed at %d, but the primary %q was not committed", m.key, w.Type, w.CommitTS, t.muts[0].key)
			case commitTS != 0 && w != nil && w.CommitTS != commitTS:
				bad = fmt.Sprintf("key %q was committed at %d, the primary %q at %d", m.key, w.CommitTS, t.muts[0].key, commitTS)
			case commitTS != 0 && w == nil && t.locked[m.key] && kt.RolledBack(t.startTS) && !t.async:
				bad = fmt.Sprintf("key %q was rolled back although the primary %q is committed at %d", m.key, t.muts[0].key, commitTS)
			}
			if bad != "" {
				what := "committed-though-primary-is-not"
				if commitTS != 0 {
					what = "outcome-differs-from-committed-primary"
				}
				h.r.Violate(fmt.Sprintf("lock-resolved-against-its-primary:%s:%s", what, h.backend),
					fmt.Sprintf("%s history %d (seed %d): txn start=%d (%s): %s", h.backend, h.id, h.seed, t.startTS, t.fate, bad),
					map[string]any{"backend": h.backend, "history": h.id, "history_seed": h.seed, "driver_history": h.d.Descr(), "txn_start": t.startTS})
			}
		}
	}
}
