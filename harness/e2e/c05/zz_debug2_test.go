//go:build verif

package c05

import (
	"fmt"
	"testing"

	"verif/e2e/uni"
)

func TestDebugMerge(t *testing.T) {
	u, _ := uni.New(uni.Mock, 3)
	defer u.Close()
	for _, p := range []string{"a5", "c", "e", "e1"} {
		fmt.Println("split", p, u.C05SplitAt([]byte(p)))
	}
	for _, k := range []string{"a", "b", "c", "d", "e", "e1", "f"} {
		fmt.Println("merge at", k, u.C05MergeAt([]byte(k)))
	}
	for _, r := range u.MockCl.ScanRegions(nil, nil, 0) {
		fmt.Printf("  region %d [%q,%q) v%d\n", r.Meta.Id, r.Meta.StartKey, r.Meta.EndKey, r.Meta.RegionEpoch.Version)
	}
}

func TestDebugMerge2(t *testing.T) {
	u, _ := uni.New(uni.Mock, 3)
	defer u.Close()
	u.C05SplitAt([]byte("c"))
	region, _, _, _ := u.MockCl.GetRegionByKey([]byte("a"))
	fmt.Printf("region %d [%q,%q)\n", region.Id, region.StartKey, region.EndKey)
	rem, raw, err := codecDecode(region.EndKey)
	fmt.Printf("rem=%q raw=%q err=%v\n", rem, raw, err)
	right, _, _, _ := u.MockCl.GetRegionByKey(raw)
	fmt.Printf("right %d [%q,%q)\n", right.Id, right.StartKey, right.EndKey)
}
