//go:build verif

package c05

// Per-call context discipline of the read programs.  KVSnapshot.Get and BatchGet take the caller's
// context; Iter / IterReverse / Scanner.Next take none (the scanner works under context.Background()),
// so only point and batch gets can see the caller's context end.
//
// kinds: background | cancelled right after the call returned | values + far deadline, cancelled after
// return | ended DURING the call at the n-th RPC of that call: before the request (request dropped, or
// delivered although the context has ended) or after it was executed (answer delivered, context already
// ended) - by cancellation or by a deadline (custom context whose Done closes and Err is DeadlineExceeded).
//
// Oracle: a call whose context ended during it may fail (not judged) or return a correct answer (judged
// like any other).  What carries the weight: every LATER read through the same snapshot object and client
// store (snapshot cache, resolver cache, region cache) is judged against the MVCC truth as usual.

import (
	"context"
	"sync"
	"time"
)

type ctxKey struct{}

// manualCtx is a context whose end the harness fires by hand with any error (deadline without waiting).
type manualCtx struct {
	context.Context
	once     sync.Once
	mu       sync.Mutex
	done     chan struct{}
	err      error
	deadline time.Time
}

func newManualCtx() *manualCtx {
	return &manualCtx{Context: context.WithValue(context.Background(), ctxKey{}, "c05"), done: make(chan struct{}), deadline: time.Now().Add(time.Hour)}
}

func (c *manualCtx) Done() <-chan struct{}       { return c.done }
func (c *manualCtx) Deadline() (time.Time, bool) { return c.deadline, true }
func (c *manualCtx) Err() error {
	c.mu.Lock()
	defer c.mu.Unlock()
	return c.err
}
func (c *manualCtx) fire(err error) {
	c.once.Do(func() {
		c.mu.Lock()
		c.err = err
		c.mu.Unlock()
		close(c.done)
	})
}

// callCtx is the context plan of one read.
type callCtx struct {
	kind    string
	ctx     context.Context
	end     func() // ends the context (idempotent)
	during  string // "" | before-drop | before-deliver | after-rpc
	atRPC   int64
	endLate bool // end the context right after the call returned
}

func (h *hist) planCtx(path string, rep int) *callCtx {
	cc := &callCtx{kind: "background", ctx: context.Background(), end: func() {}}
	if path != "get" && path != "batchget" {
		cc.kind = "none(scan)"
		return cc
	}
	x := h.rng.Intn(100)
	if rep > 0 {
		// the repetition runs under a live context: it is the "later read" of the same keys
		if x < 30 {
			ctx, cancel := context.WithCancel(context.Background())
			cc.kind, cc.ctx, cc.end, cc.endLate = "cancel-after-return", ctx, cancel, true
		}
		return cc
	}
	switch {
	case x < 36:
	case x < 48:
		ctx, cancel := context.WithCancel(context.Background())
		cc.kind, cc.ctx, cc.end, cc.endLate = "cancel-after-return", ctx, cancel, true
	case x < 56:
		ctx, cancel := context.WithTimeout(context.WithValue(context.Background(), ctxKey{}, "c05"), time.Hour)
		cc.kind, cc.ctx, cc.end, cc.endLate = "values+far-deadline,cancel-after-return", ctx, cancel, true
	default:
		cc.during = []string{"before-drop", "before-deliver", "after-rpc"}[h.rng.Intn(3)]
		cc.atRPC = int64(1 + h.rng.Intn(4))
		if h.rng.Intn(2) == 0 {
			ctx, cancel := context.WithCancel(context.WithValue(context.Background(), ctxKey{}, "c05"))
			cc.kind, cc.ctx, cc.end = "cancel-during:"+cc.during, ctx, cancel
		} else {
			m := newManualCtx()
			cc.kind, cc.ctx, cc.end = "deadline-during:"+cc.during, m, func() { m.fire(context.DeadlineExceeded) }
		}
	}
	return cc
}
