//go:build verif

package c05

// Owner-less async-commit transactions (unistore): ordering of the per-region CheckSecondaryLocks answers
// during recovery, and the all-or-nothing clause for what recovery decided.

import (
	"fmt"
	"sync"
	"sync/atomic"
	"time"

	"github.com/pingcap/kvproto/pkg/kvrpcpb"
	"github.com/tikv/client-go/v2/tikvrpc"

	"verif/e2e/uni"
)

type gateState struct {
	mu                                   sync.Mutex
	returned                             map[uint64]*atomic.Int64 // per transaction: answers of the class that goes first
	missingFirst, presentFirst, timeouts atomic.Int64
}

// asyncGate orders the answers of the concurrent per-region CheckSecondaryLocks requests of one recovery:
// for a transaction with a missing secondary lock either the answer of the region that misses the lock or
// the answers of the regions whose locks are present are delivered first (chosen per transaction).
func (h *hist) asyncGate(c *uni.Call) (after func()) {
	if c.Cmd != tikvrpc.CmdCheckSecondaryLocks {
		return nil
	}
	req, ok := c.Req.(*kvrpcpb.CheckSecondaryLocksRequest)
	if !ok {
		return nil
	}
	broken, ok := h.d.Broken()[req.StartVersion]
	if !ok {
		return nil
	}
	hasBroken := false
	for _, k := range req.Keys {
		if string(k) == broken {
			hasBroken = true
		}
	}
	missingFirst := (uint64(h.seed)+req.StartVersion>>18+req.StartVersion)%3 != 0 // two of three transactions
	g := &h.gates
	g.mu.Lock()
	if g.returned == nil {
		g.returned = map[uint64]*atomic.Int64{}
	}
	cnt := g.returned[req.StartVersion]
	if cnt == nil {
		cnt = &atomic.Int64{}
		g.returned[req.StartVersion] = cnt
	}
	g.mu.Unlock()
	if hasBroken == missingFirst {
		return func() { cnt.Add(1) } // this class goes first: tell the others when the answer is on its way
	}
	v0 := cnt.Load()
	return func() {
		// hold the answer until an answer of the other class has been delivered (bounded: it may never be sent,
		// e.g. all secondaries in one region)
		deadline := time.Now().Add(40 * time.Millisecond)
		for cnt.Load() == v0 {
			if time.Now().After(deadline) {
				g.timeouts.Add(1)
				return
			}
			time.Sleep(200 * time.Microsecond)
		}
		time.Sleep(300 * time.Microsecond) // let the first answer be processed
		if missingFirst {
			g.missingFirst.Add(1)
		} else {
			g.presentFirst.Add(1)
		}
	}
}

// partialTxns returns the transactions that the final truth shows as partially committed: a member key
// carries a rollback record (and no commit record) of the transaction while another member key carries its
// commit record.  A transaction one of whose keys was rolled back is rolled back; nothing of it may be read.
func (h *hist) partialTxns(truth *uni.Truth) map[uint64]string {
	out := map[uint64]string{}
	for _, t := range h.d.txns {
		var committed, rolledBack []string
		for _, m := range t.muts {
			kt := truth.Keys[m.key]
			if kt == nil {
				continue
			}
			if w := kt.WriteOf(t.startTS); w != nil {
				committed = append(committed, fmt.Sprintf("%q@%d", m.key, w.CommitTS))
			} else if kt.RolledBack(t.startTS) {
				rolledBack = append(rolledBack, fmt.Sprintf("%q", m.key))
			}
		}
		if t.async && t.brokenKey != "" && len(committed) > 0 && len(rolledBack) == 0 {
			// the owner died with one secondary never prewritten / rolled back by itself: the transaction can only be
			// rolled back, whatever the store shows for that key (unistore does not list every rollback marker)
			rolledBack = append(rolledBack, fmt.Sprintf("%q (never prewritten / rolled back by the owner)", t.brokenKey))
		}
		if len(committed) > 0 && len(rolledBack) > 0 {
			out[t.startTS] = fmt.Sprintf("txn t%d start=%d (%s): committed on %v, rolled back on %v", t.id, t.startTS, t.fate, committed, rolledBack)
		}
	}
	return out
}

// withoutTxns returns the truth without the write records of the given transactions.
func withoutTxns(truth *uni.Truth, drop map[uint64]string) *uni.Truth {
	if len(drop) == 0 {
		return truth
	}
	out := &uni.Truth{Keys: map[string]*uni.KeyTruth{}}
	for k, kt := range truth.Keys {
		c := &uni.KeyTruth{Key: kt.Key, Lock: kt.Lock}
		for _, w := range kt.Writes {
			if _, bad := drop[w.StartTS]; bad && w.Type != kvrpcpb.Op_Rollback {
				continue
			}
			c.Writes = append(c.Writes, w)
		}
		out.Keys[k] = c
	}
	return out
}
