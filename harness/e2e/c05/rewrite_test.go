//go:build verif

package c05

// Response-level lock errors.  Both in-process stores report a lock met by BatchGet / Scan as the error of
// the locked pair; a TiKV may as well report it as the error of the WHOLE response (BatchGetResponse.Error /
// ScanResponse.Error, e.g. for in-memory locks), without any pair.  The rewriter sits between a reader store
// and its RPC interposer and turns a response whose pairs carry a Locked error into that equivalent form
// with some probability - a legitimate server behaviour, so the oracle stays as it is.

import (
	"context"
	"sync/atomic"
	"time"

	"github.com/pingcap/kvproto/pkg/kvrpcpb"
	"github.com/tikv/client-go/v2/tikv"
	"github.com/tikv/client-go/v2/tikvrpc"
	"github.com/tikv/client-go/v2/util/async"

	"verif/e2e/uni"
)

type rewriteClient struct {
	tikv.Client
	seed  uint64
	n     atomic.Uint64
	pct   uint64
	batch atomic.Int64
	scan  atomic.Int64
	multi atomic.Int64 // rewritten BatchGet responses that had more than one key in the request
}

// installRewriter puts the rewriter in front of the client store's RPC client.
func installRewriter(c *uni.ClientStore, seed int64, pct int) *rewriteClient {
	w := &rewriteClient{Client: c.Store.GetTiKVClient(), seed: uint64(seed)*0x9e3779b97f4a7c15 + uint64(c.ID), pct: uint64(pct)}
	c.Store.SetTiKVClient(w)
	return w
}

func (w *rewriteClient) pick() bool {
	x := w.seed + w.n.Add(1)*0xbf58476d1ce4e5b9
	x ^= x >> 30
	x *= 0x94d049bb133111eb
	x ^= x >> 27
	return x%100 < w.pct
}

func (w *rewriteClient) SendRequest(ctx context.Context, addr string, req *tikvrpc.Request, timeout time.Duration) (*tikvrpc.Response, error) {
	resp, err := w.Client.SendRequest(ctx, addr, req, timeout)
	if err != nil || resp == nil {
		return resp, err
	}
	switch r := resp.Resp.(type) {
	case *kvrpcpb.BatchGetResponse:
		if r == nil || r.Error != nil {
			break
		}
		for _, p := range r.Pairs {
			if p.GetError().GetLocked() != nil {
				if w.pick() {
					r.Error, r.Pairs = p.Error, nil
					w.batch.Add(1)
					if bg, ok := req.Req.(*kvrpcpb.BatchGetRequest); ok && len(bg.Keys) > 1 {
						w.multi.Add(1)
					}
				}
				break
			}
		}
	case *kvrpcpb.ScanResponse:
		if r == nil || r.Error != nil {
			break
		}
		for _, p := range r.Pairs {
			if p.GetError().GetLocked() != nil {
				if w.pick() {
					r.Error, r.Pairs = p.Error, nil
					w.scan.Add(1)
				}
				break
			}
		}
	}
	return resp, err
}

func (w *rewriteClient) SendRequestAsync(ctx context.Context, addr string, req *tikvrpc.Request, cb async.Callback[*tikvrpc.Response]) {
	go func() {
		cb.Schedule(w.SendRequest(ctx, addr, req, tikv.ReadTimeoutShort))
	}()
}
