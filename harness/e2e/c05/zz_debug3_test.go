//go:build verif

package c05

import "github.com/tikv/client-go/v2/util/codec"

func codecDecode(b []byte) ([]byte, []byte, error) { return codec.DecodeBytes(b, nil) }
