//go:build verif

package c05

// Debug aids (VERIF_C05_DEBUG=1): dump of the region layout at a failed demanded read, slow reads.

import (
	"fmt"
	"os"
)

func debugDump(h *hist, o *obs) {
	if os.Getenv("VERIF_C05_DEBUG") == "" || h.u.MockCl == nil {
		return
	}
	fmt.Println("DEBUG", describe(o))
	for _, r := range h.u.MockCl.ScanRegions(nil, nil, 0) {
		fmt.Printf("  region %d [%q,%q) v%d\n", r.Meta.Id, r.Meta.StartKey, r.Meta.EndKey, r.Meta.RegionEpoch.Version)
	}
}

func debugOn() bool { return os.Getenv("VERIF_C05_DEBUG") != "" }
