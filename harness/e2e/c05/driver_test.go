//go:build verif

package c05

// The history driver: builds MVCC histories with raw RPCs (Prewrite / Commit / BatchRollback /
// PessimisticLock) sent through a client store's region cache + SendReq, not through the transaction
// API, so that leftover locks of every kind exist when the snapshot reads run.
//
// Protocol discipline (what makes "final truth" a sound oracle for every successful read):
//   - every start_ts / for_update_ts / commit_ts is a fresh timestamp of the universe's clock;
//   - all prewrites of a transaction are sent before its commit_ts is fetched, and before any
//     later read starts (prewrites never happen inside a reader's RPC);
//   - readers only use snapshot timestamps <= a fence that was issued before the read started.
// Hence a version committed after a read has commit_ts > the read's ts, and the answer that was
// correct when a read ran stays correct for ever.

import (
	"context"
	"fmt"
	"math/rand"
	"sort"
	"strings"
	"sync"
	"time"

	"github.com/pingcap/kvproto/pkg/kvrpcpb"
	"github.com/tikv/client-go/v2/oracle"
	"github.com/tikv/client-go/v2/tikv"
	"github.com/tikv/client-go/v2/tikvrpc"

	"verif/e2e/uni"
)

type fate int

const (
	fCommitAll fate = iota
	fCommitPrimaryOnly
	fRollbackPrimaryOnly
	fRollbackAll
	fPendingExpiring
	fPendingAlive
	fPendingLarge
	fSecondariesOnly
	fPessimisticOnly
	fPessimisticPartial
	fAsyncLeft
	fAsyncMissing
	fAsyncSecondaryRolledBack
	fAsyncPrimaryCommitted
	nFates
)

func (f fate) String() string {
	return [...]string{"commit-all", "commit-primary-only", "rollback-primary-only", "rollback-all", "pending-expiring",
		"pending-alive", "pending-large", "secondaries-only", "pessimistic-only", "pessimistic-partial", "async-left", "async-missing-secondary", "async-secondary-rolled-back", "async-primary-committed"}[f]
}

const (
	ttlShort = 20    // ms: expires with the first clock step
	ttlAlive = 60000 // ms: alive until a big clock jump
)

type mutation struct {
	key string
	op  kvrpcpb.Op
	val []byte
}

type txn struct {
	id          int
	fate        fate
	pess        bool
	async       bool
	large       bool
	startTS     uint64
	forUpdateTS uint64
	commitTS    uint64 // the commit ts the driver used (0 = never tried)
	minCommitTS uint64
	ttl         uint64
	txnSize     uint64
	muts        []mutation // muts[0] is the primary
	locked      map[string]bool
	failed      bool
	finished    bool   // the driver sent the primary's commit or rollback
	brokenKey   string // async commit: the secondary that was never prewritten / was rolled back by the owner
}

func (t *txn) primary() []byte { return []byte(t.muts[0].key) }

type driver struct {
	mu    sync.Mutex
	u     *uni.Universe
	c     *uni.ClientStore
	rng   *rand.Rand
	keys  []string
	txns  []*txn
	descr []string
	tss   []uint64 // interesting timestamps
	// statistics
	keyErrs map[string]int
	fates   map[string]int
}

func newDriver(u *uni.Universe, c *uni.ClientStore, rng *rand.Rand, keys []string) *driver {
	return &driver{u: u, c: c, rng: rng, keys: keys, keyErrs: map[string]int{}, fates: map[string]int{}}
}

// Note adds a line to the history description.
func (d *driver) Note(format string, a ...any) {
	d.mu.Lock()
	defer d.mu.Unlock()
	d.logf(format, a...)
}

// Committed returns the transactions whose primary commit the driver sent with a commit ts <= fence.
func (d *driver) Committed(fence uint64) []*txn {
	d.mu.Lock()
	defer d.mu.Unlock()
	var out []*txn
	for _, t := range d.txns {
		if t.commitTS != 0 && t.commitTS <= fence && t.startTS > 1 {
			out = append(out, &txn{id: t.id, startTS: t.startTS, commitTS: t.commitTS})
		}
	}
	return out
}

// Lookup returns what the driver knows about the transaction that started at startTS.
func (d *driver) Lookup(startTS uint64) (ttl uint64, large, async bool) {
	d.mu.Lock()
	defer d.mu.Unlock()
	for _, t := range d.txns {
		if t.startTS == startTS {
			return t.ttl, t.large, t.async
		}
	}
	return 0, false, false
}

// Broken returns, per async-commit transaction (start ts), the secondary whose lock is missing.
func (d *driver) Broken() map[uint64]string {
	d.mu.Lock()
	defer d.mu.Unlock()
	out := map[uint64]string{}
	for _, t := range d.txns {
		if t.async && t.brokenKey != "" {
			out[t.startTS] = t.brokenKey
		}
	}
	return out
}

// Descr returns a copy of the history description.
func (d *driver) Descr() []string {
	d.mu.Lock()
	defer d.mu.Unlock()
	return append([]string(nil), d.descr...)
}

func (d *driver) logf(format string, a ...any) {
	d.descr = append(d.descr, fmt.Sprintf(format, a...))
}

// ts fetches a fresh timestamp through the driver's client (PD interposer -> universe clock).
func (d *driver) ts() uint64 {
	for i := 0; i < 10; i++ {
		ts, err := d.c.Store.CurrentTimestamp(oracle.GlobalTxnScope)
		if err == nil {
			d.tss = append(d.tss, ts)
			return ts
		}
	}
	panic("c05: cannot get a timestamp")
}

// send delivers one single-key request to the region that holds key, retrying region errors.
func send(c *uni.ClientStore, key []byte, cmd tikvrpc.CmdType, body any) (*tikvrpc.Response, error) {
	var last string
	for attempt := 0; attempt < 60; attempt++ {
		bo := tikv.NewBackofferWithVars(context.Background(), 40000, nil)
		loc, err := c.Store.GetRegionCache().LocateKey(bo, key)
		if err != nil {
			return nil, err
		}
		req := tikvrpc.NewRequest(cmd, body)
		resp, err := c.Store.SendReq(bo, req, loc.Region, 10*time.Second)
		if err != nil {
			return nil, err
		}
		if re, _ := resp.GetRegionError(); re != nil {
			last = re.String()
			continue
		}
		return resp, nil
	}
	return nil, fmt.Errorf("c05 driver: region errors did not settle for %s on %q: %s", cmd, key, last)
}

func keyErrKind(e *kvrpcpb.KeyError) string {
	switch {
	case e == nil:
		return ""
	case e.Locked != nil:
		return "locked"
	case e.Conflict != nil:
		return "conflict"
	case e.AlreadyExist != nil:
		return "exists"
	case e.CommitTsExpired != nil:
		return "commit-ts-expired"
	case e.TxnNotFound != nil:
		return "txn-not-found"
	case e.Retryable != "":
		return "retryable"
	case e.Abort != "":
		return "abort"
	}
	return "other"
}

func (d *driver) noteErr(what string, kind string) {
	d.keyErrs[what+":"+kind]++
}

func (d *driver) prewrite(t *txn, m mutation) bool {
	req := &kvrpcpb.PrewriteRequest{
		Mutations:    []*kvrpcpb.Mutation{{Op: m.op, Key: []byte(m.key), Value: m.val}},
		PrimaryLock:  t.primary(),
		StartVersion: t.startTS,
		LockTtl:      t.ttl,
		TxnSize:      t.txnSize,
	}
	if t.pess {
		req.ForUpdateTs = t.forUpdateTS
		req.PessimisticActions = []kvrpcpb.PrewriteRequest_PessimisticAction{kvrpcpb.PrewriteRequest_DO_PESSIMISTIC_CHECK}
	}
	if t.large || t.async {
		req.MinCommitTs = t.startTS + 1
		if t.forUpdateTS >= req.MinCommitTs {
			req.MinCommitTs = t.forUpdateTS + 1
		}
	}
	if t.async {
		req.UseAsyncCommit = true
		if m.key == t.muts[0].key {
			for _, s := range t.muts[1:] {
				req.Secondaries = append(req.Secondaries, []byte(s.key))
			}
		}
	}
	resp, err := send(d.c, []byte(m.key), tikvrpc.CmdPrewrite, req)
	if err != nil {
		d.noteErr("prewrite", "rpc")
		d.logf("  t%d prewrite %q: rpc error %v", t.id, m.key, err)
		return false
	}
	r := resp.Resp.(*kvrpcpb.PrewriteResponse)
	if len(r.Errors) > 0 {
		k := keyErrKind(r.Errors[0])
		d.noteErr("prewrite", k)
		d.logf("  t%d prewrite %s %q: key error %s", t.id, m.op, m.key, k)
		return false
	}
	if r.MinCommitTs > t.minCommitTS {
		t.minCommitTS = r.MinCommitTs
	}
	if req.MinCommitTs > t.minCommitTS {
		t.minCommitTS = req.MinCommitTs
	}
	t.locked[m.key] = true
	d.logf("  t%d prewrite %s %q ttl=%d minCommit=%d(resp %d) async=%v", t.id, m.op, m.key, t.ttl, req.MinCommitTs, r.MinCommitTs, t.async)
	return true
}

func (d *driver) pessLock(t *txn, key string) bool {
	req := &kvrpcpb.PessimisticLockRequest{
		Mutations:    []*kvrpcpb.Mutation{{Op: kvrpcpb.Op_PessimisticLock, Key: []byte(key)}},
		PrimaryLock:  t.primary(),
		StartVersion: t.startTS,
		ForUpdateTs:  t.forUpdateTS,
		LockTtl:      t.ttl,
		WaitTimeout:  -1, // no wait
		MinCommitTs:  t.forUpdateTS + 1,
	}
	resp, err := send(d.c, []byte(key), tikvrpc.CmdPessimisticLock, req)
	if err != nil {
		d.noteErr("pessimistic-lock", "rpc")
		d.logf("  t%d pessimistic lock %q: rpc error %v", t.id, key, err)
		return false
	}
	r := resp.Resp.(*kvrpcpb.PessimisticLockResponse)
	if len(r.Errors) > 0 {
		k := keyErrKind(r.Errors[0])
		d.noteErr("pessimistic-lock", k)
		d.logf("  t%d pessimistic lock %q: key error %s", t.id, key, k)
		return false
	}
	t.locked[key] = true
	d.logf("  t%d pessimistic lock %q forUpdate=%d ttl=%d", t.id, key, t.forUpdateTS, t.ttl)
	return true
}

// commit sends Commit for one key; a CommitTsExpired answer (min_commit_ts was pushed by a reader) is
// retried once with a fresh, larger commit ts, as a committer would do.
func (d *driver) commit(t *txn, key string) bool {
	for attempt := 0; attempt < 2; attempt++ {
		req := &kvrpcpb.CommitRequest{StartVersion: t.startTS, Keys: [][]byte{[]byte(key)}, CommitVersion: t.commitTS}
		resp, err := send(d.c, []byte(key), tikvrpc.CmdCommit, req)
		if err != nil {
			d.noteErr("commit", "rpc")
			d.logf("  t%d commit %q: rpc error %v", t.id, key, err)
			return false
		}
		r := resp.Resp.(*kvrpcpb.CommitResponse)
		if r.Error == nil {
			d.logf("  t%d commit %q at %d", t.id, key, t.commitTS)
			return true
		}
		k := keyErrKind(r.Error)
		d.noteErr("commit", k)
		d.logf("  t%d commit %q at %d: key error %s", t.id, key, t.commitTS, k)
		if r.Error.CommitTsExpired != nil && key == t.muts[0].key && attempt == 0 {
			nts := d.ts()
			if m := r.Error.CommitTsExpired.MinCommitTs; m > nts {
				// cannot happen with a conforming store: min_commit_ts is pushed to a reader's ts + 1 <= a fresh ts
				return false
			}
			t.commitTS = nts
			continue
		}
		return false
	}
	return false
}

func (d *driver) rollback(t *txn, key string) bool {
	req := &kvrpcpb.BatchRollbackRequest{StartVersion: t.startTS, Keys: [][]byte{[]byte(key)}}
	resp, err := send(d.c, []byte(key), tikvrpc.CmdBatchRollback, req)
	if err != nil {
		d.noteErr("rollback", "rpc")
		return false
	}
	r := resp.Resp.(*kvrpcpb.BatchRollbackResponse)
	if r.Error != nil {
		k := keyErrKind(r.Error)
		d.noteErr("rollback", k)
		d.logf("  t%d rollback %q: key error %s", t.id, key, k)
		return false
	}
	d.logf("  t%d rollback %q", t.id, key)
	return true
}

// heldKeys asks the store which keys carry a lock of any kind right now.
func (d *driver) heldKeys() map[string]bool {
	held := map[string]bool{}
	locks, err := d.u.ScanLocksTruth()
	if err != nil {
		// be conservative: believe every key a transaction of ours ever locked
		for _, t := range d.txns {
			for k := range t.locked {
				held[k] = true
			}
		}
		return held
	}
	for _, l := range locks {
		held[string(l.Key)] = true
	}
	return held
}

func (d *driver) value(t *txn, key string) []byte {
	v := fmt.Sprintf("v%d:%s", t.id, key)
	if d.rng.Intn(10) == 0 {
		v += strings.Repeat("~", 300) // long value: not a short value in the write record
	}
	return []byte(v)
}

// NewTxn generates and executes one transaction with the given fate on free keys.
// It returns nil when no key is free.
func (d *driver) NewTxn(f fate) *txn {
	d.mu.Lock()
	defer d.mu.Unlock()
	held := d.heldKeys()
	var free []string
	for _, k := range d.keys {
		if !held[k] {
			free = append(free, k)
		}
	}
	if len(free) == 0 {
		return nil
	}
	d.rng.Shuffle(len(free), func(i, j int) { free[i], free[j] = free[j], free[i] })
	n := 1 + d.rng.Intn(4)
	switch f {
	case fCommitPrimaryOnly, fRollbackPrimaryOnly, fSecondariesOnly, fPessimisticPartial:
		n = 2 + d.rng.Intn(3) // these need secondaries
	case fAsyncMissing, fAsyncSecondaryRolledBack, fAsyncPrimaryCommitted, fAsyncLeft:
		n = 3 + d.rng.Intn(3) // secondaries in several regions
	case fPendingExpiring:
		n = 1 + d.rng.Intn(3)
	}
	if n > len(free) {
		n = len(free)
	}
	if n < 2 && (f == fCommitPrimaryOnly || f == fRollbackPrimaryOnly || f == fSecondariesOnly || f == fAsyncMissing || f == fPessimisticPartial ||
		f == fAsyncSecondaryRolledBack || f == fAsyncPrimaryCommitted) {
		f = fCommitAll
	}
	t := &txn{id: len(d.txns) + 1, fate: f, locked: map[string]bool{}, ttl: ttlShort, txnSize: uint64(n)}
	d.txns = append(d.txns, t)
	switch f {
	case fPendingAlive:
		t.ttl = ttlAlive
	case fPendingLarge:
		t.ttl, t.large = ttlAlive, true
	case fAsyncLeft, fAsyncMissing, fAsyncSecondaryRolledBack, fAsyncPrimaryCommitted:
		t.async = true
		if d.rng.Intn(10) == 0 {
			t.ttl = ttlAlive // the owner is gone but the locks are still alive: readers wait until the clock moves on
		}
	case fPessimisticOnly, fPessimisticPartial:
		t.pess = true
		if d.rng.Intn(2) == 0 {
			t.ttl = ttlAlive
		}
	case fCommitAll, fCommitPrimaryOnly, fRollbackPrimaryOnly, fRollbackAll:
		t.pess = d.rng.Intn(4) == 0
		t.ttl = 3000
	}
	if d.rng.Intn(3) == 0 {
		// a "big" transaction: the resolver does not use the lite (single key) resolve path
		t.txnSize = 16 + uint64(d.rng.Intn(1000))
	}
	for i := 0; i < n; i++ {
		m := mutation{key: free[i], op: kvrpcpb.Op_Put}
		switch x := d.rng.Intn(10); {
		case x < 2:
			m.op = kvrpcpb.Op_Del
		case x < 3 && i > 0:
			m.op = kvrpcpb.Op_Lock
		}
		if t.async {
			// unistore records the commit of a lock-only key only when it is the primary (DESIGN 5.3): puts only
			m.op = kvrpcpb.Op_Put
		}
		if m.op == kvrpcpb.Op_Put {
			m.val = d.value(t, m.key)
		}
		t.muts = append(t.muts, m)
	}
	t.startTS = d.ts()
	d.fates[f.String()]++
	var ks []string
	for _, m := range t.muts {
		ks = append(ks, fmt.Sprintf("%s %q", m.op, m.key))
	}
	d.logf("t%d %s start=%d pess=%v size=%d: %s", t.id, f, t.startTS, t.pess, t.txnSize, strings.Join(ks, ", "))

	if t.pess {
		t.forUpdateTS = d.ts()
		for _, m := range t.muts {
			if !d.pessLock(t, m.key) {
				t.failed = true
			}
		}
		if f == fPessimisticOnly {
			return t
		}
	}
	order := d.rng.Perm(len(t.muts))
	skip := -1
	switch f {
	case fSecondariesOnly:
		skip = 0
	case fAsyncMissing:
		skip = 1 + d.rng.Intn(len(t.muts)-1)
		t.brokenKey = t.muts[skip].key
	case fPessimisticPartial:
		skip = d.rng.Intn(len(t.muts)) // one key keeps its pessimistic lock (possibly the primary)
	}
	for _, i := range order {
		if i == skip || t.failed {
			continue
		}
		if t.pess && !t.locked[t.muts[i].key] {
			continue
		}
		if !d.prewrite(t, t.muts[i]) {
			t.failed = true
		}
	}
	if t.minCommitTS != 0 {
		d.tss = append(d.tss, t.minCommitTS)
	}
	if t.failed {
		// a client whose prewrite failed never commits; it rolls back or dies
		if d.rng.Intn(2) == 0 {
			for k := range t.locked {
				d.rollback(t, k)
			}
			t.finished = true
		}
		return t
	}
	switch f {
	case fAsyncSecondaryRolledBack:
		// the owner gave up after a failed step and rolled one secondary back before it died
		t.brokenKey = t.muts[1+d.rng.Intn(len(t.muts)-1)].key
		d.rollback(t, t.brokenKey)
	case fAsyncPrimaryCommitted:
		// the owner committed the primary at max(min_commit_ts) and died before the secondaries
		t.finished = true
		t.commitTS = t.minCommitTS
		if d.commit(t, t.muts[0].key) {
			d.tss = append(d.tss, t.commitTS)
		}
	case fCommitAll:
		d.finish(t, true, 1.0)
	case fCommitPrimaryOnly:
		d.finish(t, true, 0.25)
	case fRollbackPrimaryOnly:
		d.finish(t, false, 0.25)
	case fRollbackAll:
		d.finish(t, false, 1.0)
	}
	return t
}

// finish commits or rolls back the primary, then each secondary with probability pSecondary.
func (d *driver) finish(t *txn, commit bool, pSecondary float64) {
	if t.finished {
		return
	}
	t.finished = true
	if commit {
		t.commitTS = d.ts()
		if !d.commit(t, t.muts[0].key) {
			d.logf("  t%d: primary commit refused; the transaction stays as it is", t.id)
			return
		}
		d.tss = append(d.tss, t.commitTS)
	} else if !d.rollback(t, t.muts[0].key) {
		return
	}
	for _, m := range t.muts[1:] {
		if !t.locked[m.key] || d.rng.Float64() >= pSecondary {
			continue
		}
		if commit {
			d.commit(t, m.key)
		} else {
			d.rollback(t, m.key)
		}
	}
}

// pending returns the transactions the driver could still finish (prewritten primary, no commit/rollback sent).
func (d *driver) pending() []*txn {
	var out []*txn
	for _, t := range d.txns {
		if t.finished || t.failed || t.async || !t.locked[t.muts[0].key] {
			continue
		}
		switch t.fate {
		case fPendingExpiring, fPendingAlive, fPendingLarge:
			out = append(out, t)
		}
	}
	return out
}

// FinishPending commits or rolls back one pending transaction (possibly leaving secondaries behind).
// It may be called from inside a reader's RPC.
func (d *driver) FinishPending() string {
	d.mu.Lock()
	defer d.mu.Unlock()
	p := d.pending()
	if len(p) == 0 {
		return ""
	}
	t := p[d.rng.Intn(len(p))]
	commit := d.rng.Intn(3) > 0
	ps := []float64{0, 0.5, 1}[d.rng.Intn(3)]
	d.logf("finish pending t%d commit=%v pSecondary=%.1f", t.id, commit, ps)
	d.finish(t, commit, ps)
	return fmt.Sprintf("finish-pending(commit=%v)", commit)
}

// Advance moves the universe's clock (may be called from inside a reader's RPC).
func (d *driver) Advance(ms int64) {
	d.mu.Lock()
	defer d.mu.Unlock()
	d.u.AdvanceClock(ms)
	d.logf("clock +%dms", ms)
}

// Interesting returns the sorted distinct timestamps of the history and their neighbours that are <= fence.
func (d *driver) Interesting(fence uint64) []uint64 {
	d.mu.Lock()
	defer d.mu.Unlock()
	seen := map[uint64]bool{}
	var out []uint64
	add := func(ts uint64) {
		if ts == 0 || ts > fence || seen[ts] {
			return
		}
		seen[ts] = true
		out = append(out, ts)
	}
	for _, ts := range d.tss {
		add(ts - 1)
		add(ts)
		add(ts + 1)
	}
	add(fence)
	sort.Slice(out, func(i, j int) bool { return out[i] < out[j] })
	return out
}

func (d *driver) pickFate(backend string) fate {
	if backend == uni.Uni && d.rng.Intn(100) < 24 {
		// owner-less async-commit transactions (unistore only)
		return []fate{fAsyncLeft, fAsyncMissing, fAsyncMissing, fAsyncSecondaryRolledBack, fAsyncSecondaryRolledBack, fAsyncPrimaryCommitted}[d.rng.Intn(6)]
	}
	for {
		var f fate
		switch x := d.rng.Intn(100); {
		case x < 30:
			f = fCommitAll
		case x < 45:
			f = fCommitPrimaryOnly
		case x < 55:
			f = fRollbackPrimaryOnly
		case x < 59:
			f = fRollbackAll
		case x < 68:
			f = fPendingExpiring
		case x < 71:
			f = fPendingAlive
		case x < 77:
			f = fPendingLarge
		case x < 81:
			f = fSecondariesOnly
		case x < 85:
			f = fPessimisticOnly
		case x < 89:
			f = fPessimisticPartial
		case x < 96:
			f = fAsyncLeft
		default:
			f = fAsyncMissing
		}
		if (f == fAsyncLeft || f == fAsyncMissing) && backend != uni.Uni {
			continue
		}
		return f
	}
}
