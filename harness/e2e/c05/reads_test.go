//go:build verif

package c05

// Snapshot read sessions over a driver-built history, and the oracle that judges what they observed
// against the MVCC ground truth read back after everything settled.

import (
	"bytes"
	"fmt"
	"math/rand"
	"sort"
	"strings"
	"sync/atomic"
	"time"

	"github.com/pingcap/kvproto/pkg/kvrpcpb"
	"github.com/tikv/client-go/v2/config"
	tikverr "github.com/tikv/client-go/v2/error"
	"github.com/tikv/client-go/v2/oracle"
	"github.com/tikv/client-go/v2/tikvrpc"
	"github.com/tikv/client-go/v2/txnkv/txnsnapshot"
	"github.com/tikv/client-go/v2/util/codec"
	"github.com/tikv/client-go/v2/verifh/vrep"

	"verif/e2e/uni"
)

type kvp struct {
	K string `json:"k"`
	V string `json:"v"`
}

// lockInfo is what the store holds on a key when a read starts.
type lockInfo struct {
	key      string
	startTS  uint64
	typ      kvrpcpb.Op
	class    string // committed | rolledback | pending-alive | pending-expired | large-alive | large-expired | async | no-primary | pessimistic | lock-only
	commitTS uint64
}

// obs is one executed read with everything needed to judge it later.
type obs struct {
	sess, op, rep int
	client        int
	path          string // get | batchget | iter | iterrev
	ts            uint64
	keys          []string
	lower, upper  []byte
	keyOnly       bool
	batchSize     int
	asyncBG       bool
	warm          bool
	moved         int // direction of the last SetSnapshotTS since the snapshot was created (0 none, 1 forward, -1 backward)
	err           string
	got           []kvp // get/batchget: sorted by key; scans: in iteration order
	truncated     bool  // scan returned more pairs than keys exist (cut off)
	panicked      string
	demanded      bool     // every blocking lock on the touched keys belonged to a finished transaction when the read started
	classes       []string // lock classes on the touched keys (relative to ts)
	rpcs          int
	regions       int // number of BatchGet/Scan requests sent by this read
	hook          string
	hookDone      atomic.Bool
	logFrom       int
	logTo         int
	seqFrom       int64
	seqTo         int64
	cc            *callCtx
	ctxEnded      atomic.Bool // the caller's context ended during the call
	followUp      bool        // a live-context read right after a call whose context ended during it
	layout        string
}

type sessState struct {
	snap      *txnsnapshot.KVSnapshot
	rd        *uni.ClientStore
	ts        uint64
	keyOnly   bool
	batchSize int
	moved     int
	asyncBG   bool
	read      map[string]bool // keys already read through get/batchget at the current ts (cache may be warm)
	// the previous read of this snapshot ran under a context that ended during the call
	endedBefore   bool
	pendingFollow []string // keys of a call whose context ended: read them on every path next
	followAll     bool
	log           []string
}

type hist struct {
	id        int
	backend   string
	seed      int64
	u         *uni.Universe
	d         *driver
	rd        []*uni.ClientStore
	rng       *rand.Rand
	keys      []string
	points    []string // split / bound candidates
	obs       []*obs
	sess      map[int]*sessState
	r         *vrep.Report
	topo      struct{ split, merge, move, clock, finish atomic.Int64 }
	gates     gateState
	rewriters []*rewriteClient
	aborted   bool
}

func (h *hist) lockView() map[string]*lockInfo {
	out := map[string]*lockInfo{}
	locks, err := h.u.ScanLocksTruth()
	if err != nil {
		return nil
	}
	byKey := map[string]uni.LockRec{}
	for _, l := range locks {
		byKey[string(l.Key)] = l
	}
	nowPhys := oracle.ExtractPhysical(h.u.Clock.Last())
	for _, l := range locks {
		li := &lockInfo{key: string(l.Key), startTS: l.StartTS, typ: l.Type}
		out[li.key] = li
		switch l.Type {
		case kvrpcpb.Op_PessimisticLock:
			li.class = "pessimistic"
			continue
		case kvrpcpb.Op_Lock:
			li.class = "lock-only"
			continue
		}
		tr, err := h.u.ReadTruth([][]byte{l.Primary})
		if err != nil {
			li.class = "unknown"
			continue
		}
		pt := tr.Keys[string(l.Primary)]
		if w := pt.WriteOf(l.StartTS); w != nil {
			li.class, li.commitTS = "committed", w.CommitTS
		} else if pt.RolledBack(l.StartTS) {
			li.class = "rolledback"
		} else if pt.Lock != nil && pt.Lock.StartTS == l.StartTS {
			// mocktikv reports neither TTL nor min_commit_ts of a lock: take them from the driver's record
			ttl, large, async := h.d.Lookup(l.StartTS)
			if ttl == 0 {
				ttl = byKey[string(l.Primary)].TTL
			}
			expired := oracle.ExtractPhysical(l.StartTS)+int64(ttl) < nowPhys
			switch {
			case async || l.UseAsync:
				li.class = "async"
			case large && pt.Lock.Type != kvrpcpb.Op_PessimisticLock:
				li.class = "large-alive"
				if expired {
					li.class = "large-expired"
				}
			default:
				li.class = "pending-alive"
				if expired {
					li.class = "pending-expired"
				}
			}
		} else {
			li.class = "no-primary"
		}
	}
	return out
}

func inRange(k string, lower, upper []byte) bool {
	if len(lower) > 0 && k < string(lower) {
		return false
	}
	if len(upper) > 0 && k >= string(upper) {
		return false
	}
	return true
}

func (h *hist) touched(o *obs) []string {
	switch o.path {
	case "get", "batchget":
		return o.keys
	}
	var out []string
	for _, k := range h.keys {
		if inRange(k, o.lower, o.upper) {
			out = append(out, k)
		}
	}
	return out
}

// classify fills o.classes and o.demanded from the locks present when the read starts.
func (h *hist) classify(o *obs, lv map[string]*lockInfo) {
	if lv == nil {
		o.classes = []string{"unknown"}
		return
	}
	o.demanded = true
	seen := map[string]bool{}
	for _, k := range h.touched(o) {
		l := lv[k]
		if l == nil {
			continue
		}
		c := l.class
		switch {
		case c == "pessimistic" || c == "lock-only":
			// never block a read
		case l.startTS > o.ts:
			c = "later:" + c
		case c == "committed" && l.commitTS <= o.ts:
			c = "committed<=ts"
		case c == "committed":
			c = "committed>ts"
		case c == "rolledback":
		default:
			o.demanded = false
		}
		if !seen[c] {
			seen[c] = true
			o.classes = append(o.classes, c)
		}
	}
	sort.Strings(o.classes)
}

func (h *hist) layout() string {
	var parts []string
	seen := map[uint64]bool{}
	for _, k := range append([]string{""}, h.points...) {
		key := []byte(k)
		if len(key) > 0 {
			key = codec.EncodeBytes(nil, key) // region keys of both mocks are memcomparable-encoded
		}
		reg, leader, _, _ := h.u.Cluster.GetRegionByKey(key)
		if reg == nil || seen[reg.Id] {
			continue
		}
		seen[reg.Id] = true
		st := uint64(0)
		if leader != nil {
			st = leader.StoreId
		}
		parts = append(parts, fmt.Sprintf("r%d[%q,%q)v%d@s%d", reg.Id, reg.StartKey, reg.EndKey, reg.GetRegionEpoch().GetVersion(), st))
	}
	return strings.Join(parts, " ")
}

// planHook decides whether (and what) happens inside one of the RPCs of the next read.
func (h *hist) planHook(o *obs) (at int64, fn func()) {
	if h.rng.Intn(100) >= 35 {
		return 0, nil
	}
	at = int64(1 + h.rng.Intn(3))
	pt := []byte(h.points[h.rng.Intn(len(h.points))])
	key := []byte(h.keys[h.rng.Intn(len(h.keys))])
	pick := h.rng.Intn(3)
	ms := int64(30 + h.rng.Intn(3000))
	if h.rng.Intn(5) == 0 {
		ms = ttlAlive + 1000 // "alive" locks expire during the read
	}
	x := h.rng.Intn(100)
	mock := h.backend == uni.Mock
	switch {
	case x < 40 || (!mock && x < 75):
		o.hook = "split"
		fn = func() {
			if h.u.SplitAt(pt) {
				o.hookDone.Store(true)
				h.topo.split.Add(1)
			}
		}
	case x < 58 && mock:
		o.hook = "merge"
		fn = func() {
			if h.u.MergeAt(key) {
				o.hookDone.Store(true)
				h.topo.merge.Add(1)
			}
		}
	case x < 75 && mock:
		o.hook = "move-leader"
		fn = func() {
			if h.u.MoveLeader(key, pick) {
				o.hookDone.Store(true)
				h.topo.move.Add(1)
			}
		}
	case x < 87:
		o.hook = "clock"
		fn = func() {
			h.d.Advance(ms)
			o.hookDone.Store(true)
			h.topo.clock.Add(1)
		}
	default:
		o.hook = "finish-pending"
		fn = func() {
			if h.d.FinishPending() != "" {
				o.hookDone.Store(true)
				h.topo.finish.Add(1)
			}
		}
	}
	return at, fn
}

func isReadPathCmd(c tikvrpc.CmdType) bool {
	switch c {
	case tikvrpc.CmdGet, tikvrpc.CmdBatchGet, tikvrpc.CmdScan, tikvrpc.CmdCheckTxnStatus, tikvrpc.CmdCheckSecondaryLocks:
		return true
	}
	return false
}

// doRead executes one read through the snapshot and records the observation.
func (h *hist) doRead(si, oi, rep int, st *sessState, path string, keys []string, lower, upper []byte) {
	o := &obs{sess: si, op: oi, rep: rep, client: st.rd.ID, path: path, ts: st.ts, keys: keys, lower: lower, upper: upper,
		keyOnly: st.keyOnly, batchSize: st.batchSize, asyncBG: st.asyncBG, moved: st.moved}
	switch path {
	case "get", "batchget":
		o.warm = true
		for _, k := range keys {
			if !st.read[k] {
				o.warm = false
			}
		}
	}
	h.classify(o, h.lockView())
	o.layout = h.layout()
	at, fn := h.planHook(o)
	o.cc = h.planCtx(path, rep)
	o.followUp = st.endedBefore || st.followAll
	var cnt atomic.Int64
	{
		cc := o.cc
		endCtx := func() {
			o.ctxEnded.Store(true)
			cc.end()
		}
		st.rd.Net.SetDecider(func(c *uni.Call) uni.Action {
			if !isReadPathCmd(c.Cmd) {
				return uni.Action{}
			}
			n := cnt.Add(1)
			act := uni.Action{After: h.asyncGate(c)}
			if fn != nil && n == at {
				act.Before = fn
			}
			if cc.during != "" && n == cc.atRPC {
				topo, gate := act.Before, act.After
				switch cc.during {
				case "before-drop": // the context ends, the request never reaches the store
					act.Kind = uni.DropReq
					act.Before = func() {
						if topo != nil {
							topo()
						}
						endCtx()
					}
				case "before-deliver": // the context ends, the request is executed and answered all the same
					act.Before = func() {
						if topo != nil {
							topo()
						}
						endCtx()
					}
				default: // executed and answered, the context has ended when the answer arrives
					act.After = func() {
						if gate != nil {
							gate()
						}
						endCtx()
					}
				}
			}
			return act
		})
	}
	if debugOn() {
		fmt.Println("READ", describe(o)) // before running it: a process-fatal panic in a background goroutine names the read
	}
	o.logFrom = h.u.Log.Len()
	o.seqFrom = h.u.Log.Now()
	t0 := time.Now()
	defer func() {
		if d := time.Since(t0); d > 300*time.Millisecond && debugOn() {
			fmt.Println("SLOW", d, describe(o))
			cs := h.u.Log.CallsFrom(o.logFrom)
			for i, c := range cs {
				if i < 14 {
					fmt.Printf("   #%d c%d %s region=%d ver=%d :: %.300v => %.300v\n", c.Seq, c.Client, c.Cmd, c.RegionID, c.RegionVer, c.Req, c.Resp)
				}
			}
			for _, l := range h.d.Descr() {
				fmt.Println("   H", l)
			}
		}
	}()
	done := make(chan struct{})
	go func() {
		defer close(done)
		defer func() {
			if p := recover(); p != nil {
				o.panicked = fmt.Sprint(p)
			}
		}()
		h.execute(o, st)
	}()
	select {
	case <-done:
	case <-time.After(3 * time.Minute): // watchdog only
		h.r.Inconc("history %d (%s seed %d): read %s did not return (watchdog)", h.id, h.backend, h.seed, describe(o))
		h.aborted = true
		return
	}
	st.rd.Net.SetDecider(nil)
	if o.cc.endLate {
		o.cc.end()
	}
	o.cc.end() // release the context's resources in every case
	st.endedBefore = o.ctxEnded.Load()
	if st.endedBefore {
		st.pendingFollow = keys
	}
	o.logTo = h.u.Log.Len()
	o.seqTo = h.u.Log.Now()
	for _, c := range h.u.Log.CallsFrom(o.logFrom) {
		if c.Client != st.rd.ID {
			continue
		}
		o.rpcs++
		if c.Cmd == tikvrpc.CmdBatchGet || c.Cmd == tikvrpc.CmdScan {
			o.regions++
		}
	}
	if o.err == "" && o.panicked == "" && (path == "get" || path == "batchget") {
		for _, k := range keys {
			st.read[k] = true
		}
	}
	if o.err != "" && o.demanded {
		debugDump(h, o)
	}
	if o.err != "" && debugOn() {
		fmt.Println("ERRREAD", describe(o))
		if len(o.classes) > 0 && !o.ctxEnded.Load() {
			for i, c := range h.u.Log.CallsFrom(o.logFrom) {
				if i < 12 {
					fmt.Printf("   #%d c%d %s region=%d :: %.260v => %.260v\n", c.Seq, c.Client, c.Cmd, c.RegionID, c.Req, c.Resp)
				}
			}
		}
	}
	st.log = append(st.log, describe(o))
	h.obs = append(h.obs, o)
}

func describe(o *obs) string {
	var b strings.Builder
	fmt.Fprintf(&b, "s%d.%d.%d c%d ts=%d %s", o.sess, o.op, o.rep, o.client, o.ts, o.path)
	switch o.path {
	case "get", "batchget":
		fmt.Fprintf(&b, " %q", o.keys)
		if o.path == "batchget" {
			fmt.Fprintf(&b, " asyncAPI=%v", o.asyncBG)
		}
	default:
		fmt.Fprintf(&b, " [%s,%s) batch=%d keyOnly=%v", bound(o.lower), bound(o.upper), o.batchSize, o.keyOnly)
	}
	if o.warm {
		b.WriteString(" warm")
	}
	if o.cc != nil && o.cc.kind != "background" && o.cc.kind != "none(scan)" {
		fmt.Fprintf(&b, " ctx=%s@rpc%d(ended=%v)", o.cc.kind, o.cc.atRPC, o.ctxEnded.Load())
	}
	if o.followUp {
		b.WriteString(" after-ended-ctx-call")
	}
	if o.hook != "" {
		fmt.Fprintf(&b, " hook=%s(done=%v)", o.hook, o.hookDone.Load())
	}
	fmt.Fprintf(&b, " locks=%v demanded=%v rpcs=%d", o.classes, o.demanded, o.rpcs)
	if o.err != "" {
		fmt.Fprintf(&b, " ERR %.120s", o.err)
	} else {
		b.WriteString(" => [")
		for i, p := range o.got {
			if i > 0 {
				b.WriteByte(' ')
			}
			fmt.Fprintf(&b, "%q=%s", p.K, short(p.V))
		}
		b.WriteByte(']')
	}
	return b.String()
}

func short(v string) string {
	if len(v) > 20 {
		return fmt.Sprintf("%q..(%d bytes)", v[:12], len(v))
	}
	return fmt.Sprintf("%q", v)
}

func bound(b []byte) string {
	if b == nil {
		return "nil"
	}
	return fmt.Sprintf("%q", b)
}

func errString(err error) string { return fmt.Sprintf("%T: %v", err, err) }

func (h *hist) execute(o *obs, st *sessState) {
	ctx := o.cc.ctx
	switch o.path {
	case "get":
		e, err := st.snap.Get(ctx, []byte(o.keys[0]))
		if err != nil {
			if tikverr.IsErrNotFound(err) {
				return
			}
			o.err = errString(err)
			return
		}
		o.got = []kvp{{o.keys[0], string(e.Value)}}
	case "batchget":
		var ks [][]byte
		for _, k := range o.keys {
			ks = append(ks, []byte(k))
		}
		m, err := st.snap.BatchGet(ctx, ks)
		if err != nil {
			o.err = errString(err)
			return
		}
		for k, v := range m {
			o.got = append(o.got, kvp{k, string(v.Value)})
		}
		sort.Slice(o.got, func(i, j int) bool { return o.got[i].K < o.got[j].K })
	case "iter", "iterrev":
		var it interface {
			Valid() bool
			Key() []byte
			Value() []byte
			Next() error
			Close()
		}
		var err error
		if o.path == "iter" {
			it, err = st.snap.Iter(o.lower, o.upper)
		} else {
			it, err = st.snap.IterReverse(o.upper, o.lower)
		}
		if err != nil {
			o.err = errString(err)
			return
		}
		defer it.Close()
		limit := 3*len(h.keys) + 10
		for it.Valid() {
			k := string(it.Key())
			if !(h.backend == uni.Uni && len(k) > 0 && k[0] == 0xff) { // unistore keeps its meta data in the key space
				o.got = append(o.got, kvp{k, string(it.Value())})
			}
			if len(o.got) > limit {
				o.truncated = true
				return
			}
			if err := it.Next(); err != nil {
				o.err = errString(err)
				return
			}
		}
	}
}

// ---- session generation

func (h *hist) pickBound() []byte {
	switch x := h.rng.Intn(100); {
	case x < 22:
		return nil
	case x < 26:
		return []byte{}
	case x < 60:
		return []byte(h.keys[h.rng.Intn(len(h.keys))])
	case x < 70:
		return append([]byte(h.keys[h.rng.Intn(len(h.keys))]), 0)
	default:
		return []byte(h.points[h.rng.Intn(len(h.points))])
	}
}

func (h *hist) pickRange() (lower, upper []byte) {
	lower, upper = h.pickBound(), h.pickBound()
	if len(lower) > 0 && len(upper) > 0 && bytes.Compare(lower, upper) > 0 {
		lower, upper = upper, lower
	}
	if h.rng.Intn(8) == 0 {
		// lower == upper: an empty range, mostly on a (possible) region border
		if len(lower) == 0 || h.rng.Intn(3) > 0 {
			lower = []byte(h.points[h.rng.Intn(len(h.points))])
		}
		upper = append([]byte(nil), lower...)
	}
	return
}

func (h *hist) pickKeys() []string {
	n := 1 + h.rng.Intn(len(h.keys))
	if h.rng.Intn(4) == 0 {
		n = len(h.keys)
	}
	p := h.rng.Perm(len(h.keys))
	var out []string
	for _, i := range p[:n] {
		out = append(out, h.keys[i])
	}
	if h.rng.Intn(15) == 0 {
		out = append(out, out[h.rng.Intn(len(out))]) // a key listed twice
	}
	return out
}

// pickTS chooses a snapshot timestamp <= fence.  cur != 0: prefer the other side of some commit ts.
func (h *hist) pickTS(fence, cur uint64) uint64 {
	cands := h.d.Interesting(fence)
	if len(cands) == 0 {
		return fence
	}
	committed := h.d.Committed(fence)
	x := h.rng.Intn(100)
	if x < 45 && len(committed) > 0 {
		t := committed[h.rng.Intn(len(committed))]
		below := []uint64{t.startTS - 1, t.startTS, t.startTS + 1, t.commitTS - 1}
		above := []uint64{t.commitTS, t.commitTS + 1, fence}
		var from []uint64
		switch {
		case cur == 0:
			from = append(below, above...)
		case cur >= t.commitTS:
			from = below[1:] // start_ts <= new ts < commit_ts: the lock is visible, the commit is not
		default:
			from = above
		}
		ts := from[h.rng.Intn(len(from))]
		if ts >= 1 && ts <= fence {
			return ts
		}
	}
	if x < 55 {
		return fence
	}
	return cands[h.rng.Intn(len(cands))]
}

var batchSizes = []int{2, 2, 3, 3, 4, 5, 7, 16, 0}

// target is a transaction whose primary is committed while some of its secondaries are still locked.
type target struct {
	start, commit uint64
	keys          []string
}

func (h *hist) pickTarget(fence uint64) *target {
	lv := h.lockView()
	by := map[uint64]*target{}
	var order []uint64
	for _, k := range h.keys {
		l := lv[k]
		if l == nil || l.class != "committed" || l.commitTS > fence || l.startTS < 2 {
			continue
		}
		t := by[l.startTS]
		if t == nil {
			t = &target{start: l.startTS, commit: l.commitTS}
			by[l.startTS] = t
			order = append(order, l.startTS)
		}
		t.keys = append(t.keys, k)
	}
	if len(order) == 0 {
		return nil
	}
	return by[order[h.rng.Intn(len(order))]]
}

// readSome reads some of the keys through a random access path (twice).
func (h *hist) readSome(si int, oi *int, st *sessState, keys []string, onlyOne bool) {
	ks := append([]string(nil), keys...)
	h.rng.Shuffle(len(ks), func(i, j int) { ks[i], ks[j] = ks[j], ks[i] })
	if onlyOne {
		ks = ks[:1]
	} else if len(ks) > 1 && h.rng.Intn(2) == 0 {
		ks = ks[:1+h.rng.Intn(len(ks))]
	}
	var path string
	var lower, upper []byte
	var rk []string
	switch x := h.rng.Intn(100); {
	case x < 35:
		path, rk = "get", ks[:1]
	case x < 65:
		path, rk = "batchget", ks
		for _, k := range h.keys { // some bystanders
			if h.rng.Intn(4) == 0 {
				rk = append(rk, k)
			}
		}
		h.rng.Shuffle(len(rk), func(i, j int) { rk[i], rk[j] = rk[j], rk[i] })
	default:
		path = "iter"
		if x >= 85 && h.backend == uni.Mock {
			path = "iterrev"
		}
		sort.Strings(ks)
		if h.rng.Intn(2) == 0 {
			lower = []byte(ks[0])
		}
		if h.rng.Intn(2) == 0 {
			upper = append([]byte(ks[len(ks)-1]), 0)
		}
	}
	for rep := 0; rep < 2 && !h.aborted; rep++ {
		h.doRead(si, *oi, rep, st, path, rk, lower, upper)
	}
	*oi++
}

func (h *hist) setTS(si, oi int, st *sessState, nts uint64) {
	if nts == st.ts {
		return
	}
	if nts > st.ts {
		st.moved = 1
	} else {
		st.moved = -1
	}
	st.snap.SetSnapshotTS(nts)
	st.log = append(st.log, fmt.Sprintf("s%d.%d SetSnapshotTS %d -> %d", si, oi, st.ts, nts))
	st.ts = nts
	st.read = map[string]bool{}
	h.r.Count(map[int]string{1: "set_ts_forward", -1: "set_ts_backward"}[st.moved], 1)
}

// targetedSession moves one snapshot across the commit ts of a transaction with leftover locks.
func (h *hist) targetedSession(si int, st *sessState, fence uint64, t *target) {
	above := []uint64{t.commit, t.commit + 1, fence}
	below := []uint64{t.start, t.start + 1, t.commit - 1, t.commit - 1}
	pick := func(c []uint64) uint64 {
		for i := 0; i < 10; i++ {
			if ts := c[h.rng.Intn(len(c))]; ts >= 1 && ts <= fence {
				return ts
			}
		}
		return fence
	}
	a, b := pick(above), pick(below)
	if b >= t.commit {
		b = t.start
	}
	first, second := a, b
	if h.rng.Intn(3) == 0 {
		first, second = b, a
	}
	h.r.Count("targeted_sessions", 1)
	st.log = append(st.log, fmt.Sprintf("targeted: txn start=%d commit=%d locked keys %q", t.start, t.commit, t.keys))
	oi := 0
	h.setTS(si, oi, st, first) // the snapshot was created at another ts: one more move
	h.readSome(si, &oi, st, t.keys, len(t.keys) > 1)
	h.setTS(si, oi, st, second)
	h.readSome(si, &oi, st, t.keys, false)
	if h.rng.Intn(2) == 0 {
		h.readSome(si, &oi, st, t.keys, false)
	}
	if h.rng.Intn(2) == 0 {
		h.setTS(si, oi, st, first)
		h.readSome(si, &oi, st, t.keys, false)
	}
}

func (h *hist) session(si int, nOps int) {
	rd := h.rd[h.rng.Intn(len(h.rd))]
	// the reader fetches a fresh timestamp: the fence for every snapshot ts of this session (and its resolver's clock)
	fence, err := rd.Store.CurrentTimestamp(oracle.GlobalTxnScope)
	if err != nil {
		h.r.Inconc("history %d: reader cannot get a timestamp: %v", h.id, err)
		h.aborted = true
		return
	}
	st := &sessState{rd: rd, read: map[string]bool{}, asyncBG: h.rng.Intn(2) == 0}
	st.ts = h.pickTS(fence, 0)
	restore := config.UpdateGlobal(func(c *config.Config) { c.EnableAsyncBatchGet = st.asyncBG })
	defer restore()
	st.snap = rd.Store.GetSnapshot(st.ts)
	if h.rng.Intn(2) == 0 {
		st.batchSize = batchSizes[h.rng.Intn(len(batchSizes))]
		st.snap.SetScanBatchSize(st.batchSize)
	}
	h.sess[si] = st
	st.log = append(st.log, fmt.Sprintf("session %d client %d fence=%d ts=%d asyncBatchGet=%v batch=%d", si, rd.ID, fence, st.ts, st.asyncBG, st.batchSize))
	if h.rng.Intn(100) < 35 {
		if t := h.pickTarget(fence); t != nil {
			h.targetedSession(si, st, fence, t)
			return
		}
	}
	for oi := 0; oi < nOps && !h.aborted; oi++ {
		x := h.rng.Intn(100)
		switch {
		case x < 16:
			h.setTS(si, oi, st, h.pickTS(fence, st.ts))
		case x < 20:
			st.keyOnly = !st.keyOnly
			st.snap.SetKeyOnly(st.keyOnly)
			st.log = append(st.log, fmt.Sprintf("s%d.%d SetKeyOnly %v", si, oi, st.keyOnly))
		case x < 28:
			st.batchSize = batchSizes[h.rng.Intn(len(batchSizes))]
			st.snap.SetScanBatchSize(st.batchSize)
			st.log = append(st.log, fmt.Sprintf("s%d.%d SetScanBatchSize %d", si, oi, st.batchSize))
		default:
			var path string
			var keys []string
			var lower, upper []byte
			y := h.rng.Intn(100)
			switch {
			case y < 25:
				path, keys = "get", []string{h.keys[h.rng.Intn(len(h.keys))]}
			case y < 50:
				path, keys = "batchget", h.pickKeys()
			case y < 75 || h.backend == uni.Uni:
				path = "iter"
				lower, upper = h.pickRange()
			default:
				path = "iterrev"
				lower, upper = h.pickRange()
			}
			for rep := 0; rep < 2 && !h.aborted; rep++ {
				h.doRead(si, oi, rep, st, path, keys, lower, upper)
			}
			if pf := st.pendingFollow; pf != nil && !h.aborted {
				st.pendingFollow = nil
				if h.rng.Intn(2) == 0 {
					// the same snapshot, live contexts, every access path over the keys of the call whose context ended
					st.followAll = true
					h.allPaths(si, st, pf)
					st.followAll = false
					h.r.Count("all_path_followups_after_ended_ctx_call", 1)
				}
			}
		}
	}
}

// ---- oracle

type expectation struct {
	val      []byte
	startTS  uint64
	commitTS uint64
}

func (h *hist) expect(truth *uni.Truth, k string, ts uint64) expectation {
	kt := truth.Keys[k]
	if kt == nil {
		return expectation{}
	}
	v, s, c := kt.VisibleAt(ts)
	return expectation{v, s, c}
}

// shape says how a wrong value relates to the truth of its key.
func (h *hist) shape(truth *uni.Truth, k string, ts uint64, got string, exp expectation) string {
	if got == "" {
		return "missing-version"
	}
	kt := truth.Keys[k]
	if kt != nil {
		for _, w := range kt.Writes {
			if w.Type == kvrpcpb.Op_Put && string(w.Value) == got {
				if w.CommitTS > ts {
					return "version-committed-after-ts"
				}
				return "stale-version"
			}
		}
	}
	if strings.HasPrefix(got, "v") {
		return "never-committed-value"
	}
	return "foreign-value"
}

func movedTag(o *obs) string {
	tag := ""
	switch o.moved {
	case 1:
		tag = ":after-SetSnapshotTS-forward"
	case -1:
		tag = ":after-SetSnapshotTS-backward"
	}
	if o.followUp {
		tag += ":right-after-a-call-whose-context-ended"
	}
	return tag
}

func (h *hist) violate(o *obs, truth *uni.Truth, sig, msg string, extra map[string]any) {
	d := map[string]any{
		"backend": h.backend, "history": h.id, "history_seed": h.seed, "read": describe(o), "ts": o.ts,
		"driver_history": h.d.Descr(), "layout_at_start": o.layout,
	}
	if st := h.sess[o.sess]; st != nil {
		d["session"] = st.log
	}
	for k, v := range extra {
		d[k] = v
	}
	var win []string
	for i, c := range h.u.Log.CallsFrom(o.logFrom) {
		if len(win) >= 60 || o.logFrom+i >= o.logTo {
			break
		}
		if c.Client == o.client {
			win = append(win, fmt.Sprintf("#%d..%d %s region=%d ver=%d %s err=%q regErr=%v :: %.260v => %.260v", c.Seq, c.RetSeq, c.Cmd, c.RegionID, c.RegionVer, c.Action, c.Err, c.RegionErr != nil, c.Req, c.Resp))
		}
	}
	d["rpc_window"] = win
	tkeys := map[string]any{}
	for _, k := range h.touched(o) {
		if kt := truth.Keys[k]; kt != nil {
			var ws []string
			for _, w := range kt.Writes {
				ws = append(ws, fmt.Sprintf("%s start=%d commit=%d %.24q", w.Type, w.StartTS, w.CommitTS, w.Value))
			}
			tkeys[k] = ws
		}
	}
	d["final_truth"] = tkeys
	h.r.Violate(sig, fmt.Sprintf("%s history %d (seed %d): %s: %s", h.backend, h.id, h.seed, describe(o), msg), d)
}

func errClass(e string) string {
	switch {
	case strings.Contains(e, "maxSleep") || strings.Contains(e, "MaxSleep") || strings.Contains(e, "backoff"):
		return "backoff-budget-exhausted"
	case strings.Contains(e, "region unavailable") || strings.Contains(e, "Region"):
		return "region-error"
	}
	if i := strings.Index(e, ":"); i > 0 {
		return e[:i]
	}
	return "other"
}

// judge evaluates one observation against the final truth.  Reads that returned an error are never
// judged for their value; an error is a violation only when every blocking lock the read could meet
// belonged to a finished transaction (its outcome was decided at the primary) when the read started.
func (h *hist) judge(o *obs, truth *uni.Truth) {
	r := h.r
	r.Eval(1)
	r.Count("reads:"+o.path, 1)
	fp := fmt.Sprintf("%s|%s|%v|warm=%v|moved=%d|ko=%v|hook=%s/%v|b=%d|async=%v|multi=%v|err=%v", h.backend, o.path, o.classes, o.warm, o.moved, o.keyOnly && o.path != "get" && o.path != "batchget",
		o.hook, o.hookDone.Load(), min(o.batchSize, 6), o.asyncBG && o.path == "batchget", o.regions > 1, o.err != "")
	if o.cc != nil {
		fp += fmt.Sprintf("|ctx=%s/%v|follow=%v", o.cc.kind, o.ctxEnded.Load(), o.followUp)
	}
	if len(o.classes) > 0 || o.moved != 0 || o.hookDone.Load() || o.ctxEnded.Load() || o.followUp {
		r.Distinct(fp)
	}
	for _, c := range o.classes {
		r.Count("lock_in_read:"+c, 1)
	}
	if o.hookDone.Load() {
		r.Count("in_rpc:"+o.hook, 1)
	}
	if o.warm {
		r.Count("reads_warm_cache", 1)
	}
	if o.rpcs > 100 {
		r.Count("reads_with_more_than_100_rpcs", 1)
	}
	if o.regions > 1 {
		r.Count("multi_request:"+o.path, 1)
	}
	if o.cc != nil {
		r.Count("ctx:"+o.cc.kind, 1)
		if o.ctxEnded.Load() {
			r.Count("ctx_ended_during_call", 1)
			if o.err != "" {
				r.Count("ctx_ended_during_call:returned-error", 1)
			} else {
				r.Count("ctx_ended_during_call:returned-answer(judged)", 1)
			}
		}
	}
	if o.followUp && o.err == "" {
		r.Count("reads_judged_right_after_ended_ctx_call:"+o.path, 1)
	}
	if o.panicked != "" {
		h.violate(o, truth, "client-panic:"+o.path+":"+h.backend, "panic: "+o.panicked, nil)
		return
	}
	if o.err != "" {
		r.Count("read_errors", 1)
		if o.ctxEnded.Load() {
			// the caller's context ended during this call: an error is what the caller asked for
			r.Count("read_errors_under_ended_context", 1)
			return
		}
		if o.demanded {
			h.violate(o, truth, fmt.Sprintf("read-fails-though-every-lock-is-decided:%s:%s:%s", o.path, errClass(o.err), h.backend),
				"the read returned an error although every blocking lock on its keys belonged to a finished transaction: "+o.err, nil)
		} else {
			r.Count("read_errors_undecided_lock", 1)
		}
		return
	}
	r.Count("reads_judged", 1)
	for _, c := range o.classes {
		r.Count("lock_in_judged_read:"+c, 1)
	}
	if o.demanded && len(o.classes) > 0 {
		r.Count("reads_judged_with_decided_locks", 1)
	}
	switch o.path {
	case "get":
		k := o.keys[0]
		exp := h.expect(truth, k, o.ts)
		got := ""
		if len(o.got) > 0 {
			got = o.got[0].V
		}
		if got != string(exp.val) {
			h.violate(o, truth, fmt.Sprintf("get:%s%s:%s", h.shape(truth, k, o.ts, got, exp), movedTag(o), h.backend),
				fmt.Sprintf("Get(%q)@%d = %.40q, truth %.40q (start=%d commit=%d)", k, o.ts, got, exp.val, exp.startTS, exp.commitTS), nil)
		}
	case "batchget":
		gm := map[string]string{}
		for _, p := range o.got {
			gm[p.K] = p.V
		}
		seen := map[string]bool{}
		for _, k := range o.keys {
			if seen[k] {
				continue
			}
			seen[k] = true
			exp := h.expect(truth, k, o.ts)
			got, ok := gm[k]
			if ok && got == "" {
				h.violate(o, truth, "batchget:present-with-empty-value:"+h.backend, fmt.Sprintf("BatchGet@%d has %q with an empty value", o.ts, k), nil)
				return
			}
			if got != string(exp.val) {
				h.violate(o, truth, fmt.Sprintf("batchget:%s%s:%s", h.shape(truth, k, o.ts, got, exp), movedTag(o), h.backend),
					fmt.Sprintf("BatchGet@%d[%q] = %.40q, truth %.40q (start=%d commit=%d)", o.ts, k, got, exp.val, exp.startTS, exp.commitTS), nil)
				return
			}
			delete(gm, k)
		}
		for k := range gm {
			h.violate(o, truth, "batchget:key-not-asked-for:"+h.backend, fmt.Sprintf("BatchGet@%d returned %q which was not requested", o.ts, k), nil)
			return
		}
	case "iter", "iterrev":
		h.judgeScan(o, truth)
	}
}

func (h *hist) judgeScan(o *obs, truth *uni.Truth) {
	rev := o.path == "iterrev"
	var want []kvp
	for _, k := range h.keys { // h.keys is sorted
		if !inRange(k, o.lower, o.upper) {
			continue
		}
		if e := h.expect(truth, k, o.ts); e.val != nil {
			want = append(want, kvp{k, string(e.val)})
		}
	}
	if rev {
		for i, j := 0, len(want)-1; i < j; i, j = i+1, j-1 {
			want[i], want[j] = want[j], want[i]
		}
	}
	ko := ""
	if o.keyOnly {
		ko = ":key-only"
	}
	// the ts movement is part of the signature only where an answer of the old ts could have leaked
	sig := func(what string) string {
		mv := movedTag(o)
		switch what {
		case "does-not-end", "key-outside-bounds", "key-repeated", "out-of-order":
			mv = ""
		}
		return fmt.Sprintf("%s:%s%s%s:%s", o.path, what, ko, mv, h.backend)
	}
	extra := map[string]any{"want": want, "got": o.got}
	if o.truncated {
		h.violate(o, truth, sig("does-not-end"), fmt.Sprintf("the scan returned more than %d pairs over %d keys", len(o.got)-1, len(h.keys)), extra)
		return
	}
	// structure first: order, repetition, bounds
	for i, p := range o.got {
		if !inRange(p.K, o.lower, o.upper) {
			h.violate(o, truth, sig("key-outside-bounds"), fmt.Sprintf("pair %d %q is outside [%s,%s)", i, p.K, bound(o.lower), bound(o.upper)), extra)
			return
		}
		if i == 0 {
			continue
		}
		prev := o.got[i-1].K
		if p.K == prev {
			h.violate(o, truth, sig("key-repeated"), fmt.Sprintf("pair %d repeats key %q", i, p.K), extra)
			return
		}
		if (!rev && p.K < prev) || (rev && p.K > prev) {
			h.violate(o, truth, sig("out-of-order"), fmt.Sprintf("pair %d %q after %q", i, p.K, prev), extra)
			return
		}
	}
	gi := 0
	for _, w := range want {
		if gi < len(o.got) && o.got[gi].K == w.K {
			g := o.got[gi]
			gi++
			if g.V == w.V || (o.keyOnly && g.V == "") {
				continue
			}
			h.violate(o, truth, sig("value-"+h.shape(truth, w.K, o.ts, g.V, h.expect(truth, w.K, o.ts))),
				fmt.Sprintf("scan@%d pair %q = %.40q, truth %.40q", o.ts, w.K, g.V, w.V), extra)
			return
		}
		// w.K is not at the cursor: either skipped, or the scan returned a key that should be invisible first
		if gi < len(o.got) && ((!rev && o.got[gi].K < w.K) || (rev && o.got[gi].K > w.K)) {
			g := o.got[gi]
			h.violate(o, truth, sig("phantom-key-"+h.shape(truth, g.K, o.ts, g.V, h.expect(truth, g.K, o.ts))),
				fmt.Sprintf("scan@%d returned %q = %.40q which is not visible at that ts", o.ts, g.K, g.V), extra)
			return
		}
		h.violate(o, truth, sig("key-skipped"), fmt.Sprintf("scan@%d does not return %q = %.40q (visible, inside the bounds)", o.ts, w.K, w.V), extra)
		return
	}
	if gi < len(o.got) {
		g := o.got[gi]
		h.violate(o, truth, sig("phantom-key-"+h.shape(truth, g.K, o.ts, g.V, h.expect(truth, g.K, o.ts))),
			fmt.Sprintf("scan@%d returned %q = %.40q which is not visible at that ts", o.ts, g.K, g.V), extra)
	}
}

func (h *hist) countRewrites() {
	for _, w := range h.rewriters {
		h.r.Count("response_level_lock_error:batchget", int(w.batch.Load()))
		h.r.Count("response_level_lock_error:batchget-with-several-keys", int(w.multi.Load()))
		h.r.Count("response_level_lock_error:scan", int(w.scan.Load()))
	}
}
