// Package si is the offline snapshot-isolation checker of C01 (also used by
// C02/C03 for the all-or-nothing and ack-consistency clauses): it compares
// what the clients observed with the MVCC ground truth read after quiescence.
package si

import (
	"fmt"
	"sort"

	"github.com/pingcap/kvproto/pkg/kvrpcpb"

	"verif/e2e/uni"
	"verif/e2e/work"
)

// Violation is one failed clause.
type Violation struct {
	Sig    string
	Msg    string
	Detail any
}

// Outcome of a transaction according to the truth.
type Outcome struct {
	Committed   bool
	CommitTS    uint64
	Partial     bool // some written keys carry a version, others do not
	MixedTS     bool // versions with different commit ts
	KeysWith    []string
	KeysWithout []string
}

// Stats counts what the checker evaluated.
type Stats struct {
	Txns, Committed, RolledBack, ReadsReplayed, ScansReplayed, LockingReads, PairsChecked, Inserts, ExtPairs int
	ReadersSawOthers                                                                                         int // reads that returned a value written by another transaction
}

// Checker holds the inputs.
type Checker struct {
	Truth *uni.Truth
	Txns  []*work.TxnRec
	TSOs  []uni.TSOEvent
	// ClockMoved: the virtual clock was advanced during the run (locks may expire while their owner lives)
	ClockMoved bool
	Stats      Stats
	out        []Violation
}

func (c *Checker) fail(sig, msg string, detail any) {
	c.out = append(c.out, Violation{sig, msg, detail})
}

// WrittenKeys returns the keys of rec's buffer that must carry a Put/Delete version when committed.
func WrittenKeys(rec *work.TxnRec) []string {
	var ks []string
	for k, e := range rec.Buf {
		if e.Kind == work.BufPut || (e.Kind == work.BufDel && !e.Insert) {
			ks = append(ks, k)
		}
	}
	sort.Strings(ks)
	return ks
}

// OutcomeOf derives the outcome of a transaction from the truth.
func OutcomeOf(t *uni.Truth, rec *work.TxnRec) Outcome {
	var o Outcome
	seen := map[uint64]bool{}
	for _, k := range WrittenKeys(rec) {
		kt := t.Keys[k]
		var w *uni.Write
		if kt != nil {
			w = kt.WriteOf(rec.StartTS)
		}
		if w != nil && (w.Type == kvrpcpb.Op_Put || w.Type == kvrpcpb.Op_Del) {
			o.KeysWith = append(o.KeysWith, k)
			seen[w.CommitTS] = true
			o.CommitTS = w.CommitTS
		} else {
			o.KeysWithout = append(o.KeysWithout, k)
		}
	}
	o.Committed = len(o.KeysWith) > 0
	o.Partial = len(o.KeysWith) > 0 && len(o.KeysWithout) > 0
	o.MixedTS = len(seen) > 1
	return o
}

func (c *Checker) tsBefore(seq int64) uint64 {
	// newest timestamp issued (to anyone) before sequence number seq
	i := sort.Search(len(c.TSOs), func(i int) bool { return c.TSOs[i].Seq >= seq })
	var m uint64
	for _, e := range c.TSOs[:i] {
		if e.TS > m {
			m = e.TS
		}
	}
	return m
}

// Check runs every clause and returns the violations.
func (c *Checker) Check() []Violation {
	sort.Slice(c.TSOs, func(i, j int) bool { return c.TSOs[i].Seq < c.TSOs[j].Seq })
	outcomes := make([]Outcome, len(c.Txns))
	byStart := map[uint64]*work.TxnRec{}
	for i, rec := range c.Txns {
		outcomes[i] = OutcomeOf(c.Truth, rec)
		if rec.StartTS != 0 {
			byStart[rec.StartTS] = rec
		}
	}
	// ---- 7. sanity of the truth itself
	for k, kt := range c.Truth.Keys {
		seenCommit := map[uint64]uint64{}
		committed := map[uint64]bool{}
		rolled := map[uint64]bool{}
		for _, w := range kt.Writes {
			if w.Type == kvrpcpb.Op_Rollback {
				rolled[w.StartTS] = true
				continue
			}
			committed[w.StartTS] = true
			if other, dup := seenCommit[w.CommitTS]; dup && other != w.StartTS {
				c.fail("truth:duplicate-commit-ts", fmt.Sprintf("key %q: transactions %d and %d share commit ts %d", k, other, w.StartTS, w.CommitTS), nil)
			}
			seenCommit[w.CommitTS] = w.StartTS
			if w.CommitTS <= w.StartTS {
				c.fail("truth:commit-not-after-start", fmt.Sprintf("key %q: txn %d has commit ts %d <= start ts", k, w.StartTS, w.CommitTS), nil)
			}
		}
		for s := range committed {
			if rolled[s] {
				c.fail("truth:committed-and-rolled-back", fmt.Sprintf("key %q: txn %d is both committed and rolled back", k, s), nil)
			}
		}
	}
	// ---- 5. atomicity and ack consistency
	for i, rec := range c.Txns {
		if rec.StartTS == 0 {
			continue
		}
		c.Stats.Txns++
		o := outcomes[i]
		wk := WrittenKeys(rec)
		if o.Committed {
			c.Stats.Committed++
		} else if len(wk) > 0 {
			c.Stats.RolledBack++
		}
		desc := func() map[string]any {
			return map[string]any{"txn": rec.ID, "start_ts": rec.StartTS, "spec": rec.Spec.String(), "end": rec.EndKind, "commit_class": rec.CommitClass,
				"commit_err": rec.CommitErr, "commit_ts_reported": rec.CommitTS, "keys_with_version": o.KeysWith, "keys_without": o.KeysWithout, "failed_steps": rec.Failed}
		}
		if o.Partial {
			c.fail("atomicity:partial", fmt.Sprintf("txn %d (start %d, %s): keys %v carry its version, keys %v do not", rec.ID, rec.StartTS, rec.Spec, o.KeysWith, o.KeysWithout), desc())
		}
		if o.MixedTS {
			c.fail("atomicity:mixed-commit-ts", fmt.Sprintf("txn %d (start %d): its versions carry different commit timestamps", rec.ID, rec.StartTS), desc())
		}
		if rec.EndKind == "commit" && rec.EndRetSeq != 0 {
			switch rec.CommitClass {
			case work.ENone:
				if len(wk) > 0 && !o.Committed {
					c.fail("ack:nil-but-not-committed", fmt.Sprintf("txn %d (start %d, %s): Commit returned nil but no key carries its version", rec.ID, rec.StartTS, rec.Spec), desc())
				}
				if o.Committed && !o.MixedTS && rec.CommitTS != 0 && rec.CommitTS != o.CommitTS {
					c.fail("ack:commit-ts-mismatch", fmt.Sprintf("txn %d (start %d): CommitTS()=%d but the store has commit ts %d", rec.ID, rec.StartTS, rec.CommitTS, o.CommitTS), desc())
				}
			case work.EUndetermined, work.EKilled:
			default:
				if o.Committed {
					c.fail("ack:error-but-committed:"+string(rec.CommitClass), fmt.Sprintf("txn %d (start %d, %s): Commit returned %q (%s) but keys %v carry its version", rec.ID, rec.StartTS, rec.Spec, rec.CommitErr, rec.CommitClass, o.KeysWith), desc())
				}
			}
		}
		if rec.EndKind == "rollback" && o.Committed {
			c.fail("ack:rollback-but-committed", fmt.Sprintf("txn %d (start %d): rolled back by the client but keys %v carry its version", rec.ID, rec.StartTS, o.KeysWith), desc())
		}
	}
	// ---- 1/2. replay every read against the truth (+ own buffer)
	var universe []string
	for k := range c.Truth.Keys {
		universe = append(universe, k)
	}
	sort.Strings(universe)
	for _, rec := range c.Txns {
		for ri := range rec.Reads {
			rd := &rec.Reads[ri]
			if rd.Err != "" {
				continue
			}
			expect := func(k string, ts uint64, overlay bool) (string, bool) {
				if overlay {
					if e, ok := rd.Overlay[k]; ok {
						switch e.Kind {
						case work.BufPut:
							return e.Val, true
						case work.BufDel:
							return "", false
						}
					}
				}
				kt := c.Truth.Keys[k]
				if kt == nil {
					return "", false
				}
				v, s, _ := kt.VisibleAt(ts)
				if v == nil {
					return "", false
				}
				_ = s
				return string(v), true
			}
			witness := func(k string) map[string]any {
				return map[string]any{"txn": rec.ID, "start_ts": rec.StartTS, "spec": rec.Spec.String(), "read": fmt.Sprintf("%s keys=%v [%q,%q)", rd.Kind, rd.Keys, rd.Lo, rd.Hi),
					"for_update_ts": rd.ForUpdateTS, "returned": rd.Vals, "order": rd.Order, "key": k, "key_truth": c.Truth.Keys[k], "call_seq": rd.CallSeq, "ret_seq": rd.RetSeq, "client": rec.Client, "diag": rd.Diag, "err": rd.Err, "failed_steps": rec.Failed, "end": rec.EndKind, "commit": rec.CommitClass}
			}
			switch rd.Kind {
			case work.OpGet, work.OpBatchGet:
				c.Stats.ReadsReplayed++
				for _, k := range rd.Keys {
					want, ok := expect(k, rec.StartTS, true)
					got, gok := rd.Vals[k]
					if ok != gok || want != got {
						c.fail("read:"+rd.Kind.String()+"-mismatch", fmt.Sprintf("txn %d (start %d): %s(%q) returned (%q,%v), snapshot + own writes say (%q,%v)", rec.ID, rec.StartTS, rd.Kind, k, got, gok, want, ok), witness(k))
					} else if gok {
						if _, own := rd.Overlay[k]; !own {
							c.Stats.ReadersSawOthers++
						}
					}
				}
			case work.OpIter, work.OpIterRev:
				c.Stats.ScansReplayed++
				keys := append([]string(nil), universe...)
				for k := range rd.Overlay {
					if _, ok := c.Truth.Keys[k]; !ok {
						keys = append(keys, k)
					}
				}
				sort.Strings(keys)
				var want []string
				wantV := map[string]string{}
				for _, k := range keys {
					if rd.Lo != "" && k < rd.Lo {
						continue
					}
					if rd.Hi != "" && k >= rd.Hi {
						continue
					}
					if v, ok := expect(k, rec.StartTS, true); ok {
						want = append(want, k)
						wantV[k] = v
					}
				}
				if rd.Kind == work.OpIterRev {
					for i, j := 0, len(want)-1; i < j; i, j = i+1, j-1 {
						want[i], want[j] = want[j], want[i]
					}
				}
				same := len(want) == len(rd.Order)
				for i := 0; same && i < len(want); i++ {
					same = want[i] == rd.Order[i] && wantV[want[i]] == rd.Vals[want[i]]
				}
				if !same {
					d := witness("")
					d["expected_order"] = want
					d["expected_vals"] = wantV
					c.fail("read:"+rd.Kind.String()+"-mismatch", fmt.Sprintf("txn %d (start %d): %s[%q,%q) returned %v, snapshot + own writes say %v", rec.ID, rec.StartTS, rd.Kind, rd.Lo, rd.Hi, rd.Order, want), d)
				}
			case work.OpLock:
				c.Stats.LockingReads++
				for _, k := range rd.Keys {
					want, ok := expect(k, rd.ForUpdateTS, false)
					if ex, has := rd.Exists[k]; has && ex != ok {
						c.fail("read:locking-existence-mismatch", fmt.Sprintf("txn %d (start %d): locking read of %q at for-update ts %d says exists=%v, newest committed version says %v", rec.ID, rec.StartTS, k, rd.ForUpdateTS, ex, ok), witness(k))
					}
					if got, gok := rd.Vals[k]; gok && (!ok || got != want) {
						c.fail("read:locking-value-mismatch", fmt.Sprintf("txn %d (start %d): locking read of %q at for-update ts %d returned %q, newest committed value is (%q,%v)", rec.ID, rec.StartTS, k, rd.ForUpdateTS, got, want, ok), witness(k))
					}
				}
			}
		}
	}
	// ---- 3. first-committer-wins  +  2b. nothing commits on a locked key until the locker ends  +  4. inserts
	for i, rec := range c.Txns {
		o := outcomes[i]
		if !o.Committed || o.Partial || o.MixedTS {
			continue
		}
		for _, k := range o.KeysWith {
			e := rec.Buf[k]
			from := rec.StartTS
			if e.PessLock && e.LockForUpdateTS != 0 {
				from = e.LockForUpdateTS
			}
			kt := c.Truth.Keys[k]
			for _, w := range kt.Writes {
				if w.StartTS == rec.StartTS || w.Type == kvrpcpb.Op_Rollback || w.Type == kvrpcpb.Op_Lock {
					continue
				}
				c.Stats.PairsChecked++
				if w.CommitTS > from && w.CommitTS < o.CommitTS {
					c.fail("fcw:overlapping-writers", fmt.Sprintf("key %q: txn %d (interval from %d to commit %d, pess-locked=%v) and txn with start %d commit %d both committed a write", k, rec.ID, from, o.CommitTS, e.PessLock, w.StartTS, w.CommitTS),
						map[string]any{"key": k, "txn": rec.ID, "spec": rec.Spec.String(), "start_ts": rec.StartTS, "interval_from": from, "commit_ts": o.CommitTS, "other_start": w.StartTS, "other_commit": w.CommitTS, "key_truth": kt})
				}
			}
			if e.Insert && e.Kind == work.BufPut {
				c.Stats.Inserts++
				// the version immediately below the insert's commit point must not be a value
				if v, s, cts := kt.VisibleAt(o.CommitTS - 1); v != nil {
					c.fail("insert:committed-over-existing-value", fmt.Sprintf("key %q: insert of txn %d (start %d) committed at %d although the key had value %q (txn %d, commit %d)", k, rec.ID, rec.StartTS, o.CommitTS, v, s, cts),
						map[string]any{"key": k, "txn": rec.ID, "spec": rec.Spec.String(), "key_truth": kt})
				}
			}
		}
		// insert-then-delete keys: the transaction committed, so the key must have had no value at its commit point
		for k, e := range rec.Buf {
			if e.Insert && e.Kind == work.BufDel {
				kt := c.Truth.Keys[k]
				if kt == nil {
					continue
				}
				c.Stats.Inserts++
				if v, s, cts := kt.VisibleAt(o.CommitTS - 1); v != nil && s != rec.StartTS {
					// optimistic: checked at prewrite against the snapshot; a value committed before start_ts must fail the commit
					if cts <= rec.StartTS || e.PessLock {
						c.fail("insert:insert-delete-committed-over-existing-value", fmt.Sprintf("key %q: txn %d (start %d) inserted and deleted the key and committed at %d although the key had value %q (commit %d)", k, rec.ID, rec.StartTS, o.CommitTS, v, cts),
							map[string]any{"key": k, "txn": rec.ID, "spec": rec.Spec.String(), "key_truth": kt})
					}
				}
			}
		}
	}
	// locked keys (pessimistic, committed locker): no foreign commit between the lock's for-update ts and the locker's commit
	for i, rec := range c.Txns {
		o := outcomes[i]
		if !rec.Spec.Pessimistic {
			continue
		}
		var until uint64
		if o.Committed && !o.Partial {
			until = o.CommitTS
		} else if !c.ClockMoved && rec.EndCallSeq != 0 {
			until = c.tsBefore(rec.EndCallSeq)
		} else {
			continue
		}
		for k, e := range rec.Buf {
			if !e.PessLock || e.LockForUpdateTS == 0 {
				continue
			}
			kt := c.Truth.Keys[k]
			if kt == nil {
				continue
			}
			for _, w := range kt.Writes {
				if w.StartTS == rec.StartTS || w.Type == kvrpcpb.Op_Rollback || w.Type == kvrpcpb.Op_Lock {
					continue
				}
				if w.CommitTS > e.LockForUpdateTS && w.CommitTS < until {
					c.fail("lock:commit-under-pessimistic-lock", fmt.Sprintf("key %q: txn %d held a pessimistic lock from for-update ts %d until %d, yet txn start %d committed at %d", k, rec.ID, e.LockForUpdateTS, until, w.StartTS, w.CommitTS),
						map[string]any{"key": k, "txn": rec.ID, "spec": rec.Spec.String(), "key_truth": kt})
				}
			}
		}
	}
	// key-exists answers leave nothing behind (covered by ack:error-but-committed) — count them
	// ---- 6. external consistency
	type ack struct {
		ret int64
		cts uint64
		id  int
	}
	var acks []ack
	for i, rec := range c.Txns {
		if rec.EndKind == "commit" && rec.CommitClass == work.ENone && rec.EndRetSeq != 0 && outcomes[i].Committed {
			acks = append(acks, ack{rec.EndRetSeq, outcomes[i].CommitTS, rec.ID})
		}
	}
	sort.Slice(acks, func(i, j int) bool { return acks[i].ret < acks[j].ret })
	// prefix maxima of commit ts by return order
	pm := make([]ack, len(acks))
	for i, a := range acks {
		pm[i] = a
		if i > 0 && pm[i-1].cts > a.cts {
			pm[i] = pm[i-1]
			pm[i].ret = a.ret
		}
	}
	for _, rec := range c.Txns {
		if rec.StartTS == 0 {
			continue
		}
		j := sort.Search(len(pm), func(j int) bool { return pm[j].ret >= rec.BeginSeq })
		if j == 0 {
			continue
		}
		c.Stats.ExtPairs++
		if m := pm[j-1]; rec.StartTS < m.cts {
			c.fail("external:start-below-acked-commit", fmt.Sprintf("txn %d began (seq %d) after txn %d's Commit had returned, but its start ts %d is below that commit ts %d", rec.ID, rec.BeginSeq, m.id, rec.StartTS, m.cts),
				map[string]any{"later_txn": rec.ID, "later_start_ts": rec.StartTS, "later_begin_seq": rec.BeginSeq, "earlier_txn": m.id, "earlier_commit_ts": m.cts})
		}
	}
	return c.out
}
