//go:build verif

package c04

import (
	"bytes"
	"context"
	"fmt"
	"sync"
	"sync/atomic"
	"testing"
	"time"

	"github.com/pingcap/kvproto/pkg/kvrpcpb"
	tikverr "github.com/tikv/client-go/v2/error"
	"github.com/tikv/client-go/v2/kv"
	"github.com/tikv/client-go/v2/tikv"
	"github.com/tikv/client-go/v2/tikvrpc"
	"github.com/tikv/client-go/v2/txnkv/transaction"
	"github.com/tikv/client-go/v2/verifh/vrep"

	"verif/e2e/trace"
	"verif/e2e/uni"
	"verif/e2e/work"
)

// The "stale primary pointer" family.
//
// A pessimistic transaction A fails its first statement LockKeys(p, s, kx): p (chosen as primary) and s are locked, kx is
// held by somebody else.  The pessimistic rollback of p and s is lost (every PessimisticRollback request of A's client
// meets a transport error), so two pessimistic locks that name p as their primary stay behind while A goes on with a
// NEW primary k3, writes k3 and k4 and commits.  The clock passes the stale locks' ttl; A's real primary is kept alive
// by a heart-beat.  A second client (ONE store, hence one LockResolver and one status cache) runs into the stale locks
// in several encounters and later into a prewrite lock of A (k4).
//
// What the store says about the stale locks (TTLExpirePessimisticRollback for the self-primary one,
// LockNotExistDoNothing for the one whose claimed primary carries nothing of A) is no outcome of A: it licenses the
// pessimistic rollback of that lock only.  The oracles:
//   - trace monitor rule 4/5: ResolveLock(T, commit_version) is only sent after the store reported exactly that final
//     outcome for T; a live lock is never removed;
//   - final state: a reader that sees A's k3 sees A's k4; a Commit that returned nil is visible; an owner whose primary
//     lock was alive all the time is not aborted by a resolver.
type staleVariant struct {
	backend string
	// extraSecondary: A's failing statement locks a third key (k2b, same region as k2) that the second client meets last
	// (the client sorts the keys of a statement: the stale primary always is k1)
	extraSecondary bool
	// enc: how the second client meets the stale locks: "pess" (one pessimistic txn, one LockKeys per key), "pess-one-call"
	// (one LockKeys over both keys), "opt" (one optimistic single-key commit per key)
	enc string
	// primaryMetFirst: the second client meets the stale primary before the stale secondary
	primaryMetFirst bool
	// relockBefore: A selects its new primary before (true) / after (false) the encounters with the stale locks
	relockBefore bool
	// ending: "lost-secondaries" (A commits, the commit of k4 is lost), "killed" (A's client dies right after the primary
	// was committed), "alive" (A is held between prewrite and the primary's commit while the second client meets k4)
	ending string
	// meet: how k4 is met: "get", "lock" (pessimistic), "write" (optimistic commit)
	meet string
	// freshForUpdateTS: A's lock requests carry a fresh for-update ts (else its start ts)
	freshForUpdateTS bool
}

func (v staleVariant) String() string {
	return fmt.Sprintf("stale-primary %s extra=%v enc=%s primaryMetFirst=%v relockBefore=%v ending=%s meet=%s freshFU=%v",
		v.backend, v.extraSecondary, v.enc, v.primaryMetFirst, v.relockBefore, v.ending, v.meet, v.freshForUpdateTS)
}

func stalePrimary(t *testing.T, r *vrep.Report, v staleVariant) {
	label := v.String()
	u, err := uni.New(v.backend, 1)
	if err != nil {
		r.Inconc("%s: universe: %v", label, err)
		return
	}
	defer u.Close()
	for _, k := range []string{"k2", "k3", "k4", "kx"} {
		u.SplitAt([]byte(k))
	}
	ctx := context.Background()
	owner, err1 := u.NewClient()
	holder, err2 := u.NewClient()
	if err1 != nil || err2 != nil {
		r.Inconc("%s: clients: %v %v", label, err1, err2)
		return
	}
	lockCtx := func(c *uni.ClientStore, txn *transaction.KVTxn, wait int64, fresh bool) *kv.LockCtx {
		fu := txn.StartTS()
		if fresh {
			if ts, err := c.Store.CurrentTimestamp("global"); err == nil {
				fu = ts
			}
		}
		return kv.NewLockCtx(fu, wait, time.Now())
	}
	bs := func(keys ...string) [][]byte {
		var out [][]byte
		for _, k := range keys {
			out = append(out, []byte(k))
		}
		return out
	}
	// somebody holds kx
	txnC, _ := holder.Begin()
	txnC.SetPessimistic(true)
	if err := txnC.LockKeys(ctx, lockCtx(holder, txnC, kv.LockNoWait, true), []byte("kx")); err != nil {
		r.Inconc("%s: holder: %v", label, err)
		return
	}
	// A's client: every pessimistic rollback is lost; the request for kx is held until the stale secondary is locked
	var mu sync.Mutex
	secondaryLocked := make(chan struct{})
	var secondaryOnce sync.Once
	var gateCommit atomic.Bool
	commitGate := make(chan struct{})
	commitReached := make(chan struct{})
	var commitOnce sync.Once
	var lostRollbacks, lostCommits atomic.Int32
	sp, ss := "k1", "k2"
	stmt := []string{ss, sp, "kx"}
	if v.extraSecondary {
		stmt = append(stmt, "k2b")
	}
	owner.Net.SetDecider(func(c *uni.Call) uni.Action {
		mu.Lock()
		defer mu.Unlock()
		switch req := c.Req.(type) {
		case *kvrpcpb.PessimisticRollbackRequest:
			lostRollbacks.Add(1)
			return uni.Action{Kind: uni.DropReq}
		case *kvrpcpb.PessimisticLockRequest:
			for _, m := range req.Mutations {
				switch string(m.Key) {
				case ss:
					return uni.Action{After: func() { secondaryOnce.Do(func() { close(secondaryLocked) }) }}
				case "kx":
					return uni.Action{Before: func() {
						select {
						case <-secondaryLocked:
						case <-time.After(20 * time.Second): // watchdog: the scenario is then not established (checked below)
						}
					}}
				}
			}
		case *kvrpcpb.CommitRequest:
			primary := false
			for _, k := range req.Keys {
				if string(k) == "k3" {
					primary = true
				}
			}
			switch {
			case primary && v.ending == "killed":
				return uni.Action{Kind: uni.KillAfter}
			case primary && v.ending == "alive" && gateCommit.Load():
				return uni.Action{Before: func() {
					commitOnce.Do(func() { close(commitReached) })
					<-commitGate
				}}
			case !primary && v.ending == "lost-secondaries":
				lostCommits.Add(1)
				return uni.Action{Kind: uni.DropReq}
			}
		}
		return uni.Action{}
	})
	txnA, _ := owner.Begin()
	txnA.SetPessimistic(true)
	startA := txnA.StartTS()
	firstErr := txnA.LockKeys(ctx, lockCtx(owner, txnA, kv.LockNoWait, v.freshForUpdateTS), bs(stmt...)...)
	if firstErr == nil {
		r.Inconc("%s: A's first statement succeeded although kx is held", label)
		_ = txnA.Rollback()
		_ = txnC.Rollback()
		return
	}
	r.Count("stale_primary_first_stmt:"+string(work.Classify(firstErr)), 1)
	// the rollback runs in the background: wait for its first (lost) request, then until it has given up
	for i := 0; i < 5000 && lostRollbacks.Load() == 0; i++ {
		time.Sleep(time.Millisecond)
	}
	u.Drain()
	_ = txnC.Rollback()
	u.Drain()
	// precondition, from the wire: both stale keys were locked naming sp as the primary, no rollback was delivered
	locked := map[string]bool{}
	for _, c := range u.Log.Calls() {
		if req, ok := c.Req.(*kvrpcpb.PessimisticLockRequest); ok && c.Client == owner.ID && c.StartTS == startA && c.Delivered && c.Err == "" && c.RegionErr == nil {
			if resp, _ := c.Resp.(*kvrpcpb.PessimisticLockResponse); resp != nil && len(resp.Errors) == 0 && string(req.PrimaryLock) == sp {
				for _, m := range req.Mutations {
					locked[string(m.Key)] = true
				}
			}
		}
		if c.Cmd == tikvrpc.CmdPessimisticRollback && c.Client == owner.ID && c.Delivered {
			locked["rollback-delivered"] = true
		}
	}
	if !locked[sp] || !locked[ss] || locked["rollback-delivered"] || lostRollbacks.Load() == 0 {
		r.Count("stale_primary_not_established", 1)
		r.Count(fmt.Sprintf("stale_primary_not_established:%s:p=%v:s=%v:rbDelivered=%v:lostRb=%d", v.backend, locked[sp], locked[ss], locked["rollback-delivered"], lostRollbacks.Load()), 1)
		_ = txnA.Rollback()
		return
	}
	relock := func() error {
		if err := txnA.LockKeys(ctx, lockCtx(owner, txnA, kv.LockNoWait, v.freshForUpdateTS), []byte("k3")); err != nil {
			return err
		}
		if err := txnA.Set([]byte("k3"), []byte("v3")); err != nil {
			return err
		}
		if err := txnA.Set([]byte("k4"), []byte("v4")); err != nil {
			return err
		}
		// the owner keeps its real primary alive (a heart-beat as its ttl manager would send it)
		newTTL, err := tikv.StoreProbe{KVStore: owner.Store}.SendTxnHeartbeat(ctx, []byte("k3"), startA, 600000)
		if err != nil || newTTL < 600000 {
			return fmt.Errorf("heart-beat: ttl %d err %v", newTTL, err)
		}
		return nil
	}
	if v.relockBefore {
		if err := relock(); err != nil {
			r.Inconc("%s: A's second statement: %v", label, err)
			_ = txnA.Rollback()
			return
		}
	}
	// the stale locks (ttl ~20 s) expire; A's real primary (600 s) does not
	u.AdvanceClock(60000)
	second, err := u.NewClient()
	if err != nil {
		r.Inconc("%s: second client: %v", label, err)
		return
	}
	// bounded progress for the second client: none of its calls needs more than a few hundred requests
	var secondRPCs atomic.Int64
	second.Net.SetDecider(func(c *uni.Call) uni.Action {
		if secondRPCs.Add(1) > 4000 {
			return uni.Action{Kind: uni.KillBefore}
		}
		return uni.Action{}
	})
	first, then := sp, ss
	if !v.primaryMetFirst {
		first, then = ss, sp
	}
	meetOrder := []string{first, then}
	if v.extraSecondary {
		meetOrder = append(meetOrder, "k2b")
	}
	var encErrs []string
	note := func(what string, err error) {
		if err != nil {
			encErrs = append(encErrs, fmt.Sprintf("%s:%s", what, work.Classify(err)))
		}
	}
	switch v.enc {
	case "pess":
		b, _ := second.Begin()
		b.SetPessimistic(true)
		for _, k := range meetOrder {
			note("lock-"+k, b.LockKeys(ctx, lockCtx(second, b, 300, true), []byte(k)))
		}
		_ = b.Rollback()
	case "pess-one-call":
		b, _ := second.Begin()
		b.SetPessimistic(true)
		note("lock-both", b.LockKeys(ctx, lockCtx(second, b, 300, true), bs(meetOrder...)...))
		_ = b.Rollback()
	case "opt":
		for _, k := range meetOrder {
			b, _ := second.Begin()
			_ = b.Set([]byte(k), []byte("b-"+k))
			note("write-"+k, b.Commit(ctx))
		}
	}
	u.Drain()
	if !v.relockBefore {
		if err := relock(); err != nil {
			r.Inconc("%s: A's second statement (after the encounters): %v", label, err)
			_ = txnA.Rollback()
			return
		}
	}
	// what the second client was told about A so far
	nonFinal := 0
	for _, c := range u.Log.Calls() {
		if c.Client == second.ID && c.Cmd == tikvrpc.CmdCheckTxnStatus && c.StartTS == startA {
			if resp, _ := c.Resp.(*kvrpcpb.CheckTxnStatusResponse); resp != nil && resp.Error == nil && resp.LockTtl == 0 && resp.CommitVersion == 0 &&
				(resp.Action == kvrpcpb.Action_LockNotExistDoNothing || resp.Action == kvrpcpb.Action_TTLExpirePessimisticRollback) {
				nonFinal++
				r.Count("stale_primary_answer:"+resp.Action.String(), 1)
			}
		}
	}
	// A commits
	meetK4 := func() error {
		switch v.meet {
		case "lock":
			b, _ := second.Begin()
			b.SetPessimistic(true)
			err := b.LockKeys(ctx, lockCtx(second, b, 300, true), []byte("k4"))
			_ = b.Rollback()
			return err
		case "write":
			b, _ := second.Begin()
			_ = b.Set([]byte("k4"), []byte("b-k4"))
			err := b.Commit(ctx)
			if err == nil {
				return fmt.Errorf("overwritten")
			}
			return err
		default:
			rd, _ := second.Begin()
			_, err := rd.Get(ctx, []byte("k4"))
			_ = rd.Rollback()
			return err
		}
	}
	var commitErr, meetErr error
	switch v.ending {
	case "alive":
		gateCommit.Store(true)
		done := make(chan error, 1)
		go func() { done <- txnA.Commit(ctx) }()
		select {
		case <-commitReached:
		case commitErr = <-done:
			// the commit ended before its primary's Commit request: A was broken before the point of interest
			r.Count("stale_primary_commit_ended_early:"+string(work.Classify(commitErr)), 1)
			done <- commitErr
		case <-time.After(30 * time.Second):
			close(commitGate)
			r.Inconc("%s: A's commit did not reach the primary's Commit request", label)
			return
		}
		for i := 0; i < 400 && owner.Net.Inflight() > 1; i++ {
			time.Sleep(time.Millisecond)
		}
		meetErr = meetK4()
		close(commitGate)
		select {
		case commitErr = <-done:
		case <-time.After(60 * time.Second):
			r.Inconc("%s: A's Commit did not return", label)
			return
		}
		u.Drain()
	default:
		commitErr = txnA.Commit(ctx)
		u.Drain()
		meetErr = meetK4()
		u.Drain()
	}
	if v.meet == "write" && meetErr != nil && meetErr.Error() == "overwritten" {
		// (the second client's write went through: k4 then carries its value on top of A's - judged below by versions)
		meetErr = nil
	}
	r.Eval(1)
	r.Count("stale_primary_scenarios", 1)
	r.Count("stale_primary_nonfinal_answers", nonFinal)
	// did the second client meet a prewrite lock of A on k4?
	met := false
	for _, c := range u.Log.Calls() {
		if c.Client != second.ID || c.RetSeq == 0 {
			continue
		}
		var kes []*kvrpcpb.KeyError
		switch resp := c.Resp.(type) {
		case *kvrpcpb.GetResponse:
			kes = append(kes, resp.Error)
		case *kvrpcpb.PessimisticLockResponse:
			kes = append(kes, resp.Errors...)
		case *kvrpcpb.PrewriteResponse:
			kes = append(kes, resp.Errors...)
		}
		for _, ke := range kes {
			if ke != nil && ke.Locked != nil && ke.Locked.LockVersion == startA && bytes.Equal(ke.Locked.Key, []byte("k4")) && ke.Locked.LockType != kvrpcpb.Op_PessimisticLock {
				met = true
			}
		}
	}
	if met {
		r.Count("stale_primary_leftover_met", 1)
		if nonFinal > 0 {
			r.Count("stale_primary_leftover_met_after_nonfinal_answer", 1)
		}
	}
	r.Distinct(fmt.Sprintf("%s|first=%s|commit=%s|meet=%s|met=%v|nonfinal=%d|enc=%v", label, work.Classify(firstErr), work.Classify(commitErr), work.Classify(meetErr), met, nonFinal, encErrs))
	if testing.Verbose() {
		t.Logf("%s: first=%v commit=%v meet=%v met=%v nonfinal=%d enc=%v", label, firstErr, commitErr, meetErr, met, nonFinal, encErrs)
	}
	// the request stream
	trace.CheckUniverse(r, u, nil, label, trace.Options{})
	// final state, read by a fresh client (own resolver) after everything has drained
	u.AdvanceClock(1000)
	rdC, err := u.NewClient()
	if err != nil {
		r.Inconc("%s: reader: %v", label, err)
		return
	}
	read := func(key string) (string, bool, error) {
		rd, err := rdC.Begin()
		if err != nil {
			return "", false, err
		}
		defer rd.Rollback()
		val, err := rd.Get(ctx, []byte(key))
		if err == nil {
			return string(val.Value), true, nil
		}
		if tikverr.IsErrNotFound(err) {
			return "", false, nil
		}
		return "", false, err
	}
	v3, ok3, e3 := read("k3")
	v4, ok4, e4 := read("k4")
	u.Drain()
	if e3 != nil || e4 != nil {
		// a lock that cannot be resolved (e.g. the owner is still alive) - not expected after the drain, but not decidable here
		r.Inconc("%s: final reads failed: k3: %v, k4: %v", label, e3, e4)
		return
	}
	// versions of A on the two keys, from the store's MVCC records (k4 may carry a newer write of the second client)
	truth, terr := u.ReadTruth(bs("k3", "k4"))
	aOn := func(key string) bool {
		if terr != nil {
			return false
		}
		return truth.Keys[key].WriteOf(startA) != nil && !truth.Keys[key].RolledBack(startA)
	}
	detail := map[string]any{"scenario": label, "commit_err": fmt.Sprint(commitErr), "k3": v3, "k3_found": ok3, "k4": v4, "k4_found": ok4, "meet_err": fmt.Sprint(meetErr), "encounter_errs": encErrs}
	committed3 := ok3 && v3 == "v3"
	committed4 := ok4 && v4 == "v4"
	if terr == nil {
		committed3, committed4 = aOn("k3"), aOn("k4")
		detail["k3_truth"], detail["k4_truth"] = committed3, committed4
	}
	if committed3 != committed4 {
		r.Violate("stale-primary:partial-commit", fmt.Sprintf("%s: transaction %d is committed on k3=%v but on k4=%v (a reader that sees one of its writes must see the other)", label, startA, committed3, committed4), detail)
	}
	if commitErr == nil && !committed3 {
		r.Violate("stale-primary:acked-commit-lost", fmt.Sprintf("%s: Commit of transaction %d returned nil but its primary k3 is not committed", label, startA), detail)
	}
	if cl := work.Classify(commitErr); v.ending != "killed" && cl != work.ENone && cl != work.EUndetermined {
		r.Violate("stale-primary:owner-aborted-by-resolver", fmt.Sprintf("%s: the owner's Commit failed with %q although its primary lock k3 (ttl 600 s) was alive all the time and nobody wrote its keys before", label, commitErr), detail)
	}
	if r.SampleN() < 6 {
		r.Sample(detail)
	}
}

// staleVariants enumerates the family; the quick tier runs the orders of encounter that matter for every ending on
// both back-ends and rotates the remaining dimensions by seed, the thorough tier runs the full product.
func staleVariants(seed int64, thorough bool) []staleVariant {
	var out []staleVariant
	encs := []string{"pess", "pess-one-call", "opt"}
	endings := []string{"lost-secondaries", "killed", "alive"}
	meets := []string{"get", "lock", "write"}
	i := int(seed)
	for _, be := range []string{uni.Mock, uni.Uni} {
		if thorough {
			for _, pf := range []bool{true, false} {
				for _, enc := range encs {
					for _, pmf := range []bool{true, false} {
						for _, rb := range []bool{true, false} {
							for ei, ending := range endings {
								i++
								out = append(out, staleVariant{backend: be, extraSecondary: !pf, enc: enc, primaryMetFirst: pmf, relockBefore: rb, ending: ending, meet: meets[(i+ei)%3], freshForUpdateTS: i%2 == 0})
							}
						}
					}
				}
			}
			continue
		}
		for ei, ending := range endings {
			for _, pmf := range []bool{true, false} {
				i++
				out = append(out, staleVariant{backend: be, extraSecondary: i%2 == 1, enc: encs[(i/2+ei)%3], primaryMetFirst: pmf, relockBefore: (i/3)%2 == 0, ending: ending, meet: meets[(i+ei)%3], freshForUpdateTS: (i/2)%2 == 0})
			}
		}
	}
	return out
}
