//go:build verif

// Package c04 holds the dedicated C04 scenarios that the generic workloads do
// not produce: a *live* transaction whose locks look expired to a reader that
// only knows a secondary's (shorter) ttl, heart-beat discipline, and commits
// whose batches are regrouped by a batch-size limit.
package c04

import (
	"context"
	"fmt"
	"os"
	"strconv"
	"sync/atomic"
	"testing"
	"time"

	"github.com/pingcap/failpoint"
	"github.com/pingcap/kvproto/pkg/kvrpcpb"
	"github.com/tikv/client-go/v2/kv"
	"github.com/tikv/client-go/v2/tikv"
	"github.com/tikv/client-go/v2/tikvrpc"
	"github.com/tikv/client-go/v2/txnkv/transaction"
	"github.com/tikv/client-go/v2/verifh/vrep"

	"verif/e2e/crash"
	"verif/e2e/trace"
	"verif/e2e/uni"
	"verif/e2e/work"
)

// liveLock: the victim's commit is gated at the prewrite of its last secondary; meanwhile the primary's ttl is
// extended by a heart-beat of the owner, the clock passes the *secondaries'* ttl but not the primary's, and a reader
// runs into a secondary.  The resolver has to wait (or push), never to finish the transaction; when the gate opens
// the owner must be able to commit.
func liveLock(t *testing.T, r *vrep.Report, backend string, async bool, gateKey string) {
	sh := crash.Shape{Backend: backend, Async: async, Muts: []crash.Mut{{Key: "k1", Kind: crash.MPut}, {Key: "k3", Kind: crash.MPut}, {Key: "k5", Kind: crash.MPut}},
		Splits: []string{"k2", "k4"}, Pre: []string{"k1"}}
	env, err := crash.NewEnv(sh)
	if err != nil {
		r.Inconc("env: %v", err)
		return
	}
	defer env.Close()
	label := fmt.Sprintf("live-lock %s async=%v gate=%s", backend, async, gateKey)
	gate := make(chan struct{})
	reached := make(chan struct{})
	var once atomic.Bool
	var startTS atomic.Uint64
	env.Victim.Net.SetDecider(func(c *uni.Call) uni.Action {
		if p, ok := c.Req.(*kvrpcpb.PrewriteRequest); ok && !once.Load() {
			for _, m := range p.Mutations {
				if string(m.Key) == gateKey {
					once.Store(true)
					startTS.Store(p.StartVersion)
					return uni.Action{Before: func() { close(reached); <-gate }}
				}
			}
		}
		return uni.Action{}
	})
	done := make(chan *work.TxnRec, 1)
	go func() { done <- env.RunVictim(nil) }()
	select {
	case <-reached:
	case <-time.After(20 * time.Second):
		r.Inconc("%s: gate not reached", label)
		close(gate)
		return
	}
	// let the other prewrites land
	// (a generous watchdog, not a verdict: on a loaded machine the primary's prewrite can take far longer than the usual millisecond)
	for i := 0; i < 20000 && env.Victim.Net.Inflight() > 1; i++ {
		time.Sleep(time.Millisecond)
	}
	s := startTS.Load()
	// the owner keeps its primary alive (a heart-beat as its ttl manager would send it)
	newTTL, hbErr := tikv.StoreProbe{KVStore: env.Victim.Store}.SendTxnHeartbeat(context.Background(), []byte("k1"), s, 600000)
	if hbErr != nil || newTTL < 600000 {
		// without the extended primary ttl the lock simply is expired for everybody: not this scenario
		r.Count("heartbeat_failed:"+fmt.Sprintf("%.60v", hbErr), 1)
		close(gate)
		<-done
		env.U.Drain()
		return
	}
	// the secondaries' ttl (3 s) elapses, the primary's (600 s) does not
	env.U.AdvanceClock(30000)
	obs, err := env.U.NewClient()
	if err != nil {
		r.Inconc("%s: observer: %v", label, err)
		close(gate)
		return
	}
	rd, _ := obs.Begin()
	readKey := "k3"
	if gateKey == "k3" {
		readKey = "k5"
	}
	_, rerr := rd.Get(context.Background(), []byte(readKey))
	_ = rd.Rollback()
	r.Count("reader_answers:"+string(work.Classify(rerr)), 1)
	close(gate)
	var rec *work.TxnRec
	select {
	case rec = <-done:
	case <-time.After(60 * time.Second):
		r.Inconc("%s: victim did not finish", label)
		return
	}
	env.U.Drain()
	r.Eval(1)
	r.Count("live_lock_scenarios", 1)
	r.Distinct(label + "|" + string(rec.CommitClass))
	// the owner was alive all the time and nobody else wrote: its commit must succeed and be complete
	var keys []string
	for _, m := range sh.Muts {
		keys = append(keys, m.Key)
	}
	obsn, gcw, err := env.Recover(keys, nil)
	if err != nil {
		r.Inconc("%s: recovery: %v", label, err)
		return
	}
	v, err := env.Judge(rec, obsn, true)
	if err != nil {
		r.Inconc("%s: judge: %v", label, err)
		return
	}
	for _, p := range v.Problems {
		r.Violate("live-lock:"+p.Sig, label+": "+p.Msg, map[string]any{"commit_class": rec.CommitClass, "commit_err": rec.CommitErr})
	}
	if hbErr == nil && rec.CommitClass != work.ENone && rec.CommitClass != work.EUndetermined {
		r.Violate("live-lock:owner-aborted-by-resolver", fmt.Sprintf("%s: the owner's Commit failed with %q although its primary lock (ttl 600 s) was alive: a reader finished a live transaction", label, rec.CommitErr),
			map[string]any{"commit_class": rec.CommitClass})
	}
	trace.CheckUniverse(r, env.U, []*work.TxnRec{rec}, label, trace.Options{CheckBuffer: true, GCWindows: [][2]int64{gcw}})
	if r.SampleN() < 4 {
		r.Sample(map[string]any{"scenario": label, "reader_answer": work.Classify(rerr), "owner_commit": rec.CommitClass, "committed": v.Committed})
	}
}

// heartbeats: with a short managed ttl an open pessimistic transaction must keep its primary alive; the trace monitor
// checks primary / ttl monotonicity / ttl > age, this scenario adds "at least one heart-beat is seen".
func heartbeats(t *testing.T, r *vrep.Report, backend string) {
	old := atomic.LoadUint64(&transaction.ManagedLockTTL)
	atomic.StoreUint64(&transaction.ManagedLockTTL, 300) // ticker = 150 ms
	defer atomic.StoreUint64(&transaction.ManagedLockTTL, old)
	for attempt, wait := range []time.Duration{600 * time.Millisecond, 3 * time.Second} {
		u, err := uni.New(backend, 1)
		if err != nil {
			r.Inconc("universe: %v", err)
			return
		}
		c, _ := u.NewClient()
		txn, _ := c.Begin()
		txn.SetPessimistic(true)
		run := &work.Runner{U: u, C: c}
		_ = run
		fu, _ := c.Store.CurrentTimestamp("global")
		lc := kv.NewLockCtx(fu, 1000, time.Now())
		if err := txn.LockKeys(context.Background(), lc, []byte("k1")); err != nil {
			r.Inconc("heartbeat scenario: lock: %v", err)
			u.Close()
			return
		}
		time.Sleep(wait) // wall clock: only to let the ticker fire; the verdict is on what was sent
		n := 0
		for _, cl := range u.Log.Calls() {
			if cl.Cmd == tikvrpc.CmdTxnHeartBeat && cl.StartTS == txn.StartTS() {
				n++
			}
		}
		_ = txn.Rollback()
		u.Drain()
		// a heart-beat whose loop iteration had passed its last "am I stopped" test when Rollback returned may still be
		// on its way to the wire for an instant: let that instant pass before drawing the line (tolerance only)
		settle := 50
		if v, err := strconv.Atoi(os.Getenv("VERIF_C04_HB_SETTLE_MS")); err == nil {
			settle = v
		}
		time.Sleep(time.Duration(settle) * time.Millisecond)
		q := u.Log.Now()
		time.Sleep(400 * time.Millisecond)
		trace.CheckUniverse(r, u, nil, "heartbeats "+backend, trace.Options{QuiescedSeq: q})
		late := 0
		for _, cl := range u.Log.Calls() {
			if cl.Cmd == tikvrpc.CmdTxnHeartBeat && cl.Seq > q {
				late++
			}
		}
		u.Close()
		r.Eval(1)
		r.Count("heartbeats_seen", n)
		if late > 0 {
			r.Violate("heartbeat-after-end", fmt.Sprintf("heartbeats %s: %d heart-beat(s) sent after the transaction was rolled back and drained", backend, late), nil)
		}
		if n > 0 {
			r.Distinct(fmt.Sprintf("hb|%s|%d", backend, attempt))
			return
		}
		if attempt == 1 {
			r.Violate("no-heartbeat-while-open", fmt.Sprintf("heartbeats %s: an open pessimistic transaction sent no heart-beat during %v with a heart-beat period of 150 ms", backend, wait), nil)
		}
	}
}

// heartbeatSlowTSO: the heart-beat loop of an open pessimistic transaction fetches a timestamp before every
// heart-beat; here that request is slow (PD latency) and the transaction is rolled back while it is outstanding.  No
// heart-beat may reach the wire after Rollback has returned and the client has drained.  Decided by sequence numbers:
// the timestamp request is released only after the line has been drawn.
func heartbeatSlowTSO(t *testing.T, r *vrep.Report, backend string) {
	old := atomic.LoadUint64(&transaction.ManagedLockTTL)
	atomic.StoreUint64(&transaction.ManagedLockTTL, 300) // ticker = 150 ms
	defer atomic.StoreUint64(&transaction.ManagedLockTTL, old)
	label := "heartbeat-slow-tso " + backend
	u, err := uni.New(backend, 1)
	if err != nil {
		r.Inconc("universe: %v", err)
		return
	}
	defer u.Close()
	c, _ := u.NewClient()
	txn, _ := c.Begin()
	txn.SetPessimistic(true)
	fu, _ := c.Store.CurrentTimestamp("global")
	lc := kv.NewLockCtx(fu, 1000, time.Now())
	if err := txn.LockKeys(context.Background(), lc, []byte("k1")); err != nil {
		r.Inconc("%s: lock: %v", label, err)
		return
	}
	gate := make(chan struct{})
	entered := make(chan struct{}, 16)
	c.PD.SetTSOHook(func() {
		select {
		case entered <- struct{}{}:
		default:
		}
		<-gate
	})
	// wait until a timestamp request is held (the heart-beat loop's, or the store's own clock refresh - either way
	// the loop cannot get a timestamp before the gate opens); generous wall-clock bound, inconclusive when it fires
	select {
	case <-entered:
	case <-time.After(5 * time.Second):
		close(gate)
		r.Inconc("%s: no timestamp request within 5 s of an open transaction with a 150 ms heart-beat period", label)
		_ = txn.Rollback()
		return
	}
	time.Sleep(400 * time.Millisecond) // at least two more ticks have fired by now; the loop is parked in its timestamp request
	rbErr := txn.Rollback()
	u.Drain()
	q := u.Log.Now()
	c.PD.SetTSOHook(nil)
	close(gate)
	time.Sleep(300 * time.Millisecond) // let the released iteration do what it does
	u.Drain()
	late := 0
	for _, cl := range u.Log.Calls() {
		if cl.Cmd == tikvrpc.CmdTxnHeartBeat && cl.StartTS == txn.StartTS() && cl.Seq > q {
			late++
		}
	}
	r.Eval(1)
	r.Count("heartbeat_slow_tso_scenarios", 1)
	r.Distinct(fmt.Sprintf("hbslow|%s|late=%d|rb=%v", backend, late, rbErr == nil))
	if late > 0 {
		r.Violate("heartbeat-after-end:slow-tso", fmt.Sprintf("%s: %d heart-beat(s) of the transaction reached the wire after Rollback had returned and the client had drained (the loop's timestamp request was outstanding when the transaction ended)", label, late), nil)
	}
}

// fairLockingHeartbeats: a fair-locking (aggressive locking) statement is retried and the retry selects another primary;
// the first attempt's key is released when the statement is done.  While the transaction stays open its heart-beats
// must (come to) name the primary it holds now, and they must keep coming.
func fairLockingHeartbeats(t *testing.T, r *vrep.Report, backend string, variant int) {
	old := atomic.LoadUint64(&transaction.ManagedLockTTL)
	atomic.StoreUint64(&transaction.ManagedLockTTL, 300) // ticker = 150 ms
	defer atomic.StoreUint64(&transaction.ManagedLockTTL, old)
	label := fmt.Sprintf("fair-locking-heartbeats %s variant=%d", backend, variant)
	for attempt, wait := range []time.Duration{900 * time.Millisecond, 4 * time.Second} {
		u, err := uni.New(backend, 1)
		if err != nil {
			r.Inconc("universe: %v", err)
			return
		}
		c, _ := u.NewClient()
		txn, _ := c.Begin()
		txn.SetPessimistic(true)
		ctx := context.Background()
		lock := func(keys ...string) error {
			fu, _ := c.Store.CurrentTimestamp("global")
			lc := kv.NewLockCtx(fu, 1000, time.Now())
			var ks [][]byte
			for _, k := range keys {
				ks = append(ks, []byte(k))
			}
			return txn.LockKeys(ctx, lc, ks...)
		}
		fail := func(what string, err error) {
			r.Inconc("%s: %s: %v", label, what, err)
			_ = txn.Rollback()
			u.Close()
		}
		txn.StartAggressiveLocking()
		if err := lock("k1"); err != nil {
			fail("first attempt", err)
			return
		}
		switch variant {
		case 1:
			// let the first attempt's heart-beat loop run before the retry
			time.Sleep(350 * time.Millisecond)
		}
		txn.RetryAggressiveLocking(ctx)
		// one key per call: a multi-key call leaves fair locking mode
		if err := lock("k2"); err != nil {
			fail("second attempt", err)
			return
		}
		if variant == 1 {
			if err := lock("k3"); err != nil {
				fail("second attempt, second key", err)
				return
			}
		}
		if txn.IsInAggressiveLockingMode() {
			txn.DoneAggressiveLocking(ctx)
		}
		u.Drain()
		doneSeq := u.Log.Now()
		var newPrimary []byte
		for _, cl := range u.Log.Calls() {
			if pl, ok := cl.Req.(*kvrpcpb.PessimisticLockRequest); ok && cl.StartTS == txn.StartTS() {
				newPrimary = pl.PrimaryLock
			}
		}
		time.Sleep(wait) // wall clock: only to let the ticker fire; the verdict is on what was sent
		named, other := 0, 0
		var otherKey []byte
		for _, cl := range u.Log.Calls() {
			if hb, ok := cl.Req.(*kvrpcpb.TxnHeartBeatRequest); ok && cl.StartTS == txn.StartTS() && cl.Seq > doneSeq {
				if string(hb.PrimaryLock) == string(newPrimary) {
					named++
				} else {
					other++
					otherKey = hb.PrimaryLock
				}
			}
		}
		_ = txn.Rollback()
		u.Drain()
		q := u.Log.Now()
		trace.CheckUniverse(r, u, nil, label, trace.Options{QuiescedSeq: q})
		u.Close()
		r.Eval(1)
		r.Count("fair_locking_heartbeat_scenarios", 1)
		r.Count("heartbeats_for_reselected_primary", named)
		if other > 0 {
			r.Violate("heartbeat-names-released-primary", fmt.Sprintf("%s: after the retried statement was done (primary %q, the first attempt's key released) %d heart-beat(s) still name %q", label, newPrimary, other, otherKey), nil)
			return
		}
		if named > 0 {
			r.Distinct(fmt.Sprintf("flhb|%s|%d|%d", backend, variant, attempt))
			return
		}
		if attempt == 1 {
			r.Violate("no-heartbeat-for-reselected-primary", fmt.Sprintf("%s: the open transaction sent no heart-beat for its primary %q during %v (period 150 ms) after a fair-locking retry had re-selected the primary", label, newPrimary, wait), nil)
		}
	}
}

// batchLimit: a commit whose batches are cut by a small request batch size limit and by the region layout.
func batchLimit(t *testing.T, r *vrep.Report, backend string, pess, async, onePC bool, limit int) {
	_ = failpoint.Enable("tikvclient/twoPCRequestBatchSizeLimit", "return")
	defer failpoint.Disable("tikvclient/twoPCRequestBatchSizeLimit")
	sh := crash.Shape{Backend: backend, Pessimistic: pess, Async: async, OnePC: onePC,
		Muts:   []crash.Mut{{Key: "k1", Kind: crash.MPut}, {Key: "k2", Kind: crash.MDel}, {Key: "k3", Kind: crash.MPut}, {Key: "k4", Kind: crash.MInsert}, {Key: "k5", Kind: crash.MPut}, {Key: "k6", Kind: crash.MPut}},
		Splits: []string{"k3", "k5"}, Pre: []string{"k1", "k2", "k3"}}
	if onePC {
		// one region, several requests: the batch size limit alone must make the commit give up one-phase commit
		sh.Splits = nil
	}
	env, err := crash.NewEnv(sh)
	if err != nil {
		r.Inconc("env: %v", err)
		return
	}
	defer env.Close()
	if onePC {
		// a store that honours try_one_pc on two requests of one transaction commits each on its own and the client
		// ends the process (Fatal "one pc happened multiple times"): only the first such request is delivered, so
		// that the trace monitor (rule 10) gets to judge the request stream
		var onePCReqs atomic.Int32
		env.Victim.Net.SetDecider(func(c *uni.Call) uni.Action {
			if req, ok := c.Req.(*kvrpcpb.PrewriteRequest); ok && req.TryOnePc && onePCReqs.Add(1) > 1 {
				return uni.Action{Kind: uni.DropReq}
			}
			return uni.Action{}
		})
	}
	rec := env.RunVictim(nil)
	env.U.Drain()
	label := fmt.Sprintf("batch-limit %s pess=%v async=%v 1pc=%v", backend, pess, async, onePC)
	r.Eval(1)
	r.Count("batch_limit_scenarios", 1)
	n := 0
	for _, c := range env.VictimCalls(rec.StartTS) {
		if c.Cmd == tikvrpc.CmdPrewrite {
			n++
		}
	}
	r.Count("prewrite_requests_under_batch_limit", n)
	r.Distinct(fmt.Sprintf("%s|prewrites=%d|%s", label, n, rec.CommitClass))
	if rec.CommitClass != work.ENone {
		r.Violate("batch-limit:commit-failed", fmt.Sprintf("%s: fault-free Commit returned %q", label, rec.CommitErr), nil)
	}
	trace.CheckUniverse(r, env.U, []*work.TxnRec{rec}, label, trace.Options{CheckBuffer: true})
}

func TestVerifC04Dedicated(t *testing.T) {
	r := vrep.New("C04", "c04-dedicated", "dedicated C04 scenarios judged by the trace monitor: (1) live-lock discipline - a commit gated mid-prewrite, primary ttl extended by the owner's heart-beat, clock past the secondaries' ttl, a reader runs into a secondary (2PC on both back-ends, async commit on unistore): the resolver must not finish the transaction and the owner must commit; (2) heart-beats of an open pessimistic transaction with a 150 ms period: at least one, naming the primary, ttl monotone and above the age, none after the end; (3) commits regrouped by the request batch size limit; (4) stale primary pointers - a pessimistic transaction whose failed first statement left pessimistic locks behind (rollback lost) goes on under a new primary; a second client (one lock resolver) meets the expired leftovers in several orders and then a prewrite lock of the live / committed transaction: it may resolve that lock only with the outcome the store reported for the transaction (LockNotExistDoNothing / TTLExpirePessimisticRollback answers report none), and a reader that sees one key of the transaction sees the other; distinct = distinct scenario outcomes")
	defer r.Finish(t)
	_ = failpoint.Enable("tikvclient/fastBackoffBySkipSleep", "return")
	for _, be := range []string{uni.Mock, uni.Uni} {
		for _, gk := range []string{"k5", "k3"} {
			liveLock(t, r, be, false, gk)
			if be == uni.Uni {
				liveLock(t, r, be, true, gk)
			}
		}
		for _, pess := range []bool{false, true} {
			batchLimit(t, r, be, pess, false, false, 1)
			if be == uni.Uni {
				batchLimit(t, r, be, pess, true, false, 1)
				batchLimit(t, r, be, pess, true, true, 1)
				batchLimit(t, r, be, pess, false, true, 1)
			}
		}
	}
	// (4) stale primary pointers: leftovers of a failed first statement whose pessimistic rollback was lost
	{
		seed, _ := strconv.ParseInt(os.Getenv("VERIF_SEED"), 10, 64)
		vs := staleVariants(seed, os.Getenv("VERIF_TIER") == "thorough")
		for _, v := range vs {
			stalePrimary(t, r, v)
		}
		r.Floor("stale_primary_scenarios", len(vs)*3/4)
		r.Floor("stale_primary_nonfinal_answers", len(vs)/2)
		r.Floor("stale_primary_answer:LockNotExistDoNothing", 2)
		r.Floor("stale_primary_leftover_met_after_nonfinal_answer", len(vs)/3)
	}
	failpoint.Disable("tikvclient/fastBackoffBySkipSleep")
	heartbeats(t, r, uni.Mock)
	heartbeats(t, r, uni.Uni)
	for _, be := range []string{uni.Mock, uni.Uni} {
		for variant := 0; variant < 2; variant++ {
			fairLockingHeartbeats(t, r, be, variant)
		}
		heartbeatSlowTSO(t, r, be)
	}
	r.Floor("live_lock_scenarios", 4)
	r.Floor("heartbeats_seen", 1)
	r.Floor("rule5_evaluated", 1)
	r.Floor("batch_limit_scenarios", 10)
	r.Floor("fair_locking_heartbeat_scenarios", 4)
	r.Floor("heartbeat_slow_tso_scenarios", 2)
}
