//go:build verif

// Package c16: pipelined transactions end to end on unistore (mocktikv has no Flush RPC).
//
// One driver runs generated pipelined transactions (tiny flush thresholds through the pipelinedMemDB*
// failpoints) through the public KVTxn API, each on its own key prefix and region layout, with a fault
// plan on its Flush RPCs (held in flight, region errors, region split exactly at the RPC, lost request, lost
// response, every request lost from some point on) and optionally a conflicting committed write.  The
// monitors are
//
//	read    every Get/BatchGet inside the transaction against the driver's model (latest own write,
//	        whichever tier holds it: mutable / flushing / flushed; deletions hide; otherwise the snapshot)
//	wire    Flush RPCs recorded at the client boundary: every mutation of an applied request belongs to the
//	        generation the model expects and carries its value; a flush that was reported successful has
//	        been applied completely; generation numbers increase; no request of a generation is sent
//	        before every request of the previous generation has returned
//	error   once Flush/FlushWait has reported an error, Commit fails
//	progress  after a reported flush error the application goes on (FlushWait again, then Commit or Rollback); a
//	        Flush / FlushWait / Commit / Rollback that has not returned although every injected hold has been
//	        released, no RPC of the client is in flight and none has been sent for a whole observation window
//	        (the driver's own bookkeeping over the RPC log) is re-run alone in a fresh universe with a ten-fold
//	        window; blocked again in the same call and state = blocked for good (nothing is left that could wake
//	        it up): the transaction neither fails nor cleans up.  A single, non-reproduced sighting is inconclusive
//	truth   after the end of the transaction and drain (MvccGetByKey + lock scan on the un-recorded store):
//	        Commit()==nil => every written key carries exactly the latest write, all with the commit ts of
//	        the primary's Commit request, and no lock of the transaction is left anywhere;
//	        Rollback or failed Commit => no version and no lock of the transaction
package c16

import (
	"bytes"
	"context"
	"fmt"
	"math/rand"
	"runtime"
	"sort"
	"strings"
	"sync"
	"testing"
	"time"

	"github.com/pingcap/failpoint"
	"github.com/pingcap/kvproto/pkg/errorpb"
	"github.com/pingcap/kvproto/pkg/kvrpcpb"
	"github.com/pkg/errors"
	tikverr "github.com/tikv/client-go/v2/error"
	"github.com/tikv/client-go/v2/oracle"
	"github.com/tikv/client-go/v2/tikv"
	"github.com/tikv/client-go/v2/tikvrpc"
	"github.com/tikv/client-go/v2/util"
	"github.com/tikv/client-go/v2/verifh/vrep"

	"verif/e2e/uni"
)

// ---------------------------------------------------------------- case description

type step struct {
	Op    string   `json:"op"` // set del get bget flush flushwait release
	Key   string   `json:"key,omitempty"`
	Val   string   `json:"val,omitempty"`
	Keys  []string `json:"keys,omitempty"`
	Force bool     `json:"force,omitempty"`
	// Ctx: the context of a call that takes one (get, bget): 0 = context.Background(), 1 = cancelled right after
	// the call returned, 2 = carries values and a far deadline, cancelled right after the call returned
	Ctx int `json:"ctx,omitempty"`
}

func (s step) String() string {
	switch s.Op {
	case "set":
		return fmt.Sprintf("set(%q,%s)", s.Key, short(s.Val))
	case "del", "get", "split":
		return fmt.Sprintf("%s(%q)", s.Op, s.Key)
	case "bget":
		return fmt.Sprintf("bget(%q)", s.Keys)
	case "flush":
		return fmt.Sprintf("flush(force=%v)", s.Force)
	}
	return s.Op
}

func short(v string) string {
	if len(v) > 14 {
		return fmt.Sprintf("%s..(%d)", v[:10], len(v))
	}
	return v
}

// fault kinds for the n-th Flush RPC of the transaction
const (
	fPass = iota
	fHold
	fNotLeader
	fBusy
	fSplit
	fDropReq
	fDropResp
	fEpoch
)

var faultNames = []string{"pass", "hold", "not-leader", "server-busy", "split-at-rpc", "drop-req", "drop-resp", "epoch-not-match"}

type fault struct {
	Kind     int    `json:"kind"`
	SplitKey string `json:"split_key,omitempty"`
}

type spec struct {
	ID          int               `json:"id"`
	Shape       string            `json:"shape"` // random | single-key | max-on-border
	Keys        []string          `json:"keys"`
	Base        map[string]string `json:"base"`
	Splits      []string          `json:"splits"`
	Steps       []step            `json:"steps"`
	End         string            `json:"end"` // commit | rollback
	FlushConc   int               `json:"flush_concurrency"`
	ResolveConc int               `json:"resolve_concurrency"`
	MinKeys     int               `json:"min_flush_keys"`
	MinSize     int               `json:"min_flush_size"`
	ForceSize   int               `json:"force_flush_size"`
	Faults      []fault           `json:"flush_rpc_faults"`
	LoseFrom    int               `json:"lose_every_flush_rpc_from"` // -1 = never
	// LoseUntilError: the loss ends as soon as Flush/FlushWait has reported an error to the driver (the
	// store is reachable again when the application goes on to Commit or Rollback)
	LoseUntilError bool `json:"lose_until_error_reported"`
	// CommitFault: a failure in the commit phase.  primary-rolled-back = another client's resolver finds the
	// primary lock expired and rolls it back right before the Commit request reaches the store; failpoint =
	// pipelinedCommitFail (the commit fails after the commit ts has been fetched); not-leader / server-busy /
	// drop-req hit the first Commit request
	CommitFault string `json:"commit_fault,omitempty"`
	// CommitCtx: the context of Commit; as step.Ctx, and 3 = cancelled while Commit runs (when its first Commit
	// request is about to be sent): the answer may then be an error, judged like a commit-phase fault
	CommitCtx int `json:"commit_ctx"`
	// BGFaults: what happens to the n-th BufferBatchGet RPC of the transaction (reads of flushed keys); a split
	// is placed between two of the requested keys, so that the batch has to be re-grouped by region
	BGFaults []fault `json:"buffer_batch_get_rpc_faults"`
	// AfterFlushErr: what the application calls between the reported flush error and the end of the transaction
	// ("" nothing, "flushwait")
	AfterFlushErr string `json:"after_flush_error,omitempty"`
	ConflictKey string            `json:"conflict_key,omitempty"`
	ResolveErr  int               `json:"resolve_rpc_fault"` // n-th ResolveLock of the txn gets a fault (-1 none)
	ResolveKind int               `json:"resolve_rpc_fault_kind"`
}

func (s *spec) stepStrings() []string {
	var out []string
	for _, st := range s.Steps {
		out = append(out, st.String())
	}
	return out
}

var suffixes = []string{"a", "a\x00", "b", "b0", "c", "d", "d\xff", "e"}

func gen(rng *rand.Rand, id, prefixNo int) *spec {
	s := &spec{ID: id, Base: map[string]string{}, LoseFrom: -1, ResolveErr: -1}
	prefix := fmt.Sprintf("t%04d:", prefixNo)
	switch x := rng.Intn(10); {
	case x < 2:
		s.Shape = "single-key"
	case x < 4:
		s.Shape = "max-on-border"
	case x < 6:
		return genReadFlushed(rng, s, prefix)
	default:
		s.Shape = "random"
	}
	nk := 2 + rng.Intn(len(suffixes)-1)
	if s.Shape == "single-key" {
		nk = 1 + rng.Intn(3)
	}
	perm := rng.Perm(len(suffixes))[:nk]
	sort.Ints(perm)
	for _, i := range perm {
		s.Keys = append(s.Keys, prefix+suffixes[i])
	}
	for _, k := range s.Keys {
		if rng.Intn(2) == 0 {
			s.Base[k] = fmt.Sprintf("base%d.%s", id, k[len(prefix):])
		}
	}
	s.FlushConc = []int{1, 2, 8}[rng.Intn(3)]
	s.ResolveConc = []int{1, 2, 8}[rng.Intn(3)]
	s.MinKeys = []int{1, 2, 3}[rng.Intn(3)]
	s.MinSize = []int{0, 1, 6000}[rng.Intn(3)]
	s.ForceSize = []int{1, 9000, 1 << 40, 1 << 40}[rng.Intn(4)]
	s.End = "commit"
	if rng.Intn(3) == 0 {
		s.End = "rollback"
	}
	// program
	writeKeys := s.Keys
	if s.Shape == "single-key" {
		writeKeys = s.Keys[rng.Intn(len(s.Keys)):][:1]
	}
	n := 4 + rng.Intn(24)
	if s.Shape == "single-key" {
		n = 1 + rng.Intn(5)
	}
	flushPct := []int{8, 18, 30}[rng.Intn(3)]
	vn := 0
	wrote := false
	for i := 0; i < n; i++ {
		x := rng.Intn(100)
		k := writeKeys[rng.Intn(len(writeKeys))]
		rk := s.Keys[rng.Intn(len(s.Keys))]
		if !wrote && rng.Intn(2) == 0 {
			x = flushPct + 10 // most programs start with a write
		}
		switch {
		case x < flushPct:
			s.Steps = append(s.Steps, step{Op: "flush", Force: rng.Intn(3) != 0})
		case x < flushPct+3:
			s.Steps = append(s.Steps, step{Op: "flushwait"})
		case x < flushPct+10:
			s.Steps = append(s.Steps, step{Op: "release"})
		case x < flushPct+10+30 || !wrote:
			vn++
			v := fmt.Sprintf("v%d.%d", id, vn)
			if rng.Intn(10) == 0 {
				v += strings.Repeat("y", 3000+rng.Intn(3000))
			}
			s.Steps = append(s.Steps, step{Op: "set", Key: k, Val: v})
			wrote = true
		case x < flushPct+10+30+10:
			s.Steps = append(s.Steps, step{Op: "del", Key: k})
		case x < flushPct+10+30+10+22:
			s.Steps = append(s.Steps, step{Op: "get", Key: rk})
		default:
			m := 1 + rng.Intn(4)
			var ks []string
			for j := 0; j < m; j++ {
				ks = append(ks, s.Keys[rng.Intn(len(s.Keys))])
			}
			s.Steps = append(s.Steps, step{Op: "bget", Keys: ks})
		}
	}
	if s.Shape != "random" && rng.Intn(2) == 0 {
		// the flushed locks exist before commit/rollback starts
		s.Steps = append(s.Steps, step{Op: "flush", Force: true})
		if rng.Intn(2) == 0 {
			s.Steps = append(s.Steps, step{Op: "flushwait"})
		}
	}
	s.Steps = append(s.Steps, step{Op: "get", Key: s.Keys[rng.Intn(len(s.Keys))]}, step{Op: "bget", Keys: append([]string(nil), s.Keys...)})
	// layout
	maxW := ""
	for _, st := range s.Steps {
		if (st.Op == "set" || st.Op == "del") && st.Key > maxW {
			maxW = st.Key
		}
	}
	for _, k := range s.Keys {
		if rng.Intn(4) == 0 {
			s.Splits = append(s.Splits, k)
		}
	}
	if rng.Intn(2) == 0 {
		s.Splits = append(s.Splits, prefix) // lower fence
	}
	if rng.Intn(2) == 0 {
		s.Splits = append(s.Splits, prefix+"\xff") // upper fence: the largest key is not in the last region
	}
	if s.Shape == "max-on-border" && maxW != "" {
		s.Splits = append(s.Splits, maxW)
	}
	// faults on the Flush RPCs
	if rng.Intn(3) != 0 {
		nf := 2 + rng.Intn(10)
		for i := 0; i < nf; i++ {
			f := fault{}
			switch x := rng.Intn(100); {
			case x < 45:
				f.Kind = fPass
			case x < 63:
				f.Kind = fHold
			case x < 72:
				f.Kind = fNotLeader
			case x < 77:
				f.Kind = fBusy
			case x < 88:
				f.Kind = fSplit
				f.SplitKey = s.Keys[rng.Intn(len(s.Keys))]
			case x < 94:
				f.Kind = fDropReq
			default:
				f.Kind = fDropResp
			}
			s.Faults = append(s.Faults, f)
		}
	}
	s.BGFaults = genBGFaults(rng, s.Keys)
	var written []string
	for _, st := range s.Steps {
		if st.Op == "set" || st.Op == "del" {
			written = append(written, st.Key)
		}
	}
	switch x := rng.Intn(20); {
	case x == 0:
		s.LoseFrom = rng.Intn(4)
	case x == 1:
		s.LoseFrom = rng.Intn(4)
		s.LoseUntilError = true
		s.End = "commit"
	case x == 2 && len(written) > 0:
		s.ConflictKey = written[rng.Intn(len(written))]
	case x < 6:
		s.ResolveErr = rng.Intn(3)
		s.ResolveKind = []int{fNotLeader, fSplit, fSplit}[rng.Intn(3)]
	}
	genCommitFault(rng, s)
	return s
}

// genFlushFails: a transaction that is told by Flush (not by FlushWait) that an earlier flush failed, and then goes
// on: a generated program (layout, faults, reads as drawn) preceded by writes with forced flushes back to back, the
// first of which fails in the background - a conflicting committed write under its key (definite error), or every
// Flush RPC lost until the error has been reported.  Own random stream; the other programs do not depend on it.
func genFlushFails(rng *rand.Rand, id, prefixNo int) *spec {
	var s *spec
	for {
		s = gen(rng, id, prefixNo)
		if s.Shape == "random" || s.Shape == "max-on-border" {
			break
		}
	}
	s.Shape = "flush-fails"
	s.LoseFrom, s.LoseUntilError, s.ConflictKey, s.CommitFault = -1, false, "", ""
	if s.CommitCtx == 3 {
		s.CommitCtx = 1
	}
	s.End = []string{"commit", "rollback"}[rng.Intn(2)]
	ka, kb := s.Keys[rng.Intn(len(s.Keys))], s.Keys[rng.Intn(len(s.Keys))]
	pre := []step{{Op: "set", Key: ka, Val: fmt.Sprintf("v%d.f1", id)}, {Op: "flush", Force: true}}
	if rng.Intn(3) == 0 {
		pre = append(pre, step{Op: "get", Key: ka})
	}
	pre = append(pre, step{Op: "set", Key: kb, Val: fmt.Sprintf("v%d.f2", id)}, step{Op: "flush", Force: rng.Intn(4) != 0},
		step{Op: "set", Key: ka, Val: fmt.Sprintf("v%d.f3", id)}, step{Op: "flush", Force: true})
	if rng.Intn(2) == 0 {
		s.ConflictKey = ka
	} else {
		s.LoseFrom = 0
		s.LoseUntilError = true
	}
	if rng.Intn(3) == 0 {
		// two good generations first
		pre = append([]step{{Op: "set", Key: kb, Val: fmt.Sprintf("v%d.f0", id)}, {Op: "flush", Force: true}, {Op: "flushwait"}}, pre...)
		if s.LoseFrom == 0 {
			s.LoseFrom = 1 + rng.Intn(2)
		}
	}
	s.Steps = append(pre, s.Steps...)
	return s
}

// afterFlushErr: every second transaction waits once more (FlushWait) after it has been told that a flush failed,
// before it commits or rolls back.  Derived from the id, not drawn: the generated programs do not depend on it.
func afterFlushErr(id int) string {
	if id%2 == 1 {
		return "flushwait"
	}
	return ""
}

// genCommitFault gives two fifths of the committing transactions a failure in the commit phase.
func genCommitFault(rng *rand.Rand, s *spec) {
	// Cancelling a context after the call it was passed to has returned is not a fault.
	for i := range s.Steps {
		if s.Steps[i].Op == "get" || s.Steps[i].Op == "bget" {
			s.Steps[i].Ctx = rng.Intn(3)
		}
	}
	s.CommitCtx = rng.Intn(3)
	if rng.Intn(12) == 0 {
		s.CommitCtx = 3
	}
	if s.End != "commit" || s.LoseFrom >= 0 || s.ConflictKey != "" || rng.Intn(5) >= 2 {
		return
	}
	s.CommitFault = []string{"primary-rolled-back", "primary-rolled-back", "primary-rolled-back", "failpoint", "failpoint", "not-leader", "server-busy", "drop-req", "drop-resp-cancel"}[rng.Intn(9)]
	if s.CommitFault == "drop-resp-cancel" {
		// the Commit request is executed, its response is lost and the caller's context is cancelled at that
		// moment (no retry): the outcome is undetermined for the client
		s.CommitCtx = 3
	}
}

// genBGFaults draws the faults of the first BufferBatchGet RPCs of a transaction.
func genBGFaults(rng *rand.Rand, keys []string) []fault {
	if rng.Intn(3) == 0 {
		return nil
	}
	var out []fault
	for i, n := 0, 1+rng.Intn(6); i < n; i++ {
		f := fault{}
		switch x := rng.Intn(100); {
		case x < 45:
			f.Kind = fPass
		case x < 57:
			f.Kind = fNotLeader
		case x < 65:
			f.Kind = fBusy
		case x < 77:
			f.Kind = fEpoch
		default:
			f.Kind = fSplit
			f.SplitKey = keys[rng.Intn(len(keys))] // used when the request has a single key
		}
		out = append(out, f)
	}
	return out
}

// genReadFlushed: the keys sit in one region and carry committed values; the transaction overwrites / deletes
// several of them, flushes and waits (the writes are now in neither local buffer), then the region is split
// between the written keys - by the driver behind the back of the client's region cache, or exactly at the
// BufferBatchGet RPC - and the keys are read with one BatchGet and again with Get (batch-get cache).
func genReadFlushed(rng *rand.Rand, s *spec, prefix string) *spec {
	s.Shape = "read-flushed"
	nk := 3 + rng.Intn(len(suffixes)-2)
	perm := rng.Perm(len(suffixes))[:nk]
	sort.Ints(perm)
	for _, i := range perm {
		s.Keys = append(s.Keys, prefix+suffixes[i])
	}
	for _, k := range s.Keys {
		if rng.Intn(10) < 7 {
			s.Base[k] = fmt.Sprintf("base%d.%s", s.ID, k[len(prefix):])
		}
	}
	s.FlushConc = []int{1, 2, 8}[rng.Intn(3)]
	s.ResolveConc = []int{1, 2, 8}[rng.Intn(3)]
	s.MinKeys = []int{1, 2, 3}[rng.Intn(3)]
	s.MinSize = []int{0, 1, 6000}[rng.Intn(3)]
	s.ForceSize = []int{9000, 1 << 40}[rng.Intn(2)]
	s.End = []string{"commit", "commit", "rollback"}[rng.Intn(3)]
	if rng.Intn(2) == 0 {
		s.Splits = append(s.Splits, prefix)
	}
	if rng.Intn(2) == 0 {
		s.Splits = append(s.Splits, prefix+"\xff")
	}
	vn := 0
	written := map[string]bool{}
	rounds := 1 + rng.Intn(2)
	for r := 0; r < rounds; r++ {
		for _, i := range rng.Perm(len(s.Keys)) {
			k := s.Keys[i]
			if len(written) >= 2 && rng.Intn(3) == 0 {
				continue
			}
			_, hasBase := s.Base[k]
			if rng.Intn(3) == 0 && (hasBase || written[k]) {
				s.Steps = append(s.Steps, step{Op: "del", Key: k})
			} else {
				vn++
				s.Steps = append(s.Steps, step{Op: "set", Key: k, Val: fmt.Sprintf("v%d.%d", s.ID, vn)})
			}
			written[k] = true
		}
		s.Steps = append(s.Steps, step{Op: "flush", Force: true})
		if r < rounds-1 && rng.Intn(2) == 0 {
			continue // the next forced flush consumes this one
		}
		s.Steps = append(s.Steps, step{Op: "flushwait"})
	}
	var ws []string
	for _, k := range s.Keys {
		if written[k] {
			ws = append(ws, k)
		}
	}
	mid := ws[(len(ws)+1)/2] // a written key with at least one written key below it
	splitByDriver := rng.Intn(2) == 0
	if splitByDriver {
		s.Steps = append(s.Steps, step{Op: "split", Key: mid})
	}
	readKeys := append([]string(nil), ws...)
	for _, k := range s.Keys {
		if !written[k] && rng.Intn(2) == 0 {
			readKeys = append(readKeys, k)
		}
	}
	rng.Shuffle(len(readKeys), func(i, j int) { readKeys[i], readKeys[j] = readKeys[j], readKeys[i] })
	s.Steps = append(s.Steps, step{Op: "bget", Keys: readKeys})
	for _, k := range ws {
		s.Steps = append(s.Steps, step{Op: "get", Key: k})
	}
	if rng.Intn(2) == 0 {
		// a later write, a second border and the same reads again
		vn++
		s.Steps = append(s.Steps, step{Op: "set", Key: ws[rng.Intn(len(ws))], Val: fmt.Sprintf("v%d.%d", s.ID, vn)})
		s.Steps = append(s.Steps, step{Op: "flush", Force: rng.Intn(2) == 0})
		if rng.Intn(2) == 0 {
			s.Steps = append(s.Steps, step{Op: "split", Key: ws[1]})
		}
		s.Steps = append(s.Steps, step{Op: "bget", Keys: append([]string(nil), s.Keys...)})
		s.Steps = append(s.Steps, step{Op: "get", Key: ws[0]}, step{Op: "get", Key: ws[len(ws)-1]})
	}
	// the first BufferBatchGet RPC: a split between the requested keys exactly at the RPC, or a region error
	first := fault{Kind: fSplit, SplitKey: mid}
	if splitByDriver {
		first.Kind = []int{fPass, fPass, fNotLeader, fBusy, fEpoch}[rng.Intn(5)]
	} else if rng.Intn(4) == 0 {
		first.Kind = []int{fNotLeader, fBusy, fEpoch}[rng.Intn(3)]
	}
	s.BGFaults = append([]fault{first}, genBGFaults(rng, s.Keys)...)
	if rng.Intn(3) == 0 {
		for i, n := 0, 1+rng.Intn(4); i < n; i++ {
			s.Faults = append(s.Faults, fault{Kind: []int{fPass, fHold, fNotLeader, fDropResp}[rng.Intn(4)]})
		}
	}
	if rng.Intn(6) == 0 {
		s.ResolveErr = rng.Intn(3)
		s.ResolveKind = []int{fNotLeader, fSplit}[rng.Intn(2)]
	}
	genCommitFault(rng, s)
	return s
}

// ---------------------------------------------------------------- fault plan (decider of the client)

type plan struct {
	mu       sync.Mutex
	u        *uni.Universe
	s        *spec
	startTS  uint64
	nFlush   int
	nResolve int
	nBG      int
	nCommit  int
	cancelAtCommit  func()
	cancelledDuring bool
	commitRequestLost bool
	held     []chan struct{}
	release  bool // release mode: nothing is held
	loseOver bool // the loss of Flush RPCs has ended
	counts   map[string]int
}

func (p *plan) decide(c *uni.Call) uni.Action {
	p.mu.Lock()
	defer p.mu.Unlock()
	if p.startTS == 0 || c.StartTS != p.startTS {
		return uni.Action{}
	}
	if c.Cmd == tikvrpc.CmdResolveLock {
		n := p.nResolve
		p.nResolve++
		if n == p.s.ResolveErr {
			if p.s.ResolveKind == fNotLeader {
				p.counts["resolve:not-leader"]++
				return uni.Action{Kind: uni.RegionErr, RegErr: &errorpb.Error{Message: "injected", NotLeader: &errorpb.NotLeader{RegionId: c.RegionID}}}
			}
			k := []byte(p.s.Keys[len(p.s.Keys)/2])
			p.counts["resolve:split-at-rpc"]++
			return uni.Action{Before: func() { p.u.SplitAt(k) }}
		}
		return uni.Action{}
	}
	if c.Cmd == tikvrpc.CmdCommit {
		n := p.nCommit
		p.nCommit++
		if n != 0 {
			return uni.Action{}
		}
		if p.s.CommitFault == "drop-resp-cancel" && p.cancelAtCommit != nil {
			f := p.cancelAtCommit
			p.cancelledDuring = true
			p.commitRequestLost = true
			p.counts["commit:response-lost-and-context-cancelled"]++
			return uni.Action{Kind: uni.DropResp, After: f}
		}
		if p.cancelAtCommit != nil {
			f := p.cancelAtCommit
			p.cancelledDuring = true
			p.counts["commit:context-cancelled-at-commit-rpc"]++
			return uni.Action{Before: f}
		}
		switch p.s.CommitFault {
		case "primary-rolled-back":
			var primary []byte
			if r, ok := c.Req.(*kvrpcpb.CommitRequest); ok && len(r.Keys) > 0 {
				primary = r.Keys[0]
			}
			ts := p.startTS
			return uni.Action{Before: func() {
				if err := rollbackExpiredPrimary(p.u, primary, ts); err == nil {
					p.mu.Lock()
					p.counts["commit:primary-rolled-back-by-resolver"]++
					p.mu.Unlock()
				}
			}}
		case "not-leader":
			p.counts["commit:not-leader"]++
			return uni.Action{Kind: uni.RegionErr, RegErr: &errorpb.Error{Message: "injected", NotLeader: &errorpb.NotLeader{RegionId: c.RegionID}}}
		case "server-busy":
			p.counts["commit:server-busy"]++
			return uni.Action{Kind: uni.RegionErr, RegErr: &errorpb.Error{Message: "injected", ServerIsBusy: &errorpb.ServerIsBusy{Reason: "verif"}}}
		case "drop-req":
			p.counts["commit:drop-req"]++
			p.commitRequestLost = true
			return uni.Action{Kind: uni.DropReq}
		}
		return uni.Action{}
	}
	if c.Cmd == tikvrpc.CmdBufferBatchGet {
		n := p.nBG
		p.nBG++
		p.counts["bufget:rpcs"]++
		if n >= len(p.s.BGFaults) {
			return uni.Action{}
		}
		f := p.s.BGFaults[n]
		switch f.Kind {
		case fNotLeader:
			p.counts["bufget:not-leader"]++
			return uni.Action{Kind: uni.RegionErr, RegErr: &errorpb.Error{Message: "injected", NotLeader: &errorpb.NotLeader{RegionId: c.RegionID}}}
		case fBusy:
			p.counts["bufget:server-busy"]++
			return uni.Action{Kind: uni.RegionErr, RegErr: &errorpb.Error{Message: "injected", ServerIsBusy: &errorpb.ServerIsBusy{Reason: "verif"}}}
		case fEpoch:
			p.counts["bufget:epoch-not-match"]++
			return uni.Action{Kind: uni.RegionErr, RegErr: &errorpb.Error{Message: "injected", EpochNotMatch: &errorpb.EpochNotMatch{}}}
		case fSplit:
			// between two of the requested keys, so that they no longer fit one region
			k := []byte(f.SplitKey)
			nkeys := 0
			if r, ok := c.Req.(*kvrpcpb.BufferBatchGetRequest); ok {
				var ks []string
				seen := map[string]bool{}
				for _, x := range r.Keys {
					if !seen[string(x)] {
						seen[string(x)] = true
						ks = append(ks, string(x))
					}
				}
				sort.Strings(ks)
				nkeys = len(ks)
				if len(ks) >= 2 {
					k = []byte(ks[len(ks)/2])
				}
			}
			return uni.Action{Before: func() {
				if p.u.SplitAt(k) {
					p.mu.Lock()
					p.counts["bufget:split-at-rpc"]++
					if nkeys >= 2 {
						p.counts["bufget:split-between-requested-keys"]++
					}
					p.mu.Unlock()
				}
			}}
		}
		return uni.Action{}
	}
	if c.Cmd != tikvrpc.CmdFlush {
		return uni.Action{}
	}
	n := p.nFlush
	p.nFlush++
	if p.s.LoseFrom >= 0 && n >= p.s.LoseFrom && !p.loseOver {
		p.counts["flush:lost-for-good"]++
		return uni.Action{Kind: uni.DropReq}
	}
	if n >= len(p.s.Faults) {
		p.counts["flush:pass"]++
		return uni.Action{}
	}
	f := p.s.Faults[n]
	switch f.Kind {
	case fHold:
		if p.release {
			p.counts["flush:pass"]++
			return uni.Action{}
		}
		p.counts["flush:hold"]++
		g := make(chan struct{})
		p.held = append(p.held, g)
		return uni.Action{Before: func() { <-g }}
	case fNotLeader:
		p.counts["flush:not-leader"]++
		return uni.Action{Kind: uni.RegionErr, RegErr: &errorpb.Error{Message: "injected", NotLeader: &errorpb.NotLeader{RegionId: c.RegionID}}}
	case fBusy:
		p.counts["flush:server-busy"]++
		return uni.Action{Kind: uni.RegionErr, RegErr: &errorpb.Error{Message: "injected", ServerIsBusy: &errorpb.ServerIsBusy{Reason: "verif"}}}
	case fSplit:
		k := []byte(f.SplitKey)
		return uni.Action{Before: func() {
			if p.u.SplitAt(k) {
				p.mu.Lock()
				p.counts["flush:split-at-rpc"]++
				p.mu.Unlock()
			}
		}}
	case fDropReq:
		p.counts["flush:drop-req"]++
		return uni.Action{Kind: uni.DropReq}
	case fDropResp:
		p.counts["flush:drop-resp"]++
		return uni.Action{Kind: uni.DropResp}
	}
	p.counts["flush:pass"]++
	return uni.Action{}
}

type ctxKey string

var ctxKindNames = []string{"background", "cancelled-after-return", "values+deadline-cancelled-after-return", "cancelled-during-call"}

// callCtx builds the context of one API call; done is to be called right after the call has returned.
func callCtx(kind int, id int) (ctx context.Context, cancel func()) {
	switch kind {
	case 1, 3:
		return context.WithCancel(context.Background())
	case 2:
		c := context.WithValue(context.Background(), ctxKey("verif-case"), id)
		c = context.WithValue(c, util.SessionID, uint64(id+1))
		c, cancel1 := context.WithTimeout(c, time.Hour)
		c, cancel2 := context.WithCancel(c)
		return c, func() { cancel2(); cancel1() }
	}
	return context.Background(), func() {}
}

// rollbackExpiredPrimary does what the resolver of another client does when it meets the primary lock after its
// ttl: CheckTxnStatus with a current ts far behind lock ts + ttl, which rolls the primary back.  It goes through
// the un-recorded truth store, so the RPC log of the owner stays the owner's.
func rollbackExpiredPrimary(u *uni.Universe, primary []byte, startTS uint64) error {
	if len(primary) == 0 {
		return errors.New("no primary")
	}
	st := u.TruthStore()
	cur := oracle.ComposeTS(oracle.ExtractPhysical(startTS)+24*3600*1000, 0)
	for attempt := 0; attempt < 20; attempt++ {
		bo := tikv.NewBackofferWithVars(context.Background(), 20000, nil)
		loc, err := st.GetRegionCache().LocateKey(bo, primary)
		if err != nil {
			return err
		}
		req := tikvrpc.NewRequest(tikvrpc.CmdCheckTxnStatus, &kvrpcpb.CheckTxnStatusRequest{PrimaryKey: primary, LockTs: startTS, CallerStartTs: cur, CurrentTs: cur, RollbackIfNotExist: true})
		resp, err := st.SendReq(bo, req, loc.Region, 10*time.Second)
		if err != nil {
			return err
		}
		if re, _ := resp.GetRegionError(); re != nil {
			continue
		}
		r, ok := resp.Resp.(*kvrpcpb.CheckTxnStatusResponse)
		if !ok || r == nil {
			return errors.New("unexpected response")
		}
		if r.Error != nil {
			return errors.Errorf("check txn status: %v", r.Error)
		}
		if r.Action != kvrpcpb.Action_TTLExpireRollback && r.Action != kvrpcpb.Action_LockNotExistRollback {
			return errors.Errorf("primary not rolled back: action %v commit %d", r.Action, r.CommitVersion)
		}
		return nil
	}
	return errors.New("region errors did not settle")
}

// router is the decider of the client: it hands every call to the plan of the transaction it belongs to, so
// that the faults on ResolveLock RPCs still apply when the resolution runs in the background of later cases.
type router struct {
	mu    sync.Mutex
	plans map[uint64]*plan
}

func (r *router) add(p *plan) {
	r.mu.Lock()
	r.plans[p.startTS] = p
	r.mu.Unlock()
}

func (r *router) decide(c *uni.Call) uni.Action {
	r.mu.Lock()
	p := r.plans[c.StartTS]
	r.mu.Unlock()
	if p == nil {
		return uni.Action{}
	}
	return p.decide(c)
}

func (p *plan) anyHeld() bool {
	p.mu.Lock()
	defer p.mu.Unlock()
	return len(p.held) > 0
}

// releaseAll lets every held Flush RPC go; with stay, later ones are not held either.
func (p *plan) releaseAll(stay bool) int {
	p.mu.Lock()
	defer p.mu.Unlock()
	n := len(p.held)
	for _, g := range p.held {
		close(g)
	}
	p.held = nil
	p.release = stay
	return n
}

func (p *plan) endRelease() {
	p.mu.Lock()
	p.release = false
	p.mu.Unlock()
}

// ---------------------------------------------------------------- model and case record

type mval struct {
	del bool
	v   string
}

type readRec struct {
	Step int    `json:"step"`
	Op   string `json:"op"`
	Key  string `json:"key"`
	Tier string `json:"tier"`
}

type caseRec struct {
	s         *spec
	startTS   uint64
	commitTS  uint64
	ended     string // commit | rollback
	endErr    string
	committed bool
	gens      []map[string]mval // model content of every triggered flush, in order
	confirmed int               // the first `confirmed` generations were reported successful
	latest    map[string]mval
	flushErr  string // first error reported by Flush/FlushWait to the driver
	aborted   string // driver could not finish the case (watchdog)
	// blocked: the call that did not return while nothing was in flight (decided by the caller after a re-run)
	blocked      string
	blockedState map[string]any
	flushErrBy   string         // flush | flushwait: the call that reported the flush error
	afterErr     map[string]int // blocking calls made after the flush error had been reported
	plan      *plan
	faults    map[string]int
	reads     map[string]int
	heldReleasedByWait, heldReleasedByStep int
	conflictCommitted bool
	ctxKinds          map[string]int
	lockLeftReported  bool
	undetermined      bool
	clientID          int
	splitsByDriver    int
	shape             []string
	splitsDone        []string
}

const grace = 3 * time.Millisecond

// quietWindow: how long a blocked call is watched with nothing in flight before the case is run again alone
// (with ten times this window).
const quietWindow = 4 * time.Second

var (
	blockedMu   sync.Mutex
	blockedSigs = map[string]bool{} // blocked states reported in this run, by call
	isoReruns   int
)

// housekeeping: RPCs that are sent periodically by background loops (the store's safe-ts updater; a ttl manager's
// heart beat and the fire-and-forget status broadcast that follows it) and whose results no call of the
// application waits for.
func housekeeping(cmd tikvrpc.CmdType) bool {
	return cmd == tikvrpc.CmdTxnHeartBeat || cmd == tikvrpc.CmdStoreSafeTS || cmd == tikvrpc.CmdBroadcastTxnStatus
}

func blockedEstablished(call string) bool {
	blockedMu.Lock()
	defer blockedMu.Unlock()
	return blockedSigs[call]
}

// goroutinesOfTxn returns the stacks of the goroutines that are inside a transaction's end or its pipelined buffer.
func goroutinesOfTxn() []string {
	buf := make([]byte, 4<<20)
	buf = buf[:runtime.Stack(buf, true)]
	var out []string
	for _, g := range strings.Split(string(buf), "\n\n") {
		if (strings.Contains(g, "PipelinedMemDB") || strings.Contains(g, "KVTxn).Rollback") || strings.Contains(g, "KVTxn).Commit")) && len(out) < 8 {
			if len(g) > 2500 {
				g = g[:2500]
			}
			out = append(out, g)
		}
	}
	return out
}

type viol struct {
	sig, msg string
	detail   map[string]any
}

// runCase drives one pipelined transaction; violations of the read/error oracles are returned at once,
// the wire and truth oracles run after the universe has drained.
func runCase(u *uni.Universe, rt *router, c, c2 *uni.ClientStore, s *spec, iso bool) (rec *caseRec, vs []viol) {
	rec = &caseRec{s: s, latest: map[string]mval{}, reads: map[string]int{}, ctxKinds: map[string]int{}, afterErr: map[string]int{}}
	ctx := context.Background()
	addViol := func(step int, sig, format string, a ...any) {
		vs = append(vs, viol{sig: sig, msg: fmt.Sprintf("case %d (%s) step %d: ", s.ID, s.Shape, step) + fmt.Sprintf(format, a...),
			detail: map[string]any{"spec": s, "steps": s.stepStrings(), "failed_step": step, "start_ts": rec.startTS}})
	}
	// layout and base data
	for _, k := range s.Splits {
		if u.SplitAt([]byte(k)) {
			rec.splitsDone = append(rec.splitsDone, k)
		}
	}
	if len(s.Base) > 0 {
		bt, err := c2.Begin()
		if err != nil {
			rec.aborted = "begin base: " + err.Error()
			return
		}
		for k, v := range s.Base {
			_ = bt.Set([]byte(k), []byte(v))
		}
		if err := bt.Commit(ctx); err != nil {
			rec.aborted = "commit base: " + err.Error()
			return
		}
	}
	_ = failpoint.Enable("tikvclient/pipelinedMemDBMinFlushKeys", fmt.Sprintf("return(%d)", s.MinKeys))
	_ = failpoint.Enable("tikvclient/pipelinedMemDBMinFlushSize", fmt.Sprintf("return(%d)", s.MinSize))
	_ = failpoint.Enable("tikvclient/pipelinedMemDBForceFlushSizeThreshold", fmt.Sprintf("return(%d)", s.ForceSize))
	p := &plan{u: u, s: s, counts: map[string]int{}}
	rec.plan = p
	defer p.releaseAll(true)
	txn, err := c.Begin(tikv.WithPipelinedTxn(s.FlushConc, s.ResolveConc, 0))
	if err != nil {
		rec.aborted = "begin: " + err.Error()
		return
	}
	rec.startTS = txn.StartTS()
	rec.clientID = c.ID
	p.mu.Lock()
	p.startTS = rec.startTS
	p.mu.Unlock()
	rt.add(p)
	if s.ConflictKey != "" {
		// another transaction commits a key after our start ts: flushing that key must fail
		ct, err := c2.Begin()
		if err == nil {
			_ = ct.Set([]byte(s.ConflictKey), []byte(fmt.Sprintf("conflict%d", s.ID)))
			if err = ct.Commit(ctx); err == nil {
				rec.conflictCommitted = true
			}
		}
	}

	mutable := map[string]mval{}
	inBufferGen := -1 // index of the generation the buffer still keeps as "flushing" (-1 none)
	tierOf := func(k string) (mval, string) {
		if v, ok := mutable[k]; ok {
			return v, "mutable"
		}
		if v, ok := rec.latest[k]; ok {
			if inBufferGen >= 0 {
				if _, in := rec.gens[inBufferGen][k]; in {
					if p.anyHeld() {
						return v, "flushing-held"
					}
					return v, "flushing"
				}
			}
			return v, "flushed"
		}
		return mval{}, "snapshot"
	}
	// activity: the driver's bookkeeping over the RPC log since the case began - RPCs of the client under test
	// (housekeeping aside) sent so far, and Flush RPCs of this transaction entered / left.
	logFrom := u.Log.Len()
	activity := func() (sent, flushEntered, flushLeft int) {
		for _, cl := range u.Log.CallsFrom(logFrom) {
			if cl.Client != c.ID || housekeeping(cl.Cmd) {
				continue
			}
			sent++
			if cl.Cmd == tikvrpc.CmdFlush && cl.StartTS == rec.startTS {
				flushEntered++
				if cl.RetSeq != 0 {
					flushLeft++
				}
			}
		}
		return
	}
	lastCalls := func() (out []string) {
		cs := u.Log.CallsFrom(logFrom)
		for i := len(cs) - 1; i >= 0 && len(out) < 8; i-- {
			if housekeeping(cs[i].Cmd) {
				continue
			}
			out = append(out, fmt.Sprintf("#%d c%d %s ts=%d ret=%d", cs[i].Seq, cs[i].Client, cs[i].Cmd, cs[i].StartTS, cs[i].RetSeq))
		}
		return
	}
	// blocking runs a call that may wait for a flush; held Flush RPCs are released when it does not return by itself.
	//
	// Bounded progress: when the call has not returned although every hold has been released, no RPC of the
	// client is in flight and none has been sent for a whole window, nothing is left that could make it return.
	// The first sighting only makes the caller run the case again alone with a ten-fold window (iso).
	blocking := func(name string, call func()) bool {
		if rec.flushErr != "" {
			rec.afterErr[name]++
		}
		done := make(chan struct{})
		go func() { defer close(done); call() }()
		select {
		case <-done:
			return true
		case <-time.After(grace):
		}
		// the call waits: for a flush whose RPC is held, or for RPCs it sends itself (they must not be held either)
		rec.heldReleasedByWait += p.releaseAll(true)
		window := quietWindow
		switch {
		case iso:
			window *= 10
		case blockedEstablished(name):
			window /= 10 // judged already in this run: do not spend the window on every case that gets there
		}
		start := time.Now()
		var quietSince time.Time
		lastSent := -1
		for {
			select {
			case <-done:
				p.endRelease()
				return true
			case <-time.After(50 * time.Millisecond):
			}
			sent, fe, fl := activity()
			if c.Net.Inflight() == 0 && fe == fl && sent == lastSent && !p.anyHeld() {
				if quietSince.IsZero() {
					quietSince = time.Now()
				}
			} else {
				quietSince = time.Time{}
			}
			lastSent = sent
			if !quietSince.IsZero() && time.Since(quietSince) >= window {
				rec.blocked = name
				rec.blockedState = map[string]any{"call": name, "rpcs_of_the_client_in_flight": 0, "flush_rpcs_of_the_txn_entered": fe, "flush_rpcs_of_the_txn_left": fl, "injected_holds_open": 0,
					"rpcs_sent_during_window": 0, "window": window.String(), "blocked_for": time.Since(start).String(), "flush_error_reported_before": rec.flushErr, "reported_by": rec.flushErrBy, "goroutines": goroutinesOfTxn()}
				rec.aborted = fmt.Sprintf("%s has not returned for %v although every held Flush RPC was released, no RPC of the client is in flight (Flush RPCs of the transaction entered %d, left %d) and none was sent for %v", name, time.Since(start).Round(time.Millisecond), fe, fl, window)
				return false
			}
			if time.Since(start) > 90*time.Second+10*window {
				rec.aborted = fmt.Sprintf("a blocking call (%s) did not return within 90 s after every held Flush RPC was released (watchdog); at that time: RPCs of the client in flight %d, sent since the case began %d, Flush RPCs of the transaction entered %d left %d, holds open %v; last RPCs %v", name, c.Net.Inflight(), sent, fe, fl, p.anyHeld(), lastCalls())
				return false
			}
		}
	}
	expectRead := func(k string) (want string, present bool, tier string) {
		w, tier := tierOf(k)
		if tier == "snapshot" {
			v, ok := s.Base[k]
			return v, ok, tier
		}
		if w.del {
			return "", false, tier + "-del"
		}
		return w.v, true, tier
	}

	stepNo := 0
loop:
	for i, st := range s.Steps {
		stepNo = i
		switch st.Op {
		case "set":
			if err := txn.Set([]byte(st.Key), []byte(st.Val)); err != nil {
				addViol(i, "write:error", "Set failed: %v", err)
				break loop
			}
			mutable[st.Key] = mval{v: st.Val}
			rec.latest[st.Key] = mval{v: st.Val}
			rec.shape = append(rec.shape, "set")
		case "del":
			if err := txn.Delete([]byte(st.Key)); err != nil {
				addViol(i, "write:error", "Delete failed: %v", err)
				break loop
			}
			mutable[st.Key] = mval{del: true}
			rec.latest[st.Key] = mval{del: true}
			rec.shape = append(rec.shape, "del")
		case "get":
			want, present, tier := expectRead(st.Key)
			cctx, done := callCtx(st.Ctx, s.ID)
			got, err := txn.Get(cctx, []byte(st.Key))
			done()
			rec.ctxKinds["get:"+ctxKindNames[st.Ctx]]++
			rec.reads["get:"+tier]++
			rec.shape = append(rec.shape, "get:"+tier)
			switch {
			case err != nil && !tikverr.IsErrNotFound(err):
				addViol(i, "read:get:error:tier="+tier, "Get(%q) failed: %T: %v", st.Key, err, err)
			case present && err != nil:
				addViol(i, "read:get:tier="+tier+":missing", "Get(%q) reports the key as missing, want %q (tier %s)", st.Key, short(want), tier)
			case present && !bytes.Equal(got.Value, []byte(want)):
				addViol(i, "read:get:tier="+tier+":wrong-value", "Get(%q) = %q, want %q (tier %s)", st.Key, short(string(got.Value)), short(want), tier)
			case !present && err == nil:
				addViol(i, "read:get:tier="+tier+":value-for-missing-key", "Get(%q) = %q, want not found (tier %s)", st.Key, short(string(got.Value)), tier)
			}
		case "bget":
			var ks [][]byte
			for _, k := range st.Keys {
				ks = append(ks, []byte(k))
			}
			cctx, done := callCtx(st.Ctx, s.ID)
			got, err := txn.BatchGet(cctx, ks)
			done()
			rec.ctxKinds["bget:"+ctxKindNames[st.Ctx]]++
			if err != nil {
				addViol(i, "read:bget:error", "BatchGet(%q) failed: %T: %v", st.Keys, err, err)
				continue
			}
			sh := "bget"
			for _, k := range st.Keys {
				want, present, tier := expectRead(k)
				rec.reads["bget:"+tier]++
				sh += ":" + tier
				e, ok := got[k]
				switch {
				case present && !ok:
					addViol(i, "read:bget:tier="+tier+":missing", "BatchGet(%q) has no entry for %q, want %q (tier %s)", st.Keys, k, short(want), tier)
				case present && !bytes.Equal(e.Value, []byte(want)):
					addViol(i, "read:bget:tier="+tier+":wrong-value", "BatchGet(%q)[%q] = %q, want %q (tier %s)", st.Keys, k, short(string(e.Value)), short(want), tier)
				case !present && ok:
					addViol(i, "read:bget:tier="+tier+":value-for-missing-key", "BatchGet(%q)[%q] = %q, want no entry (tier %s)", st.Keys, k, short(string(e.Value)), tier)
				}
			}
			rec.shape = append(rec.shape, sh)
		case "split":
			// behind the back of the client's region cache
			if u.SplitAt([]byte(st.Key)) {
				rec.splitsByDriver++
				rec.shape = append(rec.shape, "split")
			}
		case "release":
			if n := p.releaseAll(false); n > 0 {
				rec.heldReleasedByStep += n
				rec.shape = append(rec.shape, "release")
			}
		case "flush":
			var trig bool
			var ferr error
			if !blocking("flush", func() { trig, ferr = txn.GetMemBuffer().Flush(st.Force) }) {
				return
			}
			if ferr != nil {
				rec.flushErr = fmt.Sprintf("%T: %v", ferr, ferr)
				rec.flushErrBy = "flush"
				rec.shape = append(rec.shape, "flush:error")
				break loop
			}
			if !trig {
				rec.shape = append(rec.shape, "flush:no")
				continue
			}
			// a new generation was started: every earlier one has been reported successful
			rec.confirmed = len(rec.gens)
			rec.gens = append(rec.gens, mutable)
			inBufferGen = len(rec.gens) - 1
			mutable = map[string]mval{}
			rec.shape = append(rec.shape, fmt.Sprintf("flush:%s", map[bool]string{true: "force", false: "threshold"}[st.Force]))
		case "flushwait":
			var ferr error
			if !blocking("flushwait", func() { ferr = txn.GetMemBuffer().FlushWait() }) {
				return
			}
			if ferr != nil {
				rec.flushErr = fmt.Sprintf("%T: %v", ferr, ferr)
				rec.flushErrBy = "flushwait"
				rec.shape = append(rec.shape, "flushwait:error")
				break loop
			}
			rec.confirmed = len(rec.gens)
			inBufferGen = -1
			rec.shape = append(rec.shape, "flushwait")
		}
	}
	_ = stepNo
	if rec.flushErr != "" && s.LoseUntilError {
		p.mu.Lock()
		p.loseOver = true
		p.mu.Unlock()
	}
	if rec.flushErr != "" && s.AfterFlushErr == "flushwait" {
		// the application waits once more before it ends the transaction (its result does not matter any more)
		if !blocking("flushwait", func() { _ = txn.GetMemBuffer().FlushWait() }) {
			return
		}
		rec.shape = append(rec.shape, "flushwait:after-error")
	}
	// end of the transaction
	rec.ended = s.End
	if s.End == "commit" {
		var cerr error
		// Commit flushes what is left in the mutable buffer as one more generation
		rec.gens = append(rec.gens, mutable)
		if s.CommitFault == "failpoint" {
			_ = failpoint.Enable("tikvclient/pipelinedCommitFail", "return")
			p.mu.Lock()
			p.counts["commit:failpoint-after-commit-ts"]++
			p.mu.Unlock()
		}
		cctx, done := callCtx(s.CommitCtx, s.ID)
		if s.CommitCtx == 3 {
			p.mu.Lock()
			p.cancelAtCommit = done
			p.mu.Unlock()
		}
		ok := blocking("commit", func() { cerr = txn.Commit(cctx); done() })
		rec.ctxKinds["commit:"+ctxKindNames[s.CommitCtx]]++
		if s.CommitFault == "failpoint" {
			_ = failpoint.Disable("tikvclient/pipelinedCommitFail")
		}
		if !ok {
			return
		}
		if cerr != nil && (errors.Is(cerr, tikverr.ErrResultUndetermined) || errors.Cause(cerr) == tikverr.ErrResultUndetermined) {
			rec.undetermined = true
			p.mu.Lock()
			lost := p.commitRequestLost || p.cancelledDuring
			p.mu.Unlock()
			if !lost {
				addViol(len(s.Steps), "error:undetermined-without-lost-commit-request", "Commit returned %v although no request of the commit point was lost", cerr)
			}
		}
		if cerr == nil {
			rec.committed = true
			rec.commitTS = txn.CommitTS()
			rec.confirmed = len(rec.gens)
			if rec.flushErr != "" {
				addViol(len(s.Steps), "error:commit-succeeds-after-flush-error", "Flush/FlushWait had reported %q but Commit returned nil", rec.flushErr)
			}
		} else {
			rec.endErr = fmt.Sprintf("%T: %v", cerr, cerr)
		}
		rec.shape = append(rec.shape, fmt.Sprintf("commit:ok=%v", cerr == nil))
	} else {
		var rerr error
		if !blocking("rollback", func() { rerr = txn.Rollback() }) {
			return
		}
		if rerr != nil {
			rec.endErr = fmt.Sprintf("%T: %v", rerr, rerr)
		}
		rec.shape = append(rec.shape, "rollback")
	}
	return
}

// ---------------------------------------------------------------- offline oracles (after drain)

func mutVal(m *kvrpcpb.Mutation) (mval, bool) {
	switch m.Op {
	case kvrpcpb.Op_Put, kvrpcpb.Op_Insert:
		return mval{v: string(m.Value)}, true
	case kvrpcpb.Op_Del:
		return mval{del: true}, true
	}
	return mval{}, false
}

func fmtGen(m map[string]mval) string {
	var ks []string
	for k := range m {
		ks = append(ks, k)
	}
	sort.Strings(ks)
	var sb strings.Builder
	sb.WriteString("{")
	for i, k := range ks {
		if i > 0 {
			sb.WriteString(" ")
		}
		if m[k].del {
			fmt.Fprintf(&sb, "%q:DEL", k)
		} else {
			fmt.Fprintf(&sb, "%q:%s", k, short(m[k].v))
		}
	}
	return sb.String() + "}"
}

type wireStats struct {
	flushRPCs, applied, generations, retriedGenerations int
	ownerResolves, ownerResolvesRollback                int
	commitRPCs                                          int
}

// checkWire evaluates the wire oracle over the Flush RPCs of the transaction.
func checkWire(rec *caseRec, calls []uni.Call) (vs []viol, st wireStats) {
	s := rec.s
	add := func(sig, format string, a ...any) {
		var lines []string
		for _, c := range calls {
			if c.Cmd == tikvrpc.CmdFlush && c.StartTS == rec.startTS && len(lines) < 60 {
				r := c.Req.(*kvrpcpb.FlushRequest)
				var ms []string
				for _, m := range r.Mutations {
					ms = append(ms, fmt.Sprintf("%s %q=%s", m.Op, m.Key, short(string(m.Value))))
				}
				lines = append(lines, fmt.Sprintf("#%d..%d gen=%d region=%d ver=%d %s err=%q regErr=%v delivered=%v [%s]", c.Seq, c.RetSeq, r.Generation, c.RegionID, c.RegionVer, c.Action, c.Err, c.RegionErr != nil, c.Delivered, strings.Join(ms, ", ")))
			}
		}
		for _, c := range calls {
			if c.StartTS == rec.startTS && (c.Cmd == tikvrpc.CmdCommit || c.Cmd == tikvrpc.CmdResolveLock) && len(lines) < 90 {
				lines = append(lines, fmt.Sprintf("#%d..%d c%d %s region=%d %s err=%q regErr=%v :: %.160v => %.120v", c.Seq, c.RetSeq, c.Client, c.Cmd, c.RegionID, c.Action, c.Err, c.RegionErr != nil, c.Req, c.Resp))
			}
		}
		var gens []string
		for _, g := range rec.gens {
			gens = append(gens, fmtGen(g))
		}
		vs = append(vs, viol{sig: sig, msg: fmt.Sprintf("case %d (%s): ", s.ID, s.Shape) + fmt.Sprintf(format, a...),
			detail: map[string]any{"spec": s, "steps": s.stepStrings(), "start_ts": rec.startTS, "flush_rpcs": lines, "model_generations": gens, "confirmed_generations": rec.confirmed, "observed": rec.shape}})
	}
	type wgen struct {
		gen              uint64
		firstSeq, maxRet int64
		open             bool
		applied          map[string]mval
		calls            int
	}
	var order []*wgen
	byGen := map[uint64]*wgen{}
	for i := range calls {
		c := &calls[i]
		if c.Cmd != tikvrpc.CmdFlush || c.StartTS != rec.startTS {
			continue
		}
		r, ok := c.Req.(*kvrpcpb.FlushRequest)
		if !ok {
			continue
		}
		st.flushRPCs++
		g := byGen[r.Generation]
		if g == nil {
			g = &wgen{gen: r.Generation, firstSeq: c.Seq, applied: map[string]mval{}}
			byGen[r.Generation] = g
			order = append(order, g)
		}
		g.calls++
		if c.RetSeq == 0 {
			g.open = true
		} else if c.RetSeq > g.maxRet {
			g.maxRet = c.RetSeq
		}
		applied := c.Delivered
		if resp, ok := c.Resp.(*kvrpcpb.FlushResponse); ok && resp != nil && len(resp.Errors) > 0 {
			applied = false
		}
		if c.Resp == nil && c.Action != "drop-resp" {
			applied = false
		}
		if applied {
			st.applied++
			for _, m := range r.Mutations {
				if v, ok := mutVal(m); ok {
					g.applied[string(m.Key)] = v
				}
			}
		}
	}
	st.generations = len(order)
	// model generations that must have produced RPCs: the non-empty ones
	var model []map[string]mval
	var modelIdx []int
	for i, g := range rec.gens {
		if len(g) > 0 {
			model = append(model, g)
			modelIdx = append(modelIdx, i)
		}
	}
	for i, g := range order {
		if g.calls > 1 {
			st.retriedGenerations++
		}
		if i > 0 {
			prev := order[i-1]
			if g.gen <= prev.gen {
				add("wire:generation-not-increasing", "Flush requests of generation %d were first sent (#%d) after those of generation %d (#%d)", g.gen, g.firstSeq, prev.gen, prev.firstSeq)
			}
			if prev.open || prev.maxRet > g.firstSeq {
				add("wire:two-generations-in-flight", "the first Flush request of generation %d was sent at #%d while a request of generation %d was still in flight (returned at #%d, open=%v)", g.gen, g.firstSeq, prev.gen, prev.maxRet, prev.open)
			}
		}
		if i >= len(model) {
			add("wire:unexpected-generation", "Flush requests of a %d-th generation (number %d) were sent, the transaction triggered %d non-empty flushes; applied mutations %s", i+1, g.gen, len(model), fmtGen(g.applied))
			continue
		}
		want := model[i]
		for k, v := range g.applied {
			w, ok := want[k]
			switch {
			case !ok:
				add("wire:mutation-in-wrong-generation", "generation %d (the %d-th flush) carried key %q (%s), which was not written between the previous flush and this one; expected content %s", g.gen, i+1, k, fmtGen(map[string]mval{k: v}), fmtGen(want))
			case w != v:
				add("wire:mutation-wrong-value", "generation %d carried %s, the buffered write is %s", g.gen, fmtGen(map[string]mval{k: v}), fmtGen(map[string]mval{k: w}))
			}
		}
		if modelIdx[i] < rec.confirmed {
			for k, w := range want {
				if _, ok := g.applied[k]; !ok {
					what := "put"
					if w.del {
						what = "deletion"
					}
					add("wire:mutation-never-flushed:"+what, "the %d-th flush (generation %d) was reported successful but no applied Flush request carried %s; applied: %s", i+1, g.gen, fmtGen(map[string]mval{k: w}), fmtGen(g.applied))
				}
			}
		}
	}
	for i := len(order); i < len(model); i++ {
		if modelIdx[i] < rec.confirmed {
			add("wire:generation-never-sent", "the %d-th non-empty flush %s was reported successful but no Flush request of it was sent", i+1, fmtGen(model[i]))
		}
	}
	// A Commit request of the primary that got no answer (transport error, cancelled while in flight) leaves the
	// outcome open: if it was the last word on the commit point, Commit must say "undetermined", not a plain error.
	var lastCommit *uni.Call
	for i := range calls {
		c := &calls[i]
		if c.Client == rec.clientID && c.StartTS == rec.startTS && c.Cmd == tikvrpc.CmdCommit {
			lastCommit = c
		}
	}
	if lastCommit != nil {
		st.commitRPCs++
		if lastCommit.Err != "" && rec.ended == "commit" && !rec.committed && !rec.undetermined {
			add("error:plain-error-although-commit-request-unanswered", "the last Commit request of the primary (#%d, %s, delivered=%v) ended with transport error %q, so the outcome is unknown to the client; Commit() returned the plain error %q instead of ErrResultUndetermined", lastCommit.Seq, lastCommit.Action, lastCommit.Delivered, lastCommit.Err, rec.endErr)
		}
	}
	// The owner resolves its flushed locks to the outcome decided on the primary: a ResolveLock request of the
	// owner for its own start ts carries commit_version 0 unless a Commit request of the primary had succeeded
	// before it was sent, and then exactly that commit ts.
	var primaryCommitTS uint64
	var primaryCommitRet int64
	for i := range calls {
		c := &calls[i]
		if c.Client != rec.clientID || c.StartTS != rec.startTS {
			continue
		}
		switch c.Cmd {
		case tikvrpc.CmdCommit:
			if r, ok := c.Req.(*kvrpcpb.CommitRequest); ok && c.Delivered && primaryCommitTS == 0 {
				if resp, ok := c.Resp.(*kvrpcpb.CommitResponse); ok && resp != nil && resp.Error == nil {
					primaryCommitTS, primaryCommitRet = r.CommitVersion, c.RetSeq
				}
			}
		case tikvrpc.CmdResolveLock:
			r, ok := c.Req.(*kvrpcpb.ResolveLockRequest)
			if !ok {
				continue
			}
			st.ownerResolves++
			if r.CommitVersion == 0 {
				st.ownerResolvesRollback++
				continue
			}
			switch {
			case primaryCommitTS == 0 || primaryCommitRet == 0 || primaryCommitRet > c.Seq:
				add("wire:owner-resolve-commits-without-committed-primary", "the owner sent ResolveLock #%d with commit_version %d for its own transaction, but no Commit request of the primary had succeeded (Commit() returned %q)", c.Seq, r.CommitVersion, rec.endErr)
			case r.CommitVersion != primaryCommitTS:
				add("wire:owner-resolve-commit-ts-differs-from-primary", "the owner sent ResolveLock #%d with commit_version %d, the primary was committed at %d", c.Seq, r.CommitVersion, primaryCommitTS)
			}
		}
	}
	return
}

// truthViol evaluates the truth oracle of one case; leftover reports whether it found locks of the
// transaction (re-checked by the caller with a larger bound before it counts).
// phase 1 = after the drain, before anybody else touched the keys: leftover locks only.  phase 2 = after the
// clock has passed every ttl and an observer has read (and thereby resolved) every key: versions, and locks
// that are still there.
func checkTruth(rec *caseRec, truth *uni.Truth, locks []uni.LockRec, calls []uni.Call, phase int) (vs []viol, lockLeft bool) {
	s := rec.s
	add := func(sig, format string, a ...any) {
		var lines []string
		for _, c := range calls {
			if c.StartTS == rec.startTS && (c.Cmd == tikvrpc.CmdResolveLock || c.Cmd == tikvrpc.CmdCommit || c.Cmd == tikvrpc.CmdFlush) && len(lines) < 60 {
				lines = append(lines, fmt.Sprintf("#%d..%d %s region=%d ver=%d %s err=%q regErr=%v :: %.200v", c.Seq, c.RetSeq, c.Cmd, c.RegionID, c.RegionVer, c.Action, c.Err, c.RegionErr != nil, c.Req))
			}
		}
		tr := map[string]string{}
		for _, k := range s.Keys {
			if kt := truth.Keys[k]; kt != nil {
				tr[k] = fmt.Sprintf("lock=%+v writes=%+v", kt.Lock, kt.Writes)
			}
		}
		vs = append(vs, viol{sig: sig, msg: fmt.Sprintf("case %d (%s, end=%s): ", s.ID, s.Shape, rec.ended) + fmt.Sprintf(format, a...),
			detail: map[string]any{"spec": s, "steps": s.stepStrings(), "start_ts": rec.startTS, "commit_ts": rec.commitTS, "end_error": rec.endErr, "flush_error": rec.flushErr, "region_splits_before_txn": rec.splitsDone, "rpcs": lines, "truth": tr, "observed": rec.shape}})
	}
	// the outcome decided on the primary
	var primaryCommitTS uint64
	for _, c := range calls {
		if c.Cmd == tikvrpc.CmdCommit && c.StartTS == rec.startTS && c.Delivered {
			if r, ok := c.Req.(*kvrpcpb.CommitRequest); ok {
				if resp, ok := c.Resp.(*kvrpcpb.CommitResponse); ok && resp != nil && resp.Error == nil {
					primaryCommitTS = r.CommitVersion
				}
			}
		}
	}
	// which keys carry flushed locks: for the signature of a leftover
	flushed := map[string]bool{}
	for _, c := range calls {
		if c.Cmd == tikvrpc.CmdFlush && c.StartTS == rec.startTS && c.Delivered {
			for _, m := range c.Req.(*kvrpcpb.FlushRequest).Mutations {
				flushed[string(m.Key)] = true
			}
		}
	}
	maxF := ""
	for k := range flushed {
		if k > maxF {
			maxF = k
		}
	}
	after := "rollback"
	if rec.ended == "commit" {
		after = "commit"
		if !rec.committed {
			after = "failed-commit"
		}
		if rec.undetermined {
			after = "undetermined-commit"
		}
	}
	// an undetermined answer allows both outcomes, but only all or nothing
	committed := rec.committed
	if rec.undetermined {
		committed = primaryCommitTS != 0
		for _, k := range s.Keys {
			if kt := truth.Keys[k]; kt != nil && kt.WriteOf(rec.startTS) != nil {
				committed = true
			}
		}
	}
	var left []string
	for _, l := range locks {
		if l.StartTS == rec.startTS {
			left = append(left, string(l.Key))
		}
	}
	for _, k := range s.Keys {
		if kt := truth.Keys[k]; kt != nil && kt.Lock != nil && kt.Lock.StartTS == rec.startTS {
			found := false
			for _, x := range left {
				found = found || x == k
			}
			if !found {
				left = append(left, k)
			}
		}
	}
	if phase == 1 && rec.undetermined {
		// the owner cannot know the outcome and must not clean up: the locks stay until their ttl has passed and
		// somebody resolves them through the primary (phase 2)
		left = nil
	}
	if len(left) > 0 && (phase == 1 || !rec.lockLeftReported) {
		lockLeft = true
		sort.Strings(left)
		shape := "other"
		switch {
		case len(flushed) == 1:
			shape = "single-flushed-key"
		case len(left) == 1 && left[0] == maxF:
			shape = "largest-flushed-key"
		}
		add("truth:lock-left:after="+after+":"+shape, "after %s and drain the transaction (start ts %d) still holds locks on %q; flushed keys %d, largest %q", after, rec.startTS, left, len(flushed), maxF)
	}
	if phase == 1 {
		rec.lockLeftReported = lockLeft
		return
	}
	if committed {
		if primaryCommitTS == 0 && len(rec.latest) > 0 {
			add("truth:commit-without-primary-commit", "Commit returned nil but no successful Commit request of the primary was recorded")
		}
		for _, k := range s.Keys {
			kt := truth.Keys[k]
			w, wrote := rec.latest[k]
			var wr *uni.Write
			if kt != nil {
				wr = kt.WriteOf(rec.startTS)
			}
			if !wrote {
				if wr != nil {
					add("truth:version-of-unwritten-key", "key %q was never written but carries a version of the transaction: %+v", k, *wr)
				}
				continue
			}
			if wr == nil {
				if kt != nil && kt.Lock != nil && kt.Lock.StartTS == rec.startTS {
					continue // reported as a leftover lock above
				}
				what := "put"
				if w.del {
					what = "deletion"
				}
				add("truth:write-lost:"+what, "Commit returned nil but key %q carries no version of the transaction (latest write %s)", k, fmtGen(map[string]mval{k: w}))
				continue
			}
			switch {
			case w.del && wr.Type != kvrpcpb.Op_Del:
				add("truth:wrong-version", "key %q: latest write is a deletion, the committed record is %s %q", k, wr.Type, short(string(wr.Value)))
			case !w.del && (wr.Type != kvrpcpb.Op_Put || string(wr.Value) != w.v):
				add("truth:wrong-version", "key %q: latest write is %q, the committed record is %s %q", k, short(w.v), wr.Type, short(string(wr.Value)))
			}
			if primaryCommitTS != 0 && wr.CommitTS != primaryCommitTS {
				add("truth:commit-ts-differs-from-primary", "key %q was committed at %d, the primary at %d", k, wr.CommitTS, primaryCommitTS)
			}
		}
	} else {
		for _, k := range s.Keys {
			if kt := truth.Keys[k]; kt != nil {
				if wr := kt.WriteOf(rec.startTS); wr != nil {
					add("truth:version-visible:after="+after, "the transaction did not commit (%s %s) but key %q carries its version %+v", rec.ended, rec.endErr, k, *wr)
				}
			}
		}
		if primaryCommitTS != 0 {
			add("truth:primary-committed:after="+after, "the transaction did not commit (%s %s) but a Commit request of the primary succeeded at %d", rec.ended, rec.endErr, primaryCommitTS)
		}
	}
	return
}

// ---------------------------------------------------------------- test

// answerClause reports whether a violation belongs to the truthfulness of Commit's answer (property C03 applied
// to the pipelined commit mode); those are also handed to the C03 report riding on this workload.
func answerClause(sig string) bool {
	for _, p := range []string{
		"error:plain-error-although-commit-request-unanswered",
		"error:undetermined-without-lost-commit-request",
		"truth:primary-committed:after=failed-commit",
		"truth:version-visible:after=failed-commit",
		"observer:value-of-uncommitted-txn-visible:after=commit",
		// nil => committed everywhere, with one commit ts
		"truth:write-lost:", "truth:wrong-version", "truth:commit-without-primary-commit", "truth:commit-ts-differs-from-primary",
		"truth:version-of-unwritten-key",
	} {
		if strings.HasPrefix(sig, p) {
			return true
		}
	}
	return false
}

// failureFreeEnd reports whether the end of the transaction was failure-free in the sense of C06: Commit returned
// nil or a definite error, or Rollback was called, and no request or response of the transaction was lost (region
// errors, splits, held requests, a resolver of another client and an injected definite failure are not losses).
func failureFreeEnd(rec *caseRec) bool {
	if rec.undetermined || rec.ended == "" {
		return false
	}
	rec.plan.mu.Lock()
	defer rec.plan.mu.Unlock()
	if rec.plan.commitRequestLost || rec.plan.cancelledDuring {
		return false
	}
	for k, n := range rec.plan.counts {
		if n > 0 && (strings.Contains(k, "drop-") || strings.Contains(k, "lost")) {
			return false
		}
	}
	return true
}

// rerunIsolated runs one case alone in a fresh universe with the ten-fold observation window.
func rerunIsolated(s *spec) (*caseRec, error) {
	u, err := uni.New(uni.Uni, 1)
	if err != nil {
		return nil, err
	}
	defer u.Close()
	c, err := u.NewClient()
	if err != nil {
		return nil, err
	}
	c2, err := u.NewClient()
	if err != nil {
		return nil, err
	}
	rt := &router{plans: map[uint64]*plan{}}
	c.Net.SetDecider(rt.decide)
	rec, _ := runCase(u, rt, c, c2, s, true)
	if s.CommitFault == "failpoint" {
		_ = failpoint.Disable("tikvclient/pipelinedCommitFail")
	}
	return rec, nil
}

func runUniverse(t *testing.T, r, ar, lr *vrep.Report, rng *rand.Rand, uniNo, nCases int, firstID int) {
	violate := func(sig, msg string, detail any) {
		r.Violate("e2e:"+sig, msg, detail)
		if answerClause(sig) {
			ar.Violate("pipelined:"+sig, msg, detail)
		}
	}
	u, err := uni.New(uni.Uni, 1)
	if err != nil {
		r.Inconc("universe: %v", err)
		return
	}
	defer u.Close()
	c, err := u.NewClient()
	if err != nil {
		r.Inconc("client: %v", err)
		return
	}
	c2, err := u.NewClient()
	if err != nil {
		r.Inconc("client: %v", err)
		return
	}
	rt := &router{plans: map[uint64]*plan{}}
	c.Net.SetDecider(rt.decide)
	prefixes := rng.Perm(nCases)
	var recs []*caseRec
	t0 := time.Now()
	nExtra := vrep.Pick(60, 120)
	ffRng := vrep.Rand(fmt.Sprintf("c16-e2e-flush-fails-%d", uniNo))
	for i := 0; i < nCases+nExtra; i++ {
		var s *spec
		if i < nCases {
			s = gen(rng, firstID+i, prefixes[i])
		} else {
			s = genFlushFails(ffRng, 100000+uniNo*1000+(i-nCases), i)
		}
		s.AfterFlushErr = afterFlushErr(s.ID)
		rec, vs := runCase(u, rt, c, c2, s, false)
		for _, v := range vs {
			violate(v.sig, v.msg, v.detail)
		}
		for k, n := range rec.afterErr {
			r.Count("call_after_flush_error_reported_by:"+rec.flushErrBy+":"+k, n)
			r.Eval(n)
		}
		if rec.blocked != "" {
			// The transaction is stuck in a state in which nothing can wake it up; its goroutine is abandoned, the
			// other cases go on (its keys are its own).  It counts once it is blocked again, alone, ten times as long.
			r.Count("cases_blocked_with_nothing_in_flight", 1)
			sig := "blocked:" + rec.blocked + ":no-flush-in-flight"
			blockedMu.Lock()
			known := blockedSigs[rec.blocked]
			again := !known && isoReruns < 3
			if again {
				isoReruns++
			}
			blockedMu.Unlock()
			switch {
			case known:
				r.Count("cases_blocked_in_a_state_already_reported", 1)
			case !again:
				r.Inconc("case %d: %s (not run again: three re-runs spent)", s.ID, rec.aborted)
			default:
				rec2, err := rerunIsolated(s)
				switch {
				case err != nil:
					r.Inconc("case %d: %s; re-run in isolation failed: %v", s.ID, rec.aborted, err)
				case rec2.blocked == rec.blocked:
					blockedMu.Lock()
					blockedSigs[rec.blocked] = true
					blockedMu.Unlock()
					violate(sig, fmt.Sprintf("case %d (%s, end=%s): %s; run again alone in a fresh universe: %s", s.ID, s.Shape, s.End, rec.aborted, rec2.aborted),
						map[string]any{"spec": s, "steps": s.stepStrings(), "start_ts": rec.startTS, "observed": rec.shape, "observed_in_isolation": rec2.shape,
							"flush_error": rec.flushErr, "blocked_state": rec.blockedState, "blocked_state_in_isolation": rec2.blockedState})
				default:
					r.Inconc("case %d: %s; not reproduced when run again alone (there: blocked=%q aborted=%q trace %v)", s.ID, rec.aborted, rec2.blocked, rec2.aborted, rec2.shape)
				}
			}
			continue
		}
		if rec.aborted != "" {
			r.Inconc("case %d: %s", s.ID, rec.aborted)
			if strings.Contains(rec.aborted, "watchdog") {
				return // a transaction is stuck: the universe cannot be drained
			}
			continue
		}
		recs = append(recs, rec)
	}
	tRun := time.Since(t0)
	failpoint.Disable("tikvclient/pipelinedMemDBMinFlushKeys")
	failpoint.Disable("tikvclient/pipelinedMemDBMinFlushSize")
	failpoint.Disable("tikvclient/pipelinedMemDBForceFlushSizeThreshold")
	// The resolution of the flushed locks runs in the background; its goroutine sleeps 5 s (broadcast grace
	// period) after it has finished, so the drain takes at least that long.
	if !u.Drain() {
		r.Inconc("universe %d: background work did not drain", uniNo)
		return
	}
	tDrain := time.Since(t0) - tRun
	calls := u.Log.Calls()
	for _, p := range u.Panics() {
		r.Violate("e2e:backend-panic", "the store panicked serving "+p.Req, map[string]any{"panic": p})
	}
	readAll := func() (map[*caseRec]*uni.Truth, []uni.LockRec, error) {
		locks, err := u.ScanLocksTruth()
		if err != nil {
			return nil, nil, err
		}
		out := map[*caseRec]*uni.Truth{}
		for _, rec := range recs {
			var ks [][]byte
			for _, k := range rec.s.Keys {
				ks = append(ks, []byte(k))
			}
			tr, err := u.ReadTruth(ks)
			if err != nil {
				return nil, nil, err
			}
			out[rec] = tr
		}
		return out, locks, nil
	}
	truths, locks, err := readAll()
	if err != nil {
		r.Inconc("universe %d: truth: %v", uniNo, err)
		return
	}
	anyLeft := false
	for _, rec := range recs {
		_, left := checkTruth(rec, truths[rec], locks, nil, 1)
		anyLeft = anyLeft || left
	}
	if anyLeft {
		// a lock is only a leftover if it is still there after a ten-fold bound: drain again, wait, look again
		for i := 0; i < 10; i++ {
			u.Drain()
			time.Sleep(50 * time.Millisecond)
		}
		truths, locks, err = readAll()
		if err != nil {
			r.Inconc("universe %d: truth: %v", uniNo, err)
			return
		}
		calls = u.Log.Calls()
	}
	for _, rec := range recs {
		lv, _ := checkTruth(rec, truths[rec], locks, calls, 1)
		for _, v := range lv {
			violate(v.sig, v.msg, v.detail)
			if strings.HasPrefix(v.sig, "truth:lock-left:") && failureFreeEnd(rec) {
				lr.Violate("pipelined:"+v.sig, v.msg, v.detail)
			}
		}
	}
	// Recovery: the clock passes every ttl, an observer reads every key (which resolves whatever lock is left)
	// - a definite error of Commit must stay "nothing visible" for ever.
	u.AdvanceClock(3 * 3600 * 1000)
	obs, err := u.NewClient()
	if err != nil {
		r.Inconc("universe %d: observer: %v", uniNo, err)
		return
	}
	for _, rec := range recs {
		var ks [][]byte
		for _, k := range rec.s.Keys {
			ks = append(ks, []byte(k))
		}
		ot, err := obs.Begin()
		if err != nil {
			r.Inconc("universe %d: observer: %v", uniNo, err)
			return
		}
		got, err := ot.BatchGet(context.Background(), ks)
		_ = ot.Rollback()
		if err != nil {
			r.Inconc("case %d: observer read: %T: %v", rec.s.ID, err, err)
			continue
		}
		r.Count("observer_reads_after_ttl", len(ks))
		if !rec.committed && !rec.undetermined {
			mine := fmt.Sprintf("v%d.", rec.s.ID)
			for k, e := range got {
				if strings.HasPrefix(string(e.Value), mine) {
					violate("observer:value-of-uncommitted-txn-visible:after="+rec.ended, fmt.Sprintf("case %d (%s): %s of the transaction ended with %q, but an observer reading after every ttl sees its value %q under %q", rec.s.ID, rec.s.Shape, rec.ended, rec.endErr, short(string(e.Value)), k),
						map[string]any{"spec": rec.s, "steps": rec.s.stepStrings(), "start_ts": rec.startTS, "end_error": rec.endErr, "observed": rec.shape})
				}
			}
		}
	}
	if !u.Drain() {
		r.Inconc("universe %d: recovery did not drain", uniNo)
		return
	}
	truths, locks, err = readAll()
	if err != nil {
		r.Inconc("universe %d: truth: %v", uniNo, err)
		return
	}
	calls = u.Log.Calls()
	for _, rec := range recs {
		s := rec.s
		rec.plan.mu.Lock()
		rec.faults = map[string]int{}
		for k, v := range rec.plan.counts {
			rec.faults[k] = v
		}
		rec.plan.mu.Unlock()
		wv, ws := checkWire(rec, calls)
		tv, _ := checkTruth(rec, truths[rec], locks, calls, 2)
		for _, v := range append(wv, tv...) {
			violate(v.sig, v.msg, v.detail)
			if strings.HasPrefix(v.sig, "truth:lock-left:") && failureFreeEnd(rec) {
				lr.Violate("pipelined:"+v.sig, v.msg, v.detail)
			}
		}
		if failureFreeEnd(rec) {
			// the C06 monitor: one ended transaction judged for leftover locks
			end := rec.ended
			if end == "commit" && !rec.committed {
				end = "failed-commit"
			}
			flushedAny := ws.applied > 0
			lr.Eval(1)
			lr.Count("ends_judged", 1)
			lr.Count("end:"+end, 1)
			if flushedAny {
				lr.Count("ends_with_flushed_locks", 1)
				lr.Count("end_with_flushed_locks:"+end, 1)
			}
			lr.Count("owner_resolve_lock_rpcs", ws.ownerResolves)
			lr.Distinct(fmt.Sprintf("%s|%s|flushed=%v|left=%v", s.Shape, end, flushedAny, rec.lockLeftReported))
			if flushedAny && lr.SampleN() < 3 && s.ID%4 == 1 {
				lr.Sample(map[string]any{"case": s.ID, "shape": s.Shape, "end": end, "end_error": rec.endErr, "keys": s.Keys, "splits": rec.splitsDone, "flush_rpcs_applied": ws.applied, "owner_resolve_lock_rpcs": ws.ownerResolves, "faults": rec.faults, "lock_left": rec.lockLeftReported})
			}
		} else {
			lr.Count("ends_skipped_request_lost_or_undetermined", 1)
		}
		r.Eval(1 + ws.generations + len(s.Keys))
		r.Count("programs", 1)
		r.Count("programs:"+s.Shape, 1)
		r.Count("end:"+rec.ended, 1)
		if rec.ended == "commit" {
			if rec.committed {
				r.Count("commit_ok", 1)
			} else {
				r.Count("commit_failed", 1)
				e := rec.endErr
				if len(e) > 80 {
					e = e[:80]
				}
				r.Count("commit_error:"+e, 1)
			}
		}
		if rec.ended == "commit" && len(rec.latest) > 0 {
			// the C03 monitor: one judged Commit answer
			answer := "definite-error"
			switch {
			case rec.committed:
				answer = "nil"
			case rec.undetermined:
				answer = "undetermined"
			}
			inTruth := false
			for _, k := range s.Keys {
				if kt := truths[rec].Keys[k]; kt != nil && kt.WriteOf(rec.startTS) != nil {
					inTruth = true
				}
			}
			outcome := map[bool]string{true: "committed", false: "not-committed"}[inTruth]
			fk := s.CommitFault
			switch {
			case fk != "":
			case s.LoseFrom >= 0:
				fk = "flush-lost"
			case rec.conflictCommitted:
				fk = "write-conflict"
			case rec.flushErr != "":
				fk = "flush-error"
			default:
				fk = "none"
			}
			ar.Eval(1)
			ar.Count("commits_judged", 1)
			ar.Count("answer:"+answer, 1)
			ar.Count("outcome:"+outcome, 1)
			ar.Count("answer:"+answer+"/outcome:"+outcome, 1)
			ar.Count("commit_fault:"+fk, 1)
			ar.Count("commit_ctx:"+ctxKindNames[s.CommitCtx], 1)
			ar.Distinct(fmt.Sprintf("%s|%s|%s|%s", fk, ctxKindNames[s.CommitCtx], answer, outcome))
			if (fk != "none" || answer != "nil") && ar.SampleN() < 3 && s.ID%3 == 1 {
				ar.Sample(map[string]any{"case": s.ID, "shape": s.Shape, "commit_fault": fk, "commit_ctx": ctxKindNames[s.CommitCtx], "answer": answer, "error": rec.endErr, "outcome_in_truth": outcome, "keys_written": len(rec.latest), "trace": rec.shape})
			}
		}
		if rec.flushErr != "" {
			r.Count("flush_error_reported_to_driver", 1)
		}
		if rec.conflictCommitted {
			r.Count("programs_with_conflicting_write", 1)
		}
		if s.LoseFrom >= 0 {
			r.Count("programs_with_flush_lost_for_good", 1)
		}
		for _, x := range rec.shape {
			if x == "flush:threshold" {
				r.Count("flushes_threshold_driven", 1)
			}
		}
		if s.LoseFrom >= 0 || s.ConflictKey != "" || rec.endErr != "" || rec.flushErr != "" {
			t.Logf("case %d %s end=%s committed=%v endErr=%q flushErr=%q loseFrom=%d conflict=%q(%v) faults=%v trace=%v", s.ID, s.Shape, rec.ended, rec.committed, rec.endErr, rec.flushErr, s.LoseFrom, s.ConflictKey, rec.conflictCommitted, rec.faults, rec.shape)
		}
		for k, v := range rec.ctxKinds {
			r.Count("ctx:"+k, v)
		}
		r.Count("region_splits_by_driver_after_flush", rec.splitsByDriver)
		r.Count("owner_resolve_lock_rpcs", ws.ownerResolves)
		r.Count("owner_resolve_lock_rpcs_rollback", ws.ownerResolvesRollback)
		if s.CommitFault != "" {
			r.Count("programs_with_commit_fault:"+s.CommitFault, 1)
		}
		if rec.undetermined {
			r.Count("commit_undetermined", 1)
		}
		r.Count("flushes_triggered_by_driver", len(rec.gens))
		r.Count("flush_rpcs", ws.flushRPCs)
		r.Count("flush_rpcs_applied", ws.applied)
		r.Count("generations_on_wire", ws.generations)
		r.Count("generations_with_retries_or_several_batches", ws.retriedGenerations)
		r.Count("held_flush_rpcs_released_because_client_waited", rec.heldReleasedByWait)
		r.Count("held_flush_rpcs_released_by_later_step", rec.heldReleasedByStep)
		for k, v := range rec.reads {
			r.Count("read:"+k, v)
			r.Eval(v)
		}
		for k, v := range rec.faults {
			r.Count("fault:"+k, v)
		}
		nontrivial := ws.generations > 0
		if nontrivial {
			r.Distinct(fmt.Sprintf("%s|%s|%v|%v", s.Shape, rec.ended, rec.committed, strings.Join(rec.shape, " ")))
		}
		if r.SampleN() < 4 && ws.generations >= 2 && s.ID%5 == 2 {
			r.Sample(map[string]any{"case": s.ID, "shape": s.Shape, "keys": s.Keys, "splits": rec.splitsDone, "steps": s.stepStrings(), "observed": rec.shape, "end": rec.ended, "committed": rec.committed, "end_error": rec.endErr, "faults": rec.faults, "flush_rpcs": ws.flushRPCs, "generations": ws.generations})
		}
	}
	r.Count("resolve_lock_rpcs", countCmd(calls, tikvrpc.CmdResolveLock))
	t.Logf("universe %d: %d cases, run %v, drain %v, rpcs %d", uniNo, len(recs), tRun, tDrain, len(calls))
}

func countCmd(calls []uni.Call, cmd tikvrpc.CmdType) int {
	n := 0
	for _, c := range calls {
		if c.Cmd == cmd {
			n++
		}
	}
	return n
}

func TestVerifC16(t *testing.T) {
	r := vrep.New("C16", "c16-e2e", "generated pipelined transactions (set/delete/get/batch-get/flush force|threshold/flush-wait, then Commit or Rollback; flush thresholds lowered through the pipelinedMemDB* failpoints; flush and resolve concurrency 1|2|8) on unistore, each on its own key prefix with its own region layout (random borders, largest written key first in its region, a single flushed key, committed old values under keys that are overwritten/deleted, flushed and waited for and then read by one BatchGet and by Get while the region is split between them - by the driver behind the client's region cache or exactly at the BufferBatchGet RPC) and a fault plan on its BufferBatchGet RPCs (split between two requested keys, NotLeader, ServerIsBusy, EpochNotMatch) and on its Flush RPCs (held in flight while the program goes on, NotLeader, ServerIsBusy, region split at the RPC, lost request, lost response, every request lost from some point on, conflicting committed write; NotLeader/split on a ResolveLock RPC; commit-phase failures: primary lock rolled back by another client's resolver right before the Commit RPC, failpoint pipelinedCommitFail, NotLeader/ServerIsBusy/lost request on the Commit RPC, lost response with the caller's context cancelled; per universe 60 (thorough 120) more transactions whose first of several back-to-back forced flushes fails in the background - conflicting committed write, or every Flush RPC lost until the error is reported - so that Flush itself reports the failure, after which every second transaction calls FlushWait once more before it commits or rolls back; every Get/BatchGet/Commit gets context.Background() | a context cancelled right after the call returned | a context with values and a far deadline cancelled after return, Commit also a context cancelled when its Commit request is sent); monitors: bounded progress (a Flush/FlushWait/Commit/Rollback that stays blocked while every hold is released, no RPC of the client is in flight and none is sent for 4 s is run again alone in a fresh universe; blocked again over 40 s in the same call = violation, goroutines in the replay), reads vs the driver's model by tier, wire (mutations per generation, completeness of successful flushes, increasing generations, one generation in flight), Commit fails after a reported flush error, MVCC truth after drain (no lock) and again after ttl expiry + observer reads (latest writes at the primary's commit ts / nothing; undetermined = all or nothing), owner's ResolveLock requests carry commit_version 0 unless its primary Commit succeeded; distinct = distinct (shape, end, outcome, operation/tier trace) of transactions that flushed at least once")
	defer r.Finish(t)
	ar := vrep.New("C03", "c03-on-c16", "truthfulness of Commit's answer for the pipelined commit mode, judged on the C16 e2e executions: every Commit of a generated pipelined transaction on unistore (flush faults, write conflicts; commit-phase faults: primary lock rolled back by another client's resolver right before the Commit RPC, failpoint pipelinedCommitFail after the commit ts was fetched, NotLeader/ServerIsBusy/lost request on the Commit RPC, lost response with the caller's context cancelled, context cancelled when the Commit request is sent; contexts cancelled after return) is compared, after drain, clock past every ttl and observer reads, with the MVCC truth: nil => every written key carries its latest write at the primary's single commit ts; definite error => no version of the transaction exists and no observer ever sees its values; undetermined only when a commit-point request was lost or cancelled in flight; a Commit request that stayed unanswered is never reported as a plain error; distinct = distinct (commit fault kind, context kind, answer class, outcome in the truth)")
	defer ar.Finish(t)
	lr := vrep.New("C06", "c06-on-c16", "leftover locks of pipelined transactions, judged on the C16 e2e executions: every generated pipelined transaction on unistore whose end was failure-free (Commit nil, Commit with a definite error - write conflict, flush error from a region-level cause, primary rolled back by another client's resolver, failpoint pipelinedCommitFail -, or Rollback; no request or response of it was lost and the answer was not undetermined; region errors, splits at an RPC, requests held in flight and contexts cancelled after return are not failures) is judged after the drain of all background work, before anybody else touches its keys: the lock scan and MvccGetByKey of the un-recorded store show no lock of its start ts (re-checked with a ten-fold bound), over region layouts with the largest/smallest flushed key on a border and single flushed keys; distinct = distinct (shape, end kind, flushed anything, lock left)")
	defer lr.Finish(t)
	_ = failpoint.Enable("tikvclient/fastBackoffBySkipSleep", "return")
	defer failpoint.Disable("tikvclient/fastBackoffBySkipSleep")
	rng := vrep.Rand("c16-e2e")
	nUni := vrep.Pick(2, 8)
	nCases := vrep.Pick(300, 600)
	for i := 0; i < nUni; i++ {
		runUniverse(t, r, ar, lr, rng, i, nCases, i*nCases)
		r.Flush()
		ar.Flush()
		lr.Flush()
	}
	lr.Floor("ends_judged", 300)
	lr.Floor("end:rollback", 50)
	lr.Floor("end:failed-commit", 50)
	lr.Floor("ends_with_flushed_locks", 200)
	ar.Floor("commits_judged", 300)
	ar.Floor("answer:undetermined", 10)
	ar.Floor("answer:definite-error", 50)
	ar.Floor("answer:nil", 150)
	r.Floor("programs", 400)
	r.Floor("commit_ok", 150)
	r.Floor("end:rollback", 80)
	r.Floor("programs:single-key", 40)
	r.Floor("programs:max-on-border", 60)
	r.Floor("programs:read-flushed", 60)
	r.Floor("fault:commit:primary-rolled-back-by-resolver", 10)
	r.Floor("ctx:commit:cancelled-after-return", 50)
	r.Floor("ctx:commit:values+deadline-cancelled-after-return", 50)
	r.Floor("ctx:get:cancelled-after-return", 200)
	r.Floor("ctx:bget:values+deadline-cancelled-after-return", 100)
	r.Floor("fault:commit:context-cancelled-at-commit-rpc", 5)
	r.Floor("fault:commit:failpoint-after-commit-ts", 5)
	r.Floor("owner_resolve_lock_rpcs_rollback", 100)
	r.Floor("fault:bufget:split-between-requested-keys", 15)
	r.Floor("region_splits_by_driver_after_flush", 15)
	r.Floor("fault:bufget:epoch-not-match", 10)
	r.Floor("generations_on_wire", 500)
	r.Floor("flushes_threshold_driven", 20)
	r.Floor("read:get:flushed", 20)
	r.Floor("read:bget:flushed", 40)
	r.Floor("read:bget:flushing", 20)
	r.Floor("fault:flush:hold", 20)
	r.Floor("fault:flush:split-at-rpc", 5)
	r.Floor("fault:flush:drop-req", 5)
	r.Floor("commit_failed", 3)
	r.Floor("fault:resolve:split-at-rpc", 5)
	r.Floor("fault:flush:lost-for-good", 50)
	// the family "the application goes on after Flush told it that an earlier flush failed"
	r.Floor("programs:flush-fails", 80)
	r.Floor("call_after_flush_error_reported_by:flush:commit", 30)
	r.Floor("call_after_flush_error_reported_by:flush:rollback", 30)
	r.Floor("call_after_flush_error_reported_by:flush:flushwait", 30)
}
