// Package crash holds the machinery shared by the C02 (client crash at every
// RPC boundary of Commit) and C03 (truthfulness of Commit's answer under
// faults) enumerations: small transaction shapes, a dry run that yields the
// RPC trace of Commit, one execution per (point, fault), recovery by a fresh
// observer and the all-or-nothing / ack oracles over the MVCC truth.
package crash

import (
	"bytes"
	"context"
	"fmt"
	"sort"
	"strings"
	"sync"
	"sync/atomic"
	"time"

	"github.com/pingcap/failpoint"
	"github.com/pingcap/kvproto/pkg/errorpb"
	"github.com/pingcap/kvproto/pkg/kvrpcpb"
	"github.com/tikv/client-go/v2/kv"
	"github.com/tikv/client-go/v2/tikv"
	"github.com/tikv/client-go/v2/tikvrpc"
	"github.com/tikv/client-go/v2/txnkv/transaction"

	"verif/e2e/uni"
	"verif/e2e/work"
)

// MutKind is the kind of one mutation of the victim.
type MutKind int

// Mutation kinds.
const (
	MPut MutKind = iota
	MDel
	MInsert
	MLock
)

func (m MutKind) String() string { return [...]string{"put", "del", "insert", "lock"}[m] }

// Mut is one key of the victim transaction.
type Mut struct {
	Key  string
	Kind MutKind
}

// Shape is a small transaction shape on a layout.
type Shape struct {
	Backend     string
	Pessimistic bool
	Async       bool
	OnePC       bool
	Muts        []Mut
	Splits      []string // region split keys
	// Pre: keys that carry an old committed value before the victim runs
	Pre []string
	// Fallback: the store refuses async commit / 1PC for this transaction (max_commit_ts too small, as after a slow
	// prewrite; produced with the repository's own failpoint invalidMaxCommitTS) and the commit falls back to 2PC
	Fallback bool
	// FailedLock (pessimistic shapes): after the transaction has locked its primary, one LockKeys statement over
	// two keys in two regions fails (no-wait conflict with another transaction's lock on the second key) before
	// the transaction goes on and commits - state left in the committer by a failed statement
	FailedLock bool
}

func (s Shape) String() string {
	m := "2pc"
	if s.Async {
		m = "async"
	}
	if s.OnePC {
		m += "+1pc"
	}
	p := "opt"
	if s.Pessimistic {
		p = "pess"
	}
	var ms []string
	for _, x := range s.Muts {
		ms = append(ms, x.Kind.String()+":"+x.Key)
	}
	if s.Fallback {
		m += "->fallback"
	}
	if s.FailedLock {
		m += "+failed-lock-stmt"
	}
	return fmt.Sprintf("%s/%s/%s muts=%v splits=%q pre=%q", s.Backend, m, p, ms, s.Splits, s.Pre)
}

// Spec turns the shape into a transaction program.
func (s Shape) Spec() work.Spec {
	sp := work.Spec{Pessimistic: s.Pessimistic, Async: s.Async, OnePC: s.OnePC, Commit: true}
	if s.FailedLock && s.Pessimistic && len(s.Muts) > 0 {
		other := s.Muts[len(s.Muts)-1].Key
		sp.Ops = append(sp.Ops,
			work.Op{Kind: work.OpLock, Keys: []string{s.Muts[0].Key}},
			work.Op{Kind: work.OpLock, Keys: []string{other, BlockedKey}, NoWait: true})
	}
	for _, m := range s.Muts {
		switch m.Kind {
		case MPut:
			sp.Ops = append(sp.Ops, work.Op{Kind: work.OpSet, Keys: []string{m.Key}})
		case MDel:
			sp.Ops = append(sp.Ops, work.Op{Kind: work.OpDelete, Keys: []string{m.Key}})
		case MInsert:
			sp.Ops = append(sp.Ops, work.Op{Kind: work.OpInsert, Keys: []string{m.Key}})
		case MLock:
			sp.Ops = append(sp.Ops, work.Op{Kind: work.OpLock, Keys: []string{m.Key}})
		}
	}
	return sp
}

// Sig identifies an RPC of the victim by content, not by arrival order:
// command + sorted keys (+ commit role).  Occurrence numbers disambiguate retries.
func Sig(c *uni.Call) string {
	var keys []string
	switch r := c.Req.(type) {
	case *kvrpcpb.PrewriteRequest:
		for _, m := range r.Mutations {
			keys = append(keys, string(m.Key))
		}
	case *kvrpcpb.CommitRequest:
		for _, k := range r.Keys {
			keys = append(keys, string(k))
		}
	case *kvrpcpb.BatchRollbackRequest:
		for _, k := range r.Keys {
			keys = append(keys, string(k))
		}
	case *kvrpcpb.PessimisticLockRequest:
		for _, m := range r.Mutations {
			keys = append(keys, string(m.Key))
		}
	case *kvrpcpb.PessimisticRollbackRequest:
		for _, k := range r.Keys {
			keys = append(keys, string(k))
		}
	case *kvrpcpb.TxnHeartBeatRequest:
		keys = append(keys, string(r.PrimaryLock))
	case *kvrpcpb.CheckTxnStatusRequest:
		keys = append(keys, string(r.PrimaryKey))
	case *kvrpcpb.ResolveLockRequest:
		for _, k := range r.Keys {
			keys = append(keys, string(k))
		}
	}
	sort.Strings(keys)
	return c.Cmd.String() + "[" + strings.Join(keys, ",") + "]"
}

// Point is one RPC boundary of the victim's Commit: the n-th request with signature Sig.
type Point struct {
	Sig string
	N   int
	Cmd tikvrpc.CmdType
}

func (p Point) String() string { return fmt.Sprintf("%s#%d", p.Sig, p.N) }

// LockerRPCBound bounds the requests of the "locker" companion's single LockKeys call over the dead transaction's
// (expired) locks; a fault-free call needs a few dozen.
const LockerRPCBound = 5000

// BlockedKey is the key another transaction holds a pessimistic lock on in FailedLock shapes (a region of its own).
const BlockedKey = "k9"

// Env is one prepared universe: layout, old values, victim and observer stores.
type Env struct {
	U      *uni.Universe
	Victim *uni.ClientStore
	Obs    *uni.ClientStore
	Shape  Shape
	Old    map[string]string
	// LockerLivelock is set when the locker companion exceeded LockerRPCBound
	LockerLivelock atomic.Bool
	// PushReads are the observations of readers that looked at the keys while the victim was committing
	PushMu    sync.Mutex
	PushReads []PushRead

	// Pick varies seed/rotation-dependent choices of a companion (which lock the region splits at)
	Pick int
	// OverwriteBeforeGC (gc-split companion): keys another client overwrites after the locks expired and before the
	// GC pass takes its safe point; DataGC: once that pass has reported success the stores drop the versions below
	// its safe point (what a GC worker does next - it relies on "no lock below the safe point is left")
	OverwriteBeforeGC []string
	DataGC            bool
	// DataGCDone: a data GC ran on at least one region (delete tombstones and overwritten versions below the safe
	// point are gone from the MVCC truth - legitimately)
	DataGCDone bool
	// Overwritten: keys that carry a newer committed value of another client (their visible state no longer tells
	// the victim's outcome)
	Overwritten map[string]string

	covMu sync.Mutex
	// Cov counts what the companions actually did (coverage counters for the report)
	Cov map[string]int
	// Extra holds problems found by the recovery procedure itself (GC contract)
	Extra []Problem

	cancelMu     sync.Mutex
	cancelCommit context.CancelFunc
	blocker      *transaction.KVTxn
}

func (e *Env) cov(name string) {
	e.covMu.Lock()
	if e.Cov == nil {
		e.Cov = map[string]int{}
	}
	e.Cov[name]++
	e.covMu.Unlock()
}

func (e *Env) extra(sig, f string, a ...any) {
	e.covMu.Lock()
	e.Extra = append(e.Extra, Problem{sig, fmt.Sprintf(f, a...)})
	e.covMu.Unlock()
}

// CovCounts returns a copy of the coverage counters of the companions.
func (e *Env) CovCounts() map[string]int {
	e.covMu.Lock()
	defer e.covMu.Unlock()
	out := map[string]int{}
	for k, v := range e.Cov {
		out[k] = v
	}
	return out
}

type envCtxKey struct{}

// CancelCommit cancels the context the victim's Commit runs under (a caller that gives up while Commit is running).
func (e *Env) CancelCommit() {
	e.cancelMu.Lock()
	c := e.cancelCommit
	e.cancelMu.Unlock()
	if c != nil {
		c()
	}
}

// PushRead is what a reader with snapshot TS saw during the victim's commit.
type PushRead struct {
	TS   uint64
	Vals map[string]string
	Err  string
}

// NewEnv builds the universe of a shape: splits, old values committed by the observer.
func NewEnv(sh Shape) (*Env, error) {
	u, err := uni.New(sh.Backend, 3)
	if err != nil {
		return nil, err
	}
	for _, k := range sh.Splits {
		u.SplitAt([]byte(k))
	}
	obs, err := u.NewClient()
	if err != nil {
		return nil, err
	}
	e := &Env{U: u, Obs: obs, Shape: sh, Old: map[string]string{}}
	if len(sh.Pre) > 0 {
		txn, err := obs.Begin()
		if err != nil {
			return nil, err
		}
		for _, k := range sh.Pre {
			v := "old-" + k
			e.Old[k] = v
			if err := txn.Set([]byte(k), []byte(v)); err != nil {
				return nil, err
			}
		}
		if err := txn.Commit(context.Background()); err != nil {
			return nil, fmt.Errorf("pre-populate: %w", err)
		}
		u.Drain()
	}
	if sh.FailedLock {
		u.SplitAt([]byte("k8"))
		bt, err := obs.Begin()
		if err != nil {
			return nil, err
		}
		bt.SetPessimistic(true)
		fu, err := obs.Store.CurrentTimestamp("global")
		if err != nil {
			return nil, err
		}
		if err := bt.LockKeys(context.Background(), kv.NewLockCtx(fu, 100, time.Now()), []byte(BlockedKey)); err != nil {
			return nil, fmt.Errorf("blocker lock: %w", err)
		}
		e.blocker = bt
	}
	v, err := u.NewClient()
	if err != nil {
		return nil, err
	}
	e.Victim = v
	return e, nil
}

// Close releases the universe.
func (e *Env) Close() {
	if e.blocker != nil {
		_ = e.blocker.Rollback()
	}
	e.U.Close()
}

// RunVictim executes the victim's program; the commitReturned channel is
// closed when the program's Commit (or Rollback) call has returned.
func (e *Env) RunVictim(commitReturned chan struct{}) *work.TxnRec {
	// Commit runs under a context of its own that is cancelled as soon as Commit has returned (the usual
	// "defer cancel()" of a caller), or earlier by a fault plan (CancelCommit)
	ctx, cancel := context.WithCancel(context.WithValue(context.Background(), envCtxKey{}, "victim"))
	e.cancelMu.Lock()
	e.cancelCommit = cancel
	e.cancelMu.Unlock()
	defer cancel()
	r := &work.Runner{U: e.U, C: e.Victim, LockWaitMS: 20, CommitCtx: ctx}
	if e.Shape.Fallback {
		_ = failpoint.Enable("tikvclient/invalidMaxCommitTS", "return")
		defer failpoint.Disable("tikvclient/invalidMaxCommitTS")
	}
	rec := r.Run(1, e.Shape.Spec())
	cancel()
	if commitReturned != nil {
		close(commitReturned)
	}
	return rec
}

// VictimCalls returns the victim's calls issued from sequence number `from` on
// that belong to its transaction (start ts) or are commit-path commands.
func (e *Env) VictimCalls(startTS uint64) []uni.Call {
	var out []uni.Call
	for _, c := range e.U.Log.Calls() {
		if c.Client != e.Victim.ID || c.StartTS != startTS {
			continue
		}
		switch c.Cmd {
		case tikvrpc.CmdPrewrite, tikvrpc.CmdCommit, tikvrpc.CmdBatchRollback, tikvrpc.CmdTxnHeartBeat,
			tikvrpc.CmdPessimisticRollback, tikvrpc.CmdCheckTxnStatus, tikvrpc.CmdResolveLock, tikvrpc.CmdPessimisticLock:
			out = append(out, c)
		}
	}
	return out
}

// CommitPathPoints lists the RPC boundaries of Commit from a fault-free dry run:
// the victim's requests that were sent after Commit was called.
func CommitPathPoints(calls []uni.Call, commitCallSeq int64) []Point {
	seen := map[string]int{}
	var pts []Point
	for i := range calls {
		c := &calls[i]
		if c.Seq < commitCallSeq {
			continue
		}
		s := Sig(c)
		seen[s]++
		pts = append(pts, Point{Sig: s, N: seen[s], Cmd: c.Cmd})
	}
	return pts
}

// Matcher counts the victim's commit-path requests and fires on a point.
type Matcher struct {
	mu      sync.Mutex
	seen    map[string]int
	StartTS *atomic.Uint64 // victim's start ts once known (0 = match any txn of the victim)
}

// NewMatcher creates a matcher.
func NewMatcher() *Matcher { return &Matcher{seen: map[string]int{}, StartTS: &atomic.Uint64{}} }

// Hit reports whether c is the n-th occurrence of the point's signature (only
// requests sent after Armed was set are counted).
func (m *Matcher) Hit(c *uni.Call, p Point) bool {
	switch c.Cmd {
	case tikvrpc.CmdPrewrite, tikvrpc.CmdCommit, tikvrpc.CmdBatchRollback, tikvrpc.CmdTxnHeartBeat,
		tikvrpc.CmdPessimisticRollback, tikvrpc.CmdCheckTxnStatus, tikvrpc.CmdResolveLock:
	default:
		return false
	}
	s := Sig(c)
	m.mu.Lock()
	defer m.mu.Unlock()
	m.seen[s]++
	return s == p.Sig && m.seen[s] == p.N
}

// Count returns the occurrence number of a commit-path request with signature s (0 for other commands).
func (m *Matcher) Count(c *uni.Call, s string) int {
	switch c.Cmd {
	case tikvrpc.CmdPrewrite, tikvrpc.CmdCommit, tikvrpc.CmdBatchRollback, tikvrpc.CmdTxnHeartBeat,
		tikvrpc.CmdPessimisticRollback, tikvrpc.CmdCheckTxnStatus, tikvrpc.CmdResolveLock:
	default:
		return 0
	}
	m.mu.Lock()
	defer m.mu.Unlock()
	m.seen[s]++
	return m.seen[s]
}

// IsForeground reports whether Commit waits for this kind of request (so the
// driver cannot have an answer from Commit before it is served).
func IsForeground(sh Shape, p Point, primary string) bool {
	switch p.Cmd {
	case tikvrpc.CmdPrewrite, tikvrpc.CmdPessimisticLock:
		return true
	case tikvrpc.CmdCommit:
		if sh.Async || sh.OnePC {
			return false
		}
		return strings.Contains(","+strings.TrimSuffix(strings.SplitN(p.Sig, "[", 2)[1], "]")+",", ","+primary+",")
	}
	return false
}

// Recovery advances the virtual clock past every TTL, lets a fresh observer
// read every key (get, batch get, scan) at a new snapshot and at the given
// earlier snapshots, runs one GC lock-resolution pass and drains.  It returns
// the observations per snapshot.
type Observation struct {
	TS   uint64
	Vals map[string]string // key -> value (absent = not found)
	Err  string
}

// Companion is what else happens in the universe while the transaction is being recovered.
type Companion int

// Companions of a recovery.
const (
	CompNone       Companion = iota // a fresh observer reads, then one GC pass
	CompSplit                       // the regions of the transaction's keys split before anybody looks
	CompWarmReader                  // the reader is the client that wrote the old values (warm, now possibly stale, region cache)
	CompTwoReaders                  // two clients read (and resolve) concurrently
	CompLocker                      // a pessimistic transaction locks the keys first (runs into the locks as a writer), then rolls back
	CompGCFirst                     // the GC pass meets the locks first, the readers come afterwards
	CompMoveLeader                  // the leaders of the keys' regions move before anybody looks
	// CompGCSplit: the GC pass meets the locks first, and the region it works on splits between two of the locks it
	// has just scanned - after its ScanLock was answered and before its batch ResolveLock request arrives
	CompGCSplit
	// CompResolverRegionErr: the region a resolver request of the recovering reader goes to changes while that
	// request is on the wire (first CheckTxnStatus / CheckSecondaryLocks / ResolveLock / PessimisticRollback each:
	// a split between the request's keys, or next to its key; the resolver's region cache is stale at that moment)
	CompResolverRegionErr
	NCompanions
)

func (c Companion) String() string {
	return [...]string{"none", "split", "warm-reader", "two-readers", "locker", "gc-first", "move-leader", "gc-split", "resolver-region-error"}[c]
}

// Recover performs the bounded recovery procedure of C02/C03 (without companion).
func (e *Env) Recover(keys []string, earlier []uint64) ([]Observation, [2]int64, error) {
	o, w, err := e.RecoverWith(keys, earlier, CompNone)
	var gcw [2]int64
	if len(w) > 0 {
		gcw = w[len(w)-1]
	}
	return o, gcw, err
}

// RecoverWith performs the bounded recovery procedure with a companion; it returns the observations and the
// sequence windows of the GC passes.
func (e *Env) RecoverWith(keys []string, earlier []uint64, comp Companion) ([]Observation, [][2]int64, error) {
	o, w, err := e.recoverWith(keys, earlier, comp)
	return o, w, err
}

func (e *Env) recoverWith(keys []string, earlier []uint64, comp Companion) ([]Observation, [][2]int64, error) {
	u := e.U
	u.DeliverLate()
	var windows [][2]int64
	switch comp {
	case CompSplit:
		for _, k := range keys {
			u.SplitAt([]byte(k))
			u.SplitAt([]byte(k + "\x00"))
		}
	case CompMoveLeader:
		for i, k := range keys {
			u.MoveLeader([]byte(k), i+1)
		}
	}
	u.AdvanceClock(3 * 3600 * 1000)
	obs := e.Obs
	var err error
	if comp != CompWarmReader || obs == nil {
		obs, err = u.NewClient()
		if err != nil {
			return nil, nil, err
		}
	}
	ctx := context.Background()
	var lastSafePoint uint64
	gcPass := func() error {
		sp, err := obs.Store.CurrentTimestamp("global")
		if err != nil {
			return err
		}
		w0 := u.Log.Now()
		gcErr := tikv.StoreProbe{KVStore: obs.Store}.GCResolveLockPhase(ctx, sp, 1)
		w1 := u.Log.Now()
		windows = append(windows, [2]int64{w0, w1})
		u.Drain()
		if gcErr != nil {
			return fmt.Errorf("gc resolve: %w", gcErr)
		}
		lastSafePoint = sp
		// the contract of the pass (what the recovery of everybody else and the data GC that follows rely on): when
		// it reports success no lock with a start ts up to its safe point is left.  Nothing writes locks during
		// recovery (the victim is dead or has drained, late deliveries are done), so the MVCC truth decides.
		locks, err := u.ScanLocksTruth()
		if err != nil {
			return fmt.Errorf("gc contract: scan locks: %w", err)
		}
		for _, l := range locks {
			if l.StartTS <= sp {
				e.extra("gc-pass-left-lock-below-safepoint", "the GC lock-resolution pass for safe point %d reported success (companion %s), yet a lock with start ts %d remains on %q (type %s, primary %q)", sp, comp, l.StartTS, l.Key, l.Type, l.Primary)
			}
		}
		return nil
	}
	// dataGC: the stores drop what is invisible at the safe point of the last successful pass (mocktikv; unistore
	// only records the safe point for a later compaction)
	dataGC := func() {
		if lastSafePoint == 0 || u.Backend != uni.Mock {
			return
		}
		bo := tikv.NewBackofferWithVars(ctx, 20000, nil)
		var start []byte
		for i := 0; i < 64; i++ {
			loc, err := obs.Store.GetRegionCache().LocateKey(bo, start)
			if err != nil {
				e.cov("data_gc_error")
				return
			}
			resp, err := obs.Store.SendReq(bo, tikvrpc.NewRequest(tikvrpc.CmdGC, &kvrpcpb.GCRequest{SafePoint: lastSafePoint}), loc.Region, 10*time.Second)
			if err != nil {
				e.cov("data_gc_error")
				return
			}
			if re, _ := resp.GetRegionError(); re != nil {
				continue // the sender has refreshed the region
			}
			if gr, ok := resp.Resp.(*kvrpcpb.GCResponse); ok && gr.Error != nil {
				e.cov("data_gc_refused_by_store")
			} else {
				e.cov("data_gc_regions")
				e.DataGCDone = true
			}
			if len(loc.EndKey) == 0 {
				return
			}
			start = loc.EndKey
		}
	}
	switch comp {
	case CompGCFirst:
		if err := gcPass(); err != nil {
			return nil, windows, err
		}
	case CompGCSplit:
		if len(e.OverwriteBeforeGC) > 0 {
			// somebody overwrites keys of the dead transaction (meeting, and resolving, whatever lock is on them)
			// before the GC worker takes its safe point
			wr, err := u.NewClient()
			if err != nil {
				return nil, nil, err
			}
			txn, err := wr.Begin()
			if err != nil {
				return nil, nil, err
			}
			ow := map[string]string{}
			for _, k := range e.OverwriteBeforeGC {
				ow[k] = "newer-" + k
				if err := txn.Set([]byte(k), []byte(ow[k])); err != nil {
					return nil, nil, err
				}
			}
			if err := txn.Commit(ctx); err != nil {
				return nil, nil, fmt.Errorf("overwrite before gc: %w", err)
			}
			u.Drain()
			e.Overwritten = ow
			e.cov("gc_split_overwrites")
		}
		// the split: when the pass sends a batch ResolveLock, the region it scanned splits between two of the
		// locks the ScanLock answer listed (one region per pass; a region with a single lock splits next to it)
		var done atomic.Bool
		tried := map[uint64]bool{}
		var mu sync.Mutex
		obs.Net.SetDecider(func(c *uni.Call) uni.Action {
			r, ok := c.Req.(*kvrpcpb.ResolveLockRequest)
			if !ok || len(r.TxnInfos) == 0 || done.Load() {
				return uni.Action{}
			}
			mu.Lock()
			defer mu.Unlock()
			if tried[c.RegionID] {
				return uni.Action{}
			}
			tried[c.RegionID] = true
			var scanned [][]byte
			cs := u.Log.Calls()
			for i := len(cs) - 1; i >= 0; i-- {
				sc := &cs[i]
				if sc.Client != c.Client || sc.Cmd != tikvrpc.CmdScanLock || sc.RetSeq == 0 || sc.RegionID != c.RegionID {
					continue
				}
				if sr, ok := sc.Resp.(*kvrpcpb.ScanLockResponse); ok {
					for _, l := range sr.Locks {
						scanned = append(scanned, l.Key)
					}
				}
				break
			}
			switch {
			case len(scanned) >= 2:
				j := 1 + e.Pick%(len(scanned)-1)
				if !bytes.Equal(scanned[j], scanned[j-1]) && u.SplitAt(scanned[j]) {
					done.Store(true)
					e.cov("gc_split_between_scanned_locks")
				}
			case len(scanned) == 1:
				if u.SplitAt(append(append([]byte(nil), scanned[0]...), 0)) {
					e.cov("gc_split_next_to_single_lock")
				}
			}
			return uni.Action{}
		})
		err := gcPass()
		obs.Net.SetDecider(nil)
		if err != nil {
			return nil, windows, err
		}
		if e.DataGC {
			dataGC()
			earlier = nil // snapshots below the safe point of a data GC are not readable any more
		}
		// whoever reads afterwards is not the GC worker: a client with a resolver (transaction status cache) of its own
		if obs, err = u.NewClient(); err != nil {
			return nil, windows, err
		}
	case CompLocker:
		lk, err := u.NewClient()
		if err != nil {
			return nil, nil, err
		}
		// bounded progress in logical steps: one lock call over a handful of expired locks that needs more than
		// LockerRPCBound requests is not going to end (the caller reports it); the client is cut off then
		var n atomic.Int64
		lk.Net.SetDecider(func(c *uni.Call) uni.Action {
			if n.Add(1) > LockerRPCBound {
				e.LockerLivelock.Store(true)
				return uni.Action{Kind: uni.KillBefore}
			}
			return uni.Action{}
		})
		txn, err := lk.Begin(tikv.WithTxnScope("global"))
		if err == nil {
			txn.SetPessimistic(true)
			var ks [][]byte
			for _, k := range keys {
				ks = append(ks, []byte(k))
			}
			lctx := kv.NewLockCtx(txn.StartTS(), 50, time.Now())
			_ = txn.LockKeys(ctx, lctx, ks...) // any answer is fine: the point is that a writer runs into the locks
			_ = txn.Rollback()
		}
		u.Drain()
	}
	var out []Observation
	now, err := obs.Store.CurrentTimestamp("global")
	if err != nil {
		return nil, windows, err
	}
	if comp == CompResolverRegionErr {
		e.staleResolver(obs)
		defer obs.Net.SetDecider(nil)
	}
	var second chan struct{}
	if comp == CompTwoReaders {
		o2, err := u.NewClient()
		if err != nil {
			return nil, windows, err
		}
		second = make(chan struct{})
		go func() {
			defer close(second)
			snap := o2.Store.GetSnapshot(now)
			var ks [][]byte
			for i := len(keys) - 1; i >= 0; i-- {
				ks = append(ks, []byte(keys[i]))
			}
			_, _ = snap.BatchGet(ctx, ks)
			for _, k := range ks {
				_, _ = snap.Get(ctx, k)
			}
		}()
	}
	readAt := func(ts uint64) Observation {
		o := Observation{TS: ts, Vals: map[string]string{}}
		snap := obs.Store.GetSnapshot(ts)
		var ks [][]byte
		for _, k := range keys {
			ks = append(ks, []byte(k))
		}
		m, err := snap.BatchGet(ctx, ks)
		if err != nil {
			o.Err = fmt.Sprintf("%T: %v", err, err)
			return o
		}
		for k, v := range m {
			o.Vals[k] = string(v.Value)
		}
		// the other access paths must agree with batch get at the same snapshot
		for _, k := range keys {
			v, err := snap.Get(ctx, []byte(k))
			got, ok := "", false
			if err == nil {
				got, ok = string(v.Value), true
			}
			if w, wok := o.Vals[k]; wok != ok || w != got {
				o.Err = fmt.Sprintf("get(%q)=(%q,%v) differs from batch get (%q,%v) at ts %d", k, got, ok, w, wok, ts)
			}
		}
		it, err := snap.Iter(nil, nil)
		scan := map[string]string{}
		for err == nil && it.Valid() {
			if k := it.Key(); len(k) > 0 && k[0] != 0xff {
				scan[string(k)] = string(it.Value())
			}
			err = it.Next()
		}
		if err != nil {
			o.Err = fmt.Sprintf("scan: %T: %v", err, err)
			return o
		}
		for _, k := range keys {
			if scan[k] != o.Vals[k] {
				o.Err = fmt.Sprintf("scan(%q)=%q differs from batch get %q at ts %d", k, scan[k], o.Vals[k], ts)
			}
		}
		return o
	}
	out = append(out, readAt(now))
	if second != nil {
		<-second
	}
	for _, ts := range earlier {
		if ts != 0 {
			out = append(out, readAt(ts))
		}
	}
	u.Drain()
	// one GC lock-resolution pass for the locks that block no reader (lock-only, pessimistic)
	if err := gcPass(); err != nil {
		return out, windows, err
	}
	return out, windows, nil
}

// staleResolver makes the region cache of a recovering client stale exactly when it matters: the first request of
// each resolver command it sends finds its region changed under it (a split between the keys the request names, or
// next to its only key; where the layout cannot split any more the store's answer is replaced by an EpochNotMatch).
func (e *Env) staleResolver(cl *uni.ClientStore) {
	u := e.U
	var mu sync.Mutex
	seen := map[tikvrpc.CmdType]bool{}
	cl.Net.SetDecider(func(c *uni.Call) uni.Action {
		var keys [][]byte
		switch r := c.Req.(type) {
		case *kvrpcpb.CheckTxnStatusRequest:
			keys = [][]byte{r.PrimaryKey}
		case *kvrpcpb.CheckSecondaryLocksRequest:
			keys = r.Keys
		case *kvrpcpb.ResolveLockRequest:
			if len(r.TxnInfos) > 0 {
				return uni.Action{} // the GC pass's batch form has a companion of its own
			}
			keys = r.Keys
		case *kvrpcpb.PessimisticRollbackRequest:
			keys = r.Keys
		default:
			return uni.Action{}
		}
		mu.Lock()
		defer mu.Unlock()
		if seen[c.Cmd] {
			return uni.Action{}
		}
		seen[c.Cmd] = true
		sorted := append([][]byte(nil), keys...)
		sort.Slice(sorted, func(i, j int) bool { return bytes.Compare(sorted[i], sorted[j]) < 0 })
		split := false
		if len(sorted) >= 2 {
			j := 1 + e.Pick%(len(sorted)-1)
			split = u.SplitAt(sorted[j])
		}
		if !split && len(sorted) >= 1 {
			split = u.SplitAt(append(append([]byte(nil), sorted[len(sorted)-1]...), 0))
		}
		e.cov("resolver_region_error:" + c.Cmd.String())
		if split {
			// the request carries the epoch from before the split: the store itself answers EpochNotMatch
			e.cov("resolver_region_error_by_real_split")
			return uni.Action{}
		}
		return uni.Action{Kind: uni.RegionErr, RegErr: &errorpb.Error{Message: "injected at recovery", EpochNotMatch: &errorpb.EpochNotMatch{}}}
	})
}

// Verdict of the oracles for one execution.
type Verdict struct {
	Committed bool
	CommitTS  uint64
	Problems  []Problem
	Locks     int
	Path      string // which resolver RPCs recovery used
}

// Problem is one failed clause.
type Problem struct {
	Sig string
	Msg string
}

// Judge evaluates all-or-nothing visibility at every probed snapshot, the
// final truth, leftover locks and ack consistency.
func (e *Env) Judge(rec *work.TxnRec, obs []Observation, ackKnown bool) (*Verdict, error) {
	v := &Verdict{}
	add := func(sig, f string, a ...any) { v.Problems = append(v.Problems, Problem{sig, fmt.Sprintf(f, a...)}) }
	// keys whose visible state the victim changes
	type want struct {
		newVal  string
		deleted bool
	}
	vis := map[string]want{}
	var allKeys []string
	for _, m := range e.Shape.Muts {
		allKeys = append(allKeys, m.Key)
		be, ok := rec.Buf[m.Key]
		if !ok {
			continue
		}
		if _, ow := e.Overwritten[m.Key]; ow {
			// another client's newer value is on top (and the data GC may have dropped the victim's version): the key
			// no longer shows the victim's outcome; locks and rollback records on it are still audited below
			continue
		}
		switch be.Kind {
		case work.BufPut:
			vis[m.Key] = want{newVal: be.Val}
		case work.BufDel:
			if !be.Insert {
				if _, had := e.Old[m.Key]; had {
					vis[m.Key] = want{deleted: true}
				}
			}
		}
	}
	e.covMu.Lock()
	v.Problems = append(v.Problems, e.Extra...)
	e.covMu.Unlock()
	// (a) all-or-none at every probed snapshot
	for _, o := range obs {
		if o.Err != "" {
			if strings.Contains(o.Err, "differs from") {
				add("read-paths-disagree", "%s", o.Err)
			}
			continue
		}
		var upd, notUpd []string
		for k, w := range vis {
			got, ok := o.Vals[k]
			isNew := (w.deleted && !ok) || (!w.deleted && ok && got == w.newVal)
			isOld := (ok && got == e.Old[k]) || (!ok && e.Old[k] == "")
			switch {
			case isNew:
				upd = append(upd, k)
			case isOld:
				notUpd = append(notUpd, k)
			default:
				add("read-neither-old-nor-new", "snapshot %d: key %q reads (%q,%v), neither the old value %q nor the victim's write", o.TS, k, got, ok, e.Old[k])
			}
		}
		if len(upd) > 0 && len(notUpd) > 0 {
			sort.Strings(upd)
			sort.Strings(notUpd)
			add("partial-visibility", "snapshot %d: keys %v show the victim's writes, keys %v do not", o.TS, upd, notUpd)
		}
	}
	// (b) final truth
	var ks [][]byte
	for _, k := range allKeys {
		ks = append(ks, []byte(k))
	}
	truth, err := e.U.ReadTruth(ks)
	if err != nil {
		return nil, err
	}
	var with, without []string
	cts := map[uint64]bool{}
	for k, wnt := range vis {
		kt := truth.Keys[k]
		if w := kt.WriteOf(rec.StartTS); w != nil && (w.Type == kvrpcpb.Op_Put || w.Type == kvrpcpb.Op_Del) {
			with = append(with, k)
			cts[w.CommitTS] = true
			v.CommitTS = w.CommitTS
		} else if e.DataGCDone && wnt.deleted {
			// a committed delete below the safe point leaves no record after the data GC: the key's record says
			// nothing about the outcome any more (its visible state was judged above)
			continue
		} else {
			without = append(without, k)
		}
	}
	sort.Strings(with)
	sort.Strings(without)
	v.Committed = len(with) > 0
	if len(with) > 0 && len(without) > 0 {
		add("truth-partial", "keys %v carry a version of the victim, keys %v do not", with, without)
	}
	if len(cts) > 1 {
		add("truth-mixed-commit-ts", "the victim's versions carry different commit timestamps %v", cts)
	}
	// lock-only / converted keys: a Lock record, if present, must carry the same commit ts; no key may be
	// both committed and rolled back
	for _, k := range allKeys {
		kt := truth.Keys[k]
		w := kt.WriteOf(rec.StartTS)
		if w != nil && kt.RolledBack(rec.StartTS) {
			add("truth-committed-and-rolled-back", "key %q: the victim is both committed and rolled back", k)
		}
		if w != nil && len(cts) == 1 && !cts[w.CommitTS] {
			add("truth-mixed-commit-ts", "key %q: record of the victim with commit ts %d, other keys have %v", k, w.CommitTS, cts)
		}
		if w != nil && len(vis) > 0 && len(with) == 0 {
			add("truth-partial", "key %q carries a %s record of the victim but none of its data keys is committed", k, w.Type)
		}
	}
	// (c) no lock of the victim remains after the bounded recovery procedure
	locks, err := e.U.ScanLocksTruth()
	if err != nil {
		return nil, err
	}
	for _, l := range locks {
		if l.StartTS == rec.StartTS {
			v.Locks++
			add("lock-left-after-recovery", "lock of the victim remains on %q (type %s, primary %q) after reads + one GC resolve pass", l.Key, l.Type, l.Primary)
		}
	}
	// (d) ack consistency
	if ackKnown && rec.EndKind == "commit" {
		switch rec.CommitClass {
		case work.ENone:
			if len(vis) > 0 && !v.Committed {
				add("ack-nil-but-not-committed", "Commit returned nil but no key carries the victim's version")
			}
			if v.Committed && rec.CommitTS != 0 && len(cts) == 1 && !cts[rec.CommitTS] {
				add("ack-commit-ts-mismatch", "CommitTS()=%d, the store has %v", rec.CommitTS, cts)
			}
		case work.EUndetermined, work.EKilled:
		default:
			if v.Committed {
				add("ack-error-but-committed:"+string(rec.CommitClass), "Commit returned %q (%s) but keys %v carry the victim's version", rec.CommitErr, rec.CommitClass, with)
			}
		}
	}
	// which resolver path recovered it
	path := map[string]bool{}
	for _, c := range e.U.Log.Calls() {
		if c.Client == e.Victim.ID || c.StartTS != rec.StartTS {
			continue
		}
		switch c.Cmd {
		case tikvrpc.CmdCheckTxnStatus, tikvrpc.CmdCheckSecondaryLocks, tikvrpc.CmdResolveLock, tikvrpc.CmdPessimisticRollback:
			path[c.Cmd.String()] = true
		}
	}
	var ps []string
	for p := range path {
		ps = append(ps, p)
	}
	sort.Strings(ps)
	v.Path = strings.Join(ps, "+")
	return v, nil
}

// Primary returns the primary key the victim's prewrites named (from a call list).
func Primary(calls []uni.Call) string {
	for _, c := range calls {
		switch r := c.Req.(type) {
		case *kvrpcpb.PrewriteRequest:
			return string(r.PrimaryLock)
		case *kvrpcpb.PessimisticLockRequest:
			return string(r.PrimaryLock)
		}
	}
	return ""
}

// ContainsKey reports whether the commit request of call c covers key.
func ContainsKey(c *uni.Call, key string) bool {
	if r, ok := c.Req.(*kvrpcpb.CommitRequest); ok {
		for _, k := range r.Keys {
			if bytes.Equal(k, []byte(key)) {
				return true
			}
		}
	}
	return false
}

// WaitOrTimeout waits for ch at most d (wall clock: a watchdog, not an oracle).
func WaitOrTimeout(ch chan struct{}, d time.Duration) bool {
	select {
	case <-ch:
		return true
	case <-time.After(d):
		return false
	}
}
