//go:build verif

package crash

import (
	"context"
	"fmt"
	"math/rand"
	"os"
	"sort"
	"sync/atomic"
	"testing"
	"time"

	"github.com/pingcap/failpoint"
	"github.com/pingcap/kvproto/pkg/errorpb"
	"github.com/pingcap/kvproto/pkg/kvrpcpb"
	tikverr "github.com/tikv/client-go/v2/error"
	"github.com/tikv/client-go/v2/tikvrpc"
	"github.com/tikv/client-go/v2/verifh/vrep"

	"verif/e2e/trace"
	"verif/e2e/uni"
	"verif/e2e/work"
)

// layouts / mutation sets of the small shapes
func shapes(thorough bool) []Shape {
	type base struct {
		muts   []Mut
		splits []string
		pre    []string
	}
	bases := []base{
		{[]Mut{{"k1", MPut}, {"k3", MPut}}, []string{"k2"}, []string{"k1"}},                                 // 2 keys / 2 regions, primary in region 1
		{[]Mut{{"k1", MDel}, {"k3", MPut}, {"k4", MLock}}, []string{"k2", "k4"}, []string{"k1", "k3"}},      // 3 regions, delete + lock-only
		{[]Mut{{"k1", MInsert}, {"k2", MPut}}, nil, []string{"k2"}},                                         // 1 region, insert
		{[]Mut{{"k1", MPut}}, nil, []string{"k1"}},                                                          // single key
		{[]Mut{{"k3", MPut}, {"k1", MPut}, {"k2", MDel}}, []string{"k2", "k3"}, []string{"k1", "k2", "k3"}}, // 3 keys / 3 regions (pessimistic: primary k3)
	}
	if thorough {
		bases = append(bases,
			base{[]Mut{{"k1", MPut}, {"k2", MPut}, {"k3", MPut}, {"k4", MPut}}, []string{"k2", "k4"}, []string{"k1", "k2", "k3", "k4"}},
			base{[]Mut{{"k2", MInsert}, {"k4", MDel}, {"k1", MLock}}, []string{"k3"}, []string{"k4"}},
			base{[]Mut{{"k4", MPut}, {"k2", MLock}}, []string{"k3"}, nil},
			base{[]Mut{{"k1", MDel}, {"k2", MDel}}, []string{"k2"}, []string{"k1", "k2"}},
		)
	}
	var out []Shape
	for _, be := range []string{uni.Mock, uni.Uni} {
		if only := os.Getenv("VERIF_CRASH_BACKEND"); only != "" && only != be {
			continue // the enumeration is split by back-end into units that run side by side
		}
		for _, pess := range []bool{false, true} {
			if only := os.Getenv("VERIF_CRASH_PESS"); only != "" && (only == "1") != pess {
				continue
			}
			modes := [][2]bool{{false, false}}
			if be == uni.Uni {
				modes = append(modes, [2]bool{true, false}, [2]bool{true, true})
			}
			for _, m := range modes {
				for bi, b := range bases {
					if be == uni.Uni && m[0] {
						// unistore (trusted as given) records the commit of a lock-only key only when it is the primary:
						// a lock-only *secondary* committed before the primary leaves no trace, and async-commit recovery
						// then takes the transaction for rolled back (TiKV writes a Lock record).  Lock-only mutations of
						// async-commit / 1PC shapes are therefore only driven as puts there.
						muts := append([]Mut(nil), b.muts...)
						for i := range muts {
							if muts[i].Kind == MLock {
								muts[i].Kind = MPut
							}
						}
						b.muts = muts
					}
					out = append(out, Shape{Backend: be, Pessimistic: pess, Async: m[0], OnePC: m[1], Muts: b.muts, Splits: b.splits, Pre: b.pre})
					if pess && (bi == 0 || (thorough && bi == 4)) {
						// the same shape after a LockKeys statement of the transaction has failed
						out = append(out, Shape{Backend: be, Pessimistic: pess, Async: m[0], OnePC: m[1], Muts: b.muts, Splits: b.splits, Pre: b.pre, FailedLock: true})
					}
					if be == uni.Uni && m[0] && (bi == 0 || bi == 2 || bi == 3 || thorough) {
						// the same shape when the store refuses async commit / 1PC (fallback to 2PC after the prewrite)
						out = append(out, Shape{Backend: be, Pessimistic: pess, Async: m[0], OnePC: m[1], Muts: b.muts, Splits: b.splits, Pre: b.pre, Fallback: true})
					}
				}
			}
		}
	}
	return out
}

// gcSplitShapes: layouts in which one region holds two or more secondaries of the victim while the primary lives in
// another region - what a GC lock-resolution pass needs to meet several locks of one dead transaction in one region
// (family "gc-split": the primary is overwritten by somebody else before the pass, the region splits between the
// scanned locks while the pass's batch ResolveLock is on the wire, the data GC follows the pass).
func gcSplitShapes(thorough bool) []Shape {
	type base struct {
		muts   []Mut
		splits []string
		pre    []string
	}
	bases := []base{
		{[]Mut{{"k1", MPut}, {"k2", MPut}, {"k3", MPut}}, []string{"k2"}, []string{"k1", "k2", "k3"}},
	}
	if thorough {
		bases = append(bases,
			base{[]Mut{{"k1", MPut}, {"k2", MPut}, {"k3", MPut}, {"k4", MPut}}, []string{"k2"}, []string{"k1", "k2", "k3", "k4"}},
			base{[]Mut{{"k4", MPut}, {"k1", MPut}, {"k2", MInsert}, {"k3", MPut}}, []string{"k4"}, []string{"k1", "k3", "k4"}},
		)
	}
	var out []Shape
	for _, be := range []string{uni.Mock, uni.Uni} {
		if only := os.Getenv("VERIF_CRASH_BACKEND"); only != "" && only != be {
			continue
		}
		for _, pess := range []bool{false, true} {
			if only := os.Getenv("VERIF_CRASH_PESS"); only != "" && (only == "1") != pess {
				continue
			}
			modes := [][2]bool{{false, false}}
			if be == uni.Uni {
				modes = append(modes, [2]bool{true, false})
			}
			for _, m := range modes {
				for _, b := range bases {
					out = append(out, Shape{Backend: be, Pessimistic: pess, Async: m[0], OnePC: m[1], Muts: b.muts, Splits: b.splits, Pre: b.pre})
				}
			}
		}
	}
	return out
}

func withSkipSleep() func() {
	_ = failpoint.Enable("tikvclient/fastBackoffBySkipSleep", "return")
	return func() { failpoint.Disable("tikvclient/fastBackoffBySkipSleep") }
}

// dryRun executes the shape without faults and returns the commit-path points and the primary.
func dryRun(r *vrep.Report, sh Shape) ([]Point, string, *work.TxnRec, bool) {
	env, err := NewEnv(sh)
	if err != nil {
		r.Inconc("%s: env: %v", sh, err)
		return nil, "", nil, false
	}
	defer env.Close()
	rec := env.RunVictim(nil)
	env.U.Drain()
	calls := env.VictimCalls(rec.StartTS)
	pts := CommitPathPoints(calls, rec.EndCallSeq)
	return pts, Primary(calls), rec, true
}

func TestVerifC02(t *testing.T) {
	r := vrep.New("C02", "c02-crash", "for every small transaction shape (1-4 keys over 1-3 regions, put/delete/insert/lock-only, optimistic+pessimistic, 2PC on mocktikv and unistore, async commit and 1PC on unistore) a fault-free dry run yields the RPC trace of Commit; then for every request of that trace the client store is killed with the request never delivered / delivered but unanswered; afterwards the virtual clock passes every TTL, a fresh observer reads all keys (get, batch get, scan at a new and at an earlier snapshot), runs one GC resolve pass, and the per-key MVCC truth is audited: all-or-nothing at every snapshot and in the truth, one commit ts, no lock left, ack consistency; recovery companions in rotation (regions split, warm reader, two readers, locker, GC pass first, leaders move, GC pass whose region splits between the locks it scanned before its batch ResolveLock arrives, reader whose resolver requests - CheckTxnStatus / CheckSecondaryLocks / ResolveLock / PessimisticRollback - meet a region that changed under them); every successful GC pass is held to its contract (no lock with start ts <= safe point left in the MVCC truth); family gc-split: layouts with several secondaries in one region, primary overwritten by another client before the pass, data GC at the pass's safe point after it (mocktikv), readers with their own status cache afterwards; distinct = distinct (shape, crash point, delivered?, outcome, recovery path)")
	defer r.Finish(t)
	tr := vrep.New("C04", "c04-on-c02", "C04 trace monitor over the C02 crash executions (owner killed; recovery by observer resolvers and one GC pass)")
	defer tr.Finish(t)
	defer withSkipSleep()()
	shs := shapes(vrep.Thorough())
	crng := vrep.Rand("c02-companions")
	nExec := 0
	for _, sh := range shs {
		pts, primary, drec, ok := dryRun(r, sh)
		if !ok {
			continue
		}
		if drec.CommitClass != work.ENone {
			r.Violate("dry-run-commit-failed", fmt.Sprintf("%s: fault-free Commit returned %q", sh, drec.CommitErr), nil)
			continue
		}
		r.Count("shapes", 1)
		r.Count("crash_points", len(pts))
		for _, pt := range pts {
			// async-commit recovery asks several regions in parallel: which answer is processed first is a race,
			// so crash points inside the prewrite phase of async shapes are taken several times
			reps := 1
			if sh.Async && pt.Cmd == tikvrpc.CmdPrewrite {
				reps = vrep.Pick(3, 8)
			}
			for rep := 0; rep < reps; rep++ {
				for _, delivered := range []bool{false, true} {
					// what else happens while the dead client's transaction is recovered: quick takes the
					// companions in rotation (offset by the seed), thorough adds two seed-chosen ones to the plain recovery
					nExec++
					comps := []Companion{Companion((nExec + int(vrep.Seed())) % int(NCompanions))}
					if vrep.Thorough() {
						comps = []Companion{CompNone, Companion(1 + crng.Intn(int(NCompanions)-1)), Companion(1 + crng.Intn(int(NCompanions)-1))}
					}
					for _, comp := range comps {
						runCrash(r, tr, sh, pt, delivered, primary, comp, crashOpt{pick: nExec / int(NCompanions)})
					}
				}
			}
		}
		r.Flush()
	}
	// family gc-split: every crash point of the layouts with several secondaries in one region, recovered by a GC pass
	// whose region splits between the scanned locks, after the primary was overwritten and before the data GC
	for _, sh := range gcSplitShapes(vrep.Thorough()) {
		pts, primary, drec, ok := dryRun(r, sh)
		if !ok {
			continue
		}
		if drec.CommitClass != work.ENone {
			r.Violate("dry-run-commit-failed", fmt.Sprintf("%s: fault-free Commit returned %q", sh, drec.CommitErr), nil)
			continue
		}
		r.Count("gc_split_family_shapes", 1)
		for pi, pt := range pts {
			for _, delivered := range []bool{false, true} {
				reps := 1
				if vrep.Thorough() {
					reps = 2
				}
				for rep := 0; rep < reps; rep++ {
					runCrash(r, tr, sh, pt, delivered, primary, CompGCSplit, crashOpt{pick: pi + rep + int(vrep.Seed()), family: true})
					r.Count("gc_split_family_executions", 1)
				}
			}
		}
		r.Flush()
	}
	r.Floor("crash_executions", 100)
	r.Floor("gc_split_family_executions", 20)
	// the families the recovery companions exist for must have been exercised, not just scheduled
	r.Floor("gc_split_between_scanned_locks", 10)
	r.Floor("gc_split_overwrites", 10)
	r.Floor("data_gc_regions", 5)
	r.Floor("resolver_region_error:CheckTxnStatus", 5)
	r.Floor("resolver_region_error:ResolveLock", 5)
	r.Floor("resolver_region_error:CheckSecondaryLocks", 3)
	r.Floor("outcome_committed", 10)
	r.Floor("outcome_rolled_back", 10)
	r.Floor("ack_known_success", 5)
	for c := CompNone; c < NCompanions; c++ {
		r.Floor("companion:"+c.String(), 10)
	}
}

// crashOpt: pick varies the seed/rotation dependent choices of a companion; family = the gc-split family (primary
// overwritten before the GC pass, data GC after it)
type crashOpt struct {
	pick   int
	family bool
}

func runCrash(r, tr *vrep.Report, sh Shape, pt Point, delivered bool, primary string, comp Companion, opt crashOpt) {
	env, err := NewEnv(sh)
	if err != nil {
		r.Inconc("%s: env: %v", sh, err)
		return
	}
	defer env.Close()
	env.Pick = opt.pick
	if opt.family {
		env.OverwriteBeforeGC = []string{primary}
		env.DataGC = true
	}
	commitReturned := make(chan struct{})
	m := NewMatcher()
	var fired, ackAtKill atomic.Bool
	fg := IsForeground(sh, pt, primary)
	env.Victim.Net.SetDecider(func(c *uni.Call) uni.Action {
		if fired.Load() || !m.Hit(c, pt) {
			return uni.Action{}
		}
		fired.Store(true)
		kind := uni.KillBefore
		if delivered {
			kind = uni.KillAfter
		}
		return uni.Action{Kind: kind, Before: func() {
			if !fg {
				// a background request: let Commit return first, so that what the dead client had been told is known
				ackAtKill.Store(WaitOrTimeout(commitReturned, 400*time.Millisecond))
			}
		}}
	})
	rec := env.RunVictim(commitReturned)
	if !fired.Load() {
		// the victim may still be sending background requests: give the point a moment to be reached
		for i := 0; i < 200 && !fired.Load(); i++ {
			time.Sleep(time.Millisecond)
		}
	}
	if !fired.Load() {
		r.Count("point_not_reached", 1)
		return
	}
	// wait until the kill has happened (the gated request may still be waiting)
	for i := 0; i < 2000 && !env.Victim.Net.Killed(); i++ {
		time.Sleep(time.Millisecond)
	}
	env.U.Drain()
	t0, _ := env.Obs.Store.CurrentTimestamp("global")
	var keys []string
	for _, mu := range sh.Muts {
		keys = append(keys, mu.Key)
	}
	obs, gcws, err := env.RecoverWith(keys, []uint64{t0}, comp)
	if err != nil {
		r.Inconc("%s @%s delivered=%v companion=%s: recovery: %v", sh, pt, delivered, comp, err)
		return
	}
	r.Count("companion:"+comp.String(), 1)
	for k, n := range env.CovCounts() {
		r.Count(k, n)
	}
	if env.LockerLivelock.Load() {
		r.Violate("recovery-livelock:locker", fmt.Sprintf("%s @%s delivered=%v companion=%s: a pessimistic transaction locking the dead transaction's keys after their locks expired sent more than %d requests in one LockKeys call without finishing", sh, pt, delivered, comp, LockerRPCBound),
			map[string]any{"shape": sh.String(), "point": pt.String(), "delivered": delivered, "calls_tail": callTail(env, 30)})
	}
	ackKnown := ackAtKill.Load() && rec.CommitClass != work.EKilled
	v, err := env.Judge(rec, obs, ackKnown)
	if err != nil {
		r.Inconc("%s @%s: judge: %v", sh, pt, err)
		return
	}
	r.Eval(1)
	r.Count("crash_executions", 1)
	label := fmt.Sprintf("%s @%s delivered=%v companion=%s", sh, pt, delivered, comp)
	if opt.family {
		label += "+primary-overwritten+data-gc"
	}
	for _, p := range v.Problems {
		r.Violate(p.Sig, label+": "+p.Msg, map[string]any{"shape": sh.String(), "point": pt.String(), "delivered": delivered, "companion": comp.String(), "ack_known": ackKnown,
			"commit_class": rec.CommitClass, "commit_err": rec.CommitErr, "observations": obs, "calls": callDump(env)})
	}
	for _, p := range env.U.Panics() {
		r.Violate("backend-panic:"+p.Msg, label+": the store panicked serving "+p.Req, nil)
	}
	out := "rolled_back"
	if v.Committed {
		out = "committed"
	}
	r.Count("outcome_"+out, 1)
	if ackKnown {
		if rec.CommitClass == work.ENone {
			r.Count("ack_known_success", 1)
		} else {
			r.Count("ack_known_error", 1)
		}
	}
	r.Count("recovery_path:"+v.Path, 1)
	r.Distinct(fmt.Sprintf("%s|%s|%v|%s|%s|%s|ack=%v", sh, pt, delivered, comp, out, v.Path, ackKnown))
	if r.SampleN() < 5 && (v.Path != "" || r.SampleN() < 2) {
		r.Sample(map[string]any{"shape": sh.String(), "crash_point": pt.String(), "delivered": delivered, "companion": comp.String(), "outcome": out, "recovery_path": v.Path, "ack_known": ackKnown, "commit_class": rec.CommitClass})
	}
	trace.CheckUniverse(tr, env.U, []*work.TxnRec{rec}, label, trace.Options{CheckBuffer: true, GCWindows: gcws})
}

func callTail(env *Env, n int) []string {
	cs := env.U.Log.Calls()
	if len(cs) > n {
		cs = cs[len(cs)-n:]
	}
	var out []string
	for _, c := range cs {
		out = append(out, fmt.Sprintf("#%d..%d c%d %s %s err=%q regErr=%v :: %.240v => %.200v", c.Seq, c.RetSeq, c.Client, c.Cmd, c.Action, c.Err, c.RegionErr != nil, c.Req, c.Resp))
	}
	return out
}

func callDump(env *Env) []string {
	var out []string
	for _, c := range env.U.Log.Calls() {
		switch c.Cmd {
		case tikvrpc.CmdStoreSafeTS, tikvrpc.CmdGet, tikvrpc.CmdBatchGet, tikvrpc.CmdScan, tikvrpc.CmdMvccGetByKey, tikvrpc.CmdScanLock:
			continue
		}
		if len(out) < 70 {
			out = append(out, fmt.Sprintf("#%d..%d c%d %s %s err=%q regErr=%v :: %.240v => %.200v", c.Seq, c.RetSeq, c.Client, c.Cmd, c.Action, c.Err, c.RegionErr != nil, c.Req, c.Resp))
		}
	}
	return out
}

// ---------------------------------------------------------------- C03

type fault struct {
	name string
	mk   func(env *Env, c *uni.Call) uni.Action
	// affects the commit point when applied to a commit-point request
	loses bool
}

// stickyFault: after the fault fired, every later request of the same command gets this region error until Commit has
// returned (the region stays unavailable for the rest of the call: the sender's retries and the committer's own
// region-error handling run out of budget)
type stickyFault struct {
	f      fault
	sticky *errorpb.Error
	// cleanupLost: from the fault on, none of the victim's clean-up requests (BatchRollback, PessimisticRollback)
	// reaches the store either - the answer Commit gives must be true by itself, not made true by the clean-up
	cleanupLost bool
	// split: right after the lost request/response the region of that request is split (its epoch changes): the
	// sender's retry with the old epoch is answered EpochNotMatch by the store itself, the committer regroups the
	// batch, and only the regrouped requests (new epoch) meet the sticky region error
	split bool
}

// reqKeys lists the keys a Prewrite / Commit request covers.
func reqKeys(c *uni.Call) [][]byte {
	var ks [][]byte
	switch r := c.Req.(type) {
	case *kvrpcpb.PrewriteRequest:
		for _, m := range r.Mutations {
			ks = append(ks, m.Key)
		}
	case *kvrpcpb.CommitRequest:
		ks = append(ks, r.Keys...)
	}
	return ks
}

// stickySplitFaults: a commit-point request/response is lost, the region splits (between the keys of the request, or
// next to its only key), and after the regroup the new regions answer nothing but RegionNotFound.
func stickySplitFaults(sh Shape) []stickyFault {
	var out []stickyFault
	for _, f := range []fault{dropResponse(sh), faults(sh)[0]} {
		f.name += "+then-split-then-only-region-not-found"
		out = append(out, stickyFault{f: f, sticky: &errorpb.Error{Message: "injected", RegionNotFound: &errorpb.RegionNotFound{}}, split: true})
	}
	return out
}

// splitUnder splits the region request c went to: between its keys, else right after / at its only key.
func splitUnder(env *Env, c *uni.Call) bool {
	ks := reqKeys(c)
	var cands [][]byte
	for _, k := range ks[min(1, len(ks)):] {
		cands = append(cands, k)
	}
	for _, k := range ks {
		cands = append(cands, append(append([]byte(nil), k...), 0), k)
	}
	for _, k := range cands {
		if env.U.SplitAt(k) {
			return true
		}
	}
	return false
}

// stickyFaults: a request/response is lost and the region answers nothing but region errors from then on.
func stickyFaults(sh Shape) []stickyFault {
	var out []stickyFault
	for _, se := range []struct {
		name string
		e    *errorpb.Error
	}{
		{"region-not-found", &errorpb.Error{Message: "injected", RegionNotFound: &errorpb.RegionNotFound{}}},
		{"not-leader", &errorpb.Error{Message: "injected", NotLeader: &errorpb.NotLeader{}}},
	} {
		for _, f := range []fault{dropResponse(sh), faults(sh)[0]} {
			f.name += "+then-only-" + se.name
			out = append(out, stickyFault{f: f, sticky: se.e})
			if se.name == "region-not-found" {
				g := f
				g.name += "+cleanup-lost"
				out = append(out, stickyFault{f: g, sticky: se.e, cleanupLost: true})
			}
		}
	}
	return out
}

func regErr(e *errorpb.Error) func(*Env, *uni.Call) uni.Action {
	return func(*Env, *uni.Call) uni.Action { return uni.Action{Kind: uni.RegionErr, RegErr: e} }
}

func faults(sh Shape) []fault {
	fs := []fault{
		{"drop-request", func(*Env, *uni.Call) uni.Action { return uni.Action{Kind: uni.DropReq} }, true},
		{"deliver-late", func(*Env, *uni.Call) uni.Action { return uni.Action{Kind: uni.Late} }, true},
		{"not-leader", regErr(&errorpb.Error{Message: "injected", NotLeader: &errorpb.NotLeader{}}), false},
		{"epoch-not-match", regErr(&errorpb.Error{Message: "injected", EpochNotMatch: &errorpb.EpochNotMatch{}}), false},
		{"server-is-busy", regErr(&errorpb.Error{Message: "injected", ServerIsBusy: &errorpb.ServerIsBusy{Reason: "verif"}}), false},
		{"stale-command", regErr(&errorpb.Error{Message: "injected", StaleCommand: &errorpb.StaleCommand{}}), false},
		{"region-split", func(env *Env, c *uni.Call) uni.Action {
			return uni.Action{Before: func() {
				for _, m := range env.Shape.Muts {
					if env.U.SplitAt([]byte(m.Key)) {
						return
					}
				}
				env.U.SplitAt([]byte("k1\x00"))
			}}
		}, false},
		{"resolver-expires-lock", func(env *Env, c *uni.Call) uni.Action {
			return uni.Action{Before: func() {
				// another client considers the victim's locks expired and resolves them now
				env.U.AdvanceClock(2 * 3600 * 1000)
				o, err := env.U.NewClient()
				if err != nil {
					return
				}
				txn, err := o.Begin()
				if err != nil {
					return
				}
				var ks [][]byte
				for _, m := range env.Shape.Muts {
					ks = append(ks, []byte(m.Key))
				}
				_, _ = txn.BatchGet(context.Background(), ks)
				_ = txn.Rollback()
			}}
		}, false},
	}
	// the caller gives up while Commit is running: its context ends at this request, which is then never delivered /
	// delivered but unanswered (a cancelled call is not retried by the sender)
	fs = append(fs,
		fault{"ctx-cancel+drop-request", func(env *Env, c *uni.Call) uni.Action {
			return uni.Action{Kind: uni.DropReq, Before: env.CancelCommit}
		}, true},
		fault{"ctx-cancel+drop-response", func(env *Env, c *uni.Call) uni.Action {
			// cancelled once the store has executed the request (the interposer does not deliver a request whose
			// context has already ended)
			return uni.Action{Kind: uni.DropResp, After: env.CancelCommit}
		}, true},
		fault{"ctx-cancel-after-answer", func(env *Env, c *uni.Call) uni.Action {
			return uni.Action{After: env.CancelCommit}
		}, false},
	)
	if !sh.Async && !sh.OnePC {
		// a reader with a fresh timestamp meets the victim's (live) locks at this instant: its resolver pushes the
		// primary's min_commit_ts above its own timestamp and reads the old values; the victim's commit must then land
		// above the reader's snapshot (commit-ts-expired retry).  Not for async commit / 1PC: a reader cannot push those
		// locks and would wait for the ttl.
		fs = append(fs, fault{"reader-pushes-min-commit-ts", func(env *Env, c *uni.Call) uni.Action {
			return uni.Action{Before: func() {
				o, err := env.U.NewClient()
				if err != nil {
					return
				}
				ts, err := o.Store.CurrentTimestamp("global")
				if err != nil {
					return
				}
				ctx, cancel := context.WithTimeout(context.Background(), 3*time.Second)
				defer cancel()
				snap := o.Store.GetSnapshot(ts)
				pr := PushRead{TS: ts, Vals: map[string]string{}}
				for _, m := range env.Shape.Muts {
					v, err := snap.Get(ctx, []byte(m.Key))
					switch {
					case err == nil:
						pr.Vals[m.Key] = string(v.Value)
					case tikverr.IsErrNotFound(err):
					default:
						pr.Err = fmt.Sprintf("%T: %v", err, err)
					}
				}
				env.PushMu.Lock()
				env.PushReads = append(env.PushReads, pr)
				env.PushMu.Unlock()
			}}
		}, false})
	}
	return fs
}

func dropResponse(sh Shape) fault {
	return fault{"drop-response", func(env *Env, c *uni.Call) uni.Action {
		if env.Shape.Backend == uni.Uni && c.Cmd == tikvrpc.CmdCommit {
			// unistore answers a repeated Commit of a committed Lock/Delete primary with "lock not found"
			// (TiKV answers success); the sender's retry after a lost response would be misled there
			return uni.Action{Kind: uni.DropReq}
		}
		return uni.Action{Kind: uni.DropResp}
	}, true}
}

func isCommitPoint(sh Shape, pt Point, primary string, asyncEffective bool) bool {
	switch pt.Cmd {
	case tikvrpc.CmdPrewrite:
		return asyncEffective
	case tikvrpc.CmdCommit:
		return IsForeground(Shape{}, pt, primary) || asyncEffective
	}
	return false
}

type injected struct {
	pt          Point
	f           fault
	fired       atomic.Bool
	sticky      *errorpb.Error
	cleanupLost bool
	// split plans: the region (id, version) the lost request was addressed to, and whether the split happened
	split              bool
	firedRID, firedVer atomic.Uint64
	splitDone          atomic.Bool
}

// nFaultExec counts the fault executions of this process (rotation of the recovery companions)
var nFaultExec int

func runFaults(r, tr *vrep.Report, sh Shape, primary string, plan []*injected) {
	env, err := NewEnv(sh)
	if err != nil {
		r.Inconc("%s: env: %v", sh, err)
		return
	}
	defer env.Close()
	m := NewMatcher()
	commitReturned := make(chan struct{})
	env.Victim.Net.SetDecider(func(c *uni.Call) uni.Action {
		// one matcher call per request (it counts occurrences)
		var hit *injected
		s := Sig(c)
		n := m.Count(c, s)
		for _, in := range plan {
			if in.cleanupLost && in.fired.Load() && (c.Cmd == tikvrpc.CmdBatchRollback || c.Cmd == tikvrpc.CmdPessimisticRollback) {
				return uni.Action{Kind: uni.DropReq}
			}
			if in.split && in.fired.Load() && c.Cmd == in.pt.Cmd && c.RegionID == in.firedRID.Load() && c.RegionVer == in.firedVer.Load() {
				// the retry with the old epoch reaches the store, which knows better (EpochNotMatch)
				return uni.Action{}
			}
			if in.sticky != nil && in.fired.Load() && c.Cmd == in.pt.Cmd {
				if sh.Async || sh.OnePC {
					// Commit of an async-commit / 1PC transaction returns before its commit requests are sent: the
					// region stays unavailable for the background work as well (recovery by others decides then)
					return uni.Action{Kind: uni.RegionErr, RegErr: in.sticky}
				}
				select {
				case <-commitReturned:
				default:
					return uni.Action{Kind: uni.RegionErr, RegErr: in.sticky}
				}
			}
		}
		for _, in := range plan {
			if !in.fired.Load() && in.pt.Sig == s && in.pt.N == n {
				in.fired.Store(true)
				hit = in
				break
			}
		}
		if hit == nil {
			return uni.Action{}
		}
		act := hit.f.mk(env, c)
		if hit.split {
			hit.firedRID.Store(c.RegionID)
			hit.firedVer.Store(c.RegionVer)
			sp := func() { hit.splitDone.Store(splitUnder(env, c)) }
			if act.Kind == uni.DropReq {
				act.Before = sp
			} else {
				act.After = sp
			}
		}
		return act
	})
	rec := env.RunVictim(commitReturned)
	env.U.Drain()
	var names []string
	lost := false
	anyFired := false
	for _, in := range plan {
		names = append(names, in.f.name+"@"+in.pt.String())
		if in.fired.Load() {
			anyFired = true
		}
	}
	if !anyFired {
		r.Count("plan_not_reached", 1)
		return
	}
	for _, in := range plan {
		if !in.split || !in.fired.Load() || !in.splitDone.Load() {
			continue
		}
		r.Count("sticky_split_plans_executed", 1)
		// did the regroup happen: the store answered EpochNotMatch to the old epoch, and a later request of the same
		// command went out under another (region, version)
		epochSeq := int64(0)
		regrouped, stuck := false, false
		for _, c := range env.VictimCalls(rec.StartTS) {
			if c.Cmd != in.pt.Cmd {
				continue
			}
			old := c.RegionID == in.firedRID.Load() && c.RegionVer == in.firedVer.Load()
			switch {
			case old && c.RegionErr.GetEpochNotMatch() != nil && epochSeq == 0:
				epochSeq = c.Seq
			case !old && epochSeq != 0 && c.Seq > epochSeq:
				regrouped = true
				if c.RegionErr.GetRegionNotFound() != nil {
					stuck = true
				}
			}
		}
		if epochSeq != 0 {
			r.Count("sticky_split_epoch_not_match", 1)
		}
		if regrouped {
			r.Count("sticky_split_regrouped", 1)
		}
		if stuck {
			r.Count("sticky_split_regrouped_then_region_errors", 1)
		}
	}
	asyncEffective := rec.IsAsync || rec.Is1PC || sh.Async || sh.OnePC
	for _, in := range plan {
		if in.fired.Load() && in.f.loses && isCommitPoint(sh, in.pt, primary, asyncEffective) {
			lost = true
		}
	}
	// whatever the cause (a fault at an earlier request that ended the caller's context, say): a commit-point request
	// of the victim that ended with a transport error is a request whose outcome the client could not learn
	for _, c := range env.VictimCalls(rec.StartTS) {
		if c.Err == "" {
			continue
		}
		switch c.Cmd {
		case tikvrpc.CmdCommit:
			// (also for shapes that ask for async commit / 1PC: the store may have refused it, and then the
			// primary's Commit request is the commit point)
			if ContainsKey(&c, primary) {
				lost = true
			}
		case tikvrpc.CmdPrewrite:
			if asyncEffective {
				lost = true
			}
		}
	}
	var keys []string
	for _, mu := range sh.Muts {
		keys = append(keys, mu.Key)
	}
	t0, _ := env.Obs.Store.CurrentTimestamp("global")
	// who recovers: mostly a plain observer; transactions whose second phase was lost for good after Commit answered
	// (sticky plans on async commit / 1PC) and every eighth execution are recovered by a resolver whose region cache
	// goes stale under its requests, another eighth by a GC pass whose region splits between the scanned locks
	comp := CompNone
	nFaultExec++
	env.Pick = nFaultExec / 8
	stickyBackground := false
	for _, in := range plan {
		if in.sticky != nil && in.fired.Load() && (sh.Async || sh.OnePC) {
			stickyBackground = true
		}
	}
	switch {
	case stickyBackground || nFaultExec%8 == 3:
		comp = CompResolverRegionErr
	case nFaultExec%8 == 7:
		comp = CompGCSplit
	}
	obs, gcws, err := env.RecoverWith(keys, []uint64{t0}, comp)
	label := fmt.Sprintf("%s faults=%v", sh, names)
	if comp != CompNone {
		label += " recovery=" + comp.String()
	}
	if err != nil {
		r.Inconc("%s: recovery: %v", label, err)
		return
	}
	r.Count("recovery:"+comp.String(), 1)
	for k, n := range env.CovCounts() {
		r.Count(k, n)
	}
	v, err := env.Judge(rec, obs, true)
	if err != nil {
		r.Inconc("%s: judge: %v", label, err)
		return
	}
	r.Eval(1)
	r.Count("fault_executions", 1)
	detail := map[string]any{"shape": sh.String(), "faults": names, "commit_class": rec.CommitClass, "commit_err": rec.CommitErr, "observations": obs, "calls": callDump(env)}
	for _, p := range v.Problems {
		r.Violate(p.Sig, label+": "+p.Msg, detail)
	}
	for _, p := range env.U.Panics() {
		r.Violate("backend-panic:"+p.Msg, label+": the store panicked serving "+p.Req, nil)
	}
	// a reader that looked at the keys during the commit (and pushed the locks) has a snapshot to be honoured
	env.PushMu.Lock()
	for _, pr := range env.PushReads {
		if pr.Err != "" {
			r.Count("push_reader_errors", 1)
			continue
		}
		r.Count("push_reads", 1)
		var sawNew, sawOld []string
		for _, mu := range sh.Muts {
			be, ok := rec.Buf[mu.Key]
			if !ok || (be.Kind != work.BufPut && !(be.Kind == work.BufDel && !be.Insert && env.Old[mu.Key] != "")) {
				continue
			}
			got, found := pr.Vals[mu.Key]
			isNew := (be.Kind == work.BufPut && found && got == be.Val) || (be.Kind == work.BufDel && !found)
			if isNew {
				sawNew = append(sawNew, mu.Key)
			} else {
				sawOld = append(sawOld, mu.Key)
			}
		}
		if len(sawNew) > 0 && len(sawOld) > 0 {
			r.Violate("push-reader:fractured-read", fmt.Sprintf("%s: a reader at ts %d during the commit saw the victim's writes on %v but not on %v", label, pr.TS, sawNew, sawOld), detail)
		}
		if len(sawOld) > 0 && v.Committed && v.CommitTS != 0 && v.CommitTS <= pr.TS {
			r.Violate("push-reader:snapshot-violated", fmt.Sprintf("%s: a reader at ts %d during the commit did not see the victim's writes on %v, yet the victim committed at %d <= that snapshot", label, pr.TS, sawOld, v.CommitTS), detail)
		}
		if len(sawNew) > 0 && (!v.Committed || v.CommitTS > pr.TS) {
			r.Violate("push-reader:read-uncommitted", fmt.Sprintf("%s: a reader at ts %d saw the victim's writes on %v, but the victim is committed=%v at %d", label, pr.TS, sawNew, v.Committed, v.CommitTS), detail)
		}
	}
	env.PushMu.Unlock()
	if rec.CommitClass == work.EUndetermined {
		r.Count("answer_undetermined", 1)
		if !lost {
			r.Violate("undetermined-without-cause", label+": Commit returned 'result undetermined' although no request that could move the commit point was lost", detail)
		}
	}
	if lost {
		r.Count("faults_on_commit_point_rpcs", 1)
	}
	out := "rolled_back"
	if v.Committed {
		out = "committed"
	}
	r.Count("answer_"+string(rec.CommitClass)+"_"+out, 1)
	r.Distinct(fmt.Sprintf("%s|%v|%s|%s", sh, names, rec.CommitClass, out))
	if r.SampleN() < 5 && (rec.CommitClass != work.ENone || r.SampleN() < 1) {
		r.Sample(map[string]any{"shape": sh.String(), "faults": names, "commit_answer": rec.CommitClass, "outcome": out, "recovery_path": v.Path})
	}
	trace.CheckUniverse(tr, env.U, []*work.TxnRec{rec}, label, trace.Options{CheckBuffer: true, GCWindows: gcws})
}

func TestVerifC03(t *testing.T) {
	r := vrep.New("C03", "c03-faults", "every small transaction shape x commit mode: a fault-free dry run yields the RPC trace of Commit (must not answer undetermined); then every single fault of {drop request, drop response, deliver-late, NotLeader, EpochNotMatch, ServerIsBusy, StaleCommand, region split at this RPC, another client expires the lock and resolves it at this RPC} at every RPC index, plus seed-sampled ordered double faults; after Commit returned: drain, late deliveries executed, clock past every TTL, observer reads + GC resolve pass, then the answer is checked against the MVCC truth (nil => committed everywhere; definite error => never visible; undetermined only when a commit-point request was lost); sticky plans lose a request/response and let the region answer nothing but region errors until Commit returns, one family with a split of that region in between (the retry is answered EpochNotMatch, the batch is regrouped, only the regrouped requests meet the region errors); the recovering observer is, for sticky plans on async commit / 1PC (second phase lost for good after the answer) and every eighth execution, a resolver whose CheckTxnStatus / CheckSecondaryLocks / ResolveLock requests meet a region that split under them, and for another eighth a GC pass whose region splits between the scanned locks; every successful GC pass is held to its contract (no lock <= safe point left); distinct = distinct (shape, fault plan, answer, outcome)")
	defer r.Finish(t)
	tr := vrep.New("C04", "c04-on-c03", "C04 trace monitor over the C03 fault executions (retries, regrouped batches, resolver races)")
	defer tr.Finish(t)
	defer withSkipSleep()()
	rng := vrep.Rand("c03")
	shs := shapes(vrep.Thorough())
	for _, sh := range shs {
		pts, primary, drec, ok := dryRun(r, sh)
		if !ok {
			continue
		}
		if drec.CommitClass != work.ENone {
			r.Violate("fault-free-answer:"+string(drec.CommitClass), fmt.Sprintf("%s: fault-free Commit returned %q", sh, drec.CommitErr), nil)
			continue
		}
		r.Count("shapes", 1)
		fs := append(faults(sh), dropResponse(sh))
		if sh.Backend == uni.Uni && (sh.Async || sh.OnePC) {
			// unistore (trusted as given) checks the rollback marker of the *primary* only when prewriting: after an
			// async-commit recovery decided "rolled back" (marker written on a secondary by CheckSecondaryLocks) a
			// late prewrite of that secondary is accepted there and the owner believes all prewrites succeeded.  TiKV
			// rejects it.  The resolver race is therefore driven for async commit / 1PC on no back-end (mocktikv has
			// neither mode) and for 2PC on both.
			var keep []fault
			for _, f := range fs {
				if f.name != "resolver-expires-lock" && f.name != "deliver-late" {
					keep = append(keep, f)
				}
			}
			fs = keep
		}
		for _, pt := range pts {
			for _, f := range fs {
				runFaults(r, tr, sh, primary, []*injected{{pt: pt, f: f}})
			}
			if pt.Cmd == tikvrpc.CmdCommit || pt.Cmd == tikvrpc.CmdPrewrite {
				for _, sf := range stickyFaults(sh) {
					runFaults(r, tr, sh, primary, []*injected{{pt: pt, f: sf.f, sticky: sf.sticky, cleanupLost: sf.cleanupLost}})
					r.Count("sticky_fault_executions", 1)
				}
				// the same, with an epoch change in between (regrouped batch): the primary's Commit of 2PC shapes, the
				// commit-point requests of async commit / 1PC shapes
				// (the plans at the Prewrite of async commit / 1PC shapes found a defect of the pinned tree -
				// proposed_fixes/C03-9, repaired in /repo; VERIF_C03_SPLIT_PREWRITE=0 switches them off)
				if ((sh.Async || sh.OnePC) && (pt.Cmd == tikvrpc.CmdCommit || os.Getenv("VERIF_C03_SPLIT_PREWRITE") != "0")) ||
					(pt.Cmd == tikvrpc.CmdCommit && IsForeground(sh, pt, primary)) {
					for _, sf := range stickySplitFaults(sh) {
						if sh.Backend == uni.Uni && pt.Cmd == tikvrpc.CmdCommit && sf.f.name[:13] == "drop-response" {
							continue // the same plan as drop-request there (see dropResponse)
						}
						runFaults(r, tr, sh, primary, []*injected{{pt: pt, f: sf.f, sticky: sf.sticky, split: true}})
					}
				}
			}
		}
		// double faults: ordered pairs of (point, fault), sampled by the seed
		nPairs := vrep.Pick(6, 60)
		for k := 0; k < nPairs && len(pts) > 0; k++ {
			i, j := rng.Intn(len(pts)), rng.Intn(len(pts))
			if i > j {
				i, j = j, i
			}
			a := &injected{pt: pts[i], f: fs[rng.Intn(len(fs))]}
			p2 := pts[j]
			if i == j {
				p2.N++ // the retry of the same request
			}
			b := &injected{pt: p2, f: fs[rng.Intn(len(fs))]}
			runFaults(r, tr, sh, primary, []*injected{a, b})
		}
		r.Flush()
	}
	r.Floor("fault_executions", 200)
	r.Floor("faults_on_commit_point_rpcs", 10)
	r.Floor("answer_undetermined", 3)
	r.Floor("sticky_fault_executions", 50)
	r.Floor("sticky_split_plans_executed", 10)
	r.Floor("sticky_split_regrouped_then_region_errors", 10)
	r.Floor("push_reads", 8)
	// recovery under a stale region cache / a GC pass with a split must have been exercised
	r.Floor("recovery:resolver-region-error", 20)
	r.Floor("recovery:gc-split", 20)
	r.Floor("resolver_region_error:CheckTxnStatus", 5)
	r.Floor("resolver_region_error:ResolveLock", 5)
	if be := os.Getenv("VERIF_CRASH_BACKEND"); be == "" || be == uni.Uni {
		r.Floor("resolver_region_error:CheckSecondaryLocks", 3)
	}
	_ = rand.Int
	_ = sort.Strings
}
