//go:build verif

package smoke

import (
	"context"
	"testing"

	"verif/e2e/uni"
)

func TestSmoke(t *testing.T) {
	for _, be := range []string{uni.Mock, uni.Uni} {
		u, err := uni.New(be, 3)
		if err != nil {
			t.Fatal(err)
		}
		c, err := u.NewClient()
		if err != nil {
			t.Fatal(err)
		}
		u.SplitAt([]byte("k5"))
		txn, _ := c.Begin()
		txn.SetEnableAsyncCommit(be == uni.Uni)
		txn.Set([]byte("k1"), []byte("v1"))
		txn.Set([]byte("k7"), []byte("v7"))
		if err := txn.Commit(context.Background()); err != nil {
			t.Fatal(err)
		}
		ok := u.Drain()
		tr, err := u.ReadTruth([][]byte{[]byte("k1"), []byte("k7"), []byte("k9")})
		if err != nil {
			t.Fatal(err)
		}
		locks, err := u.ScanLocksTruth()
		t.Logf("%s drain=%v calls=%d tsos=%d k1=%+v k7=%+v locks=%v err=%v", be, ok, u.Log.Len(), len(u.Log.TSOs()), tr.Keys["k1"], tr.Keys["k7"], locks, err)
		for _, cl := range u.Log.Calls() {
			t.Logf("  %s", cl.String())
		}
		u.Close()
	}
}
