//go:build verif

package smoke

import (
	"context"
	"testing"

	"github.com/tikv/client-go/v2/kv"
	"verif/e2e/uni"
)

func TestRevProbe2(t *testing.T) {
	for _, be := range []string{uni.Mock, uni.Uni} {
		u, _ := uni.New(be, 1)
		c, _ := u.NewClient()
		u.SplitAt([]byte("b"))
		txn, _ := c.Begin()
		for _, k := range []string{"a", "a0", "a00", "b", "b5"} {
			txn.Set([]byte(k), []byte("v"+k))
		}
		if err := txn.Commit(context.Background()); err != nil {
			t.Fatal(err)
		}
		dump := func(name string, it interface {
			Valid() bool
			Key() []byte
			Next() error
		}, err error) {
			var ks []string
			for err == nil && it.Valid() {
				ks = append(ks, string(it.Key()))
				err = it.Next()
			}
			t.Logf("%s %s -> %q err=%v", be, name, ks, err)
		}
		tx, _ := c.Begin()
		it, err := tx.GetSnapshot().IterReverse([]byte("z"), []byte("a0"))
		dump("snapshot IterReverse(z,a0)", it, err)
		it, err = tx.GetSnapshot().IterReverse(nil, []byte("a0"))
		dump("snapshot IterReverse(nil,a0)", it, err)
		tx.GetMemBuffer().SetWithFlags([]byte("a00"), []byte("x"), kv.SetPresumeKeyNotExists)
		tx.Delete([]byte("a00"))
		it2, err := tx.IterReverse([]byte("z"), []byte("a0"))
		dump("txn(del a00) IterReverse(z,a0)", it2, err)
		it2, err = tx.IterReverse(nil, []byte("a0"))
		dump("txn(del a00) IterReverse(nil,a0)", it2, err)
		it2, err = tx.IterReverse(nil, nil)
		dump("txn(del a00) IterReverse(nil,nil)", it2, err)
		u.Close()
	}
}
