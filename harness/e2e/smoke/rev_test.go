//go:build verif

package smoke

import (
	"context"
	"fmt"
	"testing"

	"github.com/pingcap/kvproto/pkg/kvrpcpb"
	"verif/e2e/uni"
)

func TestRevProbe(t *testing.T) {
	u, _ := uni.New(uni.Mock, 3)
	c, _ := u.NewClient()
	for _, k := range []string{"b", "c\xff", "e"} {
		u.SplitAt([]byte(k))
	}
	txn, _ := c.Begin()
	for _, k := range []string{"a", "a0", "a00", "b", "b5", "c", "c\xff", "d", "e", "e1"} {
		txn.Set([]byte(k), []byte("v"))
	}
	if err := txn.Commit(context.Background()); err != nil {
		t.Fatal(err)
	}
	for _, lo := range []string{"a00", "a0\x00", "b5\x00", "e1\x00", "c\xff\x00", "e", "b", "e1", "a"} {
		func() {
			n0 := u.Log.Len()
			defer func() {
				if p := recover(); p != nil {
					t.Logf("PANIC lower=%q: %v", lo, p)
					for _, cl := range u.Log.CallsFrom(n0) {
						if r, ok := cl.Req.(*kvrpcpb.ScanRequest); ok {
							t.Logf("   scan start=%q end=%q rev=%v region=%d", r.StartKey, r.EndKey, r.Reverse, cl.RegionID)
						}
					}
				}
			}()
			tx, _ := c.Begin()
			it, err := tx.IterReverse(nil, []byte(lo))
			var ks []string
			for err == nil && it.Valid() {
				ks = append(ks, string(it.Key()))
				err = it.Next()
			}
			t.Logf("lower=%q -> %q err=%v", lo, ks, err)
			fmt.Sprint()
		}()
	}
}
