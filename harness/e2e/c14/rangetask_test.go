//go:build verif

package c14

import (
	"context"
	"errors"
	"fmt"
	"math/rand"
	"sort"
	"sync"
	"sync/atomic"
	"testing"
	"time"

	"github.com/tikv/client-go/v2/kv"
	"github.com/tikv/client-go/v2/txnkv/rangetask"
	"github.com/tikv/client-go/v2/verifh/vrep"

	"verif/e2e/uni"
)

type rtCase struct {
	Backend    string
	Regions    int
	Start, End string
	RPT        int
	Conc       int
	FailAt     int // the handler fails at its FailAt-th invocation (0: never)
	SplitAt    int // a split happens inside the SplitAt-th handler invocation (0: never)
	SplitKey   string
	Merge      bool // mocktikv: merge the region of SplitKey with its right neighbour instead
	// caller-side cancellation: the context given to RunOnRange is cancelled at the CancelAt-th handler invocation,
	// "in": inside that invocation after its work is done; "after": by another goroutine once that invocation has returned
	CancelAt   int
	CancelHow  string
}

func (c rtCase) String() string {
	return fmt.Sprintf("%s/regions=%d/[%q,%q)/rpt=%d/conc=%d/fail@%d/split@%d/merge=%v", c.Backend, c.Regions, c.Start, c.End, c.RPT, c.Conc, c.FailAt, c.SplitAt, c.Merge) + func() string {
		if c.CancelAt > 0 {
			return fmt.Sprintf("/cancel-%s@%d", c.CancelHow, c.CancelAt)
		}
		return ""
	}()
}

var errHandler = errors.New("verif: handler failure")

var merges atomic.Int64

// checkCover reports how the recorded sub-ranges fail to be consecutive, non-overlapping and an exact cover of [start,end).
func checkCover(got []kv.KeyRange, start, end string) (string, string) {
	if end != "" && start >= end {
		if len(got) != 0 {
			return "empty-range-handled", fmt.Sprintf("the range is empty but the handler received %d sub-ranges", len(got))
		}
		return "", ""
	}
	rs := append([]kv.KeyRange(nil), got...)
	sort.SliceStable(rs, func(i, j int) bool { return string(rs[i].StartKey) < string(rs[j].StartKey) })
	if len(rs) == 0 {
		return "no-sub-range", "the handler was never invoked for a non-empty range"
	}
	if string(rs[0].StartKey) != start {
		return "first-start", fmt.Sprintf("first sub-range starts at %q, not at %q", rs[0].StartKey, start)
	}
	for i, r := range rs {
		last := i == len(rs)-1
		if len(r.EndKey) != 0 && string(r.StartKey) >= string(r.EndKey) {
			return "empty-sub-range", fmt.Sprintf("sub-range %d [%q,%q) is empty or inverted", i, r.StartKey, r.EndKey)
		}
		if !last {
			if len(r.EndKey) == 0 {
				return "overlap", fmt.Sprintf("sub-range %d [%q,+inf) is unbounded but is followed by [%q,%q)", i, r.StartKey, rs[i+1].StartKey, rs[i+1].EndKey)
			}
			switch {
			case string(r.EndKey) < string(rs[i+1].StartKey):
				return "gap", fmt.Sprintf("gap between sub-range %d [%q,%q) and the next [%q,%q)", i, r.StartKey, r.EndKey, rs[i+1].StartKey, rs[i+1].EndKey)
			case string(r.EndKey) > string(rs[i+1].StartKey):
				return "overlap", fmt.Sprintf("sub-range %d [%q,%q) overlaps the next [%q,%q)", i, r.StartKey, r.EndKey, rs[i+1].StartKey, rs[i+1].EndKey)
			}
		} else if string(r.EndKey) != end {
			sig := "last-end"
			if end == "" {
				sig = "last-end-unbounded"
			}
			return sig, fmt.Sprintf("last sub-range ends at %q, the requested range at %q", r.EndKey, end)
		}
	}
	return "", ""
}

func runRangeTask(r *vrep.Report, u *uni.Universe, c *uni.ClientStore, lay *layout, cs rtCase) {
	var mu sync.Mutex
	var got []kv.KeyRange
	calls, failed, sumCompleted, sumFailed := 0, false, 0, 0
	ctx, cancel := context.WithCancel(bg)
	defer cancel()
	returned := make(chan struct{})
	cancelDone := make(chan struct{})
	if cs.CancelAt > 0 && cs.CancelHow == "after" {
		go func() {
			defer close(cancelDone)
			select {
			case <-returned:
				cancel()
			case <-ctx.Done():
			}
		}()
	} else {
		close(cancelDone)
	}
	cancelled := false
	h := func(_ context.Context, kr kv.KeyRange) (st rangetask.TaskStat, err error) {
		mu.Lock()
		calls++
		n := calls
		got = append(got, kv.KeyRange{StartKey: append([]byte(nil), kr.StartKey...), EndKey: append([]byte(nil), kr.EndKey...)})
		st = rangetask.TaskStat{CompletedRegions: 1 + n%3, FailedRegions: n % 2}
		if cs.CancelAt != 0 && n == cs.CancelAt {
			cancelled = true
			if cs.CancelHow == "in" {
				defer cancel() // the sub-range's work is done; the handler does not look at the context any more
			} else {
				defer close(returned)
			}
		}
		fail := cs.FailAt != 0 && n == cs.FailAt
		if fail {
			failed = true
			st = rangetask.TaskStat{}
		}
		sumCompleted += st.CompletedRegions
		sumFailed += st.FailedRegions
		mu.Unlock()
		if cs.SplitAt != 0 && n == cs.SplitAt {
			if cs.Merge {
				if u.MergeAt([]byte(cs.SplitKey)) {
					merges.Add(1)
				}
			} else {
				lay.split(cs.SplitKey)
			}
		}
		if fail {
			return st, errHandler
		}
		return st, nil
	}
	runner := rangetask.NewRangeTaskRunner("verif-c14-rt", c.Store, cs.Conc, h)
	runner.SetRegionsPerTask(cs.RPT)
	done := make(chan error, 1)
	go func() { done <- runner.RunOnRange(ctx, []byte(cs.Start), []byte(cs.End)) }()
	var err error
	select {
	case err = <-done:
	case <-time.After(2 * time.Minute):
		r.Inconc("%s: RunOnRange did not return (watchdog)", cs)
		return
	}
	cancel()
	<-cancelDone
	mu.Lock()
	defer mu.Unlock()
	detail := map[string]any{"case": cs.String(), "borders": lay.sorted(), "error": es(err)}
	var subs []string
	for _, g := range got {
		subs = append(subs, fmt.Sprintf("[%q,%q)", g.StartKey, g.EndKey))
	}
	detail["sub_ranges_in_arrival_order"] = subs
	r.Eval(1)
	r.Count("runs", 1)
	r.Count("sub_ranges", len(got))
	if failed {
		r.Count("runs_with_failing_handler", 1)
		if err == nil {
			viol(r, cs.Backend, "rangetask:failure-not-reported", fmt.Sprintf("%s: the handler failed on a sub-range but RunOnRange returned nil", cs), detail)
		}
	} else if cancelled && err != nil {
		// the caller gave up: an error is a truthful answer, nothing is demanded about the coverage
		r.Count("cancelled_runs_returning_error", 1)
	} else {
		if err != nil {
			r.Inconc("%s: RunOnRange failed although no handler failed: %s", cs, es(err))
			return
		}
		if cancelled {
			// nil after the caller's cancellation is only truthful if every sub-range was handed out all the same
			r.Count("cancelled_runs_returning_nil", 1)
		}
		if sig, msg := checkCover(got, cs.Start, cs.End); sig != "" {
			viol(r, cs.Backend, "rangetask:cover:"+sig, fmt.Sprintf("%s: %s", cs, msg), detail)
		}
		if cs.End == "" {
			r.Count("runs_unbounded_end", 1)
		}
		if cs.Start == "" {
			r.Count("runs_unbounded_start", 1)
		}
		if len(got) > 1 {
			r.Count("runs_with_several_sub_ranges", 1)
		}
	}
	if runner.CompletedRegions() != sumCompleted {
		viol(r, cs.Backend, "rangetask:stat:completed", fmt.Sprintf("%s: CompletedRegions()=%d, the handlers reported %d in total", cs, runner.CompletedRegions(), sumCompleted), detail)
	}
	if runner.FailedRegions() != sumFailed {
		viol(r, cs.Backend, "rangetask:stat:failed", fmt.Sprintf("%s: FailedRegions()=%d, the handlers reported %d in total", cs, runner.FailedRegions(), sumFailed), detail)
	}
	if len(got) > 1 || failed {
		r.Distinct(fmt.Sprintf("%s|regions=%d|startUnb=%v|endUnb=%v|rpt=%d|conc=%d|fail=%v|split=%v|n=%d", cs.Backend, cs.Regions, cs.Start == "", cs.End == "", cs.RPT, cs.Conc, cs.FailAt != 0, cs.SplitAt != 0, len(got)))
	}
	if r.SampleN() < 4 && len(got) > 2 {
		r.Sample(detail)
	}
}

func TestVerifC14RangeTask(t *testing.T) {
	r := vrep.New("C14", "c14-rangetask", "rangetask.Runner.RunOnRange with a recording handler over region layouts of 1-40 regions (borders on and between keys) on mocktikv and unistore, "+
		"start/end on borders, between borders, before the first / after the last border and unbounded, regionsPerTask 1..8, concurrency 1-8, a region split inside a handler call: the sub-ranges "+
		"received must be consecutive, non-overlapping and exactly cover [start,end); a failing handler makes RunOnRange fail; Completed/FailedRegions = sum of the handlers' stats; "+
		"distinct = distinct (back-end, layout size, bounds kind, regionsPerTask, concurrency, failure, split, #sub-ranges) of runs with more than one sub-range or a failure")
	defer r.Finish(t)
	rng := vrep.Rand("c14-rangetask")
	universes := vrep.Pick(4, 16)
	stages := []int{1, 2, 3, 5, 8, 13, 20, 30, 40}
	perStage := vrep.Pick(20, 50)
	for ui := 0; ui < universes; ui++ {
		be := []string{uni.Mock, uni.Uni}[ui%2]
		u, err := uni.New(be, 3)
		if err != nil {
			r.Inconc("universe: %v", err)
			return
		}
		c, err := u.NewClient()
		if err != nil {
			r.Inconc("client: %v", err)
			u.Close()
			return
		}
		lay := newLayout(u)
		nk := 120
		rk := func(rng *rand.Rand) string {
			k := keyName(rng.Intn(nk))
			if rng.Intn(3) == 0 {
				k += "5"
			}
			return k
		}
		for _, st := range stages {
			for len(lay.sorted())+1 < st {
				lay.split(rk(rng))
			}
			for i := 0; i < perStage; i++ {
				borders := lay.sorted()
				pick := func() string {
					switch x := rng.Intn(10); {
					case x < 2:
						return ""
					case x < 5 && len(borders) > 0:
						return borders[rng.Intn(len(borders))]
					case x < 6:
						return "a" // before every key
					case x < 7:
						return "z" // after every border
					default:
						return rk(rng)
					}
				}
				cs := rtCase{Backend: be, Regions: len(borders) + 1, Start: pick(), End: pick(), RPT: 1 + rng.Intn(8), Conc: 1 + rng.Intn(8)}
				if cs.End != "" && cs.Start > cs.End && rng.Intn(4) != 0 {
					cs.Start, cs.End = cs.End, cs.Start
				}
				if rng.Intn(5) == 0 {
					cs.FailAt = 1 + rng.Intn(4)
				}
				if rng.Intn(6) == 0 && len(borders) < 45 {
					cs.SplitAt = 1 + rng.Intn(3)
					cs.SplitKey = rk(rng)
					cs.Merge = be == uni.Mock && rng.Intn(3) == 0
				}
				if cs.FailAt == 0 && rng.Intn(4) == 0 {
					cs.CancelAt = 1 + rng.Intn(4)
					cs.CancelHow = []string{"in", "after"}[rng.Intn(2)]
					cs.RPT = 1 + rng.Intn(2) // several sub-ranges still pending
				}
				runRangeTask(r, u, c, lay, cs)
			}
		}
		r.Count("layout_splits", lay.splits)
		r.Count("merges_inside_handlers", int(merges.Swap(0)))
		r.Flush()
		u.Close()
	}
	r.Floor("runs", 100)
	r.Floor("runs_unbounded_end", 10)
	r.Floor("runs_with_several_sub_ranges", 30)
	r.Floor("runs_with_failing_handler", 5)
	r.Floor("cancelled_runs_returning_error", 10)
}
