//go:build verif

// Package c14 is the runtime-monitoring check of property C14: GC lock resolution, the range task, the
// delete-range task and the refusal of snapshot reads below the cached transaction safe point.
package c14

import (
	"bytes"
	"context"
	"fmt"
	"sort"
	"sync"
	"sync/atomic"
	"time"

	"github.com/pingcap/kvproto/pkg/errorpb"
	"github.com/pingcap/kvproto/pkg/kvrpcpb"
	"github.com/tikv/client-go/v2/oracle"
	"github.com/tikv/client-go/v2/tikv"
	"github.com/tikv/client-go/v2/tikvrpc"
	"github.com/tikv/client-go/v2/util/async"
	"github.com/tikv/client-go/v2/util/codec"
	"github.com/tikv/client-go/v2/verifh/vrep"

	"verif/e2e/uni"
)

var bg = context.Background()

func es(err error) string {
	if err == nil {
		return ""
	}
	return fmt.Sprintf("%T: %v", err, err)
}

// viol reports a violation; every signature ends in the back-end it was observed on, so that a known finding
// of one back-end can never cover the same symptom on the other.
func viol(r *vrep.Report, backend, sig, msg string, detail any) {
	r.Violate(sig+":"+backend, msg, detail)
}

func bkeys(ss []string) [][]byte {
	out := make([][]byte, len(ss))
	for i, s := range ss {
		out[i] = []byte(s)
	}
	return out
}

// ---------------------------------------------------------------------------------------------------------
// strict back-end: TiKV's semantics for the request arguments both mocks ignore

// strictBackend sits between the RPC interposer and the in-process store.
//   - ScanLock: both mocks scan the whole region from its start and ignore start_key/end_key (mocktikv also
//     the limit).  TiKV returns the locks of [start_key, end_key) with ts <= max_version, in key order, at
//     most `limit` of them.  The wrapper asks the mock for everything and cuts the answer down to that.
//   - DeleteRange: mocktikv deletes whatever range it is given; TiKV rejects a range that leaves the region
//     the request is addressed to (KeyNotInRegion).  notify_only requests are not executed (as in TiKV).
type strictBackend struct {
	tikv.Client
	u          *uni.Universe
	scanCut    atomic.Int64 // ScanLock answers that were cut down
	delRejects atomic.Int64
}

func (s *strictBackend) SendRequestAsync(ctx context.Context, addr string, req *tikvrpc.Request, cb async.Callback[*tikvrpc.Response]) {
	go func() { cb.Schedule(s.SendRequest(ctx, addr, req, tikv.ReadTimeoutShort)) }()
}

func (s *strictBackend) SendRequest(ctx context.Context, addr string, req *tikvrpc.Request, timeout time.Duration) (*tikvrpc.Response, error) {
	switch req.Type {
	case tikvrpc.CmdScanLock:
		r := req.ScanLock()
		limit := r.Limit
		start, end := r.StartKey, r.EndKey
		r.Limit = 1 << 30
		resp, err := s.Client.SendRequest(ctx, addr, req, timeout)
		r.Limit = limit
		if err != nil || resp == nil || resp.Resp == nil {
			return resp, err
		}
		sr, ok := resp.Resp.(*kvrpcpb.ScanLockResponse)
		if !ok || sr.RegionError != nil || sr.Error != nil {
			return resp, err
		}
		locks := make([]*kvrpcpb.LockInfo, 0, len(sr.Locks))
		for _, l := range sr.Locks {
			if bytes.Compare(l.Key, start) < 0 || (len(end) > 0 && bytes.Compare(l.Key, end) >= 0) {
				continue
			}
			locks = append(locks, l)
		}
		sort.SliceStable(locks, func(i, j int) bool { return bytes.Compare(locks[i].Key, locks[j].Key) < 0 })
		if limit > 0 && len(locks) > int(limit) {
			locks = locks[:limit]
		}
		if len(locks) != len(sr.Locks) {
			s.scanCut.Add(1)
		}
		sr.Locks = locks
		return resp, err
	case tikvrpc.CmdDeleteRange:
		r := req.DeleteRange()
		if s.u.MockCl != nil {
			if region, _, _, _ := s.u.MockCl.GetRegionByID(req.Context.GetRegionId()); region != nil &&
				region.GetRegionEpoch().GetVersion() == req.Context.GetRegionEpoch().GetVersion() {
				rs, re := rawKey(region.StartKey), rawKey(region.EndKey)
				inside := bytes.Compare(r.StartKey, rs) >= 0 &&
					(len(re) == 0 || (len(r.EndKey) > 0 && bytes.Compare(r.EndKey, re) <= 0)) &&
					(len(re) == 0 || bytes.Compare(r.StartKey, re) < 0)
				if !inside {
					s.delRejects.Add(1)
					return tikvrpc.GenRegionErrorResp(req, &errorpb.Error{Message: "verif strict back-end: delete range leaves the region",
						KeyNotInRegion: &errorpb.KeyNotInRegion{Key: r.EndKey, RegionId: region.Id, StartKey: region.StartKey, EndKey: region.EndKey}})
				}
				if r.NotifyOnly {
					// region and epoch are current and the range is inside: TiKV replicates the notification
					// and deletes nothing (mocktikv would delete)
					return &tikvrpc.Response{Resp: &kvrpcpb.DeleteRangeResponse{}}, nil
				}
			}
		}
		return s.Client.SendRequest(ctx, addr, req, timeout)
	}
	return s.Client.SendRequest(ctx, addr, req, timeout)
}

func rawKey(enc []byte) []byte {
	if len(enc) == 0 {
		return nil
	}
	_, raw, err := codec.DecodeBytes(enc, nil)
	if err != nil {
		return enc
	}
	return raw
}

// ---------------------------------------------------------------------------------------------------------
// raw driver: builds lock populations by raw RPCs through the un-recorded truth store

type mut struct {
	Op  kvrpcpb.Op
	Val string
}

type rawDriver struct {
	u  *uni.Universe
	st *tikv.KVStore
}

func (d *rawDriver) ts() uint64 {
	ts, err := d.st.CurrentTimestamp(oracle.GlobalTxnScope)
	if err != nil {
		panic(fmt.Sprintf("c14: tso: %v", err))
	}
	return ts
}

// keyed sends one request per region group of keys and retries groups that met a region error.
func (d *rawDriver) keyed(keys []string, mk func(ks [][]byte) *tikvrpc.Request, check func(resp *tikvrpc.Response) error) error {
	pending := bkeys(keys)
	for attempt := 0; attempt < 30 && len(pending) > 0; attempt++ {
		bo := tikv.NewBackofferWithVars(bg, 20000, nil)
		groups, _, err := d.st.GetRegionCache().GroupKeysByRegion(bo, pending, nil)
		if err != nil {
			return err
		}
		pending = nil
		type grp struct {
			id tikv.RegionVerID
			ks [][]byte
		}
		var gs []grp
		for id, ks := range groups {
			gs = append(gs, grp{id, ks})
		}
		sort.Slice(gs, func(i, j int) bool { return bytes.Compare(gs[i].ks[0], gs[j].ks[0]) < 0 })
		for _, g := range gs {
			resp, err := d.st.SendReq(bo, mk(g.ks), g.id, 10*time.Second)
			if err != nil {
				return err
			}
			if re, _ := resp.GetRegionError(); re != nil {
				pending = append(pending, g.ks...)
				continue
			}
			if err := check(resp); err != nil {
				return err
			}
		}
	}
	if len(pending) > 0 {
		return fmt.Errorf("region errors did not settle for %d keys", len(pending))
	}
	return nil
}

type prewriteOpt struct {
	ttl         uint64
	forUpdateTS uint64 // != 0: pessimistic transaction, every mutation carries DO_PESSIMISTIC_CHECK
	async       bool
	secondaries []string
	minCommitTS uint64
}

func (d *rawDriver) prewrite(start uint64, primary string, muts map[string]mut, keys []string, o prewriteOpt) error {
	return d.keyed(keys, func(ks [][]byte) *tikvrpc.Request {
		r := &kvrpcpb.PrewriteRequest{StartVersion: start, PrimaryLock: []byte(primary), LockTtl: o.ttl, TxnSize: uint64(len(muts)), ForUpdateTs: o.forUpdateTS}
		for _, k := range ks {
			m := muts[string(k)]
			pm := &kvrpcpb.Mutation{Op: m.Op, Key: k}
			if m.Op == kvrpcpb.Op_Put {
				pm.Value = []byte(m.Val)
			}
			r.Mutations = append(r.Mutations, pm)
			if o.forUpdateTS != 0 {
				r.PessimisticActions = append(r.PessimisticActions, kvrpcpb.PrewriteRequest_DO_PESSIMISTIC_CHECK)
			}
			if o.async && string(k) == primary {
				r.Secondaries = bkeys(o.secondaries)
			}
		}
		if o.async {
			r.UseAsyncCommit = true
			r.MinCommitTs = o.minCommitTS
		}
		return tikvrpc.NewRequest(tikvrpc.CmdPrewrite, r)
	}, func(resp *tikvrpc.Response) error {
		pr, ok := resp.Resp.(*kvrpcpb.PrewriteResponse)
		if !ok || pr == nil {
			return fmt.Errorf("prewrite: response %T", resp.Resp)
		}
		if len(pr.Errors) > 0 {
			return fmt.Errorf("prewrite %d: %v", start, pr.Errors[0])
		}
		return nil
	})
}

func (d *rawDriver) commit(start, commitTS uint64, keys []string) error {
	return d.keyed(keys, func(ks [][]byte) *tikvrpc.Request {
		return tikvrpc.NewRequest(tikvrpc.CmdCommit, &kvrpcpb.CommitRequest{StartVersion: start, CommitVersion: commitTS, Keys: ks})
	}, func(resp *tikvrpc.Response) error {
		cr, ok := resp.Resp.(*kvrpcpb.CommitResponse)
		if !ok || cr == nil {
			return fmt.Errorf("commit: response %T", resp.Resp)
		}
		if cr.Error != nil {
			return fmt.Errorf("commit %d: %v", start, cr.Error)
		}
		return nil
	})
}

func (d *rawDriver) rollback(start uint64, keys []string) error {
	return d.keyed(keys, func(ks [][]byte) *tikvrpc.Request {
		return tikvrpc.NewRequest(tikvrpc.CmdBatchRollback, &kvrpcpb.BatchRollbackRequest{StartVersion: start, Keys: ks})
	}, func(resp *tikvrpc.Response) error {
		cr, ok := resp.Resp.(*kvrpcpb.BatchRollbackResponse)
		if !ok || cr == nil {
			return fmt.Errorf("rollback: response %T", resp.Resp)
		}
		if cr.Error != nil {
			return fmt.Errorf("rollback %d: %v", start, cr.Error)
		}
		return nil
	})
}

func (d *rawDriver) pessLock(start, forUpdateTS uint64, primary string, keys []string, ttl uint64) error {
	return d.keyed(keys, func(ks [][]byte) *tikvrpc.Request {
		r := &kvrpcpb.PessimisticLockRequest{StartVersion: start, ForUpdateTs: forUpdateTS, PrimaryLock: []byte(primary), LockTtl: ttl,
			WaitTimeout: -1 /* no wait */, IsFirstLock: false}
		for _, k := range ks {
			r.Mutations = append(r.Mutations, &kvrpcpb.Mutation{Op: kvrpcpb.Op_PessimisticLock, Key: k})
		}
		return tikvrpc.NewRequest(tikvrpc.CmdPessimisticLock, r)
	}, func(resp *tikvrpc.Response) error {
		pr, ok := resp.Resp.(*kvrpcpb.PessimisticLockResponse)
		if !ok || pr == nil {
			return fmt.Errorf("pessimistic lock: response %T", resp.Resp)
		}
		if len(pr.Errors) > 0 {
			return fmt.Errorf("pessimistic lock %d: %v", start, pr.Errors[0])
		}
		return nil
	})
}

func (d *rawDriver) pessRollback(start, forUpdateTS uint64, keys []string) error {
	return d.keyed(keys, func(ks [][]byte) *tikvrpc.Request {
		return tikvrpc.NewRequest(tikvrpc.CmdPessimisticRollback, &kvrpcpb.PessimisticRollbackRequest{StartVersion: start, ForUpdateTs: forUpdateTS, Keys: ks})
	}, func(resp *tikvrpc.Response) error {
		pr, ok := resp.Resp.(*kvrpcpb.PessimisticRollbackResponse)
		if !ok || pr == nil {
			return fmt.Errorf("pessimistic rollback: response %T", resp.Resp)
		}
		if len(pr.Errors) > 0 {
			return fmt.Errorf("pessimistic rollback %d: %v", start, pr.Errors[0])
		}
		return nil
	})
}

// ---------------------------------------------------------------------------------------------------------
// layouts

// layout tracks the region borders (raw keys) the driver created, so that no border is split twice
// (uni.SplitAt on mocktikv does not recognise an existing border).
type layout struct {
	mu      sync.Mutex
	u       *uni.Universe
	borders map[string]bool
	splits  int
}

func newLayout(u *uni.Universe) *layout { return &layout{u: u, borders: map[string]bool{}} }

func (l *layout) split(key string) bool {
	l.mu.Lock()
	defer l.mu.Unlock()
	if key == "" || l.borders[key] {
		return false
	}
	l.borders[key] = true
	if l.u.SplitAt([]byte(key)) {
		l.splits++
		return true
	}
	return false
}

func (l *layout) sorted() []string {
	l.mu.Lock()
	defer l.mu.Unlock()
	var out []string
	for b := range l.borders {
		out = append(out, b)
	}
	sort.Strings(out)
	return out
}

// regionOf returns the index of the region (by sorted borders) containing key.
func regionOf(borders []string, key string) int {
	return sort.Search(len(borders), func(i int) bool { return borders[i] > key })
}

func inRange(k, start, end string) bool { return k >= start && (end == "" || k < end) }
