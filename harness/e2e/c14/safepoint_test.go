//go:build verif

package c14

import (
	"errors"
	"fmt"
	"sort"
	"testing"
	"time"

	"github.com/pingcap/failpoint"
	tikverr "github.com/tikv/client-go/v2/error"
	"github.com/tikv/client-go/v2/oracle"
	"github.com/tikv/client-go/v2/tikv"
	"github.com/tikv/client-go/v2/tikvrpc"
	"github.com/tikv/client-go/v2/verifh/vrep"

	"verif/e2e/uni"
)

type pairs map[string]string

// readOp performs one snapshot read at ts and returns what it delivered before it ended / failed.
type readOp struct {
	name string
	run  func(c *uni.ClientStore, ts uint64, keys []string) (pairs, error)
}

func iterate(it interface {
	Valid() bool
	Key() []byte
	Value() []byte
	Next() error
	Close()
}, err error) (pairs, error) {
	got := pairs{}
	if err != nil {
		return got, err
	}
	defer it.Close()
	for it.Valid() {
		got[string(it.Key())] = string(it.Value())
		if err := it.Next(); err != nil {
			return got, err
		}
	}
	return got, nil
}

func readOps(backend string) []readOp {
	ops := []readOp{
		{"get", func(c *uni.ClientStore, ts uint64, keys []string) (pairs, error) {
			got := pairs{}
			for _, k := range keys {
				v, err := c.Store.GetSnapshot(ts).Get(bg, []byte(k))
				if tikverr.IsErrNotFound(err) {
					continue
				}
				if err != nil {
					return got, err
				}
				got[k] = string(v.Value)
			}
			return got, nil
		}},
		{"get-missing", func(c *uni.ClientStore, ts uint64, keys []string) (pairs, error) {
			_, err := c.Store.GetSnapshot(ts).Get(bg, []byte("k-never-written"))
			if tikverr.IsErrNotFound(err) {
				err = nil
			}
			return pairs{}, err
		}},
		{"batchget", func(c *uni.ClientStore, ts uint64, keys []string) (pairs, error) {
			got := pairs{}
			m, err := c.Store.GetSnapshot(ts).BatchGet(bg, bkeys(keys))
			for k, v := range m {
				got[k] = string(v.Value)
			}
			return got, err
		}},
		{"iter", func(c *uni.ClientStore, ts uint64, keys []string) (pairs, error) {
			s := c.Store.GetSnapshot(ts)
			s.SetScanBatchSize(3)
			return iterate(s.Iter([]byte("k"), []byte("l")))
		}},
		{"iter-empty-range", func(c *uni.ClientStore, ts uint64, keys []string) (pairs, error) {
			return iterate(c.Store.GetSnapshot(ts).Iter([]byte("k9"), []byte("k91")))
		}},
		{"txn-get", func(c *uni.ClientStore, ts uint64, keys []string) (pairs, error) {
			txn, err := c.Store.Begin(tikv.WithStartTS(ts))
			if err != nil {
				return nil, err
			}
			defer txn.Rollback()
			got := pairs{}
			for _, k := range keys {
				v, err := txn.Get(bg, []byte(k))
				if tikverr.IsErrNotFound(err) {
					continue
				}
				if err != nil {
					return got, err
				}
				got[k] = string(v.Value)
			}
			return got, nil
		}},
		{"txn-batchget", func(c *uni.ClientStore, ts uint64, keys []string) (pairs, error) {
			txn, err := c.Store.Begin(tikv.WithStartTS(ts))
			if err != nil {
				return nil, err
			}
			defer txn.Rollback()
			got := pairs{}
			m, err := txn.BatchGet(bg, bkeys(keys))
			for k, v := range m {
				got[k] = string(v.Value)
			}
			return got, err
		}},
		{"txn-iter", func(c *uni.ClientStore, ts uint64, keys []string) (pairs, error) {
			txn, err := c.Store.Begin(tikv.WithStartTS(ts))
			if err != nil {
				return nil, err
			}
			defer txn.Rollback()
			return iterate(txn.Iter([]byte("k"), []byte("l")))
		}},
	}
	if backend == uni.Mock {
		// unistore's reverse scan ignores the read version (trusted as given)
		ops = append(ops, readOp{"iter-reverse", func(c *uni.ClientStore, ts uint64, keys []string) (pairs, error) {
			s := c.Store.GetSnapshot(ts)
			s.SetScanBatchSize(3)
			return iterate(s.IterReverse([]byte("l"), []byte("k")))
		}})
	}
	return ops
}

func TestVerifC14SafePoint(t *testing.T) {
	r := vrep.New("C14", "c14-safepoint", "after StoreProbe.UpdateTxnSafePointCache(sp) snapshot reads (Get, Get of a missing key, BatchGet, Iter, Iter over an empty range, IterReverse, and the same through a KVTxn "+
		"begun with that start ts) at ts in {.., sp-1 | sp, sp+1, ..} over several committed versions on mocktikv and unistore: ts < sp must fail with *error.ErrTxnAbortedByGC and deliver nothing, ts >= sp must be "+
		"served with the values of the MVCC truth at ts; a safe point raised above the read ts in the middle of a scan must end the scan with that error at its next request; "+
		"distinct = distinct (back-end, operation, side of the boundary, distance)")
	defer r.Finish(t)
	// the built-in updater would overwrite the cached safe point with PD's (0) every 10 s of wall time
	_ = failpoint.Enable("tikvclient/noBuiltInTxnSafePointUpdater", "return")
	defer failpoint.Disable("tikvclient/noBuiltInTxnSafePointUpdater")
	rng := vrep.Rand("c14-safepoint")
	rounds := vrep.Pick(1, 4)
	for round := 0; round < rounds; round++ {
		for _, be := range []string{uni.Mock, uni.Uni} {
			u, err := uni.New(be, 3)
			if err != nil {
				r.Inconc("universe: %v", err)
				return
			}
			c, err := u.NewClient()
			if err != nil {
				r.Inconc("client: %v", err)
				return
			}
			probe := tikv.StoreProbe{KVStore: c.Store}
			var keys []string
			for i := 0; i < 12; i++ {
				keys = append(keys, keyName(i))
			}
			lay := newLayout(u)
			for i := 0; i < 3; i++ {
				lay.split(keyName(rng.Intn(12)))
			}
			var marks []uint64
			mark := func() {
				ts, err := c.Store.CurrentTimestamp(oracle.GlobalTxnScope)
				if err == nil {
					marks = append(marks, ts)
				}
			}
			mark()
			model := map[string]string{}
			for i := 0; i < 3; i++ {
				if err := populate(u, c, rng, keys, model, i); err != nil {
					r.Inconc("populate: %v", err)
					return
				}
				mark()
			}
			truth, err := u.ReadTruth(bkeys(keys))
			if err != nil {
				r.Inconc("truth: %v", err)
				return
			}
			for _, kt := range truth.Keys {
				for _, w := range kt.Writes {
					marks = append(marks, w.CommitTS, w.StartTS)
				}
			}
			sort.Slice(marks, func(i, j int) bool { return marks[i] < marks[j] })
			now := marks[len(marks)-1]
			want := func(ts uint64) pairs {
				p := pairs{}
				for k, kt := range truth.Keys {
					if v, ok := visibleAt(kt.Writes, ts); ok {
						p[k] = v
					}
				}
				return p
			}
			ops := readOps(be)
			nsp := vrep.Pick(6, 20)
			for i := 0; i < nsp; i++ {
				sp := marks[1+rng.Intn(len(marks)-1)]
				cands := []uint64{sp - 1, sp, sp + 1, marks[0], now, marks[rng.Intn(len(marks))], sp - uint64(1+rng.Intn(1000)), sp + uint64(1+rng.Intn(1000))}
				for _, ts := range cands {
					if ts > now+1 || ts == 0 {
						continue
					}
					for _, op := range ops {
						probe.UpdateTxnSafePointCache(sp, time.Now())
						got, err := op.run(c, ts, keys)
						side := "at-or-above"
						if ts < sp {
							side = "below"
						}
						dist := "far"
						if ts+1 == sp || ts == sp || ts == sp+1 {
							dist = fmt.Sprintf("%+d", int64(ts)-int64(sp))
						}
						detail := map[string]any{"backend": be, "op": op.name, "safe_point": sp, "read_ts": ts, "error": es(err), "delivered": fmt.Sprint(got)}
						r.Eval(1)
						r.Count("reads:"+side, 1)
						r.Distinct(fmt.Sprintf("%s|%s|%s|%s", be, op.name, side, dist))
						var ab *tikverr.ErrTxnAbortedByGC
						if ts < sp {
							switch {
							case err == nil:
								viol(r, be, "safepoint:served-below-safepoint:"+op.name, fmt.Sprintf("%s: %s at ts %d below the cached txn safe point %d was served (%d pairs)", be, op.name, ts, sp, len(got)), detail)
							case !errors.As(err, &ab):
								viol(r, be, "safepoint:wrong-error-below-safepoint:"+op.name, fmt.Sprintf("%s: %s at ts %d below the cached txn safe point %d failed with %s, not with the aborted-by-GC error", be, op.name, ts, sp, es(err)), detail)
							case len(got) > 0:
								viol(r, be, "safepoint:data-before-refusal:"+op.name, fmt.Sprintf("%s: %s at ts %d below the cached txn safe point %d delivered %d pairs before the error", be, op.name, ts, sp, len(got)), detail)
							default:
								r.Count("refused", 1)
							}
							continue
						}
						if err != nil {
							sig := "safepoint:failed-at-or-above-safepoint:"
							if errors.As(err, &ab) {
								sig = "safepoint:refused-at-or-above-safepoint:"
							}
							viol(r, be, sig+op.name, fmt.Sprintf("%s: %s at ts %d (cached txn safe point %d) failed: %s", be, op.name, ts, sp, es(err)), detail)
							continue
						}
						w := want(ts)
						switch op.name {
						case "get-missing", "iter-empty-range":
							w = pairs{}
						}
						if fmt.Sprint(w) != fmt.Sprint(got) {
							detail["expected"] = fmt.Sprint(w)
							viol(r, be, "safepoint:wrong-data-at-or-above-safepoint:"+op.name, fmt.Sprintf("%s: %s at ts %d (cached txn safe point %d) returned %v, the truth at that ts is %v", be, op.name, ts, sp, got, w), detail)
							continue
						}
						r.Count("served", 1)
					}
				}
			}
			// the safe point moves above the read ts in the middle of a scan
			for i := 0; i < vrep.Pick(4, 12); i++ {
				ts := now
				probe.UpdateTxnSafePointCache(marks[0], time.Now())
				s := c.Store.GetSnapshot(ts)
				s.SetScanBatchSize(2)
				it, err := s.Iter([]byte("k"), []byte("l"))
				if err != nil {
					viol(r, be, "safepoint:failed-at-or-above-safepoint:iter", fmt.Sprintf("%s: Iter at ts %d failed: %s", be, ts, es(err)), nil)
					continue
				}
				steps := rng.Intn(3)
				n := 0
				for ; n < steps && it.Valid(); n++ {
					if err = it.Next(); err != nil {
						break
					}
				}
				probe.UpdateTxnSafePointCache(ts+1, time.Now())
				raised := u.Log.Now()
				after := 0
				for err == nil && it.Valid() {
					after++
					err = it.Next()
				}
				it.Close()
				scansAfter := 0
				for _, call := range u.Log.Calls() {
					if call.Client == c.ID && call.Cmd == tikvrpc.CmdScan && call.Seq > raised && call.Delivered {
						scansAfter++
					}
				}
				r.Eval(1)
				var ab *tikverr.ErrTxnAbortedByGC
				detail := map[string]any{"backend": be, "read_ts": ts, "pairs_before_raise": n, "pairs_after_raise": after, "scan_rpcs_after_raise": scansAfter, "error": es(err)}
				switch {
				case scansAfter > 0 && err == nil:
					viol(r, be, "safepoint:scan-continued-after-raise", fmt.Sprintf("%s: the txn safe point was raised above the scan's ts %d; %d scan requests later the scan ended without error", be, ts, scansAfter), detail)
				case err != nil && !errors.As(err, &ab):
					viol(r, be, "safepoint:wrong-error-below-safepoint:iter-mid-scan", fmt.Sprintf("%s: scan at ts %d failed with %s after the raise", be, ts, es(err)), detail)
				case err != nil:
					r.Count("scans_cut_by_a_raise", 1)
					r.Distinct(fmt.Sprintf("%s|iter-mid-scan|steps=%d", be, steps))
				default:
					r.Count("scans_finished_from_cache", 1)
				}
			}
			r.Flush()
			u.Close()
		}
	}
	r.Floor("refused", 100)
	r.Floor("served", 100)
	r.Floor("scans_cut_by_a_raise", 2)
}
