//go:build verif

package c14

import (
	"context"
	"fmt"
	"math/rand"
	"sort"
	"sync"
	"sync/atomic"
	"testing"
	"time"

	"github.com/pingcap/failpoint"
	"github.com/pingcap/kvproto/pkg/errorpb"
	"github.com/pingcap/kvproto/pkg/kvrpcpb"
	tikverr "github.com/tikv/client-go/v2/error"
	"github.com/tikv/client-go/v2/kv"
	"github.com/tikv/client-go/v2/oracle"
	"github.com/tikv/client-go/v2/tikv"
	"github.com/tikv/client-go/v2/tikvrpc"
	"github.com/tikv/client-go/v2/txnkv/rangetask"
	"github.com/tikv/client-go/v2/verifh/vrep"

	"verif/e2e/uni"
)

type drCase struct {
	Strict     bool
	Regions    int
	Start, End string
	Conc       int
	Splits     int
	Faults     int
	Notify     bool
	// caller-side cancellation: the context given to Execute is cancelled right after the answer of the CancelRPC-th
	// DeleteRange request / of the request starting at CancelStart (the last request of a 128-region sub-task)
	CancelRPC   int
	CancelStart string
}

func (c drCase) String() string {
	x := ""
	if c.CancelRPC > 0 {
		x = fmt.Sprintf("/cancel@rpc%d", c.CancelRPC)
	}
	if c.CancelStart != "" {
		x = "/cancel@start:" + c.CancelStart
	}
	return fmt.Sprintf("mocktikv/strict=%v/regions=%d/[%q,%q)/conc=%d/splits=%d/faults=%d%%/notify=%v", c.Strict, c.Regions, c.Start, c.End, c.Conc, c.Splits, c.Faults, c.Notify) + x
}

// populate commits values for a random subset of keys (two rounds: overwrites and deletions) and returns the model.
func populate(u *uni.Universe, c *uni.ClientStore, rng *rand.Rand, keys []string, model map[string]string, round int) error {
	for pass := 0; pass < 2; pass++ {
		txn, err := c.Begin()
		if err != nil {
			return err
		}
		for _, k := range keys {
			switch x := rng.Intn(10); {
			case x < 6:
				v := fmt.Sprintf("r%d.%d.%s", round, pass, k)
				if err := txn.Set([]byte(k), []byte(v)); err != nil {
					return err
				}
				model[k] = v
			case x < 7 && pass == 1:
				if err := txn.Delete([]byte(k)); err != nil {
					return err
				}
				delete(model, k)
			}
		}
		if err := txn.Commit(bg); err != nil {
			return err
		}
	}
	if !u.Drain() { // secondaries are committed in the background
		return fmt.Errorf("populate: background commit did not drain")
	}
	return nil
}

func readAll(c *uni.ClientStore, keys []string) (map[string]string, map[string]string, error) {
	ts, err := c.Store.CurrentTimestamp(oracle.GlobalTxnScope)
	if err != nil {
		return nil, nil, err
	}
	scan := map[string]string{}
	it, err := c.Store.GetSnapshot(ts).Iter([]byte("a"), []byte("zz"))
	if err != nil {
		return nil, nil, err
	}
	for it.Valid() {
		scan[string(it.Key())] = string(it.Value())
		if err := it.Next(); err != nil {
			return nil, nil, err
		}
	}
	it.Close()
	gets := map[string]string{}
	snap := c.Store.GetSnapshot(ts)
	for _, k := range keys {
		v, err := snap.Get(bg, []byte(k))
		if tikverr.IsErrNotFound(err) {
			continue
		}
		if err != nil {
			return nil, nil, err
		}
		gets[k] = string(v.Value)
	}
	return scan, gets, nil
}

func runDeleteRange(r *vrep.Report, u *uni.Universe, c *uni.ClientStore, strict *strictBackend, lay *layout, keys []string, model map[string]string, rng *rand.Rand, cs drCase) bool {
	before, err := u.ReadTruth(bkeys(keys))
	if err != nil {
		r.Inconc("%s: truth: %v", cs, err)
		return false
	}
	var mu sync.Mutex
	budget := cs.Splits
	var splits, faults, nReq atomic.Int64
	var runaway atomic.Bool
	bound := int64(300 + 30*(cs.Regions+cs.Splits))
	cancelFired := false
	ctx, cancelCtx := context.WithCancel(bg)
	defer cancelCtx()
	c.Net.SetDecider(func(call *uni.Call) uni.Action {
		if call.Cmd != tikvrpc.CmdDeleteRange {
			return uni.Action{}
		}
		// logical progress bound: one request per region of the range, plus retries after (budgeted) faults and splits
		if nReq.Add(1) > bound {
			runaway.Store(true)
			return uni.Action{Kind: uni.KillBefore}
		}
		mu.Lock()
		defer mu.Unlock()
		if !cancelFired {
			q, _ := call.Req.(*kvrpcpb.DeleteRangeRequest)
			if (cs.CancelRPC > 0 && int(nReq.Load()) == cs.CancelRPC) || (cs.CancelStart != "" && q != nil && string(q.StartKey) == cs.CancelStart) {
				cancelFired = true
				return uni.Action{After: cancelCtx}
			}
		}
		if budget > 0 && rng.Intn(100) < 50 {
			budget--
			k := keyName(rng.Intn(len(keys)))
			if rng.Intn(2) == 0 {
				k += "5"
			}
			return uni.Action{Before: func() {
				if lay.split(k) {
					splits.Add(1)
				}
			}}
		}
		if cs.Faults > 0 && rng.Intn(100) < cs.Faults {
			faults.Add(1)
			switch rng.Intn(4) {
			case 0:
				return uni.Action{Kind: uni.DropResp}
			case 1:
				return uni.Action{Kind: uni.DropReq}
			case 2:
				return uni.Action{Kind: uni.RegionErr, RegErr: &errorpb.Error{Message: "injected", NotLeader: &errorpb.NotLeader{RegionId: call.RegionID}}}
			default:
				return uni.Action{Kind: uni.RegionErr, RegErr: &errorpb.Error{Message: "injected", EpochNotMatch: &errorpb.EpochNotMatch{}}}
			}
		}
		return uni.Action{}
	})
	logFrom := u.Log.Len()
	var rejBefore int64
	if strict != nil {
		rejBefore = strict.delRejects.Load()
	}
	var task *rangetask.DeleteRangeTask
	if cs.Notify {
		task = rangetask.NewNotifyDeleteRangeTask(c.Store, []byte(cs.Start), []byte(cs.End), cs.Conc)
	} else {
		task = rangetask.NewDeleteRangeTask(c.Store, []byte(cs.Start), []byte(cs.End), cs.Conc)
	}
	done := make(chan error, 1)
	go func() { done <- task.Execute(ctx) }()
	var xerr error
	select {
	case xerr = <-done:
	case <-time.After(2 * time.Minute):
		r.Inconc("%s: Execute did not return (watchdog)", cs)
		return false
	}
	c.Net.SetDecider(nil)
	mu.Lock()
	cancelled := cancelFired
	mu.Unlock()
	var rpcs []string
	type iv struct{ s, e string }
	var okRanges []iv
	for _, call := range u.Log.CallsFrom(logFrom) {
		if call.Cmd != tikvrpc.CmdDeleteRange {
			continue
		}
		q := call.Req.(*kvrpcpb.DeleteRangeRequest)
		if len(rpcs) < 80 {
			rpcs = append(rpcs, fmt.Sprintf("#%d region=%d ver=%d [%q,%q) notify=%v %s err=%q regErr=%v", call.Seq, call.RegionID, call.RegionVer, q.StartKey, q.EndKey, q.NotifyOnly, call.Action, call.Err, call.RegionErr))
		}
		if q.NotifyOnly != cs.Notify {
			viol(r, uni.Mock, "deleterange:notify-flag", fmt.Sprintf("%s: a request carries notify_only=%v", cs, q.NotifyOnly), map[string]any{"case": cs.String(), "rpc": rpcs[len(rpcs)-1]})
		}
		if call.Delivered && call.RegionErr == nil {
			okRanges = append(okRanges, iv{string(q.StartKey), string(q.EndKey)})
		}
	}
	detail := map[string]any{"case": cs.String(), "borders": lay.sorted(), "error": es(xerr), "delete_range_rpcs": rpcs}
	for _, p := range u.Panics() {
		viol(r, uni.Mock, "backend-panic:"+p.Msg, cs.String()+": the store panicked serving "+p.Req, detail)
		return false
	}
	if strict != nil && strict.delRejects.Load() > rejBefore {
		// region id and epoch of the request were current, yet its range is not inside that region
		viol(r, uni.Mock, "deleterange:request-leaves-its-region", fmt.Sprintf("%s: %d DeleteRange requests addressed a region (current epoch) with a range that is not inside it", cs, strict.delRejects.Load()-rejBefore), detail)
	}
	if runaway.Load() {
		r.Inconc("%s: the task sent more than %d DeleteRange requests for a range over at most %d regions without finishing; its client was stopped", cs, bound, cs.Regions+cs.Splits)
		return false
	}
	r.Eval(1)
	r.Count("runs", 1)
	r.Count("splits_during_run", int(splits.Load()))
	r.Count("faults_injected", int(faults.Load()))
	if xerr != nil {
		r.Count("runs_returning_error", 1)
		if cancelled {
			r.Count("cancelled_runs_returning_error", 1) // the caller gave up: an error is a truthful answer
		} else if faults.Load() == 0 {
			viol(r, uni.Mock, "deleterange:error-without-fault", fmt.Sprintf("%s: Execute returned %s although no fault was injected", cs, es(xerr)), detail)
		}
	}
	if cancelled && xerr == nil {
		r.Count("cancelled_runs_returning_nil", 1) // then every key of the range must be gone all the same (checked below)
	}
	after, err := u.ReadTruth(bkeys(keys))
	if err != nil {
		r.Inconc("%s: truth after: %v", cs, err)
		return false
	}
	empty := cs.End != "" && cs.Start >= cs.End
	inside, outside, removed := 0, 0, 0
	for _, k := range keys {
		in := !empty && inRange(k, cs.Start, cs.End) && !cs.Notify
		b, a := before.Keys[k], after.Keys[k]
		if in {
			inside++
			if len(b.Writes) > 0 {
				removed++
			}
			if xerr == nil && (len(a.Writes) > 0 || a.Lock != nil) {
				viol(r, uni.Mock, "deleterange:key-in-range-survives", fmt.Sprintf("%s: key %q lies in the range and still has %d records", cs, k, len(a.Writes)), detail)
				return false
			}
			if xerr == nil {
				delete(model, k)
			} else if len(a.Writes) == 0 {
				delete(model, k)
			}
			continue
		}
		outside++
		if len(a.Writes) != len(b.Writes) {
			sig := "deleterange:key-outside-range-removed"
			if cs.Notify {
				sig = "deleterange:notify-removed-a-key"
			}
			viol(r, uni.Mock, sig, fmt.Sprintf("%s: key %q lies outside the range (or the task only notifies) and went from %d to %d records", cs, k, len(b.Writes), len(a.Writes)), detail)
			return false
		}
	}
	if xerr == nil {
		// the reader's view = the ordered-map model
		scan, gets, err := readAll(c, keys)
		if err != nil {
			viol(r, uni.Mock, "deleterange:read-after-delete-failed", fmt.Sprintf("%s: reading after the task failed: %s", cs, es(err)), detail)
			return false
		}
		for name, got := range map[string]map[string]string{"iter": scan, "get": gets} {
			if len(got) != len(model) {
				viol(r, uni.Mock, "deleterange:model-mismatch:"+name, fmt.Sprintf("%s: %s sees %d keys, the model has %d", cs, name, len(got), len(model)), detail)
				return false
			}
			for k, v := range model {
				if got[k] != v {
					viol(r, uni.Mock, "deleterange:model-mismatch:"+name, fmt.Sprintf("%s: %s of %q = %q, model %q", cs, name, k, got[k], v), detail)
					return false
				}
			}
		}
		if cs.Notify && !empty {
			// nothing is removed by a notification; what can be observed is that every part of the range was notified
			sort.Slice(okRanges, func(i, j int) bool { return okRanges[i].s < okRanges[j].s })
			cur, covered := cs.Start, false
			for _, v := range okRanges {
				if !(v.s >= cs.Start && (cs.End == "" || (v.e != "" && v.e <= cs.End))) {
					viol(r, uni.Mock, "deleterange:notify-outside-range", fmt.Sprintf("%s: notified [%q,%q) outside the range", cs, v.s, v.e), detail)
					return false
				}
				if v.s > cur {
					break
				}
				if v.e == "" {
					covered = cs.End == ""
					cur = "\xff\xff\xff"
					break
				}
				if v.e > cur {
					cur = v.e
				}
			}
			if cs.End != "" && cur >= cs.End {
				covered = true
			}
			if !covered {
				viol(r, uni.Mock, "deleterange:notify-does-not-cover", fmt.Sprintf("%s: the notified ranges stop at %q", cs, cur), detail)
				return false
			}
			r.Count("notify_runs_checked", 1)
		}
	}
	r.Count("keys_inside_checked", inside)
	r.Count("keys_outside_checked", outside)
	r.Count("keys_removed", removed)
	if cs.End == "" && !empty {
		r.Count("runs_unbounded_end", 1)
	}
	if removed > 0 || cs.Notify {
		r.Distinct(fmt.Sprintf("strict=%v|regions=%d|startUnb=%v|endUnb=%v|conc=%d|splits=%v|faults=%v|notify=%v|err=%v|rpcs=%d", cs.Strict, cs.Regions, cs.Start == "", cs.End == "", cs.Conc, splits.Load() > 0, faults.Load() > 0, cs.Notify, xerr != nil, len(rpcs)))
	}
	if r.SampleN() < 4 && removed > 3 && len(rpcs) > 2 {
		r.Sample(map[string]any{"case": cs.String(), "keys_removed": removed, "rpcs": rpcs, "borders": lay.sorted()})
	}
	return true
}

func TestVerifC14DeleteRange(t *testing.T) {
	r := vrep.New("C14", "c14-deleterange", "rangetask.DeleteRangeTask / NotifyDeleteRangeTask on mocktikv (3 stores; half of the runs behind a back-end wrapper that rejects a delete range leaving the addressed region, as TiKV does) "+
		"against an ordered-map model: random committed data (several versions), layouts of 1-25 regions, ranges on/between borders, unbounded and empty, concurrency 1-8, region splits and tolerated faults "+
		"inside the DeleteRange RPCs; after a nil return the MVCC truth has no record of a key in [start,end), keys outside are untouched, Get and Iter agree with the model; "+
		"distinct = distinct (strictness, layout size, bounds kind, concurrency, chaos, #RPCs) of runs that removed something")
	defer r.Finish(t)
	_ = failpoint.Enable("tikvclient/fastBackoffBySkipSleep", "return")
	defer failpoint.Disable("tikvclient/fastBackoffBySkipSleep")
	rng := vrep.Rand("c14-deleterange")
	universes := vrep.Pick(4, 24)
	runs := vrep.Pick(14, 30)
	for ui := 0; ui < universes; ui++ {
		u, err := uni.New(uni.Mock, 3)
		if err != nil {
			r.Inconc("universe: %v", err)
			return
		}
		var strict *strictBackend
		if ui%2 == 0 {
			u.C14WrapBackend(func(inner tikv.Client) tikv.Client { strict = &strictBackend{Client: inner, u: u}; return strict })
		}
		c, err := u.NewClient()
		if err != nil {
			r.Inconc("client: %v", err)
			u.Close()
			return
		}
		lay := newLayout(u)
		nk := 60
		var keys []string
		for i := 0; i < nk; i++ {
			keys = append(keys, keyName(i))
		}
		regions := []int{1, 2, 4, 8, 16, 25}[rng.Intn(6)]
		for i := 0; i < regions-1; i++ {
			k := keyName(rng.Intn(nk))
			if rng.Intn(3) == 0 {
				k += "5"
			}
			lay.split(k)
		}
		model := map[string]string{}
		ok := true
		for i := 0; i < runs && ok; i++ {
			if len(model) < nk/3 {
				if err := populate(u, c, rng, keys, model, i); err != nil {
					r.Inconc("populate: %v", err)
					break
				}
			}
			borders := lay.sorted()
			pick := func() string {
				switch x := rng.Intn(10); {
				case x < 2:
					return ""
				case x < 5 && len(borders) > 0:
					return borders[rng.Intn(len(borders))]
				default:
					k := keyName(rng.Intn(nk))
					if rng.Intn(3) == 0 {
						k += "5"
					}
					return k
				}
			}
			cs := drCase{Strict: strict != nil, Regions: len(borders) + 1, Start: pick(), End: pick(), Conc: 1 + rng.Intn(8), Notify: strict != nil && rng.Intn(4) == 0} // mocktikv executes a notify-only request; only the strict back-end treats it as TiKV does
			if cs.End != "" && cs.Start > cs.End && rng.Intn(5) != 0 {
				cs.Start, cs.End = cs.End, cs.Start
			}
			switch rng.Intn(4) {
			case 1:
				cs.Splits = 1 + rng.Intn(3)
			case 2:
				cs.Splits = 1 + rng.Intn(3)
				cs.Faults = 10 + rng.Intn(20)
			case 3:
				cs.Faults = 10 + rng.Intn(20)
			}
			ok = runDeleteRange(r, u, c, strict, lay, keys, model, rng, cs)
		}
		if strict != nil {
			r.Count("strict_rejections", int(strict.delRejects.Load()))
		}
		r.Flush()
		u.Close()
	}
	// DeleteRangeTask hands out sub-tasks of 128 regions (no knob): layouts of 200 regions (two sub-tasks: the second
	// is queued when the first one's last request is answered) and 420 regions (four), a border on every key; the
	// caller cancels right after the last request of the first sub-task, or at some request
	for bi := 0; bi < vrep.Pick(4, 12); bi++ {
		nk := []int{200, 200, 420, 200}[bi%4]
		u, err := uni.New(uni.Mock, 3)
		if err != nil {
			r.Inconc("universe: %v", err)
			return
		}
		var strict *strictBackend
		if bi%2 == 0 {
			u.C14WrapBackend(func(inner tikv.Client) tikv.Client { strict = &strictBackend{Client: inner, u: u}; return strict })
		}
		c, err := u.NewClient()
		if err != nil {
			r.Inconc("client: %v", err)
			u.Close()
			return
		}
		lay := newLayout(u)
		var keys []string
		for i := 0; i < nk; i++ {
			keys = append(keys, keyName(i))
			if i > 0 {
				lay.split(keyName(i))
			}
		}
		model := map[string]string{}
		if err := populate(u, c, rng, keys, model, bi); err != nil {
			r.Inconc("populate: %v", err)
			u.Close()
			continue
		}
		cs := drCase{Strict: strict != nil, Regions: nk, Conc: 1 + bi%4/3}
		switch bi % 4 {
		case 0, 1: // whole key space: the first sub-task ends with the region starting at k0127
			cs.CancelStart = keyName(127)
		case 2:
			cs.Start, cs.End = keyName(10), keyName(410)
			cs.CancelStart = keyName(10 + 127)
		case 3:
			cs.Start = keyName(5)
			cs.CancelRPC = 20 + rng.Intn(150)
		}
		runDeleteRange(r, u, c, strict, lay, keys, model, rng, cs)
		r.Flush()
		u.Close()
	}
	r.Floor("runs", 40)
	r.Floor("keys_removed", 100)
	r.Floor("splits_during_run", 3)
	r.Floor("runs_unbounded_end", 3)
	_ = kv.KeyRange{}
}
