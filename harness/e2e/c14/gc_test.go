//go:build verif

package c14

import (
	"bytes"
	"context"
	"errors"
	"fmt"
	"math/rand"
	"os"
	"sort"
	"strings"
	"sync"
	"sync/atomic"
	"testing"
	"time"

	"github.com/pingcap/failpoint"
	"github.com/pingcap/kvproto/pkg/errorpb"
	"github.com/pingcap/kvproto/pkg/kvrpcpb"
	tikverr "github.com/tikv/client-go/v2/error"
	"github.com/tikv/client-go/v2/kv"
	"github.com/tikv/client-go/v2/oracle"
	"github.com/tikv/client-go/v2/tikv"
	"github.com/tikv/client-go/v2/tikvrpc"
	"github.com/tikv/client-go/v2/txnkv/rangetask"
	"github.com/tikv/client-go/v2/verifh/vrep"

	"verif/e2e/uni"
)

// ---------------------------------------------------------------------------------------------------------
// populations

// txnReg is what the driver knows about one transaction of the population: its identity and what it
// intended to write.  Its *state* (which locks / records exist) is always taken from the store's truth.
type txnReg struct {
	Start   uint64
	Primary string
	Shape   string
	Muts    map[string]mut // intended prewrites
	Pess    []string       // keys that were given a pessimistic lock
	Async   bool           // prewritten with use_async_commit (secondaries = all other keys of Muts)
}

func (t *txnReg) secondaries() []string {
	var out []string
	for k := range t.Muts {
		if k != t.Primary {
			out = append(out, k)
		}
	}
	sort.Strings(out)
	return out
}

func (t *txnReg) brief() string {
	var ks []string
	for k, m := range t.Muts {
		ks = append(ks, fmt.Sprintf("%s:%s", k, m.Op))
	}
	sort.Strings(ks)
	return fmt.Sprintf("{%s start=%d primary=%s muts=%v pess=%v}", t.Shape, t.Start, t.Primary, ks, t.Pess)
}

var rawShapes = []string{"base", "committed", "rolledback", "pending", "noprimary", "pess-pending", "pess-half", "pess-committed", "pess-rolledback", "pess-wrong-primary", "pess-multi-primary"}
var asyncShapes = []string{"async-full", "async-partial", "async-primary-committed", "async-fallback"}
var killShapes = []string{"kill-2pc", "kill-pess", "kill-async", "kill-pess-multi"}

type popBuilder struct {
	u     *uni.Universe
	d     *rawDriver
	rng   *rand.Rand
	keys  []string        // sorted key universe
	free  map[string]bool // keys without a lock
	regs  []*txnReg
	kills int
	// forceStart != 0: the next raw transaction uses this (older) start ts instead of a fresh one
	forceStart uint64
}

// take picks n free keys: scattered, or (run=true) a run of neighbouring keys (lands in few regions).
func (b *popBuilder) take(n int, run bool) []string {
	var fr []string
	for _, k := range b.keys {
		if b.free[k] {
			fr = append(fr, k)
		}
	}
	if len(fr) == 0 {
		return nil
	}
	if n > len(fr) {
		n = len(fr)
	}
	var out []string
	if run {
		s := b.rng.Intn(len(fr) - n + 1)
		out = append(out, fr[s:s+n]...)
	} else {
		for _, i := range b.rng.Perm(len(fr))[:n] {
			out = append(out, fr[i])
		}
		sort.Strings(out)
	}
	return out
}

func (b *popBuilder) muts(start uint64, keys []string) map[string]mut {
	m := map[string]mut{}
	for _, k := range keys {
		switch x := b.rng.Intn(10); {
		case x < 6:
			m[k] = mut{kvrpcpb.Op_Put, fmt.Sprintf("v%d.%s", start, k)}
		case x < 8:
			m[k] = mut{kvrpcpb.Op_Del, ""}
		case b.u.Backend == uni.Uni:
			// unistore keeps the commit of a lock-only mutation outside the write records MvccGetByKey shows;
			// the truth could not tell such a key committed from rolled back
			m[k] = mut{kvrpcpb.Op_Put, fmt.Sprintf("w%d.%s", start, k)}
		default:
			m[k] = mut{kvrpcpb.Op_Lock, ""}
		}
	}
	return m
}

func (b *popBuilder) subset(ks []string) []string {
	var out []string
	for _, k := range ks {
		if b.rng.Intn(3) == 0 {
			out = append(out, k)
		}
	}
	return out
}

func dedupe(ks []string) []string {
	seen := map[string]bool{}
	var out []string
	for _, k := range ks {
		if !seen[k] {
			seen[k] = true
			out = append(out, k)
		}
	}
	sort.Strings(out)
	return out
}

func without(ks []string, drop ...string) []string {
	var out []string
outer:
	for _, k := range ks {
		for _, d := range drop {
			if k == d {
				continue outer
			}
		}
		out = append(out, k)
	}
	return out
}

func (b *popBuilder) ttl() uint64 {
	return []uint64{1, 3000, 20000, 3600 * 1000}[b.rng.Intn(4)]
}

// add builds one transaction of the given shape over n keys.  Returns false if there were not enough free keys.
func (b *popBuilder) add(shape string, n int, run bool) (bool, error) {
	if strings.HasPrefix(shape, "kill-") {
		return b.addKilled(shape, n, run)
	}
	min := 1
	switch shape {
	case "noprimary", "async-partial", "async-fallback":
		min = 2
	case "pess-committed":
		min = 2 // one of them is the stale extra lock
	case "pess-wrong-primary":
		min = 3
	case "pess-multi-primary":
		min = 3
		if n < 6 && b.rng.Intn(2) == 0 {
			n += 1 + b.rng.Intn(3)
		}
		if b.rng.Intn(2) == 0 {
			run = true // neighbouring keys: the generations meet in one region / one scan batch
		}
	}
	if n < min {
		n = min
	}
	keys := b.take(n, run)
	if len(keys) < min {
		return false, nil
	}
	d := b.d
	start := d.ts()
	if b.forceStart != 0 {
		// a late prewrite: the transaction took its start ts long ago
		start, b.forceStart = b.forceStart, 0
	}
	primary := keys[b.rng.Intn(len(keys))]
	t := &txnReg{Start: start, Primary: primary, Shape: shape}
	ttl := b.ttl()
	lock := func(ks ...string) {
		for _, k := range ks {
			delete(b.free, k)
		}
	}
	var err error
	switch shape {
	case "base":
		t.Muts = b.muts(start, keys)
		for k, m := range t.Muts { // base data: no lock-only records, they carry nothing a reader could see
			if m.Op == kvrpcpb.Op_Lock {
				t.Muts[k] = mut{kvrpcpb.Op_Put, fmt.Sprintf("v%d.%s", start, k)}
			}
		}
		if err = d.prewrite(start, primary, t.Muts, keys, prewriteOpt{ttl: ttl}); err == nil {
			err = d.commit(start, d.ts(), keys)
		}
	case "committed":
		t.Muts = b.muts(start, keys)
		if err = d.prewrite(start, primary, t.Muts, keys, prewriteOpt{ttl: ttl}); err == nil {
			done := append([]string{primary}, b.subset(without(keys, primary))...)
			err = d.commit(start, d.ts(), done)
			lock(without(keys, done...)...)
		}
	case "rolledback":
		t.Muts = b.muts(start, keys)
		if err = d.prewrite(start, primary, t.Muts, keys, prewriteOpt{ttl: ttl}); err == nil {
			done := append([]string{primary}, b.subset(without(keys, primary))...)
			err = d.rollback(start, done)
			lock(without(keys, done...)...)
		}
	case "pending":
		t.Muts = b.muts(start, keys)
		err = d.prewrite(start, primary, t.Muts, keys, prewriteOpt{ttl: ttl})
		lock(keys...)
	case "noprimary":
		t.Muts = b.muts(start, keys)
		rest := without(keys, primary)
		err = d.prewrite(start, primary, t.Muts, rest, prewriteOpt{ttl: ttl})
		lock(rest...)
	case "pess-pending":
		t.Pess = keys
		t.Muts = map[string]mut{}
		err = d.pessLock(start, d.ts(), primary, keys, ttl)
		lock(keys...)
	case "pess-half":
		fu := d.ts()
		t.Pess = keys
		t.Muts = b.muts(start, keys)
		if err = d.pessLock(start, fu, primary, keys, ttl); err == nil {
			some := b.subset(keys)
			if len(some) > 0 {
				err = d.prewrite(start, primary, t.Muts, some, prewriteOpt{ttl: ttl, forUpdateTS: fu})
			}
		}
		lock(keys...)
	case "pess-committed":
		fu := d.ts()
		extra := keys[0]
		if extra == primary {
			extra = keys[1]
		}
		written := without(keys, extra)
		t.Pess = keys
		t.Muts = b.muts(start, written)
		if err = d.pessLock(start, fu, primary, keys, ttl); err == nil {
			if err = d.prewrite(start, primary, t.Muts, written, prewriteOpt{ttl: ttl, forUpdateTS: fu}); err == nil {
				done := append([]string{primary}, b.subset(without(written, primary))...)
				err = d.commit(start, d.ts(), done)
				lock(without(keys, done...)...)
			}
		}
	case "pess-wrong-primary":
		// a committed pessimistic transaction left a stale pessimistic lock whose primary field does not name
		// the transaction's primary (a statement retried with another primary; pingcap/tidb#42937): its
		// "rolled back" look must not decide the fate of the transaction's real locks
		fu := d.ts()
		extra := without(keys, primary)[0]
		written := without(keys, extra)
		t.Pess = keys
		t.Muts = b.muts(start, written)
		if err = d.pessLock(start, fu, primary, written, ttl); err == nil {
			if err = d.pessLock(start, fu, extra, []string{extra}, ttl); err == nil {
				if err = d.prewrite(start, primary, t.Muts, written, prewriteOpt{ttl: ttl, forUpdateTS: fu}); err == nil {
					done := append([]string{primary}, b.subset(without(written, primary))...)
					if b.rng.Intn(2) == 0 {
						done = nil // ... or the transaction is still pending: everything is rolled back
					}
					if len(done) > 0 {
						err = d.commit(start, d.ts(), done)
					}
					lock(without(keys, done...)...)
				}
			}
		}
	case "pess-multi-primary":
		// One pessimistic transaction whose locks name several primaries (pingcap/tidb#42937): a locking statement that
		// failed half-way (write conflict on a later key) left pessimistic locks under the primary it had chosen - among
		// them that key's own, self-primary lock - because their rollback was lost; the transaction elected a new primary
		// with its next statement(s), then its client died (while locking, while prewriting, or after committing /
		// rolling back the primary).  Generations are interleaved in key order at random, so a stale self-primary
		// lock comes first / in the middle / last among the transaction's locks of a region.
		fu := d.ts()
		gens := 2
		if len(keys) >= 4 && b.rng.Intn(3) == 0 {
			gens = 3
		}
		groups := make([][]string, gens)
		for i, pi := range b.rng.Perm(len(keys)) {
			g := i
			if i >= gens {
				g = b.rng.Intn(gens)
			}
			groups[g] = append(groups[g], keys[pi])
		}
		live := dedupe(groups[gens-1])
		primary = live[b.rng.Intn(len(live))]
		t.Primary = primary
		t.Pess = keys
		t.Muts = map[string]mut{}
		lock(keys...)
		for gi := 0; gi < gens && err == nil; gi++ {
			g := dedupe(groups[gi])
			p := primary
			if gi < gens-1 {
				p = g[b.rng.Intn(len(g))] // the failed statement's primary is one of its keys: a self-primary lock
			}
			if err = d.pessLock(start, fu, p, g, ttl); err != nil {
				break
			}
			if gi < gens-1 && len(g) > 1 && b.rng.Intn(4) == 0 {
				// the rollback of the stale generation got as far as its primary: the others name a key without a lock
				if err = d.pessRollback(start, fu, []string{p}); err == nil {
					b.free[p] = true
				}
			}
		}
		if err == nil {
			switch b.rng.Intn(5) {
			case 0, 1: // died while locking
			case 2: // died while prewriting
				if some := b.subset(live); len(some) > 0 {
					t.Muts = b.muts(start, some)
					err = d.prewrite(start, primary, t.Muts, some, prewriteOpt{ttl: ttl, forUpdateTS: fu})
				}
			case 3: // died while committing
				t.Muts = b.muts(start, live)
				if err = d.prewrite(start, primary, t.Muts, live, prewriteOpt{ttl: ttl, forUpdateTS: fu}); err == nil {
					done := append([]string{primary}, b.subset(without(live, primary))...)
					err = d.commit(start, d.ts(), done)
					for _, k := range done {
						b.free[k] = true
					}
				}
			default: // died while rolling back
				t.Muts = b.muts(start, live)
				if err = d.prewrite(start, primary, t.Muts, live, prewriteOpt{ttl: ttl, forUpdateTS: fu}); err == nil {
					err = d.rollback(start, []string{primary})
					b.free[primary] = true
				}
			}
		}
	case "pess-rolledback":
		fu := d.ts()
		t.Pess = keys
		t.Muts = b.muts(start, keys)
		if err = d.pessLock(start, fu, primary, keys, ttl); err == nil {
			if err = d.prewrite(start, primary, t.Muts, keys, prewriteOpt{ttl: ttl, forUpdateTS: fu}); err == nil {
				err = d.rollback(start, []string{primary})
				lock(without(keys, primary)...)
			}
		}
	case "async-full", "async-partial", "async-primary-committed":
		t.Muts = b.muts(start, keys)
		t.Async = true
		pre := keys
		if shape == "async-partial" {
			// at least one secondary is never prewritten
			sec := without(keys, primary)
			miss := sec[b.rng.Intn(len(sec))]
			pre = without(keys, append(b.subset(sec), miss)...)
		}
		var maxMin uint64
		if err = d.prewriteAsync(start, primary, t.Muts, pre, ttl, t.secondaries(), &maxMin); err == nil {
			lock(pre...)
			if shape == "async-primary-committed" {
				if maxMin == 0 {
					err = fmt.Errorf("async prewrite of %d returned no min_commit_ts (fell back to 2PC?)", start)
				} else {
					done := append([]string{primary}, b.subset(without(keys, primary))...)
					err = d.commit(start, maxMin, done)
					for _, k := range done {
						b.free[k] = true
					}
				}
			}
		}
	case "async-fallback":
		// the committer fell back to 2PC in the middle of prewriting (a store answered min_commit_ts = 0): the
		// primary's batch carries async-commit locks, later batches ordinary ones; the client died before
		// committing.  Nobody was told "committed", the async-commit protocol cannot apply: rolled back.
		t.Muts = b.muts(start, keys)
		t.Async = true
		sec := without(keys, primary)
		plain := append([]string{sec[b.rng.Intn(len(sec))]}, b.subset(sec)...)
		var maxMin uint64
		if err = d.prewriteAsync(start, primary, t.Muts, without(keys, plain...), ttl, t.secondaries(), &maxMin); err == nil {
			err = d.prewrite(start, primary, t.Muts, dedupe(plain), prewriteOpt{ttl: ttl})
		}
		lock(keys...)
	default:
		return false, fmt.Errorf("unknown shape %q", shape)
	}
	if err != nil {
		return false, fmt.Errorf("shape %s: %w", shape, err)
	}
	b.regs = append(b.regs, t)
	return true, nil
}

// prewriteAsync prewrites with use_async_commit and reports the largest min_commit_ts the store answered.
func (d *rawDriver) prewriteAsync(start uint64, primary string, muts map[string]mut, keys []string, ttl uint64, secondaries []string, maxMin *uint64) error {
	return d.keyed(keys, func(ks [][]byte) *tikvrpc.Request {
		r := &kvrpcpb.PrewriteRequest{StartVersion: start, PrimaryLock: []byte(primary), LockTtl: ttl, TxnSize: uint64(len(muts)),
			UseAsyncCommit: true, MinCommitTs: start + 1}
		for _, k := range ks {
			m := muts[string(k)]
			pm := &kvrpcpb.Mutation{Op: m.Op, Key: k}
			if m.Op == kvrpcpb.Op_Put {
				pm.Value = []byte(m.Val)
			}
			r.Mutations = append(r.Mutations, pm)
			if string(k) == primary {
				r.Secondaries = bkeys(secondaries)
			}
		}
		return tikvrpc.NewRequest(tikvrpc.CmdPrewrite, r)
	}, func(resp *tikvrpc.Response) error {
		pr, ok := resp.Resp.(*kvrpcpb.PrewriteResponse)
		if !ok || pr == nil {
			return fmt.Errorf("prewrite: response %T", resp.Resp)
		}
		if len(pr.Errors) > 0 {
			return fmt.Errorf("async prewrite %d: %v", start, pr.Errors[0])
		}
		if pr.MinCommitTs > *maxMin {
			*maxMin = pr.MinCommitTs
		}
		return nil
	})
}

// addKilled runs a transaction through the public KVTxn API on a client store of its own and kills that
// store at a chosen request of the commit path.
func (b *popBuilder) addKilled(shape string, n int, run bool) (bool, error) {
	multi := shape == "kill-pess-multi"
	if multi {
		if n < 3 {
			n = 3 + b.rng.Intn(3)
		}
		if b.rng.Intn(2) == 0 {
			run = true
		}
	}
	keys := b.take(n, run)
	if len(keys) == 0 || (multi && len(keys) < 3) {
		return false, nil
	}
	v, err := b.u.NewClient()
	if err != nil {
		return false, err
	}
	txn, err := v.Begin()
	if err != nil {
		return false, err
	}
	start := txn.StartTS()
	t := &txnReg{Start: start, Shape: shape, Muts: map[string]mut{}}
	txn.SetEnableAsyncCommit(shape == "kill-async")
	txn.SetEnable1PC(false)
	livePrimary := ""
	if multi {
		// A pessimistic transaction with several primaries, through the public API: LockKeys(kM.., kX) fails on kX with a
		// write conflict after kM.. were locked under the primary kM (one request per key, the primary's first); the
		// asynchronous rollback of those locks is lost; the next LockKeys calls elect a new primary; the client then dies
		// somewhere on the way to its commit.  Which key plays which part is drawn at random, so the stale self-primary
		// lock lands first / in the middle / last in scan order.
		perm := b.rng.Perm(len(keys))
		kX := keys[perm[0]]
		nStale := 1
		if len(keys) >= 4 && b.rng.Intn(3) == 0 {
			nStale = 2
		}
		var stale, live []string
		for i, pi := range perm[1:] {
			if i < nStale {
				stale = append(stale, keys[pi])
			} else {
				live = append(live, keys[pi])
			}
		}
		// a newer committed version on kX
		cs := b.d.ts()
		cm := map[string]mut{kX: {kvrpcpb.Op_Put, fmt.Sprintf("v%d.%s", cs, kX)}}
		if err := b.d.prewrite(cs, kX, cm, []string{kX}, prewriteOpt{ttl: 3000}); err != nil {
			return false, fmt.Errorf("kill-pess-multi: conflicting write: %w", err)
		}
		if err := b.d.commit(cs, b.d.ts(), []string{kX}); err != nil {
			return false, fmt.Errorf("kill-pess-multi: conflicting write: %w", err)
		}
		b.regs = append(b.regs, &txnReg{Start: cs, Primary: kX, Shape: "base", Muts: cm})
		txn.SetPessimistic(true)
		_ = failpoint.Enable("tikvclient/beforeAsyncPessimisticRollback", `return("skip")`)
		_ = failpoint.Enable("tikvclient/twoPCRequestBatchSizeLimit", "return")
		lerr := txn.LockKeys(bg, kv.NewLockCtx(start, kv.LockNoWait, time.Now()), bkeys(append(append([]string(nil), stale...), kX))...)
		_ = failpoint.Disable("tikvclient/twoPCRequestBatchSizeLimit")
		b.u.Drain()
		_ = failpoint.Disable("tikvclient/beforeAsyncPessimisticRollback")
		var wc *tikverr.ErrWriteConflict
		if !errors.As(lerr, &wc) {
			return false, fmt.Errorf("kill-pess-multi: the first locking statement was to fail with a write conflict on %q, got %s", kX, es(lerr))
		}
		for len(live) > 0 {
			// one or several statements under the new primary
			m := 1 + b.rng.Intn(len(live))
			fu, err := v.Store.CurrentTimestamp(oracle.GlobalTxnScope)
			if err != nil {
				return false, err
			}
			if err := txn.LockKeys(bg, kv.NewLockCtx(fu, kv.LockNoWait, time.Now()), bkeys(live[:m])...); err != nil {
				return false, fmt.Errorf("kill-pess-multi: LockKeys under the new primary: %w", err)
			}
			if livePrimary == "" {
				livePrimary = live[0]
			}
			t.Pess = append(t.Pess, live[:m]...)
			live = live[m:]
		}
		t.Pess = append(t.Pess, stale...)
		for _, k := range keys {
			delete(b.free, k)
		}
		b.free[kX] = true
		keys = append([]string(nil), t.Pess[:len(t.Pess)-len(stale)]...) // the keys the transaction goes on to write
		if b.rng.Intn(2) == 0 {
			// the client dies right here, holding nothing but pessimistic locks
			keys = nil
		}
	}
	if shape == "kill-pess" {
		txn.SetPessimistic(true)
		fu, err := v.Store.CurrentTimestamp(oracle.GlobalTxnScope)
		if err != nil {
			return false, err
		}
		if err := txn.LockKeys(bg, kv.NewLockCtx(fu, kv.LockNoWait, time.Now()), bkeys(keys)...); err != nil {
			return false, fmt.Errorf("kill-pess: LockKeys: %w", err)
		}
		t.Pess = keys
	}
	for _, k := range keys {
		if b.rng.Intn(4) == 0 {
			t.Muts[k] = mut{kvrpcpb.Op_Del, ""}
			if err := txn.Delete([]byte(k)); err != nil {
				return false, err
			}
		} else {
			val := fmt.Sprintf("v%d.%s", start, k)
			t.Muts[k] = mut{kvrpcpb.Op_Put, val}
			if err := txn.Set([]byte(k), []byte(val)); err != nil {
				return false, err
			}
		}
	}
	// kill point: after the k-th Prewrite, else before/after the first Commit
	kp := 1 + b.rng.Intn(3)
	commitAfter := b.rng.Intn(2) == 0
	var mu sync.Mutex
	nPre := 0
	point := ""
	v.Net.SetDecider(func(c *uni.Call) uni.Action {
		mu.Lock()
		defer mu.Unlock()
		switch c.Cmd {
		case tikvrpc.CmdPrewrite:
			nPre++
			if nPre == kp {
				point = fmt.Sprintf("after-prewrite#%d", kp)
				return uni.Action{Kind: uni.KillAfter}
			}
		case tikvrpc.CmdCommit:
			if commitAfter {
				point = "after-first-commit"
				return uni.Action{Kind: uni.KillAfter}
			}
			point = "before-first-commit"
			return uni.Action{Kind: uni.KillBefore}
		}
		return uni.Action{}
	})
	if multi && len(keys) == 0 {
		point = "while-locking"
		v.Kill()
	} else {
		cerr := txn.Commit(bg)
		_ = cerr
	}
	if !b.u.Drain() {
		return false, fmt.Errorf("%s: victim did not drain", shape)
	}
	if !v.Net.Killed() {
		point = "after-everything"
		v.Kill()
	}
	b.u.Drain()
	v.Net.SetDecider(nil)
	lastPessPrimary, sawPrewrite := "", false
	for _, c := range b.u.Log.Calls() {
		if c.Client != v.ID || c.StartTS != start {
			continue
		}
		switch q := c.Req.(type) {
		case *kvrpcpb.PrewriteRequest:
			t.Primary = string(q.PrimaryLock)
			sawPrewrite = true
			if q.UseAsyncCommit {
				t.Async = true
			}
		case *kvrpcpb.PessimisticLockRequest:
			if t.Primary == "" {
				t.Primary = string(q.PrimaryLock)
			}
			lastPessPrimary = string(q.PrimaryLock)
		}
	}
	if multi {
		// not the first statement's primary but the one the later statements elected: read from the wire (the client
		// sorts the keys of a statement, so it is the smallest key of the first live statement, not live[0]); a
		// prewrite request, if one was sent, names it as well
		if !sawPrewrite {
			t.Primary = lastPessPrimary
		}
		_ = livePrimary
	}
	if t.Primary == "" {
		return true, nil // nothing reached the store
	}
	t.Shape = shape + "@" + point
	b.kills++
	// which keys are still locked is read from the truth by the caller; be conservative here
	for _, k := range keys {
		delete(b.free, k)
	}
	b.regs = append(b.regs, t)
	return true, nil
}

// ---------------------------------------------------------------------------------------------------------
// oracle

type outcome struct {
	Committed bool
	CommitTS  uint64
	Why       string
}

type snapshotOfStore struct {
	truth *uni.Truth
	locks map[string]uni.LockRec // by key
}

func takeTruth(u *uni.Universe, keys []string) (*snapshotOfStore, error) {
	tr, err := u.ReadTruth(bkeys(keys))
	if err != nil {
		return nil, err
	}
	ls, err := u.ScanLocksTruth()
	if err != nil {
		return nil, err
	}
	s := &snapshotOfStore{truth: tr, locks: map[string]uni.LockRec{}}
	for _, l := range ls {
		if len(l.Key) > 0 && l.Key[0] == 0xff {
			continue // unistore meta keys
		}
		s.locks[string(l.Key)] = l
	}
	// both views must agree (the lock scan is per region, the MVCC read per key)
	for k, kt := range tr.Keys {
		_, inScan := s.locks[k]
		if (kt.Lock != nil) != inScan {
			return nil, fmt.Errorf("truth views disagree on key %q: mvcc lock=%v scan=%v", k, kt.Lock != nil, inScan)
		}
	}
	for k := range s.locks {
		if _, ok := tr.Keys[k]; !ok {
			return nil, fmt.Errorf("lock on key %q outside the key universe", k)
		}
	}
	return s, nil
}

func isPess(l uni.LockRec) bool { return l.Type == kvrpcpb.Op_PessimisticLock }

// deriveOutcome decides from the store's state what transaction t *is*: committed (with which ts) or not.
//   - the primary carries a commit record               -> committed at that ts
//   - async commit: the primary carries an async-commit prewrite lock and every secondary carries a
//     prewrite lock of t or a commit record of t        -> committed at max(min_commit_ts) (or the ts of a record)
//     (a secondary with an ordinary prewrite lock = the committer had fallen back to 2PC -> not committed)
//   - anything else (primary rolled back, pending, pessimistic, never written) -> not committed
func deriveOutcome(t *txnReg, s *snapshotOfStore) outcome {
	pk := s.truth.Keys[t.Primary]
	if pk == nil {
		return outcome{Why: "primary outside the key universe"}
	}
	if w := pk.WriteOf(t.Start); w != nil {
		return outcome{true, w.CommitTS, "primary committed"}
	}
	pl, ok := s.locks[t.Primary]
	if !ok || pl.StartTS != t.Start {
		return outcome{Why: "primary has neither lock nor commit record"}
	}
	if isPess(pl) {
		return outcome{Why: "primary holds a pessimistic lock"}
	}
	if !pl.UseAsync {
		return outcome{Why: "primary prewritten, not committed"}
	}
	maxMin := pl.MinCommitTS
	var rec uint64
	for _, sk := range t.secondaries() {
		kt := s.truth.Keys[sk]
		if w := kt.WriteOf(t.Start); w != nil {
			rec = w.CommitTS
			continue
		}
		if l, ok := s.locks[sk]; ok && l.StartTS == t.Start && !isPess(l) {
			if !l.UseAsync {
				return outcome{Why: fmt.Sprintf("async commit: secondary %q carries an ordinary prewrite lock (fallback to 2PC), primary not committed", sk)}
			}
			if l.MinCommitTS > maxMin {
				maxMin = l.MinCommitTS
			}
			continue
		}
		return outcome{Why: fmt.Sprintf("async commit: secondary %q was never prewritten", sk)}
	}
	if rec != 0 {
		return outcome{true, rec, "async commit: a secondary is already committed"}
	}
	return outcome{true, maxMin, "async commit: all keys prewritten"}
}

func nonRollback(ws []uni.Write) []uni.Write {
	var out []uni.Write
	for _, w := range ws {
		if w.Type != kvrpcpb.Op_Rollback {
			out = append(out, w)
		}
	}
	return out
}

func wkey(w uni.Write) string { return fmt.Sprintf("%d/%d/%s/%q", w.StartTS, w.CommitTS, w.Type, w.Value) }

// visibleAt is the value a snapshot read at ts must return given the records ws.
func visibleAt(ws []uni.Write, ts uint64) (string, bool) {
	var best *uni.Write
	for i := range ws {
		w := &ws[i]
		if w.CommitTS > ts || (w.Type != kvrpcpb.Op_Put && w.Type != kvrpcpb.Op_Del) {
			continue
		}
		if best == nil || w.CommitTS > best.CommitTS {
			best = w
		}
	}
	if best == nil || best.Type == kvrpcpb.Op_Del {
		return "", false
	}
	return string(best.Value), true
}

type problem struct {
	Sig, Msg string
	Txn      uint64 // the transaction the problem is about (0: none in particular)
}

// judge compares the store before and after the GC run.  full=false (GC returned an error): only safety.
func judge(regs []*txnReg, before, after *snapshotOfStore, sp uint64, full bool) (probs []problem, expected map[string][]uni.Write, outcomes map[uint64]outcome) {
	byStart := map[uint64]*txnReg{}
	for _, t := range regs {
		byStart[t.Start] = t
	}
	outcomes = map[uint64]outcome{}
	for _, t := range regs {
		outcomes[t.Start] = deriveOutcome(t, before)
	}
	shapeOf := func(start uint64) string {
		if t := byStart[start]; t != nil {
			s := t.Shape
			if i := strings.IndexByte(s, '@'); i >= 0 {
				s = s[:i]
			}
			return s
		}
		return "unknown"
	}
	role := func(l uni.LockRec) string {
		r := "secondary"
		if bytes.Equal(l.Key, l.Primary) {
			r = "primary"
		}
		return fmt.Sprintf("%s-%s", strings.ToLower(l.Type.String()), r)
	}
	adds := map[string][]uni.Write{}
	// optional: TiKV commits a left-over pessimistic lock of a committed transaction as a lock-only record
	// (invisible to readers) when a resolve request of that transaction sweeps the region before the
	// pessimistic rollback of that key ran; both results are "the same outcome"
	optional := map[string]bool{}
	for k, l := range before.locks {
		if l.StartTS > sp {
			continue
		}
		t := byStart[l.StartTS]
		if t == nil {
			probs = append(probs, problem{"harness:unknown-lock", fmt.Sprintf("lock of unknown txn %d on %q", l.StartTS, k), l.StartTS})
			continue
		}
		if o := outcomes[l.StartTS]; o.Committed && !isPess(l) {
			w := uni.Write{StartTS: l.StartTS, CommitTS: o.CommitTS, Type: l.Type}
			if l.Type == kvrpcpb.Op_Put {
				w.Value = []byte(t.Muts[k].Val)
			}
			adds[k] = append(adds[k], w)
		} else if o.Committed && isPess(l) {
			optional[k+"|"+wkey(uni.Write{StartTS: l.StartTS, CommitTS: o.CommitTS, Type: kvrpcpb.Op_Lock})] = true
		}
	}
	expected = map[string][]uni.Write{}
	var ks []string
	for k := range before.truth.Keys {
		ks = append(ks, k)
	}
	sort.Strings(ks)
	for _, k := range ks {
		bw := nonRollback(before.truth.Keys[k].Writes)
		aw := nonRollback(after.truth.Keys[k].Writes)
		exp := append(append([]uni.Write(nil), bw...), adds[k]...)
		expected[k] = exp
		bset, aset, addset := map[string]bool{}, map[string]uni.Write{}, map[string]bool{}
		for _, w := range bw {
			bset[wkey(w)] = true
		}
		for _, w := range adds[k] {
			addset[wkey(w)] = true
		}
		for _, w := range aw {
			aset[wkey(w)] = w
		}
		for id, w := range aset {
			if bset[id] || addset[id] || optional[k+"|"+id] {
				continue
			}
			o := outcomes[w.StartTS]
			switch {
			case !o.Committed:
				probs = append(probs, problem{"gc:uncommitted-txn-got-a-version:" + shapeOf(w.StartTS),
					fmt.Sprintf("key %q: record %s of txn %d appeared, but the txn was not committed before GC (%s)", k, id, w.StartTS, o.Why), w.StartTS})
			case w.CommitTS != o.CommitTS:
				probs = append(probs, problem{"gc:commit-ts-changed:" + shapeOf(w.StartTS),
					fmt.Sprintf("key %q: txn %d committed at %d, but its commit ts is %d (%s)", k, w.StartTS, w.CommitTS, o.CommitTS, o.Why), w.StartTS})
			default:
				probs = append(probs, problem{"gc:unexpected-version:" + shapeOf(w.StartTS),
					fmt.Sprintf("key %q: record %s appeared; expected additions %v", k, id, adds[k]), w.StartTS})
			}
		}
		for _, w := range bw {
			if _, ok := aset[wkey(w)]; !ok {
				probs = append(probs, problem{"gc:version-lost:" + shapeOf(w.StartTS), fmt.Sprintf("key %q: record %s existed before GC and is gone", k, wkey(w)), w.StartTS})
			}
		}
		if full {
			for _, w := range adds[k] {
				if _, ok := aset[wkey(w)]; !ok {
					probs = append(probs, problem{"gc:committed-txn-not-committed-on-key:" + shapeOf(w.StartTS),
						fmt.Sprintf("key %q carried a %s lock of committed txn %d (commit ts %d, %s); after GC the record %s is missing; records now %v",
							k, w.Type, w.StartTS, w.CommitTS, outcomes[w.StartTS].Why, wkey(w), aw), w.StartTS})
				}
			}
		}
	}
	// locks
	for k, l := range after.locks {
		bl, was := before.locks[k]
		if !was || bl.StartTS != l.StartTS {
			probs = append(probs, problem{"gc:new-lock", fmt.Sprintf("key %q carries a lock of %d that did not exist before GC", k, l.StartTS), l.StartTS})
			continue
		}
		if full && l.StartTS <= sp {
			probs = append(probs, problem{"gc:lock-left:" + role(l) + ":" + shapeOf(l.StartTS),
				fmt.Sprintf("key %q still carries the %s lock of txn %d (<= safe point %d), primary %q, txn %s", k, l.Type, l.StartTS, sp, l.Primary, outcomes[l.StartTS].Why), l.StartTS})
		}
	}
	for k, l := range before.locks {
		if l.StartTS > sp {
			if al, ok := after.locks[k]; !ok || al.StartTS != l.StartTS || al.Type != l.Type {
				probs = append(probs, problem{"gc:lock-above-safepoint-touched:" + role(l),
					fmt.Sprintf("key %q: lock of txn %d (> safe point %d) was removed or changed", k, l.StartTS, sp), l.StartTS})
			}
		}
	}
	return probs, expected, outcomes
}

func panicSite(p any) string {
	s := fmt.Sprint(p)
	switch {
	case strings.Contains(s, "saved to cache with existing different entry"):
		return "resolver-status-cache-conflict"
	case strings.Contains(s, "undetermined status saved to cache"):
		return "resolver-undetermined-status-cached"
	case strings.Contains(s, "nil pointer") || strings.Contains(s, "invalid memory address"):
		return "nil-dereference"
	case strings.Contains(s, "index out of range") || strings.Contains(s, "slice bounds"):
		return "index-out-of-range"
	}
	return "other"
}

// scanLockTyped reports whether the store's raw ScanLock answer names the type of the (pessimistic) lock on key.
func scanLockTyped(u *uni.Universe, key string) bool {
	st := u.TruthStore()
	for attempt := 0; attempt < 10; attempt++ {
		bo := tikv.NewBackofferWithVars(bg, 20000, nil)
		loc, err := st.GetRegionCache().LocateKey(bo, []byte(key))
		if err != nil {
			return true
		}
		req := tikvrpc.NewRequest(tikvrpc.CmdScanLock, &kvrpcpb.ScanLockRequest{MaxVersion: ^uint64(0), StartKey: []byte(key), EndKey: loc.EndKey, Limit: 1 << 20})
		resp, err := st.SendReq(bo, req, loc.Region, 10*time.Second)
		if err != nil {
			return true
		}
		if re, _ := resp.GetRegionError(); re != nil {
			continue
		}
		sr, ok := resp.Resp.(*kvrpcpb.ScanLockResponse)
		if !ok || sr == nil {
			return true
		}
		for _, l := range sr.Locks {
			if string(l.Key) == key {
				return l.LockType == kvrpcpb.Op_PessimisticLock
			}
		}
		return true
	}
	return true
}

// multiPrimaryCoverage counts what a population holds of the family "pessimistic transaction with several primaries":
// transactions whose pessimistic locks at or below the safe point name two or more primaries, and - per region, in
// key (= scan) order - where a self-primary pessimistic lock sits among the locks of its transaction and what kind of
// lock of the same transaction comes first in that region.  Shared by the single-call cases and the GC sessions.
func multiPrimaryCoverage(r *vrep.Report, u *uni.Universe, before *snapshotOfStore, sp uint64, ok bool) {
	if !ok {
		return // only executions held to the full oracle count as coverage
	}
	type lk struct {
		key string
		l   uni.LockRec
	}
	byTxnRegion := map[uint64]map[uint64][]lk{}
	primaries := map[uint64]map[string]bool{}
	for k, l := range before.locks {
		if l.StartTS > sp {
			continue
		}
		if isPess(l) {
			if primaries[l.StartTS] == nil {
				primaries[l.StartTS] = map[string]bool{}
			}
			primaries[l.StartTS][string(l.Primary)] = true
		}
		loc, err := u.TruthStore().GetRegionCache().LocateKey(tikv.NewBackofferWithVars(bg, 20000, nil), []byte(k))
		if err != nil {
			continue
		}
		if byTxnRegion[l.StartTS] == nil {
			byTxnRegion[l.StartTS] = map[uint64][]lk{}
		}
		byTxnRegion[l.StartTS][loc.Region.GetID()] = append(byTxnRegion[l.StartTS][loc.Region.GetID()], lk{k, l})
	}
	for start, ps := range primaries {
		if len(ps) < 2 {
			continue
		}
		r.Count("multi_primary:pessimistic_txns_with_several_primaries", 1)
		for _, ls := range byTxnRegion[start] {
			sort.Slice(ls, func(i, j int) bool { return ls[i].key < ls[j].key })
			if len(ls) > 1 {
				r.Count("multi_primary:regions_with_several_locks_of_such_a_txn", 1)
			}
			for i, x := range ls {
				if !isPess(x.l) || string(x.l.Primary) != x.key {
					continue
				}
				pos := "alone"
				switch {
				case len(ls) == 1:
				case i == 0:
					pos = "first"
				case i == len(ls)-1:
					pos = "last"
				default:
					pos = "middle"
				}
				r.Count("multi_primary:self_primary_lock_in_region:"+pos, 1)
				if i > 0 {
					prev := "prewrite"
					if isPess(ls[0].l) {
						prev = "pessimistic-same-primary"
						if string(ls[0].l.Primary) != x.key {
							prev = "pessimistic-other-primary"
						}
					}
					r.Count("multi_primary:self_primary_lock_after_first_lock_of_txn_in_region:"+prev, 1)
				}
			}
		}
	}
}

// ---------------------------------------------------------------------------------------------------------
// one GC execution

type gcCase struct {
	Label   string // multi-call sessions: which call of which session
	Backend string
	Mode    string // gc | phase | range
	Strict  bool
	NKeys   int
	NTxns   int
	Regions int
	Limit   int // scan limit (mode range); 1024 otherwise
	RPT     int // regions per task (mode range)
	Conc    int
	Wide    int // size of the wide transactions (0: none)
	Splits  int // topology changes gated into the GC's RPCs
	Faults  int // percent of the GC's RPCs that get a fault
	CutAt   int // > 0: from the CutAt-th RPC of the GC on, every request is lost (the GC has to give up)
	Every   bool // a region border on every key (Regions = NKeys): several 128-region sub-tasks for KVStore.GC
	// caller-side cancellation: the context given to the GC call is cancelled right after the answer of its
	// CancelRPC-th request / of the ScanLock request starting at CancelScan (the last request of a sub-task)
	CancelRPC  int
	CancelScan string
	SPMid   bool
	Seed    int64
}

func (c gcCase) String() string {
	return c.Label + fmt.Sprintf("%s/%s/strict=%v/keys=%d/txns=%d/regions=%d/limit=%d/rpt=%d/conc=%d/wide=%d/splits=%d/faults=%d%%/spmid=%v",
		c.Backend, c.Mode, c.Strict, c.NKeys, c.NTxns, c.Regions, c.Limit, c.RPT, c.Conc, c.Wide, c.Splits, c.Faults, c.SPMid) + func() string {
		x := ""
		if c.CutAt > 0 {
			x += fmt.Sprintf("/cut@%d", c.CutAt)
		}
		if c.CancelRPC > 0 {
			x += fmt.Sprintf("/cancel@rpc%d", c.CancelRPC)
		}
		if c.CancelScan != "" {
			x += "/cancel@scan:" + c.CancelScan
		}
		return x
	}()
}

func keyName(i int) string { return fmt.Sprintf("k%04d", i) }

func runGCCase(r *vrep.Report, cs gcCase) {
	u, err := uni.New(cs.Backend, 3)
	if err != nil {
		r.Inconc("universe: %v", err)
		return
	}
	defer u.Close()
	var strict *strictBackend
	if cs.Strict {
		u.C14WrapBackend(func(inner tikv.Client) tikv.Client { strict = &strictBackend{Client: inner, u: u}; return strict })
	}
	rng := rand.New(rand.NewSource(cs.Seed))
	lay := newLayout(u)
	var keys []string
	for i := 0; i < cs.NKeys; i++ {
		keys = append(keys, keyName(i))
	}
	// region borders: on keys and between keys; a wide run of keys must stay inside one region now and then,
	// so borders are drawn from the whole key range and the wide transactions take neighbouring keys
	if cs.Every {
		for i := 1; i < cs.NKeys; i++ {
			lay.split(keyName(i))
		}
	} else {
		for i := 0; i < cs.Regions-1; i++ {
			k := keyName(rng.Intn(cs.NKeys))
			if rng.Intn(3) == 0 {
				k += "5"
			}
			lay.split(k)
		}
	}
	d := &rawDriver{u: u, st: u.TruthStore()}
	b := &popBuilder{u: u, d: d, rng: rng, keys: keys, free: map[string]bool{}}
	for _, k := range keys {
		b.free[k] = true
	}
	delete(b.free, cs.CancelScan) // that region stays lock-free: its scan is the last request of its sub-task
	shapes := append([]string(nil), rawShapes...)
	if cs.Backend == uni.Uni {
		shapes = append(shapes, asyncShapes...)
		shapes = append(shapes, asyncShapes...)
	}
	shapes = append(shapes, "kill-2pc", "kill-pess", "kill-pess-multi", "pess-multi-primary")
	if cs.Backend == uni.Uni {
		shapes = append(shapes, "kill-async", "kill-async")
	}
	if cs.NKeys > 500 {
		shapes = without(shapes, killShapes...) // the big case is about the scan limit, keep it cheap
	}
	// some base data first, so that locks sit on top of older versions
	for i := 0; i < 3; i++ {
		if _, err := b.add("base", 2+rng.Intn(6), false); err != nil {
			r.Inconc("%s: population: %v", cs, err)
			return
		}
	}
	var spMid uint64
	for i := 0; i < cs.NTxns; i++ {
		shape := shapes[rng.Intn(len(shapes))]
		n := 1 + rng.Intn(5)
		run := rng.Intn(3) == 0
		if cs.Wide > 0 && i%4 == 1 {
			n, run = cs.Wide, true
			if strings.HasPrefix(shape, "kill-") || shape == "base" {
				shape = []string{"pending", "committed", "rolledback", "pess-half"}[rng.Intn(4)]
			}
		}
		if _, err := b.add(shape, n, run); err != nil {
			r.Inconc("%s: population: %v", cs, err)
			return
		}
		if i == cs.NTxns*2/3 && len(b.regs) > 0 {
			spMid = b.regs[len(b.regs)-1].Start // a lock start ts *equal* to the safe point is at-or-below
		}
	}
	if !u.Drain() {
		r.Inconc("%s: population did not drain", cs)
		return
	}
	sp := d.ts()
	if cs.SPMid && spMid != 0 {
		sp = spMid
	}
	before, err := takeTruth(u, keys)
	if err != nil {
		r.Inconc("%s: truth before: %v", cs, err)
		return
	}
	// classify the population
	byStart := map[uint64]*txnReg{}
	for _, t := range b.regs {
		byStart[t.Start] = t
	}
	perRegion := map[uint64]int{}
	old, young, asyncLocks := 0, 0, 0
	kinds := map[string]int{}
	for k, l := range before.locks {
		if l.StartTS > sp {
			young++
			continue
		}
		old++
		if l.UseAsync {
			asyncLocks++
		}
		loc, err := u.TruthStore().GetRegionCache().LocateKey(tikv.NewBackofferWithVars(bg, 20000, nil), []byte(k))
		if err == nil {
			perRegion[loc.Region.GetID()]++
		}
		role := "secondary"
		if string(l.Primary) == k {
			role = "primary"
		}
		sh := "unknown"
		if t := byStart[l.StartTS]; t != nil {
			sh = t.Shape
			if i := strings.IndexByte(sh, '@'); i >= 0 {
				sh = sh[:i]
			}
		}
		kinds[fmt.Sprintf("%s/%s/%s", strings.ToLower(l.Type.String()), role, sh)]++
	}
	rel := map[string]bool{}
	for _, n := range perRegion {
		switch {
		case n < cs.Limit:
			rel["below"] = true
		case n == cs.Limit:
			rel["at"] = true
		default:
			rel["above"] = true
		}
	}

	// stale pessimistic locks that name themselves as primary although their (committed) transaction's primary is another key
	var selfPrimaryOfCommitted []string
	for k, l := range before.locks {
		if t := byStart[l.StartTS]; t != nil && l.StartTS <= sp && isPess(l) && string(l.Primary) == k && t.Primary != k && deriveOutcome(t, before).Committed {
			selfPrimaryOfCommitted = append(selfPrimaryOfCommitted, k)
		}
	}
	sort.Strings(selfPrimaryOfCommitted)
	if len(selfPrimaryOfCommitted) > 0 && cs.Mode != "range" && cs.Conc > 1 && !scanLockTyped(u, selfPrimaryOfCommitted[0]) {
		// A store whose ScanLock answer lacks the lock type (mocktikv, known finding C14-1) makes the resolver look
		// such a transaction up twice with different answers; when two workers do that at the same time the
		// resolver's status cache panics - on a goroutine of the GC's own range task, which would end this
		// process and every other monitor in it.  One worker cannot race with itself; the wrong outcome the
		// untyped answer causes is still produced and reported.  (mode "range" recovers in its handler instead.)
		cs.Conc = 1
		r.Count("concurrency_forced_to_1:untyped-scanlock", 1)
	}
	gc, err := u.NewClient()
	if err != nil {
		r.Inconc("gc client: %v", err)
		return
	}
	// fault / topology plan for the GC's own RPCs
	var mu sync.Mutex
	crng := rand.New(rand.NewSource(cs.Seed ^ 0xc14))
	splitBudget := cs.Splits
	gcRPCs := 0
	cancelFired := false
	ctx, cancelCtx := context.WithCancel(bg)
	defer cancelCtx()
	var splitsDuring, topoDuring, faults atomic.Int64
	// logical progress bound: every scan request either finds a lock that is then resolved or finishes a region,
	// apart from retries after (budgeted) faults and topology changes
	scanBound := int64(400 + 40*(old+cs.Regions+cs.Splits))
	var scanCount atomic.Int64
	var runaway atomic.Bool
	gc.Net.SetDecider(func(c *uni.Call) uni.Action {
		switch c.Cmd {
		case tikvrpc.CmdScanLock, tikvrpc.CmdResolveLock, tikvrpc.CmdCheckTxnStatus, tikvrpc.CmdCheckSecondaryLocks, tikvrpc.CmdPessimisticRollback:
		default:
			return uni.Action{}
		}
		if c.Cmd == tikvrpc.CmdScanLock && scanCount.Add(1) > scanBound {
			runaway.Store(true)
			return uni.Action{Kind: uni.KillBefore}
		}
		mu.Lock()
		defer mu.Unlock()
		gcRPCs++
		if !cancelFired {
			hit := cs.CancelRPC > 0 && gcRPCs == cs.CancelRPC
			if q, ok := c.Req.(*kvrpcpb.ScanLockRequest); ok && cs.CancelScan != "" && string(q.StartKey) == cs.CancelScan {
				hit = true
			}
			if hit {
				cancelFired = true
				return uni.Action{After: cancelCtx}
			}
		}
		if cs.CutAt > 0 && gcRPCs >= cs.CutAt {
			faults.Add(1)
			return uni.Action{Kind: uni.DropReq}
		}
		if splitBudget > 0 && (c.Cmd == tikvrpc.CmdScanLock || c.Cmd == tikvrpc.CmdResolveLock) && crng.Intn(100) < 35 {
			splitBudget--
			k := keyName(crng.Intn(cs.NKeys))
			if crng.Intn(2) == 0 {
				k += "5"
			}
			x, pick := crng.Intn(10), crng.Intn(3)
			f := func() {
				switch {
				case x < 7 || u.MockCl == nil:
					if lay.split(k) {
						splitsDuring.Add(1)
					}
				case x < 9:
					if u.MergeAt([]byte(k)) {
						topoDuring.Add(1)
					}
				default:
					if u.MoveLeader([]byte(k), pick) {
						topoDuring.Add(1)
					}
				}
			}
			if c.Cmd == tikvrpc.CmdScanLock && crng.Intn(2) == 0 {
				// after the scan was answered, before the client sees it: the resolve request meets a changed region
				return uni.Action{After: f}
			}
			return uni.Action{Before: f}
		}
		if cs.Faults > 0 && crng.Intn(100) < cs.Faults {
			faults.Add(1)
			switch crng.Intn(6) {
			case 0:
				return uni.Action{Kind: uni.DropReq}
			case 1:
				return uni.Action{Kind: uni.DropResp}
			case 2:
				return uni.Action{Kind: uni.RegionErr, RegErr: &errorpb.Error{Message: "injected", NotLeader: &errorpb.NotLeader{RegionId: c.RegionID}}}
			case 3:
				return uni.Action{Kind: uni.RegionErr, RegErr: &errorpb.Error{Message: "injected", ServerIsBusy: &errorpb.ServerIsBusy{Reason: "verif"}}}
			case 4:
				return uni.Action{Kind: uni.RegionErr, RegErr: &errorpb.Error{Message: "injected", EpochNotMatch: &errorpb.EpochNotMatch{}}}
			default:
				return uni.Action{Kind: uni.RegionErr, RegErr: &errorpb.Error{Message: "injected", RegionNotFound: &errorpb.RegionNotFound{RegionId: c.RegionID}}}
			}
		}
		return uni.Action{}
	})
	logFrom := u.Log.Len()
	type res struct {
		err error
		pan any
	}
	done := make(chan res, 1)
	var panicMu sync.Mutex
	handlerPanic := ""
	go func() {
		var rs res
		defer func() {
			if p := recover(); p != nil {
				rs.pan = p
			}
			done <- rs
		}()
		switch cs.Mode {
		case "gc":
			_, rs.err = gc.Store.GC(ctx, sp, tikv.WithConcurrency(cs.Conc))
		case "phase":
			rs.err = tikv.StoreProbe{KVStore: gc.Store}.GCResolveLockPhase(ctx, sp, cs.Conc)
		default:
			lr := tikv.NewRegionLockResolver("verif-c14", gc.Store)
			h := func(ctx context.Context, kr kv.KeyRange) (st rangetask.TaskStat, err error) {
				// runs on a worker goroutine of the range task: a panic of the resolver would end the process
				defer func() {
					if p := recover(); p != nil {
						panicMu.Lock()
						handlerPanic = fmt.Sprint(p)
						panicMu.Unlock()
						err = fmt.Errorf("verif: resolver panicked: %v", p)
					}
				}()
				return tikv.ResolveLocksForRange(ctx, lr, sp, kr.StartKey, kr.EndKey, tikv.NewGcResolveLockMaxBackoffer, uint32(cs.Limit))
			}
			runner := rangetask.NewRangeTaskRunner("verif-c14-resolve", gc.Store, cs.Conc, h)
			runner.SetRegionsPerTask(cs.RPT)
			rs.err = runner.RunOnRange(ctx, []byte(""), []byte(""))
		}
	}()
	var out res
	select {
	case out = <-done:
	case <-time.After(90 * time.Second): // watchdog only
		r.Inconc("%s seed=%d: GC did not return (watchdog)", cs, cs.Seed)
		return
	}
	gc.Net.SetDecider(nil)
	mu.Lock()
	cancelled := cancelFired
	mu.Unlock()
	detail := func(extra map[string]any) map[string]any {
		m := map[string]any{"case": cs.String(), "seed": cs.Seed, "safe_point": sp, "borders": lay.sorted()}
		var pop []string
		for _, t := range b.regs {
			if t.Shape != "base" {
				pop = append(pop, t.brief())
			}
		}
		if len(pop) > 60 {
			pop = pop[:60]
		}
		m["population"] = pop
		var calls []string
		for _, c := range u.Log.CallsFrom(logFrom) {
			if c.Client == gc.ID && len(calls) < 700 {
				calls = append(calls, fmt.Sprintf("#%d..%d %s region=%d ver=%d %s err=%q regErr=%v :: %.160v => %.200v", c.Seq, c.RetSeq, c.Cmd, c.RegionID, c.RegionVer, c.Action, c.Err, c.RegionErr != nil, c.Req, c.Resp))
			}
		}
		m["gc_rpcs"] = calls
		var notes []string
		for _, n := range u.Log.Notes() {
			notes = append(notes, fmt.Sprintf("#%d %s", n.Seq, n.Text))
		}
		m["notes"] = notes
		for k, v := range extra {
			m[k] = v
		}
		return m
	}
	panicMu.Lock()
	if handlerPanic != "" && out.pan == nil {
		out.pan = handlerPanic
	}
	panicMu.Unlock()
	// Did the resolver treat a pessimistic lock as a prewrite lock?  (CheckTxnStatus on behalf of a lock that the
	// truth knows as pessimistic, sent without resolving_pessimistic_lock: the store's ScanLock answer did not say
	// what kind of lock it is - mocktikv, known finding C14-1.)  Transactions this happened to are named in the signature.
	checkedAsPrewrite := map[uint64]bool{}
	untypedScan := map[string]bool{} // keys whose pessimistic lock a ScanLock answer to the GC client presented without that type
	for _, c := range u.Log.CallsFrom(logFrom) {
		if c.Client != gc.ID {
			continue
		}
		if p, ok := c.Resp.(*kvrpcpb.ScanLockResponse); ok && p != nil && c.Cmd == tikvrpc.CmdScanLock {
			for _, sl := range p.Locks {
				if l, ok := before.locks[string(sl.Key)]; ok && l.StartTS == sl.LockVersion && isPess(l) && sl.LockType != kvrpcpb.Op_PessimisticLock {
					untypedScan[string(sl.Key)] = true
				}
			}
		}
	}
	for _, c := range u.Log.CallsFrom(logFrom) {
		if c.Client != gc.ID || c.Cmd != tikvrpc.CmdCheckTxnStatus {
			continue
		}
		// ... and was then looked up as its own primary like a prewrite lock
		if q, ok := c.Req.(*kvrpcpb.CheckTxnStatusRequest); ok && !q.ResolvingPessimisticLock && untypedScan[string(q.PrimaryKey)] {
			if l, ok := before.locks[string(q.PrimaryKey)]; ok && l.StartTS == q.LockTs && isPess(l) {
				checkedAsPrewrite[q.LockTs] = true
			}
		}
	}
	const causeTag = "pessimistic-lock-checked-as-prewrite-lock"
	if out.pan != nil {
		// the signature names the panic site and whether the population holds the one shape that is known to
		// provoke it on a store whose ScanLock does not report lock types
		shape := "no-self-primary-pessimistic-lock-of-committed-txn"
		if len(selfPrimaryOfCommitted) > 0 {
			shape = "self-primary-pessimistic-lock-of-committed-txn"
			for _, k := range selfPrimaryOfCommitted {
				if checkedAsPrewrite[before.locks[k].StartTS] {
					shape += ":" + causeTag
					break
				}
			}
		}
		viol(r, cs.Backend, "gc:panic:"+cs.Mode+":"+panicSite(out.pan)+":"+shape, fmt.Sprintf("%s: GC panicked: %v", cs, out.pan),
			detail(map[string]any{"self_primary_pessimistic_locks_of_committed_txns": selfPrimaryOfCommitted}))
		return
	}
	if !u.Drain() {
		r.Inconc("%s: GC did not drain", cs)
		return
	}
	for _, p := range u.Panics() {
		viol(r, cs.Backend, "backend-panic:"+p.Msg, cs.String()+": the store panicked serving "+p.Req, detail(map[string]any{"panic": p}))
	}
	after, err := takeTruth(u, keys)
	if err != nil {
		r.Inconc("%s: truth after: %v", cs, err)
		return
	}
	full := out.err == nil
	if runaway.Load() {
		r.Inconc("%s seed=%d: GC sent more than %d ScanLock requests for %d locks in %d regions without finishing; its client was stopped", cs, cs.Seed, scanBound, old, cs.Regions)
	}
	probs, expected, outcomes := judge(b.regs, before, after, sp, full)
	seenSig := map[string]bool{}
	for _, p := range probs {
		if p.Txn != 0 && checkedAsPrewrite[p.Txn] {
			p.Sig += ":" + causeTag
		}
		// one witness per signature and case
		if seenSig[p.Sig] {
			continue
		}
		seenSig[p.Sig] = true
		viol(r, cs.Backend, p.Sig, cs.String()+": "+p.Msg, detail(map[string]any{"gc_error": es(out.err), "problems_in_this_case": len(probs)}))
	}
	r.Eval(len(before.locks) + len(keys) + len(b.regs))
	if out.err != nil {
		r.Count("gc_returned_error", 1)
		if cancelled {
			// the caller gave up: an error is a truthful answer
			r.Count("gc_cancelled_returning_error", 1)
		} else if faults.Load() == 0 && !runaway.Load() {
			viol(r, cs.Backend, "gc:error-without-fault:"+cs.Mode, fmt.Sprintf("%s: GC returned %s although no fault was injected", cs, es(out.err)), detail(nil))
		} else {
			r.Count("gc_error_after_faults", 1)
		}
	} else {
		r.Count("gc_returned_nil", 1)
		if cancelled {
			// nil after the caller's cancellation: the full oracle above applied all the same
			r.Count("gc_cancelled_returning_nil", 1)
		}
	}
	// reads at and above the safe point through a fresh client
	if full && len(probs) == 0 {
		readsAfterGC(r, u, cs, sp, keys, expected, after, detail)
	}

	// evidence
	scansAtLimit, scans, resolves := 0, 0, 0
	for _, c := range u.Log.CallsFrom(logFrom) {
		if c.Client != gc.ID {
			continue
		}
		switch c.Cmd {
		case tikvrpc.CmdScanLock:
			scans++
			if q, ok := c.Req.(*kvrpcpb.ScanLockRequest); ok {
				if p, ok := c.Resp.(*kvrpcpb.ScanLockResponse); ok && p != nil && c.Err == "" && len(p.Locks) >= int(q.Limit) {
					scansAtLimit++
				}
			}
		case tikvrpc.CmdResolveLock:
			resolves++
		}
	}
	r.Count("cases", 1)
	r.Count("cases:"+cs.Backend+":"+cs.Mode, 1)
	r.Count("locks_at_or_below_safepoint", old)
	r.Count("locks_above_safepoint", young)
	r.Count("async_commit_locks", asyncLocks)
	if full {
		r.Count("locks_resolved", old)
	}
	for k, n := range kinds {
		r.Count("lock:"+k, n)
	}
	for _, t := range b.regs {
		if t.Shape == "base" {
			continue
		}
		sh := t.Shape
		o := "rolled-back"
		if outcomes[t.Start].Committed {
			o = "committed"
		}
		r.Count("txn:"+sh+":"+o, 1)
		if strings.HasPrefix(sh, "kill-pess-multi@") {
			r.Count("txn:kill-pess-multi:any", 1)
		}
	}
	for k := range rel {
		r.Count("region_locks_vs_limit:"+k, 1)
	}
	r.Count("scanlock_rpcs", scans)
	r.Count("scans_that_hit_the_limit", scansAtLimit)
	r.Count("resolvelock_rpcs", resolves)
	r.Count("splits_during_gc", int(splitsDuring.Load()))
	r.Count("merges_leader_moves_during_gc", int(topoDuring.Load()))
	r.Count("faults_injected", int(faults.Load()))
	r.Count("killed_clients", b.kills)
	multiPrimaryCoverage(r, u, before, sp, full)
	if strict != nil {
		r.Count("strict_scanlock_answers_cut", int(strict.scanCut.Load()))
	}
	if old > 0 {
		var rels, shs []string
		for k := range rel {
			rels = append(rels, k)
		}
		sort.Strings(rels)
		seen := map[string]bool{}
		for k := range kinds {
			if !seen[k] {
				seen[k] = true
				shs = append(shs, k)
			}
		}
		sort.Strings(shs)
		r.Distinct(fmt.Sprintf("%s|%s|strict=%v|limit=%d|rpt=%d|conc=%d|rel=%v|splits=%v|faults=%v|spmid=%v|err=%v|%v", cs.Backend, cs.Mode, cs.Strict, cs.Limit, cs.RPT, cs.Conc, rels,
			splitsDuring.Load()+topoDuring.Load() > 0, faults.Load() > 0, cs.SPMid, out.err != nil, shs))
	}
	if r.SampleN() < 4 {
		r.Sample(map[string]any{"case": cs.String(), "safe_point": sp, "locks_by_kind": kinds, "locks_per_region": len(perRegion), "scans": scans, "scans_at_limit": scansAtLimit,
			"splits_during_gc": splitsDuring.Load(), "gc_error": es(out.err), "txns": len(b.regs)})
	}
}

func readsAfterGC(r *vrep.Report, u *uni.Universe, cs gcCase, sp uint64, keys []string, expected map[string][]uni.Write, after *snapshotOfStore, detail func(map[string]any) map[string]any) {
	obs, err := u.NewClient()
	if err != nil {
		r.Inconc("observer: %v", err)
		return
	}
	now, err := obs.Store.CurrentTimestamp(oracle.GlobalTxnScope)
	if err != nil {
		r.Inconc("observer ts: %v", err)
		return
	}
	check := func(ts uint64, what string, got map[string]string, asked []string) {
		for _, k := range asked {
			want, ok := visibleAt(expected[k], ts)
			g, gok := got[k]
			if ok != gok || want != g {
				viol(r, cs.Backend, "gc:read-changed:"+what, fmt.Sprintf("%s: %s of %q at ts %d (safe point %d) returned (%q,%v); the state before GC and the transaction outcomes imply (%q,%v)", cs, what, k, ts, sp, g, gok, want, ok),
					detail(map[string]any{"key": k, "read_ts": ts, "records_expected": fmt.Sprint(expected[k])}))
				return
			}
		}
		r.Eval(len(asked))
		r.Count("reads_checked:"+what, len(asked))
	}
	readErr := func(ts uint64, what string, err error) {
		var ab *tikverr.ErrTxnAbortedByGC
		sig := "gc:read-failed:" + what
		if errors.As(err, &ab) {
			sig = "gc:read-refused-at-or-above-safepoint:" + what
		}
		viol(r, cs.Backend, sig, fmt.Sprintf("%s: %s at ts %d (safe point %d) failed: %s", cs, what, ts, sp, es(err)), detail(map[string]any{"read_ts": ts}))
	}
	for _, ts := range []uint64{sp, now} {
		asked := keys
		if ts != sp {
			// a lock above the safe point legitimately blocks a reader above it
			asked = nil
			for _, k := range keys {
				if _, locked := after.locks[k]; !locked {
					asked = append(asked, k)
				}
			}
		}
		if len(asked) > 200 {
			asked = asked[:200]
		}
		if len(asked) == 0 {
			continue
		}
		// get
		got := map[string]string{}
		failed := false
		for i, k := range asked {
			if i%3 != 0 && len(asked) > 30 {
				continue
			}
			v, err := obs.Store.GetSnapshot(ts).Get(bg, []byte(k))
			if tikverr.IsErrNotFound(err) {
				continue
			}
			if err != nil {
				readErr(ts, "get", err)
				failed = true
				break
			}
			got[k] = string(v.Value)
		}
		if !failed {
			var sub []string
			for i, k := range asked {
				if i%3 != 0 && len(asked) > 30 {
					continue
				}
				sub = append(sub, k)
			}
			check(ts, "get", got, sub)
		}
		// batch get
		m, err := obs.Store.GetSnapshot(ts).BatchGet(bg, bkeys(asked))
		if err != nil {
			readErr(ts, "batchget", err)
		} else {
			got = map[string]string{}
			for k, v := range m {
				got[k] = string(v.Value)
			}
			check(ts, "batchget", got, asked)
		}
		// scan (whole key universe; only when nothing can block it)
		if len(asked) == len(keys) {
			it, err := obs.Store.GetSnapshot(ts).Iter([]byte("k"), []byte("l"))
			if err != nil {
				readErr(ts, "iter", err)
				continue
			}
			got = map[string]string{}
			for it.Valid() {
				got[string(it.Key())] = string(it.Value())
				if err = it.Next(); err != nil {
					break
				}
			}
			it.Close()
			if err != nil {
				readErr(ts, "iter", err)
				continue
			}
			check(ts, "iter", got, asked)
		}
	}
}

func TestVerifC14GC(t *testing.T) {
	r := vrep.New("C14", "c14-gc", "GC lock resolution (KVStore.GC, StoreProbe.GCResolveLockPhase, ResolveLocksForRange under a range task with a lowered scan limit) over generated lock populations "+
		"(raw-RPC built primaries/secondaries of committed, rolled-back, pending, primary-less, pessimistic, async-commit transactions and client stores killed mid-commit) on mocktikv (3 stores) and unistore, "+
		"with region splits/merges/leader moves and RPC faults gated into the GC's own requests; oracle on the MVCC truth before/after: no lock <= safe point, per-key records = records before + commits of "+
		"the locks of transactions that were committed (their commit ts), locks > safe point untouched, snapshot reads at the safe point and above = what the state before implies; "+
		"distinct = distinct (back-end, mode, limit relation, concurrency, chaos, lock-kind set) of cases with at least one lock to resolve")
	defer r.Finish(t)
	_ = failpoint.Enable("tikvclient/fastBackoffBySkipSleep", "return")
	defer failpoint.Disable("tikvclient/fastBackoffBySkipSleep")
	seed := vrep.Seed()
	rng := vrep.Rand("c14-gc")
	n := vrep.Pick(96, 900)
	only := os.Getenv("VERIF_C14_ONLY")
	var cases []gcCase
	for i := 0; i < n; i++ {
		cs := gcCase{Seed: seed*100003 + int64(i)}
		cs.Backend = []string{uni.Mock, uni.Uni}[i%2]
		cs.Mode = []string{"range", "range", "phase", "range", "gc", "range"}[(i/2)%6]
		if cs.Mode == "gc" && cs.Backend == uni.Uni {
			cs.Mode = "phase" // unistore's PD has no GC controller
		}
		cs.Strict = rng.Intn(2) == 0
		cs.NKeys = 30 + rng.Intn(50)
		cs.NTxns = 8 + rng.Intn(14)
		cs.Regions = []int{1, 2, 3, 5, 8, 12}[rng.Intn(6)]
		cs.Conc = 1 + rng.Intn(8)
		cs.Limit, cs.RPT = 1024, 128
		if cs.Mode == "range" {
			cs.Limit = []int{1, 2, 3, 4, 6, 8}[rng.Intn(6)]
			cs.RPT = 1 + rng.Intn(4)
			if rng.Intn(2) == 0 {
				cs.Wide = cs.Limit + rng.Intn(cs.Limit+3)
			}
		}
		switch rng.Intn(9) {
		case 0, 1:
		case 2, 3:
			cs.Splits = 1 + rng.Intn(4)
		case 4, 5:
			cs.Splits = 1 + rng.Intn(6)
			cs.Faults = 5 + rng.Intn(10)
		case 6, 7:
			cs.Faults = 3 + rng.Intn(8)
		case 8:
			// a storm: the GC may give up (error return); then only the safety half of the oracle applies
			cs.Splits = rng.Intn(4)
			cs.Faults = 45 + rng.Intn(35)
			if rng.Intn(2) == 0 {
				cs.Faults = rng.Intn(10)
				cs.CutAt = 2 + rng.Intn(40)
			}
		}
		cs.SPMid = rng.Intn(3) == 0
		if cs.Mode == "range" && cs.CutAt == 0 && rng.Intn(4) == 0 {
			// the caller cancels in the middle: many small sub-tasks, most regions lock-free (their single scan is
			// the last request of their sub-task)
			cs.Regions = 8 + rng.Intn(20)
			cs.RPT = 1 + rng.Intn(2)
			cs.Faults, cs.Splits = 0, 0
			cs.CancelRPC = 1 + rng.Intn(cs.Regions)
		}
		cases = append(cases, cs)
	}
	// KVStore.GC / GCResolveLockPhase hand out sub-tasks of 128 regions: layouts with several sub-tasks, the caller
	// cancels right after the last scan of the first sub-task (or at some request) while later sub-tasks hold locks
	// (200 regions = two sub-tasks: with one worker the second one is queued and the dispatcher has finished when the
	// first one's last scan is answered; 420 regions = four sub-tasks: the dispatcher is still waiting to hand one out)
	bigCancel := []gcCase{
		{Backend: uni.Mock, Mode: "gc", Conc: 1, NKeys: 200, CancelScan: keyName(127)},
		{Backend: uni.Mock, Mode: "phase", Conc: 1, NKeys: 200, CancelScan: keyName(127)},
		{Backend: uni.Uni, Mode: "phase", Conc: 1, NKeys: 200, CancelScan: keyName(127)},
		{Backend: uni.Mock, Mode: "gc", Conc: 1, NKeys: 420, CancelScan: keyName(127)},
		{Backend: uni.Mock, Mode: "gc", Conc: 2, NKeys: 420, CancelRPC: 100 + rng.Intn(200)},
		{Backend: uni.Uni, Mode: "phase", Conc: 2, NKeys: 420, CancelScan: keyName(255)},
	}
	if vrep.Thorough() {
		for i := 0; i < 10; i++ {
			c := bigCancel[i%6]
			c.Conc = 1 + rng.Intn(3)
			if i%2 == 0 {
				c.CancelScan, c.CancelRPC = "", 50+rng.Intn(400)
			}
			bigCancel = append(bigCancel, c)
		}
	}
	for i, c := range bigCancel {
		c.Seed = seed*100003 + 9500 + int64(i)
		c.Every, c.Regions, c.NTxns, c.Limit, c.RPT, c.Strict = true, c.NKeys, 14, 1024, 128, i%2 == 0
		cases = append(cases, c)
	}
	// the production limit (1024) needs a region with more locks than that
	for i, be := range []string{uni.Mock, uni.Uni} {
		for j := 0; j < vrep.Pick(1, 3); j++ {
			mode := "phase"
			if be == uni.Mock && j%2 == 0 {
				mode = "gc"
			}
			cases = append(cases, gcCase{Seed: seed*100003 + 9000 + int64(i*10+j), Backend: be, Mode: mode, Strict: j%2 == 0, NKeys: 2700, NTxns: 12, Regions: 2, Limit: 1024, RPT: 128,
				Conc: 1 + rng.Intn(4), Wide: 1024 + []int{0, 1, 90}[(i+j)%3], Splits: j % 2 * 2})
		}
	}
	for _, cs := range cases {
		if only != "" && !strings.Contains(cs.String(), only) {
			continue
		}
		t0 := time.Now()
		runGCCase(r, cs)
		t.Logf("case %s seed=%d took %v violations=%d", cs, cs.Seed, time.Since(t0).Round(time.Millisecond), r.NViolations())
		r.Flush()
	}
	r.Floor("locks_resolved", 200)
	r.Floor("scans_that_hit_the_limit", 5)
	r.Floor("splits_during_gc", 3)
	r.Floor("async_commit_locks", 5)
	r.Floor("txn:async-full:committed", 1)
	r.Floor("region_locks_vs_limit:above", 3)
	r.Floor("reads_checked:get", 50)
	r.Floor("multi_primary:pessimistic_txns_with_several_primaries", 10)
	r.Floor("multi_primary:self_primary_lock_in_region:first", 2)
	r.Floor("multi_primary:self_primary_lock_in_region:middle", 2)
	r.Floor("multi_primary:self_primary_lock_in_region:last", 2)
	r.Floor("multi_primary:self_primary_lock_after_first_lock_of_txn_in_region:pessimistic-other-primary", 3)
	r.Floor("txn:kill-pess-multi:any", 2)
}
