//go:build verif

package c14

import (
	"context"
	"fmt"
	"math/rand"
	"strings"
	"sync"
	"testing"
	"time"

	"github.com/pingcap/failpoint"
	"github.com/tikv/client-go/v2/tikv"
	"github.com/tikv/client-go/v2/tikvrpc"
	"github.com/tikv/client-go/v2/verifh/vrep"

	"verif/e2e/uni"
)

// gcCall is one KVStore.GC call of a session.
type gcCall struct {
	SP      string // "fresh" (a new ts: above everything so far) | "same" (the previous call's) | "lower"
	Fail    string // "" | "cut" (every request lost from the FailAt-th on) | "cancel" (caller cancels after the FailAt-th request's answer)
	FailAt  int
	NewTxns int  // orphan transactions created before the call
	Late    bool // one of them prewrites with a start ts taken before the previous call's safe point (a late prewrite)
	Barrier bool // a GC barrier is set at the previous call's safe point before this call (this call asks for a fresh one)
	Conc    int
}

func (c gcCall) String() string {
	return fmt.Sprintf("{sp=%s fail=%s@%d new=%d late=%v barrier=%v conc=%d}", c.SP, c.Fail, c.FailAt, c.NewTxns, c.Late, c.Barrier, c.Conc)
}

// runGCSession: several KVStore.GC calls on one universe (mocktikv; unistore's PD has no GC controller).  Every call
// that returns nil is held to the full oracle for the safe point it was successful to: "after a successful GC to a safe
// point no lock with start ts <= it remains, outcomes unchanged, reads unchanged" - whether or not an earlier call
// (failed or successful) already went to the same safe point.
func runGCSession(r *vrep.Report, seed int64, id int, strictOn bool, calls []gcCall) {
	u, err := uni.New(uni.Mock, 3)
	if err != nil {
		r.Inconc("universe: %v", err)
		return
	}
	defer u.Close()
	if strictOn {
		u.C14WrapBackend(func(inner tikv.Client) tikv.Client { return &strictBackend{Client: inner, u: u} })
	}
	rng := rand.New(rand.NewSource(seed))
	lay := newLayout(u)
	nKeys := 40 + rng.Intn(30)
	var keys []string
	for i := 0; i < nKeys; i++ {
		keys = append(keys, keyName(i))
	}
	regions := []int{1, 3, 6, 12}[rng.Intn(4)]
	for i := 0; i < regions-1; i++ {
		lay.split(keyName(rng.Intn(nKeys)))
	}
	d := &rawDriver{u: u, st: u.TruthStore()}
	b := &popBuilder{u: u, d: d, rng: rng, keys: keys, free: map[string]bool{}}
	for _, k := range keys {
		b.free[k] = true
	}
	shapes := append(append([]string(nil), rawShapes...), "kill-2pc", "kill-pess", "kill-pess-multi", "pess-multi-primary")
	addTxns := func(n int) error {
		for i := 0; i < n; i++ {
			shape := shapes[rng.Intn(len(shapes))]
			if b.forceStart != 0 {
				shape = []string{"pending", "noprimary", "pess-half", "pess-pending", "pess-multi-primary"}[rng.Intn(5)]
			}
			if _, err := b.add(shape, 1+rng.Intn(4), rng.Intn(3) == 0); err != nil {
				return err
			}
		}
		return nil
	}
	for i := 0; i < 2; i++ {
		if _, err := b.add("base", 3+rng.Intn(5), false); err != nil {
			r.Inconc("session %d: population: %v", id, err)
			return
		}
	}
	if err := addTxns(6 + rng.Intn(8)); err != nil {
		r.Inconc("session %d: population: %v", id, err)
		return
	}
	gc, err := u.NewClient()
	if err != nil {
		r.Inconc("gc client: %v", err)
		return
	}
	var prevSP, pdTxnSP uint64 // pdTxnSP: what PD's txn safe point is known to be at least (advanced by every call that got that far)
	var history []string
	var lateTS []uint64 // start timestamps taken before an earlier call's safe point, for late prewrites
	var barrier uint64  // GC barrier in effect (0: none)
	for ci, call := range calls {
		if call.Late && prevSP != 0 && len(lateTS) > 0 {
			b.forceStart = lateTS[0]
			lateTS = lateTS[1:]
		}
		if err := addTxns(call.NewTxns); err != nil {
			r.Inconc("session %d call %d: population: %v", id, ci, err)
			return
		}
		b.forceStart = 0
		if !u.Drain() {
			r.Inconc("session %d: population did not drain", id)
			return
		}
		lateTS = append(lateTS, d.ts()) // a start ts below the next fresh safe point, for a late prewrite before a later call
		var sp uint64
		switch {
		case call.SP == "same" && prevSP != 0:
			sp = prevSP
		case call.SP == "lower" && prevSP != 0:
			sp = prevSP - uint64(1+rng.Intn(5))
		default:
			sp = d.ts()
		}
		if call.Barrier && prevSP != 0 && pdTxnSP == prevSP {
			if _, err := (tikv.StoreProbe{KVStore: gc.Store}).GetGCStatesClient().SetGCBarrier(bg, "verif-c14", prevSP, time.Hour); err != nil {
				r.Inconc("session %d: SetGCBarrier: %v", id, err)
				return
			}
			history = append(history, fmt.Sprintf("barrier@%d", prevSP))
			barrier = prevSP
		}
		cs := gcCase{Label: fmt.Sprintf("session#%d/call%d%s/", id, ci+1, call), Backend: uni.Mock, Mode: "gc", Strict: strictOn, NKeys: nKeys, Regions: regions, Limit: 1024, RPT: 128, Conc: call.Conc}
		before, err := takeTruth(u, keys)
		if err != nil {
			r.Inconc("%s: truth before: %v", cs, err)
			return
		}
		var mu sync.Mutex
		n, injected := 0, false
		ctx, cancel := context.WithCancel(bg)
		gc.Net.SetDecider(func(c *uni.Call) uni.Action {
			switch c.Cmd {
			case tikvrpc.CmdScanLock, tikvrpc.CmdResolveLock, tikvrpc.CmdCheckTxnStatus, tikvrpc.CmdCheckSecondaryLocks, tikvrpc.CmdPessimisticRollback:
			default:
				return uni.Action{}
			}
			mu.Lock()
			defer mu.Unlock()
			n++
			switch call.Fail {
			case "cut":
				if n >= call.FailAt {
					injected = true
					return uni.Action{Kind: uni.DropReq}
				}
			case "cancel":
				if n == call.FailAt {
					injected = true
					return uni.Action{After: cancel}
				}
			}
			return uni.Action{}
		})
		logFrom := u.Log.Len()
		type res struct {
			got uint64
			err error
		}
		done := make(chan res, 1)
		go func() {
			got, err := gc.Store.GC(ctx, sp, tikv.WithConcurrency(call.Conc))
			done <- res{got, err}
		}()
		var out res
		select {
		case out = <-done:
		case <-time.After(90 * time.Second):
			cancel()
			r.Inconc("%s: GC did not return (watchdog)", cs)
			return
		}
		cancel()
		gc.Net.SetDecider(nil)
		mu.Lock()
		wasInjected := injected
		mu.Unlock()
		if !u.Drain() {
			r.Inconc("%s: GC did not drain", cs)
			return
		}
		history = append(history, fmt.Sprintf("GC(%d)%s -> (%d, %s)", sp, call, out.got, es(out.err)))
		detail := func(extra map[string]any) map[string]any {
			m := map[string]any{"session": id, "seed": seed, "calls_so_far": append([]string(nil), history...), "borders": lay.sorted(), "safe_point": sp}
			var pop []string
			for _, t := range b.regs {
				if t.Shape != "base" {
					pop = append(pop, t.brief())
				}
			}
			m["population"] = pop
			var rpcs []string
			for _, c := range u.Log.CallsFrom(logFrom) {
				if c.Client == gc.ID && len(rpcs) < 200 {
					rpcs = append(rpcs, fmt.Sprintf("#%d %s region=%d %s err=%q regErr=%v :: %.160v => %.200v", c.Seq, c.Cmd, c.RegionID, c.Action, c.Err, c.RegionErr != nil, c.Req, c.Resp))
				}
			}
			m["gc_rpcs_of_this_call"] = rpcs
			for k, v := range extra {
				m[k] = v
			}
			return m
		}
		after, err := takeTruth(u, keys)
		if err != nil {
			r.Inconc("%s: truth after: %v", cs, err)
			return
		}
		// the safe point this call was successful to: GC may end lower than asked for (a GC barrier)
		eff := sp
		if out.err == nil && barrier != 0 && barrier < eff {
			eff = barrier
		}
		full := out.err == nil
		probs, expected, _ := judge(b.regs, before, after, eff, full)
		seen := map[string]bool{}
		for _, p := range probs {
			sig := p.Sig
			if full && ci > 0 && (strings.HasPrefix(sig, "gc:lock-left") || strings.HasPrefix(sig, "gc:committed-txn-not-committed")) {
				sig += ":later-call-of-a-session"
			}
			if seen[sig] {
				continue
			}
			seen[sig] = true
			viol(r, uni.Mock, sig, cs.String()+": "+p.Msg, detail(map[string]any{"gc_error": es(out.err)}))
		}
		old := 0
		for _, l := range before.locks {
			if l.StartTS <= eff {
				old++
			}
		}
		r.Eval(len(before.locks) + len(keys))
		r.Count("calls", 1)
		r.Count("calls:sp="+call.SP, 1)
		if out.err != nil {
			r.Count("calls_returning_error", 1)
			lowerRefused := call.SP == "lower" && sp < pdTxnSP
			if !wasInjected && !lowerRefused {
				viol(r, uni.Mock, "gc:error-without-fault:session", fmt.Sprintf("%s: GC returned %s although nothing was injected", cs, es(out.err)), detail(nil))
			}
			if lowerRefused {
				r.Count("calls_below_pd_safepoint_refused", 1)
			}
			// the txn safe point is advanced before the locks are resolved
			if sp > pdTxnSP && call.SP != "lower" && barrier == 0 {
				pdTxnSP = sp
			}
		} else {
			r.Count("calls_returning_nil", 1)
			multiPrimaryCoverage(r, u, before, eff, true)
			r.Count("locks_at_or_below_safepoint_before_successful_call", old)
			if eff > pdTxnSP {
				pdTxnSP = eff
			}
			if ci > 0 && old > 0 {
				r.Count("successful_later_calls_with_locks_to_resolve", 1)
				if eff == prevSP {
					r.Count("successful_calls_to_an_earlier_safepoint_with_locks_to_resolve", 1)
				}
			}
			if len(probs) == 0 {
				readsAfterGC(r, u, cs, eff, keys, expected, after, detail)
			}
		}
		if call.SP != "lower" {
			prevSP = sp
			if barrier != 0 && barrier < sp {
				prevSP = barrier
			}
		}
	}
	var kinds []string
	for _, c := range calls {
		kinds = append(kinds, fmt.Sprintf("%s/%s/late=%v/barrier=%v", c.SP, c.Fail, c.Late, c.Barrier))
	}
	r.Distinct(strings.Join(kinds, " -> "))
	if r.SampleN() < 4 {
		r.Sample(map[string]any{"session": id, "calls": history})
	}
}

func TestVerifC14GCSession(t *testing.T) {
	r := vrep.New("C14", "c14-gc-session", "sessions of 2-3 KVStore.GC calls on one mocktikv universe: equal / increasing / lower safe points, earlier calls failing after PD's txn safe point was advanced "+
		"(requests lost, caller cancellation), new orphan locks created between the calls (also late prewrites with a start ts below an earlier safe point), a GC barrier blocking the txn safe point at the "+
		"previous value; every call that returns nil is held to the full oracle for the safe point it was successful to (no lock <= it, per-transaction outcomes, reads), whatever earlier calls did; "+
		"distinct = distinct call sequences")
	defer r.Finish(t)
	_ = failpoint.Enable("tikvclient/fastBackoffBySkipSleep", "return")
	defer failpoint.Disable("tikvclient/fastBackoffBySkipSleep")
	seed := vrep.Seed()
	rng := vrep.Rand("c14-gc-session")
	n := vrep.Pick(30, 200)
	for id := 0; id < n; id++ {
		var calls []gcCall
		switch id % 5 {
		case 0: // (a) retry after a failure at the same safe point
			calls = []gcCall{{SP: "fresh", Fail: []string{"cut", "cancel"}[rng.Intn(2)], FailAt: 1 + rng.Intn(6)}, {SP: "same"}}
		case 1: // (b) the same safe point twice, a late prewrite in between
			calls = []gcCall{{SP: "fresh"}, {SP: "same", NewTxns: 1 + rng.Intn(3), Late: true}}
		case 2: // (c) a later round blocked by a GC barrier at the previous safe point
			calls = []gcCall{{SP: "fresh"}, {SP: "fresh", NewTxns: 2 + rng.Intn(3), Late: true, Barrier: true}}
		case 3: // increasing safe points, a failure in the middle, retry
			calls = []gcCall{{SP: "fresh"}, {SP: "fresh", NewTxns: 2 + rng.Intn(4), Fail: []string{"cut", "cancel"}[rng.Intn(2)], FailAt: 1 + rng.Intn(8)}, {SP: "same", NewTxns: rng.Intn(2)}}
		default: // a lower safe point after a higher one, then on
			calls = []gcCall{{SP: "fresh"}, {SP: "lower", NewTxns: rng.Intn(2)}, {SP: "fresh", NewTxns: 1 + rng.Intn(3)}}
		}
		for i := range calls {
			calls[i].Conc = 1 + rng.Intn(8)
		}
		t0 := time.Now()
		runGCSession(r, seed*7001+int64(id), id, rng.Intn(2) == 0, calls)
		t.Logf("session %d %v took %v violations=%d", id, calls, time.Since(t0).Round(time.Millisecond), r.NViolations())
		r.Flush()
	}
	r.Floor("calls_returning_nil", 30)
	r.Floor("calls_returning_error", 5)
	r.Floor("successful_calls_to_an_earlier_safepoint_with_locks_to_resolve", 8)
	r.Floor("multi_primary:pessimistic_txns_with_several_primaries", 5)
	r.Floor("multi_primary:self_primary_lock_after_first_lock_of_txn_in_region:pessimistic-other-primary", 1)
}
