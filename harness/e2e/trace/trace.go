// Package trace is the C04 trace monitor: it evaluates the Percolator
// ordering and timestamp rules over the RPC/TSO log recorded at the client
// boundary of a universe (offline, after the execution; all decisions are on
// call/return sequence numbers, never on wall-clock time).
package trace

import (
	"bytes"
	"fmt"
	"math"
	"sort"

	"github.com/pingcap/kvproto/pkg/kvrpcpb"
	"github.com/tikv/client-go/v2/oracle"
	"github.com/tikv/client-go/v2/tikvrpc"
	"github.com/tikv/client-go/v2/verifh/vrep"

	"verif/e2e/uni"
	"verif/e2e/work"
)

// Options tune the monitor for a scenario.
type Options struct {
	// GCWindows: sequence intervals during which the driver ran GC lock resolution (current_ts = MaxUint64 allowed)
	GCWindows [][2]int64
	// QuiescedSeq: sequence number after which every ended transaction had drained (heart-beats after it are violations); 0 = unknown
	QuiescedSeq int64
	// CheckBuffer: compare the union of prewritten mutations with the driver's model of the buffer (rule 11)
	CheckBuffer bool
}

type txnView struct {
	start     uint64
	owner     int // client id of the owner (-1 unknown)
	rec       *work.TxnRec
	prewrites []*uni.Call
	commits   []*uni.Call
	rollbacks []*uni.Call // BatchRollback
	heartbeat []*uni.Call
	pessLocks []*uni.Call
}

func ok(c *uni.Call) bool { return c.RetSeq != 0 && c.Err == "" && c.RegionErr == nil && c.Resp != nil }

func prewriteOK(c *uni.Call) bool {
	if !ok(c) {
		return false
	}
	r, _ := c.Resp.(*kvrpcpb.PrewriteResponse)
	return r != nil && len(r.Errors) == 0
}

func commitOK(c *uni.Call) bool {
	if !ok(c) {
		return false
	}
	r, _ := c.Resp.(*kvrpcpb.CommitResponse)
	return r != nil && r.Error == nil
}

// definite failure of a commit request: the store answered with a key error
func commitDefiniteFail(c *uni.Call) bool {
	if c.RetSeq == 0 || c.Err != "" || c.RegionErr != nil {
		return false
	}
	r, _ := c.Resp.(*kvrpcpb.CommitResponse)
	return r != nil && r.Error != nil
}

func hasKey(keys [][]byte, k []byte) bool {
	for _, x := range keys {
		if bytes.Equal(x, k) {
			return true
		}
	}
	return false
}

// CheckUniverse evaluates all rules on the log of u.  recs (may be nil) are
// the driver's transaction records; label names the generating scenario.
func CheckUniverse(r *vrep.Report, u *uni.Universe, recs []*work.TxnRec, label string, opts ...Options) {
	var opt Options
	if len(opts) > 0 {
		opt = opts[0]
	}
	calls := u.Log.Calls()
	tsos := u.Log.TSOs()
	Check(r, calls, tsos, recs, label, opt)
}

// Check is the pure function over a recorded log (also used to re-check a replay file).
func Check(r *vrep.Report, callsV []uni.Call, tsos []uni.TSOEvent, recs []*work.TxnRec, label string, opt Options) {
	calls := make([]*uni.Call, len(callsV))
	for i := range callsV {
		calls[i] = &callsV[i]
	}
	sort.SliceStable(calls, func(i, j int) bool { return calls[i].Seq < calls[j].Seq })
	sort.SliceStable(tsos, func(i, j int) bool { return tsos[i].Seq < tsos[j].Seq })
	viol := func(rule, msg string, c ...*uni.Call) {
		var tr, hist []string
		var txn uint64
		for _, x := range c {
			if x != nil {
				tr = append(tr, x.String())
				txn = x.StartTS
			}
		}
		if txn != 0 {
			// the whole request history of that transaction (every client), as the witness
			for _, x := range calls {
				if x.StartTS == txn && len(hist) < 80 {
					hist = append(hist, fmt.Sprintf("#%d..%d c%d %s %s err=%q regErr=%v :: %s => %s", x.Seq, x.RetSeq, x.Client, x.Cmd, x.Action, x.Err, x.RegionErr != nil, brief(x.Req), brief(x.Resp)))
				}
			}
		}
		r.Violate("rule"+rule, label+": "+msg, map[string]any{"scenario": label, "calls": tr, "txn_history": hist})
	}
	// newest TSO issued to a client before seq
	perClient := map[int][]uni.TSOEvent{}
	for _, e := range tsos {
		perClient[e.Client] = append(perClient[e.Client], e)
	}
	newestTSO := func(client int, seq int64) uint64 {
		es := perClient[client]
		i := sort.Search(len(es), func(i int) bool { return es[i].Seq >= seq })
		var m uint64
		for _, e := range es[:i] { // issue order = numeric order, but be defensive
			if e.TS > m {
				m = e.TS
			}
		}
		return m
	}
	views := map[uint64]*txnView{}
	view := func(s uint64) *txnView {
		v := views[s]
		if v == nil {
			v = &txnView{start: s, owner: -1}
			views[s] = v
		}
		return v
	}
	for _, rec := range recs {
		if rec.StartTS != 0 {
			v := view(rec.StartTS)
			v.rec, v.owner = rec, rec.Client
		}
	}
	for _, c := range calls {
		switch c.Cmd {
		case tikvrpc.CmdPrewrite:
			v := view(c.StartTS)
			v.prewrites = append(v.prewrites, c)
			if v.owner < 0 {
				v.owner = c.Client
			}
		case tikvrpc.CmdCommit:
			view(c.StartTS).commits = append(view(c.StartTS).commits, c)
		case tikvrpc.CmdBatchRollback:
			view(c.StartTS).rollbacks = append(view(c.StartTS).rollbacks, c)
		case tikvrpc.CmdTxnHeartBeat:
			view(c.StartTS).heartbeat = append(view(c.StartTS).heartbeat, c)
		case tikvrpc.CmdPessimisticLock:
			v := view(c.StartTS)
			v.pessLocks = append(v.pessLocks, c)
			if v.owner < 0 {
				v.owner = c.Client
			}
		}
	}
	// -------- per transaction rules 1,2,3,6,7,8,9,10,11
	for _, v := range views {
		if len(v.prewrites) == 0 && len(v.commits) == 0 && len(v.heartbeat) == 0 && len(v.rollbacks) == 0 {
			continue
		}
		r.Eval(1)
		{
			// fingerprint of the transaction's trace shape: commands with their outcome class, in order
			var shape []string
			for _, c := range calls {
				if c.StartTS != v.start {
					continue
				}
				switch c.Cmd {
				case tikvrpc.CmdPrewrite, tikvrpc.CmdCommit, tikvrpc.CmdBatchRollback, tikvrpc.CmdPessimisticLock, tikvrpc.CmdPessimisticRollback,
					tikvrpc.CmdCheckTxnStatus, tikvrpc.CmdCheckSecondaryLocks, tikvrpc.CmdResolveLock, tikvrpc.CmdTxnHeartBeat, tikvrpc.CmdCleanup:
					o := "ok"
					switch {
					case c.Err != "":
						o = "neterr"
					case c.RegionErr != nil:
						o = "regerr"
					case !ok(c):
						o = "open"
					}
					own := "o"
					if c.Client != v.owner {
						own = "x"
					}
					shape = append(shape, fmt.Sprintf("%s%s:%s:%s", own, c.Cmd, c.Action, o))
				}
			}
			if len(shape) > 1 {
				fp := fmt.Sprint(shape)
				r.Distinct(fp)
				if r.SampleN() < 5 && (len(shape) > 4 || r.SampleN() == 0) {
					r.Sample(map[string]any{"scenario": label, "txn": v.start, "trace_shape": shape})
				}
			}
		}
		// union of prewritten keys (latest request per key wins for rule 11)
		type mut struct {
			m    *kvrpcpb.Mutation
			act  kvrpcpb.PrewriteRequest_PessimisticAction
			call *uni.Call
		}
		latest := map[string]mut{}
		var primary []byte
		asyncReq, asyncFallback := false, false
		onePCts := uint64(0)
		var minCommitReturned uint64
		for _, p := range v.prewrites {
			req := p.Req.(*kvrpcpb.PrewriteRequest)
			if primary == nil {
				primary = req.PrimaryLock
			} else if !bytes.Equal(primary, req.PrimaryLock) {
				viol("8:primary-changes", fmt.Sprintf("txn %d: prewrites name different primaries %q and %q", v.start, primary, req.PrimaryLock), p)
			}
			for i, m := range req.Mutations {
				a := kvrpcpb.PrewriteRequest_SKIP_PESSIMISTIC_CHECK
				if i < len(req.PessimisticActions) {
					a = req.PessimisticActions[i]
				}
				latest[string(m.Key)] = mut{m, a, p}
			}
			if req.UseAsyncCommit {
				asyncReq = true
			}
			if prewriteOK(p) {
				resp := p.Resp.(*kvrpcpb.PrewriteResponse)
				if req.UseAsyncCommit && resp.MinCommitTs == 0 && resp.OnePcCommitTs == 0 {
					asyncFallback = true
				}
				if resp.MinCommitTs > minCommitReturned {
					minCommitReturned = resp.MinCommitTs
				}
				if resp.OnePcCommitTs != 0 {
					onePCts = resp.OnePcCommitTs
				}
			}
		}
		asyncEffective := asyncReq && !asyncFallback
		// the final attempt decides: a later non-async prewrite means fallback
		if n := len(v.prewrites); n > 0 {
			if last := v.prewrites[n-1].Req.(*kvrpcpb.PrewriteRequest); !last.UseAsyncCommit {
				asyncEffective = false
			}
		}
		var lockedKeys [][]byte
		for k, m := range latest {
			if m.m.Op != kvrpcpb.Op_CheckNotExists {
				lockedKeys = append(lockedKeys, []byte(k))
			}
		}
		sort.Slice(lockedKeys, func(i, j int) bool { return bytes.Compare(lockedKeys[i], lockedKeys[j]) < 0 })
		// rule 8: the primary is one of the locked mutations
		if len(v.prewrites) > 0 {
			r.Count("rule8_evaluated", 1)
			// a transaction whose mutations are all non-locking existence checks locks nothing: vacuous
			locked := lockedKeys
			if opt.CheckBuffer && v.rec != nil {
				// the model knows every key the commit locks, also when the client died before all batches were sent
				locked = nil
				for k, e := range ExpectedMutations(v.rec) {
					if e.Op != kvrpcpb.Op_CheckNotExists {
						locked = append(locked, []byte(k))
					}
				}
			} else if v.rec != nil && v.rec.CommitClass != work.ENone {
				locked = nil
			}
			if len(locked) > 0 && !hasKey(locked, primary) {
				viol("8:primary-not-locked", fmt.Sprintf("txn %d: primary %q is not among the locked mutations %q", v.start, primary, lockedKeys), v.prewrites[0])
			}
		}
		// rule 1: no Commit before every mutation key has a successful prewrite response
		for _, cm := range v.commits {
			r.Count("rule1_evaluated", 1)
			for _, k := range lockedKeys {
				done := false
				for _, p := range v.prewrites {
					if p.RetSeq != 0 && p.RetSeq < cm.Seq && prewriteOK(p) {
						for _, m := range p.Req.(*kvrpcpb.PrewriteRequest).Mutations {
							if bytes.Equal(m.Key, k) {
								done = true
							}
						}
					}
				}
				if !done {
					viol("1:commit-before-prewrite", fmt.Sprintf("txn %d: Commit sent (seq %d) before key %q had a successful prewrite response", v.start, cm.Seq, k), cm)
					break
				}
			}
			if onePCts != 0 {
				viol("1:commit-after-1pc", fmt.Sprintf("txn %d: one-phase commit succeeded (ts %d) yet a Commit request was sent", v.start, onePCts), cm)
			}
		}
		// rule 2: secondaries only after the primary's commit succeeded (unless async commit)
		if !asyncEffective {
			var firstPrimaryOK int64 = math.MaxInt64
			for _, cm := range v.commits {
				if hasKey(cm.Req.(*kvrpcpb.CommitRequest).Keys, primary) && commitOK(cm) && cm.RetSeq < firstPrimaryOK {
					firstPrimaryOK = cm.RetSeq
				}
			}
			for _, cm := range v.commits {
				ks := cm.Req.(*kvrpcpb.CommitRequest).Keys
				r.Count("rule2_evaluated", 1)
				nonPrimary := false
				for _, k := range ks {
					if !bytes.Equal(k, primary) {
						nonPrimary = true
					}
				}
				if nonPrimary && !hasKey(ks, primary) && cm.Seq < firstPrimaryOK {
					viol("2:secondary-before-primary", fmt.Sprintf("txn %d: Commit of secondaries %q sent (seq %d) before the primary's commit succeeded", v.start, ks, cm.Seq), cm)
				}
			}
		}
		// rule 2b: committing a secondary applies the primary's outcome - the commit ts of a secondary is the one the
		// primary's commit succeeded with (a commit ts refreshed after a commit-ts-expired answer must reach the secondaries)
		if !asyncEffective {
			var primaryTS uint64
			var primaryRet int64 = math.MaxInt64
			for _, cm := range v.commits {
				if hasKey(cm.Req.(*kvrpcpb.CommitRequest).Keys, primary) && commitOK(cm) && cm.RetSeq < primaryRet {
					primaryRet = cm.RetSeq
					primaryTS = cm.Req.(*kvrpcpb.CommitRequest).CommitVersion
				}
			}
			if primaryTS != 0 {
				for _, cm := range v.commits {
					req := cm.Req.(*kvrpcpb.CommitRequest)
					if hasKey(req.Keys, primary) || cm.Seq < primaryRet {
						continue
					}
					r.Count("rule2b_evaluated", 1)
					if req.CommitVersion != primaryTS {
						viol("2:secondary-commit-ts-differs-from-primary", fmt.Sprintf("txn %d: Commit of secondaries %q carries commit ts %d, the primary's commit succeeded with %d", v.start, req.Keys, req.CommitVersion, primaryTS), cm)
					}
				}
			}
		}
		// rule 3: no BatchRollback by the owner once the primary commit may have taken effect
		for _, rb := range v.rollbacks {
			if rb.Client != v.owner {
				continue
			}
			r.Count("rule3_evaluated", 1)
			// primary commit attempts sent before the rollback: the rollback is legitimate only if the store
			// refused every one of them (region error) or some attempt got a definite failure answer (key error)
			// before the rollback was sent - an earlier unanswered attempt cannot take effect after that answer
			var sent, unrefused []*uni.Call
			definite := false
			for _, cm := range v.commits {
				if cm.Seq < rb.Seq && hasKey(cm.Req.(*kvrpcpb.CommitRequest).Keys, primary) {
					sent = append(sent, cm)
					answered := cm.RetSeq != 0 && cm.RetSeq < rb.Seq
					if answered && commitDefiniteFail(cm) {
						definite = true
					}
					if !(answered && cm.Err == "" && cm.RegionErr != nil) {
						unrefused = append(unrefused, cm)
					}
				}
			}
			if len(unrefused) > 0 && !definite {
				viol("3:rollback-after-primary-commit-sent", fmt.Sprintf("txn %d: BatchRollback sent (seq %d) although the primary Commit (seq %d) had been sent without a definite failure answer", v.start, rb.Seq, unrefused[0].Seq), unrefused[0], rb)
			}
			_ = sent
			if asyncEffective || onePCts != 0 {
				// every mutation of the attempt, non-locking existence checks included, must have been answered with success
				var allKeys [][]byte
				for k := range latest {
					allKeys = append(allKeys, []byte(k))
				}
				all := len(lockedKeys) > 0
				for _, k := range allKeys {
					done := false
					for _, p := range v.prewrites {
						if p.RetSeq != 0 && p.RetSeq < rb.Seq && prewriteOK(p) && p.Req.(*kvrpcpb.PrewriteRequest).UseAsyncCommit == asyncEffective {
							for _, m := range p.Req.(*kvrpcpb.PrewriteRequest).Mutations {
								if bytes.Equal(m.Key, k) {
									done = true
								}
							}
						}
					}
					all = all && done
				}
				if all {
					viol("3:rollback-after-async-commit-point", fmt.Sprintf("txn %d: BatchRollback sent (seq %d) after every prewrite of the async-commit/1PC attempt had succeeded", v.start, rb.Seq), rb)
				}
			}
		}
		// rule 7: commit ts
		var commitTS uint64
		for _, cm := range v.commits {
			cv := cm.Req.(*kvrpcpb.CommitRequest).CommitVersion
			r.Count("rule7_evaluated", 1)
			commitTS = cv
			if cv <= v.start {
				viol("7:commit-ts-not-above-start", fmt.Sprintf("txn %d: commit ts %d does not exceed the start ts", v.start, cv), cm)
			}
			for _, p := range v.prewrites {
				if prewriteOK(p) && p.RetSeq < cm.Seq {
					if mc := p.Resp.(*kvrpcpb.PrewriteResponse).MinCommitTs; mc != 0 && cv < mc {
						viol("7:commit-ts-below-min-commit-ts", fmt.Sprintf("txn %d: commit ts %d is below the min-commit ts %d a prewrite returned", v.start, cv, mc), p, cm)
					}
				}
			}
		}
		if onePCts != 0 {
			commitTS = onePCts
			r.Count("rule7_evaluated", 1)
			if onePCts <= v.start {
				viol("7:commit-ts-not-above-start", fmt.Sprintf("txn %d: 1PC commit ts %d does not exceed the start ts", v.start, onePCts))
			}
		}
		if v.rec != nil && v.rec.EndKind == "commit" && commitTS != 0 && !v.rec.Spec.Causal && v.owner >= 0 {
			if m := newestTSO(v.owner, v.rec.EndCallSeq); m != 0 {
				r.Count("rule7_tso_evaluated", 1)
				if commitTS <= m {
					viol("7:commit-ts-not-above-issued-tso", fmt.Sprintf("txn %d: commit ts %d does not exceed timestamp %d the oracle had issued to the client before Commit was called", v.start, commitTS, m))
				}
			}
		}
		// rule 7c: when the store may calculate the commit ts (async commit / 1PC), it may choose the request's
		// min_commit_ts itself: unless causal consistency was requested, that lower bound must already exceed every
		// timestamp the oracle had issued to the client before Commit was called
		if v.rec != nil && v.rec.EndKind == "commit" && !v.rec.Spec.Causal && v.owner >= 0 {
			if m := newestTSO(v.owner, v.rec.EndCallSeq); m != 0 {
				for _, p := range v.prewrites {
					req := p.Req.(*kvrpcpb.PrewriteRequest)
					if (!req.UseAsyncCommit && !req.TryOnePc) || p.Seq < v.rec.EndCallSeq {
						continue
					}
					r.Count("rule7c_evaluated", 1)
					if req.MinCommitTs <= m {
						viol("7:min-commit-ts-not-above-issued-tso", fmt.Sprintf("txn %d: prewrite (async=%v 1pc=%v) carries min_commit_ts %d, not above timestamp %d the oracle had issued to the client before Commit was called", v.start, req.UseAsyncCommit, req.TryOnePc, req.MinCommitTs, m), p)
					}
				}
			}
		}
		// rule 9: async-commit secondaries
		for _, p := range v.prewrites {
			req := p.Req.(*kvrpcpb.PrewriteRequest)
			if !req.UseAsyncCommit {
				continue
			}
			hasPrimary := false
			for _, m := range req.Mutations {
				if bytes.Equal(m.Key, req.PrimaryLock) {
					hasPrimary = true
				}
			}
			if !hasPrimary {
				continue
			}
			r.Count("rule9_evaluated", 1)
			var want [][]byte
			if opt.CheckBuffer && v.rec != nil {
				// the driver's model of the buffer says which keys get locked, also when the client died mid-prewrite
				for k, e := range ExpectedMutations(v.rec) {
					if e.Op != kvrpcpb.Op_CheckNotExists && !bytes.Equal([]byte(k), primary) {
						want = append(want, []byte(k))
					}
				}
				sort.Slice(want, func(i, j int) bool { return bytes.Compare(want[i], want[j]) < 0 })
			} else if v.rec != nil && v.rec.CommitClass != work.ENone {
				continue // the prewrite phase may be incomplete: the union of prewritten keys says nothing
			} else {
				for _, k := range lockedKeys {
					if !bytes.Equal(k, primary) {
						want = append(want, k)
					}
				}
			}
			got := append([][]byte(nil), req.Secondaries...)
			sort.Slice(got, func(i, j int) bool { return bytes.Compare(got[i], got[j]) < 0 })
			same := len(got) == len(want)
			for i := 0; same && i < len(want); i++ {
				same = bytes.Equal(got[i], want[i])
			}
			if !same {
				viol("9:async-secondaries", fmt.Sprintf("txn %d: async-commit primary lists secondaries %q, the other locked keys are %q", v.start, got, want), p)
			}
		}
		// rule 10: 1PC only with a single prewrite request
		{
			sets := map[string]bool{}
			var first *uni.Call
			for _, p := range v.prewrites {
				req := p.Req.(*kvrpcpb.PrewriteRequest)
				if req.TryOnePc {
					var ks []string
					for _, m := range req.Mutations {
						ks = append(ks, string(m.Key))
					}
					sort.Strings(ks)
					sets[fmt.Sprint(ks)] = true
					if first == nil {
						first = p
					}
					r.Count("rule10_evaluated", 1)
					if len(req.Mutations) != len(latest) {
						viol("10:one-pc-partial", fmt.Sprintf("txn %d: a prewrite with try_one_pc carries %d of the %d mutations", v.start, len(req.Mutations), len(latest)), p)
					}
				}
			}
			if len(sets) > 1 {
				viol("10:one-pc-multiple-requests", fmt.Sprintf("txn %d: try_one_pc set on prewrite requests with different key sets", v.start), first)
			}
		}
		// rule 6: heart-beats
		{
			var lastTTL uint64
			for _, hb := range v.heartbeat {
				req := hb.Req.(*kvrpcpb.TxnHeartBeatRequest)
				r.Count("rule6_evaluated", 1)
				curPrimary := primary
				if curPrimary == nil {
					for _, pl := range v.pessLocks {
						if pl.Seq < hb.Seq {
							curPrimary = pl.Req.(*kvrpcpb.PessimisticLockRequest).PrimaryLock
						}
					}
				}
				if curPrimary != nil && !bytes.Equal(req.PrimaryLock, curPrimary) {
					// the primary of a pessimistic transaction may be re-selected while no lock is held; accept any primary named by an earlier lock request
					named := false
					for _, pl := range v.pessLocks {
						if pl.Seq < hb.Seq && bytes.Equal(pl.Req.(*kvrpcpb.PessimisticLockRequest).PrimaryLock, req.PrimaryLock) {
							named = true
						}
					}
					if !named {
						viol("6:heartbeat-wrong-primary", fmt.Sprintf("txn %d: heart-beat names %q, the primary is %q", v.start, req.PrimaryLock, curPrimary), hb)
					}
				}
				if req.AdviseLockTtl < lastTTL {
					viol("6:heartbeat-ttl-decreases", fmt.Sprintf("txn %d: advised ttl %d after %d", v.start, req.AdviseLockTtl, lastTTL), hb)
				}
				lastTTL = req.AdviseLockTtl
				if m := newestTSO(hb.Client, hb.Seq); m != 0 {
					age := oracle.ExtractPhysical(m) - oracle.ExtractPhysical(v.start)
					if int64(req.AdviseLockTtl) <= age {
						viol("6:heartbeat-ttl-not-above-age", fmt.Sprintf("txn %d: advised ttl %d ms does not exceed the transaction's age %d ms", v.start, req.AdviseLockTtl, age), hb)
					}
				}
				if opt.QuiescedSeq != 0 && hb.Seq > opt.QuiescedSeq && v.rec != nil && v.rec.Ended && v.rec.EndRetSeq != 0 && v.rec.EndRetSeq < opt.QuiescedSeq {
					viol("6:heartbeat-after-end", fmt.Sprintf("txn %d: heart-beat sent (seq %d) after the transaction had ended and drained (seq %d)", v.start, hb.Seq, opt.QuiescedSeq), hb)
				}
			}
		}
		// rule 11: union of prewritten mutations = the driver's model of the buffer
		// (only when Commit returned nil: a failed or crashed commit may stop before every batch was prewritten)
		if opt.CheckBuffer && v.rec != nil && len(v.prewrites) > 0 && v.rec.EndKind == "commit" && v.rec.EndRetSeq != 0 && v.rec.CommitClass == work.ENone {
			r.Count("rule11_evaluated", 1)
			exp := ExpectedMutations(v.rec)
			for k, e := range exp {
				m, okk := latest[k]
				if !okk {
					viol("11:mutation-missing", fmt.Sprintf("txn %d (%s): buffered %s of key %q was never prewritten", v.start, v.rec.Spec, e.Op, k))
					continue
				}
				if m.m.Op != e.Op {
					viol("11:mutation-op", fmt.Sprintf("txn %d (%s): key %q prewritten as %s, its buffer entry implies %s", v.start, v.rec.Spec, k, m.m.Op, e.Op), m.call)
				}
				if (e.Op == kvrpcpb.Op_Put || e.Op == kvrpcpb.Op_Insert) && string(m.m.Value) != e.Val {
					viol("11:mutation-value", fmt.Sprintf("txn %d: key %q prewritten with value %q, buffered value is %q", v.start, k, m.m.Value, e.Val), m.call)
				}
				wantAct := kvrpcpb.PrewriteRequest_SKIP_PESSIMISTIC_CHECK
				if e.Pess {
					wantAct = kvrpcpb.PrewriteRequest_DO_PESSIMISTIC_CHECK
				}
				if m.act != wantAct {
					viol("11:pessimistic-action", fmt.Sprintf("txn %d: key %q prewritten with pessimistic action %s, expected %s", v.start, k, m.act, wantAct), m.call)
				}
			}
			for k, m := range latest {
				if _, okk := exp[k]; !okk {
					viol("11:mutation-extra", fmt.Sprintf("txn %d (%s): key %q prewritten (%s) but the buffer holds no such write", v.start, v.rec.Spec, k, m.m.Op), m.call)
				}
			}
		}
		_ = minCommitReturned
	}
	// -------- rule 4 and 5: resolvers
	type ck struct {
		client int
		txn    uint64
	}
	type status struct {
		commits   map[uint64]bool // commit versions reported
		rollback  bool            // a response said rolled back / expired / secondary missing
		minCommit uint64          // running max of min-commit ts over primary + secondaries (async)
		asyncSeen bool
		ttlShown  uint64 // smallest non-zero ttl the client was shown for a lock of this txn
		shown     bool
		shownZero bool // the client was shown a lock of this txn with ttl 0 ("roll back unconditionally")
		// statusTTL: ttl of the primary lock as the newest CheckTxnStatus response reported it (live lock); hasStatusTTL
		statusTTL    uint64
		hasStatusTTL bool
		// pessOnly: a CheckTxnStatus issued for a *pessimistic* lock was answered LockNotExistDoNothing /
		// TTLExpirePessimisticRollback / primary-mismatch.  That is no outcome of the transaction (the lock's primary
		// pointer may be stale and the transaction alive under another primary): it licenses the pessimistic rollback
		// of that lock, never a ResolveLock / BatchRollback of the transaction
		pessOnly bool
	}
	st := map[ck]*status{}
	get := func(c int, t uint64) *status {
		s := st[ck{c, t}]
		if s == nil {
			s = &status{commits: map[uint64]bool{}}
			st[ck{c, t}] = s
		}
		return s
	}
	inGC := func(seq int64) bool {
		for _, w := range opt.GCWindows {
			if seq >= w[0] && seq <= w[1] {
				return true
			}
		}
		return false
	}
	// events in order of their *effect on the client's knowledge*: a response is known at RetSeq, a request is sent at Seq
	type ev struct {
		seq int64
		ret bool
		c   *uni.Call
	}
	var evs []ev
	for _, c := range calls {
		evs = append(evs, ev{c.Seq, false, c})
		if c.RetSeq != 0 {
			evs = append(evs, ev{c.RetSeq, true, c})
		}
	}
	sort.SliceStable(evs, func(i, j int) bool { return evs[i].seq < evs[j].seq })
	noteLock := func(client int, li *kvrpcpb.LockInfo) {
		if li == nil || li.LockVersion == 0 {
			return
		}
		s := get(client, li.LockVersion)
		s.shown = true
		if li.LockTtl == 0 {
			s.shownZero = true
		} else if s.ttlShown == 0 || li.LockTtl < s.ttlShown {
			s.ttlShown = li.LockTtl
		}
	}
	noteKeyErr := func(client int, ke *kvrpcpb.KeyError) {
		if ke != nil {
			noteLock(client, ke.Locked)
		}
	}
	for _, e := range evs {
		c := e.c
		if e.ret {
			if !ok(c) {
				continue
			}
			switch resp := c.Resp.(type) {
			case *kvrpcpb.GetResponse:
				noteKeyErr(c.Client, resp.Error)
			case *kvrpcpb.BatchGetResponse:
				noteKeyErr(c.Client, resp.Error)
				for _, p := range resp.Pairs {
					noteKeyErr(c.Client, p.Error)
				}
			case *kvrpcpb.ScanResponse:
				noteKeyErr(c.Client, resp.Error)
				for _, p := range resp.Pairs {
					noteKeyErr(c.Client, p.Error)
				}
			case *kvrpcpb.PrewriteResponse:
				for _, ke := range resp.Errors {
					noteKeyErr(c.Client, ke)
				}
			case *kvrpcpb.PessimisticLockResponse:
				for _, ke := range resp.Errors {
					noteKeyErr(c.Client, ke)
				}
			case *kvrpcpb.ScanLockResponse:
				for _, l := range resp.Locks {
					noteLock(c.Client, l)
				}
			case *kvrpcpb.CheckTxnStatusResponse:
				req := c.Req.(*kvrpcpb.CheckTxnStatusRequest)
				s := get(c.Client, req.LockTs)
				if resp.Error != nil {
					noteKeyErr(c.Client, resp.Error)
					if resp.Error.PrimaryMismatch != nil && req.ResolvingPessimisticLock {
						s.pessOnly = true
					}
					break
				}
				if resp.CommitVersion == 0 && resp.LockTtl == 0 && (resp.Action == kvrpcpb.Action_LockNotExistDoNothing || resp.Action == kvrpcpb.Action_TTLExpirePessimisticRollback) {
					// the store did nothing to / only released the pessimistic lock on the key it was asked about and
					// reports no outcome for the transaction
					s.pessOnly = true
					r.Count("rule4_nonfinal_status_answers", 1)
					break
				}
				if resp.CommitVersion == 0 && resp.LockTtl != 0 {
					s.statusTTL, s.hasStatusTTL = resp.LockTtl, true
				}
				if resp.CommitVersion != 0 {
					s.commits[resp.CommitVersion] = true
				} else if resp.LockTtl == 0 {
					if li := resp.LockInfo; li != nil && li.UseAsyncCommit && resp.Action == kvrpcpb.Action_NoAction {
						// async-commit primary: the outcome is derived from the secondaries
						s.asyncSeen = true
						if li.MinCommitTs > s.minCommit {
							s.minCommit = li.MinCommitTs
						}
					} else {
						s.rollback = true
					}
				} else if li := resp.LockInfo; li != nil && li.UseAsyncCommit {
					s.asyncSeen = true
					if li.MinCommitTs > s.minCommit {
						s.minCommit = li.MinCommitTs
					}
				}
			case *kvrpcpb.CheckSecondaryLocksResponse:
				req := c.Req.(*kvrpcpb.CheckSecondaryLocksRequest)
				s := get(c.Client, req.StartVersion)
				if resp.Error != nil {
					break
				}
				if resp.CommitTs != 0 {
					s.commits[resp.CommitTs] = true
				} else if len(resp.Locks) < len(req.Keys) {
					s.rollback = true
				}
				for _, l := range resp.Locks {
					if l.MinCommitTs > s.minCommit {
						s.minCommit = l.MinCommitTs
					}
					s.asyncSeen = true
				}
			}
			continue
		}
		// a request is sent
		switch req := c.Req.(type) {
		case *kvrpcpb.ResolveLockRequest:
			check := func(txn, cv uint64) {
				r.Count("rule4_evaluated", 1)
				s := get(c.Client, txn)
				if cv == 0 {
					if !s.rollback {
						viol("4:resolve-rollback-without-status", fmt.Sprintf("client %d: ResolveLock rolls back txn %d but no status response had said rolled back / expired / secondary missing", c.Client, txn), c)
					}
					return
				}
				if s.commits[cv] {
					return
				}
				if s.asyncSeen && cv == s.minCommit && !s.rollback {
					return
				}
				viol("4:resolve-commit-ts-not-reported", fmt.Sprintf("client %d: ResolveLock commits txn %d at %d; reported commit versions %v, async min-commit max %d", c.Client, txn, cv, keysOf(s.commits), s.minCommit), c)
			}
			if len(req.TxnInfos) > 0 {
				for _, ti := range req.TxnInfos {
					check(ti.Txn, ti.Status)
				}
			} else if req.StartVersion != 0 {
				// (a batch resolve over a range without locks is sent with no txn at all: nothing to judge)
				check(req.StartVersion, req.CommitVersion)
			}
		case *kvrpcpb.CheckTxnStatusRequest:
			r.Count("rule5_evaluated", 1)
			s := get(c.Client, req.LockTs)
			newest := newestTSO(c.Client, c.Seq)
			if req.CurrentTs == math.MaxUint64 {
				if !inGC(c.Seq) && !s.shownZero {
					viol("5:current-ts-max-outside-gc", fmt.Sprintf("client %d: CheckTxnStatus(txn %d) with current_ts=MaxUint64 outside GC for a lock that was not shown with ttl 0", c.Client, req.LockTs), c)
				}
			} else {
				if newest != 0 && req.CurrentTs > newest {
					viol("5:current-ts-ahead-of-clock", fmt.Sprintf("client %d: CheckTxnStatus(txn %d) current_ts %d is above the newest timestamp %d issued to that client", c.Client, req.LockTs, req.CurrentTs, newest), c)
				}
				if req.RollbackIfNotExist && s.shown && !s.shownZero && s.ttlShown != 0 && newest != 0 && !inGC(c.Seq) {
					if oracle.ExtractPhysical(newest) < oracle.ExtractPhysical(req.LockTs)+int64(s.ttlShown) {
						viol("5:rollback-if-not-exist-before-expiry", fmt.Sprintf("client %d: CheckTxnStatus(txn %d) sets rollback_if_not_exist although the lock (ttl %d) has not outlived its ttl on the resolver's clock (newest ts %d)", c.Client, req.LockTs, s.ttlShown, newest), c)
					}
				}
			}
		case *kvrpcpb.CheckSecondaryLocksRequest:
			// async-commit recovery rolls back secondaries that are not prewritten yet: a resolver may only start it
			// once the primary lock has outlived the ttl the store reported for it, on the resolver's own clock
			v := views[req.StartVersion]
			if v != nil && v.owner == c.Client {
				break
			}
			s := get(c.Client, req.StartVersion)
			if s.hasStatusTTL && !inGC(c.Seq) && len(s.commits) == 0 && !s.rollback {
				r.Count("rule5_check_secondary_evaluated", 1)
				if newest := newestTSO(c.Client, c.Seq); newest != 0 &&
					oracle.ExtractPhysical(newest) < oracle.ExtractPhysical(req.StartVersion)+int64(s.statusTTL) {
					viol("5:async-recovery-of-live-lock", fmt.Sprintf("client %d: CheckSecondaryLocks(txn %d) sent although the primary lock (ttl %d ms as reported by the store) has not outlived its ttl on the resolver's clock (newest ts %d)", c.Client, req.StartVersion, s.statusTTL, newest), c)
				}
			}
		case *kvrpcpb.PessimisticRollbackRequest:
			v := views[req.StartVersion]
			if v != nil && v.owner == c.Client {
				break
			}
			if v == nil || v.owner < 0 {
				break
			}
			if inGC(c.Seq) {
				// GC's batch resolution treats every lock at or below the safe point as expired (the statement's one exception)
				r.Count("rule5_pessimistic_rollback_in_gc", 1)
				break
			}
			r.Count("rule5_pessimistic_rollback_evaluated", 1)
			if s := get(c.Client, req.StartVersion); !s.rollback && !s.pessOnly && len(s.commits) == 0 {
				viol("5:pessimistic-rollback-of-live-lock", fmt.Sprintf("client %d: PessimisticRollback of txn %d (owned by client %d) without a status response saying expired or finished", c.Client, req.StartVersion, v.owner), c)
			}
		case *kvrpcpb.BatchRollbackRequest:
			v := views[req.StartVersion]
			if v != nil && v.owner >= 0 && v.owner != c.Client {
				r.Count("rule5_foreign_rollback_evaluated", 1)
				if s := get(c.Client, req.StartVersion); !s.rollback {
					viol("5:foreign-batch-rollback-of-live-lock", fmt.Sprintf("client %d: BatchRollback of txn %d (owned by client %d) without a status response saying expired or rolled back", c.Client, req.StartVersion, v.owner), c)
				}
			}
		}
	}
	r.Count("rpcs_monitored", len(calls))
	r.Count("txns_monitored", len(views))
}

func brief(m any) string {
	s := fmt.Sprintf("%v", m)
	if len(s) > 260 {
		s = s[:260] + "..."
	}
	return s
}

func keysOf(m map[uint64]bool) []uint64 {
	var out []uint64
	for k := range m {
		out = append(out, k)
	}
	sort.Slice(out, func(i, j int) bool { return out[i] < out[j] })
	return out
}

// ExpMut is the mutation a buffer entry implies.
type ExpMut struct {
	Op   kvrpcpb.Op
	Val  string
	Pess bool
}

// ExpectedMutations maps the driver's model of the buffer to the mutations Commit must prewrite.
func ExpectedMutations(rec *work.TxnRec) map[string]ExpMut {
	out := map[string]ExpMut{}
	for k, e := range rec.Buf {
		pess := rec.Spec.Pessimistic && e.PessLock
		switch e.Kind {
		case work.BufPut:
			op := kvrpcpb.Op_Put
			if e.Insert {
				op = kvrpcpb.Op_Insert
			}
			out[k] = ExpMut{op, e.Val, pess}
		case work.BufDel:
			switch {
			case !e.Insert:
				out[k] = ExpMut{kvrpcpb.Op_Del, "", pess}
			case !rec.Spec.Pessimistic:
				out[k] = ExpMut{kvrpcpb.Op_CheckNotExists, "", false}
			case e.PessLock:
				out[k] = ExpMut{kvrpcpb.Op_Lock, "", true}
			}
		case work.BufLockOnly:
			if !rec.Spec.Pessimistic || e.PessLock {
				out[k] = ExpMut{kvrpcpb.Op_Lock, "", pess}
			}
		}
	}
	return out
}
