//go:build verif

// Package c17 checks the transaction layer's use of the local latches
// (txnkv/transaction/txn.go: Lock / IsStale / SetCommitTS / UnLock in
// KVTxn.Commit): optimistic transactions of many goroutines through ONE client
// store with local latches enabled (1/2/4 slots: keys collide), few keys,
// unique values, on mocktikv behind the recording interposer.  Commits succeed,
// fail before the commit ts exists (prewrite write conflict against a writer
// of another store, key exists) or fail after the commit ts was fetched
// (commit-ts upper bound check, region errors on the primary Commit until the
// budget ends, lost Commit requests).
//
// Everything is decided from the record (stamps from the universe's global
// sequencer, which also numbers every RPC call/return) and the MVCC truth:
//
//	(a1) a transaction answered ErrWriteConflictInLatch needs a transaction H
//	     of the same store that shares a key, really committed (truth has its
//	     version, or its Commit returned nil) with commit ts > the answered
//	     transaction's start ts, and whose Commit RPC had returned before the
//	     answer was given;
//	(a2) a transaction whose Commit is called after the Commit of such an H
//	     (answer nil, shared key, commit ts > its start ts) had returned must be
//	     answered by the latch: ErrWriteConflictInLatch and no Prewrite of it
//	     on the wire;
//	(b)  on the wire the latched sections [first Prewrite call, last
//	     foreground Prewrite/Commit return] of two transactions of the store
//	     that share a key never overlap;
//	(c)  every Commit returns (watchdog => inconclusive).
//
// The clock is only moved between rounds, so every pair of timestamps a latch
// decision compares lies inside the latch's recycle window.
package c17

import (
	"context"
	"errors"
	"fmt"
	"math/rand"
	"runtime"
	"sort"
	"strings"
	"sync"
	"sync/atomic"
	"testing"
	"time"

	"github.com/pingcap/failpoint"
	"github.com/pingcap/kvproto/pkg/errorpb"
	"github.com/pingcap/kvproto/pkg/kvrpcpb"
	tikverr "github.com/tikv/client-go/v2/error"
	"github.com/tikv/client-go/v2/kv"
	"github.com/tikv/client-go/v2/tikvrpc"
	"github.com/tikv/client-go/v2/txnkv/transaction"
	"github.com/tikv/client-go/v2/verifh/vrep"

	"verif/e2e/uni"
)

const (
	fNone      = ""
	fUpper     = "commit-ts-upper-bound"   // after the commit ts was fetched
	fBusy      = "commit-rpc-server-busy"  // after: region errors until the budget ends
	fDropReq   = "commit-rpc-request-lost" // after: the Commit request never arrives
	fKeyExists = "insert-existing-key"     // before: prewrite answers AlreadyExist
)

type rec struct {
	N        int      `json:"n"`
	Round    int      `json:"round"`
	Wave     string   `json:"wave"`
	Latched  bool     `json:"latched_store"`
	Start    uint64   `json:"start_ts"`
	Keys     []string `json:"keys"`
	Fault    string   `json:"fault,omitempty"`
	Call     int64    `json:"commit_call"`
	Ret      int64    `json:"commit_ret"`
	Class    string   `json:"answer"` // ok | latch | other
	Err      string   `json:"err,omitempty"`
	CommitTS uint64   `json:"commit_ts"`  // KVTxn.CommitTS() after Commit
	Fetched  uint64   `json:"fetched_ts"` // commit ts the committer fetched (0 if it never got that far)

	txn    *transaction.KVTxn
	called atomic.Bool // Commit is about to be called (read by gates)
	done   atomic.Bool // Commit returned and the record is complete
	// derived from the log
	firstPrewrite int64
	sectionEnd    int64
	commitRPCRet  int64 // return of the first Commit RPC that was executed without error
	truthCommit   map[string]uint64
}

func (x *rec) String() string {
	return fmt.Sprintf("{#%d r%d%s start=%d keys=%v fault=%q commit@%d..%d answer=%s commitTS=%d fetched=%d prewrite@%d..%d err=%.80q}",
		x.N, x.Round, x.Wave, x.Start, x.Keys, x.Fault, x.Call, x.Ret, x.Class, x.CommitTS, x.Fetched, x.firstPrewrite, x.sectionEnd, x.Err)
}

func (x *rec) shares(y *rec) string {
	for _, a := range x.Keys {
		for _, b := range y.Keys {
			if a == b {
				return a
			}
		}
	}
	return ""
}

type params struct {
	Session int   `json:"session"`
	Seed    int64 `json:"seed"`
	Slots   uint  `json:"latch_slots"`
	NKeys   int   `json:"keys"`
	Rounds  int   `json:"rounds"`
}

type session struct {
	p         params
	r         *vrep.Report
	u         *uni.Universe
	c1        *uni.ClientStore // latches enabled
	c2        *uni.ClientStore // another store: its commits are invisible to c1's latches
	keys      []string
	plan      sync.Map // start ts -> fault kind, for the decider
	recs      []*rec
	events    atomic.Int64 // Commit calls + returns
	seenCalls int
	txnCalls  int64
	stuck     bool // a Commit never returned although nobody was left to wait for: violation recorded, universe abandoned
	nextN     int
	rng       *rand.Rand
}

func classify(err error) string {
	if err == nil {
		return "ok"
	}
	var wcl *tikverr.ErrWriteConflictInLatch
	if errors.As(err, &wcl) {
		return "latch"
	}
	return "other"
}

func errKind(err error) string {
	var wc *tikverr.ErrWriteConflict
	var ke *tikverr.ErrKeyExist
	switch {
	case err == nil:
		return "ok"
	case errors.As(err, &wc):
		return "write-conflict"
	case errors.As(err, &ke):
		return "key-exists"
	case errors.Is(err, tikverr.ErrResultUndetermined):
		return "undetermined"
	case strings.Contains(err.Error(), "upper bound"):
		return "upper-bound"
	}
	return "other"
}

func (s *session) begin(c *uni.ClientStore, round int, wave string, nk int, fault string) (*rec, error) {
	var ks []string
	for _, i := range s.rng.Perm(len(s.keys))[:nk] {
		ks = append(ks, s.keys[i])
	}
	return s.beginKeys(c, round, wave, ks, fault)
}

func (s *session) beginKeys(c *uni.ClientStore, round int, wave string, ks []string, fault string) (*rec, error) {
	txn, err := c.Begin()
	if err != nil {
		return nil, err
	}
	x := &rec{N: s.nextN, Round: round, Wave: wave, Latched: c == s.c1, Start: txn.StartTS(), Fault: fault, txn: txn}
	s.nextN++
	x.Keys = append(x.Keys, ks...)
	sort.Strings(x.Keys)
	for i, k := range x.Keys {
		val := []byte(fmt.Sprintf("v-%d-%d-%s", s.p.Session, x.N, k))
		if fault == fKeyExists && i == 0 {
			err = txn.GetMemBuffer().SetWithFlags([]byte(k), val, kv.SetPresumeKeyNotExists)
		} else {
			err = txn.Set([]byte(k), val)
		}
		if err != nil {
			return nil, err
		}
	}
	switch fault {
	case fUpper:
		txn.SetCommitTSUpperBoundCheck(func(ts uint64) bool { x.Fetched = ts; return false })
	case fBusy, fDropReq:
		s.plan.Store(x.Start, fault)
	}
	s.recs = append(s.recs, x)
	return x, nil
}

func (s *session) commit(x *rec, rng *rand.Rand) {
	for i := rng.Intn(3); i > 0; i-- {
		runtime.Gosched()
	}
	x.Call = s.u.Log.Next()
	x.called.Store(true)
	s.events.Add(1)
	err := x.txn.Commit(context.Background())
	x.Ret = s.u.Log.Next()
	s.events.Add(1)
	x.Class = classify(err)
	if err != nil {
		x.Err = fmt.Sprintf("%T: %v", err, err)
		s.r.Count("answer:"+map[string]string{"latch": "latch-conflict", "other": errKind(err)}[x.Class], 1)
	} else {
		s.r.Count("answer:ok", 1)
	}
	x.CommitTS = x.txn.CommitTS()
}

// wave commits the given transactions concurrently and waits for them.
//
// Progress is decided in logical terms: the harness counts every RPC call of the
// universe and every Commit call/return.  If Commits are still open while for
// a thousand consecutive polls no such event happened and no RPC is in flight, every transaction that could still unlock
// anything has finished (a Commit that holds latches is either inside an RPC
// or about to issue one: back-off sleeps are skipped) - the open Commits sit in
// LatchesScheduler.Lock and nobody is left to wake them.  The wall clock only
// paces the polls and adds a generous bound (the hand-over takes microseconds).
// false = the session cannot go on (s.stuck: violation recorded; else inconclusive).
func (s *session) wave(xs []*rec) bool {
	for _, x := range xs {
		rng := rand.New(rand.NewSource(s.p.Seed + int64(x.N)*7919))
		go func(x *rec) {
			s.commit(x, rng)
			x.done.Store(true)
		}(x)
	}
	started := time.Now()
	// events that matter: RPC calls of any client and Commit calls/returns of this session (the sequencer itself also
	// counts the timestamps that every store's background updater fetches every 2 s, which says nothing about progress)
	// and the StoreSafeTS RPC each store sends every 2 s, which say nothing about progress)
	activity := func() int64 {
		for _, c := range s.u.Log.CallsFrom(s.seenCalls) {
			s.seenCalls++
			if c.Cmd != tikvrpc.CmdStoreSafeTS {
				s.txnCalls++
			}
		}
		return s.txnCalls<<20 + s.events.Load()
	}
	lastSeq := activity()
	quiet := 0
	var quietSince time.Time
	for poll := 0; ; poll++ {
		var open []*rec
		for _, x := range xs {
			if !x.done.Load() {
				open = append(open, x)
			}
		}
		if len(open) == 0 {
			return true
		}
		if poll < 200 {
			runtime.Gosched()
		} else {
			time.Sleep(500 * time.Microsecond)
		}
		now := activity()
		if now == lastSeq && s.c1.Net.Inflight() == 0 && s.c2.Net.Inflight() == 0 {
			if quiet == 0 {
				quietSince = time.Now()
			}
			quiet++
		} else {
			quiet = 0
			lastSeq = now
		}
		if quiet >= 1000 && time.Since(quietSince) > 4*time.Second {
			s.reportStuck(open, quiet)
			return false
		}
		if time.Since(started) > 90*time.Second {
			var os []string
			for _, x := range open {
				os = append(os, x.String())
			}
			s.r.Inconc("c17-txn session %d: Commit of %d transactions did not return within the watchdog while the universe was still active: %v", s.p.Session, len(open), os)
			return false
		}
	}
}

func (s *session) reportStuck(open []*rec, polls int) {
	s.stuck = true
	x := open[0]
	var holders []string
	var suspect *rec
	for i := len(s.recs) - 1; i >= 0; i-- {
		h := s.recs[i]
		if h == x || !h.Latched || !h.done.Load() || h.shares(x) == "" {
			continue
		}
		if suspect == nil && h.Class == "latch" {
			suspect = h
		}
		if len(holders) < 10 {
			holders = append(holders, h.String())
		}
	}
	var os []string
	for _, o := range open {
		os = append(os, fmt.Sprintf("{#%d r%d%s start=%d keys=%v commit called@%d}", o.N, o.Round, o.Wave, o.Start, o.Keys, o.Call))
	}
	msg := fmt.Sprintf("Commit of %s never returns: every other Commit has returned, no RPC is in flight and no RPC was sent nor any Commit called or answered for %d consecutive polls (%d Commit(s) open) - it waits for a latch that nobody holds any more", os[0], polls, len(open))
	if suspect != nil {
		msg += fmt.Sprintf("; the last finished transaction of the store on one of its keys that was answered ErrWriteConflictInLatch: %v (a stale latch request holds the latches of its earlier keys / the handed-over key and has to unlock them)", suspect)
	}
	s.r.Violate("txn:lock-request-never-returns-although-every-holder-finished", msg,
		map[string]any{"params": s.p, "open_commits": os, "finished_transactions_on_its_keys(newest first)": holders, "suspect": suspect})
}

func (s *session) run() bool {
	u, err := uni.New(uni.Mock, 1)
	if err != nil {
		s.r.Inconc("universe: %v", err)
		return false
	}
	s.u = u
	defer u.Close()
	if s.c1, err = u.NewClient(); err != nil {
		s.r.Inconc("client: %v", err)
		return false
	}
	s.c1.Store.EnableTxnLocalLatches(s.p.Slots)
	if s.c2, err = u.NewClient(); err != nil {
		s.r.Inconc("client: %v", err)
		return false
	}
	s.c1.Net.SetDecider(func(c *uni.Call) uni.Action {
		if c.Cmd != tikvrpc.CmdCommit {
			return uni.Action{}
		}
		if f, ok := s.plan.Load(c.StartTS); ok {
			if gate, isGate := f.(func()); isGate {
				return uni.Action{Before: gate}
			}
			switch f.(string) {
			case fBusy:
				return uni.Action{Kind: uni.RegionErr, RegErr: &errorpb.Error{Message: "injected", ServerIsBusy: &errorpb.ServerIsBusy{Reason: "verif"}}}
			case fDropReq:
				return uni.Action{Kind: uni.DropReq}
			}
		}
		return uni.Action{}
	})
	for i := 0; i < s.p.NKeys; i++ {
		s.keys = append(s.keys, fmt.Sprintf("c17-%d-k%d", s.p.Session, i))
	}
	for round := 0; round < s.p.Rounds; round++ {
		if s.rng.Intn(3) == 0 {
			if !s.shapeRound(round) {
				return false
			}
		}
		mode := s.rng.Intn(4) // 0: no faults, 1: every commit of wave A fails after its commit ts, 2,3: mixed
		g := 2 + s.rng.Intn(7)
		var early []*rec
		lost := false
		for i := 0; i < g; i++ {
			fault := fNone
			switch {
			case mode == 1 && i < (g+1)/2, mode >= 2 && s.rng.Intn(3) == 0:
				switch s.rng.Intn(8) {
				case 0:
					fault = fDropReq
					lost = true
				case 1, 2:
					fault = fBusy
				default:
					fault = fUpper
				}
			case mode >= 2 && s.rng.Intn(8) == 0:
				fault = fKeyExists
			}
			x, err := s.begin(s.c1, round, "", 1+s.rng.Intn(min(3, len(s.keys))), fault)
			if err != nil {
				s.r.Inconc("begin: %v", err)
				return false
			}
			early = append(early, x)
		}
		// a writer of another store commits after they began: whoever passes the latch meets a write conflict in prewrite
		if s.rng.Intn(4) == 0 {
			o, err := s.begin(s.c2, round, "o", 1, fNone)
			if err != nil {
				s.r.Inconc("begin: %v", err)
				return false
			}
			if !s.wave([]*rec{o}) {
				return false
			}
		}
		// wave A: the first half (in mode 1: exactly the failing ones) commits concurrently
		a, b := early[:(g+1)/2], early[(g+1)/2:]
		if mode != 1 {
			s.rng.Shuffle(len(early), func(i, j int) { early[i], early[j] = early[j], early[i] })
		}
		for _, x := range a {
			x.Wave = "a"
		}
		if !s.wave(a) {
			return false
		}
		// wave B: the rest (begun before wave A committed) plus transactions begun only now
		for _, x := range b {
			x.Wave = "b"
		}
		for i := s.rng.Intn(3); i > 0; i-- {
			x, err := s.begin(s.c1, round, "b+", 1+s.rng.Intn(min(3, len(s.keys))), fNone)
			if err != nil {
				s.r.Inconc("begin: %v", err)
				return false
			}
			b = append(b, x)
		}
		if !s.wave(b) {
			return false
		}
		if !u.Drain() {
			s.r.Inconc("c17-txn session %d round %d: drain bound hit", s.p.Session, round)
			return false
		}
		if lost {
			// a lost Commit request leaves the prewrite locks behind (undetermined): let them expire and have a reader resolve them
			u.AdvanceClock(30000)
			obs, err := s.c2.Begin()
			if err == nil {
				for _, k := range s.keys {
					_, _ = obs.Get(context.Background(), []byte(k))
				}
				_ = obs.Rollback()
			}
			u.Drain()
		}
	}
	return s.check()
}

// shapeRound: H commits only the LAST key; X (begun before) asks for the first
// .. last keys, so it is found stale on its last key while it holds the earlier
// ones (variant 0: on its own acquire, variant 1: on wake-up, queued behind H
// whose Commit RPC is gated until X has called Commit); then fresh transactions
// ask for X's FIRST key(s).
func (s *session) shapeRound(round int) bool {
	first, last := s.keys[0], s.keys[len(s.keys)-1]
	xk := []string{first, last}
	if len(s.keys) > 2 && s.rng.Intn(2) == 0 {
		xk = append(xk, s.keys[1+s.rng.Intn(len(s.keys)-2)])
	}
	h, err := s.beginKeys(s.c1, round, "sH", []string{last}, fNone)
	if err != nil {
		s.r.Inconc("begin: %v", err)
		return false
	}
	x, err := s.beginKeys(s.c1, round, "sX", xk, fNone)
	if err != nil {
		s.r.Inconc("begin: %v", err)
		return false
	}
	if s.rng.Intn(2) == 0 {
		if !s.wave([]*rec{h}) || !s.wave([]*rec{x}) {
			return false
		}
	} else {
		s.plan.Store(h.Start, func() {
			for i := 0; i < 200000 && !x.called.Load(); i++ {
				runtime.Gosched()
			}
			for i := 0; i < 30; i++ {
				runtime.Gosched()
			}
			time.Sleep(200 * time.Microsecond)
		})
		if !s.wave([]*rec{h, x}) {
			return false
		}
	}
	var fresh []*rec
	for i := 1 + s.rng.Intn(2); i > 0; i-- {
		fk := []string{first}
		if len(xk) > 2 && s.rng.Intn(2) == 0 {
			fk = append(fk, xk[2])
		}
		f, err := s.beginKeys(s.c1, round, "sF", fk, fNone)
		if err != nil {
			s.r.Inconc("begin: %v", err)
			return false
		}
		fresh = append(fresh, f)
	}
	s.r.Count("shape_rounds(stale on a later key, then fresh requests for the first key)", 1)
	return s.wave(fresh)
}

func (s *session) check() bool {
	r := s.r
	var kb [][]byte
	for _, k := range s.keys {
		kb = append(kb, []byte(k))
	}
	truth, err := s.u.ReadTruth(kb)
	if err != nil {
		r.Inconc("truth: %v", err)
		return false
	}
	byStart := map[uint64]*rec{}
	for _, x := range s.recs {
		byStart[x.Start] = x
		x.truthCommit = map[string]uint64{}
		for _, k := range x.Keys {
			if w := truth.Keys[k].WriteOf(x.Start); w != nil {
				x.truthCommit[k] = w.CommitTS
			}
		}
	}
	for _, c := range s.u.Log.Calls() {
		if c.Cmd != tikvrpc.CmdPrewrite && c.Cmd != tikvrpc.CmdCommit {
			continue
		}
		x := byStart[c.StartTS]
		if x == nil || !x.Latched || c.Client != s.c1.ID {
			continue
		}
		if c.Cmd == tikvrpc.CmdPrewrite && (x.firstPrewrite == 0 || c.Seq < x.firstPrewrite) {
			x.firstPrewrite = c.Seq
		}
		if c.Cmd == tikvrpc.CmdCommit {
			if q, ok := c.Req.(*kvrpcpb.CommitRequest); ok && x.Fetched == 0 {
				x.Fetched = q.CommitVersion
			}
			if p, ok := c.Resp.(*kvrpcpb.CommitResponse); ok && c.Delivered && c.Err == "" && p.GetError() == nil && x.commitRPCRet == 0 {
				x.commitRPCRet = c.RetSeq
			}
		}
		// foreground RPCs only: called and answered inside Commit
		if c.Seq > x.Call && c.RetSeq != 0 && c.RetSeq < x.Ret && c.RetSeq > x.sectionEnd {
			x.sectionEnd = c.RetSeq
		}
	}
	var mine []*rec
	for _, x := range s.recs {
		if x.Latched {
			mine = append(mine, x)
		}
	}
	var fp []string
	for _, x := range mine {
		r.Eval(1)
		fp = append(fp, fmt.Sprintf("%d%s%d:%s:%s", x.Round, x.Wave, len(x.Keys), x.Fault, x.Class))
		if x.Class == "ok" && x.commitRPCRet != 0 {
			x.sectionEnd = x.commitRPCRet
		}
		if x.Class != "ok" && x.Fetched != 0 {
			r.Count("holders_failed_after_commit_ts", 1)
		}
		// (a1) every latch conflict is justified by a real, earlier commit
		if x.Class == "latch" {
			r.Count("latch_conflicts_judged", 1)
			if x.firstPrewrite != 0 {
				r.Violate("txn:latch-conflict-after-prewrite", fmt.Sprintf("%v was answered ErrWriteConflictInLatch but sent a Prewrite", x), map[string]any{"params": s.p, "txn": x})
			}
			justified := false
			var failedHolder *rec
			for _, h := range mine {
				k := h.shares(x)
				if h == x || k == "" {
					continue
				}
				cts := h.truthCommit[k]
				if cts == 0 && h.Class == "ok" {
					cts = h.CommitTS
				}
				ret := h.commitRPCRet
				if ret == 0 && h.Class == "ok" {
					ret = h.Call
				}
				if cts > x.Start && ret != 0 && ret < x.Ret {
					justified = true
				}
				if h.Class != "ok" && len(h.truthCommit) == 0 && h.Fetched > x.Start && h.Call < x.Ret {
					failedHolder = h
				}
			}
			if !justified {
				msg := fmt.Sprintf("%v was answered ErrWriteConflictInLatch although no transaction of the store that shares a key had committed with a commit ts > %d before that answer", x, x.Start)
				sig := "txn:stale-spurious"
				if failedHolder != nil {
					sig = "txn:stale-spurious-after-failed-commit"
					msg += fmt.Sprintf("; the key was held before by %v, whose commit FAILED after it had fetched commit ts %d (nothing of it is in the store)", failedHolder, failedHolder.Fetched)
				}
				r.Violate(sig, msg, map[string]any{"params": s.p, "answered": x, "failed_holder": failedHolder})
			}
		}
		if x.Class == "latch" && len(x.Keys) >= 2 {
			for _, y := range mine {
				if y.Call > x.Ret && y.Ret != 0 && (y.Keys[0] == x.Keys[0] || len(y.Keys) > 1 && y.Keys[1] == x.Keys[0]) {
					r.Count("returned_requests_for_first_key_of_an_earlier_stale_multi_key_request", 1)
					break
				}
			}
		}
		// (a2) what must be answered by the latch
		for _, h := range mine {
			k := h.shares(x)
			if h == x || k == "" || h.Class != "ok" || h.CommitTS <= x.Start || !(h.Ret < x.Call) {
				continue
			}
			r.Count("must_be_stale_judged", 1)
			if x.Class != "latch" || x.firstPrewrite != 0 {
				r.Violate("txn:stale-missed", fmt.Sprintf("%v had to be answered by the latch: %v of the same store committed key %s with commit ts %d > start ts before that Commit was called", x, h, k, h.CommitTS),
					map[string]any{"params": s.p, "later": x, "committed": h})
			}
			break
		}
		// the shape that exposes a commit ts published by a failed holder
		if x.Class != "latch" {
			for _, h := range mine {
				if h != x && h.shares(x) != "" && h.Class != "ok" && h.Fetched > x.Start && h.Start < x.Start && h.Ret < x.Call {
					r.Count("passed_latch_after_failed_holder_with_newer_fetched_ts", 1)
					break
				}
			}
		}
	}
	// (b) latched sections on the wire
	perKey := map[string][]*rec{}
	for _, x := range mine {
		if x.firstPrewrite != 0 && x.sectionEnd != 0 {
			for _, k := range x.Keys {
				perKey[k] = append(perKey[k], x)
			}
		}
	}
	for k, l := range perKey {
		sort.Slice(l, func(i, j int) bool { return l[i].firstPrewrite < l[j].firstPrewrite })
		for i := 1; i < len(l); i++ {
			r.Count("wire_sections_compared", 1)
			if l[i-1].sectionEnd > l[i].firstPrewrite {
				r.Violate("txn:wire-exclusivity", fmt.Sprintf("key %s: %v sent a Prewrite while %v of the same store was between its first Prewrite and its last Prewrite/Commit answer", k, l[i], l[i-1]),
					map[string]any{"params": s.p, "a": l[i-1], "b": l[i]})
			}
		}
	}
	sort.Strings(fp)
	r.Distinct(fmt.Sprintf("%d|%d|%s", s.p.Slots, s.p.NKeys, strings.Join(fp, ",")))
	r.Count("transactions", len(mine))
	r.Count("sessions", 1)
	if r.SampleN() < 3 {
		var sm []string
		for _, x := range mine {
			if x.Class == "latch" || x.Fault != "" {
				sm = append(sm, x.String())
			}
			if len(sm) >= 5 {
				break
			}
		}
		r.Sample(map[string]any{"params": s.p, "some_transactions": sm})
	}
	return true
}

func TestVerifC17Txn(t *testing.T) {
	r := vrep.New("C17", "c17-txn",
		"end-to-end: optimistic transactions of up to 8+ goroutines through one KVStore with EnableTxnLocalLatches(1|2|4) on mocktikv, 2..4 keys, 1..3 keys per transaction, unique values; per round all transactions begin, then wave A and wave B (plus transactions begun after wave A) commit concurrently; commits succeed, fail before the commit ts (write conflict with a writer of another store, insert of an existing key) or after it was fetched (SetCommitTSUpperBoundCheck=false, ServerIsBusy on every Commit RPC until the budget ends, Commit request lost); "+
			"oracles from the record + MVCC truth: ErrWriteConflictInLatch only if a transaction of the store sharing a key really committed with commit ts > start ts and its Commit RPC had returned before; a Commit called after such a Commit returned nil must be answered by the latch without a Prewrite; latched sections on the wire of key-sharing transactions do not overlap; every Commit returns; "+
			"evaluations = transactions of the latched store judged; distinct = distinct per-session multisets of (round, wave, #keys, fault, answer)")
	defer r.Finish(t)
	_ = failpoint.Enable("tikvclient/fastBackoffBySkipSleep", "return")
	defer failpoint.Disable("tikvclient/fastBackoffBySkipSleep")
	master := vrep.Rand("c17-txn")
	for sn := 0; sn < vrep.Pick(80, 1200); sn++ {
		p := params{Session: sn, Seed: master.Int63(), Slots: []uint{1, 2, 4}[master.Intn(3)], NKeys: 2 + master.Intn(3), Rounds: vrep.Pick(10, 14)}
		s := &session{p: p, r: r, rng: rand.New(rand.NewSource(p.Seed))}
		ok := s.run()
		if s.stuck {
			r.Count("sessions_abandoned_with_a_blocked_commit", 1)
			if r.Get("sessions_abandoned_with_a_blocked_commit") >= 2 {
				break
			}
			continue
		}
		if !ok {
			break
		}
		if r.NViolations() > 12 {
			break
		}
	}
	r.Floor("transactions", 2500)
	r.Floor("latch_conflicts_judged", 500)
	r.Floor("must_be_stale_judged", 300)
	r.Floor("holders_failed_after_commit_ts", 200)
	r.Floor("passed_latch_after_failed_holder_with_newer_fetched_ts", 80)
	r.Floor("wire_sections_compared", 1000)
	r.Floor("returned_requests_for_first_key_of_an_earlier_stale_multi_key_request", 300)
}
