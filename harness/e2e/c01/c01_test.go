//go:build verif

package c01

import (
	"context"
	"fmt"
	"math/rand"
	"os"
	"regexp"
	"strings"
	"sync"
	"sync/atomic"
	"testing"
	"time"

	"github.com/pingcap/failpoint"
	"github.com/pingcap/kvproto/pkg/errorpb"
	"github.com/pingcap/kvproto/pkg/kvrpcpb"
	"github.com/tikv/client-go/v2/tikvrpc"
	"github.com/tikv/client-go/v2/verifh/vrep"

	"verif/e2e/si"
	"verif/e2e/trace"
	"verif/e2e/uni"
	"verif/e2e/work"
)

// Keys: shared prefixes, keys that are prefixes of others, region borders are placed on and between keys.
var keys = []string{"a", "a0", "a00", "b", "b5", "c", "c\xff", "d", "e", "e1"}

type config struct {
	backend     string
	pessimistic bool
	async, one  bool
	chaos       bool
	faults      bool
	kill        bool
	batch1      bool // request batch size limit of one mutation (every key its own prewrite/commit request)
	seed        int64
}

func (c config) String() string {
	m := "2pc"
	if c.async {
		m = "async"
	}
	if c.one {
		m += "+1pc"
	}
	p := "opt"
	if c.pessimistic {
		p = "pess"
	}
	if c.batch1 {
		m += "/batch1"
	}
	return fmt.Sprintf("%s/%s/%s/chaos=%v/faults=%v/kill=%v", c.backend, m, p, c.chaos, c.faults, c.kill)
}

func runConfig(t *testing.T, r *vrep.Report, tr *vrep.Report, cfg config, nClients, nWorkers, nTxns int) {
	u, err := uni.New(cfg.backend, 3)
	if err != nil {
		r.Inconc("universe: %v", err)
		return
	}
	defer u.Close()
	if cfg.chaos {
		// Under topology churn and injected faults the retry loops would spend most of the wall clock in
		// back-off sleeps (the budget accounting still runs): virtualise the sleeping in these configurations.
		// The calm configuration (variant 0) keeps real sleeps, so waiting behaves as in production there.
		_ = failpoint.Enable("tikvclient/fastBackoffBySkipSleep", "return")
		defer failpoint.Disable("tikvclient/fastBackoffBySkipSleep")
	}
	if cfg.batch1 {
		_ = failpoint.Enable("tikvclient/twoPCRequestBatchSizeLimit", "return")
		defer failpoint.Disable("tikvclient/twoPCRequestBatchSizeLimit")
	}
	rng := rand.New(rand.NewSource(cfg.seed))
	// initial layout: a few splits
	for _, k := range []string{"b", "c\xff", "e"} {
		if rng.Intn(2) == 0 {
			u.SplitAt([]byte(k))
		}
	}
	var clients []*uni.ClientStore
	for i := 0; i < nClients; i++ {
		c, err := u.NewClient()
		if err != nil {
			r.Inconc("client: %v", err)
			return
		}
		clients = append(clients, c)
	}
	var splitsDuringRPC, faultsInjected, chaosEvents, rpcCount atomic.Int64
	var clockMoved atomic.Bool
	stop := make(chan struct{})
	var chaosWG sync.WaitGroup
	var recsMu sync.Mutex
	var recs []*work.TxnRec
	var nextID atomic.Int64
	var wg sync.WaitGroup
	{
		// chaos and faults are paced by the RPC stream itself (every n-th request), so they
		// happen *during* requests and cannot outrun the workload
		var mu sync.Mutex
		frng := rand.New(rand.NewSource(cfg.seed ^ 0x5eed))
		killAt := int64(150 + frng.Intn(200))
		killed := false
		u.SetDefaultDecider(func(c *uni.Call) uni.Action {
			n := rpcCount.Add(1)
			mu.Lock()
			defer mu.Unlock()
			if cfg.kill && !killed && n >= killAt && c.Client == nClients-1 {
				killed = true
				u.Log.Notef("kill client %d at its request %s", c.Client, c.Cmd)
				if frng.Intn(2) == 0 {
					return uni.Action{Kind: uni.KillBefore}
				}
				return uni.Action{Kind: uni.KillAfter}
			}
			// (unistore guards async commit / 1PC with its own TSO: the clock is not moved while writers run there)
			if cfg.chaos && n%23 == 0 && cfg.backend == uni.Mock {
				// virtual time keeps flowing with the request stream, so locks of a killed client
				// (and of slow live ones) do expire on the resolvers' clocks
				clockMoved.Store(true)
				return uni.Action{Kind: uni.Pass, Before: func() { u.AdvanceClock(400) }}
			}
			if cfg.chaos && n%17 == 0 && chaosEvents.Load() < 60 {
				chaosEvents.Add(1)
				k := []byte(keys[frng.Intn(len(keys))])
				x, pick := frng.Intn(10), frng.Intn(3)
				ms := int64(500 + frng.Intn(4000))
				return uni.Action{Kind: uni.Pass, Before: func() {
					switch {
					case x < 3:
						if u.SplitAt(k) {
							splitsDuringRPC.Add(1)
						}
					case x < 6:
						u.MoveLeader(k, pick)
					case x < 7:
						u.MergeAt(k)
					default:
						// accelerated time: live locks look expired to other clients' resolvers
						if cfg.backend == uni.Mock {
							u.AdvanceClock(ms)
							clockMoved.Store(true)
						}
					}
				}}
			}
			if !cfg.faults {
				return uni.Action{}
			}
			switch x := frng.Intn(1000); {
			case x < 6:
				faultsInjected.Add(1)
				if cfg.backend == uni.Uni && c.Cmd == tikvrpc.CmdCommit {
					// unistore (trusted as given) does not answer a repeated Commit of an already committed
					// Lock/Delete primary with success as TiKV does, so a lost Commit response followed by the
					// sender's retry would look like a definite failure of a committed transaction there
					return uni.Action{Kind: uni.DropReq}
				}
				return uni.Action{Kind: uni.DropResp}
			case x < 10:
				faultsInjected.Add(1)
				return uni.Action{Kind: uni.DropReq}
			case x < 16:
				faultsInjected.Add(1)
				return uni.Action{Kind: uni.RegionErr, RegErr: &errorpb.Error{Message: "injected", NotLeader: &errorpb.NotLeader{RegionId: c.RegionID}}}
			case x < 20:
				faultsInjected.Add(1)
				return uni.Action{Kind: uni.RegionErr, RegErr: &errorpb.Error{Message: "injected", ServerIsBusy: &errorpb.ServerIsBusy{Reason: "verif"}}}
			}
			return uni.Action{}
		})
	}
	for ci, c := range clients {
		for w := 0; w < nWorkers; w++ {
			wg.Add(1)
			go func(c *uni.ClientStore, ci, w int) {
				defer wg.Done()
				g := &work.Gen{Rng: rand.New(rand.NewSource(cfg.seed*131 + int64(ci*17+w))), Keys: keys, Pessimistic: cfg.pessimistic, Async: cfg.async, OnePC: cfg.one, MaxOps: 6, RollbackPct: 10, NoRevScan: cfg.backend == uni.Uni}
				run := &work.Runner{U: u, C: c, LockWaitMS: 50}
				for i := 0; i < nTxns; i++ {
					if c.Net.Killed() {
						return
					}
					spec := g.Next()
					rec := run.Run(int(nextID.Add(1)), spec)
					recsMu.Lock()
					recs = append(recs, rec)
					recsMu.Unlock()
				}
			}(c, ci, w)
		}
	}
	done := make(chan struct{})
	go func() { wg.Wait(); close(done) }()
	select {
	case <-done:
	case <-time.After(4 * time.Minute): // watchdog only
		close(stop)
		r.Inconc("%s: workers did not finish (watchdog)", cfg)
		return
	}
	close(stop)
	chaosWG.Wait()
	u.SetDefaultDecider(nil)
	if !u.Drain() {
		r.Inconc("%s: background work did not drain", cfg)
		return
	}
	// recovery: every lock is considered expired, a fresh observer reads every key (which resolves what blocks it)
	u.AdvanceClock(3 * 3600 * 1000)
	obs, err := u.NewClient()
	if err != nil {
		r.Inconc("observer: %v", err)
		return
	}
	if err := recoverAll(u, obs); err != nil {
		r.Inconc("%s: recovery: %v", cfg, err)
		return
	}
	if !u.Drain() {
		r.Inconc("%s: recovery did not drain", cfg)
		return
	}
	var ks [][]byte
	for _, k := range keys {
		ks = append(ks, []byte(k))
	}
	truth, err := u.ReadTruth(ks)
	if err != nil {
		r.Inconc("%s: truth: %v", cfg, err)
		return
	}
	for k, kt := range truth.Keys {
		// locks without data (pessimistic locks, lock-only prewrites) never block a reader, so reads do not
		// resolve them; they carry no version and do not affect the truth
		if kt.Lock != nil && (kt.Lock.Type == kvrpcpb.Op_Put || kt.Lock.Type == kvrpcpb.Op_Del) {
			r.Inconc("%s: key %q still carries a prewrite lock of %d after recovery", cfg, k, kt.Lock.StartTS)
			return
		}
	}
	for _, p := range u.Panics() {
		r.Violate("backend-panic:"+p.Msg, cfg.String()+": the store panicked serving "+p.Req, map[string]any{"config": cfg.String(), "seed": cfg.seed, "panic": p})
	}
	chk := &si.Checker{Truth: truth, Txns: recs, TSOs: u.Log.TSOs(), ClockMoved: clockMoved.Load()}
	vs := chk.Check()
	allCalls := u.Log.Calls()
	notes := u.Log.Notes()
	for _, v := range vs {
		d := map[string]any{"config": cfg.String(), "seed": cfg.seed, "witness": v.Detail}
		if w, ok := v.Detail.(map[string]any); ok {
			// attach the RPCs of that client (and the driver's topology/clock notes) inside the read's call window
			cs, okc := w["call_seq"].(int64)
			rs, okr := w["ret_seq"].(int64)
			cl, okl := w["client"].(int)
			if okc && okr && okl {
				var win []string
				for _, c := range allCalls {
					if c.Client == cl && c.Seq >= cs && c.Seq <= rs && len(win) < 60 {
						win = append(win, fmt.Sprintf("#%d..%d %s region=%d ver=%d %s err=%q regErr=%v :: %.300v => %.300v", c.Seq, c.RetSeq, c.Cmd, c.RegionID, c.RegionVer, c.Action, c.Err, c.RegionErr, c.Req, c.Resp))
					}
				}
				for _, n := range notes {
					if n.Seq >= cs-50 && n.Seq <= rs && len(win) < 90 {
						win = append(win, fmt.Sprintf("#%d NOTE %s", n.Seq, n.Text))
					}
				}
				d["rpc_window"] = win
			}
		}
		{
			w, _ := v.Detail.(map[string]any)
			// the request history of every transaction the violation message names and of every
			// transaction whose value the read should have / has returned
			writers := map[uint64]bool{}
			for _, num := range tsRe.FindAllString(v.Msg, -1) {
				var ts uint64
				if _, err := fmt.Sscanf(num, "%d", &ts); err == nil {
					writers[ts] = true
				}
			}
			for _, m := range []any{w["expected_vals"], w["returned"]} {
				if mm, ok := m.(map[string]string); ok {
					for _, val := range mm {
						var ts uint64
						if _, err := fmt.Sscanf(val, "%d#", &ts); err == nil && ts != 0 {
							writers[ts] = true
						}
					}
				}
			}
			var hist []string
			perTxn := map[uint64]int{}
			for _, c := range allCalls {
				if writers[c.StartTS] && perTxn[c.StartTS] < 45 {
					perTxn[c.StartTS]++
					switch c.Cmd {
					case tikvrpc.CmdCheckTxnStatus:
						perTxn[c.StartTS]-- // status checks of waiting readers would crowd out the owner's requests
					case tikvrpc.CmdPrewrite, tikvrpc.CmdCommit, tikvrpc.CmdBatchRollback, tikvrpc.CmdResolveLock, tikvrpc.CmdCheckSecondaryLocks, tikvrpc.CmdPessimisticLock:
						hist = append(hist, fmt.Sprintf("#%d..%d c%d %s %s err=%q regErr=%v :: %.260v => %.160v", c.Seq, c.RetSeq, c.Client, c.Cmd, c.Action, c.Err, c.RegionErr != nil, c.Req, c.Resp))
					}
				}
			}
			d["writer_histories"] = hist
		}
		r.Violate(v.Sig, cfg.String()+": "+v.Msg, d)
	}
	// the C04 trace monitor runs over the same execution
	trace.CheckUniverse(tr, u, recs, cfg.String(), trace.Options{CheckBuffer: true})

	st := chk.Stats
	r.Eval(st.ReadsReplayed + st.ScansReplayed + st.LockingReads + st.PairsChecked + st.ExtPairs + st.Txns)
	r.Count("txns", st.Txns)
	r.Count("committed", st.Committed)
	r.Count("rolled_back_or_failed", st.RolledBack)
	r.Count("reads_replayed", st.ReadsReplayed)
	r.Count("scans_replayed", st.ScansReplayed)
	r.Count("locking_reads", st.LockingReads)
	r.Count("writer_pairs_checked", st.PairsChecked)
	r.Count("inserts_checked", st.Inserts)
	r.Count("external_consistency_checks", st.ExtPairs)
	r.Count("reads_that_saw_another_txn", st.ReadersSawOthers)
	r.Count("faults_injected", int(faultsInjected.Load()))
	r.Count("splits_during_rpc", int(splitsDuringRPC.Load()))
	r.Count("chaos_events_during_rpc", int(chaosEvents.Load()))
	r.Count("rpcs", u.Log.Len())
	classes := map[string]int{}
	for _, rec := range recs {
		o := si.OutcomeOf(truth, rec)
		cls := fmt.Sprintf("%s|end=%s|class=%s|committed=%v|async=%v|1pc=%v", cfg.backend, rec.EndKind, rec.CommitClass, o.Committed, rec.IsAsync, rec.Is1PC)
		classes[cls]++
		r.Distinct(fmt.Sprintf("%s|%s|%s|n=%d", cfg, cls, rec.Spec.String(), len(rec.Failed)))
		for _, f := range rec.Failed {
			r.Count("step_failed:"+string(f.Class), 1)
		}
		for _, rd := range rec.Reads {
			if rd.Err != "" {
				e := rd.Err
				if len(e) > 90 {
					e = e[:90]
				}
				r.Count("read_error:"+e, 1)
			}
		}
		if rec.CommitClass != work.ENone && rec.EndKind == "commit" {
			r.Count("commit_failed:"+string(rec.CommitClass), 1)
		}
		if rec.IsAsync && o.Committed {
			r.Count("committed_async", 1)
		}
		if rec.Is1PC && o.Committed {
			r.Count("committed_1pc", 1)
		}
	}
	for _, c := range u.Log.Calls() {
		if c.Cmd == tikvrpc.CmdResolveLock || c.Cmd == tikvrpc.CmdCheckTxnStatus {
			r.Count("resolver_rpcs", 1)
		}
	}
	if r.SampleN() < 4 && len(recs) > 0 {
		rec := recs[len(recs)/2]
		r.Sample(map[string]any{"config": cfg.String(), "txn": rec.Spec.String(), "start_ts": rec.StartTS, "commit": rec.CommitClass, "commit_ts": rec.CommitTS, "reads": len(rec.Reads), "classes": classes})
	}
}

var tsRe = regexp.MustCompile(`[0-9]{15,}`)

func recoverAll(u *uni.Universe, obs *uni.ClientStore) error {
	ctx := context.Background()
	desc := ""
	for round := 0; round < 6; round++ {
		txn, err := obs.Begin()
		if err != nil {
			return err
		}
		var ks [][]byte
		for _, k := range keys {
			ks = append(ks, []byte(k))
		}
		if _, err := txn.BatchGet(ctx, ks); err != nil {
			return err
		}
		it, err := txn.Iter(nil, nil)
		if err != nil {
			return err
		}
		for it.Valid() {
			if err := it.Next(); err != nil {
				return err
			}
		}
		it.Close()
		txn.Rollback()
		u.Drain()
		locks, err := u.ScanLocksTruth()
		if err != nil {
			return err
		}
		left := 0
		desc = ""
		for _, l := range locks {
			if l.Type == kvrpcpb.Op_Put || l.Type == kvrpcpb.Op_Del {
				left++
			}
			desc += fmt.Sprintf(" {key=%q type=%s start=%d primary=%q ttl=%d async=%v minCommit=%d}", l.Key, l.Type, l.StartTS, l.Primary, l.TTL, l.UseAsync, l.MinCommitTS)
		}
		if left == 0 {
			return nil
		}
	}
	// diagnostics: what the observer did about those transactions, and the state of their primaries
	locks, _ := u.ScanLocksTruth()
	for _, l := range locks {
		if l.Type != kvrpcpb.Op_Put && l.Type != kvrpcpb.Op_Del {
			continue
		}
		tr, _ := u.ReadTruth([][]byte{l.Primary, l.Key})
		desc += fmt.Sprintf("\n  primary truth: %+v / lock=%+v ; key truth lock=%+v", tr.Keys[string(l.Primary)].Writes, tr.Keys[string(l.Primary)].Lock, tr.Keys[string(l.Key)].Lock)
		for _, c := range u.Log.Calls() {
			if c.StartTS == l.StartTS && (c.Client == obs.ID || c.Cmd == tikvrpc.CmdPrewrite || c.Cmd == tikvrpc.CmdPessimisticLock) {
				desc += fmt.Sprintf("\n  #%d..%d c%d %s %s err=%q regErr=%v :: %.200v => %.200v", c.Seq, c.RetSeq, c.Client, c.Cmd, c.Action, c.Err, c.RegionErr != nil, c.Req, c.Resp)
			}
		}
	}
	return fmt.Errorf("prewrite locks remain after 6 observer rounds:%s", desc)
}

func TestVerifC01(t *testing.T) {
	r := vrep.New("C01", "c01-si", "concurrent seeded transaction programs (get/batch-get/iter/iter-reverse/set/insert/delete/insert-delete/lock-keys/commit/rollback) over 10 shared keys on mocktikv(3 stores) and unistore, modes {2PC,async,1PC}x{optimistic,pessimistic}, with region splits/merges/leader moves, accelerated virtual time, tolerated RPC faults and a client kill; after drain+recovery every read is replayed against the MVCC truth (MvccGetByKey) overlaid with the txn's own buffer, plus first-committer-wins, locking-read, insert, atomicity/ack and external-consistency clauses; distinct = distinct (config, outcome class, program)")
	defer r.Finish(t)
	tr := vrep.New("C04", "c04-on-c01", "C04 trace monitor (rules 1-11 of DESIGN.md §2 C04) evaluated over the RPC/TSO logs of the C01 executions; distinct = distinct transactions monitored")
	defer tr.Finish(t)
	seed := vrep.Seed()
	var cfgs []config
	for _, be := range []string{uni.Mock, uni.Uni} {
		for _, pess := range []bool{false, true} {
			modes := [][2]bool{{false, false}}
			if be == uni.Uni {
				// (1PC without async commit is a mode of its own: the commit ts is calculated by the store although
				// the transaction is not an async-commit one)
				modes = append(modes, [2]bool{true, false}, [2]bool{true, true}, [2]bool{false, true})
			}
			for _, m := range modes {
				cfgs = append(cfgs, config{backend: be, pessimistic: pess, async: m[0], one: m[1]})
			}
		}
	}
	nTx := vrep.Pick(30, 60)
	rounds := vrep.Pick(2, 4)
	i := int64(0)
	for round := 0; round < rounds; round++ {
		for _, c := range cfgs {
			for _, variant := range []int{0, 1, 2, 3} {
				if !vrep.Thorough() && variant == 1 && c.backend == uni.Uni && c.async != c.one {
					continue
				}
				if !vrep.Thorough() && variant == 3 && !(c.backend == uni.Uni && c.async && c.one && !c.pessimistic) && !(c.backend == uni.Mock && c.pessimistic) {
					continue
				}
				i++
				c.seed = seed*7919 + i
				switch variant {
				case 1:
					c.chaos = true
				case 2:
					// no kill in the unistore async-commit / 1PC configurations: unistore does not record the commit of a
					// lock-only secondary, so a crash between that secondary's commit and the primary's would make
					// async-commit recovery roll back an acknowledged transaction there (TiKV writes a Lock record)
					c.chaos, c.faults, c.kill = true, true, c.backend == uni.Mock || !c.async
				case 3:
					// every mutation travels in its own prewrite / commit request (many more partial states on the
					// store; one-phase commit must give way), under topology churn
					c.chaos, c.batch1 = true, true
				}
				if only := os.Getenv("VERIF_C01_ONLY"); only != "" && !strings.Contains(c.String(), only) {
					continue
				}
				t0 := time.Now()
				runConfig(t, r, tr, c, 3, 3, nTx)
				t.Logf("config %s seed=%d took %v violations=%d", c, c.seed, time.Since(t0), r.NViolations())
				r.Flush()
			}
		}
	}
	r.Floor("committed", 50)
	r.Floor("reads_that_saw_another_txn", 10)
	r.Floor("writer_pairs_checked", 20)
}
