//go:build verif

// Package c13: clause (d) of C13 (commit-wait) for the commit modes mocktikv does not have — async commit
// and 1PC on unistore, plus 2PC on the same back-end for comparison.
//
// A transaction is put under 1..4 commit-wait constraints (SetCommitWaitUntilTSO: increasing, decreasing,
// equal, zero in between / at the end), interleaved with reads and writes, and committed with async commit,
// 1PC, both, or plain 2PC, with and without causal consistency (which removes the other reason for fetching
// a min-commit-ts from PD).  The universe's TSO clock is stepped by a per-case amount inside every timestamp
// request of the committing client (PD's clock catching up), back-off sleeps are skipped by the existing
// failpoint.  Every constraint given to the transaction binds it: Commit()==nil => CommitTS() and the version
// of every written key in the store (MVCC truth after drain) are strictly greater than the MAXIMUM constraint
// ever set, and the value visible at that maximum is not this transaction's.  An error is always accepted.
//
// unistore's 1PC takes the commit ts from its own clock and ignores the min_commit_ts the client asks for (TiKV
// commits at max(min_commit_ts, max_ts+1, ...)); it also dies when a start ts is ahead of its own clock.  1PC is
// therefore driven first, with the clock never stepped and real (short) back-off sleeps, and judged on the wire:
// every delivered Prewrite with try_one_pc (and every one with use_async_commit) carries min_commit_ts > the
// maximum constraint.  What unistore then stores for a 1PC commit is not judged.
package c13

import (
	"context"
	"fmt"
	"math/rand"
	"sort"
	"sync/atomic"
	"testing"
	"time"

	"github.com/pingcap/failpoint"
	"github.com/pingcap/kvproto/pkg/kvrpcpb"
	"github.com/pingcap/log"
	tikverr "github.com/tikv/client-go/v2/error"
	"github.com/tikv/client-go/v2/oracle"
	"github.com/tikv/client-go/v2/txnkv/transaction"
	"github.com/tikv/client-go/v2/verifh/vrep"
	"go.uber.org/zap/zapcore"

	"verif/e2e/uni"
)

type cwCase struct {
	Index      int      `json:"index"`
	Mode       string   `json:"mode"` // async | 1pc | async+1pc | 2pc
	Causal     bool     `json:"causal_consistency"`
	Keys       int      `json:"keys"`
	Kind       string   `json:"kind"`
	LagsMs     []int64  `json:"lags_ms"`
	Zero       []bool   `json:"zero"`
	Logical    []string `json:"logical"`
	Interleave []string `json:"interleave"`
	StepMs     int64    `json:"clock_step_ms_per_tso_request"`
	TimeoutMs  int64    `json:"timeout_ms"`
	Values     []uint64 `json:"values"`
	Max        uint64   `json:"max"`
}

func genCase(rng *rand.Rand, idx int, onePC bool) cwCase {
	c := cwCase{Index: idx}
	c.Mode = []string{"async", "async", "async", "2pc"}[rng.Intn(4)]
	if onePC {
		c.Mode = []string{"1pc", "1pc", "async+1pc"}[rng.Intn(3)]
	}
	c.Causal = rng.Intn(3) == 0
	c.Keys = 1 + rng.Intn(3)
	c.Kind = []string{"decreasing", "decreasing", "then-zero", "then-zero", "zero-between", "increasing", "equal", "random", "single", "single"}[rng.Intn(10)]
	lagSet := []int64{-3, 0, 1, 2, 10, 100, 300, 800}
	if onePC {
		lagSet = []int64{-3, 0, 1, 2, 5, 10, 30} // waited for in real time
	}
	n := 2 + rng.Intn(3)
	switch c.Kind {
	case "single":
		n = 1
	case "zero-between":
		n = 3 + rng.Intn(2)
	}
	for i := 0; i < n; i++ {
		c.LagsMs = append(c.LagsMs, lagSet[rng.Intn(len(lagSet))])
		c.Zero = append(c.Zero, false)
		c.Logical = append(c.Logical, []string{"zero", "now", "now+1", "now+3", "max"}[rng.Intn(5)])
		c.Interleave = append(c.Interleave, []string{"none", "get", "set"}[rng.Intn(3)])
	}
	switch c.Kind {
	case "increasing":
		sort.Slice(c.LagsMs, func(i, j int) bool { return c.LagsMs[i] < c.LagsMs[j] })
	case "decreasing":
		sort.Slice(c.LagsMs, func(i, j int) bool { return c.LagsMs[i] > c.LagsMs[j] })
	case "equal":
		for i := range c.LagsMs {
			c.LagsMs[i], c.Logical[i] = c.LagsMs[0], c.Logical[0]
		}
	case "then-zero":
		c.Zero[n-1] = true
	case "zero-between":
		c.Zero[1+rng.Intn(n-2)] = true
	case "random":
		if rng.Intn(3) == 0 {
			c.Zero[rng.Intn(n)] = true
		}
	}
	c.StepMs = []int64{0, 1, 7, 50, 300}[rng.Intn(5)]
	c.TimeoutMs = []int64{-1, -1, 0, 1000, 2000}[rng.Intn(5)]
	if onePC {
		c.StepMs = 0
	}
	return c
}

func TestVerifC13E2E(t *testing.T) {
	r := vrep.New("C13", "c13-e2e", "clause (d) on unistore: transactions put under 1..4 commit-wait constraints (increasing, decreasing, equal, zero in between / at the end; now + {-3..800}ms), interleaved with Get/Set, committed with async commit / 1PC / both / 2PC, with and without causal consistency, 1..3 keys; TSO clock stepped {0,1,7,50,300}ms per timestamp request of the committing client, back-off sleeps skipped by failpoint. "+
		"Verdict: Commit()==nil => CommitTS() and the commit ts of every written key in the MVCC truth (after drain) > the MAXIMUM constraint ever set on the transaction, and the version visible at that maximum is not this transaction's; an error is always accepted. "+
		"1PC (driven first, clock not stepped, real short back-off sleeps) is judged on the wire only, because unistore's 1PC ignores the requested min_commit_ts: every delivered Prewrite with try_one_pc / use_async_commit carries min_commit_ts > that maximum. "+
		"distinct = (mode actually used, causal, keys, kind, lags, zeros, step, timeout, outcome)")
	defer r.Finish(t)
	log.SetLevel(zapcore.FatalLevel)
	u, err := uni.New(uni.Uni, 1)
	if err != nil {
		t.Fatal(err)
	}
	defer u.Close()
	c, err := u.NewClient()
	if err != nil {
		t.Fatal(err)
	}
	defer failpoint.Disable("tikvclient/fastBackoffBySkipSleep")
	var step atomic.Int64
	c.PD.SetTSOHook(func() {
		if s := step.Load(); s > 0 {
			u.Clock.Advance(s)
		}
	})
	ctx := context.Background()
	rng := vrep.Rand("c13-e2e-cases")
	nOnePC, nRest := vrep.Pick(200, 1500), vrep.Pick(600, 6000)
	for i := 0; i < nOnePC+nRest; i++ {
		onePC := i < nOnePC
		if i == nOnePC {
			// from here on the clock is stepped and back-off sleeps are skipped: no 1PC any more
			if err := failpoint.Enable("tikvclient/fastBackoffBySkipSleep", "return"); err != nil {
				t.Fatal(err)
			}
		}
		cs := genCase(rng, i, onePC)
		txn, err := c.Begin()
		if err != nil {
			r.Inconc("Begin: %v", err)
			return
		}
		txn.SetEnableAsyncCommit(cs.Mode == "async" || cs.Mode == "async+1pc")
		txn.SetEnable1PC(cs.Mode == "1pc" || cs.Mode == "async+1pc")
		txn.SetCausalConsistency(cs.Causal)
		val := []byte(fmt.Sprintf("e%d", i))
		var keys [][]byte
		for k := 0; k < cs.Keys; k++ {
			key := []byte(fmt.Sprintf("c13e2e-%06d-%d", i, k))
			keys = append(keys, key)
			if err := txn.Set(key, val); err != nil {
				r.Inconc("Set: %v", err)
				return
			}
		}
		base := u.Clock.Last()
		p, l := oracle.ExtractPhysical(base), oracle.ExtractLogical(base)
		cs.Values, cs.Max = nil, 0
		for j := range cs.LagsMs {
			if cs.Zero[j] {
				cs.Values = append(cs.Values, 0)
				continue
			}
			bl := map[string]int64{"zero": 0, "now": l, "now+1": l + 1, "now+3": l + 3, "max": 1<<18 - 1}[cs.Logical[j]]
			if bl > 1<<18-1 {
				bl = 1<<18 - 1
			}
			v := oracle.ComposeTS(p+cs.LagsMs[j], bl)
			cs.Values = append(cs.Values, v)
			if v > cs.Max {
				cs.Max = v
			}
		}
		if cs.TimeoutMs >= 0 {
			txn.SetCommitWaitUntilTSOTimeout(msDuration(cs.TimeoutMs))
		}
		lowered := false
		var sofar uint64
		for j, v := range cs.Values {
			if v < sofar {
				lowered = true
			}
			if v > sofar {
				sofar = v
			}
			txn.SetCommitWaitUntilTSO(v)
			switch cs.Interleave[j] {
			case "get":
				txn.Get(ctx, []byte(fmt.Sprintf("c13e2e-other-%d", i%5)))
			case "set":
				key := []byte(fmt.Sprintf("c13e2e-%06d-x%d", i, j))
				if txn.Set(key, val) == nil {
					keys = append(keys, key)
				}
			}
		}
		step.Store(cs.StepMs)
		logFrom := u.Log.Len()
		err = txn.Commit(ctx)
		step.Store(0)
		ts := txn.CommitTS()
		probe := transaction.TxnProbe{KVTxn: txn}.GetCommitter()
		used := "2pc"
		switch {
		case probe.IsOnePC():
			used = "1pc"
		case probe.IsAsyncCommit():
			used = "async"
		}
		r.Eval(1)
		outcome := "failed"
		det := map[string]any{"case": cs, "mode_used": used, "startTS": txn.StartTS(), "commitTS": ts, "error": fmt.Sprint(err)}
		if err != nil {
			if tikverr.IsErrorCommitTSLag(err) {
				r.Count("commitwait_failed_with_lag_error", 1)
			} else {
				r.Count("commitwait_failed_other", 1)
			}
			txn.Rollback()
		} else {
			r.Count("commits_"+used, 1)
			if cs.Max > 0 {
				r.Count("commits_under_constraint_"+used, 1)
			}
			if lowered {
				r.Count("commits_after_lowering_request_"+used, 1)
			}
			outcome = "above"
			if used == "1pc" {
				outcome = "1pc(not judged end-to-end)"
			} else if ts <= cs.Max {
				outcome = "below"
				r.Violate("commitwait:ts-not-above-max-constraint:"+used,
					fmt.Sprintf("%s commit: constraints set on the transaction %v (max %d), CommitTS()=%d (<= max) without an error", used, cs.Values, cs.Max, ts), det)
			}
		}
		if !u.Drain() {
			r.Inconc("drain bound hit after case %d", i)
			return
		}
		// wire: what the client asked the store for
		for _, call := range u.Log.CallsFrom(logFrom) {
			p, ok := call.Req.(*kvrpcpb.PrewriteRequest)
			if !ok || call.StartTS != txn.StartTS() || !(p.TryOnePc || p.UseAsyncCommit) || cs.Max == 0 {
				continue
			}
			r.Eval(1)
			kind := "async"
			if p.TryOnePc {
				kind = "1pc"
			}
			r.Count("wire_prewrites_under_constraint_"+kind, 1)
			if lowered {
				r.Count("wire_prewrites_after_lowering_request_"+kind, 1)
			}
			if p.MinCommitTs <= cs.Max {
				r.Violate("commitwait:min-commit-ts-not-above-max-constraint:"+kind,
					fmt.Sprintf("%s prewrite of a transaction that had been put under the constraints %v asks the store for min_commit_ts=%d <= max %d", kind, cs.Values, p.MinCommitTs, cs.Max),
					map[string]any{"case": cs, "min_commit_ts": p.MinCommitTs, "try_one_pc": p.TryOnePc, "use_async_commit": p.UseAsyncCommit, "startTS": txn.StartTS()})
			}
		}
		if err == nil && cs.Max > 0 && used != "1pc" {
			truth, terr := u.ReadTruth(keys)
			if terr != nil {
				r.Inconc("ReadTruth: %v", terr)
				return
			}
			for _, key := range keys {
				kt := truth.Keys[string(key)]
				if kt == nil {
					continue
				}
				r.Eval(1)
				r.Count("storage_probes", 1)
				w := kt.WriteOf(txn.StartTS())
				if w == nil {
					r.Count("storage_probe_write_not_found(lock pending)", 1)
					continue
				}
				_, vs, _ := kt.VisibleAt(cs.Max)
				if w.CommitTS <= cs.Max || vs == txn.StartTS() {
					r.Violate("commitwait:write-visible-at-max-constraint",
						fmt.Sprintf("%s commit succeeded on a transaction that had been put under the constraints %v, but key %q is committed at %d <= max %d", used, cs.Values, key, w.CommitTS, cs.Max),
						map[string]any{"case": cs, "mode_used": used, "key": string(key), "stored_commit_ts": w.CommitTS, "CommitTS()": ts})
				}
			}
		}
		r.Distinct(fmt.Sprintf("e2e|%s|%v|%d|%s|%v|%v|%d|%d|%s", used, cs.Causal, cs.Keys, cs.Kind, cs.LagsMs, cs.Zero, cs.StepMs, cs.TimeoutMs, outcome))
		if r.SampleN() < 4 && lowered && outcome == "above" && used != "2pc" {
			r.Sample(det)
		}
		if i%200 == 0 {
			r.Flush()
		}
	}
	if ps := u.Panics(); len(ps) > 0 {
		r.Inconc("back-end panicked %d times, first: %+v", len(ps), ps[0])
	}
	r.Floor("commits_under_constraint_async", 40)
	r.Floor("commits_after_lowering_request_async", 15)
	r.Floor("wire_prewrites_under_constraint_1pc", 60)
	r.Floor("wire_prewrites_after_lowering_request_1pc", 20)
	r.Floor("wire_prewrites_under_constraint_async", 60)
	r.Floor("storage_probes", 200)
}

func msDuration(ms int64) (d time.Duration) { return time.Duration(ms) * time.Millisecond }
