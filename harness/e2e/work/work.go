// Package work holds the transaction-program generator, the runner that
// executes a program through the public KVTxn API while recording what the
// client observed (call/return sequence numbers come from the universe's
// global sequencer), and the driver-side model of the transaction's buffer.
package work

import (
	"context"
	"fmt"
	"math/rand"
	"sort"
	"time"

	"github.com/pkg/errors"
	tikverr "github.com/tikv/client-go/v2/error"
	"github.com/tikv/client-go/v2/kv"
	"github.com/tikv/client-go/v2/oracle"
	"github.com/tikv/client-go/v2/tikv"
	"github.com/tikv/client-go/v2/txnkv/transaction"

	"verif/e2e/uni"
)

// OpKind enumerates program steps.
type OpKind int

// Program steps.
const (
	OpGet OpKind = iota
	OpBatchGet
	OpIter
	OpIterRev
	OpSet
	OpInsert // set with presume-key-not-exists
	OpDelete
	OpInsertDelete // insert, then delete inside the transaction
	OpLock         // LockKeys (pessimistic: real lock; optimistic: lock-only mutation)
)

func (k OpKind) String() string {
	return [...]string{"get", "batchget", "iter", "iterrev", "set", "insert", "delete", "insert-delete", "lock"}[k]
}

// Op is one step.
type Op struct {
	Kind             OpKind
	Keys             []string
	Lo, Hi           string // iter bounds ("" = unbounded)
	ReturnValues     bool
	CheckExistence   bool
	LockOnlyIfExists bool
	NoWait           bool
}

func (o Op) String() string {
	switch o.Kind {
	case OpIter, OpIterRev:
		return fmt.Sprintf("%s[%q,%q)", o.Kind, o.Lo, o.Hi)
	case OpLock:
		return fmt.Sprintf("lock%v{rv=%v,ce=%v,loie=%v,nowait=%v}", o.Keys, o.ReturnValues, o.CheckExistence, o.LockOnlyIfExists, o.NoWait)
	}
	return fmt.Sprintf("%s%v", o.Kind, o.Keys)
}

// Spec is a transaction program.
type Spec struct {
	Pessimistic bool
	Async       bool
	OnePC       bool
	Causal      bool
	Ops         []Op
	Commit      bool // false: Rollback
}

func (s Spec) String() string {
	m := "opt"
	if s.Pessimistic {
		m = "pess"
	}
	if s.Async {
		m += "+async"
	}
	if s.OnePC {
		m += "+1pc"
	}
	end := "rollback"
	if s.Commit {
		end = "commit"
	}
	return fmt.Sprintf("%s %v %s", m, s.Ops, end)
}

// BufKind is the driver's model of one buffered mutation.
type BufKind int

// Buffer entry kinds.
const (
	BufPut BufKind = iota
	BufDel
	BufLockOnly // locked without value
)

// BufEntry models one key of the transaction's buffer.
type BufEntry struct {
	Kind     BufKind
	Val      string
	Insert   bool // presumed not to exist (insert / insert-then-delete)
	PessLock bool // key is pessimistically locked by this transaction
	// ForUpdateTS of the (first successful) pessimistic lock on this key
	LockForUpdateTS uint64
}

// Read is one read observation.
type Read struct {
	CallSeq, RetSeq int64
	Kind            OpKind
	Keys            []string          // get / batchget / locking read
	Lo, Hi          string            // scans
	Vals            map[string]string // key -> value for keys found
	Order           []string          // scans: keys in the order returned
	Err             string
	Locking         bool            // value returned by LockKeys(ReturnValues) / existence check
	ForUpdateTS     uint64          // for locking reads
	Exists          map[string]bool // CheckExistence results
	// Overlay is a copy of the model buffer at the time of the read
	Overlay map[string]BufEntry
	// Diag: diagnostics only (never judged)
	Diag map[string]any
}

// ErrClass classifies errors of Commit and of steps.
type ErrClass string

// Error classes.
const (
	ENone          ErrClass = "nil"
	EUndetermined  ErrClass = "undetermined"
	EKeyExists     ErrClass = "key-exists"
	EWriteConflict ErrClass = "write-conflict"
	EDeadlock      ErrClass = "deadlock"
	ELockWait      ErrClass = "lock-wait-timeout"
	ELockNoWait    ErrClass = "lock-nowait-failed"
	EKilled        ErrClass = "client-killed"
	ECancelled     ErrClass = "caller-cancelled" // the caller's own context ended: a definite (not "undetermined") answer
	EAssertion     ErrClass = "assertion"
	EOther         ErrClass = "other"
)

// Classify maps an error to its class.
func Classify(err error) ErrClass {
	if err == nil {
		return ENone
	}
	var ke *tikverr.ErrKeyExist
	var wc *tikverr.ErrWriteConflict
	var wcl *tikverr.ErrWriteConflictInLatch
	var dl *tikverr.ErrDeadlock
	var af *tikverr.ErrAssertionFailed
	switch {
	case errors.Is(err, tikverr.ErrResultUndetermined) || errors.Cause(err) == tikverr.ErrResultUndetermined:
		return EUndetermined
	case errors.As(err, &ke):
		return EKeyExists
	case errors.As(err, &wc), errors.As(err, &wcl):
		return EWriteConflict
	case errors.As(err, &dl):
		return EDeadlock
	case errors.As(err, &af):
		return EAssertion
	case errors.Is(err, tikverr.ErrLockWaitTimeout) || errors.Cause(err) == tikverr.ErrLockWaitTimeout:
		return ELockWait
	case errors.Is(err, tikverr.ErrLockAcquireFailAndNoWaitSet) || errors.Cause(err) == tikverr.ErrLockAcquireFailAndNoWaitSet:
		return ELockNoWait
	case errors.Is(err, context.Canceled) || errors.Cause(err) == context.Canceled:
		return EKilled
	}
	return EOther
}

// StepRec records a step that returned an error.
type StepRec struct {
	Op    string
	Class ErrClass
	Err   string
}

// TxnRec is everything the driver knows about one executed transaction.
type TxnRec struct {
	ID       int
	Client   int
	Spec     Spec
	BeginSeq int64 // sequence number taken right before Begin was called
	BeganSeq int64 // right after Begin returned
	StartTS  uint64
	Reads    []Read
	Buf      map[string]BufEntry // model of the buffer at commit time
	Failed   []StepRec
	// end of transaction
	Ended          bool
	EndKind        string // commit | rollback | abandoned(killed)
	EndCallSeq     int64
	EndRetSeq      int64 // 0 if the call never returned to the driver (client killed)
	CommitErr      string
	CommitClass    ErrClass
	CommitTS       uint64 // KVTxn.CommitTS() after a nil Commit
	IsAsync, Is1PC bool
	NKeys          int
}

// Runner executes programs on a client store.
type Runner struct {
	U       *uni.Universe
	C       *uni.ClientStore
	nextVal int
	// LockWaitMS bounds pessimistic lock waiting (ms); 0 = default 300
	LockWaitMS int64
	// PessRetries is how often a pessimistic statement is retried on a write conflict
	PessRetries int
	// NoLockBeforeWrite: pessimistic transactions write keys without locking them first
	NoLockBeforeWrite bool
	// BeforeCommit, if set, runs right before Commit/Rollback is called
	BeforeCommit func(rec *TxnRec, txn *transaction.KVTxn)
	// CommitCtx, if set, is the context Commit is called with (a driver that cancels it owns the cancel function); a
	// Commit that then answers "context canceled" on a live client is classified ECancelled, a definite answer
	CommitCtx context.Context
}

func copyBuf(b map[string]BufEntry) map[string]BufEntry {
	o := make(map[string]BufEntry, len(b))
	for k, v := range b {
		o[k] = v
	}
	return o
}

func keysOf(ss []string) [][]byte {
	out := make([][]byte, len(ss))
	for i, s := range ss {
		out[i] = []byte(s)
	}
	return out
}

func bnd(s string) []byte {
	if s == "" {
		return nil
	}
	return []byte(s)
}

// Run executes spec.  The returned record is complete even when the client is
// killed in the middle (EndRetSeq stays 0 in that case).
func (r *Runner) Run(id int, spec Spec) *TxnRec {
	rec := &TxnRec{ID: id, Client: r.C.ID, Spec: spec, Buf: map[string]BufEntry{}}
	ctx := context.Background()
	log := r.U.Log
	rec.BeginSeq = log.Next()
	txn, err := r.C.Begin()
	rec.BeganSeq = log.Next()
	if err != nil {
		rec.Failed = append(rec.Failed, StepRec{"begin", Classify(err), err.Error()})
		rec.EndKind = "abandoned"
		return rec
	}
	rec.StartTS = txn.StartTS()
	txn.SetPessimistic(spec.Pessimistic)
	txn.SetEnableAsyncCommit(spec.Async)
	txn.SetEnable1PC(spec.OnePC)
	if spec.Causal {
		txn.SetCausalConsistency(true)
	}
	mustRollback := false
	for _, op := range spec.Ops {
		if r.C.Net.Killed() {
			break
		}
		switch op.Kind {
		case OpGet:
			rd := Read{Kind: OpGet, Keys: op.Keys, Vals: map[string]string{}, Overlay: copyBuf(rec.Buf)}
			rd.CallSeq = log.Next()
			v, err := txn.Get(ctx, []byte(op.Keys[0]))
			rd.RetSeq = log.Next()
			if err != nil && !tikverr.IsErrNotFound(err) {
				rd.Err = fmt.Sprintf("%T: %v", err, err)
			} else if err == nil {
				rd.Vals[op.Keys[0]] = string(v.Value)
			}
			rec.Reads = append(rec.Reads, rd)
		case OpBatchGet:
			rd := Read{Kind: OpBatchGet, Keys: op.Keys, Vals: map[string]string{}, Overlay: copyBuf(rec.Buf)}
			rd.CallSeq = log.Next()
			m, err := txn.BatchGet(ctx, keysOf(op.Keys))
			rd.RetSeq = log.Next()
			if err != nil {
				rd.Err = fmt.Sprintf("%T: %v", err, err)
			} else {
				for k, v := range m {
					rd.Vals[k] = string(v.Value)
				}
			}
			rec.Reads = append(rec.Reads, rd)
		case OpIter, OpIterRev:
			rd := Read{Kind: op.Kind, Lo: op.Lo, Hi: op.Hi, Vals: map[string]string{}, Overlay: copyBuf(rec.Buf)}
			t0 := time.Now()
			rd.CallSeq = log.Next()
			var it interface {
				Valid() bool
				Key() []byte
				Value() []byte
				Next() error
				Close()
			}
			var err error
			if op.Kind == OpIter {
				it, err = txn.Iter(bnd(op.Lo), bnd(op.Hi))
			} else {
				// IterReverse(k, lowerBound): iterates keys < k down to lowerBound
				it, err = txn.IterReverse(bnd(op.Hi), bnd(op.Lo))
			}
			if err == nil {
				for n := 0; it.Valid() && n < 10000; n++ {
					k := string(it.Key())
					if len(k) > 0 && k[0] == 0xff {
						// unistore keeps its own meta data (\xffstore, \xffregion<id>) in the key space
						if err = it.Next(); err != nil {
							break
						}
						continue
					}
					rd.Order = append(rd.Order, k)
					rd.Vals[k] = string(it.Value())
					if err = it.Next(); err != nil {
						break
					}
				}
				it.Close()
			}
			rd.RetSeq = log.Next()
			if err != nil {
				rd.Err = fmt.Sprintf("%T: %v", err, err)
			}
			if err == nil && len(rd.Order) == 0 {
				// diagnostics: repeat an empty scan once and keep what the repetition saw
				var again []string
				var it2 tikv.Iterator
				var e2 error
				if op.Kind == OpIter {
					it2, e2 = txn.Iter(bnd(op.Lo), bnd(op.Hi))
				} else {
					it2, e2 = txn.IterReverse(bnd(op.Hi), bnd(op.Lo))
				}
				for e2 == nil && it2.Valid() && len(again) < 100 {
					again = append(again, string(it2.Key()))
					e2 = it2.Next()
				}
				rd.Diag = map[string]any{"repeat_result": again, "repeat_err": fmt.Sprint(e2), "buffer_len": txn.Len(), "took": time.Since(t0).String()}
			}
			rec.Reads = append(rec.Reads, rd)
		case OpSet, OpDelete:
			// a pessimistic transaction locks every key it writes first (as a SQL layer does for row keys);
			// unlocked writes of pessimistic transactions are generated only when LockBeforeWrite is off
			if spec.Pessimistic && !r.NoLockBeforeWrite {
				k := op.Keys[0]
				if e, ok := rec.Buf[k]; !ok || !e.PessLock {
					fu, lerr := r.lock(ctx, txn, rec, Op{Kind: OpLock, Keys: []string{k}, NoWait: op.NoWait}, nil)
					if lerr != nil {
						cl := Classify(lerr)
						rec.Failed = append(rec.Failed, StepRec{op.String(), cl, lerr.Error()})
						if cl == EDeadlock || cl == EKilled || cl == EOther {
							mustRollback = true
						}
						break
					}
					e.PessLock, e.LockForUpdateTS = true, fu
					if !ok {
						e.Kind = BufLockOnly
					}
					rec.Buf[k] = e
				}
			}
			if op.Kind == OpDelete {
				k := op.Keys[0]
				if err := txn.Delete([]byte(k)); err != nil {
					rec.Failed = append(rec.Failed, StepRec{op.String(), Classify(err), err.Error()})
					continue
				}
				e := rec.Buf[k]
				e.Kind, e.Val = BufDel, ""
				rec.Buf[k] = e
				break
			}
			k := op.Keys[0]
			val := r.val(rec)
			if err := txn.Set([]byte(k), []byte(val)); err != nil {
				rec.Failed = append(rec.Failed, StepRec{op.String(), Classify(err), err.Error()})
				continue
			}
			e := rec.Buf[k]
			e.Kind, e.Val = BufPut, val
			rec.Buf[k] = e
		case OpInsert, OpInsertDelete:
			k := op.Keys[0]
			if old, ok := rec.Buf[k]; ok && !(old.Kind == BufLockOnly) {
				// a key already written in this transaction is not an insert candidate; treat as plain set
				val := r.val(rec)
				if err := txn.Set([]byte(k), []byte(val)); err == nil {
					old.Kind, old.Val = BufPut, val
					rec.Buf[k] = old
				}
				continue
			}
			val := r.val(rec)
			mb := txn.GetMemBuffer()
			if !spec.Pessimistic {
				if err := mb.SetWithFlags([]byte(k), []byte(val), kv.SetPresumeKeyNotExists); err != nil {
					rec.Failed = append(rec.Failed, StepRec{op.String(), Classify(err), err.Error()})
					continue
				}
				e := rec.Buf[k]
				e.Kind, e.Val, e.Insert = BufPut, val, true
				rec.Buf[k] = e
			} else {
				// pessimistic insert as TiDB does it: buffer the write inside a staging level,
				// lock the key (the lock request carries "should not exist"), undo on failure.
				// A write conflict makes the SQL layer re-execute the statement with a newer
				// for-update ts: the flags are set again (a failed lock call clears them).
				var h int
				var fu uint64
				var lerr error
				for attempt := 0; attempt < 4; attempt++ {
					h = mb.Staging()
					if lerr = mb.SetWithFlags([]byte(k), []byte(val), kv.SetPresumeKeyNotExists, kv.SetNewlyInserted); lerr != nil {
						break
					}
					fu, lerr = r.lockOnce(ctx, txn, rec, Op{Kind: OpLock, Keys: []string{k}}, nil)
					if lerr == nil || Classify(lerr) != EWriteConflict {
						break
					}
					mb.Cleanup(h)
					h = 0
				}
				if lerr != nil {
					if h != 0 {
						mb.Cleanup(h)
					}
					cl := Classify(lerr)
					rec.Failed = append(rec.Failed, StepRec{op.String(), cl, lerr.Error()})
					if cl == EDeadlock || cl == EKilled || cl == EOther {
						mustRollback = true
					}
					if mustRollback {
						break
					}
					continue
				}
				mb.Release(h)
				e := rec.Buf[k]
				e.Kind, e.Val, e.Insert = BufPut, val, true
				if !e.PessLock {
					e.PessLock, e.LockForUpdateTS = true, fu
				}
				rec.Buf[k] = e
			}
			if op.Kind == OpInsertDelete {
				// every other transaction deletes the way TiDB does it for a row it inserted itself
				// (tombstone flagged NewlyInserted); the insert's existence check must survive both forms
				del := func() error { return txn.Delete([]byte(k)) }
				if rec.ID%2 == 1 {
					del = func() error { return mb.DeleteWithFlags([]byte(k), kv.SetNewlyInserted) }
				}
				if err := del(); err == nil {
					e := rec.Buf[k]
					e.Kind, e.Val = BufDel, ""
					rec.Buf[k] = e
				}
			}
		case OpLock:
			rd := &Read{Kind: OpLock, Keys: op.Keys, Vals: map[string]string{}, Exists: map[string]bool{}, Locking: true, Overlay: copyBuf(rec.Buf)}
			rd.CallSeq = log.Next()
			fu, err := r.lock(ctx, txn, rec, op, rd)
			rd.RetSeq = log.Next()
			rd.ForUpdateTS = fu
			if err != nil {
				cl := Classify(err)
				rd.Err = fmt.Sprintf("%T: %v", err, err)
				rec.Failed = append(rec.Failed, StepRec{op.String(), cl, err.Error()})
				if cl == EDeadlock || cl == EKilled || cl == EOther {
					mustRollback = true
				}
			} else {
				for _, k := range op.Keys {
					e, ok := rec.Buf[k]
					if !ok {
						e = BufEntry{Kind: BufLockOnly}
					}
					if spec.Pessimistic && !e.PessLock {
						if op.LockOnlyIfExists && !rd.Exists[k] {
							// lock-only-if-exists on a missing key takes no lock
							if !ok {
								continue
							}
						} else {
							e.PessLock, e.LockForUpdateTS = true, fu
						}
					}
					rec.Buf[k] = e
				}
			}
			if spec.Pessimistic && (op.ReturnValues || op.CheckExistence) && err == nil {
				rec.Reads = append(rec.Reads, *rd)
			}
		}
		if mustRollback {
			break
		}
	}
	rec.NKeys = len(rec.Buf)
	if r.C.Net.Killed() {
		rec.EndKind = "abandoned"
		return rec
	}
	if r.BeforeCommit != nil {
		r.BeforeCommit(rec, txn)
	}
	rec.Ended = true
	if spec.Commit && !mustRollback {
		rec.EndKind = "commit"
		rec.EndCallSeq = log.Next()
		cctx := ctx
		if r.CommitCtx != nil {
			cctx = r.CommitCtx
		}
		err := txn.Commit(cctx)
		if r.C.Net.Killed() {
			// the driver of a crashed client never sees the answer
			rec.CommitErr = fmt.Sprint(err)
			rec.CommitClass = EKilled
			return rec
		}
		rec.EndRetSeq = log.Next()
		rec.CommitClass = Classify(err)
		if rec.CommitClass == EKilled && r.CommitCtx != nil {
			rec.CommitClass = ECancelled
		}
		if err != nil {
			rec.CommitErr = err.Error()
		} else {
			rec.CommitTS = txn.CommitTS()
		}
		if c := (transaction.TxnProbe{KVTxn: txn}).GetCommitter(); !c.IsNil() {
			rec.IsAsync, rec.Is1PC = c.IsAsyncCommit(), c.IsOnePC()
		}
	} else {
		rec.EndKind = "rollback"
		rec.EndCallSeq = log.Next()
		err := txn.Rollback()
		rec.EndRetSeq = log.Next()
		rec.CommitClass = Classify(err)
		if err != nil {
			rec.CommitErr = err.Error()
		}
	}
	return rec
}

func (r *Runner) val(rec *TxnRec) string {
	r.nextVal++
	return fmt.Sprintf("%d#%d", rec.StartTS, r.nextVal)
}

// lock runs one LockKeys statement the way a SQL layer does: fresh
// for-update ts, retry on write conflict with a newer for-update ts.
func (r *Runner) lock(ctx context.Context, txn *transaction.KVTxn, rec *TxnRec, op Op, rd *Read) (uint64, error) {
	if !rec.Spec.Pessimistic {
		// optimistic: LockKeys only marks the keys (lock-only mutations at commit)
		lc := kv.NewLockCtx(0, kv.LockAlwaysWait, time.Now())
		return 0, txn.LockKeys(ctx, lc, keysOf(op.Keys)...)
	}
	retries := r.PessRetries
	if retries == 0 {
		retries = 3
	}
	var lastErr error
	for attempt := 0; attempt <= retries; attempt++ {
		fu, err := r.lockOnce(ctx, txn, rec, op, rd)
		if err == nil || Classify(err) != EWriteConflict {
			return fu, err
		}
		lastErr = err
	}
	return 0, lastErr
}

// lockOnce is one pessimistic LockKeys call with a fresh for-update ts.
func (r *Runner) lockOnce(ctx context.Context, txn *transaction.KVTxn, rec *TxnRec, op Op, rd *Read) (uint64, error) {
	{
		fu, err := r.C.Store.CurrentTimestamp(oracle.GlobalTxnScope)
		if err != nil {
			return 0, err
		}
		wait := r.LockWaitMS
		if wait == 0 {
			wait = 300
		}
		if op.NoWait {
			wait = kv.LockNoWait
		}
		lc := kv.NewLockCtx(fu, wait, time.Now())
		killed := uint32(0)
		lc.Killed = &killed
		if op.ReturnValues {
			lc.InitReturnValues(len(op.Keys))
		}
		if op.CheckExistence {
			lc.InitCheckExistence(len(op.Keys))
		}
		lc.LockOnlyIfExists = op.LockOnlyIfExists
		err = txn.LockKeys(ctx, lc, keysOf(op.Keys)...)
		if err == nil {
			if rd != nil {
				for k, v := range lc.Values {
					if v.AlreadyLocked {
						continue
					}
					rd.Exists[k] = v.Exists
					if op.ReturnValues && v.Exists {
						rd.Vals[k] = string(v.Value)
					}
				}
				// keys for which nothing was returned are reported as not observed
				obs := rd.Keys[:0:0]
				for _, k := range rd.Keys {
					if v, ok := lc.Values[k]; ok && !v.AlreadyLocked {
						obs = append(obs, k)
					}
				}
				rd.Keys = obs
			}
			return fu, nil
		}
		return fu, err
	}
}

// ---------------------------------------------------------------- generator

// Gen generates transaction programs over a fixed key universe.
type Gen struct {
	Rng  *rand.Rand
	Keys []string
	// probabilities / switches
	Pessimistic, Async, OnePC bool
	MaxOps                    int
	// NoRevScan: generate no reverse scans.  unistore (third-party mock, trusted as given) answers
	// reverse scans wrongly: it ignores the read version (returns the newest version) and returns
	// nothing when the upper bound is empty; reverse scans are covered on mocktikv.
	NoRevScan   bool
	NoScans     bool
	NoLocks     bool
	RollbackPct int
}

func (g *Gen) key() string { return g.Keys[g.Rng.Intn(len(g.Keys))] }

func (g *Gen) keys(n int) []string {
	m := map[string]bool{}
	for i := 0; i < n; i++ {
		m[g.key()] = true
	}
	out := make([]string, 0, len(m))
	for k := range m {
		out = append(out, k)
	}
	sort.Strings(out)
	// duplicates inside a batch are legal for batch get
	if g.Rng.Intn(6) == 0 && len(out) > 0 {
		out = append(out, out[0])
	}
	return out
}

func (g *Gen) bounds() (string, string) {
	// bounds on and off keys, unbounded ends
	pick := func() string {
		switch g.Rng.Intn(5) {
		case 0:
			return ""
		case 1:
			return g.key() + "\x00"
		case 2:
			k := g.key()
			return k[:len(k)-1]
		}
		return g.key()
	}
	lo, hi := pick(), pick()
	if lo != "" && hi != "" && lo > hi {
		lo, hi = hi, lo
	}
	return lo, hi
}

// Next generates one program.
func (g *Gen) Next() Spec {
	s := Spec{Pessimistic: g.Pessimistic, Async: g.Async, OnePC: g.OnePC, Commit: g.Rng.Intn(100) >= g.RollbackPct}
	n := 1 + g.Rng.Intn(max(g.MaxOps, 1))
	for i := 0; i < n; i++ {
		var op Op
		switch x := g.Rng.Intn(100); {
		case x < 14:
			op = Op{Kind: OpGet, Keys: []string{g.key()}}
		case x < 24:
			op = Op{Kind: OpBatchGet, Keys: g.keys(1 + g.Rng.Intn(4))}
		case x < 32 && !g.NoScans:
			lo, hi := g.bounds()
			op = Op{Kind: OpIter, Lo: lo, Hi: hi}
		case x < 38 && !g.NoScans:
			lo, hi := g.bounds()
			op = Op{Kind: OpIterRev, Lo: lo, Hi: hi}
			if g.NoRevScan {
				op.Kind = OpIter
			}
		case x < 62:
			op = Op{Kind: OpSet, Keys: []string{g.key()}}
		case x < 72:
			op = Op{Kind: OpInsert, Keys: []string{g.key()}}
		case x < 82:
			op = Op{Kind: OpDelete, Keys: []string{g.key()}}
		case x < 87:
			op = Op{Kind: OpInsertDelete, Keys: []string{g.key()}}
		default:
			if g.NoLocks {
				op = Op{Kind: OpSet, Keys: []string{g.key()}}
				break
			}
			op = Op{Kind: OpLock, Keys: g.keys(1 + g.Rng.Intn(3))}
			// dedupe: LockKeys is called with distinct keys
			op.Keys = dedupe(op.Keys)
			if g.Pessimistic {
				switch g.Rng.Intn(5) {
				case 0:
					op.ReturnValues = true
				case 1:
					op.CheckExistence = true
				case 2:
					op.ReturnValues, op.LockOnlyIfExists = true, true
					op.Keys = op.Keys[:1]
				}
				op.NoWait = g.Rng.Intn(3) == 0
			}
		}
		s.Ops = append(s.Ops, op)
	}
	return s
}

func dedupe(ss []string) []string {
	m := map[string]bool{}
	var out []string
	for _, s := range ss {
		if !m[s] {
			m[s] = true
			out = append(out, s)
		}
	}
	return out
}
