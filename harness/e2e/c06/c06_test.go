//go:build verif

// Package c06 checks property C06: when a transaction has ended and the client's background work has
// drained, no lock owned by it remains in the store - on failure-free paths (no request or response is
// lost), without waiting for any lock to expire (the virtual clock never moves), region errors and
// topology changes during the clean-up included.
package c06

import (
	"bytes"
	"context"
	"encoding/json"
	"fmt"
	"math/rand"
	"os"
	"sort"
	"strings"
	"sync"
	"sync/atomic"
	"testing"
	"time"

	"github.com/pingcap/failpoint"
	"github.com/pingcap/kvproto/pkg/errorpb"
	"github.com/pingcap/kvproto/pkg/kvrpcpb"
	"github.com/pingcap/kvproto/pkg/metapb"
	"github.com/tikv/client-go/v2/kv"
	"github.com/tikv/client-go/v2/oracle"
	"github.com/tikv/client-go/v2/tikvrpc"
	"github.com/tikv/client-go/v2/txnkv/transaction"
	"github.com/tikv/client-go/v2/util/codec"
	"github.com/tikv/client-go/v2/verifh/vrep"

	"verif/e2e/uni"
	"verif/e2e/work"
)

type config struct {
	backend    string
	pess       bool
	async, one bool
}

func (c config) String() string {
	m := "2pc"
	if c.async {
		m = "async"
	}
	if c.one {
		m += "+1pc"
	}
	p := "opt"
	if c.pess {
		p = "pess"
	}
	return fmt.Sprintf("%s/%s/%s", c.backend, m, p)
}

// lock-wait time of the subject (ms).  Waiting is real time on both mocks (the store sleeps); it only
// shapes the workload, no oracle reads a clock.
const subjWaitMS = 25

// poll bounds of the leftover oracle (numbers of drain+scan rounds, not durations)
const (
	pollRounds     = 40
	pollRoundsLong = 400
)

type env struct {
	r   *vrep.Report
	cfg config
	u   *uni.Universe
	// client stores: subject and contender
	subj, cont *uni.ClientStore
	sp         atomic.Pointer[faultPlan]
	cp         atomic.Pointer[contPlan]
}

func (e *env) close() {
	if e.u != nil {
		e.u.Close()
		e.u = nil
	}
}

func (e *env) fresh(splits []string) error {
	e.close()
	u, err := uni.New(e.cfg.backend, 3)
	if err != nil {
		return err
	}
	for _, k := range splits {
		u.SplitAt([]byte(k))
	}
	s, err := u.NewClient()
	if err != nil {
		return err
	}
	c, err := u.NewClient()
	if err != nil {
		return err
	}
	e.sp.Store(nil)
	e.cp.Store(nil)
	s.Net.SetDecider(func(c *uni.Call) uni.Action {
		if re := keyNotInRegion(u, c); re != nil {
			return uni.Action{Kind: uni.RegionErr, RegErr: re}
		}
		return e.sp.Load().decide(c)
	})
	c.Net.SetDecider(func(c *uni.Call) uni.Action {
		if re := keyNotInRegion(u, c); re != nil {
			return uni.Action{Kind: uni.RegionErr, RegErr: re}
		}
		return e.cp.Load().decide(c)
	})
	e.u, e.subj, e.cont = u, s, c
	return nil
}

// contender is one transaction of the contender client store.
type contender struct {
	kind   obKind
	key    string
	txn    *transaction.KVTxn
	ts     uint64
	g      *gate
	done   chan error // gated Commit / waiting LockKeys
	placed bool
	note   string
	once   sync.Once
	ended  atomic.Bool
	endErr string
}

type stepRes struct {
	Step   string `json:"step"`
	Result string `json:"result"`
	Err    string `json:"err,omitempty"`
	Ob     string `json:"obstacle,omitempty"`
	Mid    string `json:"mid,omitempty"`
}

type exec struct {
	e   *env
	p   *Program
	idx int
	ctx context.Context

	txn  *transaction.KVTxn
	ts   uint64
	held map[string]bool // driver's model of the keys the subject holds (never judged)
	// lastTouch: per key, the last step that concerned it; hist: everything that concerned it, in order
	// (for violation signatures and evidence, never for verdicts)
	lastTouch map[string]string
	hist      map[string][]keyEv
	lastAgg   string
	inAgg     bool
	aggTry    int
	conts     []*contender
	res       []stepRes
	logStart  int
	valN      int
	plan      *faultPlan
	cplan     *contPlan
	layout    string
	openGates int
	stuck     string // a harness watchdog fired: the execution is not judged
	// a call's context was cancelled during the call: the remaining steps are skipped, the transaction is
	// ended by Rollback
	cancelledDuring bool
}

// classify is work.Classify, except that context.Canceled is named for what it is here (no client is ever
// killed in this harness: the error comes from the call's own context).
func classify(err error) work.ErrClass {
	cl := work.Classify(err)
	if cl == work.EKilled {
		return "context-cancelled"
	}
	return cl
}

func keysOf(ss []string) [][]byte {
	out := make([][]byte, len(ss))
	for i, s := range ss {
		out[i] = []byte(s)
	}
	return out
}

func errStr(err error) string {
	if err == nil {
		return ""
	}
	s := fmt.Sprintf("%T: %v", err, err)
	if len(s) > 300 {
		s = s[:300]
	}
	return s
}

func (x *exec) val() []byte {
	x.valN++
	return []byte(fmt.Sprintf("s%d#%d", x.ts, x.valN))
}

func (x *exec) freshTS(c *uni.ClientStore) uint64 {
	ts, err := c.Store.CurrentTimestamp(oracle.GlobalTxnScope)
	if err != nil {
		return 0
	}
	return ts
}

// ---------------------------------------------------------------- contender placement

func (x *exec) beginCont(pess bool) (*transaction.KVTxn, error) {
	txn, err := x.e.cont.Begin()
	if err != nil {
		return nil, err
	}
	txn.SetPessimistic(pess)
	return txn, nil
}

// place puts the obstacle in position.  A contender that could not be placed (e.g. because the subject
// already holds the key) is ended at once.
func (x *exec) place(kind obKind, key string, heldKey string) *contender {
	c := &contender{kind: kind, key: key}
	x.conts = append(x.conts, c)
	if x.held[key] && kind != obDeadlock {
		c.note = "not placed: key held by the subject"
		c.ended.Store(true)
		return c
	}
	switch kind {
	case obPessLock, obDeadlock:
		txn, err := x.beginCont(true)
		if err != nil {
			c.note = "begin: " + errStr(err)
			c.ended.Store(true)
			return c
		}
		c.txn, c.ts = txn, txn.StartTS()
		lc := kv.NewLockCtx(x.freshTS(x.e.cont), kv.LockNoWait, time.Now())
		if err := txn.LockKeys(x.ctx, lc, []byte(key)); err != nil {
			c.note = "not placed: " + errStr(err)
			x.endCont(c, false)
			return c
		}
		c.placed = true
		if kind == obDeadlock {
			// the contender now waits for a key the subject holds
			w := &watch{key: heldKey, ch: make(chan struct{})}
			x.cplan.mu.Lock()
			x.cplan.watch[c.ts] = w
			x.cplan.mu.Unlock()
			c.done = make(chan error, 1)
			go func() {
				lc2 := kv.NewLockCtx(x.freshTS(x.e.cont), 150, time.Now())
				c.done <- txn.LockKeys(x.ctx, lc2, []byte(heldKey))
			}()
			select {
			case <-w.ch:
				// the request is on the wire; give the store a moment to register the waiter
				time.Sleep(10 * time.Millisecond)
			case err := <-c.done:
				c.done <- err
				c.note = "waiter returned early: " + errStr(err)
			case <-time.After(10 * time.Second):
				c.note = "waiter never sent its lock request"
				x.stuck = c.note
			}
		}
	case obPrewriteLock:
		txn, err := x.beginCont(false)
		if err != nil {
			c.note = "begin: " + errStr(err)
			c.ended.Store(true)
			return c
		}
		c.txn, c.ts = txn, txn.StartTS()
		_ = txn.Set([]byte(key), []byte(fmt.Sprintf("c%d", c.ts)))
		c.g = &gate{reached: make(chan struct{}), release: make(chan struct{})}
		x.cplan.mu.Lock()
		x.cplan.gates[c.ts] = c.g
		x.cplan.mu.Unlock()
		c.done = make(chan error, 1)
		x.openGates++
		go func() { c.done <- txn.Commit(x.ctx) }()
		select {
		case <-c.g.reached:
			c.placed = true
		case err := <-c.done:
			// Commit ended before its commit RPC (prewrite failed): no obstacle
			c.note = "not placed: " + errStr(err)
			c.endErr = errStr(err)
			c.ended.Store(true)
			x.openGates--
		case <-time.After(20 * time.Second):
			c.note = "gate not reached"
			x.stuck = c.note
		}
	case obNewerCommit:
		txn, err := x.beginCont(false)
		if err != nil {
			c.note = "begin: " + errStr(err)
			c.ended.Store(true)
			return c
		}
		c.txn, c.ts = txn, txn.StartTS()
		_ = txn.Set([]byte(key), []byte(fmt.Sprintf("c%d", c.ts)))
		err = txn.Commit(x.ctx)
		c.placed = err == nil
		c.endErr = errStr(err)
		c.ended.Store(true)
	}
	return c
}

// endCont ends a contender through the public API.
func (x *exec) endCont(c *contender, commit bool) {
	c.once.Do(func() {
		switch {
		case c.txn == nil || c.ended.Load():
		case c.kind == obPrewriteLock:
			if c.g != nil {
				close(c.g.release)
				select {
				case err := <-c.done:
					c.endErr = errStr(err)
				case <-time.After(60 * time.Second):
					c.endErr = "gated Commit did not return"
					x.stuck = c.endErr
				}
				x.openGates--
			}
		default:
			if c.done != nil {
				// the waiting LockKeys of the deadlock contender ends first (time-out, deadlock or success)
				select {
				case err := <-c.done:
					c.note += " waiter: " + errStr(err)
				case <-time.After(60 * time.Second):
					c.note += " waiter did not return"
					x.stuck = "the contender's waiting LockKeys did not return"
					c.ended.Store(true)
					return
				}
			}
			var err error
			if commit {
				err = c.txn.Commit(x.ctx)
			} else {
				err = c.txn.Rollback()
			}
			c.endErr = errStr(err)
		}
		c.ended.Store(true)
	})
}

// ---------------------------------------------------------------- subject steps

// keyEv is one event in the life of a key inside the subject transaction.
type keyEv struct {
	tok      string
	acquired bool // the driver's model says the subject acquired (or kept) the lock on the key here
}

func (x *exec) touch(ks []string, what string) {
	for _, k := range ks {
		x.lastTouch[k] = what
	}
}

func (x *exec) event(ks []string, tok string, acquired func(k string) bool) {
	for _, k := range ks {
		x.hist[k] = append(x.hist[k], keyEv{tok: tok, acquired: acquired != nil && acquired(k)})
	}
}

// aggEvent records an aggressive-locking transition in the history of every key touched so far.
func (x *exec) aggEvent(tok string) {
	for k := range x.hist {
		x.hist[k] = append(x.hist[k], keyEv{tok: tok})
	}
}

// shapeOf names the scenario shape that left key k locked: where the lock was (last) acquired according
// to the driver's model, and the first thing that happened to the key afterwards.
func (x *exec) shapeOf(k string) string {
	h := x.hist[k]
	acq := -1
	for i, ev := range h {
		if ev.acquired {
			acq = i
		}
	}
	where := "never"
	if acq >= 0 {
		where = "plain"
		if strings.Contains(h[acq].tok, "@agg") {
			where = "agg"
		}
	}
	tail := h[acq+1:]
	// a call whose context is dead afterwards explains more than whatever happened first
	for _, ev := range tail {
		if strings.Contains(ev.tok, "~ctx-cancelled") {
			return fmt.Sprintf("acq=%s/next=%s", where, ev.tok)
		}
	}
	retry := ""
	for _, ev := range tail {
		switch ev.tok {
		case "retry":
			retry = "after-retry:"
			continue
		case "cancel", "done", "implicit-done", "end-in-mode":
			continue
		}
		return fmt.Sprintf("acq=%s/next=%s%s", where, retry, ev.tok)
	}
	if acq < 0 {
		return "acq=never/next=untouched"
	}
	return fmt.Sprintf("acq=%s/next=none", where)
}

func (x *exec) doTopo(t string) {
	if t == "" {
		return
	}
	parts := strings.SplitN(t, ":", 2)
	k := []byte(parts[1])
	switch parts[0] {
	case "split":
		x.e.u.SplitAt(k)
	case "leader":
		x.e.u.MoveLeader(k, x.valN+len(x.res))
	case "merge":
		x.e.u.MergeAt(k)
	}
}

type ctxKeyT string

// callCtx builds the context of one API call according to the discipline k; done must be called right after
// the call returned.  cancelled reports whether the context died during the call.
func (x *exec) callCtx(k ctxKind, call string) (ctx context.Context, done func(), cancelled func() bool) {
	x.e.r.Count("ctx:"+call+":"+k.String(), 1)
	switch k {
	case ctxCancelAfter:
		c, cancel := context.WithCancel(context.Background())
		return c, cancel, func() bool { return false }
	case ctxDeadlineAfter:
		c := context.WithValue(context.Background(), ctxKeyT("verif"), x.idx)
		c, cancel := context.WithTimeout(c, time.Hour)
		return c, cancel, func() bool { return false }
	case ctxCancelDuring:
		c, cancel := context.WithCancel(context.Background())
		var hit atomic.Bool
		at := 1 + int(x.p.Seed+int64(len(x.res)))%2
		x.plan.armCancel(at, func() { hit.Store(true); cancel() })
		return c, func() { x.plan.armCancel(0, nil); cancel() }, hit.Load
	}
	return context.Background(), func() {}, func() bool { return false }
}

// lockCall is one LockKeys call of the subject with the step's options and obstacle.
func (x *exec) lockCall(st *Step, sr *stepRes) error {
	ks := st.Keys
	if !x.p.Pess {
		lc := kv.NewLockCtx(0, kv.LockAlwaysWait, time.Now())
		cctx, cdone, _ := x.callCtx(st.Ctx%ctxCancelDuring, "LockKeys")
		err := x.txn.LockKeys(cctx, lc, keysOf(ks)...)
		cdone()
		x.touch(ks, "lock-only:"+string(classify(err)))
		x.event(ks, "lock-only:"+string(classify(err)), nil)
		return err
	}
	// the for-update ts is taken before the contender acts, so that a version committed by the contender is
	// newer than it
	fu := x.freshTS(x.e.subj)
	var ob *contender
	if st.Ob != obNone {
		kind, heldKey := st.Ob, ""
		if kind == obDeadlock {
			var hs []string
			for k := range x.held {
				if k != st.ObKey {
					hs = append(hs, k)
				}
			}
			sort.Strings(hs)
			if len(hs) == 0 || x.held[st.ObKey] {
				kind = obPessLock
			} else {
				heldKey = hs[int(x.p.Seed+int64(len(x.res)))%len(hs)]
			}
		}
		ob = x.place(kind, st.ObKey, heldKey)
		sr.Ob = fmt.Sprintf("%s(%s) placed=%v %s", kind, st.ObKey, ob.placed, ob.note)
	}
	wait := int64(subjWaitMS)
	if st.NoWait {
		wait = kv.LockNoWait
	}
	lc := kv.NewLockCtx(fu, wait, time.Now())
	if st.RV {
		lc.InitReturnValues(len(ks))
	}
	if st.CE {
		lc.InitCheckExistence(len(ks))
	}
	lc.LockOnlyIfExists = st.LOIE
	before := map[string]bool{}
	for _, k := range ks {
		before[k] = x.held[k]
	}
	wasAgg := x.txn.IsInAggressiveLockingMode()
	cctx, cdone, chit := x.callCtx(st.Ctx, "LockKeys")
	err := x.txn.LockKeys(cctx, lc, keysOf(ks)...)
	cdone()
	if chit() {
		// the context died during the call: whatever it returned, the caller treats the call as failed and
		// ends the transaction by Rollback
		x.cancelledDuring = true
		x.e.r.Count("calls_cancelled_during:LockKeys", 1)
		if err == nil {
			x.e.r.Count("calls_cancelled_during:LockKeys:returned_nil", 1)
		}
	}
	if err != nil && st.Ctx != ctxBackground {
		x.e.r.Count("failed_lock_calls_whose_context_was_cancelled_after_return_or_during", 1)
	}
	cl := classify(err)
	if ob != nil {
		x.endCont(ob, st.ObCommit)
	}
	tag := ""
	if wasAgg {
		tag = fmt.Sprintf(":agg%d", x.aggTry)
	}
	x.touch(ks, fmt.Sprintf("%s:%s%s", st.Kind, cl, tag))
	got := map[string]bool{}
	if err == nil {
		for _, k := range ks {
			if st.LOIE {
				if v, ok := lc.Values[k]; ok && !v.Exists && !v.AlreadyLocked {
					continue
				}
			}
			x.held[k] = true
			got[k] = true
		}
	}
	{
		tok := "lock"
		if st.Kind == kInsert {
			tok = "insert-lock"
		}
		if st.LOIE {
			tok += "{loie}"
		}
		if err != nil && st.Ctx != ctxBackground {
			// one scenario shape whatever the options and the error class: the failed call's context is dead afterwards
			tok = "lock:failed"
		} else {
			tok += ":" + string(cl)
		}
		if wasAgg {
			tok += "@agg"
		}
		if err != nil && st.Ctx != ctxBackground {
			tok += "~ctx-cancelled"
		}
		x.event(ks, tok, func(k string) bool { return got[k] })
	}
	if x.txn.IsInAggressiveLockingMode() != wasAgg {
		// several keys in one call: the client left aggressive locking by itself
		x.lastAgg = "implicit-done"
		x.aggEvent("implicit-done")
	}
	if err == nil {
	} else if !wasAgg {
		// the failed call's keys are released (keys held from earlier calls stay)
	} else {
		for _, k := range ks {
			delete(x.held, k)
		}
	}
	// evidence, never judged: what the store holds in the middle of the transaction
	if x.openGates == 0 {
		if err != nil && st.MidDrain {
			x.e.u.Drain()
			locks, _ := x.e.scanAll()
			still, gone := 0, 0
			for _, k := range ks {
				if before[k] {
					continue
				}
				if hasLock(locks, k, x.ts) {
					still++
				} else {
					gone++
				}
			}
			sr.Mid = fmt.Sprintf("after drain: %d keys of the failed call still locked, %d not locked", still, gone)
			x.e.r.Count("midtxn_failed_call_keys_still_locked_after_drain", still)
			x.e.r.Count("midtxn_failed_call_keys_not_locked_after_drain", gone)
		} else if err == nil && (x.valN+len(x.res))%3 == 0 {
			locks, _ := x.e.scanAll()
			vis, inv := 0, 0
			for _, k := range ks {
				if !x.held[k] {
					continue
				}
				if hasLock(locks, k, x.ts) {
					vis++
				} else {
					inv++
				}
			}
			x.e.r.Count("held_locks_seen_by_the_lock_scan", vis)
			x.e.r.Count("held_locks_not_seen_by_the_lock_scan", inv)
		}
	}
	return err
}

func hasLock(locks []uni.LockRec, key string, ts uint64) bool {
	for _, l := range locks {
		if string(l.Key) == key && l.StartTS == ts {
			return true
		}
	}
	return false
}

func (x *exec) step(st *Step) {
	sr := stepRes{Step: st.String(), Result: "ok"}
	defer func() { x.res = append(x.res, sr) }()
	x.doTopo(st.Topo)
	fail := func(err error) {
		sr.Result = string(classify(err))
		sr.Err = errStr(err)
	}
	txn := x.txn
	switch st.Kind {
	case kAggStart:
		if !x.p.Pess || txn.IsInAggressiveLockingMode() {
			sr.Result = "skipped"
			return
		}
		txn.StartAggressiveLocking()
		x.inAgg, x.aggTry, x.lastAgg = true, 0, "open"
	case kAggRetry:
		if !txn.IsInAggressiveLockingMode() {
			sr.Result = "skipped"
			return
		}
		cctx, cdone, _ := x.callCtx(st.Ctx, "RetryAggressiveLocking")
		txn.RetryAggressiveLocking(cctx)
		cdone()
		x.aggTry++
		if st.Ctx != ctxBackground {
			x.aggEvent("retry~ctx-cancelled")
		} else {
			x.aggEvent("retry")
		}
	case kAggCancel:
		if !txn.IsInAggressiveLockingMode() {
			sr.Result = "skipped"
			return
		}
		cctx, cdone, _ := x.callCtx(st.Ctx, "CancelAggressiveLocking")
		txn.CancelAggressiveLocking(cctx)
		cdone()
		x.lastAgg = "cancel"
		x.aggEvent("cancel")
	case kAggDone:
		if !txn.IsInAggressiveLockingMode() {
			sr.Result = "skipped"
			return
		}
		cctx, cdone, _ := x.callCtx(st.Ctx, "DoneAggressiveLocking")
		txn.DoneAggressiveLocking(cctx)
		cdone()
		x.lastAgg = "done"
		x.aggEvent("done")
	case kLock:
		if err := x.lockCall(st, &sr); err != nil {
			fail(err)
		}
	case kInsert:
		k := []byte(st.Keys[0])
		mb := txn.GetMemBuffer()
		if !x.p.Pess || st.NoLockFirst {
			if err := mb.SetWithFlags(k, x.val(), kv.SetPresumeKeyNotExists); err != nil {
				fail(err)
			}
			x.touch(st.Keys, "insert-unlocked")
			x.event(st.Keys, "insert-unlocked", nil)
			return
		}
		// as a SQL layer does it: buffer the row inside a staging level, lock the key (the request carries
		// "should not exist"), undo the staging level when the lock fails
		h := mb.Staging()
		if err := mb.SetWithFlags(k, x.val(), kv.SetPresumeKeyNotExists, kv.SetNewlyInserted); err != nil {
			mb.Cleanup(h)
			fail(err)
			return
		}
		if err := x.lockCall(st, &sr); err != nil {
			mb.Cleanup(h)
			fail(err)
			return
		}
		mb.Release(h)
	case kPut:
		k := []byte(st.Keys[0])
		var ops []kv.FlagsOp
		if st.MemFlags&1 != 0 {
			ops = append(ops, kv.SetNewlyInserted)
		}
		if st.MemFlags&2 != 0 {
			ops = append(ops, kv.SetPresumeKeyNotExists)
		}
		if st.MemFlags&4 != 0 {
			ops = append(ops, kv.SetAssertNotExist)
		}
		if err := txn.GetMemBuffer().SetWithFlags(k, x.val(), ops...); err != nil {
			fail(err)
			return
		}
		tok := "put"
		if st.MemFlags&1 != 0 {
			tok += "{newly-inserted}"
		}
		if st.ThenDel {
			if err := txn.Delete(k); err != nil {
				fail(err)
				return
			}
			tok += "+delete"
		}
		if x.held[st.Keys[0]] {
			x.e.r.Count("flagged_writes_of_a_locked_key:"+tok, 1)
		} else {
			tok += ":unlocked"
		}
		x.touch(st.Keys, tok)
		x.event(st.Keys, tok, nil)
	case kSet, kDel:
		if x.p.Pess && !st.NoLockFirst && !x.held[st.Keys[0]] {
			if err := x.lockCall(st, &sr); err != nil {
				fail(err)
				return
			}
		}
		var err error
		if st.Kind == kSet {
			err = txn.Set([]byte(st.Keys[0]), x.val())
		} else {
			err = txn.Delete([]byte(st.Keys[0]))
		}
		if err != nil {
			fail(err)
			return
		}
		if !x.held[st.Keys[0]] {
			x.touch(st.Keys, st.Kind+":unlocked-write")
			x.event(st.Keys, "unlocked-write", nil)
		}
	}
}

// ---------------------------------------------------------------- truth

// scanAll: lock scan over the whole key space plus the MVCC record of every key of the universe.
func (e *env) scanAll() ([]uni.LockRec, error) {
	locks, err := e.u.ScanLocksTruth()
	if err != nil {
		return nil, err
	}
	tr, err := e.u.ReadTruth(keysOf(keys))
	if err != nil {
		return locks, err
	}
	for _, k := range keys {
		if kt := tr.Keys[k]; kt != nil && kt.Lock != nil && !hasLock(locks, k, kt.Lock.StartTS) {
			locks = append(locks, *kt.Lock)
		}
	}
	return locks, nil
}

// pollLeftover polls (drain, scan) until no lock of the given transactions is left, at most rounds times.
func (e *env) pollLeftover(owners map[uint64]string, rounds int) (left []uni.LockRec, inconc string, polls int) {
	for i := 0; i < rounds; i++ {
		polls = i + 1
		if !e.u.Drain() {
			return nil, "background work did not drain (watchdog)", polls
		}
		locks, err := e.scanAll()
		if err != nil {
			return nil, "truth: " + err.Error(), polls
		}
		left = left[:0]
		for _, l := range locks {
			if _, ok := owners[l.StartTS]; ok {
				left = append(left, l)
			}
		}
		if len(left) == 0 {
			return nil, "", polls
		}
		time.Sleep(time.Duration(min(i+1, 5)) * time.Millisecond)
	}
	return left, "", polls
}

func (e *env) layout() string {
	var b []string
	for _, k := range append([]string{""}, splitPoints...) {
		reg, leader, _, _ := e.u.Cluster.GetRegionByKey(lookupKey(e.u, k))
		if reg == nil {
			continue
		}
		s := fmt.Sprintf("%q->r%d", k, reg.Id)
		if leader != nil {
			s += fmt.Sprintf("@s%d", leader.StoreId)
		}
		b = append(b, s)
	}
	return strings.Join(b, " ")
}

// ---------------------------------------------------------------- one program

type outcome struct {
	reusable bool
}

func (e *env) runProgram(idx int, p *Program) (out outcome) {
	r, u, cfg := e.r, e.u, e.cfg
	ctx := context.Background()
	x := &exec{e: e, p: p, idx: idx, ctx: ctx, held: map[string]bool{}, lastTouch: map[string]string{}, hist: map[string][]keyEv{}, lastAgg: "none"}
	x.layout = e.layout()

	// world state: which keys have a committed value
	{
		st, err := u.TruthStore().Begin()
		if err != nil {
			r.Inconc("%s #%d: setup begin: %v", cfg, idx, err)
			return
		}
		for _, k := range keys {
			if p.Exists[k] {
				_ = st.Set([]byte(k), []byte("init"))
			} else {
				_ = st.Delete([]byte(k))
			}
		}
		if err := st.Commit(ctx); err != nil {
			r.Inconc("%s #%d: setup commit: %v", cfg, idx, err)
			return
		}
	}
	x.logStart = u.Log.Len()
	x.plan = &faultPlan{u: u, mock: cfg.backend == uni.Mock, seed: p.Seed, cleanupPct: p.CleanupErrPct, otherPct: p.OtherErrPct, topo: p.TopoPct,
		maxInjected: 16, maxTopo: 3, occ: map[string]int{}, inj: map[string]int{}, perCmd: map[tikvrpc.CmdType]int{}}
	x.cplan = &contPlan{gates: map[uint64]*gate{}, watch: map[uint64]*watch{},
		faults: &faultPlan{u: u, mock: cfg.backend == uni.Mock, seed: p.Seed ^ 0x5151, cleanupPct: p.CleanupErrPct / 3, maxInjected: 4, occ: map[string]int{}, inj: map[string]int{}, perCmd: map[tikvrpc.CmdType]int{}}}
	e.cp.Store(x.cplan)

	txn, err := e.subj.Begin()
	if err != nil {
		r.Inconc("%s #%d: begin: %v", cfg, idx, err)
		return
	}
	x.txn, x.ts = txn, txn.StartTS()
	ts := x.ts
	x.plan.only = func(t uint64) bool { return t == ts }
	e.sp.Store(x.plan)
	txn.SetPessimistic(p.Pess)
	txn.SetEnableAsyncCommit(cfg.async)
	txn.SetEnable1PC(cfg.one)

	panicked := ""
	func() {
		defer func() {
			if pv := recover(); pv != nil {
				panicked = fmt.Sprint(pv)
			}
		}()
		for i := range p.Steps {
			if x.cancelledDuring {
				x.res = append(x.res, stepRes{Step: p.Steps[i].String(), Result: "skipped"})
				continue
			}
			x.step(&p.Steps[i])
		}
		if txn.IsInAggressiveLockingMode() {
			if p.EndInAgg && !x.cancelledDuring {
				// the current attempt has locked nothing: Commit / Rollback cancel the stage themselves
				x.lastAgg = "end-in-mode"
				x.aggEvent("end-in-mode")
			} else {
				txn.CancelAggressiveLocking(ctx)
				x.lastAgg = "cancel"
			}
		}
	}()
	// every obstacle of the steps has been released by now
	for _, c := range x.conts {
		x.endCont(c, false)
	}

	endKind, endClass, endErr := "rollback", work.ENone, ""
	var isAsync, is1PC bool
	func() {
		defer func() {
			if pv := recover(); pv != nil {
				panicked += " / end: " + fmt.Sprint(pv)
			}
		}()
		if panicked != "" {
			_ = txn.Rollback()
			return
		}
		if !p.Commit || x.cancelledDuring {
			err := txn.Rollback()
			endClass, endErr = classify(err), errStr(err)
			return
		}
		endKind = "commit"
		var endOb *contender
		if p.EndOb != obNone {
			endOb = x.place(p.EndOb, p.EndObKey, "")
			if endOb.placed && !endOb.ended.Load() {
				x.plan.mu.Lock()
				x.plan.gateKey, x.plan.gateAt = p.EndObKey, 2
				x.plan.gateFn = func() { x.endCont(endOb, p.EndObCommit) }
				x.plan.mu.Unlock()
			}
		}
		cctx, cdone, chit := x.callCtx(p.EndCtx, "Commit")
		err := txn.Commit(cctx)
		cdone()
		endClass, endErr = classify(err), errStr(err)
		if endOb != nil {
			x.endCont(endOb, p.EndObCommit)
		}
		if chit() {
			// cancelled during Commit: the caller ends the transaction by Rollback (a no-op error when Commit
			// had already invalidated it)
			x.e.r.Count("calls_cancelled_during:Commit", 1)
			endKind = "commit-cancelled-during+rollback"
			_ = txn.Rollback()
		}
		if err != nil && endClass != work.EUndetermined && p.EndCtx != ctxBackground {
			x.e.r.Count("commit_failed_definitely_under_a_context_cancelled_after_return_or_during", 1)
		}
		if c := (transaction.TxnProbe{KVTxn: txn}).GetCommitter(); !c.IsNil() {
			isAsync, is1PC = c.IsAsyncCommit(), c.IsOnePC()
		}
	}()
	// the fault plans stay installed: the background work (secondary commits, clean-up) is subject to them too

	// ---- oracle
	owners := map[uint64]string{x.ts: "subject"}
	for _, c := range x.conts {
		if c.ts != 0 && c.ended.Load() {
			owners[c.ts] = "contender"
		}
	}
	var calls []uni.Call
	detail := func(left []uni.LockRec) map[string]any {
		calls = u.Log.CallsFrom(x.logStart)
		var ls []string
		for _, l := range left {
			ls = append(ls, fmt.Sprintf("{key=%q owner=%s start_ts=%d type=%s for_update_ts=%d primary=%q ttl=%d}", l.Key, owners[l.StartTS], l.StartTS, l.Type, l.ForUpdateTS, l.Primary, l.TTL))
		}
		var cs []map[string]any
		for _, c := range x.conts {
			cs = append(cs, map[string]any{"kind": c.kind.String(), "key": c.key, "start_ts": c.ts, "placed": c.placed, "note": c.note, "end_err": c.endErr})
		}
		var win []string
		for _, c := range calls {
			if _, ok := owners[c.StartTS]; !ok || len(win) >= 160 {
				continue
			}
			win = append(win, fmt.Sprintf("#%d..%d c%d %s ts=%d region=%d ver=%d %s err=%q regErr=%v :: %.260v => %.200v", c.Seq, c.RetSeq, c.Client, c.Cmd, c.StartTS, c.RegionID, c.RegionVer, c.Action, c.Err, c.RegionErr, c.Req, c.Resp))
		}
		var notes []string
		for _, n := range u.Log.Notes() {
			if len(calls) > 0 && n.Seq >= calls[0].Seq {
				notes = append(notes, fmt.Sprintf("#%d %s", n.Seq, n.Text))
			}
		}
		return map[string]any{"config": cfg.String(), "seed": vrep.Seed(), "program_index": idx, "program_seed": p.Seed, "program": p.String(),
			"subject_start_ts": x.ts, "steps": x.res, "end": endKind, "end_class": endClass, "end_err": endErr, "async": isAsync, "one_pc": is1PC,
			"leftover": ls, "contenders": cs, "layout_at_start": x.layout, "rpcs": win, "notes": notes, "panic": panicked,
			"subject_cleanup_rpcs": x.cleanupRPCs(calls), "subject_rpcs_answered_key_not_in_region": x.misroutedRPCs(calls)}
	}
	if panicked != "" {
		r.Violate("client-panic/"+cfg.backend+"/"+firstWords(panicked, 6), fmt.Sprintf("%s #%d: the client panicked running %s: %s", cfg, idx, p, panicked), detail(nil))
	}
	if x.stuck != "" {
		r.Inconc("%s #%d: harness watchdog: %s (program: %s)", cfg, idx, x.stuck, p)
		return
	}
	r.Eval(1)
	if endClass == work.EUndetermined {
		// not a definite answer: the statement does not cover it
		r.Count("end_undetermined", 1)
		return
	}
	left, inconc, polls := e.pollLeftover(owners, pollRounds)
	if inconc != "" {
		if x.cleanupUnbounded(endKind, detail) {
			return
		}
		r.Inconc("%s #%d: %s", cfg, idx, inconc)
		return
	}
	r.Count("oracle_polls", polls)
	if polls > 1 {
		r.Count("programs_that_needed_more_than_one_poll", 1)
	}
	if len(left) > 0 {
		// re-examine with a ten-fold bound; only a lock that survives it with nothing pending is a leftover
		left, inconc, _ = e.pollLeftover(owners, pollRoundsLong)
		if inconc != "" {
			r.Inconc("%s #%d: %s", cfg, idx, inconc)
			return
		}
		if len(left) > 0 && !u.Quiet() {
			r.Inconc("%s #%d: locks left but RPCs still pending", cfg, idx)
			return
		}
	}
	if len(left) > 0 && endClass == work.ENone && strings.HasPrefix(endKind, "commit") {
		// Back-end anomaly, not a failure-free path: the store acknowledged the prewrite of a key and later
		// answered the commit of that key with a key error ("lock not found") although nobody but the subject
		// touched it.  unistore (trusted as given) does this: its prewrite of a pessimistic transaction returns
		// OK without writing anything ("duplicate command") when a SKIP_PESSIMISTIC_CHECK mutation meets a
		// pessimistic lock of the same transaction - here one whose asynchronous rollback is still on its way -
		// where TiKV overwrites that lock.  The client then stops committing secondaries after the key error.
		for _, c := range u.Log.CallsFrom(x.logStart) {
			if c.StartTS != x.ts || c.Cmd != tikvrpc.CmdCommit {
				continue
			}
			if cr, ok := c.Resp.(*kvrpcpb.CommitResponse); ok && cr != nil && cr.Error != nil && cr.Error.CommitTsExpired == nil {
				r.Count("not_judged:store_answered_the_commit_of_a_prewritten_key_with_a_key_error", 1)
				return
			}
		}
	}
	if len(left) > 0 {
		endTag := endKind
		if strings.HasPrefix(endKind, "commit") {
			endTag = endKind + ":" + string(endClass)
		}
		seen := map[string]bool{}
		for _, l := range left {
			owner := owners[l.StartTS]
			lt := "prewrite"
			if l.Type == kvrpcpb.Op_PessimisticLock {
				lt = "pessimistic"
			}
			var sig string
			if owner == "subject" {
				mode := "opt"
				if p.Pess {
					mode = "pess"
				}
				shape := x.shapeOf(string(l.Key))
				sig = fmt.Sprintf("leftover-lock/subject/%s/%s/%s", mode, lt, shape)
				if strings.HasSuffix(shape, "next=none") || strings.HasSuffix(shape, "next=untouched") {
					// nothing happened to the key after it was locked: the end of the transaction is what failed
					sig += fmt.Sprintf("/agg=%s/end=%s", x.lastAgg, endTag)
				}
			} else {
				sig = fmt.Sprintf("leftover-lock/contender/%s", lt)
			}
			if seen[sig] {
				continue
			}
			seen[sig] = true
			r.Violate(sig, fmt.Sprintf("%s #%d: after %s returned (%s) and the background work drained, key %q still carries a %s lock of the %s (start_ts %d); program: %s",
				cfg, idx, endKind, endClass, l.Key, lt, owner, l.StartTS, p), detail(left))
		}
		return // the universe is not reused: the leftover would block later programs
	}
	out.reusable = true

	// ---- evidence
	calls = u.Log.CallsFrom(x.logStart)
	r.Count("programs", 1)
	r.Count("programs:"+cfg.String(), 1)
	if strings.HasPrefix(endKind, "commit") {
		r.Count("end:commit:"+string(endClass), 1)
		if endClass == work.ENone {
			switch {
			case is1PC:
				r.Count("committed_1pc", 1)
			case isAsync:
				r.Count("committed_async", 1)
			default:
				r.Count("committed_2pc", 1)
			}
		} else {
			r.Count("failed_steps", 1)
			r.Count("commit_failed_definitely", 1)
			mode := "opt"
			if p.Pess {
				mode = "pess"
			}
			r.Count("commit_failed_definitely:"+mode, 1)
			if is1PC {
				r.Count("commit_failed_definitely:while_1pc:"+mode, 1)
			} else if isAsync {
				r.Count("commit_failed_definitely:while_async:"+mode, 1)
			}
		}
	} else {
		r.Count("end:rollback", 1)
	}
	var shape []string
	aggSeq := false
	for i, sr := range x.res {
		st := p.Steps[i]
		shape = append(shape, st.Kind+optTag(st)+"!"+st.Ob.String()+"="+sr.Result)
		if sr.Result != "ok" && sr.Result != "skipped" {
			r.Count("failed_steps", 1)
			r.Count("step_failed:"+sr.Result, 1)
			if x.p.Pess && strings.Contains(x.lastTouch[st.Keys[0]], ":agg") {
				r.Count("failed_lock_calls_in_aggressive_locking", 1)
			}
		}
		switch st.Kind {
		case kAggStart:
			if sr.Result == "ok" {
				aggSeq = true
			}
		case kAggRetry, kAggCancel, kAggDone:
			if sr.Result == "ok" {
				r.Count("aggressive:"+st.Kind, 1)
			}
		}
		if st.Ob != obNone && strings.Contains(sr.Ob, "placed=true") {
			r.Count("obstacle_placed:"+st.Ob.String(), 1)
		}
	}
	if aggSeq {
		r.Count("aggressive_locking_sequences", 1)
	}
	if p.EndOb != obNone {
		r.Count("obstacle_during_commit:"+p.EndOb.String(), 1)
	}
	r.Distinct(fmt.Sprintf("%s|%s|%s~%d:%s", cfg, strings.Join(shape, ","), endKind, p.EndCtx, endClass))
	cleanupErr := 0
	for _, c := range calls {
		own, ok := owners[c.StartTS]
		if !ok {
			continue
		}
		name := ""
		switch c.Cmd {
		case tikvrpc.CmdPessimisticRollback:
			name = "PessimisticRollback"
		case tikvrpc.CmdBatchRollback:
			name = "BatchRollback"
		case tikvrpc.CmdCommit:
			if cr, ok := c.Req.(*kvrpcpb.CommitRequest); ok && !hasKey(cr.Keys, string(cr.PrimaryKey)) {
				name = "CommitSecondary"
			} else {
				name = "CommitPrimary"
			}
		case tikvrpc.CmdPessimisticLock:
			name = "PessimisticLock"
		case tikvrpc.CmdPrewrite:
			name = "Prewrite"
		default:
			continue
		}
		r.Count("rpc:"+own+":"+name, 1)
		if c.RegionErr != nil {
			kind := "real"
			if c.RegionErr.GetKeyNotInRegion() != nil {
				// never injected: answered (by the store, or by the harness in the store's place) because the
				// request carried a key outside the region it was addressed to
				kind = "key-not-in-region"
			} else if c.Action == "region-err" {
				kind = "injected"
			}
			r.Count("rpc_region_error:"+own+":"+name+":"+kind, 1)
			if own == "subject" && (name == "PessimisticRollback" || name == "BatchRollback" || name == "CommitSecondary") {
				cleanupErr++
				r.Count("cleanup_rpcs_answered_with_region_error", 1)
				r.Count("cleanup_rpcs_answered_with_region_error:"+name, 1)
			}
		}
	}
	if cleanupErr > 0 {
		r.Count("programs_with_cleanup_under_region_error", 1)
	}
	if p.Family != "" {
		// coverage of the family: which regions did the subject's pessimistic-rollback requests reach (answered
		// without a region error), and how many keys did the aggressive-locking steps release
		r.Count("family:"+p.Family+":programs", 1)
		r.Count("family:"+p.Family+":programs:"+cfg.backend, 1)
		r.Count("family:"+p.Family+":end="+p.Variant, 1)
		if p.EndInAgg && !x.cancelledDuring {
			r.Count("family:"+p.Family+":"+endKind+"_called_while_in_aggressive_locking_mode", 1)
		}
		regs, rkeys := map[uint64]bool{}, map[string]bool{}
		for _, c := range calls {
			if c.StartTS != x.ts || c.Cmd != tikvrpc.CmdPessimisticRollback || c.RegionErr != nil || c.Err != "" {
				continue
			}
			regs[c.RegionID] = true
			for _, k := range reqKeys(c.Req) {
				rkeys[string(k)] = true
			}
		}
		if len(regs) >= 2 {
			r.Count("family:"+p.Family+":programs_whose_pessimistic_rollbacks_released_keys_in_2+_regions", 1)
		}
		if len(regs) >= 3 {
			r.Count("family:"+p.Family+":programs_whose_pessimistic_rollbacks_released_keys_in_3+_regions", 1)
		}
		r.Count("family:"+p.Family+":keys_released_by_pessimistic_rollback", len(rkeys))
		if n := x.misroutedRPCs(calls); n > 0 {
			r.Count("family:"+p.Family+":rpcs_answered_key_not_in_region", n)
		}
	}
	if r.SampleN() < 5 && len(x.res) > 2 && (cleanupErr > 0 || idx%7 == 3) {
		r.Sample(map[string]any{"config": cfg.String(), "program": p.String(), "steps": x.res, "end": endKind + ":" + string(endClass), "cleanup_rpcs_under_region_error": cleanupErr})
	}
	return
}

func optTag(s Step) string {
	t := ""
	if s.RV {
		t += "r"
	}
	if s.CE {
		t += "c"
	}
	if s.LOIE {
		t += "l"
	}
	if s.NoWait {
		t += "n"
	}
	if s.NoLockFirst {
		t += "u"
	}
	if len(s.Keys) > 1 {
		t += fmt.Sprint(len(s.Keys))
	}
	if s.Ctx != ctxBackground {
		t += "~" + fmt.Sprint(int(s.Ctx))
	}
	if s.Kind == kPut {
		t += fmt.Sprintf("f%d", s.MemFlags)
		if s.ThenDel {
			t += "d"
		}
	}
	return t
}

func firstWords(s string, n int) string {
	f := strings.Fields(s)
	if len(f) > n {
		f = f[:n]
	}
	return strings.Join(f, "_")
}

// runConfig runs n seeded programs of one configuration.
func runConfig(t *testing.T, r *vrep.Report, cfg config, n int, stream int64) {
	e := &env{r: r, cfg: cfg}
	defer e.close()
	g := &gen{rng: rand.New(rand.NewSource(vrep.Seed()*104729 + stream)), backend: cfg.backend, mock: cfg.backend == uni.Mock}
	only := replayTarget() // "<config>#<index>": run only that program (the generator is still stepped)
	// the family programs (pessimistic configurations only) follow the n general ones, from a generator stream
	// of their own: indices n .. n+m-1
	m := 0
	if cfg.pess {
		m = vrep.Pick(70, 700)
	}
	g2 := &gen{rng: rand.New(rand.NewSource(vrep.Seed()*130003 + stream*977 + 5)), backend: cfg.backend, mock: cfg.backend == uni.Mock}
	for i := 0; i < n+m; i++ {
		var p *Program
		if i < n {
			p = g.Next(vrep.Seed()*1000003+stream*4099+int64(i), cfg.pess)
		} else {
			p = g2.aggMultiRegion(vrep.Seed()*1000003 + stream*4099 + int64(i))
		}
		if only != "" && only != fmt.Sprintf("%s#%d", cfg, i) {
			continue
		}
		if r.NViolations() >= 12 {
			return // enough witnesses; every further leftover costs a long re-check
		}
		// every program runs in its own universe: it depends on nothing but its descriptor
		if err := e.fresh(p.Splits); err != nil {
			r.Inconc("%s: universe: %v", cfg, err)
			return
		}
		if os.Getenv("VERIF_C06_VERBOSE") != "" {
			t.Logf("%s #%d: %s", cfg, i, p)
		}
		done := make(chan outcome, 1)
		go func() { done <- e.runProgram(i, p) }()
		select {
		case <-done:
		case <-time.After(3 * time.Minute): // watchdog only
			r.Inconc("%s #%d: program did not finish (watchdog): %s", cfg, i, p)
			e.u = nil // abandoned, not closed: the program may still be running
			return
		}
		for _, bp := range e.uPanics() {
			r.Violate("backend-panic:"+bp.Msg, cfg.String()+": the store panicked serving "+bp.Req, map[string]any{"config": cfg.String(), "program": p.String(), "panic": bp})
		}
	}
}

// replayTarget names the single program to run: from VERIF_C06_PROGRAM ("<config>#<index>") or from the
// witness file of a violation (vcheck.py --replay, which also restores the seed).
func replayTarget() string {
	if s := os.Getenv("VERIF_C06_PROGRAM"); s != "" {
		return s
	}
	if path := vrep.ReplayPath(); path != "" {
		b, err := os.ReadFile(path)
		if err != nil {
			return ""
		}
		var w struct {
			Detail struct {
				Config string `json:"config"`
				Index  int    `json:"program_index"`
			} `json:"detail"`
		}
		if json.Unmarshal(b, &w) == nil && w.Detail.Config != "" {
			return fmt.Sprintf("%s#%d", w.Detail.Config, w.Detail.Index)
		}
	}
	return ""
}

func (e *env) uPanics() []uni.BackendPanic {
	if e.u == nil {
		return nil
	}
	return e.u.Panics()
}

func TestVerifC06(t *testing.T) {
	r := vrep.New("C06", "c06-e2e", "seeded programs of one subject transaction (set/delete/insert/lock-keys with every option combination over 1-3 keys in several regions, aggressive-locking start/lock/retry/lock/cancel|done sequences, commit/rollback; optimistic and pessimistic; 2PC on mocktikv(3 stores), 2PC/async/1PC on unistore) against a contender transaction of another client store that makes steps fail (holds a pessimistic or prewrite lock, committed a newer version, waits in the opposite order, key exists), with region errors (EpochNotMatch/NotLeader/ServerIsBusy) and splits/leader moves between and inside RPCs, clean-up RPCs included; plus the family 'aggressive locking over several regions' (4-8 regions; 2-6 keys locked one by one in fair-locking mode in any order; cancel / done / retry with another key set so that >= 2 locks become redundant / second retry / Commit or Rollback while still in the mode); a write-path request addressed to a region (current epoch) that does not contain one of its keys is answered KeyNotInRegion as TiKV answers it (mocktikv would panic, unistore would execute some of them); no request or response lost, virtual clock never advanced. Oracle: after Commit/Rollback returned and the background work drained, the lock scan over the whole key space (plus MvccGetByKey of every key) shows no lock of the subject nor of an ended contender. A background clean-up that never drains is decided by a logical bound on the clean-up requests sent (keys x steps x (1 + injected region errors + topology changes)), not by the watchdog. distinct = distinct (config, per-step kind/options/obstacle/result, end result)")
	defer r.Finish(t)
	_ = failpoint.Enable("tikvclient/fastBackoffBySkipSleep", "return")
	defer failpoint.Disable("tikvclient/fastBackoffBySkipSleep")
	var cfgs []config
	for _, be := range []string{uni.Mock, uni.Uni} {
		for _, pess := range []bool{true, false} {
			modes := [][2]bool{{false, false}}
			if be == uni.Uni {
				modes = append(modes, [2]bool{true, false}, [2]bool{true, true})
			}
			for _, m := range modes {
				cfgs = append(cfgs, config{backend: be, pess: pess, async: m[0], one: m[1]})
			}
		}
	}
	for i, c := range cfgs {
		if only := os.Getenv("VERIF_C06_ONLY"); only != "" && !strings.Contains(c.String(), only) {
			continue
		}
		if tgt := replayTarget(); tgt != "" && !strings.HasPrefix(tgt, c.String()+"#") {
			continue
		}
		n := vrep.Pick(70, 600)
		if c.pess {
			n = vrep.Pick(110, 1200)
		}
		if c.backend == uni.Mock {
			n = n * 3 / 2
		}
		t0 := time.Now()
		runConfig(t, r, c, n, int64(i+1))
		t.Logf("config %s: %d programs took %v, violations so far %d", c, n, time.Since(t0), r.NViolations())
		r.Flush()
	}
	if replayTarget() != "" {
		return // a single program: no coverage floors
	}
	r.Floor("programs", 300)
	r.Floor("failed_steps", 150)
	r.Floor("step_failed:write-conflict", 10)
	r.Floor("step_failed:key-exists", 10)
	r.Floor("step_failed:lock-wait-timeout", 5)
	r.Floor("step_failed:lock-nowait-failed", 5)
	r.Floor("commit_failed_definitely", 10)
	r.Floor("aggressive_locking_sequences", 40)
	r.Floor("aggressive:agg-retry", 20)
	r.Floor("cleanup_rpcs_answered_with_region_error", 400)
	r.Floor("cleanup_rpcs_answered_with_region_error:PessimisticRollback", 200)
	r.Floor("cleanup_rpcs_answered_with_region_error:BatchRollback", 60)
	r.Floor("cleanup_rpcs_answered_with_region_error:CommitSecondary", 40)
	r.Floor("held_locks_seen_by_the_lock_scan", 30)
	r.Floor("committed_2pc", 50)
	r.Floor("committed_async", 15)
	r.Floor("committed_1pc", 8)
	r.Floor("commit_failed_definitely_under_a_context_cancelled_after_return_or_during", 60)
	r.Floor("failed_lock_calls_whose_context_was_cancelled_after_return_or_during", 150)
	r.Floor("ctx:RetryAggressiveLocking:cancel-after", 40)
	r.Floor("calls_cancelled_during:LockKeys", 10)
	r.Floor("flagged_writes_of_a_locked_key:put{newly-inserted}+delete", 25)
	r.Floor("flagged_writes_of_a_locked_key:put{newly-inserted}", 25)
	// family "aggressive locking over several regions": a run that did not exercise it is not "held"
	fam := "family:" + famAggMR + ":"
	r.Floor(fam+"programs", 180)
	r.Floor(fam+"programs:"+uni.Mock, 40)
	r.Floor(fam+"programs:"+uni.Uni, 120)
	r.Floor(fam+"programs_whose_pessimistic_rollbacks_released_keys_in_2+_regions", 120)
	r.Floor(fam+"programs_whose_pessimistic_rollbacks_released_keys_in_3+_regions", 50)
	for _, v := range []string{"cancel", "done", "retry+cancel", "retry+done", "retry+retry", "retry+end-in-mode"} {
		r.Floor(fam+"end="+v, 8)
	}
	r.Floor(fam+"commit_called_while_in_aggressive_locking_mode", 3)
	r.Floor(fam+"rollback_called_while_in_aggressive_locking_mode", 3)
}

// ---------------------------------------------------------------- routing of write-path requests

// keyNotInRegion answers a write-path request (pessimistic lock, prewrite, commit, batch rollback, pessimistic
// rollback) the way TiKV answers it when the request is addressed to a region whose epoch the client knows
// exactly (version and conf version are current) and yet carries a key outside that region's range: with the
// region error KeyNotInRegion, before anything is executed.  The mock stores do not: mocktikv panics in most
// handlers ("key not in region"), unistore does not look at the keys of some commands (PessimisticRollback among
// them) and executes the request.  Nothing is lost: the client gets a definite answer and is expected to route
// the key again.  A request whose epoch is stale is passed on (the store answers EpochNotMatch itself).
func keyNotInRegion(u *uni.Universe, c *uni.Call) *errorpb.Error {
	if c.RegionID == 0 {
		return nil
	}
	switch c.Cmd {
	case tikvrpc.CmdPessimisticLock, tikvrpc.CmdPrewrite, tikvrpc.CmdCommit, tikvrpc.CmdBatchRollback, tikvrpc.CmdPessimisticRollback:
	default:
		return nil
	}
	ks := reqKeys(c.Req)
	if len(ks) == 0 {
		return nil
	}
	// the current meta of the addressed region: every region starts at "" or at a key of the universe; each
	// look-up is atomic, and the verdict is taken from one of them alone
	var meta *metapb.Region
	cands := make([]string, 0, 2+len(keys)+len(splitPoints))
	cands = append(cands, string(ks[0]), "")
	cands = append(cands, splitPoints...)
	cands = append(cands, keys...)
	for _, k := range cands {
		if reg, _, _, _ := u.Cluster.GetRegionByKey(lookupKey(u, k)); reg != nil && reg.Id == c.RegionID {
			meta = reg
			break
		}
	}
	if meta == nil || meta.GetRegionEpoch().GetVersion() != c.RegionVer || meta.GetRegionEpoch().GetConfVer() != c.RegionConf {
		return nil
	}
	for _, k := range ks {
		enc := codec.EncodeBytes(nil, k)
		if bytes.Compare(enc, meta.StartKey) < 0 || (len(meta.EndKey) > 0 && bytes.Compare(enc, meta.EndKey) >= 0) {
			return &errorpb.Error{
				Message:        fmt.Sprintf("key %q is not in region %d (verif: answered as TiKV answers)", k, meta.Id),
				KeyNotInRegion: &errorpb.KeyNotInRegion{Key: k, RegionId: meta.Id, StartKey: meta.StartKey, EndKey: meta.EndKey},
			}
		}
	}
	return nil
}

// cleanupRPCs counts the clean-up requests (pessimistic rollback, batch rollback, commit) of the subject.
func (x *exec) cleanupRPCs(calls []uni.Call) int {
	n := 0
	for _, c := range calls {
		if c.StartTS == x.ts && isCleanupCmd(c.Cmd) {
			n++
		}
	}
	return n
}

// misroutedRPCs counts the requests of the subject that were answered KeyNotInRegion.
func (x *exec) misroutedRPCs(calls []uni.Call) int {
	n := 0
	for _, c := range calls {
		if c.StartTS == x.ts && c.RegionErr.GetKeyNotInRegion() != nil {
			n++
		}
	}
	return n
}

// cleanupUnbounded decides the case "the background work does not drain" by a logical bound instead of the
// watchdog's clock: every clean-up action of the subject (at most one per step, plus the end of the
// transaction) needs at most one request per key, and has a reason to send its requests again only after a region
// error the harness injected or a topology change (both counted from the log).  A subject that has sent more
// clean-up requests than that many rounds allow while locks of it are still in the store keeps retrying a
// clean-up that does not converge: the locks are left behind for as long as it goes on, although no request was
// lost.  Returns false (the caller reports the watchdog as inconclusive) when the bound is not exceeded.
func (x *exec) cleanupUnbounded(endKind string, detail func([]uni.LockRec) map[string]any) bool {
	u := x.e.u
	calls := u.Log.CallsFrom(x.logStart)
	injected := 0
	for _, c := range calls {
		if c.Action == "region-err" && c.RegionErr.GetKeyNotInRegion() == nil {
			injected++
		}
	}
	topo := 0
	for _, n := range u.Log.Notes() {
		if len(calls) > 0 && n.Seq >= calls[0].Seq {
			topo++
		}
	}
	bound := len(keys) * (len(x.p.Steps) + 2) * (1 + injected + topo)
	sent := x.cleanupRPCs(calls)
	if sent <= bound {
		return false
	}
	locks, err := x.e.scanAll()
	if err != nil {
		return false
	}
	var left []uni.LockRec
	for _, l := range locks {
		if l.StartTS == x.ts {
			left = append(left, l)
		}
	}
	if len(left) == 0 {
		return false
	}
	x.e.r.Violate("cleanup-does-not-converge/subject/"+endKind,
		fmt.Sprintf("%s #%d: after %s returned the subject (start_ts %d) has sent %d clean-up requests (%d of them answered KeyNotInRegion) where %d keys, %d steps, %d injected region errors and %d topology changes explain at most %d, the background work still has not drained and %d locks of the subject are in the store; program: %s",
			x.e.cfg, x.idx, endKind, x.ts, sent, x.misroutedRPCs(calls), len(keys), len(x.p.Steps), injected, topo, bound, len(left), x.p), detail(left))
	return true
}
