//go:build verif

package c06

import (
	"bytes"
	"fmt"
	"hash/fnv"
	"sync"
	"sync/atomic"

	"github.com/pingcap/kvproto/pkg/errorpb"
	"github.com/pingcap/kvproto/pkg/kvrpcpb"
	"github.com/tikv/client-go/v2/tikvrpc"
	"github.com/tikv/client-go/v2/util/codec"

	"verif/e2e/uni"
)

// reqKeys returns the keys a write-path request touches (in request order).
func reqKeys(m any) [][]byte {
	switch r := m.(type) {
	case *kvrpcpb.PessimisticLockRequest:
		out := make([][]byte, 0, len(r.Mutations))
		for _, mu := range r.Mutations {
			out = append(out, mu.Key)
		}
		return out
	case *kvrpcpb.PrewriteRequest:
		out := make([][]byte, 0, len(r.Mutations))
		for _, mu := range r.Mutations {
			out = append(out, mu.Key)
		}
		return out
	case *kvrpcpb.CommitRequest:
		return r.Keys
	case *kvrpcpb.BatchRollbackRequest:
		return r.Keys
	case *kvrpcpb.PessimisticRollbackRequest:
		return r.Keys
	}
	return nil
}

func hasKey(ks [][]byte, k string) bool {
	for _, x := range ks {
		if bytes.Equal(x, []byte(k)) {
			return true
		}
	}
	return false
}

func isCleanupCmd(c tikvrpc.CmdType) bool {
	return c == tikvrpc.CmdPessimisticRollback || c == tikvrpc.CmdBatchRollback || c == tikvrpc.CmdCommit
}

func hash64(seed int64, id string, occ int) uint64 {
	h := fnv.New64a()
	fmt.Fprintf(h, "%d|%s|%d", seed, id, occ)
	x := h.Sum64()
	// fnv's low bits are weak for short inputs: mix
	x ^= x >> 33
	x *= 0xff51afd7ed558ccd
	x ^= x >> 33
	return x
}

func regionErr(kind uint64, c *uni.Call) *errorpb.Error {
	switch kind % 4 {
	case 0, 1:
		// surfaces to the action handlers (batch is re-grouped by region)
		return &errorpb.Error{Message: "injected", EpochNotMatch: &errorpb.EpochNotMatch{}}
	case 2:
		return &errorpb.Error{Message: "injected", NotLeader: &errorpb.NotLeader{RegionId: c.RegionID}}
	}
	return &errorpb.Error{Message: "injected", ServerIsBusy: &errorpb.ServerIsBusy{Reason: "verif"}}
}

// faultPlan decides, deterministically from (seed, command, first key, occurrence number), which RPCs of
// one client's transactions get a region error or a topology change executed inside the RPC.  At most two
// injected region errors per (command, first key), six per command, maxInjected per plan, and at most two
// ServerIsBusy (the only kind whose accounted back-off is seconds; the others cost <= 0.5 s each): the retry
// budgets of the client (>= 20 s of accounted back-off per clean-up action) are never near exhaustion, so a
// clean-up that gives up cannot be blamed on the harness.
type faultPlan struct {
	mu                         sync.Mutex
	u                          *uni.Universe
	mock                       bool
	seed                       int64
	cleanupPct, otherPct, topo int
	maxInjected, maxTopo       int
	only                       func(ts uint64) bool // which transactions are subject to faults
	occ                        map[string]int
	inj                        map[string]int
	nInj, nTopo, nBusy         int
	perCmd                     map[tikvrpc.CmdType]int

	// commit gate of the subject: the closure runs inside the gateAt-th Prewrite RPC that carries gateKey
	gateKey  string
	gateFn   func()
	gateSeen int
	gateAt   int

	// cancel-during: cancelFn runs right after the store answered the cancelAt-th request (of the listed
	// kinds) that the subject sent since the current API call began
	cancelFn   func()
	cancelAt   int
	cancelSeen int
}

// armCancel arms (fn != nil) or disarms the cancel-during hook for the API call that starts now.
func (p *faultPlan) armCancel(at int, fn func()) {
	p.mu.Lock()
	p.cancelFn, p.cancelAt, p.cancelSeen = fn, at, 0
	p.mu.Unlock()
}

func (p *faultPlan) decide(c *uni.Call) uni.Action {
	if p == nil || c.StartTS == 0 || (p.only != nil && !p.only(c.StartTS)) {
		return uni.Action{}
	}
	cleanup := isCleanupCmd(c.Cmd)
	other := c.Cmd == tikvrpc.CmdPessimisticLock || c.Cmd == tikvrpc.CmdPrewrite
	if !cleanup && !other {
		return uni.Action{}
	}
	ks := reqKeys(c.Req)
	first := ""
	if len(ks) > 0 {
		first = string(ks[0])
	}
	p.mu.Lock()
	defer p.mu.Unlock()
	if p.cancelFn != nil {
		p.cancelSeen++
		if p.cancelSeen >= p.cancelAt {
			fn := p.cancelFn
			p.cancelFn = nil
			// delivered and answered; the caller's context dies before the client looks at the answer
			return uni.Action{Kind: uni.Pass, After: fn}
		}
	}
	if c.Cmd == tikvrpc.CmdPrewrite && p.gateFn != nil && hasKey(ks, p.gateKey) {
		p.gateSeen++
		if p.gateSeen >= p.gateAt {
			fn := p.gateFn
			p.gateFn = nil
			return uni.Action{Kind: uni.Pass, Before: fn}
		}
	}
	id := c.Cmd.String() + "|" + first
	occ := p.occ[id]
	p.occ[id] = occ + 1
	h := hash64(p.seed, id, occ)
	pct := p.otherPct
	if cleanup {
		pct = p.cleanupPct
	}
	if int(h%100) < pct && p.inj[id] < 2 && p.nInj < p.maxInjected && p.perCmd[c.Cmd] < 6 {
		re := regionErr(h>>16, c)
		if re.ServerIsBusy != nil {
			// the only kind with an expensive (accounted) back-off: at most two per plan
			if p.nBusy >= 2 {
				re = regionErr(0, c)
			} else {
				p.nBusy++
			}
		}
		p.inj[id]++
		p.nInj++
		p.perCmd[c.Cmd]++
		return uni.Action{Kind: uni.RegionErr, RegErr: re}
	}
	tp := p.topo
	if cleanup && len(ks) > 1 && tp > 0 {
		// a clean-up request that carries several keys: cutting it in two is what the re-split paths need
		tp = 2*tp + 20
	}
	if int((h>>8)%100) < tp && p.nTopo < p.maxTopo {
		p.nTopo++
		u, mock := p.u, p.mock
		sel := h >> 24
		return uni.Action{Kind: uni.Pass, Before: func() {
			// a split that cuts the request's key set in two makes the store answer EpochNotMatch with the
			// new regions: the client must re-split the batch
			if len(ks) > 1 && sel%3 != 0 {
				u.SplitAt(ks[1+int(sel>>4)%(len(ks)-1)])
				return
			}
			if mock && sel%3 == 0 && len(ks) > 0 {
				u.MoveLeader(ks[0], int(sel>>4))
				return
			}
			u.SplitAt([]byte(splitPoints[int(sel>>4)%len(splitPoints)]))
		}}
	}
	return uni.Action{}
}

// gate blocks the contender's Commit right before its first commit RPC: its prewrite lock stays in place
// until the driver releases it.
type gate struct {
	reached chan struct{}
	release chan struct{}
	hit     atomic.Bool
}

// contPlan is the decider state of the contender's client store.
type contPlan struct {
	mu    sync.Mutex
	gates map[uint64]*gate
	// watch: signal when the contender's lock request for key is on the wire
	watch  map[uint64]*watch
	faults *faultPlan
}

type watch struct {
	key  string
	ch   chan struct{}
	once sync.Once
}

func (p *contPlan) decide(c *uni.Call) uni.Action {
	if p == nil {
		return uni.Action{}
	}
	p.mu.Lock()
	g := p.gates[c.StartTS]
	w := p.watch[c.StartTS]
	p.mu.Unlock()
	if g != nil && c.Cmd == tikvrpc.CmdCommit && g.hit.CompareAndSwap(false, true) {
		return uni.Action{Kind: uni.Pass, Before: func() {
			close(g.reached)
			<-g.release
		}}
	}
	if w != nil && c.Cmd == tikvrpc.CmdPessimisticLock && hasKey(reqKeys(c.Req), w.key) {
		return uni.Action{Kind: uni.Pass, Before: func() { w.once.Do(func() { close(w.ch) }) }}
	}
	return p.faults.decide(c)
}

// lookupKey is the key under which the mock clusters find the region of a raw key: the region managers of
// both mocks compare their argument as is with the memcomparable-encoded region keys.
func lookupKey(u *uni.Universe, k string) []byte {
	if k == "" {
		return []byte{}
	}
	return codec.EncodeBytes(nil, []byte(k))
}
