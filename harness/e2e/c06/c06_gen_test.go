//go:build verif

package c06

import (
	"fmt"
	"math/rand"
	"sort"
	"strings"
)

// Key universe: shared prefixes, a key that is a prefix of another; region borders are placed on and
// between keys.
var keys = []string{"a", "a0", "b", "b5", "c", "d", "e", "e1"}

// split points used for the initial layout and for splits between / inside RPCs
var splitPoints = []string{"a0", "b", "b5", "c", "d", "e", "e1"}

// obKind is how the contender transaction obstructs a step of the subject.
type obKind int

const (
	obNone obKind = iota
	// obPessLock: the contender holds a pessimistic lock on the key.
	obPessLock
	// obPrewriteLock: the contender holds a prewrite lock on the key (its Commit is gated before the commit RPC).
	obPrewriteLock
	// obNewerCommit: the contender commits a version of the key that is newer than the subject's for-update / start ts.
	obNewerCommit
	// obDeadlock: the contender holds the key and waits for a key the subject holds.
	obDeadlock
)

func (o obKind) String() string {
	return [...]string{"-", "pesslock", "prewritelock", "newer-commit", "deadlock"}[o]
}

// Step kinds.
const (
	kLock   = "lock"
	kSet    = "set"
	kDel    = "del"
	kInsert = "insert"
	// kPut: a write through the membuffer with key flags, as a SQL layer does an insert of a row whose key it has
	// locked before: SetWithFlags(k, v, SetNewlyInserted [, SetPresumeKeyNotExists] [, SetAssertNotExist]),
	// optionally followed by Delete(k) in the same transaction (insert-then-delete)
	kPut       = "put"
	kAggStart  = "agg-start"
	kAggRetry  = "agg-retry"
	kAggCancel = "agg-cancel"
	kAggDone   = "agg-done"
)

// Step is one step of the subject's program.
type Step struct {
	Kind string
	Keys []string
	// LockKeys options
	RV, CE, LOIE, NoWait bool
	// pessimistic set/del: write without locking the key first
	NoLockFirst bool
	// obstacle placed right before the step
	Ob       obKind
	ObKey    string
	ObCommit bool // the obstacle is released by a commit of the contender (else rollback)
	// topology change before the step: "" | split:<k> | leader:<k> | merge:<k>
	Topo string
	// after a failed lock call: drain and record (evidence only) whether keys of the call are still locked
	MidDrain bool
	// Ctx is the context discipline of the API call(s) of this step that take a context
	Ctx ctxKind
	// kPut: membuffer flags of the write (bit 0 NewlyInserted, bit 1 PresumeKeyNotExists, bit 2 AssertNotExist)
	// and whether the key is deleted again right away
	MemFlags int
	ThenDel  bool
}

// ctxKind is what the caller does with the context it passes to one API call.
type ctxKind int

const (
	// ctxBackground: context.Background().
	ctxBackground ctxKind = iota
	// ctxCancelAfter: context.WithCancel, cancelled immediately after the call returned.
	ctxCancelAfter
	// ctxDeadlineAfter: a context with values and a deadline far in the future, cancelled after the call returned.
	ctxDeadlineAfter
	// ctxCancelDuring: cancelled during the call, right after the store answered the call's n-th request (the
	// answer still reaches the client: nothing is lost).  The call counts as failed and the transaction is
	// then ended by Rollback.
	ctxCancelDuring
)

func (c ctxKind) String() string {
	return [...]string{"bg", "cancel-after", "deadline+values-cancel-after", "cancel-during"}[c]
}

func (g *gen) ctxKind(during bool) ctxKind {
	switch x := g.rng.Intn(100); {
	case x < 35:
		return ctxBackground
	case x < 70:
		return ctxCancelAfter
	case x < 92 || !during:
		return ctxDeadlineAfter
	}
	return ctxCancelDuring
}

func (s Step) String() string {
	var b strings.Builder
	b.WriteString(s.Kind)
	if len(s.Keys) > 0 {
		fmt.Fprintf(&b, "%v", s.Keys)
	}
	if s.Kind == kLock || ((s.Kind == kSet || s.Kind == kDel || s.Kind == kInsert) && !s.NoLockFirst) {
		var o []string
		if s.RV {
			o = append(o, "rv")
		}
		if s.CE {
			o = append(o, "ce")
		}
		if s.LOIE {
			o = append(o, "loie")
		}
		if s.NoWait {
			o = append(o, "nowait")
		}
		if len(o) > 0 {
			fmt.Fprintf(&b, "{%s}", strings.Join(o, ","))
		}
	}
	if s.NoLockFirst {
		b.WriteString("{nolock}")
	}
	if s.Kind == kPut {
		var o []string
		if s.MemFlags&1 != 0 {
			o = append(o, "newly-inserted")
		}
		if s.MemFlags&2 != 0 {
			o = append(o, "presume-not-exists")
		}
		if s.MemFlags&4 != 0 {
			o = append(o, "assert-not-exist")
		}
		if s.ThenDel {
			o = append(o, "then-delete")
		}
		fmt.Fprintf(&b, "{%s}", strings.Join(o, ","))
	}
	if s.Ob != obNone {
		rel := "rb"
		if s.ObCommit {
			rel = "ci"
		}
		fmt.Fprintf(&b, "!%s(%s,%s)", s.Ob, s.ObKey, rel)
	}
	if s.Topo != "" {
		fmt.Fprintf(&b, "@%s", s.Topo)
	}
	if s.Ctx != ctxBackground {
		fmt.Fprintf(&b, "~%s", s.Ctx)
	}
	return b.String()
}

// Program is the program of one subject transaction.
type Program struct {
	Seed   int64
	Pess   bool
	Exists map[string]bool // key -> has a committed value when the subject starts
	Splits []string        // region borders when the subject starts (every program runs in a fresh universe)
	Steps  []Step
	Commit bool // false: Rollback
	EndCtx ctxKind
	// obstacle in place while the subject's Commit runs (released inside its second prewrite attempt on that key)
	EndOb       obKind
	EndObKey    string
	EndObCommit bool
	// fault plan: percentages for region errors on clean-up RPCs / other RPCs, topology changes inside an RPC
	CleanupErrPct, OtherErrPct, TopoPct int
	// Family names the generator family of the program ("" = the general generator); Variant the way the family's
	// aggressive-locking sequence ends (evidence only)
	Family, Variant string
	// EndInAgg: Commit / Rollback is called while the transaction is still in aggressive-locking mode (the
	// current attempt has locked nothing: the client releases the previous attempt's locks itself)
	EndInAgg bool
}

func (p *Program) String() string {
	m := "opt"
	if p.Pess {
		m = "pess"
	}
	var ss []string
	for _, s := range p.Steps {
		ss = append(ss, s.String())
	}
	end := "rollback"
	if p.Commit {
		end = "commit"
	}
	if p.EndOb != obNone {
		rel := "rb"
		if p.EndObCommit {
			rel = "ci"
		}
		end += fmt.Sprintf("!%s(%s,%s)", p.EndOb, p.EndObKey, rel)
	}
	if p.Commit && p.EndCtx != ctxBackground {
		end += "~" + p.EndCtx.String()
	}
	var ex []string
	for k, v := range p.Exists {
		if v {
			ex = append(ex, k)
		}
	}
	sort.Strings(ex)
	if p.EndInAgg {
		end += "{in-aggressive-locking}"
	}
	fam := ""
	if p.Family != "" {
		fam = " family=" + p.Family + "/" + p.Variant
	}
	return fmt.Sprintf("%s exists=%v splits=%v [%s] %s faults=%d/%d/%d%s", m, ex, p.Splits, strings.Join(ss, " ; "), end, p.CleanupErrPct, p.OtherErrPct, p.TopoPct, fam)
}

type gen struct {
	rng     *rand.Rand
	backend string
	mock    bool
}

func (g *gen) key() string { return keys[g.rng.Intn(len(keys))] }

func (g *gen) distinctKeys(n int) []string {
	perm := g.rng.Perm(len(keys))
	out := make([]string, 0, n)
	for _, i := range perm[:n] {
		out = append(out, keys[i])
	}
	// LockKeys takes keys in the caller's order: sometimes sorted, sometimes not
	if g.rng.Intn(2) == 0 {
		sort.Strings(out)
	}
	return out
}

func (g *gen) topo() string {
	switch x := g.rng.Intn(100); {
	case x < 10:
		return "split:" + splitPoints[g.rng.Intn(len(splitPoints))]
	case x < 16 && g.mock:
		return "leader:" + g.key()
	case x < 19 && g.mock:
		return "merge:" + g.key()
	}
	return ""
}

// lockOpts draws a LockKeys option combination (all eight of rv/ce/loie x wait/nowait occur).
func (g *gen) lockOpts(s *Step) {
	switch g.rng.Intn(8) {
	case 0, 1:
	case 2:
		s.RV = true
	case 3:
		s.CE = true
	case 4:
		s.RV, s.CE = true, true
	case 5:
		s.RV, s.LOIE = true, true
	case 6:
		s.LOIE = true // without return-values: refused by the client
	case 7:
		s.RV, s.CE, s.LOIE = true, true, true
	}
	s.NoWait = g.rng.Intn(2) == 0
}

// obstacle draws the contention for a locking step on keys ks.
func (g *gen) obstacle(s *Step, exists map[string]bool, canDeadlock bool) {
	if len(s.Keys) == 0 {
		return
	}
	s.ObKey = s.Keys[g.rng.Intn(len(s.Keys))]
	s.ObCommit = g.rng.Intn(2) == 0
	switch x := g.rng.Intn(100); {
	case x < 42:
		s.ObKey = ""
	case x < 60:
		s.Ob = obPessLock
	case x < 70:
		s.Ob = obPrewriteLock
		s.ObCommit = true
	case x < 90:
		s.Ob = obNewerCommit
		s.ObCommit = true
	default:
		if canDeadlock {
			s.Ob = obDeadlock
			s.NoWait = false
		} else {
			s.Ob = obPessLock
		}
	}
	s.MidDrain = g.rng.Intn(2) == 0
}

func (g *gen) lockStep(exists map[string]bool, nkeys int, canDeadlock bool) Step {
	s := Step{Kind: kLock, Keys: g.distinctKeys(nkeys), Topo: g.topo()}
	g.lockOpts(&s)
	g.obstacle(&s, exists, canDeadlock)
	return s
}

func (g *gen) insertStep(exists map[string]bool, canDeadlock bool) Step {
	s := Step{Kind: kInsert, Topo: g.topo()}
	// bias towards keys that exist (key-exists failure)
	var ex []string
	for _, k := range keys {
		if exists[k] {
			ex = append(ex, k)
		}
	}
	if len(ex) > 0 && g.rng.Intn(100) < 60 {
		s.Keys = []string{ex[g.rng.Intn(len(ex))]}
	} else {
		s.Keys = []string{g.key()}
	}
	switch g.rng.Intn(4) {
	case 0:
		s.RV = true
	case 1:
		s.CE = true
	}
	s.NoWait = g.rng.Intn(2) == 0
	if g.rng.Intn(100) < 30 {
		g.obstacle(&s, exists, canDeadlock)
	}
	return s
}

// putStep is a flagged write (insert as a SQL layer does it after it has locked the key), half of the time
// deleted again in the same transaction.
func (g *gen) putStep(k string) Step {
	s := Step{Kind: kPut, Keys: []string{k}, MemFlags: 1, ThenDel: g.rng.Intn(2) == 0}
	switch g.rng.Intn(6) {
	case 0:
		s.MemFlags = 0 // plain Set(+Delete)
	case 1:
		s.MemFlags |= 2
	case 2:
		s.MemFlags |= 4
	}
	return s
}

// lockThenPut: LockKeys(k) with one of the option combinations on an absent (mostly) or present key, then the
// flagged write of that key.
func (g *gen) lockThenPut(p *Program, canDeadlock bool) {
	var absent []string
	for _, k := range keys {
		if !p.Exists[k] {
			absent = append(absent, k)
		}
	}
	k := g.key()
	if len(absent) > 0 && g.rng.Intn(100) < 65 {
		k = absent[g.rng.Intn(len(absent))]
	}
	s := Step{Kind: kLock, Keys: []string{k}, Topo: g.topo()}
	g.lockOpts(&s)
	if g.rng.Intn(100) < 15 {
		g.obstacle(&s, p.Exists, canDeadlock)
	}
	p.Steps = append(p.Steps, s, g.putStep(k))
}

// Next generates one program.
func (g *gen) Next(seed int64, pess bool) *Program {
	p := &Program{Seed: seed, Pess: pess, Exists: map[string]bool{}}
	for _, k := range keys {
		p.Exists[k] = g.rng.Intn(100) < 55
	}
	// few borders: several keys of a request share a region, so that a split inside an RPC cuts a batch in two
	dens := []int{0, 15, 30, 60}[g.rng.Intn(4)]
	for _, k := range splitPoints {
		if g.rng.Intn(100) < dens {
			p.Splits = append(p.Splits, k)
		}
	}
	switch g.rng.Intn(4) {
	case 0:
		// calm
	case 1:
		p.CleanupErrPct, p.OtherErrPct, p.TopoPct = 35, 6, 10
	case 2:
		p.CleanupErrPct, p.OtherErrPct, p.TopoPct = 70, 12, 25
	case 3:
		p.CleanupErrPct, p.OtherErrPct, p.TopoPct = 100, 0, 40
	}
	if pess {
		g.pessimistic(p)
	} else {
		g.optimistic(p)
	}
	// context discipline of every call that takes a context (own stream of choices: appended last so that
	// the programs themselves stay what they were)
	for i := range p.Steps {
		st := &p.Steps[i]
		switch st.Kind {
		case kAggRetry, kAggCancel, kAggDone:
			st.Ctx = g.ctxKind(false)
		case kLock, kInsert, kSet, kDel:
			st.Ctx = g.ctxKind(pess && st.Ob != obDeadlock)
		}
	}
	p.EndCtx = g.ctxKind(true)
	return p
}

func (g *gen) pessimistic(p *Program) {
	n := 2 + g.rng.Intn(5)
	locked := 0
	for len(p.Steps) < n {
		can := locked > 0
		switch x := g.rng.Intn(100); {
		case x < 38:
			p.Steps = append(p.Steps, g.lockStep(p.Exists, 1+g.rng.Intn(3), can))
			locked++
		case x < 50:
			s := Step{Kind: kSet, Keys: []string{g.key()}, NoLockFirst: g.rng.Intn(4) == 0, Topo: g.topo()}
			if !s.NoLockFirst {
				g.lockOpts(&s)
				s.LOIE = false
				if g.rng.Intn(100) < 35 {
					g.obstacle(&s, p.Exists, can)
				}
				locked++
			}
			p.Steps = append(p.Steps, s)
		case x < 57:
			s := Step{Kind: kDel, Keys: []string{g.key()}, NoLockFirst: g.rng.Intn(4) == 0, Topo: g.topo()}
			if !s.NoLockFirst {
				g.lockOpts(&s)
				s.LOIE = false
				if g.rng.Intn(100) < 35 {
					g.obstacle(&s, p.Exists, can)
				}
				locked++
			}
			p.Steps = append(p.Steps, s)
		case x < 68:
			s := g.insertStep(p.Exists, can)
			if g.rng.Intn(4) == 0 {
				// unlocked insert (lazy uniqueness check): the existence check happens at prewrite
				s.NoLockFirst, s.Ob, s.ObKey = true, obNone, ""
			}
			p.Steps = append(p.Steps, s)
			locked++
		case x < 80:
			g.lockThenPut(p, can)
			locked++
		default:
			g.aggressive(p, can)
			locked++
		}
	}
	p.Commit = g.rng.Intn(100) < 60
	if g.rng.Intn(100) < 30 {
		// a Commit that fails at prewrite while pessimistic locks are held: an unlocked insert of a key that
		// exists; half of the time in a single region (so that 1PC, where enabled, is really attempted)
		var ex []string
		for _, k := range keys {
			if p.Exists[k] {
				ex = append(ex, k)
			}
		}
		if len(ex) > 0 {
			p.Steps = append(p.Steps, Step{Kind: kInsert, Keys: []string{ex[g.rng.Intn(len(ex))]}, NoLockFirst: true})
			p.Commit = true
			if g.rng.Intn(2) == 0 {
				p.Splits = nil
			}
		}
	}
	if p.Commit {
		// an obstacle during Commit only bites on keys written without a lock
		var unlocked []string
		for _, s := range p.Steps {
			if (s.Kind == kSet || s.Kind == kDel || s.Kind == kInsert) && s.NoLockFirst {
				unlocked = append(unlocked, s.Keys[0])
			}
		}
		if len(unlocked) > 0 && g.rng.Intn(100) < 60 {
			g.endObstacle(p, unlocked)
		}
	}
}

// aggressive appends one aggressive-locking sequence: start, lock..., (retry, lock...)*, cancel|done.
func (g *gen) aggressive(p *Program, canDeadlock bool) {
	p.Steps = append(p.Steps, Step{Kind: kAggStart})
	attempts := 1 + g.rng.Intn(3)
	var prev []string
	var after []Step
	for a := 0; a < attempts; a++ {
		if a > 0 {
			p.Steps = append(p.Steps, Step{Kind: kAggRetry, Topo: g.topo()})
		}
		nl := 1 + g.rng.Intn(2)
		var cur []string
		for i := 0; i < nl; i++ {
			var s Step
			switch x := g.rng.Intn(100); {
			case x < 8:
				// several keys in one call: the client leaves aggressive locking (as if done)
				s = g.lockStep(p.Exists, 2, canDeadlock)
			case x < 30:
				s = g.insertStep(p.Exists, canDeadlock)
			default:
				s = g.lockStep(p.Exists, 1, canDeadlock)
			}
			if len(s.Keys) == 1 && i < len(prev) && g.rng.Intn(100) < 65 {
				// the retried statement needs the same key again (with possibly different options)
				s.Keys = []string{prev[i]}
				if s.ObKey != "" {
					s.ObKey = prev[i]
				}
			}
			cur = append(cur, s.Keys[0])
			p.Steps = append(p.Steps, s)
			if a == attempts-1 && len(s.Keys) == 1 && g.rng.Intn(100) < 30 {
				// the statement writes the row whose key it has just locked: inside the stage or after it
				if g.rng.Intn(2) == 0 {
					p.Steps = append(p.Steps, g.putStep(s.Keys[0]))
				} else {
					after = append(after, g.putStep(s.Keys[0]))
				}
			}
		}
		prev = cur
	}
	if g.rng.Intn(2) == 0 {
		p.Steps = append(p.Steps, Step{Kind: kAggCancel, Topo: g.topo()})
	} else {
		p.Steps = append(p.Steps, Step{Kind: kAggDone, Topo: g.topo()})
	}
	p.Steps = append(p.Steps, after...)
}

func (g *gen) endObstacle(p *Program, cands []string) {
	p.EndObKey = cands[g.rng.Intn(len(cands))]
	p.EndObCommit = g.rng.Intn(100) < 60
	switch x := g.rng.Intn(100); {
	case x < 45:
		p.EndOb = obNewerCommit
		p.EndObCommit = true
	case x < 75:
		p.EndOb = obPessLock
	default:
		p.EndOb = obPrewriteLock
		p.EndObCommit = true
	}
}

func (g *gen) optimistic(p *Program) {
	n := 1 + g.rng.Intn(5)
	var written []string
	for len(p.Steps) < n {
		switch x := g.rng.Intn(100); {
		case x < 45:
			k := g.key()
			p.Steps = append(p.Steps, Step{Kind: kSet, Keys: []string{k}, Topo: g.topo()})
			written = append(written, k)
		case x < 60:
			k := g.key()
			p.Steps = append(p.Steps, Step{Kind: kDel, Keys: []string{k}, Topo: g.topo()})
			written = append(written, k)
		case x < 80:
			s := g.insertStep(p.Exists, false)
			s.Ob, s.ObKey = obNone, ""
			p.Steps = append(p.Steps, s)
			written = append(written, s.Keys[0])
		case x < 88:
			s := g.putStep(g.key())
			p.Steps = append(p.Steps, s)
			written = append(written, s.Keys[0])
		default:
			s := Step{Kind: kLock, Keys: g.distinctKeys(1 + g.rng.Intn(2)), Topo: g.topo()}
			p.Steps = append(p.Steps, s)
			written = append(written, s.Keys...)
		}
	}
	p.Commit = g.rng.Intn(100) < 88
	if p.Commit && g.rng.Intn(100) < 65 {
		g.endObstacle(p, written)
	}
}

// ---------------------------------------------------------------- family: aggressive locking over several regions

const famAggMR = "agg-multi-region"

// aggMultiRegion generates one program of the family "aggressive (fair) locking over several regions": a layout of
// 4..8 regions, one statement in aggressive-locking mode that locks 2..6 keys spread over the regions ONE BY ONE
// (single-key calls: the only way keys stay in the stage), in ascending, descending or arbitrary order, and then
// ends in one of the ways a statement can end:
//
//	cancel                         - every lock of the attempt is released
//	done                           - the locks become ordinary locks, released by Commit / Rollback
//	retry [lock other keys] cancel - the retried statement needs other keys: at least two locks of the previous
//	retry [lock other keys] done     attempt (in different regions, layout permitting) are redundant
//	retry [...] retry [...] ...    - the redundant locks are released by the next RetryAggressiveLocking
//	retry, then Commit / Rollback  - the transaction ends while still in the mode (nothing locked in the current
//	                                 attempt): the client cancels the stage itself
//
// Few obstacles and faults: the family is about routing the release requests of keys that the client keeps in
// unordered containers, under a layout that does not change (a quarter of the programs add topology changes and
// region errors on top).
func (g *gen) aggMultiRegion(seed int64) *Program {
	p := &Program{Seed: seed, Pess: true, Exists: map[string]bool{}, Family: famAggMR}
	for _, k := range keys {
		p.Exists[k] = g.rng.Intn(100) < 55
	}
	// 3..7 borders out of 7: 4..8 regions
	perm := g.rng.Perm(len(splitPoints))
	nb := 3 + g.rng.Intn(len(splitPoints)-2)
	for _, i := range perm[:nb] {
		p.Splits = append(p.Splits, splitPoints[i])
	}
	sort.Strings(p.Splits)
	rough := g.rng.Intn(4) == 0
	switch {
	case !rough:
	case g.rng.Intn(2) == 0:
		p.CleanupErrPct, p.OtherErrPct, p.TopoPct = 35, 6, 10
	default:
		p.CleanupErrPct, p.OtherErrPct, p.TopoPct = 70, 0, 25
	}
	topo := func() string {
		if rough {
			return g.topo()
		}
		return ""
	}
	order := func(ks []string) []string {
		switch g.rng.Intn(3) {
		case 0:
			sort.Strings(ks)
		case 1:
			sort.Sort(sort.Reverse(sort.StringSlice(ks)))
		}
		return ks
	}
	lockOne := func(k string) Step {
		s := Step{Kind: kLock, Keys: []string{k}, Topo: topo()}
		switch g.rng.Intn(6) {
		case 0:
			s.RV = true
		case 1:
			s.CE = true
		case 2:
			s.RV, s.CE = true, true
		}
		s.NoWait = g.rng.Intn(2) == 0
		if g.rng.Intn(100) < 6 {
			g.obstacle(&s, p.Exists, false)
		}
		return s
	}
	pick := func(from []string, n int) []string {
		pm := g.rng.Perm(len(from))
		out := make([]string, 0, n)
		for _, i := range pm[:n] {
			out = append(out, from[i])
		}
		return out
	}
	p.Steps = append(p.Steps, Step{Kind: kAggStart})
	cur := order(pick(keys, 2+g.rng.Intn(5)))
	for _, k := range cur {
		p.Steps = append(p.Steps, lockOne(k))
	}
	// next draws the key set of a retried attempt: at least two keys of the previous attempt are not needed again
	next := func(prev []string, empty bool) []string {
		if empty {
			return nil
		}
		keep := pick(prev, g.rng.Intn(len(prev)-1)) // 0 .. len-2 of the previous keys
		var others []string
		for _, k := range keys {
			in := false
			for _, q := range prev {
				in = in || q == k
			}
			if !in {
				others = append(others, k)
			}
		}
		add := pick(others, g.rng.Intn(min(len(others), 3)+1))
		return order(append(keep, add...))
	}
	retry := func(empty bool) {
		p.Steps = append(p.Steps, Step{Kind: kAggRetry, Topo: topo()})
		cur = next(cur, empty)
		for _, k := range cur {
			p.Steps = append(p.Steps, lockOne(k))
		}
	}
	switch x := g.rng.Intn(100); {
	case x < 22:
		p.Variant = "cancel"
		p.Steps = append(p.Steps, Step{Kind: kAggCancel, Topo: topo()})
	case x < 32:
		p.Variant = "done"
		p.Steps = append(p.Steps, Step{Kind: kAggDone, Topo: topo()})
	case x < 50:
		p.Variant = "retry+cancel"
		retry(false)
		p.Steps = append(p.Steps, Step{Kind: kAggCancel, Topo: topo()})
	case x < 68:
		p.Variant = "retry+done"
		retry(false)
		p.Steps = append(p.Steps, Step{Kind: kAggDone, Topo: topo()})
	case x < 82:
		p.Variant = "retry+retry"
		retry(false)
		if len(cur) >= 2 {
			retry(g.rng.Intn(3) == 0)
		} else {
			retry(true)
		}
		if g.rng.Intn(2) == 0 {
			p.Steps = append(p.Steps, Step{Kind: kAggCancel, Topo: topo()})
		} else {
			p.Steps = append(p.Steps, Step{Kind: kAggDone, Topo: topo()})
		}
	default:
		p.Variant = "retry+end-in-mode"
		if g.rng.Intn(3) == 0 && len(cur) >= 3 {
			retry(false)
		}
		if len(cur) >= 2 {
			retry(true)
			p.EndInAgg = true
		} else {
			p.Variant = "retry+cancel"
			p.Steps = append(p.Steps, Step{Kind: kAggCancel})
		}
	}
	if !p.EndInAgg && g.rng.Intn(3) == 0 {
		// the statement (or the next one) writes a row
		s := Step{Kind: kSet, Keys: []string{g.key()}, NoWait: true}
		p.Steps = append(p.Steps, s)
	}
	p.Commit = g.rng.Intn(2) == 0
	for i := range p.Steps {
		st := &p.Steps[i]
		switch st.Kind {
		case kAggRetry, kAggCancel, kAggDone:
			st.Ctx = g.ctxKind(false)
		case kLock, kSet:
			if g.rng.Intn(3) == 0 {
				st.Ctx = g.ctxKind(g.rng.Intn(8) == 0)
			}
		}
	}
	p.EndCtx = g.ctxKind(false)
	return p
}
