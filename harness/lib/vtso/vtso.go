// Package vtso is a scripted TSO source: a pd.Client whose GetTS/GetTSAsync
// hand out strictly increasing (physical, logical) timestamps from a virtual
// clock under the driver's control and whose *responses* are released in orders
// chosen by the driver (or by a seeded policy), so reordered PD responses are
// produced deterministically.  Every allocation is logged with a number from
// the shared event sequencer, so "the largest timestamp PD has issued" is known
// at every event.  It is mounted as github.com/tikv/client-go/v2/verifh/vtso and
// depends only on the PD client module and the standard library.
package vtso

import (
	"context"
	"errors"
	"math/rand"
	"runtime"
	"sync"
	"sync/atomic"
	"time"

	pd "github.com/tikv/pd/client"
	"github.com/tikv/pd/client/clients/tso"
	"github.com/tikv/pd/client/pkg/caller"
)

const physicalShiftBits = 18

// Compose builds a TSO from its parts (same layout as oracle.ComposeTS).
func Compose(physical, logical int64) uint64 { return uint64(physical<<physicalShiftBits + logical) }

// Physical extracts the physical part (ms).
func Physical(ts uint64) int64 { return int64(ts >> physicalShiftBits) }

// ErrInjected is returned by requests the policy decided to fail.
var ErrInjected = errors.New("vtso: injected PD error")

// Issue is one allocation: the timestamp and the sequencer number taken at the
// moment of allocation.
type Issue struct {
	TS  uint64 `json:"ts"`
	Seq int64  `json:"seq"`
}

type req struct {
	ctx       context.Context
	ch        chan struct{}
	phys, log int64
	err       error
	allocated bool
}

// Wait implements tso.TSFuture.  Like the real PD client it honours the
// context the request was made with: while the response is held, a cancelled
// or expired context ends the wait with ctx.Err() (the request itself stays
// outstanding at the scripted PD until it is released).
func (r *req) Wait() (int64, int64, error) {
	select {
	case <-r.ch:
		return r.phys, r.log, r.err
	default:
	}
	select {
	case <-r.ch:
		return r.phys, r.log, r.err
	case <-r.ctx.Done():
		return 0, 0, r.ctx.Err()
	}
}

// Policy describes how the source behaves for requests that arrive from now on.
type Policy struct {
	// Hold is the number of responses kept back: a request's response is only
	// released when more than Hold responses are pending (a random pending one
	// is released, which reorders responses), by the pump, or by the driver.
	// Hold < 0 means "never release automatically" (driver controlled).
	Hold int
	// AllocLatePct is the percentage of requests whose timestamp is allocated
	// when the response is released instead of when the request arrives.
	AllocLatePct int
	// StepPct is the percentage of allocations that advance the physical clock
	// by 1..StepMaxMs ms (logical restarts at a small value); the others
	// increment the logical part.
	StepPct   int
	StepMaxMs int64
	// ErrPct is the percentage of requests answered with ErrInjected.
	ErrPct int
}

// Source implements the TSO part of pd.Client.  All other pd.Client methods go
// to the embedded client (which may be nil if they are never called).
type Source struct {
	pd.Client
	Seq *atomic.Int64

	mu      sync.Mutex
	cond    *sync.Cond
	phys    int64
	logi    int64
	pol     Policy
	rng     *rand.Rand
	pending []*req
	log     []Issue
	forced  []uint64
	drained bool
	pumpOn  bool
	pumpGen int

	max      atomic.Uint64
	requests atomic.Int64
	reorders atomic.Int64
}

// New creates a source whose clock starts at (basePhysicalMs, 0).
func New(seq *atomic.Int64, basePhysicalMs int64, rng *rand.Rand, inner pd.Client) *Source {
	s := &Source{Client: inner, Seq: seq, phys: basePhysicalMs, rng: rng}
	s.cond = sync.NewCond(&s.mu)
	s.pol = Policy{StepPct: 5, StepMaxMs: 3}
	return s
}

// WithCallerComponent implements pd.Client: the scripted source is kept.
func (s *Source) WithCallerComponent(caller.Component) pd.Client { return s }

// Close implements pd.Client.
func (s *Source) Close() { s.Drain() }

// SetPolicy replaces the policy (pending responses above the new Hold are
// released).
func (s *Source) SetPolicy(p Policy) {
	s.mu.Lock()
	s.pol = p
	s.enforceHoldLocked()
	s.mu.Unlock()
}

func (s *Source) allocLocked() (int64, int64) {
	cur := Compose(s.phys, s.logi)
	if len(s.forced) > 0 {
		f := s.forced[0]
		s.forced = s.forced[1:]
		if f > cur {
			s.phys, s.logi = Physical(f), int64(f&(1<<physicalShiftBits-1))
			s.recordLocked()
			return s.phys, s.logi
		}
	}
	if s.pol.StepPct > 0 && s.rng.Intn(100) < s.pol.StepPct {
		m := s.pol.StepMaxMs
		if m < 1 {
			m = 1
		}
		s.phys += 1 + s.rng.Int63n(m)
		s.logi = int64(s.rng.Intn(3))
	} else {
		s.logi++
		if s.logi >= 1<<physicalShiftBits {
			s.phys++
			s.logi = 0
		}
	}
	s.recordLocked()
	return s.phys, s.logi
}

func (s *Source) recordLocked() {
	ts := Compose(s.phys, s.logi)
	s.max.Store(ts)
	s.log = append(s.log, Issue{TS: ts, Seq: s.Seq.Add(1)})
}

// Issue allocates a timestamp directly, as another client of the same PD would
// (the oracle under test does not see it).
func (s *Source) Issue() uint64 {
	s.mu.Lock()
	defer s.mu.Unlock()
	p, l := s.allocLocked()
	return Compose(p, l)
}

// Advance moves the physical clock forward by ms without issuing a timestamp.
func (s *Source) Advance(ms int64) {
	s.mu.Lock()
	s.phys += ms
	s.logi = 0
	s.mu.Unlock()
}

// ForceNext makes the following allocations return exactly these timestamps
// (each is skipped if it is not above the clock at that moment).
func (s *Source) ForceNext(ts ...uint64) {
	s.mu.Lock()
	s.forced = append(s.forced, ts...)
	s.mu.Unlock()
}

// ClearForced drops the timestamps queued by ForceNext that were not used.
func (s *Source) ClearForced() {
	s.mu.Lock()
	s.forced = nil
	s.mu.Unlock()
}

// Now returns the clock without issuing.
func (s *Source) Now() (physical, logical int64) {
	s.mu.Lock()
	defer s.mu.Unlock()
	return s.phys, s.logi
}

// MaxIssued returns the largest timestamp issued so far (0 if none).
func (s *Source) MaxIssued() uint64 { return s.max.Load() }

// Requests returns the number of GetTS/GetTSAsync requests received.
func (s *Source) Requests() int64 { return s.requests.Load() }

// Reorders returns how many responses were released while an older request
// was still pending.
func (s *Source) Reorders() int64 { return s.reorders.Load() }

// IssuedCount returns the number of allocations.
func (s *Source) IssuedCount() int {
	s.mu.Lock()
	defer s.mu.Unlock()
	return len(s.log)
}

// PickIssued returns one of the last `window` issued timestamps (chosen by
// pick in [0,window)) together with its allocation record.
func (s *Source) PickIssued(window int, pick int) (Issue, bool) {
	s.mu.Lock()
	defer s.mu.Unlock()
	n := len(s.log)
	if n == 0 {
		return Issue{}, false
	}
	if window > n {
		window = n
	}
	return s.log[n-1-pick%window], true
}

// GetTS implements pd.Client.
func (s *Source) GetTS(ctx context.Context) (int64, int64, error) {
	return s.GetTSAsync(ctx).Wait()
}

// GetLocalTS implements pd.Client.
func (s *Source) GetLocalTS(ctx context.Context, _ string) (int64, int64, error) {
	return s.GetTS(ctx)
}

// GetLocalTSAsync implements pd.Client.
func (s *Source) GetLocalTSAsync(ctx context.Context, _ string) tso.TSFuture {
	return s.GetTSAsync(ctx)
}

// GetTSAsync implements pd.Client.
func (s *Source) GetTSAsync(ctx context.Context) tso.TSFuture {
	s.requests.Add(1)
	if ctx == nil {
		ctx = context.Background()
	}
	r := &req{ctx: ctx, ch: make(chan struct{})}
	s.mu.Lock()
	if s.pol.ErrPct > 0 && s.rng.Intn(100) < s.pol.ErrPct {
		r.err = ErrInjected
		r.allocated = true
	} else if s.drained || s.pol.AllocLatePct <= 0 || s.rng.Intn(100) >= s.pol.AllocLatePct {
		r.phys, r.log = s.allocLocked()
		r.allocated = true
	}
	s.pending = append(s.pending, r)
	s.enforceHoldLocked()
	s.cond.Broadcast()
	s.mu.Unlock()
	return r
}

func (s *Source) enforceHoldLocked() {
	if s.drained {
		for len(s.pending) > 0 {
			s.releaseLocked(0)
		}
		return
	}
	if s.pol.Hold < 0 {
		return
	}
	for len(s.pending) > s.pol.Hold {
		s.releaseLocked(s.rng.Intn(len(s.pending)))
	}
}

func (s *Source) releaseLocked(i int) {
	r := s.pending[i]
	if i > 0 {
		s.reorders.Add(1)
	}
	s.pending = append(s.pending[:i], s.pending[i+1:]...)
	if !r.allocated {
		r.phys, r.log = s.allocLocked()
		r.allocated = true
	}
	close(r.ch)
	s.cond.Broadcast()
}

// Pending returns the number of requests whose response is held.
func (s *Source) Pending() int {
	s.mu.Lock()
	defer s.mu.Unlock()
	return len(s.pending)
}

// WaitPending blocks until at least n responses are held.  The wall clock is
// only a watchdog: false means the watchdog fired (an inconclusive case).
func (s *Source) WaitPending(n int, watchdog time.Duration) bool {
	fired := false
	t := time.AfterFunc(watchdog, func() {
		s.mu.Lock()
		fired = true
		s.cond.Broadcast()
		s.mu.Unlock()
	})
	defer t.Stop()
	s.mu.Lock()
	defer s.mu.Unlock()
	for len(s.pending) < n && !fired {
		s.cond.Wait()
	}
	return len(s.pending) >= n
}

// Release releases the i-th oldest held response (false if there is none).
func (s *Source) Release(i int) bool {
	s.mu.Lock()
	defer s.mu.Unlock()
	if i < 0 || i >= len(s.pending) {
		return false
	}
	s.releaseLocked(i)
	return true
}

// ReleaseAll releases every held response, oldest first.
func (s *Source) ReleaseAll() {
	s.mu.Lock()
	for len(s.pending) > 0 {
		s.releaseLocked(0)
	}
	s.mu.Unlock()
}

// Drain releases everything and answers all later requests immediately (used
// at teardown so that no background goroutine of the code under test hangs).
func (s *Source) Drain() {
	s.mu.Lock()
	s.drained = true
	s.enforceHoldLocked()
	s.pumpOn = false
	s.pumpGen++
	s.cond.Broadcast()
	s.mu.Unlock()
}

// StartPump starts a goroutine that keeps releasing a random held response
// after yielding `yields` times, so that callers blocked on held responses
// always make progress while responses still pile up and get reordered.
func (s *Source) StartPump(yields int) {
	s.mu.Lock()
	if s.pumpOn {
		s.mu.Unlock()
		return
	}
	s.pumpOn = true
	s.pumpGen++
	gen := s.pumpGen
	s.mu.Unlock()
	go func() {
		for {
			s.mu.Lock()
			for len(s.pending) == 0 && s.pumpOn && s.pumpGen == gen {
				s.cond.Wait()
			}
			if !s.pumpOn || s.pumpGen != gen {
				s.mu.Unlock()
				return
			}
			s.mu.Unlock()
			for i := 0; i < yields; i++ {
				runtime.Gosched()
			}
			s.mu.Lock()
			if len(s.pending) > 0 && s.pumpOn && s.pumpGen == gen {
				s.releaseLocked(s.rng.Intn(len(s.pending)))
			}
			s.mu.Unlock()
		}
	}()
}

// StopPump stops the pump goroutine.
func (s *Source) StopPump() {
	s.mu.Lock()
	s.pumpOn = false
	s.pumpGen++
	s.cond.Broadcast()
	s.mu.Unlock()
}
