// Package vcat holds the reflection machinery of the C15 catalogue check: it
// enumerates typed constants of a Go source file (go/parser, own iota
// evaluation), finds the proto-message accessors of a wrapper type, fills every
// field of a (gogo) protobuf message recursively with unique markers, walks the
// bytes leaves of a message with their proto field names, and offers a fake
// grpc connection that records which reply type the generated gRPC client pairs
// with a request type.  It deliberately imports nothing from client-go so that
// white-box tests of any client-go package (tikvrpc itself included) can use
// it without an import cycle.
package vcat

import (
	"context"
	"fmt"
	"go/ast"
	"go/parser"
	"go/token"
	"io"
	"reflect"
	"sort"
	"strconv"
	"strings"

	"google.golang.org/grpc"
	"google.golang.org/grpc/credentials/insecure"
	"google.golang.org/grpc/metadata"
)

// ---------------------------------------------------------------- constants

// Const is one named constant of the scanned type.
type Const struct {
	Name  string
	Value int64
}

// ParseConsts returns every constant of type typeName declared in the Go file
// (explicitly typed, implicitly repeated in an iota block, or an alias
// `A = B` of such a constant), with its value.
func ParseConsts(file, typeName string) ([]Const, error) {
	fset := token.NewFileSet()
	f, err := parser.ParseFile(fset, file, nil, 0)
	if err != nil {
		return nil, err
	}
	known := map[string]int64{}
	var out []Const
	var eval func(e ast.Expr, iota int64) (int64, bool, bool) // value, ok, mentions a known const of the type
	eval = func(e ast.Expr, iota int64) (int64, bool, bool) {
		switch x := e.(type) {
		case *ast.BasicLit:
			if x.Kind != token.INT {
				return 0, false, false
			}
			v, err := strconv.ParseInt(x.Value, 0, 64)
			return v, err == nil, false
		case *ast.Ident:
			if x.Name == "iota" {
				return iota, true, false
			}
			if v, ok := known[x.Name]; ok {
				return v, true, true
			}
			return 0, false, false
		case *ast.ParenExpr:
			return eval(x.X, iota)
		case *ast.CallExpr: // conversion CmdType(3)
			if id, ok := x.Fun.(*ast.Ident); ok && id.Name == typeName && len(x.Args) == 1 {
				v, ok, _ := eval(x.Args[0], iota)
				return v, ok, true
			}
			return 0, false, false
		case *ast.BinaryExpr:
			a, ok1, t1 := eval(x.X, iota)
			b, ok2, t2 := eval(x.Y, iota)
			if !ok1 || !ok2 {
				return 0, false, false
			}
			switch x.Op {
			case token.ADD:
				return a + b, true, t1 || t2
			case token.SUB:
				return a - b, true, t1 || t2
			case token.MUL:
				return a * b, true, t1 || t2
			case token.SHL:
				return a << uint(b), true, t1 || t2
			case token.OR:
				return a | b, true, t1 || t2
			}
		}
		return 0, false, false
	}
	for _, d := range f.Decls {
		gd, ok := d.(*ast.GenDecl)
		if !ok || gd.Tok != token.CONST {
			continue
		}
		var lastType string
		var lastVals []ast.Expr
		for i, s := range gd.Specs {
			vs := s.(*ast.ValueSpec)
			typ := ""
			vals := vs.Values
			if len(vals) > 0 {
				if id, ok := vs.Type.(*ast.Ident); ok {
					typ = id.Name
				}
				lastType, lastVals = typ, vals
			} else {
				typ, vals = lastType, lastVals
			}
			for j, n := range vs.Names {
				if j >= len(vals) || n.Name == "_" {
					continue
				}
				v, ok, mentions := eval(vals[j], int64(i))
				if !ok {
					continue
				}
				if typ == typeName || (typ == "" && mentions) {
					known[n.Name] = v
					out = append(out, Const{n.Name, v})
				}
			}
		}
	}
	return out, nil
}

// ---------------------------------------------------------------- messages

// IsMsgPtr reports whether t is a pointer to a struct that looks like a
// generated protobuf message.
func IsMsgPtr(t reflect.Type) bool {
	if t.Kind() != reflect.Ptr || t.Elem().Kind() != reflect.Struct {
		return false
	}
	_, a := t.MethodByName("ProtoMessage")
	_, b := t.MethodByName("Reset")
	_, c := t.MethodByName("Marshal")
	return a && b && c
}

// Accessor is a niladic method of a wrapper type returning a proto message.
type Accessor struct {
	Name string
	Msg  reflect.Type // pointer type
}

// Accessors lists the niladic methods of t (a pointer type) that return
// exactly one value which is a pointer to a proto message.
func Accessors(t reflect.Type) []Accessor {
	var out []Accessor
	for i := 0; i < t.NumMethod(); i++ {
		m := t.Method(i)
		if m.Type.NumIn() != 1 || m.Type.NumOut() != 1 {
			continue
		}
		if IsMsgPtr(m.Type.Out(0)) {
			out = append(out, Accessor{m.Name, m.Type.Out(0)})
		}
	}
	return out
}

// TypeName is a short printable name ("kvrpcpb.GetRequest") of a message type.
func TypeName(t reflect.Type) string {
	for t.Kind() == reflect.Ptr {
		t = t.Elem()
	}
	return t.String()
}

// protoName extracts name=... from a protobuf struct tag.
func protoName(sf reflect.StructField) string {
	tag := sf.Tag.Get("protobuf")
	for _, p := range strings.Split(tag, ",") {
		if strings.HasPrefix(p, "name=") {
			return p[5:]
		}
	}
	return ""
}

var bytesType = reflect.TypeOf([]byte(nil))
var bytesListType = reflect.TypeOf([][]byte(nil))

// Filler fills messages deterministically.  Every bytes leaf gets a unique
// marker ("<tag>/<path>"), scalars get small non-zero values, nested
// messages are allocated, repeated fields get Rep elements.  A message type
// is entered at most MaxSelf times on one path (LockInfo.shared_lock_infos).
type Filler struct {
	Tag     string
	Rep     int
	MaxSelf int
	Bool    bool // value given to bool fields
	// Skip, when set, is asked for every field (owner type name, proto
	// name, Go type); true leaves the field at its zero value.
	Skip func(owner, name string, ft reflect.Type) bool
	n    int64
}

// Fill fills *msg (a pointer to a message).
func (f *Filler) Fill(msg interface{}) {
	if f.Rep == 0 {
		f.Rep = 2
	}
	if f.MaxSelf == 0 {
		f.MaxSelf = 2
	}
	f.fillStruct(reflect.ValueOf(msg).Elem(), "", map[reflect.Type]int{})
}

func (f *Filler) marker(path string) []byte {
	return []byte(f.Tag + "/" + path)
}

func (f *Filler) fillStruct(v reflect.Value, path string, stack map[reflect.Type]int) {
	t := v.Type()
	stack[t]++
	defer func() { stack[t]-- }()
	for i := 0; i < t.NumField(); i++ {
		sf := t.Field(i)
		if strings.HasPrefix(sf.Name, "XXX_") || sf.PkgPath != "" {
			continue
		}
		name := protoName(sf)
		if name == "" { // oneof interface or non-proto field: left nil
			continue
		}
		if f.Skip != nil && f.Skip(t.String(), name, sf.Type) {
			continue
		}
		p := name
		if path != "" {
			p = path + "." + name
		}
		f.fillValue(v.Field(i), p, stack)
	}
}

func (f *Filler) fillValue(fv reflect.Value, p string, stack map[reflect.Type]int) {
	ft := fv.Type()
	switch {
	case ft == bytesType:
		fv.SetBytes(f.marker(p))
	case ft == bytesListType:
		l := make([][]byte, f.Rep)
		for k := range l {
			l[k] = f.marker(fmt.Sprintf("%s[%d]", p, k))
		}
		fv.Set(reflect.ValueOf(l))
	case ft.Kind() == reflect.Ptr && ft.Elem().Kind() == reflect.Struct:
		if stack[ft.Elem()] >= f.MaxSelf {
			return
		}
		nv := reflect.New(ft.Elem())
		f.fillStruct(nv.Elem(), p, stack)
		fv.Set(nv)
	case ft.Kind() == reflect.Struct:
		if stack[ft] >= f.MaxSelf {
			return
		}
		f.fillStruct(fv, p, stack)
	case ft.Kind() == reflect.Slice:
		et := ft.Elem()
		if et.Kind() == reflect.Ptr && et.Elem().Kind() == reflect.Struct && stack[et.Elem()] >= f.MaxSelf {
			return
		}
		if et.Kind() == reflect.Struct && stack[et] >= f.MaxSelf {
			return
		}
		l := reflect.MakeSlice(ft, f.Rep, f.Rep)
		for k := 0; k < f.Rep; k++ {
			f.fillValue(l.Index(k), fmt.Sprintf("%s[%d]", p, k), stack)
		}
		fv.Set(l)
	case ft.Kind() == reflect.String:
		fv.SetString("s:" + p)
	case ft.Kind() == reflect.Bool:
		fv.SetBool(f.Bool)
	case ft.Kind() >= reflect.Int && ft.Kind() <= reflect.Int64:
		f.n++
		if ft.PkgPath() != "" { // enum: keep it small and valid-looking
			fv.SetInt(1)
		} else {
			fv.SetInt(100 + f.n)
		}
	case ft.Kind() >= reflect.Uint && ft.Kind() <= reflect.Uint64:
		f.n++
		fv.SetUint(uint64(100 + f.n))
	case ft.Kind() == reflect.Float32 || ft.Kind() == reflect.Float64:
		f.n++
		fv.SetFloat(float64(f.n) + 0.5)
	case ft.Kind() == reflect.Map:
		// maps (rare: ExecDetails-like) are left nil
	}
}

// Leaf is one bytes value inside a message.
type Leaf struct {
	Path  string       // "mutations[1].key", "secondaries[0]"
	Name  string       // proto field name of the bytes field
	Owner reflect.Type // struct type that declares the field
	// Chain lists the proto field names from the root down to (and
	// including) this field, without indices.
	Chain []string
	// Owners lists the struct types from the root message down to Owner.
	Owners []reflect.Type
	// Parent is the struct value that holds the field (for sibling lookups).
	Parent reflect.Value
	Index  int // element index for repeated bytes, -1 otherwise
	val    reflect.Value
}

// Bytes returns the current value.
func (l *Leaf) Bytes() []byte { return l.val.Bytes() }

// Set overwrites the value.
func (l *Leaf) Set(b []byte) { l.val.SetBytes(b) }

// Sibling returns the field of the same struct with the given proto name.
func (l *Leaf) Sibling(name string) (reflect.Value, bool) {
	t := l.Parent.Type()
	for i := 0; i < t.NumField(); i++ {
		if protoName(t.Field(i)) == name {
			return l.Parent.Field(i), true
		}
	}
	return reflect.Value{}, false
}

// OwnerName is the short type name of the struct declaring the field.
func (l *Leaf) OwnerName() string { return l.Owner.String() }

// Walk visits every bytes leaf reachable from msg (pointer to message)
// through set pointers, slices and oneof wrappers.
func Walk(msg interface{}, visit func(*Leaf)) {
	v := reflect.ValueOf(msg)
	if v.Kind() == reflect.Ptr {
		if v.IsNil() {
			return
		}
		v = v.Elem()
	}
	walkStruct(v, "", nil, nil, visit)
}

func walkStruct(v reflect.Value, path string, chain []string, owners []reflect.Type, visit func(*Leaf)) {
	t := v.Type()
	owners = append(owners[:len(owners):len(owners)], t)
	for i := 0; i < t.NumField(); i++ {
		sf := t.Field(i)
		if strings.HasPrefix(sf.Name, "XXX_") || sf.PkgPath != "" {
			continue
		}
		name := protoName(sf)
		fv := v.Field(i)
		if name == "" {
			// oneof: interface holding *Wrapper{Field}
			if fv.Kind() == reflect.Interface && !fv.IsNil() {
				w := fv.Elem()
				if w.Kind() == reflect.Ptr && !w.IsNil() && w.Elem().Kind() == reflect.Struct {
					walkStruct(w.Elem(), path, chain, owners[:len(owners)-1], visit)
				}
			}
			continue
		}
		p := name
		if path != "" {
			p = path + "." + name
		}
		ch := append(chain[:len(chain):len(chain)], name)
		walkValue(fv, v, t, name, p, ch, owners, visit)
	}
}

func walkValue(fv, parent reflect.Value, owner reflect.Type, name, p string, chain []string, owners []reflect.Type, visit func(*Leaf)) {
	ft := fv.Type()
	switch {
	case ft == bytesType:
		visit(&Leaf{Path: p, Name: name, Owner: owner, Chain: chain, Owners: owners, Parent: parent, Index: -1, val: fv})
	case ft == bytesListType:
		for k := 0; k < fv.Len(); k++ {
			visit(&Leaf{Path: fmt.Sprintf("%s[%d]", p, k), Name: name, Owner: owner, Chain: chain, Owners: owners, Parent: parent, Index: k, val: fv.Index(k)})
		}
	case ft.Kind() == reflect.Ptr && ft.Elem().Kind() == reflect.Struct:
		if !fv.IsNil() {
			walkStruct(fv.Elem(), p, chain, owners, visit)
		}
	case ft.Kind() == reflect.Struct:
		walkStruct(fv, p, chain, owners, visit)
	case ft.Kind() == reflect.Slice:
		et := ft.Elem()
		if (et.Kind() == reflect.Ptr && et.Elem().Kind() == reflect.Struct) || et.Kind() == reflect.Struct {
			for k := 0; k < fv.Len(); k++ {
				walkValue(fv.Index(k), parent, owner, name, fmt.Sprintf("%s[%d]", p, k), chain, owners, visit)
			}
		}
	}
}

// StaticLeaf describes a bytes field reachable in a message *type*
// (independent of values), used to size the catalogue.
type StaticLeaf struct {
	Chain    string // "mutations.key"
	Name     string
	Owner    string
	Repeated bool
}

// StaticLeaves enumerates the bytes fields of a message type recursively.
func StaticLeaves(t reflect.Type) []StaticLeaf {
	for t.Kind() == reflect.Ptr {
		t = t.Elem()
	}
	var out []StaticLeaf
	var rec func(t reflect.Type, chain string, stack map[reflect.Type]int)
	rec = func(t reflect.Type, chain string, stack map[reflect.Type]int) {
		if stack[t] >= 1 {
			return
		}
		stack[t]++
		defer func() { stack[t]-- }()
		for i := 0; i < t.NumField(); i++ {
			sf := t.Field(i)
			name := protoName(sf)
			if name == "" || strings.HasPrefix(sf.Name, "XXX_") {
				continue
			}
			c := name
			if chain != "" {
				c = chain + "." + name
			}
			ft := sf.Type
			switch {
			case ft == bytesType:
				out = append(out, StaticLeaf{c, name, t.String(), false})
			case ft == bytesListType:
				out = append(out, StaticLeaf{c, name, t.String(), true})
			default:
				for ft.Kind() == reflect.Ptr || ft.Kind() == reflect.Slice {
					ft = ft.Elem()
				}
				if ft.Kind() == reflect.Struct {
					rec(ft, c, stack)
				}
			}
		}
	}
	rec(t, "", map[reflect.Type]int{})
	return out
}

// Clone deep-copies a gogo message through its own Marshal/Unmarshal.
func Clone(msg interface{}) interface{} {
	type m interface {
		Marshal() ([]byte, error)
	}
	type u interface {
		Unmarshal([]byte) error
	}
	b, err := msg.(m).Marshal()
	if err != nil {
		panic(err)
	}
	n := reflect.New(reflect.TypeOf(msg).Elem()).Interface()
	if err := n.(u).Unmarshal(b); err != nil {
		panic(err)
	}
	return n
}

// Wire returns the marshalled form of a message ("" for nil).
func Wire(msg interface{}) string {
	type m interface {
		Marshal() ([]byte, error)
	}
	if msg == nil || reflect.ValueOf(msg).IsNil() {
		return ""
	}
	b, err := msg.(m).Marshal()
	if err != nil {
		return "marshal-error:" + err.Error()
	}
	return string(b)
}

// ---------------------------------------------------------------- fake grpc

// Call is one unary or streaming call seen by FakeConn.
type Call struct {
	Method string
	Args   interface{}
	Reply  interface{} // unary: the reply object the generated client allocated
	Stream bool
}

// FakeConn records the calls the generated gRPC client code makes, without
// any network: it is installed as unary and stream interceptor of a lazily
// connecting *grpc.ClientConn (see Dial) and never calls the real invoker.
// OnReply may fill the typed reply object the generated client allocated.
type FakeConn struct {
	Calls   []Call
	OnReply func(method string, args, reply interface{})
}

// Dial returns a *grpc.ClientConn whose every call ends in c.
func (c *FakeConn) Dial() (*grpc.ClientConn, error) {
	return grpc.NewClient("passthrough:///verif-fake",
		grpc.WithTransportCredentials(insecure.NewCredentials()),
		grpc.WithUnaryInterceptor(func(ctx context.Context, method string, req, reply interface{}, cc *grpc.ClientConn, invoker grpc.UnaryInvoker, opts ...grpc.CallOption) error {
			return c.Invoke(ctx, method, req, reply, opts...)
		}),
		grpc.WithStreamInterceptor(func(ctx context.Context, desc *grpc.StreamDesc, cc *grpc.ClientConn, method string, streamer grpc.Streamer, opts ...grpc.CallOption) (grpc.ClientStream, error) {
			return c.NewStream(ctx, desc, method, opts...)
		}))
}

// Invoke records a unary call.
func (c *FakeConn) Invoke(ctx context.Context, method string, args, reply interface{}, opts ...grpc.CallOption) error {
	c.Calls = append(c.Calls, Call{Method: method, Args: args, Reply: reply})
	if c.OnReply != nil {
		c.OnReply(method, args, reply)
	}
	return nil
}

// NewStream returns a stream that records SendMsg / RecvMsg.
func (c *FakeConn) NewStream(ctx context.Context, desc *grpc.StreamDesc, method string, opts ...grpc.CallOption) (grpc.ClientStream, error) {
	return &fakeStream{c: c, method: method, ctx: ctx}, nil
}

type fakeStream struct {
	c      *FakeConn
	method string
	ctx    context.Context
}

func (s *fakeStream) Header() (metadata.MD, error) { return nil, nil }
func (s *fakeStream) Trailer() metadata.MD         { return nil }
func (s *fakeStream) CloseSend() error             { return nil }
func (s *fakeStream) Context() context.Context     { return s.ctx }
func (s *fakeStream) SendMsg(m interface{}) error {
	s.c.Calls = append(s.c.Calls, Call{Method: s.method, Args: m, Stream: true})
	return nil
}
func (s *fakeStream) RecvMsg(m interface{}) error {
	// remember the element type of the stream, then end it
	s.c.Calls = append(s.c.Calls, Call{Method: s.method, Reply: m, Stream: true})
	return io.EOF
}

// SortedKeys returns the sorted keys of a string-keyed map.
func SortedKeys[V any](m map[string]V) []string {
	ks := make([]string, 0, len(m))
	for k := range m {
		ks = append(ks, k)
	}
	sort.Strings(ks)
	return ks
}

// ---------------------------------------------------------------- catalogue

// Probe is one function of the code under test that takes a wrapped request
// of a command type and (possibly) type-asserts the message inside.
type Probe struct {
	Name string
	// Run executes the function on a wrapper built by NewReq; it reports
	// whether the function accepted the command type (false = it returned
	// its "unknown/invalid type" answer).  It may panic.
	Run func(req interface{}) (accepted bool)
}

// Cmd is one catalogue entry.
type Cmd struct {
	Name    string // constant name(s), e.g. "CmdRawGetKeyTTL=CmdGetKeyTTL"
	Str     string // String() form
	Value   int64
	Req     reflect.Type // request message (pointer type), nil if undetermined
	Cands   []string     // candidate request types that no probe rejected by a type assertion
	Untyped bool         // no probe ever looked at the message
	// Accepted[probe] tells whether the probe accepted the command with the
	// paired request type.
	Accepted map[string]bool
	// Panics[probe] holds a non-type-assertion panic met with the paired type.
	Panics map[string]string
	// Resp is the reply type the generated gRPC client pairs with Req
	// (pointer type; for streams the element type of the stream), nil if
	// the command never reached the connection.
	Resp       reflect.Type
	RespStream bool
	Method     string
}

func isTypeAssertionPanic(p interface{}) bool {
	if e, ok := p.(error); ok {
		return strings.Contains(e.Error(), "interface conversion")
	}
	return false
}

// BuildCatalogue pairs each command value with its request message type: the
// accessor return type that every probe takes without a type-assertion panic.
func BuildCatalogue(values map[int64][]string, str func(int64) string, accessorTypes []reflect.Type,
	newReq func(cmd int64, msg interface{}) interface{}, probes []Probe, conn *FakeConn) []*Cmd {
	var vals []int64
	for v := range values {
		vals = append(vals, v)
	}
	sort.Slice(vals, func(i, j int) bool { return vals[i] < vals[j] })
	var out []*Cmd
	for _, v := range vals {
		names := append([]string(nil), values[v]...)
		sort.Strings(names)
		c := &Cmd{Name: strings.Join(names, "="), Str: str(v), Value: v, Accepted: map[string]bool{}, Panics: map[string]string{}}
		type res struct {
			acc    map[string]bool
			pan    map[string]string
			resp   reflect.Type
			stream bool
			method string
		}
		var cands []reflect.Type
		results := map[reflect.Type]*res{}
		rejectedSome := false
		for _, T := range accessorTypes {
			r := &res{acc: map[string]bool{}, pan: map[string]string{}}
			typeMismatch := false
			for _, p := range probes {
				func() {
					defer func() {
						if x := recover(); x != nil {
							if isTypeAssertionPanic(x) {
								typeMismatch = true
							} else {
								r.pan[p.Name] = fmt.Sprint(x)
							}
						}
					}()
					conn.Calls = nil
					ok := p.Run(newReq(v, reflect.New(T.Elem()).Interface()))
					r.acc[p.Name] = ok
					for _, call := range conn.Calls {
						if call.Reply != nil && r.resp == nil {
							r.resp, r.stream, r.method = reflect.TypeOf(call.Reply), call.Stream, call.Method
						}
						if call.Method != "" {
							r.method = call.Method
						}
					}
				}()
			}
			if typeMismatch {
				rejectedSome = true
				continue
			}
			cands = append(cands, T)
			results[T] = r
		}
		for _, T := range cands {
			c.Cands = append(c.Cands, TypeName(T))
		}
		switch {
		case !rejectedSome:
			c.Untyped = true
			c.Cands = nil
		case len(cands) == 1:
			c.Req = cands[0]
			r := results[c.Req]
			c.Accepted, c.Panics, c.Resp, c.RespStream, c.Method = r.acc, r.pan, r.resp, r.stream, r.method
		}
		out = append(out, c)
	}
	return out
}
