// Package vrep is the result/evidence writer shared by every verification
// harness.  It is mounted into the client-go module by the runner's overlay as
// github.com/tikv/client-go/v2/verifh/vrep and only depends on the standard
// library, so in-package (white-box) tests of any client-go package can import
// it without an import cycle.
//
// A harness creates one Report per unit, feeds it with what its monitors
// observed and calls Finish, which writes $VERIF_OUT/<unit>.json.  The runner
// (tools/vcheck.py) merges the unit files into evidence/<id>.json, applies
// KNOWN_FINDINGS.txt and decides the exit code.
package vrep

import (
	"encoding/json"
	"fmt"
	"hash/fnv"
	"math/rand"
	"os"
	"path/filepath"
	"sort"
	"strconv"
	"sync"
	"time"
)

// Violation is one oracle failure on a concrete execution.
type Violation struct {
	// Sig is a stable signature of *what* fails (input class / call site /
	// history shape); KNOWN_FINDINGS.txt matches on it.
	Sig string `json:"sig"`
	// Msg is the human readable clause that failed.
	Msg string `json:"msg"`
	// Detail carries the witness (inputs, history, trace); it ends up in
	// the replay file.
	Detail any `json:"detail,omitempty"`
}

// Report accumulates what one unit observed.  All methods are safe for
// concurrent use: the monitor's own state must not become the race.
type Report struct {
	mu           sync.Mutex
	Property     string           `json:"property"`
	Unit         string           `json:"unit"`
	Seed         int64            `json:"seed"`
	Tier         string           `json:"tier"`
	Rule         string           `json:"rule"`
	Evaluations  int64            `json:"evaluations"`
	DistinctN    int              `json:"distinct_nontrivial"`
	Counters     map[string]int64 `json:"counters"`
	Samples      []any            `json:"samples"`
	Violations   []Violation      `json:"violations"`
	ViolationsN  int              `json:"violations_total"`
	Inconclusive []string         `json:"inconclusive"`
	Floors       map[string]int64 `json:"floors,omitempty"`
	Exhaustive   bool             `json:"exhaustive,omitempty"`
	Assumptions  []string         `json:"assumptions,omitempty"`
	WallS        float64          `json:"wall_s"`
	Finished     bool             `json:"finished"`

	distinct   map[uint64]struct{}
	sigSeen    map[string]int
	start      time.Time
	maxSamples int
}

// Seed returns VERIF_SEED (default 1).
func Seed() int64 {
	if s := os.Getenv("VERIF_SEED"); s != "" {
		if v, err := strconv.ParseInt(s, 10, 64); err == nil {
			return v
		}
	}
	return 1
}

// Tier returns VERIF_TIER: "quick" (default) or "thorough".
func Tier() string {
	if os.Getenv("VERIF_TIER") == "thorough" {
		return "thorough"
	}
	return "quick"
}

// Thorough reports whether the thorough tier is running.
func Thorough() bool { return Tier() == "thorough" }

// Pick returns q in the quick tier and t in the thorough tier.
func Pick(q, t int) int {
	if Thorough() {
		return t
	}
	return q
}

// Rand returns a PRNG determined by VERIF_SEED and the stream name, so that
// every sub-workload has its own reproducible stream.
func Rand(stream string) *rand.Rand {
	h := fnv.New64a()
	h.Write([]byte(stream))
	return rand.New(rand.NewSource(Seed()*1000003 + int64(h.Sum64()&0x7fffffffffff)))
}

// ReplayPath returns VERIF_REPLAY (empty unless the runner replays a witness).
func ReplayPath() string { return os.Getenv("VERIF_REPLAY") }

// New creates a report for a unit of a property.
func New(property, unit, rule string) *Report {
	return &Report{
		Property: property, Unit: unit, Seed: Seed(), Tier: Tier(), Rule: rule,
		Counters: map[string]int64{}, distinct: map[uint64]struct{}{},
		sigSeen: map[string]int{}, start: time.Now(), maxSamples: 6,
		Floors: map[string]int64{},
	}
}

// Eval counts n oracle evaluations / executions.
func (r *Report) Eval(n int) {
	r.mu.Lock()
	r.Evaluations += int64(n)
	r.mu.Unlock()
}

// Distinct records the fingerprint of a non-trivial case; equal fingerprints
// are counted once.
func (r *Report) Distinct(fp string) {
	h := fnv.New64a()
	h.Write([]byte(fp))
	k := h.Sum64()
	r.mu.Lock()
	r.distinct[k] = struct{}{}
	r.mu.Unlock()
}

// Count adds n to a named observation counter.
func (r *Report) Count(name string, n int) {
	r.mu.Lock()
	r.Counters[name] += int64(n)
	r.mu.Unlock()
}

// Get returns a counter.
func (r *Report) Get(name string) int64 {
	r.mu.Lock()
	defer r.mu.Unlock()
	return r.Counters[name]
}

// Floor declares that counter name must reach at least n for the run to count
// as "held"; a run below a floor is inconclusive, never "held".
func (r *Report) Floor(name string, n int) {
	r.mu.Lock()
	r.Floors[name] = int64(n)
	r.mu.Unlock()
}

// Sample keeps up to a handful of actual cases, written out.
func (r *Report) Sample(v any) {
	r.mu.Lock()
	if len(r.Samples) < r.maxSamples {
		r.Samples = append(r.Samples, v)
	}
	r.mu.Unlock()
}

// SampleN reports how many samples were kept so far.
func (r *Report) SampleN() int {
	r.mu.Lock()
	defer r.mu.Unlock()
	return len(r.Samples)
}

// Violate records an oracle failure.  At most three witnesses per signature
// and 40 in total are kept; all are counted.
func (r *Report) Violate(sig, msg string, detail any) {
	r.mu.Lock()
	defer r.mu.Unlock()
	r.ViolationsN++
	r.sigSeen[sig]++
	if r.sigSeen[sig] > 3 || len(r.Violations) >= 40 {
		return
	}
	r.Violations = append(r.Violations, Violation{Sig: sig, Msg: msg, Detail: detail})
}

// Violatef is Violate with a formatted message and no detail.
func (r *Report) Violatef(sig, format string, a ...any) {
	r.Violate(sig, fmt.Sprintf(format, a...), nil)
}

// NViolations returns the number of violations so far.
func (r *Report) NViolations() int {
	r.mu.Lock()
	defer r.mu.Unlock()
	return r.ViolationsN
}

// Inconc records a case that could not be decided (watchdog, checker timeout).
func (r *Report) Inconc(format string, a ...any) {
	r.mu.Lock()
	if len(r.Inconclusive) < 20 {
		r.Inconclusive = append(r.Inconclusive, fmt.Sprintf(format, a...))
	}
	r.mu.Unlock()
}

// Assume records an assumption / trusted base item.
func (r *Report) Assume(s string) {
	r.mu.Lock()
	r.Assumptions = append(r.Assumptions, s)
	r.mu.Unlock()
}

// SetExhaustive marks the run as a complete enumeration of a finite space.
func (r *Report) SetExhaustive(b bool) {
	r.mu.Lock()
	r.Exhaustive = b
	r.mu.Unlock()
}

// Flush writes the current state (Finished=false unless Finish was called);
// harnesses call it before risky steps so that a process-fatal sanitizer
// report still leaves a partial record.
func (r *Report) Flush() {
	r.mu.Lock()
	defer r.mu.Unlock()
	r.write()
}

func (r *Report) write() {
	dir := os.Getenv("VERIF_OUT")
	if dir == "" {
		return
	}
	r.DistinctN = len(r.distinct)
	r.WallS = time.Since(r.start).Seconds()
	// deterministic order of violations by signature, then message
	sort.SliceStable(r.Violations, func(i, j int) bool { return r.Violations[i].Sig < r.Violations[j].Sig })
	b, err := json.MarshalIndent(r, "", " ")
	if err != nil {
		b, _ = json.Marshal(map[string]any{"property": r.Property, "unit": r.Unit, "marshal_error": err.Error(),
			"violations_total": r.ViolationsN, "finished": r.Finished, "evaluations": r.Evaluations})
	}
	tmp := filepath.Join(dir, r.Unit+".json.tmp")
	if err := os.WriteFile(tmp, b, 0o644); err == nil {
		os.Rename(tmp, filepath.Join(dir, r.Unit+".json"))
	}
}

// TB is the subset of testing.TB that Finish needs.
type TB interface {
	Logf(format string, args ...any)
	Errorf(format string, args ...any)
}

// Finish checks the coverage floors, writes the unit file and reports
// violations through t (so `go test` output shows them as well).
func (r *Report) Finish(t TB) {
	r.mu.Lock()
	defer r.mu.Unlock()
	for name, floor := range r.Floors {
		if r.Counters[name] < floor {
			if len(r.Inconclusive) < 40 {
				r.Inconclusive = append(r.Inconclusive, fmt.Sprintf("coverage floor missed: %s=%d < %d", name, r.Counters[name], floor))
			}
		}
	}
	r.Finished = true
	r.write()
	if t != nil {
		t.Logf("[vrep] %s/%s evaluations=%d distinct=%d violations=%d inconclusive=%d counters=%v",
			r.Property, r.Unit, r.Evaluations, len(r.distinct), r.ViolationsN, len(r.Inconclusive), r.Counters)
		for _, v := range r.Violations {
			t.Errorf("[vrep] VIOLATION %s sig=%s: %s", r.Property, v.Sig, v.Msg)
		}
	}
}
