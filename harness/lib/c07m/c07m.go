// Package c07m is the reference model, program generator and comparison driver
// of property C07 (a transaction reads its own writes over its snapshot;
// savepoint rollback undoes).  It only depends on the standard library and
// vrep, so the in-package harnesses of internal/unionstore, txnkv/transaction
// and the external test package of tikv can all drive their system under test
// (SUT) through it.
//
// The model is deliberately tiny: the snapshot is a map, the transaction's
// buffer is a map overlay (empty value = tombstone), a staging level and a
// checkpoint are saved copies of the overlay.  Every read of the SUT is compared
// with the merged view of the model; after every mutating step the whole view
// is compared (get of every key, batch get, full forward and reverse
// iteration, one random bounded iteration each way).
package c07m

import (
	"bytes"
	"encoding/hex"
	"fmt"
	"math/rand"
	"sort"
	"strings"
	"sync"

	"github.com/tikv/client-go/v2/verifh/vrep"
)

// Iterator is the iterator shape of unionstore.Iterator.
type Iterator interface {
	Valid() bool
	Key() []byte
	Value() []byte
	Next() error
	Close()
}

// SUT is one transaction-like object under test.
type SUT interface {
	// Get returns found=false for "does not exist".
	Get(k []byte) (v []byte, found bool, err error)
	BatchGet(keys [][]byte) (map[string][]byte, error)
	// Iter yields keys >= k (all if k is empty) and < upper (nil: unbounded) ascending.
	Iter(k, upper []byte) (Iterator, error)
	// IterReverse yields keys < k (nil: from the end) and >= lower (nil/empty: unbounded) descending.
	IterReverse(k, lower []byte) (Iterator, error)
	Set(k, v []byte) error
	Delete(k []byte) error
	Staging() int
	Release(h int)
	Cleanup(h int)
	Checkpoint() any
	Revert(cp any)
	// Lock gives k key flags without a value (a flags-only buffer entry): persistent = a flag that survives
	// rollbacks (key locked), otherwise a flag a rollback clears. Invisible to every read.
	Lock(k []byte, persistent bool) error
	// SetLocked writes k = v and marks k locked; when the write is rolled back a flags-only entry is left behind.
	SetLocked(k, v []byte) error
	Close()
}

// World owns one fixed snapshot content; every sequence gets a fresh SUT over it.
type World interface {
	NewSUT(rng *rand.Rand) (SUT, error)
	Close()
}

// WorldFactory builds a world whose snapshot holds exactly snap.
type WorldFactory func(snap map[string][]byte, universe [][]byte, rng *rand.Rand) (World, error)

// Config sizes one workload.
type Config struct {
	Name         string // SUT name, first component of every violation signature
	Stream       string // PRNG stream prefix
	Worlds       int
	SeqsPerWorld int
	Ops          int
	EmptyKey     bool // may the empty key be a data key
	Workers      int  // >1: worlds are distributed over goroutines (the SUT/world must allow it)
	BatchHeavy   bool // bias the op mix towards batch gets
	SweepEvery   int  // exhaustive: run the all-bound-pairs sweep at the end of every n-th sequence (0/1: every)
}

type opKind int

const (
	opSet opKind = iota
	opDel
	opGet
	opBGet
	opIter
	opRIter
	opStaging
	opRelease
	opCleanup
	opCheckpoint
	opRevert
	opLock
	opLockedSet
	nOpKinds
)

var opNames = [...]string{"set", "delete", "get", "batchget", "iter", "iter-reverse", "staging", "release", "cleanup", "checkpoint", "revert", "lock", "locked-set"}

func (k opKind) String() string { return opNames[k] }

func (k opKind) mutating() bool {
	switch k {
	case opGet, opBGet, opIter, opRIter:
		return false
	}
	return true
}

type op struct {
	kind opKind
	key  []byte
	val  []byte
	keys [][]byte
	a, b []byte // iter: a=start, b=upper bound; iter-reverse: a=start (exclusive upper), b=lower bound
	cp   int    // revert: index of the checkpoint (in order of creation)
}

func hx(b []byte) string {
	if b == nil {
		return "nil"
	}
	return "x'" + hex.EncodeToString(b) + "'"
}

func (o op) String() string {
	switch o.kind {
	case opSet, opLockedSet:
		return fmt.Sprintf("%s(%s,%s)", o.kind, hx(o.key), hx(o.val))
	case opLock:
		return fmt.Sprintf("lock(%s,persistent=%v)", hx(o.key), o.cp == 1)
	case opDel, opGet:
		return fmt.Sprintf("%s(%s)", o.kind, hx(o.key))
	case opBGet:
		s := make([]string, len(o.keys))
		for i, k := range o.keys {
			s[i] = hx(k)
		}
		return "batchget(" + strings.Join(s, ",") + ")"
	case opIter, opRIter:
		return fmt.Sprintf("%s(%s,%s)", o.kind, hx(o.a), hx(o.b))
	case opRevert:
		return fmt.Sprintf("revert(cp#%d)", o.cp)
	}
	return o.kind.String() + "()"
}

// ---------------------------------------------------------------- model

type kvPair struct{ k, v []byte }

type stageRec struct {
	id     int
	seq    int
	handle int
	saved  map[string][]byte
}

type cpRec struct {
	seq   int
	stack []int
	saved map[string][]byte
	valid bool
	tok   any
}

type wrec struct {
	seq      int
	key      string
	old, new []byte
	had      bool
}

type model struct {
	snap   map[string][]byte
	ov     map[string][]byte // empty value = tombstone
	stages []stageRec
	cps    []*cpRec
	wlog   []wrec
	seq    int
	nextID int
	view   []kvPair // merged, ascending; rebuilt after every mutation
}

func newModel(snap map[string][]byte) *model {
	m := &model{snap: snap, ov: map[string][]byte{}}
	m.rebuild()
	return m
}

func cloneMap(m map[string][]byte) map[string][]byte {
	c := make(map[string][]byte, len(m))
	for k, v := range m {
		c[k] = v
	}
	return c
}

func (m *model) tick() int { m.seq++; return m.seq }

func (m *model) rebuild() {
	m.view = m.view[:0]
	for k, v := range m.snap {
		if _, ok := m.ov[k]; !ok {
			m.view = append(m.view, kvPair{[]byte(k), v})
		}
	}
	for k, v := range m.ov {
		if len(v) > 0 {
			m.view = append(m.view, kvPair{[]byte(k), v})
		}
	}
	sort.Slice(m.view, func(i, j int) bool { return bytes.Compare(m.view[i].k, m.view[j].k) < 0 })
}

func (m *model) get(k []byte) ([]byte, bool) {
	if v, ok := m.ov[string(k)]; ok {
		return v, len(v) > 0
	}
	v, ok := m.snap[string(k)]
	return v, ok
}

func (m *model) write(k, v []byte) {
	old, had := m.ov[string(k)]
	m.wlog = append(m.wlog, wrec{seq: m.tick(), key: string(k), old: old, had: had, new: v})
	m.ov[string(k)] = v
	m.rebuild()
}

func (m *model) stackIDs() []int {
	ids := make([]int, len(m.stages))
	for i, s := range m.stages {
		ids[i] = s.id
	}
	return ids
}

func (m *model) staging(h int) {
	m.nextID++
	m.stages = append(m.stages, stageRec{id: m.nextID, seq: m.tick(), handle: h, saved: cloneMap(m.ov)})
}

func (m *model) top() *stageRec { return &m.stages[len(m.stages)-1] }

func (m *model) release() { m.tick(); m.stages = m.stages[:len(m.stages)-1] }

func (m *model) cleanup() {
	t := m.stages[len(m.stages)-1]
	m.stages = m.stages[:len(m.stages)-1]
	m.ov = t.saved
	// a checkpoint taken inside the discarded level points into discarded log
	for _, c := range m.cps {
		if c.seq > t.seq {
			c.valid = false
		}
	}
	m.tick()
	m.rebuild()
}

func (m *model) checkpoint(tok any) {
	m.cps = append(m.cps, &cpRec{seq: m.tick(), stack: m.stackIDs(), saved: cloneMap(m.ov), valid: true, tok: tok})
}

// revertible lists the checkpoints that may legally be reverted to now: not
// invalidated by a rollback to before them, and taken inside the current
// innermost staging level or in a level nested in it that has been released
// since (never below the mark of a level that is still open).
func (m *model) revertible() []int {
	cur := m.stackIDs()
	var out []int
	for i, c := range m.cps {
		if !c.valid || len(cur) > len(c.stack) {
			continue
		}
		ok := true
		for j := range cur {
			if cur[j] != c.stack[j] {
				ok = false
				break
			}
		}
		if ok {
			out = append(out, i)
		}
	}
	return out
}

// revert returns whether the D10 shape occurred: a value that existed when the
// checkpoint was taken was overwritten afterwards by a different value of the
// same length.
func (m *model) revert(i int) (d10 bool) {
	c := m.cps[i]
	for _, w := range m.wlog {
		if w.seq > c.seq && w.had && len(w.old) > 0 && len(w.old) == len(w.new) && !bytes.Equal(w.old, w.new) {
			if cv, ok := c.saved[w.key]; ok && bytes.Equal(cv, w.old) {
				d10 = true
			}
		}
	}
	m.ov = cloneMap(c.saved)
	for _, o := range m.cps {
		if o.seq > c.seq {
			o.valid = false
		}
	}
	m.tick()
	m.rebuild()
	return d10
}

func (m *model) expectIter(a, b []byte) []kvPair {
	var out []kvPair
	for _, p := range m.view {
		if len(a) > 0 && bytes.Compare(p.k, a) < 0 {
			continue
		}
		if b != nil && bytes.Compare(p.k, b) >= 0 {
			continue
		}
		out = append(out, p)
	}
	return out
}

func (m *model) expectRIter(a, b []byte) []kvPair {
	var out []kvPair
	for i := len(m.view) - 1; i >= 0; i-- {
		p := m.view[i]
		if a != nil && bytes.Compare(p.k, a) >= 0 {
			continue
		}
		if len(b) > 0 && bytes.Compare(p.k, b) < 0 {
			continue
		}
		out = append(out, p)
	}
	return out
}

// rangeMix classifies what a range read has to merge.
func (m *model) rangeMix(in func(k []byte) bool) (ovN, snapN, hidden, shadow, dangling int) {
	for k, v := range m.ov {
		if !in([]byte(k)) {
			continue
		}
		ovN++
		_, inSnap := m.snap[k]
		switch {
		case len(v) == 0 && inSnap:
			hidden++
		case len(v) == 0:
			dangling++
		case inSnap:
			shadow++
		}
	}
	for k := range m.snap {
		if in([]byte(k)) {
			snapN++
		}
	}
	return
}

// ---------------------------------------------------------------- worlds

var stems = [][]byte{
	{}, []byte("a"), []byte("ab"), {0x00}, {0xff}, {'a', 0xff}, {0xff, 0xff},
	[]byte("ppppppppppppppppppppppppp"),  // longer than the radix tree's in-node prefix
	[]byte("ppppppppppppppppppppppppq"),  // differs from the previous one only in byte 25
	[]byte("pppppppppppppppppppp"),       // exactly 20
	{0x00, 0x00, 0x00, 0x00, 0x00, 0x00}, // all zero
}

var suffixes = [][]byte{{}, {0x00}, {0x00, 0x00}, {0xff}, {0x00, 0xff}, {0x01}, {0xff, 0x00}, {0xfe}}

func cat(a, b []byte) []byte {
	return append(append(make([]byte, 0, len(a)+len(b)), a...), b...)
}

// GenWorld picks the key universe (4..10 keys out of one to three
// prefix-related families plus random strings), the snapshot content (a random
// subset of the universe with non-empty values) and the pool of iteration
// bounds (keys, their immediate successors k+00, their predecessors-ish,
// foreign keys, nil).
func GenWorld(rng *rand.Rand, cfg *Config) (uni [][]byte, snap map[string][]byte, bounds [][]byte) {
	seen := map[string]bool{}
	var fam [][]byte
	add := func(k []byte) {
		if len(k) == 0 && !cfg.EmptyKey {
			return
		}
		if !seen[string(k)] {
			seen[string(k)] = true
			fam = append(fam, k)
		}
	}
	for n := 1 + rng.Intn(3); n > 0; n-- {
		st := stems[rng.Intn(len(stems))]
		for _, sf := range suffixes {
			add(cat(st, sf))
		}
	}
	for n := rng.Intn(3); n > 0; n-- {
		b := make([]byte, 1+rng.Intn(4))
		for i := range b {
			b[i] = byte(rng.Intn(256))
		}
		add(b)
	}
	rng.Shuffle(len(fam), func(i, j int) { fam[i], fam[j] = fam[j], fam[i] })
	n := 4 + rng.Intn(7)
	if n > len(fam) {
		n = len(fam)
	}
	uni = fam[:n]
	rest := fam[n:]
	snap = map[string][]byte{}
	p := []float64{0.0, 0.3, 0.5, 0.5, 0.8, 1.0}[rng.Intn(6)]
	for i, k := range uni {
		if rng.Float64() < p {
			snap[string(k)] = []byte(fmt.Sprintf("s%d", i))
		}
	}
	bseen := map[string]bool{}
	addB := func(k []byte) {
		if len(k) > 0 && !bseen[string(k)] {
			bseen[string(k)] = true
			bounds = append(bounds, k)
		}
	}
	for _, k := range uni {
		addB(k)
		addB(cat(k, []byte{0}))
		if len(k) > 1 {
			addB(k[:len(k)-1])
		}
		if len(k) > 0 {
			c := cat(k, nil)
			c[len(c)-1]++
			addB(c)
			c = cat(k, nil)
			c[len(c)-1]--
			addB(c)
		}
	}
	for i, k := range rest {
		if i < 4 {
			addB(k)
		}
	}
	addB([]byte{0xff, 0xff, 0xff, 0xff})
	addB([]byte{0x00})
	return
}

// ---------------------------------------------------------------- runner

type runner struct {
	r       *vrep.Report
	cfg     *Config
	sut     SUT
	m       *model
	rng     *rand.Rand
	uni     [][]byte
	bounds  [][]byte
	log     []string
	lastMut string
	failed  bool
	where   map[string]any
	maxDep  int
	inFull  bool
	locked  map[string]bool // keys that carry a persistent flag in the buffer (flags are never rolled back)
	cnt     map[string]int  // flushed into the report once per sequence (the report's mutex is shared by all workers)
	evals   int
}

func (x *runner) count(name string, n int) {
	if x.cnt == nil {
		x.cnt = map[string]int{}
	}
	x.cnt[name] += n
}

// fpr builds a fingerprint without fmt.
func fpr(parts ...[]byte) string {
	n := 0
	for _, p := range parts {
		n += len(p) + 2
	}
	b := make([]byte, 0, n)
	for _, p := range parts {
		if p == nil {
			b = append(b, 0xFD)
		}
		b = append(b, p...)
		b = append(b, 0xFE, byte(len(p)))
	}
	return string(b)
}

func flat(ps []kvPair) []byte {
	var b []byte
	for _, q := range ps {
		b = append(b, q.k...)
		b = append(b, 0xFC, byte(len(q.k)))
		b = append(b, q.v...)
		b = append(b, 0xFB, byte(len(q.v)))
	}
	return b
}

type caught struct{ v any }

func (x *runner) safe(f func()) (p *caught) {
	defer func() {
		if v := recover(); v != nil {
			p = &caught{v}
		}
	}()
	f()
	return nil
}

func (x *runner) violate(read, class, msg string) {
	if x.failed {
		return
	}
	x.failed = true
	// A failure in the full check that directly follows a mutating step is
	// attributed to that step (the same check passed before it); a failure of a
	// generated read is attributed to the read and its input class alone.
	sig := fmt.Sprintf("%s:%s:%s", x.cfg.Name, read, class)
	if x.inFull {
		sig = fmt.Sprintf("%s:after-%s:%s:%s", x.cfg.Name, x.lastMut, read, class)
	}
	snap := map[string]string{}
	for k, v := range x.m.snap {
		snap[hex.EncodeToString([]byte(k))] = hex.EncodeToString(v)
	}
	ov := map[string]string{}
	for k, v := range x.m.ov {
		ov[hex.EncodeToString([]byte(k))] = hex.EncodeToString(v)
	}
	d := map[string]any{"snapshot_hex": snap, "program": append([]string(nil), x.log...), "failing_step": len(x.log),
		"model_overlay_hex": ov, "staging_depth": len(x.m.stages)}
	for k, v := range x.where {
		d[k] = v
	}
	tail := x.log
	if len(tail) > 12 {
		tail = tail[len(tail)-12:]
	}
	x.r.Violate(sig, fmt.Sprintf("%s; snapshot=%v; last steps: %s", msg, snap, strings.Join(tail, " ; ")), d)
}

func (x *runner) allKeys() [][]byte {
	seen := map[string]bool{}
	var out [][]byte
	for _, k := range x.uni {
		if !seen[string(k)] {
			seen[string(k)] = true
			out = append(out, k)
		}
	}
	for k := range x.m.ov {
		if !seen[k] {
			seen[k] = true
			out = append(out, []byte(k))
		}
	}
	for k := range x.m.snap {
		if !seen[k] {
			seen[k] = true
			out = append(out, []byte(k))
		}
	}
	sort.Slice(out, func(i, j int) bool { return bytes.Compare(out[i], out[j]) < 0 })
	return out
}

func (x *runner) classifyAbsent(k []byte) string {
	if v, ok := x.m.ov[string(k)]; ok && len(v) == 0 {
		if _, s := x.m.snap[string(k)]; s {
			return "deleted-snapshot-key-visible"
		}
		return "deleted-key-visible"
	}
	return "phantom-key"
}

func (x *runner) checkGet(k []byte, fp bool) {
	if x.failed {
		return
	}
	var v []byte
	var found bool
	var err error
	if p := x.safe(func() { v, found, err = x.sut.Get(k) }); p != nil {
		x.violate("get", "panic", fmt.Sprintf("Get(%s) panicked: %v", hx(k), p.v))
		return
	}
	x.evals++
	exp, ok := x.m.get(k)
	switch {
	case err != nil:
		x.violate("get", "error", fmt.Sprintf("Get(%s) error %v", hx(k), err))
	case found && !ok:
		x.violate("get", x.classifyAbsent(k), fmt.Sprintf("Get(%s) = %s but the key does not exist in the transaction's view", hx(k), hx(v)))
	case !found && ok:
		x.violate("get", "missing-key", fmt.Sprintf("Get(%s) = not found, expected %s", hx(k), hx(exp)))
	case found && !bytes.Equal(v, exp):
		x.violate("get", "wrong-value", fmt.Sprintf("Get(%s) = %s, expected %s", hx(k), hx(v), hx(exp)))
	}
	if fp {
		_, inOv := x.m.ov[string(k)]
		_, inSnap := x.m.snap[string(k)]
		if inOv && inSnap {
			x.r.Distinct(fpr([]byte("get"), k, exp))
		}
	}
}

func (x *runner) checkBatchGet(keys [][]byte, fp bool) {
	if x.failed {
		return
	}
	var res map[string][]byte
	var err error
	if p := x.safe(func() { res, err = x.sut.BatchGet(keys) }); p != nil {
		x.violate("batchget", "panic", fmt.Sprintf("BatchGet(%d keys) panicked: %v", len(keys), p.v))
		return
	}
	x.evals++
	if err != nil {
		x.violate("batchget", "error", fmt.Sprintf("BatchGet error %v", err))
		return
	}
	asked := map[string]bool{}
	times := map[string]int{}
	for _, k := range keys {
		times[string(k)]++
	}
	both := 0
	for _, k := range keys {
		asked[string(k)] = true
		name := "batchget"
		if times[string(k)] > 1 {
			name = "batchget-duplicate-key"
			if v, ok := x.m.ov[string(k)]; ok && len(v) == 0 {
				if _, s := x.m.snap[string(k)]; s {
					x.count("batchget_duplicate_deleted_key", 1)
				}
			}
		}
		exp, ok := x.m.get(k)
		v, found := res[string(k)]
		switch {
		case found && !ok:
			x.violate(name, x.classifyAbsent(k), fmt.Sprintf("BatchGet has %s = %s but the key does not exist in the transaction's view", hx(k), hx(v)))
		case !found && ok:
			x.violate(name, "missing-key", fmt.Sprintf("BatchGet lacks %s, expected %s", hx(k), hx(exp)))
		case found && !bytes.Equal(v, exp):
			x.violate(name, "wrong-value", fmt.Sprintf("BatchGet has %s = %s, expected %s", hx(k), hx(v), hx(exp)))
		}
		if x.failed {
			return
		}
		_, inOv := x.m.ov[string(k)]
		_, inSnap := x.m.snap[string(k)]
		if inOv && inSnap {
			both++
		}
	}
	for k := range res {
		if !asked[k] {
			x.violate("batchget", "unrequested-key", fmt.Sprintf("BatchGet returned %s which was not asked for", hx([]byte(k))))
			return
		}
	}
	if fp && both > 0 {
		var ps []kvPair
		for _, k := range keys {
			v, _ := x.m.get(k)
			ps = append(ps, kvPair{k, v})
		}
		x.r.Distinct(fpr([]byte("bget"), flat(ps)))
		x.count("batchget_merging_both_sources", 1)
	}
}

func (x *runner) checkIter(rev bool, a, b []byte, fp bool) {
	if x.failed {
		return
	}
	name := "iter"
	if rev {
		name = "iter-reverse"
	}
	if len(a) > 0 && len(b) > 0 && ((!rev && bytes.Compare(a, b) >= 0) || (rev && bytes.Compare(b, a) >= 0)) {
		name += "-inverted-bounds" // lower >= upper: the only correct answer is the empty iteration
	} else if rev && a == nil {
		name += "-from-end" // no upper bound: starts at the last key
	}
	var exp []kvPair
	if rev {
		exp = x.m.expectRIter(a, b)
	} else {
		exp = x.m.expectIter(a, b)
	}
	var got []kvPair
	var err error
	runaway := false
	p := x.safe(func() {
		var it Iterator
		if rev {
			it, err = x.sut.IterReverse(a, b)
		} else {
			it, err = x.sut.Iter(a, b)
		}
		if err != nil {
			return
		}
		defer it.Close()
		limit := len(x.m.view) + len(x.m.ov) + 8
		for it.Valid() {
			if len(got) >= limit {
				runaway = true
				return
			}
			got = append(got, kvPair{append([]byte(nil), it.Key()...), append([]byte(nil), it.Value()...)})
			if err = it.Next(); err != nil {
				return
			}
		}
	})
	call := fmt.Sprintf("%s(%s,%s)", name, hx(a), hx(b))
	x.evals++
	show := func(ps []kvPair) string {
		s := make([]string, len(ps))
		for i, q := range ps {
			s[i] = fmt.Sprintf("%x=%x", q.k, q.v)
		}
		return "[" + strings.Join(s, " ") + "]"
	}
	if p != nil {
		x.violate(name, "panic", fmt.Sprintf("%s panicked: %v", call, p.v))
		return
	}
	if err != nil {
		x.violate(name, "error", fmt.Sprintf("%s error %v after %s", call, err, show(got)))
		return
	}
	if runaway {
		x.violate(name, "does-not-terminate", fmt.Sprintf("%s still valid after %d entries: %s", call, len(got), show(got)))
		return
	}
	// properties of the yielded sequence on its own
	for i, q := range got {
		if i > 0 {
			c := bytes.Compare(got[i-1].k, q.k)
			if c == 0 {
				x.violate(name, "repeated-key", fmt.Sprintf("%s yields %x twice: %s, expected %s", call, q.k, show(got), show(exp)))
				return
			}
			if (!rev && c > 0) || (rev && c < 0) {
				x.violate(name, "not-monotone", fmt.Sprintf("%s not strictly monotone at %x: %s, expected %s", call, q.k, show(got), show(exp)))
				return
			}
		}
		var out bool
		if rev {
			out = (a != nil && bytes.Compare(q.k, a) >= 0) || (len(b) > 0 && bytes.Compare(q.k, b) < 0)
		} else {
			out = (len(a) > 0 && bytes.Compare(q.k, a) < 0) || (b != nil && bytes.Compare(q.k, b) >= 0)
		}
		if out {
			x.violate(name, "out-of-bounds", fmt.Sprintf("%s yields %x outside the bounds: %s, expected %s", call, q.k, show(got), show(exp)))
			return
		}
	}
	// equality with the merged view
	for i := 0; i < len(got) || i < len(exp); i++ {
		switch {
		case i >= len(got):
			x.violate(name, "skipped-key", fmt.Sprintf("%s lacks %x: %s, expected %s", call, exp[i].k, show(got), show(exp)))
		case i >= len(exp):
			x.violate(name, x.classifyAbsent(got[i].k), fmt.Sprintf("%s yields %x which is not in the view: %s, expected %s", call, got[i].k, show(got), show(exp)))
		case !bytes.Equal(got[i].k, exp[i].k):
			c := bytes.Compare(got[i].k, exp[i].k)
			if (c > 0) != rev {
				x.violate(name, "skipped-key", fmt.Sprintf("%s lacks %x: %s, expected %s", call, exp[i].k, show(got), show(exp)))
			} else {
				x.violate(name, x.classifyAbsent(got[i].k), fmt.Sprintf("%s yields %x which is not in the view: %s, expected %s", call, got[i].k, show(got), show(exp)))
			}
		case !bytes.Equal(got[i].v, exp[i].v):
			x.violate(name, "wrong-value", fmt.Sprintf("%s yields %x=%x, expected value %x: %s, expected %s", call, got[i].k, got[i].v, exp[i].v, show(got), show(exp)))
		}
		if x.failed {
			return
		}
	}
	// what did this read have to merge
	in := func(k []byte) bool {
		if rev {
			return !((a != nil && bytes.Compare(k, a) >= 0) || (len(b) > 0 && bytes.Compare(k, b) < 0))
		}
		return !((len(a) > 0 && bytes.Compare(k, a) < 0) || (b != nil && bytes.Compare(k, b) >= 0))
	}
	if x.boundaryFlagsOnly(rev, a, b) {
		x.count("iter_ends_on_flags_only_entry", 1)
		if rev {
			x.count("iter_reverse_ends_on_flags_only_entry", 1)
		}
	}
	ovN, snapN, hidden, shadow, dangling := x.m.rangeMix(in)
	if hidden > 0 {
		x.count("iter_tombstone_hides_snapshot_key", 1)
	}
	if shadow > 0 {
		x.count("iter_buffer_shadows_snapshot_key", 1)
	}
	if dangling > 0 {
		x.count("iter_tombstone_without_snapshot_key", 1)
	}
	if strings.HasSuffix(name, "-inverted-bounds") {
		x.count("iter_lower_ge_upper", 1)
	}
	if fp && ovN > 0 && snapN > 0 {
		x.r.Distinct(fpr([]byte(name), a, b, flat(exp), []byte{byte(hidden), byte(shadow), byte(dangling)}))
		x.count("iter_merging_both_sources", 1)
	}
}

// bufLeaves lists the keys that have an entry in the buffer (valued, tombstone or flags-only), ascending.
func (x *runner) bufLeaves() [][]byte {
	seen := map[string]bool{}
	var out [][]byte
	for k := range x.m.ov {
		seen[k] = true
		out = append(out, []byte(k))
	}
	for k := range x.locked {
		if !seen[k] {
			out = append(out, []byte(k))
		}
	}
	sort.Slice(out, func(i, j int) bool { return bytes.Compare(out[i], out[j]) < 0 })
	return out
}

// flagsOnly lists the buffer entries that have (persistent) flags but no value.
func (x *runner) flagsOnly() [][]byte {
	var out [][]byte
	for k := range x.locked {
		if _, ok := x.m.ov[k]; !ok {
			out = append(out, []byte(k))
		}
	}
	sort.Slice(out, func(i, j int) bool { return bytes.Compare(out[i], out[j]) < 0 })
	return out
}

// lockBound picks a bound relative to a flags-only key f: f, f+00, or the successor / predecessor of f among
// the buffer's entries (and those +00), so that f is the first or last buffer entry inside the scanned range.
func (x *runner) lockBound() []byte {
	fo := x.flagsOnly()
	if len(fo) == 0 {
		return nil
	}
	f := fo[x.rng.Intn(len(fo))]
	leaves := x.bufLeaves()
	i := sort.Search(len(leaves), func(i int) bool { return bytes.Compare(leaves[i], f) >= 0 })
	var b []byte
	switch x.rng.Intn(6) {
	case 0:
		b = f
	case 1, 2:
		b = cat(f, []byte{0})
	case 3:
		if i+1 < len(leaves) {
			b = leaves[i+1]
		} else {
			b = cat(f, []byte{0})
		}
	case 4:
		if i > 0 {
			b = cat(leaves[i-1], []byte{0})
		} else {
			b = f
		}
	case 5:
		if i > 0 {
			b = leaves[i-1]
		} else {
			b = f
		}
	}
	if len(b) == 0 {
		return nil
	}
	return b
}

func (x *runner) pickBound(allowEmptyNonNil bool) []byte {
	if len(x.locked) > 0 && x.rng.Intn(10) < 4 {
		if b := x.lockBound(); b != nil {
			return b
		}
	}
	switch n := x.rng.Intn(10); {
	case n < 2:
		return nil
	case n == 2 && allowEmptyNonNil:
		return []byte{}
	}
	return x.bounds[x.rng.Intn(len(x.bounds))]
}

func (x *runner) fullCheck() {
	x.inFull = true
	defer func() { x.inFull = false }()
	keys := x.allKeys()
	for _, k := range keys {
		x.checkGet(k, false)
	}
	x.checkBatchGet(keys, false)
	x.checkIter(false, nil, nil, true)
	x.checkIter(true, nil, nil, true)
	x.inFull = false // the bounded reads below are generated reads of their own
	x.checkIter(false, x.pickBound(true), x.pickBound(false), true)
	x.checkIter(true, x.pickBound(false), x.pickBound(true), true)
}

func (x *runner) pickKey() []byte {
	if x.rng.Intn(20) == 0 {
		return x.bounds[x.rng.Intn(len(x.bounds))]
	}
	return x.uni[x.rng.Intn(len(x.uni))]
}

func (x *runner) pickVal() []byte {
	if x.rng.Intn(10) < 7 {
		return []byte{byte('a' + x.rng.Intn(4)), byte('0' + x.rng.Intn(10))}
	}
	n := []int{1, 3, 4, 7, 40}[x.rng.Intn(5)]
	v := make([]byte, n)
	for i := range v {
		v[i] = byte(x.rng.Intn(256))
	}
	return v
}

var weights = [nOpKinds]int{opSet: 22, opDel: 10, opGet: 6, opBGet: 5, opIter: 11, opRIter: 11, opStaging: 7, opRelease: 5, opCleanup: 7, opCheckpoint: 7, opRevert: 9, opLock: 8, opLockedSet: 5}

func (x *runner) genOp() op {
	w := weights
	if x.cfg.BatchHeavy {
		w[opBGet] = 30
		w[opIter], w[opRIter] = 4, 4
	}
	total := 0
	for _, v := range w {
		total += v
	}
	for {
		n := x.rng.Intn(total)
		k := opKind(0)
		for n >= w[k] {
			n -= w[k]
			k++
		}
		o := op{kind: k}
		switch k {
		case opSet, opLockedSet:
			o.key, o.val = x.pickKey(), x.pickVal()
		case opLock:
			o.key = x.pickKey()
			o.cp = 1
			if x.rng.Intn(5) == 0 {
				o.cp = 0 // a flag that a rollback clears
			}
		case opDel:
			o.key = x.pickKey()
			if x.rng.Intn(10) < 6 && len(x.m.view) > 0 {
				o.key = x.m.view[x.rng.Intn(len(x.m.view))].k
			}
		case opGet:
			o.key = x.pickKey()
		case opBGet:
			n := 1 + x.rng.Intn(len(x.uni)+2)
			for i := 0; i < n; i++ {
				o.keys = append(o.keys, x.pickKey())
			}
		case opIter:
			o.a, o.b = x.pickBound(true), x.pickBound(false)
		case opRIter:
			o.a, o.b = x.pickBound(false), x.pickBound(true)
		case opStaging:
			if len(x.m.stages) >= 4 {
				continue
			}
		case opRelease, opCleanup:
			if len(x.m.stages) == 0 {
				continue
			}
		case opCheckpoint:
			if len(x.m.cps) >= 12 {
				continue
			}
		case opRevert:
			c := x.m.revertible()
			if len(c) == 0 {
				continue
			}
			if x.rng.Intn(2) == 0 {
				o.cp = c[len(c)-1]
			} else {
				o.cp = c[x.rng.Intn(len(c))]
			}
		}
		return o
	}
}

func sameView(a, b []kvPair) bool {
	if len(a) != len(b) {
		return false
	}
	for i := range a {
		if !bytes.Equal(a[i].k, b[i].k) || !bytes.Equal(a[i].v, b[i].v) {
			return false
		}
	}
	return true
}

// step executes one operation on the SUT and on the model and compares.
func (x *runner) step(o op) {
	x.log = append(x.log, o.String())
	x.count("op_"+o.kind.String(), 1)
	switch o.kind {
	case opGet:
		x.checkGet(o.key, true)
		return
	case opBGet:
		x.checkBatchGet(o.keys, true)
		return
	case opIter:
		x.checkIter(false, o.a, o.b, true)
		return
	case opRIter:
		x.checkIter(true, o.a, o.b, true)
		return
	}
	before := append([]kvPair(nil), x.m.view...)
	var err error
	p := x.safe(func() {
		switch o.kind {
		case opSet:
			err = x.sut.Set(o.key, o.val)
			x.m.write(o.key, o.val)
		case opLockedSet:
			err = x.sut.SetLocked(o.key, o.val)
			x.m.write(o.key, o.val)
			x.lockKey(o.key)
		case opLock:
			err = x.sut.Lock(o.key, o.cp == 1)
			if o.cp == 1 {
				x.lockKey(o.key)
			}
		case opDel:
			err = x.sut.Delete(o.key)
			if _, ok := x.m.snap[string(o.key)]; ok {
				x.count("delete_of_snapshot_key", 1)
			}
			x.m.write(o.key, nil)
		case opStaging:
			x.m.staging(x.sut.Staging())
			if len(x.m.stages) > x.maxDep {
				x.maxDep = len(x.m.stages)
			}
			if len(x.m.stages) >= 2 {
				x.count("nested_staging", 1)
			}
		case opRelease:
			h := x.m.top().handle
			x.sut.Release(h)
			x.m.release()
		case opCleanup:
			h := x.m.top().handle
			x.sut.Cleanup(h)
			x.m.cleanup()
			if !sameView(before, x.m.view) {
				x.count("cleanup_changed_view", 1)
			}
		case opCheckpoint:
			x.m.checkpoint(x.sut.Checkpoint())
		case opRevert:
			x.sut.Revert(x.m.cps[o.cp].tok)
			if x.m.revert(o.cp) {
				x.count("revert_after_same_length_overwrite", 1)
			}
			if !sameView(before, x.m.view) {
				x.count("revert_changed_view", 1)
			}
		}
	})
	x.lastMut = o.kind.String()
	if p != nil {
		x.violate(o.kind.String(), "panic", fmt.Sprintf("%s panicked: %v", o, p.v))
		return
	}
	if err != nil {
		x.violate(o.kind.String(), "error", fmt.Sprintf("%s failed: %v", o, err))
		return
	}
	x.fullCheck()
}

func (x *runner) lockKey(k []byte) {
	if x.locked == nil {
		x.locked = map[string]bool{}
	}
	x.locked[string(k)] = true
}

// boundaryFlagsOnly reports whether a flags-only entry is the last buffer entry inside the scanned range (in scan
// direction) while valued buffer entries lie beyond that end of the range — the shape in which a buffer iterator
// has to recognise its end on a value-less entry.
func (x *runner) boundaryFlagsOnly(rev bool, a, b []byte) bool {
	if len(x.locked) == 0 {
		return false
	}
	var lo, hi []byte // range [lo, hi)
	if rev {
		lo, hi = b, a
	} else {
		lo, hi = a, b
	}
	in := func(k []byte) bool {
		return (len(lo) == 0 || bytes.Compare(k, lo) >= 0) && (hi == nil || bytes.Compare(k, hi) < 0)
	}
	leaves := x.bufLeaves()
	var last []byte
	beyond := false
	if !rev {
		for _, k := range leaves {
			if in(k) {
				last = k
			} else if hi != nil && bytes.Compare(k, hi) >= 0 {
				if v := x.m.ov[string(k)]; len(v) > 0 {
					beyond = true
				}
			}
		}
	} else {
		for i := len(leaves) - 1; i >= 0; i-- {
			k := leaves[i]
			if in(k) {
				last = k
			} else if len(lo) > 0 && bytes.Compare(k, lo) < 0 {
				if v := x.m.ov[string(k)]; len(v) > 0 {
					beyond = true
				}
			}
		}
	}
	if last == nil || !beyond {
		return false
	}
	_, valued := x.m.ov[string(last)]
	return !valued && x.locked[string(last)]
}

func (x *runner) finish() {
	if x.maxDep >= 2 {
		x.count("seqs_with_nested_staging", 1)
	}
	x.count("sequences", 1)
	x.count("ops", len(x.log))
	for k, v := range x.cnt {
		x.r.Count(k, v)
	}
	x.r.Eval(x.evals)
	x.cnt, x.evals = nil, 0
}

// RunRandom runs cfg.Worlds x cfg.SeqsPerWorld generated sequences of cfg.Ops
// operations; everything is a function of (VERIF_SEED, cfg.Stream, world, seq).
func RunRandom(r *vrep.Report, cfg Config, wf WorldFactory) {
	run := func(w int) {
		wrng := vrep.Rand(fmt.Sprintf("%s/world/%d", cfg.Stream, w))
		uni, snap, bounds := GenWorld(wrng, &cfg)
		world, err := wf(snap, uni, wrng)
		if err != nil {
			r.Inconc("world %d could not be built: %v", w, err)
			return
		}
		defer world.Close()
		r.Count("worlds", 1)
		if len(snap) == 0 {
			r.Count("worlds_empty_snapshot", 1)
		}
		for s := 0; s < cfg.SeqsPerWorld; s++ {
			rng := vrep.Rand(fmt.Sprintf("%s/world/%d/seq/%d", cfg.Stream, w, s))
			sut, err := world.NewSUT(rng)
			if err != nil {
				r.Inconc("world %d seq %d: no SUT: %v", w, s, err)
				continue
			}
			x := &runner{r: r, cfg: &cfg, sut: sut, m: newModel(snap), rng: rng, uni: uni, bounds: bounds, lastMut: "begin",
				where: map[string]any{"stream": cfg.Stream, "world": w, "seq": s, "seed": vrep.Seed()}}
			x.fullCheck()
			for i := 0; i < cfg.Ops && !x.failed; i++ {
				x.step(x.genOp())
			}
			x.finish()
			if !x.failed && r.SampleN() < 3 && s == 0 {
				snapS := map[string]string{}
				for k, v := range snap {
					snapS[hex.EncodeToString([]byte(k))] = string(v)
				}
				n := len(x.log)
				if n > 25 {
					n = 25
				}
				r.Sample(map[string]any{"sut": cfg.Name, "world": w, "snapshot": snapS, "first_ops": x.log[:n], "final_view_keys": len(x.m.view)})
			}
			func() {
				defer func() { recover() }()
				sut.Close()
			}()
		}
	}
	if cfg.Workers <= 1 {
		for w := 0; w < cfg.Worlds; w++ {
			run(w)
		}
		return
	}
	var wg sync.WaitGroup
	ch := make(chan int, cfg.Workers)
	for i := 0; i < cfg.Workers; i++ {
		wg.Add(1)
		go func() {
			defer wg.Done()
			for w := range ch {
				run(w)
			}
		}()
	}
	for w := 0; w < cfg.Worlds; w++ {
		ch <- w
	}
	close(ch)
	wg.Wait()
}

// ---------------------------------------------------------------- exhaustive

// ExKeys is the 4-key alphabet of the exhaustive enumeration: k, k+00 (empty
// suffix pair), a key between them and the snapshot's last key, and FF.
var ExKeys = [][]byte{[]byte("a"), {'a', 0x00}, []byte("b"), {0xff}}

// RunExhaustive enumerates every legal sequence of the given depth over
// {set k "1", set k "2" (same length), delete k : k in ExKeys} + {staging,
// release, cleanup, checkpoint, revert-newest, revert-oldest} on the snapshot
// {a: "s0", b: "s2"} and, at the end of each, every iteration bound pair out
// of {nil} + ExKeys + {a 00 00, b 00}; {lock a00, lock b} leave flags-only buffer entries.
func RunExhaustive(r *vrep.Report, cfg Config, wf WorldFactory, depth int) {
	snap := map[string][]byte{string(ExKeys[0]): []byte("s0"), string(ExKeys[2]): []byte("s2")}
	uni := ExKeys
	bounds := append(append([][]byte{}, ExKeys...), []byte{'a', 0, 0}, []byte{'b', 0})
	var choices []op
	for _, k := range ExKeys {
		choices = append(choices, op{kind: opSet, key: k, val: []byte("1")}, op{kind: opSet, key: k, val: []byte("2")}, op{kind: opDel, key: k})
	}
	// lock (flags-only entry) for one key outside the snapshot and one inside it
	choices = append(choices, op{kind: opLock, key: ExKeys[1], cp: 1}, op{kind: opLock, key: ExKeys[2], cp: 1})
	choices = append(choices, op{kind: opStaging}, op{kind: opRelease}, op{kind: opCleanup}, op{kind: opCheckpoint},
		op{kind: opRevert, cp: -1}, op{kind: opRevert, cp: -2})
	world, err := wf(snap, uni, vrep.Rand(cfg.Stream+"/ex"))
	if err != nil {
		r.Inconc("exhaustive world could not be built: %v", err)
		return
	}
	defer world.Close()
	// resolve makes the abstract choice concrete in the model's current state; ok=false: illegal here.
	resolve := func(m *model, c op) (op, bool) {
		switch c.kind {
		case opRelease, opCleanup:
			return c, len(m.stages) > 0
		case opRevert:
			v := m.revertible()
			if len(v) == 0 {
				return c, false
			}
			if c.cp == -1 {
				c.cp = v[len(v)-1]
			} else {
				if len(v) < 2 {
					return c, false // same as revert-newest
				}
				c.cp = v[0]
			}
		}
		return c, true
	}
	// legal: dry run on the model alone
	legal := func(seq []int) bool {
		m := newModel(snap)
		for _, ci := range seq {
			c, ok := resolve(m, choices[ci])
			if !ok {
				return false
			}
			switch c.kind {
			case opSet, opLockedSet:
				m.write(c.key, c.val)
			case opDel:
				m.write(c.key, nil)
			case opStaging:
				m.staging(0)
			case opRelease:
				m.release()
			case opCleanup:
				m.cleanup()
			case opCheckpoint:
				m.checkpoint(nil)
			case opRevert:
				m.revert(c.cp)
			}
		}
		return true
	}
	runOne := func(seq []int, id int) {
		rng := rand.New(rand.NewSource(int64(id)))
		sut, err := world.NewSUT(rng)
		if err != nil {
			r.Inconc("exhaustive seq %d: no SUT: %v", id, err)
			return
		}
		x := &runner{r: r, cfg: &cfg, sut: sut, m: newModel(snap), rng: rng, uni: uni, bounds: bounds, lastMut: "begin",
			where: map[string]any{"stream": cfg.Stream + "/ex", "choice_indices": append([]int(nil), seq...), "depth": depth}}
		for _, ci := range seq {
			c, _ := resolve(x.m, choices[ci])
			x.step(c)
			if x.failed {
				break
			}
		}
		if !x.failed && (cfg.SweepEvery <= 1 || id%cfg.SweepEvery == 0) {
			x.count("exhaustive_bound_sweeps", 1)
			all := append([][]byte{nil}, bounds...)
			for _, a := range all {
				for _, b := range all {
					x.checkIter(false, a, b, false)
					x.checkIter(true, a, b, false)
				}
			}
		}
		x.count("exhaustive_sequences", 1)
		x.finish()
		func() {
			defer func() { recover() }()
			sut.Close()
		}()
	}
	workers := cfg.Workers
	if workers < 1 {
		workers = 1
	}
	type job struct {
		seq []int
		id  int
	}
	ch := make(chan job, 256)
	var wg sync.WaitGroup
	for i := 0; i < workers; i++ {
		wg.Add(1)
		go func() {
			defer wg.Done()
			for j := range ch {
				runOne(j.seq, j.id)
			}
		}()
	}
	seq := make([]int, depth)
	id := 0
	var rec func(d int)
	rec = func(d int) {
		if d == depth {
			id++
			ch <- job{append([]int(nil), seq...), id}
			return
		}
		for ci := range choices {
			seq[d] = ci
			if !legal(seq[:d+1]) {
				continue
			}
			rec(d + 1)
		}
	}
	rec(0)
	close(ch)
	wg.Wait()
	r.Count("exhaustive_depth", depth)
}
