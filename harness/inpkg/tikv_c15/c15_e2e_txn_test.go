//go:build verif

package tikv

// C15 part (2), small self-contained version — end-to-end differential on
// mocktikv for transactions: the same seeded program (several interleaved
// optimistic / pessimistic transactions: set, delete, get, batch get, bounded
// and unbounded forward / reverse iteration, commit, rollback, snapshot reads)
// is run (a) through an API v1 store on its own cluster and (b) through a
// store bound to keyspace A on a cluster that also holds the data of the two
// neighbouring keyspaces A-1 and A+1 (same logical keys, other values), with
// region borders inside the keyspace and straddling / exactly at its borders.
// Oracles: the observation logs of (a) and (b) are identical; afterwards the
// neighbours' data is unchanged; in the shared MVCC store every committed key
// carries one of the three prefixes and A's keys with the prefix removed are
// exactly the final state of (a).

import (
	"bytes"
	"context"
	"fmt"
	"sort"
	"strings"
	"testing"
	"time"

	"github.com/pingcap/kvproto/pkg/keyspacepb"
	"github.com/pingcap/log"
	tikverr "github.com/tikv/client-go/v2/error"
	"github.com/tikv/client-go/v2/internal/mockstore/mocktikv"
	"github.com/tikv/client-go/v2/kv"
	"github.com/tikv/client-go/v2/txnkv/transaction"
	"github.com/tikv/client-go/v2/verifh/vrep"
	pd "github.com/tikv/pd/client"
	pdgc "github.com/tikv/pd/client/clients/gc"
	"github.com/tikv/pd/client/constants"
	"github.com/tikv/pd/client/pkg/caller"
	"go.uber.org/zap"
)

type c15KSPD struct {
	pd.Client
	meta *keyspacepb.KeyspaceMeta
}

func (p *c15KSPD) LoadKeyspace(ctx context.Context, name string) (*keyspacepb.KeyspaceMeta, error) {
	return p.meta, nil
}

func (p *c15KSPD) WithCallerComponent(caller.Component) pd.Client { return p }

// mocktikv's PD implements the GC state API only for the null keyspace (it
// panics otherwise); GC state is not what this check looks at.
func (p *c15KSPD) GetGCStatesClient(keyspaceID uint32) pdgc.GCStatesClient {
	return p.Client.GetGCStatesClient(constants.NullKeyspaceID)
}

// the shared back-end must survive the Close of one of its client stores
type c15NoClose struct{ Client }

func (c15NoClose) Close() error { return nil }

func c15TxnPrefix(id uint32) []byte { return []byte{'x', byte(id >> 16), byte(id >> 8), byte(id)} }

func c15SplitAt(cluster *mocktikv.Cluster, rawKey []byte) {
	r, _, _, _ := cluster.GetRegionByKey(mocktikv.NewMvccKey(rawKey))
	if r == nil || bytes.Equal(r.StartKey, mocktikv.NewMvccKey(rawKey)) {
		return
	}
	ids := cluster.AllocIDs(2)
	cluster.Split(r.Id, ids[0], rawKey, []uint64{ids[1]}, ids[1])
}

var c15Keys = [][]byte{{0}, []byte("a"), []byte("ab"), []byte("b"), []byte("c"), []byte("m"), []byte("x\x00\x00\x01"), []byte("x\x00\x01\x00k"), []byte("z"), {0xFF}, {0xFF, 0xFF}}

type c15Step struct {
	Txn  int // slot
	Op   string
	K    []byte
	K2   []byte
	Keys [][]byte
	V    []byte
	N    int
}

func (s c15Step) String() string {
	return fmt.Sprintf("t%d %s k=%q k2=%q keys=%q v=%q n=%d", s.Txn, s.Op, s.K, s.K2, s.Keys, s.V, s.N)
}

func c15Program(rng interface{ Intn(int) int }, n int) []c15Step {
	pick := func() []byte { return c15Keys[rng.Intn(len(c15Keys))] }
	bound := func() []byte {
		if rng.Intn(3) == 0 {
			return nil // unbounded
		}
		return pick()
	}
	var out []c15Step
	open := [3]bool{}
	pess := [3]bool{}
	writes := [3]map[string]bool{}
	locked := map[string]int{} // key -> slot holding a pessimistic lock (a single driver goroutine must never wait for it)
	val := 0
	finish := func(slot int, op string) {
		for k := range writes[slot] {
			if o, ok := locked[k]; ok && o != slot {
				op = "rollback" // committing would block on another open transaction's pessimistic lock
			}
		}
		out = append(out, c15Step{Txn: slot, Op: op})
		open[slot] = false
		for k, o := range locked {
			if o == slot {
				delete(locked, k)
			}
		}
	}
	for len(out) < n {
		slot := rng.Intn(3)
		if !open[slot] {
			op := "begin"
			pess[slot] = rng.Intn(3) == 0
			if pess[slot] {
				op = "begin-pessimistic"
			}
			out = append(out, c15Step{Txn: slot, Op: op})
			open[slot] = true
			writes[slot] = map[string]bool{}
			continue
		}
		switch x := rng.Intn(20); {
		case x < 5:
			val++
			k := pick()
			writes[slot][string(k)] = true
			out = append(out, c15Step{Txn: slot, Op: "set", K: k, V: []byte(fmt.Sprintf("v%d", val))})
		case x < 7:
			k := pick()
			writes[slot][string(k)] = true
			out = append(out, c15Step{Txn: slot, Op: "delete", K: k})
		case x < 10:
			out = append(out, c15Step{Txn: slot, Op: "get", K: pick()})
		case x < 12:
			var ks [][]byte
			for i := 0; i < 1+rng.Intn(5); i++ {
				ks = append(ks, pick())
			}
			out = append(out, c15Step{Txn: slot, Op: "batchget", Keys: ks})
		case x < 14:
			out = append(out, c15Step{Txn: slot, Op: "iter", K: bound(), K2: bound(), N: 1 + rng.Intn(12)})
		case x < 16:
			out = append(out, c15Step{Txn: slot, Op: "iter-reverse", K: bound(), K2: bound(), N: 1 + rng.Intn(12)})
		case x < 17:
			k := pick()
			if _, taken := locked[string(k)]; pess[slot] && !taken {
				locked[string(k)] = slot
			}
			out = append(out, c15Step{Txn: slot, Op: "lock", K: k})
		case x < 19:
			finish(slot, "commit")
		default:
			finish(slot, "rollback")
		}
	}
	for slot, o := range open {
		if o {
			finish(slot, "commit")
		}
	}
	out = append(out, c15Step{Op: "snapshot-scan"}, c15Step{Op: "snapshot-reverse"})
	return out
}

func c15ErrClass(err error) string {
	switch {
	case err == nil:
		return "ok"
	case tikverr.IsErrNotFound(err):
		return "not-found"
	case tikverr.IsErrWriteConflict(err):
		return "write-conflict"
	case tikverr.IsErrKeyExist(err):
		return "key-exist"
	}
	if strings.Contains(err.Error(), "empty") {
		return "err-empty-key"
	}
	return "error"
}

func c15DrainIter(it interface {
	Valid() bool
	Key() []byte
	Value() []byte
	Next() error
	Close()
}, n int) string {
	var sb strings.Builder
	for i := 0; it.Valid() && i < n; i++ {
		fmt.Fprintf(&sb, "%q=%q ", it.Key(), it.Value())
		if err := it.Next(); err != nil {
			fmt.Fprintf(&sb, "next-err:%s", c15ErrClass(err))
			break
		}
	}
	it.Close()
	return sb.String()
}

// c15Drain waits until the finished transaction left no lock behind: secondary
// commits, the clean-up after a failed commit and pessimistic rollbacks run in
// background goroutines, and a later step of the single-threaded program must
// not race with them (that race would differ between the two universes for
// reasons that have nothing to do with the codec).
func c15Drain(mvcc mocktikv.MVCCStore, startTS uint64) bool {
	for i := 0; i < 4000; i++ {
		locks, err := mvcc.ScanLock(nil, nil, ^uint64(0))
		left := 0
		for _, l := range locks {
			if l.LockVersion == startTS {
				left++
			}
		}
		if err == nil && left == 0 {
			return true
		}
		time.Sleep(500 * time.Microsecond)
	}
	return false
}

// c15Run executes the program on a store and returns the observation log.
func c15Run(store *KVStore, mvcc mocktikv.MVCCStore, prog []c15Step) []string {
	ctx := context.Background()
	var txns [3]*transaction.KVTxn
	var log []string
	for _, s := range prog {
		obs := ""
		t := txns[s.Txn]
		switch s.Op {
		case "begin", "begin-pessimistic":
			nt, err := store.Begin()
			if err == nil && s.Op == "begin-pessimistic" {
				nt.SetPessimistic(true)
			}
			txns[s.Txn] = nt
			obs = c15ErrClass(err)
		case "set":
			obs = c15ErrClass(t.Set(s.K, s.V))
		case "delete":
			obs = c15ErrClass(t.Delete(s.K))
		case "get":
			v, err := t.Get(ctx, s.K)
			obs = fmt.Sprintf("%q %s", v.Value, c15ErrClass(err))
		case "batchget":
			m, err := t.BatchGet(ctx, s.Keys)
			var ks []string
			for k, v := range m {
				ks = append(ks, fmt.Sprintf("%q=%q", k, v.Value))
			}
			sort.Strings(ks)
			obs = fmt.Sprintf("%v %s", ks, c15ErrClass(err))
		case "iter":
			it, err := t.Iter(s.K, s.K2)
			if err != nil {
				obs = c15ErrClass(err)
			} else {
				obs = c15DrainIter(it, s.N)
			}
		case "iter-reverse":
			it, err := t.IterReverse(s.K, s.K2)
			if err != nil {
				obs = c15ErrClass(err)
			} else {
				obs = c15DrainIter(it, s.N)
			}
		case "lock":
			if t.IsPessimistic() {
				ts, err := store.CurrentTimestamp("global")
				if err != nil {
					obs = "tso-" + c15ErrClass(err)
					break
				}
				obs = c15ErrClass(t.LockKeys(ctx, kv.NewLockCtx(ts, kv.LockNoWait, time.Now()), s.K))
			} else {
				obs = "skip"
			}
		case "commit":
			obs = c15ErrClass(t.Commit(ctx))
			if !c15Drain(mvcc, t.StartTS()) {
				obs += " undrained"
			}
			txns[s.Txn] = nil
		case "rollback":
			obs = c15ErrClass(t.Rollback())
			if !c15Drain(mvcc, t.StartTS()) {
				obs += " undrained"
			}
			txns[s.Txn] = nil
		case "snapshot-scan", "snapshot-reverse":
			ts, err := store.CurrentTimestamp("global")
			if err != nil {
				obs = "tso-" + c15ErrClass(err)
				break
			}
			snap := store.GetSnapshot(ts)
			if s.Op == "snapshot-scan" {
				it, err := snap.Iter(nil, nil)
				if err != nil {
					obs = c15ErrClass(err)
				} else {
					obs = c15DrainIter(it, 1000)
				}
			} else {
				it, err := snap.IterReverse(nil, nil)
				if err != nil {
					obs = c15ErrClass(err)
				} else {
					obs = c15DrainIter(it, 1000)
				}
			}
		}
		log = append(log, s.Op+" -> "+obs)
	}
	return log
}

func c15Full(prog []c15Step, a, b []string) []string {
	var out []string
	for j := range prog {
		if j < len(a) && j < len(b) {
			out = append(out, fmt.Sprintf("%d %s => %s | %s", j, prog[j], a[j], b[j]))
		}
	}
	return out
}

func c15Dump(store *KVStore) (string, error) {
	ts, err := store.CurrentTimestamp("global")
	if err != nil {
		return "", err
	}
	it, err := store.GetSnapshot(ts).Iter(nil, nil)
	if err != nil {
		return "", err
	}
	return c15DrainIter(it, 1<<20), nil
}

func TestVerifC15E2ETxn(t *testing.T) {
	r := vrep.New("C15", "c15-e2e-txn",
		"differential end-to-end run on mocktikv: one seeded program of interleaved optimistic/pessimistic transactions (set/delete/get/batchget/bounded+unbounded iter and reverse iter/lock/commit/rollback + final snapshot scans) executed through an API v1 store and through a store bound to keyspace A whose cluster also holds keyspaces A-1 and A+1 with the same logical keys; layouts: single region, regions inside the keyspace, regions straddling its borders, borders exactly at prefix / prefix end; ids A in {1,0x0100,0x0102ff,0xfffffe}; observation logs must be equal, neighbours unchanged, shared MVCC store partitioned by prefix; distinct = (program step observation)")
	defer r.Finish(t)
	log.ReplaceGlobals(zap.NewNop(), nil)
	rng := vrep.Rand("c15-e2e-txn")
	cases := vrep.Pick(8, 60)
	layouts := []string{"single", "inside", "straddle", "exact"}
	ids := []uint32{1, 0x0100, 0x0102FF, 0xFFFFFE}
	for ci := 0; ci < cases; ci++ {
		id := ids[ci%len(ids)]
		layout := layouts[(ci/len(ids)+ci)%len(layouts)]
		prog := c15Program(rng, vrep.Pick(120, 300))
		desc := fmt.Sprintf("case=%d id=%#x layout=%s steps=%d", ci, id, layout, len(prog))
		t.Logf("C15 e2e %s", desc)
		attempt := func() (pending []vrep.Violation) {
			pend := func(sig, msg string, detail any) {
				pending = append(pending, vrep.Violation{Sig: sig, Msg: msg, Detail: detail})
			}
			// ---- universe 1: API v1
			mvcc1 := mocktikv.MustNewMVCCStore()
			cl1 := mocktikv.NewCluster(mvcc1)
			rpc1, pd1 := mocktikv.NewRPCClient(cl1, mvcc1, nil), mocktikv.NewPDClient(cl1)
			mocktikv.BootstrapWithSingleStore(cl1)
			s1, err := NewTestTiKVStore(rpc1, pd1, nil, nil, 0)
			if err != nil {
				r.Inconc("store v1: %v", err)
				return pending
			}
			// ---- universe 2: keyspaces A-1, A, A+1 on one cluster
			mvcc2 := mocktikv.MustNewMVCCStore()
			cl2 := mocktikv.NewCluster(mvcc2)
			rpc2, pd2 := mocktikv.NewRPCClient(cl2, mvcc2, nil), mocktikv.NewPDClient(cl2)
			mocktikv.BootstrapWithSingleStore(cl2)
			mk := func(ksid uint32) (*KVStore, error) {
				meta := keyspacepb.KeyspaceMeta{Keyspace: &keyspacepb.KeyspaceMeta_Id{Id: ksid}, Name: fmt.Sprintf("ks%d", ksid), State: keyspacepb.KeyspaceState_ENABLED}
				return NewTestKeyspaceTiKVStore(c15NoClose{rpc2}, &c15KSPD{pd2, &meta}, nil, nil, 0, meta)
			}
			sA, errA := mk(id)
			sB, errB := mk(id - 1)
			sC, errC := mk(id + 1)
			if errA != nil || errB != nil || errC != nil {
				r.Inconc("keyspace stores: %v %v %v", errA, errB, errC)
				return pending
			}
			pA, pB, pC := c15TxnPrefix(id), c15TxnPrefix(id-1), c15TxnPrefix(id+1)
			wire := func(p []byte, k string) []byte { return append(append([]byte(nil), p...), k...) }
			switch layout {
			case "inside":
				for _, k := range []string{"b", "m"} {
					c15SplitAt(cl1, []byte(k))
					c15SplitAt(cl2, wire(pA, k))
				}
			case "straddle":
				for _, k := range []string{"b", "m"} {
					c15SplitAt(cl1, []byte(k))
					c15SplitAt(cl2, wire(pA, k))
				}
				c15SplitAt(cl2, wire(pB, "c"))
				c15SplitAt(cl2, wire(pC, "c"))
			case "exact":
				c15SplitAt(cl1, []byte("c"))
				c15SplitAt(cl2, wire(pA, "c"))
				c15SplitAt(cl2, pA)
				c15SplitAt(cl2, pC) // == end of A
				c15SplitAt(cl2, wire(pA, "\x00"))
			}
			// neighbours' data: same logical keys, recognisable values
			load := func(s *KVStore, tag string) error {
				txn, err := s.Begin()
				if err != nil {
					return err
				}
				for _, k := range c15Keys {
					if err := txn.Set(k, []byte(tag+string(k))); err != nil {
						return err
					}
				}
				return txn.Commit(context.Background())
			}
			if err := load(sB, "B:"); err != nil {
				pend("e2e-txn:neighbour-load", fmt.Sprintf("%s: loading keyspace A-1 failed: %v", desc, err), nil)
				return pending
			}
			if err := load(sC, "C:"); err != nil {
				pend("e2e-txn:neighbour-load", fmt.Sprintf("%s: loading keyspace A+1 failed: %v", desc, err), nil)
				return pending
			}
			beforeB, _ := c15Dump(sB)
			beforeC, _ := c15Dump(sC)
			var log1, logA []string
			done := make(chan struct{})
			go func() {
				log1 = c15Run(s1, mvcc1, prog)
				logA = c15Run(sA, mvcc2, prog)
				close(done)
			}()
			select {
			case <-done:
			case <-time.After(90 * time.Second):
				r.Inconc("%s: the single-threaded program did not finish within the watchdog (a step waits for a lock?)", desc)
				return pending
			}
			r.Eval(len(prog))
			for i := range prog {
				r.Distinct(log1[i])
				if log1[i] != logA[i] {
					from := i - 6
					if from < 0 {
						from = 0
					}
					var ctxSteps []string
					for j := from; j <= i; j++ {
						ctxSteps = append(ctxSteps, prog[j].String()+" => v1: "+log1[j]+" | keyspace: "+logA[j])
					}
					pend("e2e-txn:"+prog[i].Op+":differs",
						fmt.Sprintf("%s: step %d (%s): the API v1 store observes %q, the store bound to keyspace %#x observes %q", desc, i, prog[i], log1[i], id, logA[i]),
						map[string]any{"case": desc, "step": i, "history": ctxSteps, "full": c15Full(prog, log1, logA)})
					break
				}
			}
			for _, l := range append(append([]string(nil), log1...), logA...) {
				if strings.Contains(l, "undrained") {
					r.Inconc("%s: background clean-up of a finished transaction did not drain", desc)
					break
				}
			}
			r.Count("programs", 1)
			r.Count("steps", len(prog))
			for _, l := range log1 {
				switch {
				case strings.Contains(l, "write-conflict"):
					r.Count("write_conflicts_seen", 1)
				case strings.HasPrefix(l, "iter") && strings.Contains(l, "="):
					r.Count("nonempty_iterations", 1)
				}
			}
			// ---- isolation
			afterB, errB := c15Dump(sB)
			afterC, errC := c15Dump(sC)
			r.Eval(2)
			if errB != nil || afterB != beforeB {
				pend("e2e-txn:neighbour-changed", fmt.Sprintf("%s: keyspace A-1 changed while only keyspace A was used: before %s after %s (%v)", desc, beforeB, afterB, errB), nil)
			}
			if errC != nil || afterC != beforeC {
				pend("e2e-txn:neighbour-changed", fmt.Sprintf("%s: keyspace A+1 changed while only keyspace A was used: before %s after %s (%v)", desc, beforeC, afterC, errC), nil)
			}
			// ---- the shared store, seen without any keyspace: partitioned by prefix
			sRaw, err := NewTestTiKVStore(c15NoClose{rpc2}, pd2, nil, nil, 0)
			if err == nil {
				final1, _ := c15Dump(s1)
				ts, _ := sRaw.CurrentTimestamp("global")
				it, err := sRaw.GetSnapshot(ts).Iter(nil, nil)
				var stripped strings.Builder
				nA, nOther := 0, 0
				for err == nil && it.Valid() {
					k := it.Key()
					switch {
					case bytes.HasPrefix(k, pA):
						fmt.Fprintf(&stripped, "%q=%q ", k[4:], it.Value())
						nA++
					case bytes.HasPrefix(k, pB), bytes.HasPrefix(k, pC):
						nOther++
					default:
						pend("e2e-txn:key-outside-keyspaces", fmt.Sprintf("%s: the shared store holds key %q which belongs to none of the three keyspaces", desc, k), nil)
					}
					err = it.Next()
				}
				r.Eval(1)
				if stripped.String() != final1 {
					pend("e2e-txn:storage-differs", fmt.Sprintf("%s: keyspace A's keys in the store (prefix removed) are %s, the API v1 universe ends with %s", desc, stripped.String(), final1), nil)
				}
				if nOther != 2*len(c15Keys) {
					pend("e2e-txn:neighbour-keys", fmt.Sprintf("%s: the neighbours hold %d keys in the store, want %d", desc, nOther, 2*len(c15Keys)), nil)
				}
				r.Count("storage_keys_of_A", nA)
				sRaw.Close()
			}
			if r.SampleN() < 3 {
				n := len(log1)
				r.Sample(map[string]any{"case": desc, "last_steps": log1[n-4:]})
			}
			s1.Close()
			sA.Close()
			sB.Close()
			sC.Close()
			rpc2.Close()
			return pending
		}
		// Background work of the client (secondary commits, clean-up, pessimistic rollbacks, lock
		// heartbeats) makes a run not perfectly repeatable; a codec defect is. A difference counts
		// only if two more executions of the same case from scratch show the same signatures.
		first := attempt()
		if len(first) > 0 {
			same := true
			for k := 0; k < 2 && same; k++ {
				again := attempt()
				same = len(again) == len(first)
				for i := 0; same && i < len(first); i++ {
					same = again[i].Sig == first[i].Sig
				}
			}
			if same {
				for _, v := range first {
					r.Violate(v.Sig, v.Msg, v.Detail)
				}
			} else {
				r.Count("nonreproducible_differences", 1)
				r.Inconc("%s: a difference (%s) did not reproduce in two fresh executions of the same case: %s", desc, first[0].Sig, first[0].Msg)
			}
		}
	}
	r.Floor("programs", 4)
	r.Floor("nonempty_iterations", 20)
	r.Floor("storage_keys_of_A", 4)
}
