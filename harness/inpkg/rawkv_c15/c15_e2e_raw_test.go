//go:build verif

package rawkv

// C15 part (2), raw KV — end-to-end differential on mocktikv: the same seeded
// sequence of raw operations (Put/Get/Delete/BatchPut/BatchGet/BatchDelete/
// DeleteRange/Scan/ReverseScan with every bound combination incl. empty
// bounds, limits and key-only/CompareAndSwap in atomic mode/Checksum; not
// GetKeyTTL, which mocktikv does not serve) is driven (a) through a rawkv.Client on API v1 with its own store
// and (b) through a rawkv.Client bound to keyspace A whose store also holds
// the keyspaces A-1 and A+1, populated through their own clients with the same
// logical keys.  Each client is wired like NewClientWithOpts wires it: region
// cache over the real CodecPDClient, RPC client = encode with the real codec ->
// send -> decode.
//
// Oracles: (1) results are equal operation by operation (keys exactly as the
// caller wrote them); (2) wire level: every key / range bound of every request
// the keyspace client sends lies inside [prefix(A), end(A)]; (3) at the end the
// neighbours read back unchanged through their own clients; (4) a v1 scan of
// the shared store's raw key space is partitioned by the three prefixes, A's
// part with the prefix removed equals the v1 universe, the neighbours' parts
// equal what was loaded.
//
// Layout: the keyspace universe is single-region.  mocktikv compares raw
// request keys with the cluster's region bounds byte-wise, while API v2 region
// bounds are memory-comparable encodings of prefix+key, so a multi-region raw
// v2 layout would only exercise that mock artefact.  The v1 universe is kept
// single-region as well (region layouts of raw v1 are C11's subject).

import (
	"bytes"
	"context"
	"fmt"
	"strings"
	"testing"
	"time"

	"github.com/pingcap/failpoint"
	"github.com/pingcap/kvproto/pkg/keyspacepb"
	"github.com/pingcap/kvproto/pkg/kvrpcpb"
	"github.com/pingcap/log"
	"github.com/tikv/client-go/v2/internal/apicodec"
	"github.com/tikv/client-go/v2/internal/client"
	"github.com/tikv/client-go/v2/internal/locate"
	"github.com/tikv/client-go/v2/internal/mockstore/mocktikv"
	"github.com/tikv/client-go/v2/tikvrpc"
	"github.com/tikv/client-go/v2/util"
	"github.com/tikv/client-go/v2/util/async"
	"github.com/tikv/client-go/v2/verifh/vcat"
	"github.com/tikv/client-go/v2/verifh/vrep"
	pd "github.com/tikv/pd/client"
	"github.com/tikv/pd/client/pkg/caller"
	"go.uber.org/zap"
)

type c15RawPD struct {
	pd.Client
	meta *keyspacepb.KeyspaceMeta
}

func (p *c15RawPD) LoadKeyspace(ctx context.Context, name string) (*keyspacepb.KeyspaceMeta, error) {
	return p.meta, nil
}
func (p *c15RawPD) WithCallerComponent(caller.Component) pd.Client { return p }

// c15RawRPC is what client.RPCClient does with WithCodec: encode, send, decode.
// For the keyspace client it also checks every encoded request on the wire.
type c15RawRPC struct {
	inner  *mocktikv.RPCClient
	codec  apicodec.Codec
	prefix []byte // nil for API v1
	end    []byte
	bad    []string // wire-level findings
	nReq   int
	nKeys  int
}

func (c *c15RawRPC) Close() error                                  { return nil }
func (c *c15RawRPC) CloseAddr(addr string) error                   { return nil }
func (c *c15RawRPC) SetEventListener(l client.ClientEventListener) {}
func (c *c15RawRPC) isEnd(b []byte) bool {
	return !bytes.HasPrefix(b, c.prefix) && bytes.Compare(b, c.prefix) > 0 && bytes.Compare(b, c.end) <= 0
}

func (c *c15RawRPC) checkWire(req *tikvrpc.Request) {
	if c.prefix == nil {
		return
	}
	c.nReq++
	if req.GetApiVersion() != kvrpcpb.APIVersion_V2 {
		c.bad = append(c.bad, fmt.Sprintf("%s: request context says api version %v", req.Type, req.GetApiVersion()))
	}
	vcat.Walk(req.Req, func(l *vcat.Leaf) {
		switch l.Name {
		case "key", "keys", "start_key", "end_key":
		default:
			return
		}
		if len(l.Chain) > 0 && l.Chain[0] == "context" {
			return
		}
		c.nKeys++
		b := l.Bytes()
		if bytes.HasPrefix(b, c.prefix) {
			return
		}
		if (l.Name == "start_key" || l.Name == "end_key") && c.isEnd(b) {
			return
		}
		c.bad = append(c.bad, fmt.Sprintf("%s.%s = %q is outside the keyspace [%x,%x]", req.Type, l.Path, b, c.prefix, c.end))
	})
}

func (c *c15RawRPC) SendRequest(ctx context.Context, addr string, req *tikvrpc.Request, timeout time.Duration) (*tikvrpc.Response, error) {
	enc, err := c.codec.EncodeRequest(req)
	if err != nil {
		return nil, err
	}
	c.checkWire(enc)
	resp, err := c.inner.SendRequest(ctx, addr, enc, timeout)
	if err != nil {
		return nil, err
	}
	return c.codec.DecodeResponse(enc, resp)
}

func (c *c15RawRPC) SendRequestAsync(ctx context.Context, addr string, req *tikvrpc.Request, cb async.Callback[*tikvrpc.Response]) {
	enc, err := c.codec.EncodeRequest(req)
	if err != nil {
		cb.Invoke(nil, err)
		return
	}
	c.checkWire(enc)
	cb.Inject(func(resp *tikvrpc.Response, err error) (*tikvrpc.Response, error) {
		if err != nil {
			return nil, err
		}
		return c.codec.DecodeResponse(enc, resp)
	})
	c.inner.SendRequestAsync(ctx, addr, enc, cb)
}

func c15RawPrefix(id uint32) []byte { return []byte{'r', byte(id >> 16), byte(id >> 8), byte(id)} }

func c15RawNext(p []byte) []byte {
	e := append([]byte(nil), p...)
	for i := len(e) - 1; i >= 0; i-- {
		e[i]++
		if e[i] != 0 {
			return e
		}
	}
	return nil
}

// c15NewRawClient wires a client the way NewClientWithOpts does.  ksid < 0 = API v1.
func c15NewRawClient(cluster *mocktikv.Cluster, mvcc mocktikv.MVCCStore, ksid int64, atomic bool) (*Client, *c15RawRPC, error) {
	basePD := mocktikv.NewPDClient(cluster)
	var codecPD *locate.CodecPDClient
	api := kvrpcpb.APIVersion_V1
	rpc := &c15RawRPC{inner: mocktikv.NewRPCClient(cluster, mvcc, nil)}
	if ksid < 0 {
		codecPD = locate.NewCodecPDClient(apicodec.ModeRaw, basePD)
	} else {
		meta := &keyspacepb.KeyspaceMeta{Keyspace: &keyspacepb.KeyspaceMeta_Id{Id: uint32(ksid)}, Name: fmt.Sprintf("ks%d", ksid), State: keyspacepb.KeyspaceState_ENABLED}
		var err error
		codecPD, err = locate.NewCodecPDClientWithKeyspace(apicodec.ModeRaw, &c15RawPD{basePD, meta}, meta.Name)
		if err != nil {
			return nil, nil, err
		}
		api = kvrpcpb.APIVersion_V2
		rpc.prefix = c15RawPrefix(uint32(ksid))
		rpc.end = c15RawNext(rpc.prefix)
	}
	rpc.codec = codecPD.GetCodec()
	c := &Client{apiVersion: api, regionCache: locate.NewRegionCache(codecPD), pdClient: codecPD, rpcClient: rpc}
	c.SetAtomicForCAS(atomic)
	return c, rpc, nil
}

var c15RawKeys = [][]byte{{0}, []byte("a"), {'a', 0}, []byte("ab"), []byte("b"), []byte("c"), []byte("m"), []byte("r\x00\x00\x01"), []byte("r\x00\x01\x00k"), []byte("s"), []byte("z"), {0xFF}, {0xFF, 0xFF}}

type c15RawOp struct {
	Op      string
	K, K2   []byte
	Keys    [][]byte
	V, V2   []byte
	Vals    [][]byte
	N       int
	KeyOnly bool
	PrevNil bool
}

func (o c15RawOp) String() string {
	return fmt.Sprintf("%s k=%q k2=%q keys=%q v=%q v2=%q n=%d keyonly=%v prevnil=%v", o.Op, o.K, o.K2, o.Keys, o.V, o.V2, o.N, o.KeyOnly, o.PrevNil)
}

func c15RawProgram(rng interface{ Intn(int) int }, n int) []c15RawOp {
	pick := func() []byte { return c15RawKeys[rng.Intn(len(c15RawKeys))] }
	bound := func() []byte {
		switch rng.Intn(6) {
		case 0, 1:
			return []byte{} // unbounded / keyspace start
		case 2:
			return append(append([]byte(nil), pick()...), 0)
		}
		return pick()
	}
	pickN := func() [][]byte {
		var ks [][]byte
		seen := map[string]bool{}
		for i := 0; i < 1+rng.Intn(6); i++ {
			k := pick()
			if !seen[string(k)] {
				seen[string(k)] = true
				ks = append(ks, k)
			}
		}
		return ks
	}
	val := 0
	nv := func() []byte { val++; return []byte(fmt.Sprintf("v%d", val)) }
	lastVal := map[string][]byte{}
	limits := []int{1, 2, 3, 5, 100}
	var out []c15RawOp
	for len(out) < n {
		switch x := rng.Intn(32); {
		case x < 6:
			k, v := pick(), nv()
			lastVal[string(k)] = v
			out = append(out, c15RawOp{Op: "put", K: k, V: v})
		case x < 9:
			out = append(out, c15RawOp{Op: "get", K: pick()})
		case x < 11:
			out = append(out, c15RawOp{Op: "delete", K: pick()})
		case x < 13:
			ks := pickN()
			var vs [][]byte
			for _, k := range ks {
				v := nv()
				lastVal[string(k)] = v
				vs = append(vs, v)
			}
			out = append(out, c15RawOp{Op: "batchput", Keys: ks, Vals: vs})
		case x < 15:
			out = append(out, c15RawOp{Op: "batchget", Keys: pickN()})
		case x < 17:
			out = append(out, c15RawOp{Op: "batchdelete", Keys: pickN()})
		case x < 19:
			out = append(out, c15RawOp{Op: "deleterange", K: bound(), K2: bound()})
		case x < 23:
			out = append(out, c15RawOp{Op: "scan", K: bound(), K2: bound(), N: limits[rng.Intn(len(limits))], KeyOnly: rng.Intn(3) == 0})
		case x < 27:
			out = append(out, c15RawOp{Op: "reversescan", K: bound(), K2: bound(), N: limits[rng.Intn(len(limits))], KeyOnly: rng.Intn(3) == 0})
		case x < 29:
			k := pick()
			op := c15RawOp{Op: "cas", K: k, V2: nv()}
			switch rng.Intn(3) {
			case 0:
				op.PrevNil = true
			case 1:
				op.V = lastVal[string(k)] // likely the current value
			default:
				op.V = []byte("stale")
			}
			out = append(out, op)
		default:
			// (GetKeyTTL is not generated: mocktikv has no handler for it and answers with an
			// error the client retries as a region error until its back-off budget is spent)
			out = append(out, c15RawOp{Op: "checksum", K: bound(), K2: bound()})
		}
	}
	// point operations with an empty key, then the whole content both ways
	out = append(out, c15RawOp{Op: "get", K: []byte{}}, c15RawOp{Op: "put", K: []byte{}, V: []byte("x")},
		c15RawOp{Op: "scan", K: []byte{}, K2: []byte{}, N: 1000}, c15RawOp{Op: "reversescan", K: []byte{0xFF, 0xFF, 0xFF}, K2: []byte{}, N: 1000},
		c15RawOp{Op: "checksum", K: []byte{}, K2: []byte{}})
	return out
}

func c15e(err error) string {
	if err == nil {
		return "ok"
	}
	return "error"
}

func c15kv(keys, vals [][]byte) string {
	var sb strings.Builder
	for i := range keys {
		v := []byte(nil)
		if i < len(vals) {
			v = vals[i]
		}
		fmt.Fprintf(&sb, "%q=%q ", keys[i], v)
	}
	return sb.String()
}

// c15RawExec runs one operation; the observation must be equal under every codec.
// Checksum: the mock digests the stored (wire) keys, so the CRC and the byte
// total necessarily contain the prefix; only the number of pairs is compared.
func c15RawExec(c *Client, o c15RawOp) string {
	ctx := context.Background()
	var opts []RawOption
	if o.KeyOnly {
		opts = append(opts, ScanKeyOnly())
	}
	switch o.Op {
	case "put":
		return c15e(c.Put(ctx, o.K, o.V))
	case "get":
		v, err := c.Get(ctx, o.K)
		return fmt.Sprintf("%q nil=%v %s", v, v == nil, c15e(err))
	case "delete":
		return c15e(c.Delete(ctx, o.K))
	case "batchput":
		return c15e(c.BatchPut(ctx, o.Keys, o.Vals))
	case "batchget":
		vs, err := c.BatchGet(ctx, o.Keys)
		var sb strings.Builder
		for _, v := range vs {
			fmt.Fprintf(&sb, "%q/%v ", v, v == nil)
		}
		return sb.String() + c15e(err)
	case "batchdelete":
		return c15e(c.BatchDelete(ctx, o.Keys))
	case "deleterange":
		return c15e(c.DeleteRange(ctx, o.K, o.K2))
	case "scan":
		ks, vs, err := c.Scan(ctx, o.K, o.K2, o.N, opts...)
		return c15kv(ks, vs) + c15e(err)
	case "reversescan":
		ks, vs, err := c.ReverseScan(ctx, o.K, o.K2, o.N, opts...)
		return c15kv(ks, vs) + c15e(err)
	case "cas":
		prev := o.V
		if o.PrevNil {
			prev = nil
		}
		old, ok, err := c.CompareAndSwap(ctx, o.K, prev, o.V2)
		return fmt.Sprintf("%q nil=%v swapped=%v %s", old, old == nil, ok, c15e(err))
	case "checksum":
		cs, err := c.Checksum(ctx, o.K, o.K2)
		return fmt.Sprintf("kvs=%d %s", cs.TotalKvs, c15e(err))
	case "ttl":
		ttl, err := c.GetKeyTTL(ctx, o.K)
		if ttl == nil {
			return "nil " + c15e(err)
		}
		return fmt.Sprintf("%d %s", *ttl, c15e(err))
	}
	return "?"
}

func c15RawAll(c *Client) (string, error) {
	ks, vs, err := c.Scan(context.Background(), []byte{}, []byte{}, MaxRawKVScanLimit)
	return c15kv(ks, vs), err
}

func TestVerifC15E2ERaw(t *testing.T) {
	r := vrep.New("C15", "c15-e2e-raw",
		"differential end-to-end run on mocktikv, raw KV: one seeded op sequence (put/get/delete/batchput/batchget/batchdelete/deleterange/scan/reversescan with empty, data-key and key+\\0 bounds, limits {1,2,3,5,100}, key-only/cas/checksum, empty point keys; GetKeyTTL is not served by mocktikv) through a rawkv.Client on API v1 (own store) and a rawkv.Client bound to keyspace A (single region) whose store also holds keyspaces A-1 and A+1 loaded through their own clients; ids A in {1,0x0100,0x0102ff,0xfffffe}, atomic mode on/off; results equal op by op, every request key/bound of the keyspace client inside [prefix,end], neighbours unchanged (own clients and a v1 scan of the raw key space), A's stored keys with the prefix removed = the v1 universe; distinct = observations")
	defer r.Finish(t)
	log.ReplaceGlobals(zap.NewNop(), nil)
	// back-off sleeps are accounted but not slept
	util.EnableFailpoints()
	if err := failpoint.Enable("tikvclient/fastBackoffBySkipSleep", `return`); err != nil {
		r.Inconc("failpoint: %v", err)
		return
	}
	defer failpoint.Disable("tikvclient/fastBackoffBySkipSleep")
	rng := vrep.Rand("c15-e2e-raw")
	cases := vrep.Pick(12, 80)
	ids := []uint32{1, 0x0100, 0x0102FF, 0xFFFFFE}
	for ci := 0; ci < cases; ci++ {
		id := ids[ci%len(ids)]
		atomic := (ci/len(ids))%2 == 0
		prog := c15RawProgram(rng, vrep.Pick(150, 400))
		desc := fmt.Sprintf("case=%d id=%#x atomic=%v ops=%d", ci, id, atomic, len(prog))
		// ---- universe 1: API v1
		mvcc1 := mocktikv.MustNewMVCCStore()
		cl1 := mocktikv.NewCluster(mvcc1)
		mocktikv.BootstrapWithSingleStore(cl1)
		c1, _, err := c15NewRawClient(cl1, mvcc1, -1, atomic)
		if err != nil {
			r.Inconc("v1 client: %v", err)
			return
		}
		// ---- universe 2: keyspaces A-1, A, A+1 in one store
		mvcc2 := mocktikv.MustNewMVCCStore()
		cl2 := mocktikv.NewCluster(mvcc2)
		mocktikv.BootstrapWithSingleStore(cl2)
		cA, rpcA, errA := c15NewRawClient(cl2, mvcc2, int64(id), atomic)
		cB, _, errB := c15NewRawClient(cl2, mvcc2, int64(id-1), atomic)
		cC, _, errC := c15NewRawClient(cl2, mvcc2, int64(id+1), atomic)
		cRaw, _, errR := c15NewRawClient(cl2, mvcc2, -1, false)
		if errA != nil || errB != nil || errC != nil || errR != nil {
			r.Inconc("keyspace clients: %v %v %v %v", errA, errB, errC, errR)
			return
		}
		var loadK, loadB, loadC [][]byte
		for _, k := range c15RawKeys {
			loadK = append(loadK, k)
			loadB = append(loadB, append([]byte("B:"), k...))
			loadC = append(loadC, append([]byte("C:"), k...))
		}
		ctx := context.Background()
		if err := cB.BatchPut(ctx, loadK, loadB); err != nil {
			r.Violate("e2e-raw:neighbour-load", fmt.Sprintf("%s: loading keyspace A-1: %v", desc, err), nil)
			continue
		}
		if err := cC.BatchPut(ctx, loadK, loadC); err != nil {
			r.Violate("e2e-raw:neighbour-load", fmt.Sprintf("%s: loading keyspace A+1: %v", desc, err), nil)
			continue
		}
		beforeB, _ := c15RawAll(cB)
		beforeC, _ := c15RawAll(cC)
		wantB, wantC := c15kv(loadK, loadB), c15kv(loadK, loadC)
		// BatchPut order is the caller's, the scan order is the key order: compare as sets below via the raw scan
		_ = wantB
		_ = wantC
		// ---- run
		var hist []string
		diverged := false
		for i, o := range prog {
			var o1, oA string
			p1 := vcatSafely(func() { o1 = c15RawExec(c1, o) })
			pA := vcatSafely(func() { oA = c15RawExec(cA, o) })
			if p1 != nil {
				o1 = fmt.Sprintf("panic: %v", p1)
			}
			if pA != nil {
				oA = fmt.Sprintf("panic: %v", pA)
			}
			r.Eval(1)
			r.Distinct(o.Op + "|" + o1)
			r.Count("ops_"+o.Op, 1)
			if (o.Op == "scan" || o.Op == "reversescan") && strings.Contains(o1, "=") {
				r.Count("nonempty_scans", 1)
				if len(o.K2) == 0 || len(o.K) == 0 {
					r.Count("nonempty_scans_with_empty_bound", 1)
				}
			}
			if o.Op == "cas" && strings.Contains(o1, "swapped=true") {
				r.Count("cas_swapped", 1)
			}
			hist = append(hist, fmt.Sprintf("%d %s => v1: %s | keyspace: %s", i, o, o1, oA))
			if o1 != oA {
				from := len(hist) - 8
				if from < 0 {
					from = 0
				}
				r.Violate("e2e-raw:"+o.Op+":differs",
					fmt.Sprintf("%s: op %d (%s): the API v1 client observes %q, the client bound to keyspace %#x observes %q", desc, i, o, o1, id, oA),
					map[string]any{"case": desc, "op": i, "history": hist[from:]})
				diverged = true
				break
			}
		}
		r.Count("programs", 1)
		// ---- wire level
		r.Count("wire_requests_checked", rpcA.nReq)
		r.Count("wire_keys_checked", rpcA.nKeys)
		r.Eval(rpcA.nKeys)
		if len(rpcA.bad) > 0 {
			n := len(rpcA.bad)
			if n > 5 {
				n = 5
			}
			first := rpcA.bad[0]
			r.Violate("e2e-raw:wire:"+first[:strings.Index(first, ".")+1]+"outside-keyspace",
				fmt.Sprintf("%s: %d request keys of the keyspace client left the keyspace on the wire, e.g. %v", desc, len(rpcA.bad), rpcA.bad[:n]), map[string]any{"case": desc, "keys": rpcA.bad[:n]})
		}
		// ---- isolation: the neighbours through their own clients
		afterB, eB := c15RawAll(cB)
		afterC, eC := c15RawAll(cC)
		r.Eval(2)
		if eB != nil || afterB != beforeB {
			r.Violate("e2e-raw:neighbour-changed", fmt.Sprintf("%s: keyspace A-1 changed while only keyspace A was used: before %s after %s (%v)", desc, beforeB, afterB, eB), map[string]any{"case": desc})
		}
		if eC != nil || afterC != beforeC {
			r.Violate("e2e-raw:neighbour-changed", fmt.Sprintf("%s: keyspace A+1 changed while only keyspace A was used: before %s after %s (%v)", desc, beforeC, afterC, eC), map[string]any{"case": desc})
		}
		// ---- the raw key space of the shared store seen by an API v1 client
		pA, pB, pC := c15RawPrefix(id), c15RawPrefix(id-1), c15RawPrefix(id+1)
		ks, vs, err := cRaw.Scan(ctx, []byte{}, []byte{}, MaxRawKVScanLimit)
		r.Eval(1)
		if err != nil {
			r.Inconc("%s: raw scan of the shared store: %v", desc, err)
		} else {
			var gotA, gotB, gotC strings.Builder
			for i, k := range ks {
				switch {
				case bytes.HasPrefix(k, pA):
					fmt.Fprintf(&gotA, "%q=%q ", k[4:], vs[i])
					r.Count("stored_keys_of_A", 1)
				case bytes.HasPrefix(k, pB):
					fmt.Fprintf(&gotB, "%q=%q ", k[4:], vs[i])
				case bytes.HasPrefix(k, pC):
					fmt.Fprintf(&gotC, "%q=%q ", k[4:], vs[i])
				default:
					r.Violate("e2e-raw:key-outside-keyspaces", fmt.Sprintf("%s: the shared store holds key %q which belongs to none of the three keyspaces", desc, k), map[string]any{"case": desc})
				}
			}
			if gotB.String() != beforeB || gotC.String() != beforeC {
				r.Violate("e2e-raw:neighbour-storage", fmt.Sprintf("%s: the neighbours' stored keys are %s / %s, loaded were %s / %s", desc, gotB.String(), gotC.String(), beforeB, beforeC), map[string]any{"case": desc})
			}
			if !diverged {
				final1, e1 := c15RawAll(c1)
				if e1 != nil || gotA.String() != final1 {
					r.Violate("e2e-raw:storage-differs", fmt.Sprintf("%s: keyspace A's stored keys (prefix removed) are %s, the API v1 universe ends with %s (%v)", desc, gotA.String(), final1, e1), map[string]any{"case": desc})
				}
			}
		}
		if r.SampleN() < 3 {
			r.Sample(map[string]any{"case": desc, "last_ops": hist[len(hist)-3:]})
		}
		for _, c := range []*Client{c1, cA, cB, cC, cRaw} {
			c.Close()
		}
		mvcc1.Close()
		mvcc2.Close()
	}
	r.Floor("programs", 6)
	r.Floor("nonempty_scans_with_empty_bound", 30)
	r.Floor("cas_swapped", 3)
	r.Floor("wire_keys_checked", 1000)
	r.Floor("stored_keys_of_A", 10)
}

func vcatSafely(f func()) (p interface{}) {
	defer func() { p = recover() }()
	f()
	return nil
}
