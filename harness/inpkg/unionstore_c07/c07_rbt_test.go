//go:build verif

package unionstore

// C07 (unit A, white-box extension) — the same workload over the red-black
// tree buffer, whose constructor is not exported.

import "testing"

func TestVerifC07UnionStoreRBT(t *testing.T) {
	c07RunUnionStore(t, "c07-unionstore-rbt", "unionstore-rbt", func() MemBuffer { return newRbtDBWithContext() })
}
