//go:build verif

package unionstore

// C07 (unit A, black-box core) — KVUnionStore = buffered writes over a snapshot.
// The real KVUnionStore (union_store.go + union_iter.go + the default ART
// buffer) is constructed over a *model snapshot* written here (a sorted map
// with its own reference Iter/IterReverse honouring the uSnapshot contract) and
// driven with generated / exhaustively enumerated operation sequences by
// verifh/c07m, which compares every read with a map model after every step.

import (
	"bytes"
	"context"
	"math/rand"
	"sort"
	"testing"

	"github.com/pingcap/log"
	tikverr "github.com/tikv/client-go/v2/error"
	"github.com/tikv/client-go/v2/kv"
	"github.com/tikv/client-go/v2/verifh/c07m"
	"github.com/tikv/client-go/v2/verifh/vrep"
	"go.uber.org/zap"
)

// c07Snap is the model snapshot: immutable sorted content.
type c07Snap struct {
	keys [][]byte // ascending
	vals map[string][]byte
}

func newC07Snap(content map[string][]byte) *c07Snap {
	s := &c07Snap{vals: content}
	for k := range content {
		s.keys = append(s.keys, []byte(k))
	}
	sort.Slice(s.keys, func(i, j int) bool { return bytes.Compare(s.keys[i], s.keys[j]) < 0 })
	return s
}

func (s *c07Snap) Get(_ context.Context, k []byte, _ ...kv.GetOption) (kv.ValueEntry, error) {
	if v, ok := s.vals[string(k)]; ok {
		return kv.NewValueEntry(append([]byte(nil), v...), 7), nil
	}
	return kv.ValueEntry{}, tikverr.ErrNotExist
}

// c07SnapIter walks a precomputed slice of the snapshot.
type c07SnapIter struct {
	s    *c07Snap
	list [][]byte
	pos  int
}

func (it *c07SnapIter) Valid() bool   { return it.pos < len(it.list) }
func (it *c07SnapIter) Key() []byte   { return it.list[it.pos] }
func (it *c07SnapIter) Value() []byte { return it.s.vals[string(it.list[it.pos])] }
func (it *c07SnapIter) Next() error   { it.pos++; return nil }
func (it *c07SnapIter) Close()        {}

// Iter: first entry with k <= key, only keys < upperBound (nil: unbounded).
func (s *c07Snap) Iter(k []byte, upperBound []byte) (Iterator, error) {
	it := &c07SnapIter{s: s}
	for _, key := range s.keys {
		if len(k) > 0 && bytes.Compare(key, k) < 0 {
			continue
		}
		if len(upperBound) > 0 && bytes.Compare(key, upperBound) >= 0 {
			continue
		}
		it.list = append(it.list, key)
	}
	return it, nil
}

// IterReverse: first entry with key < k (nil: last key), only keys >= lowerBound, descending.
func (s *c07Snap) IterReverse(k, lowerBound []byte) (Iterator, error) {
	it := &c07SnapIter{s: s}
	for i := len(s.keys) - 1; i >= 0; i-- {
		key := s.keys[i]
		if len(k) > 0 && bytes.Compare(key, k) >= 0 {
			continue
		}
		if len(lowerBound) > 0 && bytes.Compare(key, lowerBound) < 0 {
			continue
		}
		it.list = append(it.list, key)
	}
	return it, nil
}

// c07SUT adapts a KVUnionStore to c07m.SUT.
type c07SUT struct {
	us   *KVUnionStore
	snap *c07Snap
}

func (s *c07SUT) Get(k []byte) ([]byte, bool, error) {
	e, err := s.us.Get(context.Background(), k)
	if tikverr.IsErrNotFound(err) {
		return nil, false, nil
	}
	if err != nil {
		return nil, false, err
	}
	return e.Value, true, nil
}

// BatchGet: the union store has none; the buffer's BatchGet is overlaid on the
// snapshot here (an entry with an empty value is a buffered deletion, exactly
// as KVUnionStore.Get reads it).
func (s *c07SUT) BatchGet(keys [][]byte) (map[string][]byte, error) {
	bv, err := s.us.GetMemBuffer().BatchGet(context.Background(), keys)
	if err != nil {
		return nil, err
	}
	out := map[string][]byte{}
	for _, k := range keys {
		if e, ok := bv[string(k)]; ok {
			if !e.IsValueEmpty() {
				out[string(k)] = e.Value
			}
			continue
		}
		if v, ok := s.snap.vals[string(k)]; ok {
			out[string(k)] = v
		}
	}
	for k, e := range bv {
		if _, ok := out[k]; !ok && !e.IsValueEmpty() {
			out[k] = e.Value // not asked for: let the driver see it
		}
	}
	return out, nil
}

func (s *c07SUT) Iter(k, upper []byte) (c07m.Iterator, error) {
	it, err := s.us.Iter(k, upper)
	if err != nil {
		return nil, err
	}
	return it, nil
}

func (s *c07SUT) IterReverse(k, lower []byte) (c07m.Iterator, error) {
	it, err := s.us.IterReverse(k, lower)
	if err != nil {
		return nil, err
	}
	return it, nil
}

func (s *c07SUT) Set(k, v []byte) error { return s.us.GetMemBuffer().Set(k, v) }
func (s *c07SUT) Delete(k []byte) error { return s.us.GetMemBuffer().Delete(k) }
func (s *c07SUT) Staging() int          { return s.us.GetMemBuffer().Staging() }
func (s *c07SUT) Release(h int)         { s.us.GetMemBuffer().Release(h) }
func (s *c07SUT) Cleanup(h int)         { s.us.GetMemBuffer().Cleanup(h) }
func (s *c07SUT) Checkpoint() any       { return s.us.GetMemBuffer().Checkpoint() }
func (s *c07SUT) Revert(cp any)         { s.us.GetMemBuffer().RevertToCheckpoint(cp.(*MemDBCheckpoint)) }
func (s *c07SUT) Close()                {}

// Lock leaves a flags-only entry in the buffer (the key is locked, or only carries a lazy-check flag).
func (s *c07SUT) Lock(k []byte, persistent bool) error {
	if persistent {
		s.us.GetMemBuffer().UpdateFlags(k, kv.SetKeyLocked)
	} else {
		s.us.GetMemBuffer().UpdateFlags(k, kv.SetPresumeKeyNotExists)
	}
	return nil
}

func (s *c07SUT) SetLocked(k, v []byte) error {
	return s.us.GetMemBuffer().SetWithFlags(k, v, kv.SetKeyLocked)
}

type c07World struct {
	snap *c07Snap
	buf  func() MemBuffer
}

func (w *c07World) NewSUT(_ *rand.Rand) (c07m.SUT, error) {
	return &c07SUT{us: NewUnionStore(w.buf(), w.snap), snap: w.snap}, nil
}
func (w *c07World) Close() {}

func c07Factory(buf func() MemBuffer) c07m.WorldFactory {
	return func(snap map[string][]byte, _ [][]byte, _ *rand.Rand) (c07m.World, error) {
		return &c07World{snap: newC07Snap(snap), buf: buf}, nil
	}
}

func c07Quiet() {
	// union_iter warns once per dangling tombstone ("delete a record not exists?")
	log.ReplaceGlobals(zap.NewNop(), nil)
}

const c07Rule = "every read (get / batch get / iter / iter-reverse with bounds) of the real union store equals the map model's merged view after every step; " +
	"distinct = distinct (read, bounds, expected result, hidden/shadowed/dangling counts) where the read had to merge buffer entries with snapshot keys"

func c07Floors(r *vrep.Report, scale int) {
	r.Floor("iter_tombstone_hides_snapshot_key", 50*scale)
	r.Floor("iter_buffer_shadows_snapshot_key", 50*scale)
	r.Floor("iter_tombstone_without_snapshot_key", 50*scale)
	r.Floor("iter_lower_ge_upper", 20*scale)
	r.Floor("cleanup_changed_view", 20*scale)
	r.Floor("revert_changed_view", 20*scale)
	r.Floor("revert_after_same_length_overwrite", 5*scale)
	r.Floor("nested_staging", 20*scale)
	r.Floor("op_release", 20*scale)
	r.Floor("iter_ends_on_flags_only_entry", 50*scale)
	r.Floor("iter_reverse_ends_on_flags_only_entry", 20*scale)
}

func c07RunUnionStore(t *testing.T, unit, name string, buf func() MemBuffer) {
	c07Quiet()
	r := vrep.New("C07", unit, c07Rule)
	defer r.Finish(t)
	cfg := c07m.Config{Name: name, Stream: unit, Worlds: vrep.Pick(500, 25000), SeqsPerWorld: 4, Ops: 40, EmptyKey: true, Workers: vrep.Pick(4, 16)}
	c07m.RunRandom(r, cfg, c07Factory(buf))
	c07Floors(r, 1)
	ex := cfg
	ex.Stream = unit + "-exhaustive"
	ex.Workers = vrep.Pick(8, 16)
	ex.SweepEvery = 4
	c07m.RunExhaustive(r, ex, c07Factory(buf), vrep.Pick(4, 5))
	r.Floor("exhaustive_sequences", vrep.Pick(20000, 100000))
}

func TestVerifC07UnionStoreART(t *testing.T) {
	c07RunUnionStore(t, "c07-unionstore-art", "unionstore-art", func() MemBuffer { return NewMemDBWithContext() })
}
