//go:build verif

package tikv

// C13 clause (d), sequences — a transaction may be put under a commit-wait
// constraint several times (SetCommitWaitUntilTSO called 1..4 times: increasing,
// decreasing, equal, zero in between / at the end), interleaved with reads and
// writes and, on the direct path, with an earlier GetTimestampForCommit attempt
// that may have failed.  Every constraint the transaction was given binds it, so
// a commit timestamp obtained afterwards (returned value, CommitTS(), the version
// in the store) is strictly greater than the MAXIMUM constraint ever set, or the
// call fails; a snapshot at that maximum does not see the write.
//
// Paths: GetTimestampForCommit directly, 2PC Commit on mocktikv, and 2PC Commit
// whose first commit ts is rejected by the store (CommitTsExpired: a reader's
// CheckTxnStatus pushes the primary lock's min_commit_ts right before the Commit
// RPC is delivered), which makes the client fetch a commit ts again.

import (
	"bytes"
	"context"
	"fmt"
	"math/rand"
	"sort"
	"sync"
	"sync/atomic"
	"testing"
	"time"

	"github.com/pingcap/failpoint"
	"github.com/pingcap/kvproto/pkg/kvrpcpb"
	"github.com/pingcap/log"
	tikverr "github.com/tikv/client-go/v2/error"
	"github.com/tikv/client-go/v2/oracle"
	"github.com/tikv/client-go/v2/testutils"
	"github.com/tikv/client-go/v2/tikvrpc"
	"github.com/tikv/client-go/v2/txnkv/transaction"
	"github.com/tikv/client-go/v2/util"
	"github.com/tikv/client-go/v2/verifh/vrep"
	"github.com/tikv/client-go/v2/verifh/vtso"
	"go.uber.org/zap/zapcore"
)

// c13PushHijack sits between the KVStore and mocktikv.  For a transaction
// registered with pushFor it sends, once, a CheckTxnStatus with a caller ts above
// the attempted commit ts right before the primary's Commit request is
// delivered: the store pushes the lock's min_commit_ts and answers the Commit
// with CommitTsExpired.
type c13PushHijack struct {
	Client
	mu      sync.Mutex
	push    map[uint64]bool
	commits map[uint64]int
	pushed  atomic.Int64
}

func (h *c13PushHijack) pushFor(startTS uint64) {
	h.mu.Lock()
	h.push[startTS] = true
	h.mu.Unlock()
}

func (h *c13PushHijack) commitRPCs(startTS uint64) int {
	h.mu.Lock()
	defer h.mu.Unlock()
	return h.commits[startTS]
}

func (h *c13PushHijack) SendRequest(ctx context.Context, addr string, req *tikvrpc.Request, timeout time.Duration) (*tikvrpc.Response, error) {
	if req.Type == tikvrpc.CmdCommit {
		cr := req.Commit()
		h.mu.Lock()
		h.commits[cr.StartVersion]++
		doPush := h.push[cr.StartVersion]
		delete(h.push, cr.StartVersion)
		h.mu.Unlock()
		if doPush && len(cr.Keys) > 0 {
			caller := cr.CommitVersion + 3
			creq := tikvrpc.NewRequest(tikvrpc.CmdCheckTxnStatus, &kvrpcpb.CheckTxnStatusRequest{
				PrimaryKey: cr.Keys[0], LockTs: cr.StartVersion, CallerStartTs: caller, CurrentTs: caller,
			}, req.Context)
			if _, err := h.Client.SendRequest(ctx, addr, creq, timeout); err == nil {
				h.pushed.Add(1)
			}
		}
	}
	return h.Client.SendRequest(ctx, addr, req, timeout)
}

type c13SeqCase struct {
	Index      int      `json:"index"`
	Path       string   `json:"path"` // direct | commit | commit-expired-retry
	Kind       string   `json:"kind"`
	LagsMs     []int64  `json:"lags_ms"` // relative to the clock when the case starts; zero constraint: see Zero
	Zero       []bool   `json:"zero"`
	Logical    []string `json:"logical"`
	Interleave []string `json:"interleave"`  // after the i-th set: none | get | set
	MidAttempt int      `json:"mid_attempt"` // direct path: an attempt after the i-th set (-1: none)
	Script     string   `json:"script"`      // frozen | step | force-around-max
	StepMs     int64    `json:"step_ms"`
	StepPct    int      `json:"step_pct"`
	TimeoutMs  int64    `json:"timeout_ms"`
	Values     []uint64 `json:"values"`
	Max        uint64   `json:"max"`
}

func c13GenSeqCase(rng *rand.Rand, idx int) c13SeqCase {
	c := c13SeqCase{Index: idx, MidAttempt: -1}
	c.Path = []string{"direct", "direct", "commit", "commit", "commit-expired-retry"}[rng.Intn(5)]
	c.Kind = []string{"decreasing", "decreasing", "then-zero", "then-zero", "zero-between", "increasing", "equal", "random", "random", "single"}[rng.Intn(10)]
	lagSet := []int64{-3, 0, 1, 2, 10, 100, 300, 999, 1000}
	n := 2 + rng.Intn(3)
	switch c.Kind {
	case "single":
		n = 1
	case "zero-between":
		n = 3 + rng.Intn(2)
	}
	for i := 0; i < n; i++ {
		c.LagsMs = append(c.LagsMs, lagSet[rng.Intn(len(lagSet))])
		c.Zero = append(c.Zero, false)
		c.Logical = append(c.Logical, []string{"zero", "now", "now+1", "now+3", "max"}[rng.Intn(5)])
		c.Interleave = append(c.Interleave, []string{"none", "get", "set"}[rng.Intn(3)])
	}
	switch c.Kind {
	case "increasing":
		sort.Slice(c.LagsMs, func(i, j int) bool { return c.LagsMs[i] < c.LagsMs[j] })
	case "decreasing":
		sort.Slice(c.LagsMs, func(i, j int) bool { return c.LagsMs[i] > c.LagsMs[j] })
	case "equal":
		for i := range c.LagsMs {
			c.LagsMs[i], c.Logical[i] = c.LagsMs[0], c.Logical[0]
		}
	case "then-zero":
		c.Zero[n-1] = true
	case "zero-between":
		c.Zero[1+rng.Intn(n-2)] = true
	case "random":
		if rng.Intn(3) == 0 {
			c.Zero[rng.Intn(n)] = true
		}
	}
	if c.Path == "direct" && n > 1 && rng.Intn(2) == 0 {
		c.MidAttempt = rng.Intn(n - 1)
	}
	c.Script = []string{"frozen", "step", "step", "force-around-max"}[rng.Intn(4)]
	c.StepMs = []int64{1, 7, 50, 300, 1000}[rng.Intn(5)]
	c.StepPct = []int{100, 50}[rng.Intn(2)]
	c.TimeoutMs = []int64{-1, -1, 0, 1000, 2000, 5000}[rng.Intn(6)]
	return c
}

type c13Seq struct {
	r     *vrep.Report
	store *KVStore
	src   *vtso.Source
	hj    *c13PushHijack
}

func (w *c13Seq) judge(c *c13SeqCase, what string, ts uint64, err error, max uint64, fetches int64) string {
	r := w.r
	r.Eval(1)
	det := map[string]any{"case": *c, "attempt": what, "returned": ts, "error": fmt.Sprint(err), "max_constraint_so_far": max, "pd_fetches": fetches}
	switch {
	case err != nil:
		if tikverr.IsErrorCommitTSLag(err) {
			r.Count("commitwait_failed_with_lag_error", 1)
		} else {
			r.Count("commitwait_failed_other", 1)
		}
		return "failed"
	case ts > max:
		r.Count("commitwait_succeeded", 1)
		return "above"
	}
	r.Violate("commitwait:ts-not-above-max-constraint:"+c.Path,
		fmt.Sprintf("%s path (%s): constraints set on the transaction %v (max %d), obtained commit ts %d (<= max) without an error", c.Path, what, c.Values, max, ts), det)
	return "below"
}

func (w *c13Seq) run(c c13SeqCase, key []byte) {
	r := w.r
	ctx := context.Background()
	w.src.ClearForced()
	w.src.SetPolicy(vtso.Policy{Hold: 0})
	txn, err := w.store.Begin()
	if err != nil {
		r.Inconc("Begin: %v", err)
		return
	}
	val := []byte(fmt.Sprintf("s%d", c.Index))
	if err := txn.Set(key, val); err != nil {
		r.Inconc("Set: %v", err)
		return
	}
	p, l := w.src.Now()
	c.Values = nil
	for i := range c.LagsMs {
		if c.Zero[i] {
			c.Values = append(c.Values, 0)
			continue
		}
		bl := map[string]int64{"zero": 0, "now": l, "now+1": l + 1, "now+3": l + 3, "max": 1<<18 - 1}[c.Logical[i]]
		if bl > 1<<18-1 {
			bl = 1<<18 - 1
		}
		c.Values = append(c.Values, vtso.Compose(p+c.LagsMs[i], bl))
	}
	c.Max = 0
	for _, v := range c.Values {
		if v > c.Max {
			c.Max = v
		}
	}
	pol := vtso.Policy{Hold: 0}
	switch c.Script {
	case "step":
		pol.StepPct, pol.StepMaxMs = c.StepPct, c.StepMs
	case "force-around-max":
		if c.Max > 1 {
			w.src.ForceNext(c.Max-1, c.Max, c.Max+1)
		}
	}
	w.src.SetPolicy(pol)
	if c.TimeoutMs >= 0 {
		txn.SetCommitWaitUntilTSOTimeout(time.Duration(c.TimeoutMs) * time.Millisecond)
	}
	var maxSoFar uint64
	lowered := false
	midOutcome := "none"
	for i, v := range c.Values {
		if v < maxSoFar {
			lowered = true
		}
		txn.SetCommitWaitUntilTSO(v)
		if v > maxSoFar {
			maxSoFar = v
		}
		switch c.Interleave[i] {
		case "get":
			txn.Get(ctx, []byte(fmt.Sprintf("seq-other-%d", c.Index%7)))
		case "set":
			txn.Set(append(append([]byte(nil), key...), byte('a'+i)), val)
		}
		if c.Path == "direct" && i == c.MidAttempt {
			req0 := w.src.Requests()
			ts, err := txn.GetTimestampForCommit(NewBackofferWithVars(ctx, transaction.TsoMaxBackoff, nil), oracle.GlobalTxnScope)
			midOutcome = w.judge(&c, fmt.Sprintf("attempt after set #%d", i+1), ts, err, maxSoFar, w.src.Requests()-req0)
			r.Count("commitwait_seq_early_attempts", 1)
			if err != nil {
				r.Count("commitwait_seq_early_attempts_failed", 1)
			}
		}
	}
	req0 := w.src.Requests()
	var ts uint64
	if c.Path == "direct" {
		ts, err = txn.GetTimestampForCommit(NewBackofferWithVars(ctx, transaction.TsoMaxBackoff, nil), oracle.GlobalTxnScope)
	} else {
		if c.Path == "commit-expired-retry" {
			w.hj.pushFor(txn.StartTS())
		}
		err = txn.Commit(ctx)
		ts = txn.CommitTS()
	}
	fetches := w.src.Requests() - req0
	outcome := w.judge(&c, "final", ts, err, c.Max, fetches)
	if c.Path != "direct" && err == nil {
		if n := w.hj.commitRPCs(txn.StartTS()); n > 1 {
			r.Count("commitwait_commit_ts_expired_retries", 1)
		}
		if c.Max > 0 {
			got, gerr := w.store.GetSnapshot(c.Max).Get(ctx, key)
			r.Eval(1)
			r.Count("commitwait_storage_probes", 1)
			if gerr == nil && bytes.Equal(got.Value, val) {
				r.Violate("commitwait:write-visible-at-max-constraint",
					fmt.Sprintf("commit succeeded (CommitTS()=%d) on a transaction that had been put under the constraints %v, but a snapshot read at the maximum %d sees the write", ts, c.Values, c.Max),
					map[string]any{"case": c, "commitTS": ts})
			}
		}
	}
	if c.Path == "direct" || err != nil {
		txn.Rollback()
	}
	if lowered {
		r.Count("commitwait_seq_later_constraint_lower_than_earlier", 1)
		if outcome == "above" {
			r.Count("commitwait_seq_lowered_and_succeeded_above_max", 1)
		}
	}
	if len(c.Values) > 1 {
		r.Count("commitwait_seq_multi_set_cases", 1)
	}
	r.Distinct(fmt.Sprintf("cws|%s|%s|%v|%v|%v|%d|%s|%d|%d|%s|%s|%v", c.Path, c.Kind, c.LagsMs, c.Zero, c.Interleave, c.MidAttempt, c.Script, c.StepMs, c.TimeoutMs, midOutcome, outcome, fetches > 1))
	if r.SampleN() < 4 && lowered && outcome == "above" && fetches > 1 {
		r.Sample(map[string]any{"case": c, "returned": ts, "pd_fetches": fetches})
	}
}

func TestVerifC13CommitWaitSeq(t *testing.T) {
	r := vrep.New("C13", "c13-commitwait-seq", "clause (d) for sequences of 1..4 SetCommitWaitUntilTSO calls on one transaction (increasing, decreasing, equal, zero in between / at the end, random; constraint = now + {-3..1000}ms, logical {0, now, now+1, now+3, max}), interleaved with Get/Set and, on the direct path, with an earlier GetTimestampForCommit attempt (which may fail; judged against the maximum so far); "+
		"paths: GetTimestampForCommit directly, 2PC Commit on mocktikv, 2PC Commit whose first commit ts is rejected with CommitTsExpired (CheckTxnStatus pushes min_commit_ts right before the Commit RPC) so the client fetches a commit ts again; virtual clock frozen / stepped / forced to issue max-1, max, max+1; back-off sleeps skipped by failpoint. "+
		"Verdict (every constraint given to the transaction binds it): no error => returned ts / CommitTS() > the MAXIMUM constraint ever set, and a snapshot read at that maximum does not see the write; an error is always accepted. "+
		"distinct = (path, kind, lags, zeros, interleaving, early attempt, clock script, timeout, outcomes, waited)")
	defer r.Finish(t)
	log.SetLevel(zapcore.FatalLevel)
	util.EnableFailpoints()
	if err := failpoint.Enable("tikvclient/fastBackoffBySkipSleep", "return"); err != nil {
		t.Fatal(err)
	}
	defer failpoint.Disable("tikvclient/fastBackoffBySkipSleep")
	client, cluster, pdClient, err := testutils.NewMockTiKV("", nil)
	if err != nil {
		t.Fatal(err)
	}
	testutils.BootstrapWithSingleStore(cluster)
	seq := &atomic.Int64{}
	src := vtso.New(seq, 1_760_000_000_000, vrep.Rand("c13-cws-pd"), pdClient)
	src.SetPolicy(vtso.Policy{Hold: 0})
	hj := &c13PushHijack{push: map[uint64]bool{}, commits: map[uint64]int{}}
	store, err := NewTestTiKVStore(client, src, func(c Client) Client { hj.Client = c; return hj }, nil, 0)
	if err != nil {
		t.Fatal(err)
	}
	defer func() {
		src.Drain()
		store.Close()
	}()
	w := &c13Seq{r: r, store: store, src: src, hj: hj}
	rng := vrep.Rand("c13-cws-cases")
	for i := 0; i < vrep.Pick(2000, 25000); i++ {
		w.run(c13GenSeqCase(rng, i), []byte(fmt.Sprintf("cws-key-%d-", i)))
		if i%500 == 0 {
			r.Flush()
		}
	}
	r.Count("commitwait_min_commit_ts_pushes", int(hj.pushed.Load()))
	r.Floor("commitwait_seq_multi_set_cases", 1000)
	r.Floor("commitwait_seq_later_constraint_lower_than_earlier", 500)
	r.Floor("commitwait_seq_lowered_and_succeeded_above_max", 100)
	r.Floor("commitwait_seq_early_attempts_failed", 20)
	r.Floor("commitwait_commit_ts_expired_retries", 50)
	r.Floor("commitwait_storage_probes", 200)
}
