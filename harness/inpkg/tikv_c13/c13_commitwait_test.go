//go:build verif

package tikv

// C13 clause (d) — commit-wait: a commit timestamp obtained under a
// commit-wait constraint (KVTxn.SetCommitWaitUntilTSO) is strictly greater
// than the constraint, or the call fails.
//
// A real KVStore (mocktikv back-end, real pd oracle) runs over the scripted
// PD verifh/vtso, whose virtual clock the driver freezes, steps, or forces to
// issue exactly the constraint / constraint±1.  Back-off sleeps are skipped by
// the existing failpoint fastBackoffBySkipSleep (the budget accounting still
// runs), so the wait loop is driven by the virtual clock, not by wall time.
// Observed: the value returned by KVTxn.GetTimestampForCommit, and for whole
// commits KVTxn.CommitTS() plus what a snapshot read *at the constraint* sees.

import (
	"bytes"
	"context"
	"fmt"
	"math/rand"
	"sync"
	"sync/atomic"
	"testing"
	"time"

	"github.com/pingcap/failpoint"
	"github.com/pingcap/log"
	tikverr "github.com/tikv/client-go/v2/error"
	"github.com/tikv/client-go/v2/oracle"
	"github.com/tikv/client-go/v2/testutils"
	"github.com/tikv/client-go/v2/txnkv/transaction"
	"github.com/tikv/client-go/v2/util"
	"github.com/tikv/client-go/v2/verifh/vrep"
	"github.com/tikv/client-go/v2/verifh/vtso"
	"go.uber.org/zap/zapcore"
)

type c13CWCase struct {
	Index     int    `json:"index"`
	Path      string `json:"path"`   // direct | commit
	Script    string `json:"script"` // frozen | step | force-eq | force-below-eq-above | force-above
	StepMs    int64  `json:"step_ms"`
	StepPct   int    `json:"step_pct"`
	LagMs     int64  `json:"lag_ms"`
	LogicalOf string `json:"bound_logical"`
	TimeoutMs int64  `json:"timeout_ms"` // -1: default (1s)
	Bound     uint64 `json:"bound"`
}

func c13GenCWCase(rng *rand.Rand, idx int) c13CWCase {
	c := c13CWCase{Index: idx}
	c.Path = []string{"direct", "direct", "commit"}[rng.Intn(3)]
	c.Script = []string{"frozen", "step", "step", "force-eq", "force-eq", "force-below-eq-above", "force-above"}[rng.Intn(7)]
	c.StepMs = []int64{1, 7, 50, 300, 1000}[rng.Intn(5)]
	c.StepPct = []int{100, 50, 10}[rng.Intn(3)]
	c.LagMs = []int64{-3, 0, 0, 0, 1, 2, 10, 100, 999, 1000, 1001, 3000}[rng.Intn(12)]
	c.LogicalOf = []string{"zero", "now", "now+1", "now+2", "now+6", "max"}[rng.Intn(6)]
	c.TimeoutMs = []int64{-1, -1, 0, 1, 20, 1000, 2000, 5000}[rng.Intn(8)]
	return c
}

type c13CW struct {
	r     *vrep.Report
	store *KVStore
	src   *vtso.Source
}

// run executes one case; key must be private to the caller.
func (w *c13CW) run(c c13CWCase, key []byte, concurrent bool) {
	r := w.r
	ctx := context.Background()
	txn, err := w.store.Begin()
	if err != nil {
		r.Inconc("Begin: %v", err)
		return
	}
	val := []byte(fmt.Sprintf("v%d", c.Index))
	if err := txn.Set(key, val); err != nil {
		r.Inconc("Set: %v", err)
		return
	}
	p, l := w.src.Now()
	var bl int64
	switch c.LogicalOf {
	case "zero":
		bl = 0
	case "now":
		bl = l
	case "now+1":
		bl = l + 1
	case "now+2":
		bl = l + 2
	case "now+6":
		bl = l + 6
	default:
		bl = 1<<18 - 1
	}
	if bl > 1<<18-1 {
		bl = 1<<18 - 1
	}
	bound := vtso.Compose(p+c.LagMs, bl)
	c.Bound = bound
	if !concurrent {
		w.src.ClearForced()
		pol := vtso.Policy{Hold: 0}
		switch c.Script {
		case "step":
			pol.StepPct, pol.StepMaxMs = c.StepPct, c.StepMs
		case "force-eq":
			w.src.ForceNext(bound)
			pol.StepPct, pol.StepMaxMs = c.StepPct, c.StepMs
		case "force-below-eq-above":
			w.src.ForceNext(bound-1, bound, bound+1)
		case "force-above":
			w.src.ForceNext(bound + 1)
		}
		w.src.SetPolicy(pol)
	}
	txn.SetCommitWaitUntilTSO(bound)
	if c.TimeoutMs >= 0 {
		txn.SetCommitWaitUntilTSOTimeout(time.Duration(c.TimeoutMs) * time.Millisecond)
	}
	req0 := w.src.Requests()
	var ts uint64
	if c.Path == "direct" {
		ts, err = txn.GetTimestampForCommit(NewBackofferWithVars(ctx, transaction.TsoMaxBackoff, nil), oracle.GlobalTxnScope)
	} else {
		err = txn.Commit(ctx)
		ts = txn.CommitTS()
	}
	fetches := w.src.Requests() - req0
	r.Eval(1)
	det := map[string]any{"case": c, "returned": ts, "error": fmt.Sprint(err), "pd_fetches": fetches}
	rel := "below"
	switch {
	case err != nil:
		rel = "failed"
		if tikverr.IsErrorCommitTSLag(err) {
			r.Count("commitwait_failed_with_lag_error", 1)
		} else {
			r.Count("commitwait_failed_other", 1)
		}
	case ts > bound:
		rel = "above"
		r.Count("commitwait_succeeded", 1)
		if fetches > 1 && c.Path == "direct" {
			r.Count("commitwait_succeeded_after_waiting", 1)
		}
	default:
		r.Violate("commitwait:ts-not-above-constraint:"+c.Path,
			fmt.Sprintf("%s path: commit-wait constraint %d, obtained commit ts %d (<= constraint) without an error", c.Path, bound, ts), det)
	}
	if c.Path == "commit" && err == nil {
		// the commit ts in storage: a snapshot *at the constraint* must not see this write
		got, gerr := w.store.GetSnapshot(bound).Get(ctx, key)
		r.Eval(1)
		if gerr == nil && bytes.Equal(got.Value, val) {
			r.Violate("commitwait:write-visible-at-constraint",
				fmt.Sprintf("commit succeeded under commit-wait constraint %d (CommitTS()=%d) but a snapshot read at the constraint sees the write", bound, ts), det)
		}
		r.Count("commitwait_storage_probes", 1)
	}
	if c.Path == "direct" || err != nil {
		txn.Rollback()
	}
	first := "first-fetch-enough"
	if fetches > 1 {
		first = "waited"
	}
	if concurrent {
		r.Distinct(fmt.Sprintf("cwc|%s|%d|%s|%d|%s|%s", c.Path, c.LagMs, c.LogicalOf, c.TimeoutMs, rel, first))
	} else {
		r.Distinct(fmt.Sprintf("cw|%s|%s|%d|%d|%d|%s|%d|%s|%s", c.Path, c.Script, c.StepMs, c.StepPct, c.LagMs, c.LogicalOf, c.TimeoutMs, rel, first))
		if (c.Script == "force-eq" || c.Script == "force-below-eq-above") && fetches > 1 && err == nil {
			r.Count("commitwait_pd_issued_exactly_the_constraint_then_more", 1)
		}
		if r.SampleN() < 4 && fetches > 1 {
			r.Sample(det)
		}
	}
}

func TestVerifC13CommitWait(t *testing.T) {
	r := vrep.New("C13", "c13-commitwait", "clause (d): KVTxn.GetTimestampForCommit directly and through Commit (2PC on mocktikv) under SetCommitWaitUntilTSO(bound), real KVStore + real pd oracle over the scripted PD; "+
		"the virtual clock is frozen / stepped by 1..1000ms / forced to issue exactly bound-1, bound, bound+1; bound = now + {-3..3000}ms with logical {0, now, now+1, now+2, now+6, max}; timeouts {default,0,1ms,20ms,1s,2s,5s}; back-off sleeps skipped by failpoint (budget still counted). "+
		"Verdict: no error => returned ts / CommitTS() > bound, and a snapshot read at ts=bound does not see the committed write. An error is always accepted. "+
		"distinct = (path, clock script, step, lag, bound logical, timeout, outcome, waited or not)")
	defer r.Finish(t)
	log.SetLevel(zapcore.FatalLevel)
	util.EnableFailpoints()
	if err := failpoint.Enable("tikvclient/fastBackoffBySkipSleep", "return"); err != nil {
		t.Fatal(err)
	}
	defer failpoint.Disable("tikvclient/fastBackoffBySkipSleep")
	client, cluster, pdClient, err := testutils.NewMockTiKV("", nil)
	if err != nil {
		t.Fatal(err)
	}
	testutils.BootstrapWithSingleStore(cluster)
	seq := &atomic.Int64{}
	src := vtso.New(seq, 1_760_000_000_000, vrep.Rand("c13-cw-pd"), pdClient)
	src.SetPolicy(vtso.Policy{Hold: 0})
	store, err := NewTestTiKVStore(client, src, nil, nil, 0)
	if err != nil {
		t.Fatal(err)
	}
	defer func() {
		src.Drain()
		store.Close()
	}()
	w := &c13CW{r: r, store: store, src: src}
	rng := vrep.Rand("c13-cw-cases")
	n := vrep.Pick(1500, 20000)
	for i := 0; i < n; i++ {
		w.run(c13GenCWCase(rng, i), []byte(fmt.Sprintf("cw-key-%d", i)), false)
		if i%500 == 0 {
			r.Flush()
		}
	}
	// concurrent committers on one clock that keeps stepping
	src.SetPolicy(vtso.Policy{Hold: 0, StepPct: 30, StepMaxMs: 5})
	var wg sync.WaitGroup
	for g := 0; g < 8; g++ {
		wg.Add(1)
		go func(g int) {
			defer wg.Done()
			grng := vrep.Rand(fmt.Sprintf("c13-cw-conc-%d", g))
			for i := 0; i < vrep.Pick(150, 1500); i++ {
				c := c13GenCWCase(grng, 1_000_000*(g+1)+i)
				c.Script = "shared-stepping-clock"
				c.LagMs = []int64{-3, 0, 0, 1, 2, 10, 40}[grng.Intn(7)]
				w.run(c, []byte(fmt.Sprintf("cw-conc-%d-%d", g, i)), true)
			}
		}(g)
	}
	done := make(chan struct{})
	go func() { wg.Wait(); close(done) }()
	select {
	case <-done:
	case <-time.After(120 * time.Second):
		r.Inconc("watchdog: concurrent commit-wait section did not finish within 120s")
		src.Drain()
	}
	r.Floor("commitwait_succeeded", 300)
	r.Floor("commitwait_succeeded_after_waiting", 100)
	r.Floor("commitwait_failed_with_lag_error", 100)
	r.Floor("commitwait_pd_issued_exactly_the_constraint_then_more", 30)
	r.Floor("commitwait_storage_probes", 100)
}
