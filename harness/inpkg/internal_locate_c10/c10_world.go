//go:build verif

package locate

// C10 — world of the send monitor: a mocktikv cluster (PD view only) with
// 3..5 labelled stores, a fresh RegionCache per case, and a scripted fake
// client.Client that answers attempt k of one send with the k-th element of a
// fault script and records what every attempt carried.

import (
	"context"
	"fmt"
	"math/rand"
	"os"
	"sync"
	"sync/atomic"
	"time"

	"github.com/pingcap/failpoint"
	"github.com/pingcap/kvproto/pkg/coprocessor"
	"github.com/pingcap/kvproto/pkg/errorpb"
	"github.com/pingcap/kvproto/pkg/kvrpcpb"
	"github.com/pingcap/kvproto/pkg/metapb"
	"github.com/pingcap/log"
	"github.com/pkg/errors"
	"github.com/tikv/client-go/v2/config/retry"
	"github.com/tikv/client-go/v2/internal/apicodec"
	"github.com/tikv/client-go/v2/internal/client"
	"github.com/tikv/client-go/v2/internal/mockstore/mocktikv"
	"github.com/tikv/client-go/v2/kv"
	"github.com/tikv/client-go/v2/oracle"
	"github.com/tikv/client-go/v2/tikvrpc"
	"github.com/tikv/client-go/v2/util"
	"github.com/tikv/client-go/v2/util/async"
	"go.uber.org/zap/zapcore"
)

// ---------------------------------------------------------------- alphabet

// Fault kinds.  The first block is the alphabet of the property statement;
// the second block are further retry paths of onRegionError used only by the
// random scripts.
const (
	c10RPC       = "rpc"        // transport error
	c10Deadline  = "deadline"   // context.DeadlineExceeded as transport error
	c10NLHint    = "nl+hint"    // NotLeader with leader hint; A = offset of the hinted peer from the target peer (0 = itself), -1 = a peer that is not in the region, 7 = the peer asked before (two stores naming each other)
	c10NLNoHint  = "nl"         // NotLeader without hint
	c10ENMEmpty  = "enm"        // EpochNotMatch without current regions
	c10ENMRegs   = "enm+regs"   // EpochNotMatch with current regions; A=0 newer epoch, 1 older epoch (client ahead of tikv), 2 split in two
	c10RNF       = "rnf"        // RegionNotFound
	c10Busy      = "busy"       // ServerIsBusy without estimated wait
	c10BusyWait  = "busy+wait"  // ServerIsBusy with estimated wait (A ms, default 5000)
	c10StaleCmd  = "stalecmd"   // StaleCommand
	c10StoreNM   = "storenm"    // StoreNotMatch
	c10DataNR    = "datanr"     // DataIsNotReady
	c10MaxTS     = "maxts"      // MaxTimestampNotSynced
	c10DiskFull  = "diskfull"   // DiskFull
	c10Unknown   = "unknown"    // region error with only a message
	c10DeadlineR = "deadline-r" // region error "Deadline is exceeded" (A=0 message form, A=1 ServerIsBusy reason form)

	c10ReadIdx   = "readidx"   // ReadIndexNotReady
	c10Merging   = "merging"   // ProposalInMergingMode
	c10NotInit   = "notinit"   // RegionNotInitialized
	c10Recovery  = "recovery"  // RecoveryInProgress
	c10Witness   = "witness"   // IsWitness
	c10KeyNIR    = "keynir"    // KeyNotInRegion
	c10Mismatch  = "mismatch"  // MismatchPeerId
	c10Undeterm  = "undeterm"  // UndeterminedResult
	c10BucketVer = "bucketver" // BucketVersionNotMatch

	c10Cancel  = "cancel" // the caller's context is cancelled while this attempt is in flight (non-retryable cause)
	c10CtxErr  = "ctxerr" // transport error carrying the error of the caller's context if it has ended (else an ordinary transport error)
	c10Success = "ok"
)

var c10StatementKinds = []string{c10RPC, c10Deadline, c10NLHint, c10NLNoHint, c10ENMEmpty, c10ENMRegs, c10RNF, c10Busy,
	c10BusyWait, c10StaleCmd, c10StoreNM, c10DataNR, c10MaxTS, c10DiskFull, c10Unknown}

var c10ExtraKinds = []string{c10DeadlineR, c10ReadIdx, c10Merging, c10NotInit, c10Recovery, c10Witness, c10KeyNIR,
	c10Mismatch, c10Undeterm, c10BucketVer}

const c10PingPong = 7

type c10Step struct {
	K string `json:"k"`
	A int    `json:"a,omitempty"`
}

func (s c10Step) String() string {
	if s.A != 0 {
		return fmt.Sprintf("%s(%d)", s.K, s.A)
	}
	return s.K
}

// c10Case is the complete, replayable descriptor of one send.
type c10Case struct {
	Stores      int       `json:"stores"`       // 3 = three voters, 4 = three voters + learner, 5 = five voters
	Mode        string    `json:"mode"`         // leader follower mixed learner prefer-leader stale
	Cmd         string    `json:"cmd"`          // tikvrpc.CmdType name
	Script      []c10Step `json:"script"`       // answers of attempt 1..len
	Forever     bool      `json:"forever"`      // repeat the last step for ever instead of answering success
	Label       string    `json:"label"`        // "" or zone value for WithMatchLabels
	MatchStores []int     `json:"match_stores"` // store indexes for WithMatchStores
	LeaderOnly  bool      `json:"leader_only"`
	BusyMs      uint32    `json:"busy_ms"`
	TimeoutMs   int       `json:"timeout_ms"`
	Forwarding  bool      `json:"forwarding"`
	Async       bool      `json:"async"`
	MaxSleep    int       `json:"max_sleep"`
	Unreach     []int     `json:"unreach"` // store indexes whose liveness is unreachable from the start
	Slow        []int     `json:"slow"`    // store indexes marked slow
	DownOnRPC   bool      `json:"down_on_rpc"`
	Leader      int       `json:"leader"` // index of the initial leader peer
	RandSeed    int64     `json:"rand_seed"`
	ReadTS      uint64    `json:"read_ts"`
	RejectTS    bool      `json:"reject_ts"` // the read-ts validator rejects ReadTS
	// sequences of sends on one RegionCache: Before are the sends executed earlier on the same cache (same Stores,
	// Forwarding, Leader, Slow as this case); KeepLive leaves store liveness as the earlier sends left it instead of
	// resetting it to Unreach.
	KeepLive bool       `json:"keep_live,omitempty"`
	Before   []*c10Case `json:"before,omitempty"`
	// the caller's context ends during this send
	CtxEnd *c10CtxEnd `json:"ctx_end,omitempty"`
	// LiveCtx: a liveness probe made with a context that has ended answers "unknown" (what the real probe may
	// answer when the context wins the race against the status RPC); world-wide, taken from the first send.
	LiveCtx bool `json:"live_ctx,omitempty"`
}

func (c *c10Case) scriptString() string {
	s := ""
	if len(c.Before) > 0 {
		s = fmt.Sprintf("after %d earlier sends on the same cached region: ", len(c.Before))
	}
	for i, st := range c.Script {
		if i > 0 {
			s += ","
		}
		s += st.String()
	}
	if c.Forever {
		s += ",…"
	}
	return s
}

func (c *c10Case) kindsString() string {
	s := ""
	for i, st := range c.Script {
		if i > 0 {
			s += ","
		}
		s += st.K
	}
	if c.Forever {
		s += ",…"
	}
	return s
}

// ---------------------------------------------------------------- caller's context

// c10CtxEnd scripts the end of the caller's context (the Backoffer's context) during a send.
type c10CtxEnd struct {
	How      string `json:"how"`      // "cancel": Err()==context.Canceled, "deadline": Err()==context.DeadlineExceeded
	Where    string `json:"where"`    // "start": before the send is called; "inflight": while attempt N is in flight (the client then answers step N of the script: a response, a region error, a transport error or "ctxerr"); "backoff": at the end of the (virtual) sleep of the N-th back-off of this send
	N        int    `json:"n"`        // attempt / back-off number (1-based)
	Ancestor string `json:"ancestor"` // "": the Backoffer's context itself ends; "value"/"cancel": an ancestor ends and the Backoffer holds context.WithValue / context.WithCancel of it
}

func (e *c10CtxEnd) String() string {
	if e == nil {
		return ""
	}
	return fmt.Sprintf("%s@%s%d/%s", e.How, e.Where, e.N, e.Ancestor)
}

// c10Ctx is a context the harness can end at a scripted instant with a chosen error; Value doubles as the hook
// that places the end inside Backoffer.Backoff (which looks up util.ExecDetailsKey right after its sleep).
type c10Ctx struct {
	mu   sync.Mutex
	done chan struct{}
	err  error
	hook atomic.Pointer[func(key interface{})]
}

func (c *c10Ctx) Deadline() (time.Time, bool) { return time.Time{}, false }
func (c *c10Ctx) Done() <-chan struct{}       { return c.done }
func (c *c10Ctx) Err() error {
	c.mu.Lock()
	defer c.mu.Unlock()
	return c.err
}
func (c *c10Ctx) Value(key interface{}) interface{} {
	if h := c.hook.Load(); h != nil {
		(*h)(key)
	}
	return nil
}
func (c *c10Ctx) end(err error) bool {
	c.mu.Lock()
	defer c.mu.Unlock()
	if c.err != nil {
		return false
	}
	c.err = err
	close(c.done)
	return true
}

// ---------------------------------------------------------------- topology

type c10Topo struct {
	n        int
	voters   int
	cluster  *mocktikv.Cluster
	mvcc     mocktikv.MVCCStore
	storeIDs []uint64
	peerIDs  []uint64
	regionID uint64
	pd       *CodecPDClient
	addr2idx map[string]int
}

var c10Once sync.Once

func c10Init() {
	c10Once.Do(func() {
		util.EnableFailpoints()
		if os.Getenv("VERIF_C10_LOG") == "" {
			// the retry paths log every give-up (with stacks); 40 MB per quick run otherwise
			log.SetLevel(zapcore.PanicLevel)
		}
		if err := failpoint.Enable("tikvclient/fastBackoffBySkipSleep", "return"); err != nil {
			panic(err)
		}
		if err := failpoint.Enable("tikvclient/skipStoreCheckUntilHealth", "return"); err != nil {
			panic(err)
		}
	})
}

func c10Zone(i int) string { return fmt.Sprintf("z%d", i%3+1) }

func c10NewTopo(n int) *c10Topo {
	c10Init()
	t := &c10Topo{n: n, addr2idx: map[string]int{}}
	t.mvcc = mocktikv.MustNewMVCCStore()
	t.cluster = mocktikv.NewCluster(t.mvcc)
	voters := n
	if n == 4 {
		voters = 3
	}
	t.storeIDs = t.cluster.AllocIDs(n)
	t.peerIDs = t.cluster.AllocIDs(n)
	t.regionID = t.cluster.AllocID()
	for i, id := range t.storeIDs {
		addr := fmt.Sprintf("store%d", id)
		t.addr2idx[addr] = i
		t.cluster.AddStore(id, addr, &metapb.StoreLabel{Key: "id", Value: fmt.Sprint(id)}, &metapb.StoreLabel{Key: "zone", Value: c10Zone(i)})
	}
	t.voters = voters
	t.cluster.PutRegion(t.regionID, 5, 5, t.storeIDs[:voters], t.peerIDs[:voters], t.peerIDs[0])
	for i := voters; i < n; i++ {
		t.cluster.AddLearner(t.regionID, t.storeIDs[i], t.peerIDs[i])
	}
	t.pd = &CodecPDClient{mocktikv.NewPDClient(t.cluster), apicodec.NewCodecV1(apicodec.ModeTxn)}
	return t
}

func (t *c10Topo) close() { t.mvcc.Close() }

// ---------------------------------------------------------------- fake client

type c10Attempt struct {
	N           int    `json:"n"`
	Addr        string `json:"addr"`
	Fwd         string `json:"fwd,omitempty"`
	Store       uint64 `json:"store"`
	Peer        uint64 `json:"peer"`
	ReplicaRead bool   `json:"replica_read,omitempty"`
	StaleRead   bool   `json:"stale_read,omitempty"`
	Retry       bool   `json:"retry,omitempty"`
	BoTimes     int    `json:"bo_times"`
	BoSleep     int    `json:"bo_sleep"`
	Ans         string `json:"ans"`
}

type c10Minted struct {
	resp  interface{}
	bytes []byte
}

// The last-resort breakers of a send that does not stop by itself, in the
// order they are pulled (attempt numbers): the harness must get control back
// even from a mutated retry loop.
const (
	c10Cap         = 2000 // a send with more attempts "retries for ever"
	c10CapShutdown = c10Cap + 20
	c10CapKill     = c10Cap + 40
	c10CapPanic    = c10Cap + 80
)

type c10Client struct {
	mu       sync.Mutex
	topo     *c10Topo
	cs       *c10Case
	bo       *retry.Backoffer
	cancel   func() // ends the caller's context with context.Canceled
	root     *c10Ctx
	boCtx    context.Context
	emu      sync.Mutex // guards the four fields below (set from the client or from the Backoff hook)
	endedAt  int        // attempts issued (including the one in flight) when the context ended; -1 not ended
	boAtEnd  int        // successful back-offs when the context ended
	afterEnd int        // attempts issued after the context had ended
	nAttA    int64      // atomic mirror of nAtt
	killed   *uint32
	w        *c10World
	attempts []c10Attempt
	nAtt     int
	hints    int
	minted   []c10Minted
	cancelK  int // attempt at which the script cancelled the context
	capHit   bool
	shutdown bool
	closed   []string
	// monitors evaluated on every attempt
	noRetryMarkAt int        // first attempt >= 2 without IsRetryRequest
	writeFlagAt   int        // first attempt of a write command carrying ReplicaRead/StaleRead
	writeFlagged  c10Attempt // that attempt
	nFwd          int
	nReplicaRead  int
	nStale        int
	freeSame      int // re-sends to the same store with no back-off since the previous attempt
	freeOther     int // re-sends to another store with no back-off since the previous attempt
	paid          int // re-sends preceded by at least one back-off
	prevStore     uint64
	prevPeer      uint64
	prevBoTimes   int
	prevKind      string
	freeSameAfter map[string]int // kind answered -> immediate re-sends to the same store without back-off
	uses          map[uint64]int // store id -> attempts of this send that involved the store as target or as proxy
}

func (c *c10Client) Close() error { return nil }
func (c *c10Client) CloseAddr(addr string) error {
	c.mu.Lock()
	c.closed = append(c.closed, addr)
	c.mu.Unlock()
	return nil
}
func (c *c10Client) SetEventListener(client.ClientEventListener) {}

func (c *c10Client) SendRequest(ctx context.Context, addr string, req *tikvrpc.Request, timeout time.Duration) (*tikvrpc.Response, error) {
	return c.answer(ctx, addr, req)
}

func (c *c10Client) SendRequestAsync(ctx context.Context, addr string, req *tikvrpc.Request, cb async.Callback[*tikvrpc.Response]) {
	go func() {
		cb.Schedule(c.answer(ctx, addr, req))
	}()
}

type c10CtxGetter interface{ GetContext() *kvrpcpb.Context }

func (c *c10Client) answer(ctx context.Context, addr string, req *tikvrpc.Request) (*tikvrpc.Response, error) {
	c.mu.Lock()
	defer c.mu.Unlock()
	// what the store would see: the real RPC client attaches req.Context to the
	// inner request right before sending.
	tikvrpc.AttachContext(req, req.Context)
	kctx := &req.Context
	if g, ok := req.Req.(c10CtxGetter); ok && g.GetContext() != nil {
		kctx = g.GetContext()
	}
	c.nAtt++
	atomic.StoreInt64(&c.nAttA, int64(c.nAtt))
	k := c.nAtt
	endedBefore := c.root.Err() != nil
	at := c10Attempt{N: k, Addr: addr, Fwd: req.ForwardedHost, Store: kctx.GetPeer().GetStoreId(), Peer: kctx.GetPeer().GetId(),
		ReplicaRead: kctx.GetReplicaRead(), StaleRead: kctx.GetStaleRead(), Retry: kctx.GetIsRetryRequest(),
		BoTimes: c.bo.GetTotalBackoffTimes(), BoSleep: c.bo.GetTotalSleep()}
	var step c10Step
	switch {
	case k <= len(c.cs.Script):
		step = c.cs.Script[k-1]
	case c.cs.Forever && len(c.cs.Script) > 0:
		step = c.cs.Script[len(c.cs.Script)-1]
	default:
		step = c10Step{K: c10Success}
	}
	at.Ans = step.String()
	if k >= 2 && !at.Retry && c.noRetryMarkAt == 0 {
		c.noRetryMarkAt = k
	}
	if c10IsWrite(req) && (at.ReplicaRead || at.StaleRead || req.Context.ReplicaRead || req.Context.StaleRead) && c.writeFlagAt == 0 {
		c.writeFlagAt = k
		c.writeFlagged = at
		c.writeFlagged.ReplicaRead = at.ReplicaRead || req.Context.ReplicaRead
		c.writeFlagged.StaleRead = at.StaleRead || req.Context.StaleRead
	}
	if c.uses == nil {
		c.uses = map[uint64]int{}
	}
	c.uses[at.Store]++
	if at.Fwd != "" {
		c.nFwd++
		if i, ok := c.topo.addr2idx[addr]; ok && c.topo.storeIDs[i] != at.Store {
			c.uses[c.topo.storeIDs[i]]++
		}
	}
	if at.ReplicaRead {
		c.nReplicaRead++
	}
	if at.StaleRead {
		c.nStale++
	}
	if k >= 2 {
		switch {
		case at.BoTimes > c.prevBoTimes:
			c.paid++
		case at.Store == c.prevStore:
			c.freeSame++
			if c.freeSameAfter == nil {
				c.freeSameAfter = map[string]int{}
			}
			c.freeSameAfter[c.prevKind]++
		default:
			c.freeOther++
		}
	}
	prevPeer := c.prevPeer
	c.prevStore, c.prevPeer, c.prevBoTimes, c.prevKind = at.Store, at.Peer, at.BoTimes, step.K
	if k >= c10Cap {
		// retries for ever: get control back.
		c.capHit = true
		at.Ans = "breaker"
		c.keep(at)
		if k >= c10CapPanic {
			panic("c10: the retry loop cannot be stopped")
		}
		if k >= c10CapKill && c.killed != nil {
			atomic.StoreUint32(c.killed, 1)
		}
		if k >= c10CapShutdown && !c.shutdown {
			c.shutdown = true
			StoreShuttingDown(1)
		}
		c.cancel()
		return nil, errors.WithStack(context.Canceled)
	}
	if endedBefore {
		// issued although the caller's context had ended: a real client fails such a request at once
		c.emu.Lock()
		c.afterEnd++
		c.emu.Unlock()
		at.Ans = "ctx-ended"
		c.keep(at)
		return nil, errors.WithStack(c.root.Err())
	}
	if e := c.cs.CtxEnd; e != nil && e.Where == "inflight" && k == e.N {
		c.endCtx(e.How)
	}
	c.keep(at)
	return c.produce(step, k, addr, req, kctx, prevPeer)
}

// endCtx ends the caller's context as scripted and waits until the Backoffer's context has seen it.
func (c *c10Client) endCtx(how string) {
	err := context.Canceled
	if how == "deadline" {
		err = context.DeadlineExceeded
	}
	c.emu.Lock()
	if c.root.end(err) {
		c.endedAt = int(atomic.LoadInt64(&c.nAttA))
		c.boAtEnd = c.bo.GetTotalBackoffTimes()
	}
	c.emu.Unlock()
	<-c.boCtx.Done()
}

func (c *c10Client) keep(at c10Attempt) {
	// keep the first 40 and the last 24 attempts
	if len(c.attempts) < 64 {
		c.attempts = append(c.attempts, at)
		return
	}
	copy(c.attempts[40:], c.attempts[41:])
	c.attempts[63] = at
}

func (c *c10Client) regionErr(req *tikvrpc.Request, e *errorpb.Error) (*tikvrpc.Response, error) {
	if resp, err := tikvrpc.GenRegionErrorResp(req, e); err == nil {
		return resp, nil
	}
	// a command this client cannot answer with a region error (BatchCop): a transport error instead
	return nil, errors.New("c10 injected transport error (no region-error response for " + req.Type.String() + ")")
}

func (c *c10Client) produce(step c10Step, k int, addr string, req *tikvrpc.Request, kctx *kvrpcpb.Context, prevPeer uint64) (*tikvrpc.Response, error) {
	t := c.topo
	meta, _ := t.cluster.GetRegion(t.regionID)
	switch step.K {
	case c10Success:
		if resp := c.mint(req, k); resp != nil {
			return resp, nil
		}
		return nil, errors.New("c10 injected transport error (no response for " + req.Type.String() + ")")
	case c10RPC:
		if c.cs.DownOnRPC && req.ForwardedHost == "" {
			c.w.mu.Lock()
			c.w.live[t.storeIDs[t.addr2idx[addr]]] = unreachable
			c.w.mu.Unlock()
		}
		return nil, errors.New("c10 injected transport error")
	case c10Deadline:
		return nil, errors.WithStack(context.DeadlineExceeded)
	case c10Cancel:
		c.cancelK = k
		c.endCtx("cancel")
		return nil, errors.WithStack(context.Canceled)
	case c10CtxErr:
		if err := c.root.Err(); err != nil {
			return nil, errors.WithStack(err)
		}
		return nil, errors.New("c10 injected transport error")
	case c10NLHint:
		c.hints++
		var leader *metapb.Peer
		if step.A < 0 {
			leader = &metapb.Peer{Id: 999999, StoreId: t.storeIDs[0]}
		} else {
			idx := 0
			for i, p := range meta.Peers {
				if p.Id == kctx.GetPeer().GetId() {
					idx = i
				}
			}
			leader = meta.Peers[(idx+step.A)%len(meta.Peers)]
			if step.A == c10PingPong {
				// two stores name each other: hint the peer the previous attempt went to
				leader = meta.Peers[(idx+1)%len(meta.Peers)]
				for _, p := range meta.Peers {
					if p.Id == prevPeer && prevPeer != kctx.GetPeer().GetId() {
						leader = p
					}
				}
			}
		}
		return c.regionErr(req, &errorpb.Error{NotLeader: &errorpb.NotLeader{RegionId: t.regionID, Leader: leader}})
	case c10NLNoHint:
		return c.regionErr(req, &errorpb.Error{NotLeader: &errorpb.NotLeader{RegionId: t.regionID}})
	case c10ENMEmpty:
		return c.regionErr(req, &errorpb.Error{EpochNotMatch: &errorpb.EpochNotMatch{}})
	case c10ENMRegs:
		cur := *meta
		ep := *meta.RegionEpoch
		cur.RegionEpoch = &ep
		var regs []*metapb.Region
		switch step.A {
		case 1: // the store is behind the client
			ep.Version--
			regs = []*metapb.Region{&cur}
		case 2: // split
			ep.Version++
			cur.EndKey = []byte("m")
			right := metapb.Region{Id: t.regionID + 1000, StartKey: []byte("m"), RegionEpoch: &metapb.RegionEpoch{ConfVer: ep.ConfVer, Version: ep.Version}}
			for i, p := range meta.Peers {
				right.Peers = append(right.Peers, &metapb.Peer{Id: 5000 + uint64(i), StoreId: p.StoreId, Role: p.Role})
			}
			regs = []*metapb.Region{&cur, &right}
		default:
			ep.Version++
			regs = []*metapb.Region{&cur}
		}
		return c.regionErr(req, &errorpb.Error{EpochNotMatch: &errorpb.EpochNotMatch{CurrentRegions: regs}})
	case c10RNF:
		return c.regionErr(req, &errorpb.Error{RegionNotFound: &errorpb.RegionNotFound{RegionId: t.regionID}})
	case c10Busy:
		return c.regionErr(req, &errorpb.Error{ServerIsBusy: &errorpb.ServerIsBusy{Reason: "c10 busy"}})
	case c10BusyWait:
		ms := uint32(step.A)
		if ms == 0 {
			ms = 5000
		}
		return c.regionErr(req, &errorpb.Error{ServerIsBusy: &errorpb.ServerIsBusy{Reason: "c10 busy", EstimatedWaitMs: ms}})
	case c10StaleCmd:
		return c.regionErr(req, &errorpb.Error{StaleCommand: &errorpb.StaleCommand{}})
	case c10StoreNM:
		return c.regionErr(req, &errorpb.Error{StoreNotMatch: &errorpb.StoreNotMatch{RequestStoreId: kctx.GetPeer().GetStoreId(), ActualStoreId: 77}})
	case c10DataNR:
		return c.regionErr(req, &errorpb.Error{DataIsNotReady: &errorpb.DataIsNotReady{RegionId: t.regionID, PeerId: kctx.GetPeer().GetId(), SafeTs: 1}})
	case c10MaxTS:
		return c.regionErr(req, &errorpb.Error{MaxTimestampNotSynced: &errorpb.MaxTimestampNotSynced{}})
	case c10DiskFull:
		return c.regionErr(req, &errorpb.Error{DiskFull: &errorpb.DiskFull{StoreId: []uint64{kctx.GetPeer().GetStoreId()}, Reason: "c10"}})
	case c10Unknown:
		return c.regionErr(req, &errorpb.Error{Message: "c10 some error this client has never heard of"})
	case c10DeadlineR:
		if step.A == 1 {
			return c.regionErr(req, &errorpb.Error{ServerIsBusy: &errorpb.ServerIsBusy{Reason: "deadline is exceeded"}})
		}
		return c.regionErr(req, &errorpb.Error{Message: "Deadline is exceeded"})
	case c10ReadIdx:
		return c.regionErr(req, &errorpb.Error{ReadIndexNotReady: &errorpb.ReadIndexNotReady{RegionId: t.regionID}})
	case c10Merging:
		return c.regionErr(req, &errorpb.Error{ProposalInMergingMode: &errorpb.ProposalInMergingMode{RegionId: t.regionID}})
	case c10NotInit:
		return c.regionErr(req, &errorpb.Error{RegionNotInitialized: &errorpb.RegionNotInitialized{RegionId: t.regionID}})
	case c10Recovery:
		return c.regionErr(req, &errorpb.Error{RecoveryInProgress: &errorpb.RecoveryInProgress{RegionId: t.regionID}})
	case c10Witness:
		return c.regionErr(req, &errorpb.Error{IsWitness: &errorpb.IsWitness{RegionId: t.regionID}})
	case c10KeyNIR:
		return c.regionErr(req, &errorpb.Error{KeyNotInRegion: &errorpb.KeyNotInRegion{RegionId: t.regionID, Key: []byte("key")}})
	case c10Mismatch:
		return c.regionErr(req, &errorpb.Error{MismatchPeerId: &errorpb.MismatchPeerId{RequestPeerId: kctx.GetPeer().GetId(), StorePeerId: 4242}})
	case c10Undeterm:
		return c.regionErr(req, &errorpb.Error{UndeterminedResult: &errorpb.UndeterminedResult{Message: "c10"}})
	case c10BucketVer:
		return c.regionErr(req, &errorpb.Error{BucketVersionNotMatch: &errorpb.BucketVersionNotMatch{Version: 9}})
	}
	panic("c10: unknown script step " + step.K)
}

type c10Marshaler interface{ Marshal() ([]byte, error) }

// mint produces the genuine response of attempt k: it carries a token that no
// other response of this process carries.
func (c *c10Client) mint(req *tikvrpc.Request, k int) *tikvrpc.Response {
	n := atomic.AddUint64(&c10TokenSeq, 1)
	tok := []byte(fmt.Sprintf("c10-token-%d-attempt-%d", n, k))
	var p interface{}
	switch req.Type {
	case tikvrpc.CmdGet:
		p = &kvrpcpb.GetResponse{Value: tok}
	case tikvrpc.CmdBatchGet:
		p = &kvrpcpb.BatchGetResponse{Pairs: []*kvrpcpb.KvPair{{Key: []byte("key"), Value: tok}}}
	case tikvrpc.CmdScan:
		p = &kvrpcpb.ScanResponse{Pairs: []*kvrpcpb.KvPair{{Key: []byte("key"), Value: tok}}}
	case tikvrpc.CmdCop:
		p = &coprocessor.Response{Data: tok}
	case tikvrpc.CmdScanLock:
		p = &kvrpcpb.ScanLockResponse{Locks: []*kvrpcpb.LockInfo{{Key: tok, LockVersion: n}}}
	case tikvrpc.CmdBufferBatchGet:
		p = &kvrpcpb.BufferBatchGetResponse{Pairs: []*kvrpcpb.KvPair{{Key: []byte("key"), Value: tok}}}
	case tikvrpc.CmdPrewrite:
		p = &kvrpcpb.PrewriteResponse{MinCommitTs: n, OnePcCommitTs: uint64(k)}
	case tikvrpc.CmdCommit:
		p = &kvrpcpb.CommitResponse{CommitVersion: n}
	case tikvrpc.CmdPessimisticLock:
		p = &kvrpcpb.PessimisticLockResponse{Values: [][]byte{tok}}
	case tikvrpc.CmdBatchRollback:
		p = &kvrpcpb.BatchRollbackResponse{}
	case tikvrpc.CmdCheckTxnStatus:
		p = &kvrpcpb.CheckTxnStatusResponse{CommitVersion: n}
	case tikvrpc.CmdResolveLock:
		p = &kvrpcpb.ResolveLockResponse{}
	case tikvrpc.CmdRawGet:
		p = &kvrpcpb.RawGetResponse{Value: tok}
	case tikvrpc.CmdRawPut:
		p = &kvrpcpb.RawPutResponse{}
	case tikvrpc.CmdRawDelete:
		p = &kvrpcpb.RawDeleteResponse{}
	case tikvrpc.CmdCopStream:
		p = &tikvrpc.CopStreamResponse{Response: &coprocessor.Response{Data: tok}}
	default:
		// the harness never lets such a command reach the client on correct code; must not kill the process
		return nil
	}
	var b []byte
	if m, ok := p.(c10Marshaler); ok {
		b, _ = m.Marshal()
	}
	c.minted = append(c.minted, c10Minted{resp: p, bytes: b})
	return &tikvrpc.Response{Resp: p}
}

var c10TokenSeq uint64

// ---------------------------------------------------------------- requests

var c10Modes = []string{"leader", "follower", "mixed", "learner", "prefer-leader", "stale"}

var c10ReadCmds = []string{"Get", "BatchGet", "Scan", "Cop"}
var c10WriteCmds = []string{"Prewrite", "Commit", "PessimisticLock", "BatchRollback", "CheckTxnStatus", "ResolveLock", "RawPut", "RawDelete"}
var c10OtherCmds = []string{"RawGet", "ScanLock"}

func c10IsWrite(req *tikvrpc.Request) bool { return req.IsTxnWriteRequest() || req.IsRawWriteRequest() }

func c10BuildReq(c *c10Case) *tikvrpc.Request {
	ts := c.ReadTS
	if ts == 0 {
		ts = 100
	}
	var typ tikvrpc.CmdType
	var p interface{}
	switch c.Cmd {
	case "Get":
		typ, p = tikvrpc.CmdGet, &kvrpcpb.GetRequest{Key: []byte("key"), Version: ts}
	case "BatchGet":
		typ, p = tikvrpc.CmdBatchGet, &kvrpcpb.BatchGetRequest{Keys: [][]byte{[]byte("key")}, Version: ts}
	case "Scan":
		typ, p = tikvrpc.CmdScan, &kvrpcpb.ScanRequest{StartKey: []byte("key"), Limit: 1, Version: ts}
	case "Cop":
		typ, p = tikvrpc.CmdCop, &coprocessor.Request{Tp: 103, StartTs: ts, Ranges: []*coprocessor.KeyRange{{Start: []byte("key"), End: []byte("kez")}}}
	case "CopStream":
		typ, p = tikvrpc.CmdCopStream, &coprocessor.Request{Tp: 103, StartTs: ts}
	case "BatchCop":
		typ, p = tikvrpc.CmdBatchCop, &coprocessor.BatchRequest{Tp: 103, StartTs: ts}
	case "ScanLock":
		typ, p = tikvrpc.CmdScanLock, &kvrpcpb.ScanLockRequest{MaxVersion: ts, Limit: 1}
	case "BufferBatchGet":
		typ, p = tikvrpc.CmdBufferBatchGet, &kvrpcpb.BufferBatchGetRequest{Keys: [][]byte{[]byte("key")}, Version: ts}
	case "Prewrite":
		typ, p = tikvrpc.CmdPrewrite, &kvrpcpb.PrewriteRequest{Mutations: []*kvrpcpb.Mutation{{Op: kvrpcpb.Op_Put, Key: []byte("key"), Value: []byte("v")}}, PrimaryLock: []byte("key"), StartVersion: ts, LockTtl: 3000}
	case "Commit":
		typ, p = tikvrpc.CmdCommit, &kvrpcpb.CommitRequest{Keys: [][]byte{[]byte("key")}, StartVersion: ts, CommitVersion: ts + 1}
	case "PessimisticLock":
		typ, p = tikvrpc.CmdPessimisticLock, &kvrpcpb.PessimisticLockRequest{Mutations: []*kvrpcpb.Mutation{{Op: kvrpcpb.Op_PessimisticLock, Key: []byte("key")}}, PrimaryLock: []byte("key"), StartVersion: ts, ForUpdateTs: ts, LockTtl: 3000}
	case "BatchRollback":
		typ, p = tikvrpc.CmdBatchRollback, &kvrpcpb.BatchRollbackRequest{Keys: [][]byte{[]byte("key")}, StartVersion: ts}
	case "CheckTxnStatus":
		typ, p = tikvrpc.CmdCheckTxnStatus, &kvrpcpb.CheckTxnStatusRequest{PrimaryKey: []byte("key"), LockTs: ts, CallerStartTs: ts + 1, CurrentTs: ts + 2}
	case "ResolveLock":
		typ, p = tikvrpc.CmdResolveLock, &kvrpcpb.ResolveLockRequest{StartVersion: ts, CommitVersion: ts + 1}
	case "RawGet":
		typ, p = tikvrpc.CmdRawGet, &kvrpcpb.RawGetRequest{Key: []byte("key")}
	case "RawPut":
		typ, p = tikvrpc.CmdRawPut, &kvrpcpb.RawPutRequest{Key: []byte("key"), Value: []byte("v")}
	case "RawDelete":
		typ, p = tikvrpc.CmdRawDelete, &kvrpcpb.RawDeleteRequest{Key: []byte("key")}
	default:
		panic("c10: unknown cmd " + c.Cmd)
	}
	var req *tikvrpc.Request
	seed := uint32(c.RandSeed)
	switch c.Mode {
	case "leader":
		req = tikvrpc.NewRequest(typ, p)
	case "follower":
		req = tikvrpc.NewReplicaReadRequest(typ, p, kv.ReplicaReadFollower, &seed)
	case "mixed":
		req = tikvrpc.NewReplicaReadRequest(typ, p, kv.ReplicaReadMixed, &seed)
	case "learner":
		req = tikvrpc.NewReplicaReadRequest(typ, p, kv.ReplicaReadLearner, &seed)
	case "prefer-leader":
		req = tikvrpc.NewReplicaReadRequest(typ, p, kv.ReplicaReadPreferLeader, &seed)
	case "stale":
		req = tikvrpc.NewRequest(typ, p)
		req.EnableStaleWithMixedReplicaRead()
		req.ReadReplicaScope = oracle.GlobalTxnScope
		req.TxnScope = oracle.GlobalTxnScope
	default:
		panic("c10: unknown mode " + c.Mode)
	}
	req.BusyThresholdMs = c.BusyMs
	return req
}

func (c *c10Case) opts(t *c10Topo) []StoreSelectorOption {
	var o []StoreSelectorOption
	if c.Label != "" {
		o = append(o, WithMatchLabels([]*metapb.StoreLabel{{Key: "zone", Value: c.Label}}))
	}
	if len(c.MatchStores) > 0 {
		var ids []uint64
		for _, i := range c.MatchStores {
			ids = append(ids, t.storeIDs[i%t.n])
		}
		o = append(o, WithMatchStores(ids))
	}
	if c.LeaderOnly {
		o = append(o, WithLeaderOnly())
	}
	return o
}

// ---------------------------------------------------------------- validator

type c10Validator struct {
	mu     sync.Mutex
	reject map[uint64]bool
	calls  int
	failed int
}

func (v *c10Validator) ValidateReadTS(ctx context.Context, readTS uint64, isStaleRead bool, opt *oracle.Option) error {
	v.mu.Lock()
	defer v.mu.Unlock()
	v.calls++
	if v.reject[readTS] {
		v.failed++
		return oracle.ErrFutureTSRead{ReadTS: readTS, CurrentTS: readTS - 1}
	}
	return nil
}

// ---------------------------------------------------------------- one send

type c10Outcome struct {
	cli         *c10Client
	val         *c10Validator
	resp        *tikvrpc.Response
	err         error
	panicked    interface{}
	hung        bool
	n           int // TiKV replicas of the region
	isWrite     bool
	boTimes     int
	boSleep     int
	budgetGone  bool
	ctxDone     bool
	proxyBefore int // proxy index remembered by the cached region when the send started (-1 none)
	endedAt     int // attempts issued when the caller's context ended (-1: it did not end)
	boAtEnd     int // back-offs done when it ended
	afterEnd    int // attempts issued after it had ended
}

type c10CtxKey struct{}

// c10World is one RegionCache (with its cached region, store states and proxy
// bookkeeping) that one or several sends run against.
type c10World struct {
	t     *c10Topo
	cache *RegionCache
	mu    sync.Mutex
	live  map[uint64]livenessState // what a liveness probe of the store answers; guarded by mu
	sends int
}

func c10OpenWorld(t *c10Topo, c *c10Case) *c10World {
	w := &c10World{t: t, live: map[uint64]livenessState{}}
	w.cache = NewRegionCache(t.pd, RegionCacheNoHealthTick)
	w.cache.enableForwarding = c.Forwarding
	for _, id := range t.storeIDs {
		w.live[id] = reachable
	}
	liveCtx := c.LiveCtx
	w.cache.stores.setMockRequestLiveness(func(ctx context.Context, s *Store) livenessState {
		if liveCtx && ctx.Err() != nil {
			return unknown
		}
		w.mu.Lock()
		defer w.mu.Unlock()
		if l, ok := w.live[s.storeID]; ok {
			return l
		}
		return reachable
	})
	region := w.locate()
	if c.Leader%t.voters != 0 {
		region.switchWorkLeaderToPeer(region.meta.Peers[c.Leader%t.voters])
	}
	for _, st := range region.getStore().stores {
		for _, i := range c.Slow {
			if st.storeID == t.storeIDs[i%t.n] {
				st.healthStatus.markAlreadySlow()
			}
		}
	}
	return w
}

func (w *c10World) close() { w.cache.Close() }

// locate does what a caller does before a send: look the region up (reloads it from PD when a previous send
// invalidated it, otherwise the cached region with its leader/proxy bookkeeping is reused).
func (w *c10World) locate() *Region {
	region, _ := w.locate2()
	return region
}

// locate2 also returns the region version the caller would send with; the cached region can be missing for it (PD
// answered with an older epoch than a region an EpochNotMatch had put into the cache): the send is made all the same.
func (w *c10World) locate2() (*Region, RegionVerID) {
	loc, err := w.cache.LocateKey(retry.NewNoopBackoff(context.Background()), []byte("key"))
	if err != nil {
		panic(fmt.Sprintf("c10: cannot load the region: %v", err))
	}
	return w.cache.GetCachedRegionWithRLock(loc.Region), loc.Region
}

// setLiveness plays the part of the store health-check loop (disabled by failpoint in this harness): the listed
// stores are unreachable, all others are (again) reachable, both for new probes and in the cached state.
func (w *c10World) setLiveness(region *Region, unreach []int) {
	down := map[uint64]bool{}
	for _, i := range unreach {
		down[w.t.storeIDs[i%w.t.n]] = true
	}
	w.mu.Lock()
	for _, id := range w.t.storeIDs {
		if down[id] {
			w.live[id] = unreachable
		} else {
			w.live[id] = reachable
		}
	}
	w.mu.Unlock()
	if region == nil {
		return
	}
	for _, st := range region.getStore().stores {
		l := reachable
		if down[st.storeID] {
			l = unreachable
		}
		atomic.StoreUint32(&st.livenessState, uint32(l))
	}
}

// c10Send executes one case against the real sender in a world of its own.
func c10Send(t *c10Topo, c *c10Case) *c10Outcome {
	w := c10OpenWorld(t, c)
	defer w.close()
	return w.send(c)
}

// send executes one send in the world.
func (w *c10World) send(c *c10Case) (out *c10Outcome) {
	t := w.t
	out = &c10Outcome{}
	region, regionID := w.locate2()
	if w.sends == 0 || !c.KeepLive {
		w.setLiveness(region, c.Unreach)
	}
	w.sends++
	cache := w.cache

	root := &c10Ctx{done: make(chan struct{})}
	defer root.end(context.Canceled)
	var ctx context.Context = root
	if e := c.CtxEnd; e != nil {
		switch e.Ancestor {
		case "value":
			ctx = context.WithValue(root, c10CtxKey{}, 1)
		case "cancel":
			var ccancel context.CancelFunc
			ctx, ccancel = context.WithCancel(root)
			defer ccancel()
		}
	}
	var killed uint32
	cli := &c10Client{topo: t, w: w, cs: c, killed: &killed, root: root, boCtx: ctx, endedAt: -1}
	cli.cancel = func() { cli.endCtx("cancel") }
	out.cli = cli
	defer func() {
		if cli.shutdown {
			StoreShuttingDown(0)
		}
	}()
	rng := rand.New(rand.NewSource(c.RandSeed))
	var rmu sync.Mutex
	randIntn = func(n int) int {
		rmu.Lock()
		defer rmu.Unlock()
		return rng.Intn(n)
	}
	defer func() { randIntn = rand.Intn }()

	out.n, out.proxyBefore = t.n, -1
	if region != nil {
		out.n = len(region.getStore().accessIndex[tiKVOnly])
		out.proxyBefore = int(region.getStore().proxyTiKVIdx)
	}

	val := &c10Validator{reject: map[uint64]bool{}}
	if c.RejectTS {
		val.reject[c.ReadTS] = true
	}
	out.val = val
	sender := NewRegionRequestSender(cache, cli, val)
	vars := kv.NewVariables(&killed)
	bo := retry.NewBackofferWithVars(ctx, c.MaxSleep, vars)
	cli.bo = bo
	if e := c.CtxEnd; e != nil {
		switch e.Where {
		case "start":
			cli.endCtx(e.How)
		case "backoff":
			// Backoffer.Backoff looks util.ExecDetailsKey up in its context right after the sleep and the
			// accounting of a back-off: the N-th such lookup is "the context ends during the N-th back-off".
			// (only the goroutine that runs Backoff looks this key up in the Backoffer's own context while the
			// context is alive, so reading the Backoffer's counters here is not a race.)
			h := func(key interface{}) {
				if key == util.ExecDetailsKey && root.Err() == nil && bo.GetTotalBackoffTimes() >= e.N {
					cli.endCtx(e.How)
				}
			}
			root.hook.Store(&h)
		}
	}
	req := c10BuildReq(c)
	out.isWrite = c10IsWrite(req)
	timeout := time.Duration(c.TimeoutMs) * time.Millisecond
	opts := c.opts(t)

	if !c.Async {
		func() {
			defer func() {
				if p := recover(); p != nil {
					out.panicked = p
				}
			}()
			out.resp, _, _, out.err = sender.SendReqCtx(bo, req, regionID, timeout, tikvrpc.TiKV, opts...)
		}()
	} else {
		rl := async.NewRunLoop()
		done := false
		cb := async.NewCallback(rl, func(r *tikvrpc.ResponseExt, e error) {
			if r != nil {
				out.resp = &r.Response
			}
			out.err = e
			done = true
		})
		func() {
			defer func() {
				if p := recover(); p != nil {
					out.panicked = p
					done = true
				}
			}()
			sender.SendReqAsync(bo, req, regionID, timeout, cb, opts...)
		}()
		// generous wall-clock watchdog; its firing is inconclusive, not a verdict
		wctx, wcancel := context.WithTimeout(context.Background(), 60*time.Second)
		for !done {
			if _, e := rl.Exec(wctx); e != nil {
				out.hung = true
				break
			}
		}
		wcancel()
	}
	cli.mu.Lock()
	defer cli.mu.Unlock()
	out.boTimes = bo.GetTotalBackoffTimes()
	out.boSleep = bo.GetTotalSleep()
	root.hook.Store(nil)
	out.ctxDone = root.Err() != nil
	cli.emu.Lock()
	out.endedAt, out.boAtEnd, out.afterEnd = cli.endedAt, cli.boAtEnd, cli.afterEnd
	cli.emu.Unlock()
	// "the budget is spent" is asked of the Backoffer itself: would one more
	// back-off be refused?  (asked on a clone so that the probe leaves no trace;
	// tikvServerBusy is refused whenever any other kind is, and also when the
	// excluded budget is spent).
	if !out.ctxDone && !out.hung {
		out.budgetGone = bo.Clone().Backoff(retry.BoTiKVServerBusy, errors.New("c10 probe")) != nil
	}
	return out
}
