//go:build verif

package locate

// C10 — a request send ends within its retry budget and never mislabels the
// read mode.  Runtime monitor: the real RegionRequestSender (+ replica
// selector, region cache, Backoffer) is driven by a scripted fake client; every
// attempt that reaches the client and the value the send returns are judged by
// the oracle clauses below.  Nothing is timed: attempts and back-offs are
// counted.
//
//   (1) bounded attempts   attempts(send) <= maxReplicaAttempt*replicas + H + 2, H = NotLeader-with-hint answers of
//                          this send (each hint may give the hinted peer one more try); no single store takes part
//                          (as target or forwarding proxy) in more than maxReplicaAttempt + replicas + H attempts;
//                          and attempts < 2000 whatever the script ("retries for ever" otherwise; the harness then
//                          breaks the loop itself);
//   (2) truthful result    exactly one of: the response object the script produced for the *last* attempt of this send
//                          (pointer and bytes identical), a response carrying a region error, or an error — and an
//                          error only if the Backoffer refuses a further back-off (budget spent), the script cancelled
//                          the caller's context, or the read-ts validator rejected the request;
//   (3) write flags        no attempt of a write command (IsTxnWriteRequest || IsRawWriteRequest) carries
//                          ReplicaRead or StaleRead in the kvrpcpb.Context the store would see;
//   (4) read-ts            a read with a timestamp (Get, BatchGet, Scan, Cop, CopStream, BatchCop, ScanLock,
//                          BufferBatchGet) whose timestamp the validator rejects reaches the client zero times;
//   (5) retry marker       every attempt after the first of one send carries IsRetryRequest.

import (
	"bytes"
	"encoding/json"
	"fmt"
	"math/rand"
	"os"
	"sort"
	"strings"
	"testing"

	"github.com/tikv/client-go/v2/verifh/vrep"
)

const c10Rule = "one evaluation = one SendReqCtx/SendReqAsync call of the real sender against a scripted client; " +
	"clauses: (1) attempts <= maxReplicaAttempt*replicas + #NotLeader-hints + 2, per store (target or proxy) <= maxReplicaAttempt + replicas + #hints, and < 2000 (counted, never timed), " +
	"(2) result is the script's own last response (pointer+bytes) | a region-error response | an error with the budget spent / context cancelled / read-ts rejected, " +
	"(3) no write attempt carries ReplicaRead/StaleRead, (4) rejected read-ts => zero attempts, (5) attempts 2.. carry IsRetryRequest; " +
	"distinct = distinct (script kinds, mode, read|write|other, forwarding, sync|async) among non-trivial sends (>=2 attempts or a result other than the first answer's success)"

type c10Stats struct {
	maxAttempts int
	maxAfterEnd int
	topos       map[int]*c10Topo
}

func (s *c10Stats) topo(n int) *c10Topo {
	if s.topos == nil {
		s.topos = map[int]*c10Topo{}
	}
	if s.topos[n] == nil {
		s.topos[n] = c10NewTopo(n)
	}
	return s.topos[n]
}

func (s *c10Stats) close() {
	for _, t := range s.topos {
		t.close()
	}
}

func c10CmdClass(cmd string) string {
	for _, c := range c10ReadCmds {
		if c == cmd {
			return "read"
		}
	}
	for _, c := range c10WriteCmds {
		if c == cmd {
			return "write"
		}
	}
	return "other"
}

// c10HasReadTS: the read commands that carry a read timestamp.
func c10HasReadTS(cmd string) bool {
	switch cmd {
	case "Get", "BatchGet", "Scan", "Cop", "CopStream", "BatchCop", "ScanLock", "BufferBatchGet":
		return true
	}
	return false
}

func c10Dominant(cli *c10Client) string {
	cnt := map[string]int{}
	for _, a := range cli.attempts {
		k := a.Ans
		if i := strings.IndexByte(k, '('); i >= 0 {
			k = k[:i]
		}
		if k != "breaker" {
			cnt[k]++
		}
	}
	best, bn := "?", -1
	keys := make([]string, 0, len(cnt))
	for k := range cnt {
		keys = append(keys, k)
	}
	sort.Strings(keys)
	for _, k := range keys {
		if cnt[k] > bn {
			best, bn = k, cnt[k]
		}
	}
	return best
}

func c10Defaults(c *c10Case) {
	if c.TimeoutMs == 0 {
		c.TimeoutMs = 30000
	}
	if c.MaxSleep == 0 {
		c.MaxSleep = 40000
	}
	if c.Stores == 0 {
		c.Stores = 3
	}
}

// c10Run executes one case (with the sends that precede it on the same cache, if any) and judges it.
func c10Run(r *vrep.Report, st *c10Stats, c *c10Case) {
	if len(c.Before) > 0 {
		seq := append(append([]*c10Case{}, c.Before...), c)
		c10RunSession(r, st, seq)
		return
	}
	c10Defaults(c)
	c10Judge(r, st, c, c10Send(st.topo(c.Stores), c))
}

// c10RunSession executes a sequence of sends on one RegionCache (one cached region: leader, store liveness, store
// epochs and the proxy remembered by a successful forwarding carry over) and judges every send.
func c10RunSession(r *vrep.Report, st *c10Stats, seq []*c10Case) {
	for _, c := range seq {
		c10Defaults(c)
		c.Stores, c.Forwarding, c.Leader, c.Slow, c.LiveCtx = seq[0].Stores, seq[0].Forwarding, seq[0].Leader, seq[0].Slow, seq[0].LiveCtx
	}
	w := c10OpenWorld(st.topo(seq[0].Stores), seq[0])
	defer w.close()
	r.Count("sessions", 1)
	for i, c := range seq {
		c.Before = nil
		for _, b := range seq[:i] {
			bb := *b
			bb.Before = nil
			c.Before = append(c.Before, &bb)
		}
		out := w.send(c)
		if i > 0 {
			r.Count("sends_on_reused_cache", 1)
			if out.proxyBefore >= 0 {
				r.Count("sends_starting_with_remembered_proxy", 1)
				if out.cli.nFwd > 0 {
					r.Count("sends_forwarding_with_remembered_proxy", 1)
				}
			}
		}
		c10Judge(r, st, c, out)
	}
}

// c10Judge applies the oracle clauses to one executed send.
func c10Judge(r *vrep.Report, st *c10Stats, c *c10Case, out *c10Outcome) {
	cli := out.cli
	r.Eval(1)
	A := cli.nAtt
	if A > st.maxAttempts {
		st.maxAttempts = A
	}
	path := "sync"
	if c.Async {
		path = "async"
	}
	class := "?"
	detail := func() map[string]any {
		res := map[string]any{"class": class, "attempts": A, "backoffs": out.boTimes, "backoff_ms": out.boSleep, "budget_spent": out.budgetGone, "ctx_done": out.ctxDone,
			"ctx_ended_at_attempt": out.endedAt, "attempts_after_ctx_end": out.afterEnd}
		if out.err != nil {
			res["err"] = strings.SplitN(out.err.Error(), "\n", 2)[0]
		}
		if out.resp != nil {
			if re, _ := out.resp.GetRegionError(); re != nil {
				res["region_error"] = re.String()
			}
		}
		return map[string]any{"case": c, "trace": cli.attempts, "result": res, "replicas": out.n, "remembered_proxy_idx": out.proxyBefore}
	}
	if out.panicked != nil {
		class = "panic"
		r.Violate("panic:"+path, fmt.Sprintf("send panicked (%v) on script [%s] mode=%s cmd=%s", out.panicked, c.scriptString(), c.Mode, c.Cmd), detail())
		return
	}
	if out.hung {
		r.Inconc("async send did not complete within the 60s watchdog: script [%s] mode=%s cmd=%s", c.scriptString(), c.Mode, c.Cmd)
		return
	}

	// ---- result class
	switch {
	case out.err != nil:
		class = "error"
	case out.resp == nil:
		class = "none"
	default:
		re, e := out.resp.GetRegionError()
		if e != nil {
			class = "bad-response"
		} else if re != nil {
			class = "region-error"
		} else {
			class = "success"
		}
	}

	// ---- (1) bounded attempts
	bound := maxReplicaAttempt*out.n + cli.hints + 2
	if cli.capHit {
		dom := c10Dominant(cli)
		r.Violate("retries-forever:"+dom, fmt.Sprintf("send did not end within %d attempts (back-offs=%d, %dms) on script [%s] mode=%s cmd=%s %s: retries for ever",
			c10Cap, out.boTimes, out.boSleep, c.scriptString(), c.Mode, c.Cmd, path), detail())
		r.Count("forever_sends", 1)
	} else if A > bound {
		r.Violate("attempt-bound:"+c10Dominant(cli), fmt.Sprintf("%d attempts > bound %d (=%d*%d replicas + %d hints + 2) on script [%s] mode=%s cmd=%s",
			A, bound, maxReplicaAttempt, out.n, cli.hints, c.scriptString(), c.Mode, c.Cmd), detail())
	}

	if !cli.capHit {
		// per replica: a store takes part in an attempt as target or as forwarding proxy only while it has attempts
		// left (at most maxReplicaAttempt), plus the forwarded attempts of an unreachable leader (one per other
		// replica), plus the extra chances given by hints.
		perStore := maxReplicaAttempt + out.n + cli.hints
		ids := make([]uint64, 0, len(cli.uses))
		for id := range cli.uses {
			ids = append(ids, id)
		}
		sort.Slice(ids, func(i, j int) bool { return ids[i] < ids[j] })
		for _, id := range ids {
			if cli.uses[id] > perStore {
				r.Violate("attempt-bound-per-replica:"+c10Dominant(cli), fmt.Sprintf("store %d took part in %d attempts of one send > bound %d (=%d + %d replicas + %d hints) on script [%s] mode=%s cmd=%s forwarding=%v",
					id, cli.uses[id], perStore, maxReplicaAttempt, out.n, cli.hints, c.scriptString(), c.Mode, c.Cmd, c.Forwarding), detail())
				break
			}
		}
	}

	// ---- (2) truthful result (not judged when the harness broke the loop, or when a rejected read was sent:
	// the scripted client cannot answer every read command)
	if !cli.capHit && !(c.RejectTS && c10HasReadTS(c.Cmd) && A > 0) {
		switch class {
		case "none", "bad-response":
			r.Violate("result:"+class+":"+path, fmt.Sprintf("send returned neither a response nor an error on script [%s] mode=%s cmd=%s", c.scriptString(), c.Mode, c.Cmd), detail())
		case "success":
			ok := false
			why := "the script produced no success for this send"
			if n := len(cli.minted); n > 0 {
				m := cli.minted[n-1]
				lastOK := len(cli.attempts) > 0 && cli.attempts[len(cli.attempts)-1].Ans == c10Success
				switch {
				case m.resp != out.resp.Resp:
					why = "the returned response is not the object the script produced last"
				case !lastOK:
					why = "the last attempt of the send was not answered with success"
				default:
					var b []byte
					if mm, isM := out.resp.Resp.(c10Marshaler); isM {
						b, _ = mm.Marshal()
					}
					if bytes.Equal(b, m.bytes) {
						ok = true
					} else {
						why = "the returned response differs from what the store produced"
					}
				}
			}
			if !ok {
				r.Violate("result:fabricated-success:"+path, fmt.Sprintf("send returned a success that %s; script [%s] mode=%s cmd=%s attempts=%d", why, c.scriptString(), c.Mode, c.Cmd, A), detail())
			}
			if A > 1 {
				r.Count("genuine_after_retry", 1)
			}
		case "error":
			switch {
			case c.RejectTS && A == 0:
				r.Count("errors_readts_rejected", 1)
			case out.ctxDone:
				r.Count("errors_ctx_cancelled", 1)
			case out.budgetGone:
				r.Count("errors_budget_spent", 1)
			default:
				r.Violate("result:error-budget-not-spent:"+c10Dominant(cli), fmt.Sprintf("send gave up with error %q although the Backoffer still grants back-offs (%d back-offs, %dms of %dms) and nothing non-retryable happened; script [%s] mode=%s cmd=%s",
					strings.SplitN(out.err.Error(), "\n", 2)[0], out.boTimes, out.boSleep, c.MaxSleep, c.scriptString(), c.Mode, c.Cmd), detail())
			}
		case "region-error":
			r.Count("region_error_returns", 1)
			if A == 0 || cli.attempts[len(cli.attempts)-1].Ans == c10Success {
				r.Count("region_error_synthesized", 1)
			}
		}
	}

	// ---- (3) write flags
	if out.isWrite && cli.writeFlagAt > 0 {
		a := cli.writeFlagged
		flag := "ReplicaRead"
		if a.StaleRead {
			flag = "StaleRead"
		}
		r.Violate("write-flagged:"+flag+":"+c.Mode, fmt.Sprintf("write command %s was sent with %s=true (attempt %d to store %d) in mode %s; script [%s]", c.Cmd, flag, a.N, a.Store, c.Mode, c.scriptString()), detail())
	}
	// ---- (4) read-ts
	if c.RejectTS && c10HasReadTS(c.Cmd) && A > 0 {
		r.Violate("readts:rejected-read-sent:"+c.Cmd, fmt.Sprintf("%s with read ts %d rejected by the validator reached the client %d times (mode=%s %s)", c.Cmd, c.ReadTS, A, c.Mode, path), detail())
	}
	// ---- (5) retry marker
	if cli.noRetryMarkAt > 0 {
		r.Violate("retry-marker-missing:"+path, fmt.Sprintf("attempt %d of one send did not carry IsRetryRequest; script [%s] mode=%s cmd=%s", cli.noRetryMarkAt, c.scriptString(), c.Mode, c.Cmd), detail())
	}

	// ---- the caller's context ended during the send: the statement does not say how fast the send has to end
	// or what it has to return then, so beyond the clauses above (bounded, truthful result, flags) the behaviour
	// is recorded, not judged.
	if e := c.CtxEnd; e != nil && out.endedAt >= 0 && !cli.capHit {
		r.Count("ctxend_sends", 1)
		r.Count("ctxend_"+e.How+"_"+e.Where, 1)
		if e.Ancestor != "" {
			r.Count("ctxend_on_ancestor", 1)
		}
		r.Count("ctxend_result_"+class, 1)
		r.Count("ctxend_attempts_issued_after_end", out.afterEnd)
		r.Count("ctxend_backoffs_after_end", out.boTimes-out.boAtEnd)
		if out.afterEnd > 0 {
			r.Count("ctxend_sends_with_attempts_after_end", 1)
		}
		if out.afterEnd > st.maxAfterEnd {
			st.maxAfterEnd = out.afterEnd
		}
		if class == "region-error" {
			lastAns := ""
			if len(cli.attempts) > 0 {
				lastAns = cli.attempts[len(cli.attempts)-1].Ans
			}
			switch lastAns {
			case "", "ctx-ended", c10CtxErr, c10RPC, c10Deadline, c10Cancel:
				// no store answered with a region error last: the sender made one up for the caller
				r.Count("ctxend_pseudo_region_error_returned", 1)
			}
		}
		r.Distinct(fmt.Sprintf("ctxend|%s|%s|%s|%v|%s", e.String(), c.kindsString(), c.Mode, c.Async, class))
	}
	if n := len(c.Before); n > 0 && c.CtxEnd == nil {
		if b := c.Before[n-1]; b.CtxEnd != nil {
			r.Count("sends_following_a_ctxend_send", 1)
			r.Count("sends_following_a_ctxend_send_"+class, 1)
		}
	}

	// ---- what was observed
	r.Count("sends", 1)
	r.Count("attempts", A)
	r.Count("class_"+class, 1)
	r.Count("backoffs", out.boTimes)
	if A > 1 {
		r.Count("sends_with_retry", 1)
		r.Count("retry_attempts_marked", A-1)
	}
	if out.isWrite {
		r.Count("write_sends", 1)
		r.Count("write_attempts", A)
	}
	if c.Async {
		r.Count("async_sends", 1)
	}
	r.Count("attempts_forwarded", cli.nFwd)
	r.Count("attempts_replica_read", cli.nReplicaRead)
	r.Count("attempts_stale_read", cli.nStale)
	if c.Mode == "stale" && cli.nStale < A && A > 0 {
		r.Count("stale_fallbacks", 1)
	}
	r.Count("free_retries_same_store", cli.freeSame)
	r.Count("free_retries_other_store", cli.freeOther)
	r.Count("paid_retries", cli.paid)
	for k, n := range cli.freeSameAfter {
		r.Count("free_same_store_resend_after:"+k, n)
	}
	if A >= 2 || (class != "success") {
		fp := fmt.Sprintf("%s|%s|%s|%v|%v", c.kindsString(), c.Mode, c10CmdClass(c.Cmd), c.Forwarding, c.Async)
		for _, b := range c.Before {
			fp = b.kindsString() + ";" + fp
		}
		if len(c.Before) > 0 {
			fp += fmt.Sprintf("|proxy=%v|unreach=%v", out.proxyBefore >= 0, c.Unreach)
		}
		r.Distinct(fp)
	}
	if A >= 3 && r.SampleN() < 5 && (c.Forwarding == (r.SampleN()%2 == 1)) {
		r.Sample(detail())
	}
}

// ---------------------------------------------------------------- generators

func c10Pick[T any](rng *rand.Rand, xs []T) T { return xs[rng.Intn(len(xs))] }

func c10RandCfg(rng *rand.Rand, c *c10Case) {
	switch x := rng.Intn(10); {
	case x < 6:
		c.Stores = 3
	case x < 8:
		c.Stores = 4
	default:
		c.Stores = 5
	}
	voters := c.Stores
	if c.Stores == 4 {
		voters = 3
	}
	if c.Cmd == "" {
		switch x := rng.Intn(20); {
		case x < 10:
			c.Cmd = c10Pick(rng, c10ReadCmds)
		case x < 17:
			c.Cmd = c10Pick(rng, c10WriteCmds)
		default:
			c.Cmd = c10Pick(rng, c10OtherCmds)
		}
	}
	if rng.Intn(2) == 0 {
		c.Label = c10Zone(rng.Intn(3))
	}
	if rng.Intn(5) == 0 {
		c.MatchStores = []int{rng.Intn(c.Stores)}
	}
	c.LeaderOnly = rng.Intn(20) == 0
	if rng.Intn(4) == 0 {
		c.BusyMs = 50
	}
	c.TimeoutMs = 30000
	if rng.Intn(5) < 2 {
		c.TimeoutMs = 1000
	}
	c.Forwarding = rng.Intn(10) < 3
	c.Async = rng.Intn(4) == 0
	if c.MaxSleep == 0 {
		c.MaxSleep = c10Pick(rng, []int{40000, 40000, 40000, 2000, 100, 10, 1})
	}
	c.Leader = rng.Intn(voters)
	switch x := rng.Intn(20); {
	case x < 12:
	case x < 15:
		c.Unreach = []int{c.Leader}
	case x < 18:
		c.Unreach = []int{rng.Intn(c.Stores)}
	default:
		c.Unreach = []int{rng.Intn(c.Stores), rng.Intn(c.Stores)}
	}
	switch x := rng.Intn(10); {
	case x < 7:
	case x < 8:
		c.Slow = []int{c.Leader}
	default:
		c.Slow = []int{rng.Intn(c.Stores)}
	}
	c.DownOnRPC = rng.Intn(2) == 0
	c.RandSeed = rng.Int63()
	c.ReadTS = 100
}

func c10DefaultStep(k string) c10Step {
	if k == c10NLHint {
		return c10Step{K: k, A: 1}
	}
	return c10Step{K: k}
}

func c10RandStep(rng *rand.Rand, kinds []string) c10Step {
	k := c10Pick(rng, kinds)
	s := c10Step{K: k}
	switch k {
	case c10NLHint:
		s.A = c10Pick(rng, []int{0, 1, 1, 2, 3, -1, c10PingPong})
	case c10ENMRegs:
		s.A = rng.Intn(3)
	case c10BusyWait:
		s.A = c10Pick(rng, []int{0, 10, 200, 5000})
	case c10DeadlineR:
		s.A = rng.Intn(2)
	}
	return s
}

// c10AllSteps: every fault kind with every variant.
func c10AllSteps() []c10Step {
	var last []c10Step
	for _, k := range append(append([]string{}, c10StatementKinds...), c10ExtraKinds...) {
		switch k {
		case c10NLHint:
			for _, a := range []int{c10PingPong, 1, 2, 0, -1} {
				last = append(last, c10Step{K: k, A: a})
			}
		case c10ENMRegs:
			for a := 0; a < 3; a++ {
				last = append(last, c10Step{K: k, A: a})
			}
		case c10DeadlineR:
			last = append(last, c10Step{K: k}, c10Step{K: k, A: 1})
		default:
			last = append(last, c10Step{K: k})
		}
	}
	return last
}

func c10RandCtxEnd(rng *rand.Rand) *c10CtxEnd {
	e := &c10CtxEnd{How: c10Pick(rng, []string{"cancel", "deadline"}), Ancestor: c10Pick(rng, []string{"", "", "value", "cancel"})}
	switch x := rng.Intn(10); {
	case x < 1:
		e.Where = "start"
	case x < 7:
		e.Where, e.N = "inflight", 1+rng.Intn(4)
	default:
		e.Where, e.N = "backoff", 1+rng.Intn(3)
	}
	return e
}

// steps after which the sender backs off before it re-sends
var c10PaidKinds = []string{c10NLNoHint, c10MaxTS, c10RPC, c10DiskFull, c10Busy, c10ReadIdx, c10Merging, c10NotInit}

func c10Replay() *c10Case {
	p := vrep.ReplayPath()
	if p == "" {
		return nil
	}
	b, err := os.ReadFile(p)
	if err != nil {
		panic(err)
	}
	var f struct {
		Detail struct {
			Case *c10Case `json:"case"`
		} `json:"detail"`
	}
	if err := json.Unmarshal(b, &f); err != nil {
		panic(err)
	}
	return f.Detail.Case
}

// TestVerifC10Scripts: exhaustive scripts up to length 3 over the alphabet of
// the statement x all read modes (other dimensions drawn per case), seeded
// random scripts up to length 12 over the wider alphabet, and "for ever"
// scripts (the last fault repeats) under budgets from 1ms to 40s.
func TestVerifC10Scripts(t *testing.T) {
	r := vrep.New("C10", "c10-scripts", c10Rule)
	defer r.Finish(t)
	st := &c10Stats{}
	defer st.close()
	if rc := c10Replay(); rc != nil {
		c10Run(r, st, rc)
		return
	}
	rng := vrep.Rand("c10-scripts")

	// exhaustive part
	var scripts [][]c10Step
	var rec func(cur []c10Step, depth int)
	rec = func(cur []c10Step, depth int) {
		if len(cur) > 0 {
			scripts = append(scripts, append([]c10Step(nil), cur...))
		}
		if depth == 0 {
			return
		}
		for _, k := range c10StatementKinds {
			rec(append(cur, c10DefaultStep(k)), depth-1)
		}
	}
	rec(nil, 3)
	r.Count("exhaustive_scripts", len(scripts))
	for _, sc := range scripts {
		draws := 1
		if len(sc) <= 2 {
			draws = vrep.Pick(4, 12)
		} else {
			draws = vrep.Pick(1, 4)
		}
		for _, mode := range c10Modes {
			for d := 0; d < draws; d++ {
				c := &c10Case{Mode: mode, Script: sc}
				c10RandCfg(rng, c)
				c10Run(r, st, c)
			}
		}
	}
	r.Flush()

	// random part
	all := append(append([]string{}, c10StatementKinds...), c10ExtraKinds...)
	nr := vrep.Pick(6000, 150000)
	for i := 0; i < nr; i++ {
		l := 4 + rng.Intn(9)
		c := &c10Case{Mode: c10Pick(rng, c10Modes)}
		for j := 0; j < l; j++ {
			if rng.Intn(60) == 0 {
				c.Script = append(c.Script, c10Step{K: c10Cancel})
				continue
			}
			// bias towards the statement alphabet
			if rng.Intn(4) > 0 {
				c.Script = append(c.Script, c10RandStep(rng, c10StatementKinds))
			} else {
				c.Script = append(c.Script, c10RandStep(rng, all))
			}
		}
		c10RandCfg(rng, c)
		if rng.Intn(12) == 0 {
			c.CtxEnd = c10RandCtxEnd(rng)
			c.LiveCtx = rng.Intn(2) == 0
		}
		c10Run(r, st, c)
	}
	r.Count("random_scripts", nr)
	r.Flush()

	// the caller's context ends: before the send, while attempt N is in flight (the client then answers with every
	// kind of the alphabet, a success, or the context's own error), and during the N-th back-off
	inflight := append(c10AllSteps(), c10Step{K: c10Success}, c10Step{K: c10CtxErr})
	nce := 0
	for _, how := range []string{"cancel", "deadline"} {
		for _, anc := range []string{"", "value", "cancel"} {
			for rep := 0; rep < vrep.Pick(2, 8); rep++ {
				c := &c10Case{Mode: c10Pick(rng, c10Modes), CtxEnd: &c10CtxEnd{How: how, Where: "start", Ancestor: anc}}
				c10RandCfg(rng, c)
				c10Run(r, st, c)
				nce++
			}
			for _, ans := range inflight {
				for rep := 0; rep < vrep.Pick(2, 6); rep++ {
					n := 1 + rng.Intn(3)
					c := &c10Case{Mode: c10Pick(rng, c10Modes), CtxEnd: &c10CtxEnd{How: how, Where: "inflight", N: n, Ancestor: anc}, LiveCtx: rep%2 == 0}
					for j := 1; j < n; j++ {
						c.Script = append(c.Script, c10RandStep(rng, all))
					}
					c.Script = append(c.Script, ans)
					c.Forever = rep%2 == 1 && ans.K != c10Success
					c10RandCfg(rng, c)
					c10Run(r, st, c)
					nce++
				}
			}
			for _, k := range c10PaidKinds {
				for n := 1; n <= 2; n++ {
					c := &c10Case{Mode: c10Pick(rng, c10Modes), CtxEnd: &c10CtxEnd{How: how, Where: "backoff", N: n, Ancestor: anc}, Forever: true, MaxSleep: 40000, LiveCtx: n == 1}
					for j := rng.Intn(2); j > 0; j-- {
						c.Script = append(c.Script, c10RandStep(rng, all))
					}
					c.Script = append(c.Script, c10Step{K: k})
					c10RandCfg(rng, c)
					c10Run(r, st, c)
					nce++
				}
			}
		}
	}
	r.Count("ctxend_scripts", nce)
	r.Count("ctxend_max_attempts_issued_after_end", st.maxAfterEnd)
	r.Flush()

	// for-ever part: budget exhaustion and unbounded retry
	last := c10AllSteps()
	nf := 0
	for _, ls := range last {
		for _, mode := range c10Modes {
			for _, budget := range []int{1, 100, 2000, 40000} {
				for rep := 0; rep < vrep.Pick(2, 6); rep++ {
					c := &c10Case{Mode: mode, Forever: true, MaxSleep: budget}
					if rep == 0 {
						c.Cmd = "Get"
					} else if rep == 1 {
						c.Cmd = "Prewrite"
					}
					for j := rng.Intn(3); j > 0; j-- {
						c.Script = append(c.Script, c10RandStep(rng, all))
					}
					c.Script = append(c.Script, ls)
					c10RandCfg(rng, c)
					c10Run(r, st, c)
					nf++
				}
			}
		}
	}
	r.Count("forever_scripts", nf)
	r.Count("max_attempts_of_one_send", st.maxAttempts)

	r.Floor("sends", 1000)
	r.Floor("sends_with_retry", 500)
	r.Floor("write_attempts", 500)
	r.Floor("genuine_after_retry", 100)
	r.Floor("region_error_returns", 100)
	r.Floor("errors_budget_spent", 20)
	r.Floor("attempts_forwarded", 20)
	r.Floor("attempts_replica_read", 100)
	r.Floor("attempts_stale_read", 100)
	r.Floor("stale_fallbacks", 20)
	r.Floor("async_sends", 100)
	r.Floor("paid_retries", 100)
	r.Floor("ctxend_sends", 300)
	r.Floor("ctxend_cancel_inflight", 50)
	r.Floor("ctxend_deadline_inflight", 50)
	r.Floor("ctxend_cancel_backoff", 10)
	r.Floor("ctxend_deadline_backoff", 10)
	r.Floor("ctxend_on_ancestor", 100)
}

// TestVerifC10ReadTS: every read command with a timestamp, in every read mode
// and on both send paths, with a validator that rejects the timestamp: zero
// requests may reach the client; with an accepting validator the same request
// is sent.
func TestVerifC10ReadTS(t *testing.T) {
	r := vrep.New("C10", "c10-readts", c10Rule+" ;; this unit: clause (4) for Get/BatchGet/Scan/Cop/CopStream/BatchCop/ScanLock/BufferBatchGet x modes x sync/async x rejecting|accepting validator")
	defer r.Finish(t)
	if vrep.ReplayPath() != "" {
		return
	}
	st := &c10Stats{}
	defer st.close()
	rng := vrep.Rand("c10-readts")
	cmds := []string{"Get", "BatchGet", "Scan", "Cop", "CopStream", "BatchCop", "ScanLock", "BufferBatchGet"}
	for _, cmd := range cmds {
		for _, mode := range c10Modes {
			for _, as := range []bool{false, true} {
				for _, reject := range []bool{true, false} {
					if !reject && (cmd == "CopStream" || cmd == "BatchCop") {
						continue // the scripted client has no streaming responses
					}
					for rep := 0; rep < vrep.Pick(3, 20); rep++ {
						c := &c10Case{Mode: mode, Cmd: cmd}
						for j := rng.Intn(3); j > 0; j-- {
							c.Script = append(c.Script, c10RandStep(rng, c10StatementKinds))
						}
						c10RandCfg(rng, c)
						c.Async = as
						c.ReadTS = 1000 + uint64(rng.Intn(1000))
						c.RejectTS = reject
						before := r.Get("attempts")
						c10Run(r, st, c)
						if reject {
							r.Count("rejected_reads", 1)
							if r.Get("attempts") == before {
								r.Count("rejected_reads_not_sent", 1)
							}
						} else {
							r.Count("accepted_reads", 1)
							if r.Get("attempts") > before {
								r.Count("accepted_reads_sent", 1)
							}
						}
					}
				}
			}
		}
	}
	r.Floor("rejected_reads", 200)
	r.Floor("accepted_reads_sent", 100)
}

// TestVerifC10Sessions: sequences of 2..4 sends on one RegionCache, mostly with forwarding enabled, so that what an
// earlier send left in the cached region (the proxy store remembered by a successful forwarding, a switched leader,
// store liveness, bumped store epochs, slow marks) is what the next send starts from; store liveness is scripted
// per send (leader unreachable / reachable again / proxies unreachable as well, or left as the earlier sends and
// the RPC errors made it).  Same oracle clauses for every send.
func TestVerifC10Sessions(t *testing.T) {
	r := vrep.New("C10", "c10-sessions", c10Rule+" ;; this unit: sequences of sends on one cached region with forwarding and scripted liveness; distinct additionally keyed by the scripts of the earlier sends, whether a proxy was remembered, and the liveness set")
	defer r.Finish(t)
	if vrep.ReplayPath() != "" {
		return // TestVerifC10Scripts replays every kind of case
	}
	st := &c10Stats{}
	defer st.close()
	rng := vrep.Rand("c10-sessions")
	all := append(append([]string{}, c10StatementKinds...), c10ExtraKinds...)
	writeOrRead := func(i int) string {
		if i%2 == 0 {
			return c10Pick(rng, c10WriteCmds)
		}
		return c10Pick(rng, c10ReadCmds)
	}
	budgets := []int{40000, 2000, 100, 1}

	// systematic part: send 1 succeeds through a proxy (leader unreachable from the start, or found unreachable by a
	// failed direct RPC), then every fault kind for ever / once-then-for-ever on the same cached region.
	n := 0
	for _, stores := range []int{3, 4, 5} {
		for first := 0; first < 2; first++ {
			for li, ls := range c10AllSteps() {
				for ci := 0; ci < 2; ci++ {
					n++
					voters := stores
					if stores == 4 {
						voters = 3
					}
					leader := rng.Intn(voters)
					s1 := &c10Case{Stores: stores, Mode: "leader", Cmd: writeOrRead(ci), Forwarding: true, Leader: leader, RandSeed: rng.Int63(), ReadTS: 100}
					if first == 0 {
						s1.Unreach = []int{leader}
					} else {
						s1.Script = []c10Step{{K: c10RPC}}
						s1.DownOnRPC = true
					}
					seq := []*c10Case{s1}
					if n%3 == 0 {
						// a finite send in between
						seq = append(seq, &c10Case{Mode: "leader", Cmd: writeOrRead(ci), KeepLive: true, Script: []c10Step{ls}, RandSeed: rng.Int63(), ReadTS: 100, Async: n%2 == 0})
					}
					last := &c10Case{Mode: "leader", Cmd: writeOrRead(ci), KeepLive: true, Forever: true, Script: []c10Step{ls},
						MaxSleep: budgets[(n+li)%len(budgets)], RandSeed: rng.Int63(), ReadTS: 100, Async: n%4 == 1, DownOnRPC: n%5 == 0}
					if n%7 == 0 {
						last.Mode = c10Pick(rng, c10Modes)
					}
					if n%4 == 3 {
						last.TimeoutMs = 1000
					}
					seq = append(seq, last)
					c10RunSession(r, st, seq)
				}
			}
		}
	}
	r.Count("systematic_sessions", n)
	r.Flush()

	// the caller's context ends during a send (direct or forwarded attempt in flight, or a back-off), then further
	// sends with a live context run on what that send left in the cache, liveness left alone (KeepLive)
	nc := 0
	for _, how := range []string{"cancel", "deadline"} {
		for _, where := range []string{"inflight", "backoff", "start"} {
			for _, fwd := range []bool{true, false} {
				for _, ans := range []c10Step{{K: c10CtxErr}, {K: c10RPC}, {K: c10Success}, {K: c10StaleCmd}, {K: c10NLNoHint}, {K: c10Busy}, {K: c10Deadline}} {
					for rep := 0; rep < vrep.Pick(2, 8); rep++ {
						nc++
						stores := c10Pick(rng, []int{3, 3, 4, 5})
						voters := stores
						if stores == 4 {
							voters = 3
						}
						leader := rng.Intn(voters)
						e := &c10CtxEnd{How: how, Where: where, N: 1 + rng.Intn(2), Ancestor: c10Pick(rng, []string{"", "value", "cancel"})}
						s1 := &c10Case{Stores: stores, Mode: "leader", Cmd: writeOrRead(rep), Forwarding: fwd, Leader: leader, RandSeed: rng.Int63(), ReadTS: 100,
							CtxEnd: e, LiveCtx: nc%2 == 0, DownOnRPC: nc%3 == 0, Async: nc%4 == 0, TimeoutMs: c10Pick(rng, []int{30000, 1000})}
						if fwd && nc%2 == 1 {
							s1.Unreach = []int{leader}
						}
						if nc%5 == 0 {
							s1.Mode = c10Pick(rng, c10Modes)
						}
						if where == "backoff" {
							s1.Script = []c10Step{{K: c10Pick(rng, c10PaidKinds)}}
							s1.Forever = true
						} else {
							for j := 1; j < e.N; j++ {
								s1.Script = append(s1.Script, c10RandStep(rng, all))
							}
							s1.Script = append(s1.Script, ans)
							s1.Forever = ans.K != c10Success && rep%2 == 0
						}
						seq := []*c10Case{s1}
						// then: a send that the stores answer at once, and one with random faults
						seq = append(seq, &c10Case{Mode: s1.Mode, Cmd: writeOrRead(rep), KeepLive: true, RandSeed: rng.Int63(), ReadTS: 100, Async: nc%3 == 1})
						s3 := &c10Case{Mode: s1.Mode, KeepLive: true}
						for l := rng.Intn(4); l > 0; l-- {
							s3.Script = append(s3.Script, c10RandStep(rng, all))
						}
						s3.Forever = len(s3.Script) > 0 && rng.Intn(3) == 0
						c10RandCfg(rng, s3)
						s3.Unreach = nil
						seq = append(seq, s3)
						c10RunSession(r, st, seq)
					}
				}
			}
		}
	}
	r.Count("ctxend_sessions", nc)
	r.Flush()

	// random part
	ns := vrep.Pick(2500, 40000)
	for i := 0; i < ns; i++ {
		k := 2 + rng.Intn(3)
		var seq []*c10Case
		for j := 0; j < k; j++ {
			c := &c10Case{Mode: "leader"}
			if rng.Intn(10) >= 6 {
				c.Mode = c10Pick(rng, c10Modes)
			}
			switch x := rng.Intn(8); {
			case x < 2: // success at once
			case x < 6:
				for l := 1 + rng.Intn(5); l > 0; l-- {
					c.Script = append(c.Script, c10RandStep(rng, all))
				}
			default:
				for l := rng.Intn(3); l > 0; l-- {
					c.Script = append(c.Script, c10RandStep(rng, all))
				}
				c.Script = append(c.Script, c10RandStep(rng, all))
				c.Forever = true
			}
			c10RandCfg(rng, c)
			if j == 0 {
				c.Forwarding = rng.Intn(4) > 0
				c.LiveCtx = rng.Intn(2) == 0
			}
			c.KeepLive = j > 0 && rng.Intn(2) == 0
			if j < k-1 && rng.Intn(4) == 0 {
				// the caller gives up during this send; the next send on the same cached region has a live context
				c.CtxEnd = c10RandCtxEnd(rng)
				if rng.Intn(2) == 0 {
					c.Script = append(c.Script, c10Step{K: c10CtxErr})
				}
			}
			seq = append(seq, c)
		}
		// liveness per send, relative to the session's leader
		stores, leader := seq[0].Stores, seq[0].Leader
		for _, c := range seq {
			other := (leader + 1 + rng.Intn(stores-1)) % stores
			switch x := rng.Intn(10); {
			case x < 3:
				c.Unreach = nil
			case x < 7:
				c.Unreach = []int{leader}
			case x < 8:
				c.Unreach = []int{leader, other}
			case x < 9:
				c.Unreach = []int{other}
			default:
				c.Unreach = nil
				for s := 0; s < stores; s++ {
					if s != leader {
						c.Unreach = append(c.Unreach, s)
					}
				}
			}
		}
		c10RunSession(r, st, seq)
	}
	r.Count("random_sessions", ns)
	r.Count("max_attempts_of_one_send", st.maxAttempts)

	r.Floor("sessions", 500)
	r.Floor("sends_on_reused_cache", 1000)
	r.Floor("sends_starting_with_remembered_proxy", 300)
	r.Floor("sends_forwarding_with_remembered_proxy", 200)
	r.Floor("attempts_forwarded", 1000)
	r.Floor("sends_with_retry", 500)
	r.Floor("errors_budget_spent", 10)
	r.Floor("region_error_returns", 300)
	r.Floor("ctxend_sends", 300)
	r.Floor("sends_following_a_ctxend_send", 300)
}
