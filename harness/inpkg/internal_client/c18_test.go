//go:build verif

package client

// C18 — batched RPC multiplexing returns each caller its own response, exactly
// once.
//
// Runtime monitor.  The real RPCClient (behind NewReqCollapse) talks over real
// gRPC loopback connections to the scripted echo server of
// c18_server_test.go.  1..256 concurrent callers issue requests of mixed
// types, priorities, forwarding hosts, time-outs and cancellation points
// through SendRequest and SendRequestAsync while the server reorders / splits /
// holds / drops responses, ends streams, restarts, and the pool is closed
// (CloseAddr / Close) concurrently.  Every request carries a unique key that
// the server echoes, so the recorded history is checked in linear time:
//
//  (1) exactly once: a sync call returns (once, by construction); an async
//      callback is invoked exactly once — never twice, and never zero times
//      once the client is closed and everything is quiescent;
//  (2) identity: a non-error result has the type of the request and carries
//      the caller's own key, and the server did answer that key;
//  (3) result shape: exactly one of (response, error) is set; errors are only
//      classified (time-out / cancelled / closed / connection) for the evidence;
//  (4) bounded blocking.  Logical clause: an async call that the server
//      received on stream S must have been completed by the time the client
//      has created S's successor (same ClientConn, same forwarded host) —
//      the client fails a stream's pending requests before re-creating it, and
//      the callback queue is FIFO, so a marker appended to the run loop when
//      the server sees the successor must run after the call's callback.
//      Watchdog clause (wall clock, never deciding on its own): a call that
//      outlives its time-out by the slack, or is still pending when the
//      scenario has settled, makes the scenario *suspect*; the same descriptor
//      is re-run with a ten-fold watchdog and only a reproduced hang is a
//      violation, otherwise the case is inconclusive.

import (
	"context"
	"encoding/json"
	"fmt"
	"math/rand"
	"runtime/debug"
	"sort"
	"strings"
	"sync"
	"sync/atomic"
	"testing"
	"time"

	"github.com/pingcap/failpoint"
	"github.com/pingcap/kvproto/pkg/coprocessor"
	"github.com/pingcap/kvproto/pkg/kvrpcpb"
	"github.com/pkg/errors"
	"github.com/tikv/client-go/v2/config"
	"github.com/tikv/client-go/v2/tikvrpc"
	"github.com/tikv/client-go/v2/util"
	"github.com/tikv/client-go/v2/util/async"
	"github.com/tikv/client-go/v2/verifh/vrep"
	"google.golang.org/grpc"
	"google.golang.org/grpc/codes"
	"google.golang.org/grpc/metadata"
	"google.golang.org/grpc/status"
)

const (
	c18CancelNone = iota
	c18CancelPre
	c18CancelDelay
	c18CancelOnRecv
)

var c18CancelName = [...]string{"none", "pre", "delay", "onrecv"}

type c18Call struct {
	id          string
	caller, seq int
	async       bool
	kind        int
	pri         uint64
	fwd         string
	timeout     time.Duration // sync: SendRequest time-out; async: context deadline (0 = none)
	cancelMode  int
	cancelDelay time.Duration
	srvMode     int
	slowDelay   time.Duration
	probe       bool

	cancelFn context.CancelFunc
	canceled atomic.Bool

	returns atomic.Int32
	done    chan struct{}
	flagged atomic.Bool

	mu    sync.Mutex
	resp  *tikvrpc.Response
	err   error
	start time.Time
	end   time.Time

	srvRecv     atomic.Int32
	srvAnswered atomic.Int32
	srvStream   atomic.Int64
	ansStream   atomic.Int64 // stream and position (response message number) of the server's answer
	ansSeq      atomic.Int64

	duringFront bool // issued while no gRPC server was on the address

	rl        *c18RLSpec   // ResolveLock calls only
	invokeSeq int64        // logical time (run.seq) just before the call was handed to the client
	returnSeq atomic.Int64 // logical time when it returned / its callback ran
}

// doCancel may run before issue (in the call's own goroutine) has created the context: the cancellation is then
// remembered and carried out by issue itself.
func (c *c18Call) doCancel() {
	c.mu.Lock()
	c.canceled.Store(true)
	fn := c.cancelFn
	c.mu.Unlock()
	if fn != nil {
		fn()
	}
}

func (c *c18Call) describe() map[string]any {
	c.mu.Lock()
	defer c.mu.Unlock()
	m := map[string]any{
		"id": c.id, "api": map[bool]string{false: "sync", true: "async"}[c.async], "kind": c18KindName[c.kind], "pri": c.pri,
		"fwd": c.fwd, "timeout_ms": c.timeout.Milliseconds(), "cancel": c18CancelName[c.cancelMode],
		"srv_mode": [...]string{"echo", "drop", "slow", "gate", "kill"}[c.srvMode], "returns": c.returns.Load(),
		"srv_received": c.srvRecv.Load(), "srv_answered": c.srvAnswered.Load(), "srv_stream": c.srvStream.Load(),
	}
	if c.err != nil {
		m["err"] = c.err.Error()
	}
	if c.rl != nil {
		m["resolve_lock"], m["invoke_seq"], m["return_seq"] = c.rl, c.invokeSeq, c.returnSeq.Load()
	}
	if !c.end.IsZero() {
		m["elapsed_ms"] = c.end.Sub(c.start).Milliseconds()
	}
	return m
}

// c18Scn is a scenario descriptor; everything in it is derived from VERIF_SEED.
type c18Scn struct {
	Idx           int           `json:"idx"`
	Shape         string        `json:"shape"`
	Seed          int64         `json:"seed"`
	MaxBatch      uint          `json:"max_batch"`
	Conns         uint          `json:"conns"`
	WaitTime      time.Duration `json:"wait_time"`
	WaitSize      uint          `json:"wait_size"`
	Overload      uint          `json:"overload"`
	Policy        string        `json:"policy"`
	Limit         int64         `json:"limit"`
	Callers       int           `json:"callers"`
	PerCaller     int           `json:"per_caller"`
	Fwd           bool          `json:"fwd"`
	AsyncPct      int           `json:"async_pct"`
	NoDeadlinePct int           `json:"no_deadline_pct"`
	ShortPct      int           `json:"short_pct"`
	CancelPct     int           `json:"cancel_pct"`
	HighPriPct    int           `json:"high_pri_pct"`
	UnaryPct      int           `json:"unary_pct"`
	LongTimeout   time.Duration `json:"long_timeout"`
	CloseAddrAt   []int64       `json:"close_addr_at"`
	CloseAt       int64         `json:"close_at"`
	KillProb      float64       `json:"kill_prob"`
	KillMin       int           `json:"kill_min"`
	KillMax       int           `json:"kill_max"`
	RestartAt     []int64       `json:"restart_at"`
	DownMs        int           `json:"down_ms"`
	HoldPct       int           `json:"hold_pct"`
	ShufflePct    int           `json:"shuffle_pct"`
	LoadPct       int           `json:"load_pct"`
	FeedbackPct   int           `json:"feedback_pct"`
	NoDrop        bool          `json:"no_drop"`
	StalePct      int           `json:"stale_pct"`
	// connection-level hostility
	DialMs      int    `json:"dial_ms"`       // the client's dial time-out (0: the default 5 s)
	Front       string `json:"front"`         // "", refuse, blackhole, closeaccept: what is on the address at first
	FrontMs     int    `json:"front_ms"`      // for how long (0 with Front != "": the store never comes up)
	DownMode    string `json:"down_mode"`     // what is on the address during a restart
	CloseOnDown bool   `json:"close_on_down"` // pool closed when the server goes down: connection re-created meanwhile
	MidPct      int    `json:"mid_pct"`       // calls with a time-out of 0.1x..2x the dial time-out
	CancelMaxUs int    `json:"cancel_max_us"` // upper bound of the delay of delayed cancellations
	GateAll     bool   `json:"gate_all"`      // the server holds every answer while the gate is closed; the scenario toggles it
}

var c18Shapes = []string{"clean", "timeouts-cancels", "streamkill", "restart", "restart-fwd", "streamkill-fwd",
	"closeaddr", "closeaddr-async", "close-midway", "limit", "unary", "tiny-batch", "overload-wait", "mixed", "many-callers", "stale-ids",
	"conn-blackhole", "conn-closeaccept", "conn-latestart", "conn-neverup", "conn-restart-recreate", "limit-queue"}

func c18GenScn(rng *rand.Rand, idx int, shape string) *c18Scn {
	pick := func(v ...int) int { return v[rng.Intn(len(v))] }
	s := &c18Scn{Idx: idx, Shape: shape, Seed: rng.Int63(),
		MaxBatch: uint(pick(128, 128, 8, 32, 2)), Conns: uint(pick(1, 2, 4)), WaitSize: 8, Overload: 200,
		Policy:  []string{config.BatchPolicyBasic, config.BatchPolicyStandard, config.BatchPolicyPositive}[rng.Intn(3)],
		Limit:   config.DefMaxConcurrencyRequestLimit,
		Callers: pick(1, 2, 4, 16, 48, 128), AsyncPct: 30, NoDeadlinePct: 60, ShortPct: 6, CancelPct: 6, HighPriPct: 20, UnaryPct: 3,
		LongTimeout: 2 * time.Second, HoldPct: 30, ShufflePct: 30, FeedbackPct: 10, StalePct: 6, CancelMaxUs: 3000,
	}
	total := vrep.Pick(500, 1500) + rng.Intn(vrep.Pick(400, 1500))
	switch shape {
	case "clean":
		s.ShortPct, s.CancelPct = 0, 0
	case "timeouts-cancels":
		s.ShortPct, s.CancelPct = 25, 25
	case "streamkill":
		s.KillProb, s.KillMin, s.KillMax = 0.8, 3, 60
		s.HoldPct = 50
	case "streamkill-fwd":
		s.KillProb, s.KillMin, s.KillMax = 0.7, 3, 40
		s.Fwd, s.HoldPct = true, 50
	case "restart":
		s.RestartAt = []int64{int64(total / 4)}
		if rng.Intn(2) == 0 {
			s.RestartAt = append(s.RestartAt, int64(total/2))
		}
		s.DownMs, s.HoldPct = 5+rng.Intn(60), 60
	case "restart-fwd":
		s.RestartAt = []int64{int64(total / 4)}
		s.DownMs, s.HoldPct, s.Fwd = 5+rng.Intn(40), 70, true
		s.Conns = uint(pick(1, 1, 2))
		s.AsyncPct = 40
	case "closeaddr":
		s.CloseAddrAt = []int64{int64(total / 4), int64(total / 2), int64(3 * total / 4)}
		s.AsyncPct = 50
	case "closeaddr-async":
		// mostly deadline-less async requests racing with repeated pool closes: whatever is queued in a pool that
		// gets closed has to be completed all the same
		s.AsyncPct, s.NoDeadlinePct, s.ShortPct, s.CancelPct = 90, 80, 2, 2
		s.DialMs = 1500 // a closed connection is noticed only after the dial time-out: keep that wait short here ("closeaddr" keeps the default)
		s.Callers = pick(16, 48, 128)
		for k := 1; k <= 7; k++ {
			s.CloseAddrAt = append(s.CloseAddrAt, int64(k*total/8))
		}
	case "close-midway":
		s.CloseAt = int64(total/3 + rng.Intn(total/3))
		s.AsyncPct = 50
	case "limit":
		// With a request limit the send loop documents that queued requests wait for their time-out, and a request
		// whose response never comes occupies its slot for ever: no deadline-less calls and no dropped responses here,
		// otherwise the scenario degenerates into "everything times out".
		s.NoDeadlinePct, s.NoDrop = 0, true
		// Queued requests are not served in arrival order and only move when a new request arrives, so callers far
		// beyond limit*conns mostly sit out their time-outs: keep the scenario small.
		s.Limit = int64(pick(2, 4, 8))
		s.LongTimeout = 500 * time.Millisecond
		s.Callers = pick(2, 4, 8)
		total = 250 + rng.Intn(100)
		s.HoldPct = 50
	case "unary":
		s.MaxBatch, s.AsyncPct = 0, 0
		s.Fwd = rng.Intn(2) == 0
	case "tiny-batch":
		s.MaxBatch, s.Conns = 1, 1
		s.Callers = pick(4, 16, 48)
	case "overload-wait":
		s.WaitTime = time.Duration(pick(200, 1000, 3000)) * time.Microsecond
		s.WaitSize = uint(pick(2, 8, 16))
		s.Overload = uint(pick(0, 200))
		s.LoadPct = 60
	case "mixed":
		s.KillProb, s.KillMin, s.KillMax = 0.4, 5, 80
		s.RestartAt = []int64{int64(total / 3)}
		s.DownMs = 5 + rng.Intn(40)
		s.Fwd = true
		s.CloseAddrAt = []int64{int64(2 * total / 3)}
		s.ShortPct, s.CancelPct = 10, 10
		s.DialMs = 1500
	case "directed-stale-epoch-fwd", "directed-stale-epoch-direct":
		s.MaxBatch, s.Conns, s.Fwd, s.HoldPct, s.ShufflePct, s.Callers = 128, 1, true, 0, 0, 1
	case "directed-limit-heap":
		s.MaxBatch, s.Conns, s.Fwd, s.HoldPct, s.ShufflePct, s.Callers = 128, 1, false, 0, 0, 1
		s.Limit, s.DialMs, s.LongTimeout, s.StalePct = 2, 300, time.Second, 0
	case "limit-queue":
		// the request limit is exhausted by requests the store keeps open (gate closed), many more callers with mixed
		// priorities wait in the client's priority queue, a random part of them is cancelled / times out in bursts
		// while waiting, then the gate opens; the common tail keeps requests arriving until the queue has drained
		// (queued requests only move when a request arrives)
		s.Limit = int64(pick(2, 3, 4, 8))
		s.GateAll, s.NoDrop = true, true
		s.MaxBatch, s.Conns = 128, uint(pick(1, 2))
		s.Callers = pick(32, 64, 96)
		total = 300 + rng.Intn(150)
		s.AsyncPct, s.NoDeadlinePct = 50, 60
		s.ShortPct, s.CancelPct, s.CancelMaxUs = 15, 30, 60000
		s.HighPriPct = 8
		s.LongTimeout, s.DialMs = 600*time.Millisecond, 300
	case "directed-close-queue", "directed-close-queue-2":
		s.MaxBatch, s.Conns, s.Fwd, s.HoldPct, s.ShufflePct, s.Callers = 128, uint(pick(1, 2)), false, 0, 0, 1
		s.DialMs = 500
	case "conn-blackhole", "conn-closeaccept", "conn-latestart", "conn-neverup", "conn-restart-recreate":
		// the first requests of a (re-)created connection meet a store that is down, black-holed or restarting, with
		// time-outs on both sides of the dial time-out and cancellations during that phase
		s.DialMs = pick(200, 300, 400)
		s.LongTimeout = time.Second
		s.MaxBatch, s.Conns = uint(pick(128, 128, 32)), uint(pick(1, 2))
		s.Callers = pick(32, 64, 128)
		total = 300 + rng.Intn(200)
		s.MidPct, s.ShortPct, s.CancelPct, s.CancelMaxUs = 45, 10, 15, 150000
		s.Fwd = rng.Intn(3) == 0
		switch shape {
		case "conn-blackhole":
			s.Front, s.FrontMs = "blackhole", 250+rng.Intn(350)
		case "conn-closeaccept":
			s.Front, s.FrontMs = "closeaccept", 200+rng.Intn(300)
		case "conn-latestart":
			s.Front, s.FrontMs = "refuse", 100+rng.Intn(300)
		case "conn-neverup":
			s.Front = []string{"blackhole", "closeaccept", "refuse"}[rng.Intn(3)]
			s.NoDeadlinePct = 20
			total = 120 + rng.Intn(80)
		case "conn-restart-recreate":
			s.RestartAt = []int64{int64(total / 5), int64(total / 2)}
			s.DownMs, s.DownMode, s.CloseOnDown = 150+rng.Intn(300), []string{"blackhole", "closeaccept", "refuse"}[rng.Intn(3)], true
		}
	case "stale-ids":
		// many held responses (the flusher sends them in multi-response messages) and a hostile share of messages
		// carrying an id the client no longer tracks
		s.StalePct, s.HoldPct, s.ShufflePct = 40, 70, 25
		s.MaxBatch = uint(pick(128, 32, 8))
		s.Callers = pick(16, 48, 128)
		s.Fwd = rng.Intn(2) == 0
		if rng.Intn(2) == 0 {
			s.KillProb, s.KillMin, s.KillMax = 0.4, 10, 120
		}
	case "many-callers":
		s.Callers = 256
		s.KillProb, s.KillMin, s.KillMax = 0.3, 20, 200
		s.Fwd = rng.Intn(2) == 0
	}
	if s.Callers == 0 {
		s.Callers = 1
	}
	s.PerCaller = total / s.Callers
	if s.PerCaller < 2 {
		s.PerCaller = 2
	}
	return s
}

type c18Run struct {
	r      *vrep.Report
	scn    *c18Scn
	factor int

	calls sync.Map // key -> *c18Call
	mu    sync.Mutex
	all   []*c18Call
	susp  []string
	local map[string]int

	rl     *async.RunLoop
	rpc    *RPCClient
	cl     Client
	srv    *c18Server
	issued atomic.Int64
	closed atomic.Bool
	bg     sync.WaitGroup
	ccIDs  sync.Map // *grpc.ClientConn -> id (keeps the conn alive so that ids are never reused)
	ccNext atomic.Int64

	gateOpen    atomic.Bool  // gated responses are released while true
	frontActive atomic.Int32 // > 0 while there is no gRPC server on the address (hostile front / down)
	dialTO      time.Duration

	seq     atomic.Int64 // logical clock shared by callers and server (ResolveLock oracle)
	rlMu    sync.Mutex
	rlExecs map[string][]*c18RLExec // identity -> executions the server performed
}

func (run *c18Run) count(name string, n int) {
	run.r.Count(name, n)
	run.mu.Lock()
	run.local[name] += n
	run.mu.Unlock()
}

func (run *c18Run) get(name string) int {
	run.mu.Lock()
	defer run.mu.Unlock()
	return run.local[name]
}

func (run *c18Run) harnessError(msg string) {
	run.r.Inconc("harness problem in scenario %d (%s): %s", run.scn.Idx, run.scn.Shape, msg)
}

func (run *c18Run) suspect(s string) {
	run.mu.Lock()
	run.susp = append(run.susp, s)
	run.mu.Unlock()
}

func (run *c18Run) lookup(key []byte) *c18Call {
	if v, ok := run.calls.Load(string(key)); ok {
		return v.(*c18Call)
	}
	return nil
}

func (run *c18Run) violate(sig, msg string, calls ...*c18Call) {
	d := map[string]any{"scenario": run.scn}
	var cs []any
	for i, c := range calls {
		if i < 8 {
			cs = append(cs, c.describe())
		}
	}
	d["calls"] = cs
	run.r.Violate(sig, fmt.Sprintf("scenario %d (%s): %s", run.scn.Idx, run.scn.Shape, msg), d)
}

// successorCreated is called by the server when the client has opened a new
// BatchCommands stream on a ClientConn/forwarded-host pair that already had
// one: the client's recv loop re-created the stream.  Clause (4), logical part.
func (run *c18Run) successorCreated(pred, succ *c18Stream) {
	pred.mu.Lock()
	var pending []*c18Call
	for _, c := range pred.received {
		if c.async {
			pending = append(pending, c)
		}
	}
	pred.mu.Unlock()
	run.count("successor_streams", 1)
	which := "direct"
	if pred.fwd != "" {
		which = "forwarded"
	}
	run.rl.Append(func() {
		run.r.Eval(1)
		run.count("fifo_checks", 1)
		var bad []*c18Call
		for _, c := range pending {
			if c.returns.Load() == 0 && !c.flagged.Swap(true) {
				bad = append(bad, c)
			}
		}
		run.count("fifo_checked_calls", len(pending))
		if len(bad) > 0 {
			run.count("fifo_stranded_calls", len(bad))
			run.violate("async:not-completed-when-stream-recreated:"+which,
				fmt.Sprintf("%d async call(s) received by the server on stream #%d (%s) were still not completed after the client had re-created that stream as #%d: their callbacks were not even queued when the successor existed (first: %s)",
					len(bad), pred.id, which, succ.id, bad[0].id), bad...)
		}
	})
}

func (c *c18Call) request() *tikvrpc.Request {
	key := []byte(c.id)
	var req *tikvrpc.Request
	switch c.kind {
	case c18KindGet:
		req = tikvrpc.NewRequest(tikvrpc.CmdGet, &kvrpcpb.GetRequest{Key: key, Version: 1})
	case c18KindRawGet:
		req = tikvrpc.NewRequest(tikvrpc.CmdRawGet, &kvrpcpb.RawGetRequest{Key: key})
	case c18KindCop:
		req = tikvrpc.NewRequest(tikvrpc.CmdCop, &coprocessor.Request{Data: key})
	case c18KindBatchGet:
		req = tikvrpc.NewRequest(tikvrpc.CmdBatchGet, &kvrpcpb.BatchGetRequest{Keys: [][]byte{key}, Version: 1})
	case c18KindResolveLock:
		req = c.rl.request()
	default:
		req = tikvrpc.NewRequest(tikvrpc.CmdMvccGetByKey, &kvrpcpb.MvccGetByKeyRequest{Key: key})
	}
	req.ForwardedHost = c.fwd
	req.ResourceControlContext = &kvrpcpb.ResourceControlContext{OverridePriority: c.pri}
	switch {
	case c.pri >= highTaskPriority:
		req.Priority = kvrpcpb.CommandPri_High
	case c.pri == 0:
		req.Priority = kvrpcpb.CommandPri_Low
	}
	return req
}

// c18RespID extracts the echoed key; typeOK says whether the response type is the one the request kind demands.
func c18RespID(kind int, resp *tikvrpc.Response) (typeOK bool, id []byte, typ string) {
	typ = fmt.Sprintf("%T", resp.Resp)
	switch r := resp.Resp.(type) {
	case *kvrpcpb.GetResponse:
		return kind == c18KindGet, r.GetValue(), typ
	case *kvrpcpb.RawGetResponse:
		return kind == c18KindRawGet, r.GetValue(), typ
	case *coprocessor.Response:
		return kind == c18KindCop, r.Data, typ
	case *kvrpcpb.BatchGetResponse:
		if len(r.GetPairs()) == 1 {
			return kind == c18KindBatchGet, r.GetPairs()[0].GetKey(), typ
		}
		return kind == c18KindBatchGet, nil, typ
	case *kvrpcpb.MvccGetByKeyResponse:
		return kind == c18KindMvcc, []byte(r.GetError()), typ
	}
	return false, nil, typ
}

func (run *c18Run) finish(c *c18Call, resp *tikvrpc.Response, err error) {
	now := time.Now()
	c.returnSeq.CompareAndSwap(0, run.seq.Add(1))
	if n := c.returns.Add(1); n > 1 {
		run.violate("exactly-once:async-callback-invoked-twice", fmt.Sprintf("callback of %s invoked %d times", c.id, n), c)
		return
	}
	c.mu.Lock()
	c.resp, c.err, c.end = resp, err, now
	c.mu.Unlock()
	close(c.done)
}

func (run *c18Run) newCall(rng *rand.Rand, caller, seq int) *c18Call {
	s := run.scn
	c := &c18Call{caller: caller, seq: seq, done: make(chan struct{})}
	c.id = fmt.Sprintf("v%d.%d/c%d/q%d", run.factor, s.Idx, caller, seq)
	c.kind = rng.Intn(c18NPlainKinds)
	if rng.Intn(100) < s.UnaryPct {
		c.kind = c18KindMvcc
	}
	c.async = s.MaxBatch > 0 && c.kind != c18KindMvcc && rng.Intn(100) < s.AsyncPct
	switch p := rng.Intn(100); {
	case p < s.HighPriPct:
		c.pri = uint64(highTaskPriority + rng.Intn(7))
	case p < s.HighPriPct+25:
		c.pri = uint64(1 + rng.Intn(highTaskPriority-1))
	}
	if s.Fwd {
		switch rng.Intn(10) {
		case 0, 1, 2:
			c.fwd = "fwd-a:20160"
		case 3:
			c.fwd = "fwd-b:20160"
		}
	}
	c.timeout = s.LongTimeout
	if s.MidPct > 0 && rng.Intn(100) < s.MidPct {
		c.timeout = time.Duration(s.DialMs*(10+rng.Intn(190))/100) * time.Millisecond // on both sides of the dial time-out
	}
	short := rng.Intn(100) < s.ShortPct
	cancel := !short && rng.Intn(100) < s.CancelPct
	if short {
		c.timeout = time.Duration(8+rng.Intn(30)) * time.Millisecond
		if rng.Intn(2) == 0 {
			c.srvMode = c18SrvDrop
		} else {
			c.srvMode, c.slowDelay = c18SrvSlow, 2*c.timeout+10*time.Millisecond
		}
	} else if cancel {
		switch p := rng.Intn(20); {
		case p < 2:
			c.cancelMode = c18CancelPre
		case p < 11:
			c.cancelMode, c.cancelDelay = c18CancelDelay, time.Duration(rng.Intn(s.CancelMaxUs))*time.Microsecond
			if rng.Intn(3) == 0 {
				c.srvMode = c18SrvDrop // only the cancellation can end this call early
			}
		default:
			c.cancelMode = c18CancelOnRecv
			if rng.Intn(3) == 0 {
				c.srvMode = c18SrvDrop
			}
		}
	} else if c.async && rng.Intn(100) < s.NoDeadlinePct {
		c.timeout = 0 // async call without any deadline: only a response, a failure or Close ends it
	}
	if s.NoDrop && c.srvMode == c18SrvDrop {
		c.srvMode, c.slowDelay = c18SrvSlow, 2*c.timeout+10*time.Millisecond
		if c.cancelMode != c18CancelNone {
			c.slowDelay = 5 * time.Millisecond
		}
	}
	return c
}

func (run *c18Run) issue(c *c18Call) {
	defer func() {
		if p := recover(); p != nil {
			api := map[bool]string{false: "sync", true: "async"}[c.async]
			run.count("caller_panics", 1)
			run.r.Violate("panic:in-caller-goroutine:"+api, fmt.Sprintf("scenario %d (%s): call %s panicked instead of returning a response or an error: %v", run.scn.Idx, run.scn.Shape, c.id, p),
				map[string]any{"scenario": run.scn, "call": c.describe(), "panic": fmt.Sprint(p), "stack": string(debug.Stack())})
			if c.returns.Load() == 0 {
				run.finish(c, nil, errors.Errorf("panic: %v", p))
			}
		}
	}()
	var ctx context.Context
	var cancel context.CancelFunc
	if c.async && c.timeout > 0 {
		ctx, cancel = context.WithTimeout(context.Background(), c.timeout)
	} else {
		ctx, cancel = context.WithCancel(context.Background())
	}
	c.mu.Lock()
	c.cancelFn = cancel
	early := c.canceled.Load()
	c.mu.Unlock()
	if early {
		cancel()
	}
	req := c.request()
	c.start = time.Now()
	run.mu.Lock()
	run.all = append(run.all, c)
	run.mu.Unlock()
	run.calls.Store(c.id, c)

	switch c.cancelMode {
	case c18CancelPre:
		c.doCancel()
	case c18CancelDelay:
		time.AfterFunc(c.cancelDelay, c.doCancel)
	}
	n := run.issued.Add(1)
	for _, th := range run.scn.CloseAddrAt {
		if n == th {
			run.bg.Add(1)
			go func() {
				defer run.bg.Done()
				run.count("closeaddr", 1)
				run.rpc.CloseAddr(run.srv.addr)
			}()
		}
	}
	if run.scn.CloseAt > 0 && n == run.scn.CloseAt {
		run.bg.Add(1)
		go func() {
			defer run.bg.Done()
			run.count("client_close_midway", 1)
			run.closed.Store(true)
			run.cl.Close()
		}()
	}
	c.invokeSeq = run.seq.Add(1)
	c.duringFront = run.frontActive.Load() > 0
	if c.async {
		cb := async.NewCallback(run.rl, func(resp *tikvrpc.Response, err error) { run.finish(c, resp, err) })
		run.cl.SendRequestAsync(ctx, run.srv.addr, req, cb)
		return
	}
	resp, err := run.cl.SendRequest(ctx, run.srv.addr, req, c.timeout)
	run.finish(c, resp, err)
	cancel()
}

func (run *c18Run) ccID(cc *grpc.ClientConn) string {
	if v, ok := run.ccIDs.Load(cc); ok {
		return v.(string)
	}
	v, _ := run.ccIDs.LoadOrStore(cc, fmt.Sprintf("cc%d", run.ccNext.Add(1)))
	return v.(string)
}

// waitAll waits until every listed call has returned or the deadline passes; returns the still pending ones.
func c18WaitAll(cs []*c18Call, d time.Duration) []*c18Call {
	deadline := time.Now().Add(d)
	var pending []*c18Call
	for _, c := range cs {
		if c.flagged.Load() {
			continue
		}
		select {
		case <-c.done:
			continue
		default:
		}
		left := time.Until(deadline)
		if left <= 0 {
			left = time.Microsecond
		}
		t := time.NewTimer(left)
		select {
		case <-c.done:
		case <-t.C:
			if !c.flagged.Load() {
				pending = append(pending, c)
			}
		}
		t.Stop()
	}
	return pending
}

var c18LongConfirmDone atomic.Bool

func c18ErrClass(c *c18Call, err error) string {
	if st, ok := status.FromError(errors.Cause(err)); ok && st.Code() != codes.Unknown {
		switch st.Code() {
		case codes.DeadlineExceeded:
			return "timeout"
		case codes.Canceled:
			if c.canceled.Load() {
				return "cancelled"
			}
			return "closed"
		default:
			return "connfail"
		}
	}
	switch {
	case errors.Is(err, context.DeadlineExceeded) || errors.Cause(err) == context.DeadlineExceeded:
		return "timeout"
	case errors.Is(err, context.Canceled) || errors.Cause(err) == context.Canceled:
		return "cancelled"
	}
	// classification for the evidence only
	if m := err.Error(); strings.Contains(m, "closed") || strings.Contains(m, "closing") || strings.Contains(m, "is idle") {
		return "closed"
	}
	return "connfail"
}

// c18RunScenario executes one scenario and returns the suspect (watchdog) classes.
func c18RunScenario(t *testing.T, r *vrep.Report, scn *c18Scn, factor int) []string {
	run := &c18Run{r: r, scn: scn, factor: factor, local: map[string]int{}, rl: async.NewRunLoop(), rlExecs: map[string][]*c18RLExec{}}
	restore := config.UpdateGlobal(func(conf *config.Config) {
		conf.TiKVClient.MaxBatchSize = scn.MaxBatch
		conf.TiKVClient.GrpcConnectionCount = scn.Conns
		conf.TiKVClient.MaxBatchWaitTime = scn.WaitTime
		conf.TiKVClient.BatchWaitSize = scn.WaitSize
		conf.TiKVClient.OverloadThreshold = scn.Overload
		conf.TiKVClient.BatchPolicy = scn.Policy
		conf.TiKVClient.MaxConcurrencyRequestLimit = scn.Limit
	})
	defer restore()
	rng := rand.New(rand.NewSource(scn.Seed))
	run.srv = c18NewServer(run, c18SrvPlan{killProb: scn.KillProb, killMin: scn.KillMin, killMax: scn.KillMax,
		restartAt: scn.RestartAt, downMs: scn.DownMs, holdPct: scn.HoldPct, shufflePct: scn.ShufflePct,
		loadPct: scn.LoadPct, feedbackPct: scn.FeedbackPct, stalePct: scn.StalePct, gateAll: scn.GateAll,
		frontMode: c18FrontMode(scn.Front), frontFor: time.Duration(scn.FrontMs) * time.Millisecond,
		downMode: c18FrontMode(scn.DownMode), closeOnDown: scn.CloseOnDown}, rand.New(rand.NewSource(rng.Int63())))
	run.dialTO = dialTimeout
	if scn.DialMs > 0 {
		run.dialTO = time.Duration(scn.DialMs) * time.Millisecond
	}
	startSrv := run.srv.start
	if scn.Front != "" {
		startSrv = run.srv.startBehindFront
	}
	if err := startSrv(); err != nil {
		run.harnessError("cannot start server: " + err.Error())
		return nil
	}
	tagStream := func(ctx context.Context, desc *grpc.StreamDesc, cc *grpc.ClientConn, method string, streamer grpc.Streamer, opts ...grpc.CallOption) (grpc.ClientStream, error) {
		return streamer(metadata.AppendToOutgoingContext(ctx, c18CCMetaKey, run.ccID(cc)), desc, cc, method, opts...)
	}
	// the dial time-out is a fixed default in production; the connection-level scenarios shrink it so that they stay short
	run.rpc = NewRPCClient(WithGRPCDialOptions(grpc.WithChainStreamInterceptor(tagStream)), func(o *option) { o.dialTimeout = run.dialTO })
	run.cl = NewReqCollapse(NewInterceptedClient(run.rpc)) // wrapped as tikv.NewKVStore does
	sendPanics0 := atomic.LoadInt64(&BatchSendLoopPanicCounter)

	// the executor of the async callbacks
	rlStop := false
	rlDone := make(chan struct{})
	go func() {
		defer close(rlDone)
		for !rlStop {
			run.rl.Exec(context.Background())
		}
	}()

	// ---- callers (or the script of a directed scenario)
	var wg sync.WaitGroup
	if script := c18Directed[scn.Shape]; script != nil {
		wg.Add(1)
		go func() {
			defer wg.Done()
			script(run)
		}()
		scn.Callers = 0
	}
	callerSeeds := make([]int64, scn.Callers)
	for i := range callerSeeds {
		callerSeeds[i] = rng.Int63()
	}
	for i := 0; i < scn.Callers; i++ {
		wg.Add(1)
		go func(i int) {
			defer wg.Done()
			crng := rand.New(rand.NewSource(callerSeeds[i]))
			for q := 0; q < scn.PerCaller; q++ {
				c := run.newCall(crng, i, q)
				run.issue(c)
				if !c.async {
					c.mu.Lock()
					err := c.err
					c.mu.Unlock()
					if err != nil && c.srvRecv.Load() == 0 && c.cancelMode == c18CancelNone {
						// fast failure (server down / pool closed): pace, so that callers survive an outage
						time.Sleep(time.Duration(500+crng.Intn(2500)) * time.Microsecond)
					}
				} else if crng.Intn(4) == 0 {
					<-c18After(c, 20*time.Millisecond) // sometimes wait for the callback (bounded), mostly pipeline
				}
			}
		}(i)
	}
	run.gateOpen.Store(!scn.GateAll)
	gateStop := make(chan struct{})
	gateDone := make(chan struct{})
	go func() {
		defer close(gateDone)
		if !scn.GateAll {
			return
		}
		grng := rand.New(rand.NewSource(scn.Seed ^ 0x6a7e))
		for {
			run.gateOpen.Store(false)
			select {
			case <-gateStop:
				return
			case <-time.After(time.Duration(15+grng.Intn(45)) * time.Millisecond):
			}
			run.gateOpen.Store(true)
			run.count("gate_openings", 1)
			select {
			case <-gateStop:
				return
			case <-time.After(time.Duration(5+grng.Intn(15)) * time.Millisecond):
			}
		}
	}()
	run.startResolvers(&wg, c18Directed[scn.Shape] != nil || scn.GateAll)
	joined := make(chan struct{})
	go func() { wg.Wait(); close(joined) }()
	// Callers issue their sync calls one after the other and each call is bounded by its own time-out, so there is no
	// bound for the callers as a whole; the watchdog looks at the individual calls instead.
	slackHang := time.Duration(factor) * 4 * time.Second
joinLoop:
	for {
		select {
		case <-joined:
			break joinLoop
		case <-time.After(100 * time.Millisecond):
		}
		now := time.Now()
		run.mu.Lock()
		var stuck *c18Call
		for _, c := range run.all {
			if !c.async && c.returns.Load() == 0 && now.Sub(c.start) > c.timeout+slackHang {
				stuck = c
				break
			}
		}
		run.mu.Unlock()
		if stuck != nil {
			run.suspect("hang:sync-caller")
			if r.SampleN() < 6 {
				r.Sample(map[string]any{"what": "sync call still outstanding long after its time-out (watchdog, not a verdict)", "scenario": scn.Idx, "factor": factor, "call": stuck.describe()})
			}
			break
		}
	}
	run.bg.Wait()
	close(gateStop)
	<-gateDone
	if scn.GateAll {
		run.gateOpen.Store(true)
		run.tickDrain(600)
	}

	// ---- recovery probes: drive every (conn, forwarded host) after the faults; they are ordinary monitored calls
	if neverUp := scn.Front != "" && scn.FrontMs == 0; !run.closed.Load() && !neverUp {
		for i := 0; i < 400 && run.srv.restartsPending(); i++ {
			time.Sleep(5 * time.Millisecond)
		}
		fwds := []string{""}
		if scn.Fwd {
			fwds = append(fwds, "fwd-a:20160", "fwd-b:20160")
		}
		seq, slow := 0, 0
		for _, f := range fwds {
			okN := 0
			for try := 0; try < 160 && slow < 2 && okN < int(scn.Conns)*2; try++ {
				c := &c18Call{caller: -1, seq: seq, done: make(chan struct{}), probe: true, kind: seq % c18NPlainKinds, fwd: f,
					timeout: scn.LongTimeout, id: fmt.Sprintf("v%d.%d/probe/q%d", factor, scn.Idx, seq)}
				seq++
				run.issue(c)
				if c.err == nil {
					okN++
					run.count("probes_ok", 1)
					if len(scn.RestartAt) > 0 {
						run.count("probes_ok_after_restart", 1)
					}
				} else if c.end.Sub(c.start) > scn.LongTimeout/2 {
					slow++ // not a fast failure: the probe sat out (most of) its time-out
				} else {
					time.Sleep(25 * time.Millisecond)
				}
			}
			if okN == 0 {
				run.suspect("probe:no-recovery")
			}
		}
	}

	// ---- settle: everything issued must come back
	run.mu.Lock()
	all := append([]*c18Call(nil), run.all...)
	run.mu.Unlock()
	run.lostResponseCheck(all)
	// (a closed or broken connection is noticed by waitConnReady only after the dial time-out, so that long a
	// deadline-less call may legitimately stay pending)
	pending := c18WaitAll(all, scn.LongTimeout+run.dialTO+time.Duration(factor)*2*time.Second)
	if len(pending) > 0 {
		run.lostResponseCheck(all)
	}
	pendingBeforeClose := pending
	if len(pendingBeforeClose) > 0 && r.SampleN() < 6 {
		r.Sample(map[string]any{"what": "pending when the scenario had settled (watchdog, not a verdict)", "scenario": scn.Idx, "factor": factor, "call": pendingBeforeClose[0].describe()})
	}

	// ---- close the client: afterwards no async callback may be missing
	run.closed.Store(true)
	run.cl.Close()
	var asyncAll []*c18Call
	for _, c := range all {
		if c.async {
			asyncAll = append(asyncAll, c)
		}
	}
	missing := c18WaitAll(asyncAll, run.dialTO+3*time.Second)
	run.srv.shutdown()
	if len(missing) > 0 {
		// quiescent: client closed, server gone, every sync caller returned.  Confirm once per process with a
		// ten-fold wait that nothing can complete these calls any more.
		if c18LongConfirmDone.CompareAndSwap(false, true) {
			still := c18WaitAll(missing, 25*time.Second)
			if len(still) == 0 {
				r.Inconc("scenario %d: %d async callback(s) arrived only during the ten-fold wait after Close", scn.Idx, len(missing))
			}
			missing = still
		} else {
			missing = c18WaitAll(missing, 500*time.Millisecond)
		}
	}
	if len(missing) > 0 {
		for _, c := range missing {
			c.flagged.Store(true)
		}
		stage := "never-reached-server"
		if missing[0].srvRecv.Load() > 0 {
			stage = "reached-server"
		}
		run.count("async_never_invoked", len(missing))
		run.violate("exactly-once:async-callback-never-invoked-after-close:"+stage,
			fmt.Sprintf("%d async call(s) never had their callback invoked although the client was closed and everything is quiescent (first: %s, %s)",
				len(missing), missing[0].id, stage), missing...)
	}

	// calls that were pending when the scenario had settled and only came back through Close (the never-completed
	// ones are decided above) are watchdog suspects
	for _, c := range pendingBeforeClose {
		if c.flagged.Load() {
			continue
		}
		api := "sync"
		if c.async {
			api = "async-deadline"
			if c.timeout == 0 {
				api = "async-nodeadline"
			}
		}
		run.suspect("hang:" + api)
	}

	// stop the run loop from inside (never cancel Exec's context: Append could block for ever)
	run.rl.Append(func() { rlStop = true })
	select {
	case <-rlDone:
	case <-time.After(10 * time.Second):
		run.harnessError("run loop did not stop")
	}
	if d := atomic.LoadInt64(&BatchSendLoopPanicCounter) - sendPanics0; d > 0 {
		run.count("send_loop_panics_recovered", int(d))
	}

	run.evaluate(all)
	sort.Strings(run.susp)
	return run.susp
}

func c18After(c *c18Call, d time.Duration) <-chan struct{} {
	ch := make(chan struct{})
	go func() {
		t := time.NewTimer(d)
		defer t.Stop()
		select {
		case <-c.done:
		case <-t.C:
		}
		close(ch)
	}()
	return ch
}

// evaluate applies clauses (1)-(3) and the wall-clock part of (4) to every call of the history.
func (run *c18Run) evaluate(all []*c18Call) {
	scn := run.scn
	outcomes := map[string]int{}
	slack := time.Duration(run.factor) * 1500 * time.Millisecond
	for _, c := range all {
		run.r.Eval(1)
		run.count("calls", 1)
		if c.async {
			run.count("calls_async", 1)
			if c.timeout == 0 {
				run.count("calls_async_nodeadline", 1)
			}
		} else {
			run.count("calls_sync", 1)
		}
		if c.kind == c18KindMvcc || scn.MaxBatch == 0 {
			run.count("calls_unary_path", 1)
		}
		if c.fwd != "" {
			run.count("calls_forwarded", 1)
		}
		if c.pri >= highTaskPriority {
			run.count("calls_high_priority", 1)
		}
		hostile := ""
		if c.duringFront && !c.probe {
			hostile = "hostile_timeout_gt_dial"
			if c.timeout == 0 {
				hostile = "hostile_no_deadline"
			} else if c.timeout < run.dialTO {
				hostile = "hostile_timeout_lt_dial"
			}
			run.count("hostile_calls", 1)
			run.count(hostile, 1)
			if c.async {
				run.count("hostile_calls_async", 1)
			}
		}
		if c.returns.Load() == 0 {
			outcomes["pending"]++
			run.count("ret_never", 1)
			continue
		}
		c.mu.Lock()
		resp, err, dur := c.resp, c.err, c.end.Sub(c.start)
		c.mu.Unlock()
		api := "sync"
		if c.async {
			api = "async"
		}
		// (3) result shape
		if (resp == nil) == (err == nil) {
			run.violate("result:"+api+":response-and-error-both-or-neither", fmt.Sprintf("call %s returned resp=%v err=%v", c.id, resp != nil, err), c)
			continue
		}
		if err == nil {
			// (2) identity
			typeOK, id, typ := c18RespID(c.kind, resp)
			switch {
			case c.rl != nil:
				run.evalResolveLock(c, resp, api)
			case !typeOK:
				run.violate("identity:"+api+":response-of-another-request-type", fmt.Sprintf("call %s (%s) got a %s carrying %q", c.id, c18KindName[c.kind], typ, id), c)
			case string(id) != c.id:
				run.violate("identity:"+api+":response-of-another-call", fmt.Sprintf("call %s got the response of %q", c.id, id), c)
			case c.srvAnswered.Load() == 0:
				run.violate("identity:"+api+":response-never-sent-by-server", fmt.Sprintf("call %s returned a response the server never sent", c.id), c)
			}
			outcomes["ok"]++
			run.count("ret_ok", 1)
			if hostile != "" {
				run.count("hostile_ret_ok", 1)
			}
			if c.async {
				run.count("ret_ok_async", 1)
			}
			if c.fwd != "" {
				run.count("ret_ok_forwarded", 1)
			}
			if c.pri >= highTaskPriority {
				run.count("ret_ok_high_priority", 1)
			}
			if c.canceled.Load() {
				run.count("ret_ok_despite_cancel_race", 1)
			}
		} else {
			cls := c18ErrClass(c, err)
			outcomes[cls]++
			run.count("ret_"+cls, 1)
			if hostile != "" {
				run.count("hostile_ret_"+cls, 1)
				if cls == "timeout" && hostile == "hostile_timeout_lt_dial" && !c.async {
					run.count("hostile_sync_timeout_before_dial_timeout", 1)
				}
			}
			if c.async {
				run.count("ret_err_async", 1)
			}
			if c.srvAnswered.Load() > 0 {
				run.count("ret_err_although_server_answered", 1)
			}
			if run.r.SampleN() < 5 && (cls == "connfail" || cls == "closed") && run.get("sampled_"+cls) == 0 {
				run.mu.Lock()
				run.local["sampled_"+cls]++
				run.mu.Unlock()
				run.r.Sample(map[string]any{"what": "error outcome", "class": cls, "scenario": scn.Idx, "shape": scn.Shape, "call": c.describe()})
			}
		}
		// (4) wall-clock watchdog
		if c.timeout > 0 && dur > c.timeout+slack {
			run.suspect("overstay:" + api)
			if run.r.SampleN() < 6 {
				run.r.Sample(map[string]any{"what": "outlived its time-out by more than the slack (watchdog, not a verdict)", "scenario": scn.Idx, "factor": run.factor, "call": c.describe()})
			}
		}
	}
	run.rlSummary(all)
	var oc []string
	for k := range outcomes {
		oc = append(oc, k)
	}
	sort.Strings(oc)
	disturbed := len(oc) > 1 || run.get("srv_shuffled_batches")+run.get("srv_held")+run.get("srv_split_msgs") > 0
	if outcomes["ok"] > 0 && disturbed {
		run.r.Distinct(fmt.Sprintf("%s|mb%d|c%d|fwd%v|lim%v|wt%v|%s|kills%v|restarts%v|closeaddr%v|succ%v|callers%d", scn.Shape, scn.MaxBatch, scn.Conns, scn.Fwd,
			scn.Limit != config.DefMaxConcurrencyRequestLimit, scn.WaitTime > 0, strings.Join(oc, "+"),
			run.get("stream_kills") > 0, run.get("server_restarts") > 0, run.get("closeaddr") > 0, run.get("successor_streams") > 0, scn.Callers))
	}
	if run.factor == 1 {
		run.r.Count("scenarios", 1)
	}
}

func TestVerifC18BatchMultiplex(t *testing.T) {
	r := vrep.New("C18", "c18-batch-multiplex", "real RPCClient against a scripted gRPC echo server; one evaluation per call (exactly-once, identity, result shape, watchdog) and per stream re-creation (FIFO completion check); distinct = scenario classes (shape, batch/conn config, forwarding, set of outcome kinds, faults that actually happened) in which at least one call succeeded while responses were reordered/held/split or other calls failed")
	defer r.Finish(t)
	util.EnableFailpoints() // before any client exists; only directed-close-queue enables one (by name, for a few ms)
	rng := vrep.Rand("c18-scenarios")
	reps := vrep.Pick(2, 8)
	var scns []*c18Scn
	for _, sh := range []string{"directed-stale-epoch-fwd", "directed-stale-epoch-direct", "directed-close-queue", "directed-close-queue-2", "directed-limit-heap"} {
		scns = append(scns, c18GenScn(rng, len(scns), sh))
	}
	for rep := 0; rep < reps; rep++ {
		for _, sh := range c18Shapes {
			scns = append(scns, c18GenScn(rng, len(scns), sh))
		}
	}
	reproduced := map[string]bool{}
	rerunBudget := vrep.Pick(2, 6)
	hangs, suspectScns := 0, 0
	for _, scn := range scns {
		if hangs >= 2 || suspectScns >= 4 {
			// every further scenario would sit out its watchdogs again; the verdict is already "violated"
			r.Count("scenarios_skipped_after_reproduced_hangs", 1)
			continue
		}
		desc, _ := json.Marshal(scn)
		t.Logf("[c18] scenario %s", desc)
		r.Flush()
		t0 := time.Now()
		susp := c18Uniq(c18RunScenario(t, r, scn, 1))
		t.Logf("[c18] scenario %d (%s) took %dms", scn.Idx, scn.Shape, time.Since(t0).Milliseconds())
		if len(susp) == 0 {
			continue
		}
		r.Count("suspect_scenarios", 1)
		suspectScns++
		key := strings.Join(susp, ",")
		if reproduced[key] {
			r.Count("suspect_scenarios_same_class_as_reproduced", 1)
			continue
		}
		if rerunBudget == 0 {
			r.Inconc("scenario %d (%s): watchdog classes %v (re-run budget exhausted)", scn.Idx, scn.Shape, susp)
			continue
		}
		rerunBudget--
		t.Logf("[c18] scenario %d suspect %v: re-running the same descriptor with a ten-fold watchdog", scn.Idx, susp)
		susp2 := c18Uniq(c18RunScenario(t, r, scn, 10))
		common := c18Common(susp, susp2)
		if len(common) == 0 {
			r.Inconc("scenario %d (%s): watchdog classes %v did not reproduce with the ten-fold watchdog (then: %v)", scn.Idx, scn.Shape, susp, susp2)
			continue
		}
		reproduced[key] = true
		hangs++
		for _, cl := range common {
			r.Violate("blocked:"+cl+":"+scn.Shape, fmt.Sprintf("scenario %d (%s): %s reproduced with the ten-fold watchdog — calls block beyond their time-out / are not completed while the client is open", scn.Idx, scn.Shape, cl),
				map[string]any{"scenario": scn, "first_run": susp, "second_run": susp2})
		}
	}
	q := vrep.Pick(1, 5)
	r.Floor("calls", 8000*q)
	r.Floor("ret_ok", 4000*q)
	r.Floor("ret_ok_async", 300*q)
	r.Floor("ret_ok_forwarded", 100*q)
	r.Floor("ret_ok_high_priority", 300*q)
	r.Floor("ret_timeout", 20*q)
	r.Floor("ret_cancelled", 20*q)
	r.Floor("ret_closed", 1)
	r.Floor("ret_connfail", 5)
	r.Floor("calls_unary_path", 100)
	r.Floor("stream_kills", 5*q)
	r.Floor("server_restarts", 2*q)
	r.Floor("successor_streams", 5*q)
	r.Floor("fifo_checks", 5*q)
	r.Floor("closeaddr", 2*q)
	r.Floor("client_close_midway", 1)
	r.Floor("srv_shuffled_batches", 50)
	r.Floor("srv_held", 500)
	r.Floor("srv_dropped", 10)
	r.Floor("srv_batches_multi", 100)
	r.Floor("probes_ok_after_restart", 2)
	r.Floor("srv_stale_injected", 400*q)
	r.Floor("srv_stale_redelivered", 250*q)
	r.Floor("srv_stale_never_used", 40*q)
	r.Floor("srv_stale_pos_first", 100*q)
	r.Floor("srv_stale_pos_middle", 25*q)
	r.Floor("srv_stale_pos_last", 100*q)
	r.Floor("srv_stale_msgs_with_live_after", 150*q)
	r.Floor("srv_stale_msgs_with_3plus_live", 60*q)
	r.Floor("hostile_calls", 800*q)
	r.Floor("hostile_calls_async", 150*q)
	r.Floor("hostile_timeout_lt_dial", 200*q)
	r.Floor("hostile_timeout_gt_dial", 200*q)
	r.Floor("hostile_sync_timeout_before_dial_timeout", 100*q)
	r.Floor("hostile_ret_cancelled", 30*q)
	r.Floor("hostile_ret_ok", 20*q)
	r.Floor("front_blackhole", 2)
	r.Floor("front_closeaccept", 2)
	r.Floor("front_refuse", 2)
	r.Floor("front_never_up", 1)
	r.Floor("closeaddr_while_down", 2)
	r.Floor("limitheap_rounds", 12)
	r.Floor("limitheap_rounds_drained", 10)
	r.Floor("limitheap_cancelled_in_queue", 24)
	r.Floor("srv_gated", 150)
	r.Floor("gate_openings", 5)
	r.Floor("drain_ticks", 10)
	r.Floor("closeq_rounds", 16)
	r.Floor("closeq_rounds_queue_intact", 10)
	r.Floor("closeq_rounds_async_behind_sync", 8)
	r.Floor("closeq_async_nodeadline", 20)
	r.Floor("rl_ok", 1200*q)
	r.Floor("rl_ok_dup", 200*q)
	r.Floor("rl_ok_other_region", 200*q)
	r.Floor("rl_ok_lite", 100*q)
	r.Floor("rl_ok_batch", 50*q)
	r.Floor("rl_shared_executions", 30*q)
}

func c18Uniq(s []string) []string {
	m := map[string]bool{}
	var out []string
	for _, x := range s {
		if !m[x] {
			m[x] = true
			out = append(out, x)
		}
	}
	sort.Strings(out)
	return out
}

func c18Common(a, b []string) []string {
	m := map[string]bool{}
	for _, x := range b {
		m[x] = true
	}
	var out []string
	for _, x := range c18Uniq(a) {
		if m[x] {
			out = append(out, x)
		}
	}
	return out
}

// ---- directed scenarios (same monitors, scripted instead of random callers)

var c18Directed = map[string]func(run *c18Run){
	"directed-stale-epoch-fwd":    c18ScriptStaleEpoch("", "fwd-a:20160"),
	"directed-stale-epoch-direct": c18ScriptStaleEpoch("fwd-a:20160", ""),
	"directed-limit-heap":         c18ScriptLimitHeap,
	"directed-close-queue":        c18ScriptCloseQueue,
	"directed-close-queue-2":      c18ScriptCloseQueue,
}

// c18ScriptStaleEpoch: one connection carries a direct and a forwarded stream.  The stream `first` fails and is
// re-created; later the stream `second` fails while async requests without deadline are pending on it.  Every
// stream failure has to fail the pending requests of that stream — whatever happened to its siblings before.
func c18ScriptStaleEpoch(first, second string) func(run *c18Run) {
	return func(run *c18Run) {
		seq := 0
		mk := func(async bool, fwd string, srvMode int, timeout time.Duration) *c18Call {
			c := &c18Call{caller: -2, seq: seq, done: make(chan struct{}), kind: seq % c18NPlainKinds, fwd: fwd, async: async, srvMode: srvMode,
				timeout: timeout, id: fmt.Sprintf("v%d.%d/directed/q%d", run.factor, run.scn.Idx, seq)}
			seq++
			return c
		}
		lt := run.scn.LongTimeout
		for _, f := range []string{first, second} { // open both streams
			run.issue(mk(false, f, c18SrvEcho, lt))
		}
		run.issue(mk(false, first, c18SrvKill, lt)) // the first stream breaks and is re-created
		for i := 0; i < 300; i++ {
			c := mk(false, first, c18SrvEcho, lt)
			run.issue(c)
			if c.err == nil {
				break
			}
			time.Sleep(10 * time.Millisecond)
		}
		var parked []*c18Call
		for i := 0; i < 3; i++ { // requests that the server keeps unanswered on the second stream
			c := mk(true, second, c18SrvDrop, 0)
			run.issue(c)
			parked = append(parked, c)
		}
		for i := 0; i < 2000; i++ {
			n := 0
			for _, c := range parked {
				if c.srvRecv.Load() > 0 || c.returns.Load() > 0 {
					n++
				}
			}
			if n == len(parked) {
				break
			}
			time.Sleep(time.Millisecond)
		}
		run.count("directed_parked_calls", len(parked))
		run.issue(mk(false, second, c18SrvKill, lt)) // now the second stream breaks
		// the recovery probes of the common tail drive the re-created streams; the FIFO check decides
	}
}

// lostResponseCheck is the second logical part of clause (4).  gRPC delivers the messages of one stream in order, so
// when a call B completed with the response the server sent as message q of stream S, the client's recv loop has
// consumed every earlier message p<q of S.  Whatever it did with the response of an async call A in message p —
// dispatch it, or drop it because A had been cancelled or failed before — A's callback has been queued by then, and
// once the FIFO run loop has drained up to a marker, it has run.  An A that is still not completed has lost its
// response for good.
func (run *c18Run) lostResponseCheck(all []*c18Call) {
	maxOK := map[int64]int64{}
	for _, c := range all {
		if c.returns.Load() == 0 {
			continue
		}
		c.mu.Lock()
		ok := c.err == nil
		c.mu.Unlock()
		if st, q := c.ansStream.Load(), c.ansSeq.Load(); ok && st != 0 && q > maxOK[st] {
			maxOK[st] = q
		}
	}
	var cand []*c18Call
	for _, c := range all {
		if c.async && c.returns.Load() == 0 && !c.flagged.Load() && c.srvAnswered.Load() > 0 && c.ansSeq.Load() < maxOK[c.ansStream.Load()] {
			cand = append(cand, c)
		}
	}
	if len(cand) == 0 {
		return
	}
	drained := make(chan struct{})
	run.rl.Append(func() { close(drained) })
	select {
	case <-drained:
	case <-time.After(20 * time.Second):
		run.harnessError("run loop did not drain")
		return
	}
	run.r.Eval(1)
	run.count("lost_response_checks", 1)
	var bad []*c18Call
	for _, c := range cand {
		if c.returns.Load() == 0 && !c.flagged.Swap(true) {
			bad = append(bad, c)
		}
	}
	if len(bad) > 0 {
		run.violate("async:response-consumed-but-call-not-completed",
			fmt.Sprintf("%d async call(s) were answered by the server, later messages of the same stream have been delivered to their callers, yet these calls are not completed (first: %s, stream #%d message %d)",
				len(bad), bad[0].id, bad[0].ansStream.Load(), bad[0].ansSeq.Load()), bad...)
	}
}

func c18FrontMode(name string) int {
	for i, n := range c18FrontName {
		if n == name {
			return i
		}
	}
	return c18FrontNone
}

// c18ScriptCloseQueue: the pool is closed while sync AND async requests are queued, in a chosen order, behind a send
// loop that is busy with an earlier batch (failpoint mockBatchClientSendDelay).  When the loop comes back it picks at
// random between the queue and `closed`; repeated rounds see both.  Whatever it picks and whatever the order in the
// queue: every sync call returns, every async callback is invoked exactly once (the deadline-less ones are judged by
// the common tail, after the client has been closed and everything is quiet).
func c18ScriptCloseQueue(run *c18Run) {
	rng := rand.New(rand.NewSource(run.scn.Seed ^ 0xc105e))
	const fp = "tikvclient/mockBatchClientSendDelay"
	defer failpoint.Disable(fp)
	seq := 0
	mk := func(what byte) *c18Call {
		c := &c18Call{caller: -2, seq: seq, done: make(chan struct{}), kind: seq % c18NPlainKinds, timeout: run.scn.LongTimeout,
			id: fmt.Sprintf("v%d.%d/closeq/q%d", run.factor, run.scn.Idx, seq)}
		seq++
		switch what {
		case 'a': // async, no deadline
			c.async, c.timeout = true, 0
		case 'd': // async with a deadline
			c.async, c.timeout = true, 300*time.Millisecond
		case 'c': // async, cancelled while queued
			c.async, c.timeout, c.cancelMode, c.cancelDelay = true, 0, c18CancelDelay, time.Duration(1+rng.Intn(20))*time.Millisecond
		case 'x': // sync, cancelled while queued
			c.cancelMode, c.cancelDelay = c18CancelDelay, time.Duration(1+rng.Intn(20))*time.Millisecond
		}
		return c
	}
	patterns := []string{"sa", "asa", "sssasd", "aadsaca", "sca", "aa", "xasa", "sda", "ssssa", "asasasa"}
	queueLen := func() int {
		run.rpc.RLock()
		defer run.rpc.RUnlock()
		if p := run.rpc.connPools[run.srv.addr]; p != nil && p.batchConn != nil {
			return len(p.batchConn.batchCommandsCh)
		}
		return -1
	}
	waitFor := func(cond func() bool, d time.Duration) bool {
		for end := time.Now().Add(d); time.Now().Before(end); time.Sleep(200 * time.Microsecond) {
			if cond() {
				return true
			}
		}
		return cond()
	}
	// A caller that looked the pool up just before CloseAddr and submits after the send loop has gone: the pool is
	// closed through the public call, then put back under its address for the duration of the submissions (the very
	// state such a caller holds), and removed again.  Every such call must still complete (with an error).
	for k := 0; k < vrep.Pick(2, 6); k++ {
		warm := mk('s')
		run.issue(warm)
		if warm.err != nil {
			run.count("stalepool_warmup_failed", 1)
			time.Sleep(10 * time.Millisecond)
			continue
		}
		run.rpc.RLock()
		stale := run.rpc.connPools[run.srv.addr]
		run.rpc.RUnlock()
		if stale == nil {
			continue
		}
		run.rpc.CloseAddr(run.srv.addr)
		time.Sleep(60 * time.Millisecond) // the send loop sees closed, fails what is queued and exits
		run.rpc.Lock()
		if run.rpc.connPools[run.srv.addr] == nil {
			run.rpc.connPools[run.srv.addr] = stale
		}
		run.rpc.Unlock()
		for i := 0; i < 12; i++ {
			run.issue(mk("ad"[i%2]))
		}
		run.count("stalepool_async_after_close", 12)
		run.rpc.Lock()
		if run.rpc.connPools[run.srv.addr] == stale {
			delete(run.rpc.connPools, run.srv.addr)
		}
		run.rpc.Unlock()
	}
	rounds := vrep.Pick(12, 40)
	for round := 0; round < rounds; round++ {
		pat := patterns[rng.Intn(len(patterns))]
		if round < len(patterns) {
			pat = patterns[round]
		}
		// a fresh pool with an established stream, so that nothing but the failpoint delays the send loop
		warm := mk('s')
		run.issue(warm)
		if warm.err != nil {
			run.count("closeq_rounds_warmup_failed", 1)
			time.Sleep(10 * time.Millisecond)
			continue
		}
		failpoint.Enable(fp, "return(40)")
		var wg sync.WaitGroup
		launch := func(c *c18Call) {
			wg.Add(1)
			go func() {
				defer wg.Done()
				run.issue(c)
			}()
		}
		launch(mk('s')) // the batch that keeps the send loop busy
		waitFor(func() bool { return queueLen() == 0 }, 20*time.Millisecond)
		time.Sleep(2 * time.Millisecond)
		intact := true
		for i := 0; i < len(pat); i++ {
			launch(mk(pat[i]))
			if !waitFor(func() bool { return queueLen() >= i+1 }, 15*time.Millisecond) {
				intact = false
			}
		}
		if queueLen() != len(pat) {
			intact = false
		}
		run.count("closeq_rounds", 1)
		if intact {
			run.count("closeq_rounds_queue_intact", 1)
			if i := strings.IndexAny(pat, "sx"); i >= 0 && strings.ContainsAny(pat[i:], "adc") {
				run.count("closeq_rounds_async_behind_sync", 1)
			}
		}
		run.count("closeq_async_nodeadline", strings.Count(pat, "a"))
		switch k := rng.Intn(6); {
		case round == rounds-1:
			run.count("client_close_midway", 1)
			run.closed.Store(true)
			run.cl.Close()
		case k == 0: // what the idle recycler calls
			run.rpc.RLock()
			ver := uint64(0)
			if p := run.rpc.connPools[run.srv.addr]; p != nil {
				ver = p.ver
			}
			run.rpc.RUnlock()
			run.count("closeaddr", 1)
			run.rpc.CloseAddrVer(run.srv.addr, ver)
		default:
			run.count("closeaddr", 1)
			run.rpc.CloseAddr(run.srv.addr)
		}
		failpoint.Disable(fp)
		wg.Wait() // the sync callers come back by themselves; the async ones are judged by the common tail
		time.Sleep(45 * time.Millisecond)
	}
}

// tickDrain keeps requests arriving until every call issued so far has returned (at most n ticks).  With a request
// limit the send loop only looks at its priority queue when a request arrives, so a quiet client would leave queued
// requests waiting although the store has capacity again (documented behaviour, not judged here).
func (run *c18Run) tickDrain(n int) bool {
	for i := 0; i < n; i++ {
		run.mu.Lock()
		pending := 0
		for _, c := range run.all {
			if c.returns.Load() == 0 && !c.flagged.Load() {
				pending++
			}
		}
		k := len(run.all)
		run.mu.Unlock()
		if pending == 0 {
			return true
		}
		// async: a tick must not wait for its own turn in the queue (it has the lowest priority)
		c := &c18Call{caller: -9, seq: k, done: make(chan struct{}), kind: c18KindGet, async: true, timeout: 100 * time.Millisecond, probe: true,
			id: fmt.Sprintf("v%d.%d/tick/q%d", run.factor, run.scn.Idx, k)}
		run.issue(c)
		run.count("drain_ticks", 1)
		time.Sleep(500 * time.Microsecond)
	}
	return false
}

// c18ScriptLimitHeap replays exact arrival orders around heap shapes of the send loop's priority queue: the request
// limit (2) is exhausted by two requests the store keeps open, 5-7 requests with different normal priorities queue up
// one by one (each arrival is one send-loop iteration), 2-3 of them are cancelled between two iterations, one more
// arrival lets the loop clean its queue, then the gate opens and arrivals keep coming until the queue has drained.
// Every live request must be served (or failed): the deadline-less async ones are the witnesses.
func c18ScriptLimitHeap(run *c18Run) {
	rng := rand.New(rand.NewSource(run.scn.Seed ^ 0x4ea9))
	type ent struct {
		pri    uint64
		cancel bool
	}
	fixed := [][]ent{
		{{9, false}, {2, true}, {8, false}, {1, true}, {1, false}, {7, false}},
		{{8, false}, {3, true}, {7, false}, {2, true}, {2, false}, {6, false}},
		{{9, false}, {4, true}, {8, false}, {3, true}, {2, true}, {1, false}, {7, false}},
		{{5, false}, {2, true}, {4, false}, {1, true}, {3, false}},
	}
	queueLen := func() int {
		run.rpc.RLock()
		defer run.rpc.RUnlock()
		if p := run.rpc.connPools[run.srv.addr]; p != nil && p.batchConn != nil {
			return len(p.batchConn.batchCommandsCh)
		}
		return -1
	}
	consumed := func() {
		for end := time.Now().Add(20 * time.Millisecond); time.Now().Before(end) && queueLen() > 0; {
			time.Sleep(100 * time.Microsecond)
		}
		time.Sleep(400 * time.Microsecond) // let the loop finish the iteration and block on the queue again
	}
	seq := 0
	mk := func(async bool, pri uint64, timeout time.Duration, srvMode int) *c18Call {
		c := &c18Call{caller: -2, seq: seq, done: make(chan struct{}), kind: seq % c18NPlainKinds, async: async, pri: pri, timeout: timeout, srvMode: srvMode,
			id: fmt.Sprintf("v%d.%d/heap/q%d", run.factor, run.scn.Idx, seq)}
		seq++
		return c
	}
	var wg sync.WaitGroup
	launch := func(c *c18Call) {
		if c.async {
			run.issue(c)
			return
		}
		wg.Add(1)
		go func() {
			defer wg.Done()
			run.issue(c)
		}()
	}
	warm := mk(false, 0, run.scn.LongTimeout, c18SrvEcho)
	run.issue(warm)
	rounds := vrep.Pick(16, 60)
	for round := 0; round < rounds; round++ {
		var order []ent
		if round < len(fixed) {
			order = fixed[round]
		} else {
			n := 5 + rng.Intn(3)
			for i := 0; i < n; i++ {
				order = append(order, ent{pri: uint64(1 + rng.Intn(9))})
			}
			for k, want := 0, 2+rng.Intn(2); k < want; {
				if i := rng.Intn(n - 1); !order[i].cancel { // the last arrival stays live
					order[i].cancel = true
					k++
				}
			}
		}
		run.gateOpen.Store(false)
		holders := []*c18Call{mk(true, 0, 3*time.Second, c18SrvGate), mk(true, 0, 3*time.Second, c18SrvGate)}
		for _, h := range holders {
			launch(h)
		}
		for end := time.Now().Add(300 * time.Millisecond); time.Now().Before(end) && (holders[0].srvRecv.Load() == 0 || holders[1].srvRecv.Load() == 0); {
			time.Sleep(200 * time.Microsecond)
		}
		if holders[0].srvRecv.Load() == 0 || holders[1].srvRecv.Load() == 0 {
			run.count("limitheap_rounds_holders_not_placed", 1)
			run.gateOpen.Store(true)
			run.tickDrain(200)
			continue
		}
		// The cancellations happen before the last arrival: that arrival is the send-loop iteration after which the
		// queue is cleaned, with the last (live) entry at the end of the heap.  In some random rounds they happen
		// after it instead and one more low-priority arrival triggers the cleaning.
		cancelBeforeLast := round < len(fixed) || rng.Intn(3) > 0
		waiting := make([]*c18Call, len(order))
		arrive := func(i int) {
			e := order[i]
			// live entries are mostly deadline-less async calls (the witnesses; all of them in the hand-made orders);
			// cancelled ones alternate sync / async
			async := e.cancel && i%2 == 0 || !e.cancel && (round < len(fixed) || rng.Intn(5) > 0)
			timeout := time.Duration(0)
			if !async {
				timeout = run.scn.LongTimeout
			} else if !e.cancel && round >= len(fixed) && rng.Intn(6) == 0 {
				timeout = run.scn.LongTimeout // async with a deadline
			}
			c := mk(async, e.pri, timeout, c18SrvEcho)
			waiting[i] = c
			launch(c)
			if !c.async {
				time.Sleep(2 * time.Millisecond) // a sync call is issued from its own goroutine: give it time to enqueue, the order matters
			}
			consumed()
		}
		cancelThem := func() {
			for i, e := range order {
				if e.cancel {
					waiting[i].doCancel()
					run.count("limitheap_cancelled_in_queue", 1)
				}
			}
			for i, e := range order {
				if e.cancel {
					<-c18After(waiting[i], 200*time.Millisecond)
				}
			}
			time.Sleep(time.Millisecond)
		}
		last := len(order) - 1
		for i := 0; i < last; i++ {
			arrive(i)
		}
		if cancelBeforeLast {
			cancelThem()
			arrive(last)
		} else {
			arrive(last)
			cancelThem()
			launch(mk(false, uint64(rng.Intn(10)), 300*time.Millisecond, c18SrvEcho))
			consumed()
		}
		run.gateOpen.Store(true)
		run.count("limitheap_rounds", 1)
		if run.tickDrain(300) {
			run.count("limitheap_rounds_drained", 1)
		}
		wg.Wait()
	}
}
