//go:build verif

package client

// C18 — scripted echo server.  A real gRPC tikvpb.TikvServer on loopback whose
// BatchCommands stream answers every request with a response that carries the
// request's own unique key, and which — driven by a PRNG derived from
// VERIF_SEED — delays, reorders, splits, holds back and drops responses, ends
// streams with or without an error after a scripted number of requests, and
// stops/restarts the whole server at scripted request counts.  It only ever
// sends responses for request ids it has received on that very stream, each at
// most once (the property statement covers drops / restarts / delays /
// reorders, not forged or duplicated ids).

import (
	"context"
	"fmt"
	"math/rand"
	"net"
	"sync"
	"sync/atomic"
	"time"

	"github.com/pingcap/kvproto/pkg/coprocessor"
	"github.com/pingcap/kvproto/pkg/kvrpcpb"
	"github.com/pingcap/kvproto/pkg/tikvpb"
	"google.golang.org/grpc"
	"google.golang.org/grpc/codes"
	"google.golang.org/grpc/metadata"
	"google.golang.org/grpc/status"
)

const (
	c18KindGet = iota
	c18KindRawGet
	c18KindCop
	c18KindBatchGet
	c18KindMvcc        // not batchable: always takes the unary path
	c18KindResolveLock // carries no payload to echo: judged against the server's execution log (c18_resolvelock_test.go)
	c18NKinds
)

// the kinds drawn at random for ordinary calls
const c18NPlainKinds = c18KindMvcc

var c18KindName = [...]string{"get", "rawget", "cop", "batchget", "mvcc", "resolvelock"}

// what the server does with a call (fixed by the call's plan, not by timing)
const (
	c18SrvEcho = iota // answer (possibly held / reordered / split by the stream script)
	c18SrvDrop        // never answer
	c18SrvSlow        // answer after the call's time-out has passed
	c18SrvGate        // answer only once the scenario has opened the gate (keeps the request "in flight" at the store)
	c18SrvKill        // directed scenarios: never answer, and end the stream with an error as soon as this request arrives
)

const c18CCMetaKey = "verif-cc"

type c18Item struct {
	reqID     uint64
	kind      int
	key       []byte
	call      *c18Call
	gated     bool       // held until run.gateOpen
	exec      *c18RLExec // ResolveLock: the execution record, stamped when the answer goes out
	notBefore time.Time
}

type c18Stream struct {
	id     int64
	ident  string // client ClientConn id + forwarded host
	fwd    string
	ss     tikvpb.Tikv_BatchCommandsServer
	killAt int // the handler returns after this many requests (0: never)

	mu        sync.Mutex // guards everything below and serialises ss.Send
	dead      bool
	held      []c18Item
	received  []*c18Call
	nrecv     int
	fbSeq     uint64
	msgSeq    int64     // number of response messages sent on this stream
	delivered []c18Item // (id, kind, key) of responses delivered by earlier messages of this stream
}

type c18SrvPlan struct {
	killProb    float64 // probability that a stream gets a kill point
	killMin     int
	killMax     int
	restartAt   []int64 // server-wide request counts at which the server is stopped and restarted
	downMs      int
	holdPct     int // per batch: percentage handled by "hold everything for the flusher"
	shufflePct  int // per batch: percentage answered at once but shuffled and split
	loadPct     int // percentage of responses carrying a transport-layer load above the threshold
	feedbackPct int
	frontMode   int           // connection-level hostility on the address before the real server exists
	frontFor    time.Duration // how long; 0 with frontMode != none: for ever (the store never comes up)
	downMode    int           // what occupies the address while the server is down during a restart
	closeOnDown bool          // the client's pool is closed when the server goes down, so the connection is re-created meanwhile
	stalePct    int           // percentage of response messages that additionally carry a stale (re-delivered / never used) id
	gateAll     bool          // every echo request is held until the gate opens
}

type c18Server struct {
	tikvpb.UnimplementedTikvServer
	run  *c18Run
	plan c18SrvPlan
	addr string

	mu         sync.Mutex
	gs         *grpc.Server
	latest     map[string]*c18Stream
	rng        *rand.Rand
	restartIdx int
	restarting bool
	wg         sync.WaitGroup

	nstreams  atomic.Int64
	totalRecv atomic.Int64
	stopped   atomic.Bool
	neverUsed atomic.Int64
	frontStop func()
}

func c18NewServer(run *c18Run, plan c18SrvPlan, rng *rand.Rand) *c18Server {
	return &c18Server{run: run, plan: plan, latest: map[string]*c18Stream{}, rng: rng}
}

func (s *c18Server) start() error {
	addr := s.addr
	if addr == "" {
		addr = "127.0.0.1:0"
	}
	var lis net.Listener
	var err error
	for i := 0; i < 200; i++ {
		lis, err = net.Listen("tcp", addr)
		if err == nil {
			break
		}
		time.Sleep(5 * time.Millisecond)
	}
	if err != nil {
		return err
	}
	if s.addr == "" {
		s.addr = lis.Addr().String() // written once, before any client exists; restarts re-listen on the same address
	}
	gs := grpc.NewServer()
	tikvpb.RegisterTikvServer(gs, s)
	s.mu.Lock()
	s.gs = gs
	s.mu.Unlock()
	go gs.Serve(lis)
	return nil
}

func (s *c18Server) stop() {
	s.mu.Lock()
	gs := s.gs
	s.gs = nil
	s.mu.Unlock()
	if gs != nil {
		gs.Stop()
	}
}

// shutdown ends the server for good (end of scenario).
func (s *c18Server) shutdown() {
	s.stopped.Store(true)
	s.wg.Wait()
	if s.frontStop != nil {
		s.frontStop()
	}
	s.stop()
}

func (s *c18Server) maybeRestart(total int64) {
	s.mu.Lock()
	if s.restarting || s.stopped.Load() || s.restartIdx >= len(s.plan.restartAt) || total < s.plan.restartAt[s.restartIdx] {
		s.mu.Unlock()
		return
	}
	s.restartIdx++
	s.restarting = true
	s.wg.Add(1)
	s.mu.Unlock()
	go func() {
		defer s.wg.Done()
		s.run.count("server_restarts", 1)
		s.stop()
		if s.plan.closeOnDown {
			s.run.count("closeaddr", 1)
			s.run.count("closeaddr_while_down", 1)
			s.run.rpc.CloseAddr(s.addr)
		}
		stopFront := s.front(s.plan.downMode)
		time.Sleep(time.Duration(s.plan.downMs) * time.Millisecond)
		stopFront()
		if err := s.start(); err != nil {
			s.run.harnessError("server restart: " + err.Error())
		}
		s.mu.Lock()
		s.restarting = false
		s.mu.Unlock()
	}()
}

func (s *c18Server) restartsPending() bool {
	s.mu.Lock()
	defer s.mu.Unlock()
	return s.restarting
}

func c18MD(ctx context.Context, key string) string {
	md, _ := metadata.FromIncomingContext(ctx)
	if v := md.Get(key); len(v) > 0 {
		return v[0]
	}
	return ""
}

func c18ReqKey(r *tikvpb.BatchCommandsRequest_Request) (int, []byte) {
	switch c := r.GetCmd().(type) {
	case *tikvpb.BatchCommandsRequest_Request_Get:
		return c18KindGet, c.Get.GetKey()
	case *tikvpb.BatchCommandsRequest_Request_RawGet:
		return c18KindRawGet, c.RawGet.GetKey()
	case *tikvpb.BatchCommandsRequest_Request_Coprocessor:
		return c18KindCop, c.Coprocessor.GetData()
	case *tikvpb.BatchCommandsRequest_Request_BatchGet:
		if ks := c.BatchGet.GetKeys(); len(ks) > 0 {
			return c18KindBatchGet, ks[0]
		}
		return c18KindBatchGet, nil
	case *tikvpb.BatchCommandsRequest_Request_ResolveLock:
		return c18KindResolveLock, nil
	}
	return -1, nil
}

func c18BatchResp(kind int, key []byte) *tikvpb.BatchCommandsResponse_Response {
	k := append([]byte(nil), key...)
	switch kind {
	case c18KindGet:
		return &tikvpb.BatchCommandsResponse_Response{Cmd: &tikvpb.BatchCommandsResponse_Response_Get{Get: &kvrpcpb.GetResponse{Value: k}}}
	case c18KindRawGet:
		return &tikvpb.BatchCommandsResponse_Response{Cmd: &tikvpb.BatchCommandsResponse_Response_RawGet{RawGet: &kvrpcpb.RawGetResponse{Value: k}}}
	case c18KindCop:
		return &tikvpb.BatchCommandsResponse_Response{Cmd: &tikvpb.BatchCommandsResponse_Response_Coprocessor{Coprocessor: &coprocessor.Response{Data: k}}}
	case c18KindResolveLock:
		return &tikvpb.BatchCommandsResponse_Response{Cmd: &tikvpb.BatchCommandsResponse_Response_ResolveLock{ResolveLock: &kvrpcpb.ResolveLockResponse{}}}
	case c18KindBatchGet:
		return &tikvpb.BatchCommandsResponse_Response{Cmd: &tikvpb.BatchCommandsResponse_Response_BatchGet{BatchGet: &kvrpcpb.BatchGetResponse{Pairs: []*kvrpcpb.KvPair{{Key: k, Value: k}}}}}
	}
	return &tikvpb.BatchCommandsResponse_Response{Cmd: &tikvpb.BatchCommandsResponse_Response_Empty{Empty: &tikvpb.BatchCommandsEmptyResponse{}}}
}

// sendLocked sends one BatchCommandsResponse with the given items; st.mu held.
func (st *c18Stream) sendLocked(s *c18Server, items []c18Item, rng *rand.Rand) {
	if len(items) == 0 || st.dead {
		return
	}
	resp := &tikvpb.BatchCommandsResponse{}
	st.msgSeq++
	// Hostile re-delivery: the message additionally carries, at the first / a middle / the last position, an id the
	// client does not track any more — a copy of an (id, response) pair that an EARLIER message of this very stream
	// has already delivered (the single recv loop of the stream has processed that message by now), or an id the
	// client never allocated.  Ids and responses stay aligned; the client's "outdated response" branch must skip it.
	staleAt := -1
	if rng.Intn(100) < s.plan.stalePct {
		switch p := rng.Intn(3); {
		case p == 0:
			staleAt = 0
		case p == 1 && len(items) >= 2:
			staleAt = 1 + rng.Intn(len(items)-1)
		default:
			staleAt = len(items)
		}
	}
	addStale := func() {
		var id uint64
		var r *tikvpb.BatchCommandsResponse_Response
		if len(st.delivered) > 0 && rng.Intn(5) > 0 {
			d := st.delivered[rng.Intn(len(st.delivered))]
			id, r = d.reqID, c18BatchResp(d.kind, d.key)
			s.run.count("srv_stale_redelivered", 1)
		} else {
			n := s.neverUsed.Add(1)
			id, r = 1<<62+uint64(n), c18BatchResp(rng.Intn(c18NPlainKinds), []byte(fmt.Sprintf("stale-never-used-%d", n)))
			s.run.count("srv_stale_never_used", 1)
		}
		resp.RequestIds = append(resp.RequestIds, id)
		resp.Responses = append(resp.Responses, r)
		s.run.count("srv_stale_injected", 1)
		switch {
		case staleAt == 0:
			s.run.count("srv_stale_pos_first", 1)
		case staleAt == len(items):
			s.run.count("srv_stale_pos_last", 1)
		default:
			s.run.count("srv_stale_pos_middle", 1)
		}
		if live := len(items) - staleAt; live > 0 {
			s.run.count("srv_stale_msgs_with_live_after", 1)
			s.run.count("srv_stale_live_responses_after", live)
			if live >= 2 {
				s.run.count("srv_stale_msgs_with_2plus_live_after", 1)
			}
		}
		if len(items) >= 3 {
			s.run.count("srv_stale_msgs_with_3plus_live", 1)
		}
	}
	for i, it := range items {
		if i == staleAt {
			addStale()
		}
		if it.call != nil {
			it.call.ansStream.Store(st.id)
			it.call.ansSeq.Store(st.msgSeq)
			it.call.srvAnswered.Add(1)
		}
		if it.exec != nil {
			it.exec.ansSeq.Store(s.run.seq.Add(1))
		}
		resp.RequestIds = append(resp.RequestIds, it.reqID)
		resp.Responses = append(resp.Responses, c18BatchResp(it.kind, it.key))
	}
	if staleAt == len(items) {
		addStale()
	}
	if rng.Intn(100) < s.plan.feedbackPct {
		st.fbSeq++
		resp.HealthFeedback = &kvrpcpb.HealthFeedback{StoreId: 1, FeedbackSeqNo: st.fbSeq, SlowScore: int32(1 + rng.Intn(50))}
		s.run.count("srv_health_feedback", 1)
	}
	if rng.Intn(100) < s.plan.loadPct {
		resp.TransportLayerLoad = 1000
	} else if rng.Intn(4) == 0 {
		resp.TransportLayerLoad = 1
	}
	s.run.count("srv_resp_msgs", 1)
	if err := st.ss.Send(resp); err != nil {
		st.dead = true
		return
	}
	// remember what this message delivered: candidates for re-delivery in LATER messages
	for _, it := range items {
		if len(st.delivered) < 64 {
			st.delivered = append(st.delivered, it)
		} else {
			st.delivered[rng.Intn(64)] = it
		}
	}
}

func (st *c18Stream) flusher(s *c18Server, rng *rand.Rand, done <-chan struct{}) {
	tk := time.NewTicker(400 * time.Microsecond)
	defer tk.Stop()
	for {
		select {
		case <-done:
			return
		case <-tk.C:
		}
		st.mu.Lock()
		if st.dead {
			st.mu.Unlock()
			return
		}
		if len(st.held) > 0 {
			now := time.Now()
			var ready, rest []c18Item
			for _, it := range st.held {
				if it.gated && !s.run.gateOpen.Load() {
					rest = append(rest, it)
				} else if it.notBefore.IsZero() || now.After(it.notBefore) {
					ready = append(ready, it)
				} else {
					rest = append(rest, it)
				}
			}
			if len(ready) > 0 {
				rng.Shuffle(len(ready), func(i, j int) { ready[i], ready[j] = ready[j], ready[i] })
				k := 1 + rng.Intn(len(ready))
				st.sendLocked(s, ready[:k], rng)
				rest = append(rest, ready[k:]...)
			}
			st.held = rest
		}
		st.mu.Unlock()
	}
}

// BatchCommands implements the scripted echo stream.
func (s *c18Server) BatchCommands(ss tikvpb.Tikv_BatchCommandsServer) error {
	ctx := ss.Context()
	fwd := c18MD(ctx, forwardMetadataKey)
	st := &c18Stream{id: s.nstreams.Add(1), fwd: fwd, ss: ss, ident: c18MD(ctx, c18CCMetaKey) + "|" + fwd}
	s.mu.Lock()
	rng := rand.New(rand.NewSource(s.rng.Int63()))
	frng := rand.New(rand.NewSource(s.rng.Int63()))
	if s.rng.Float64() < s.plan.killProb {
		st.killAt = s.plan.killMin + s.rng.Intn(s.plan.killMax-s.plan.killMin+1)
	}
	pred := s.latest[st.ident]
	s.latest[st.ident] = st
	s.mu.Unlock()
	s.run.count("streams_created", 1)
	if fwd != "" {
		s.run.count("streams_forwarded", 1)
	}
	if pred != nil {
		s.run.successorCreated(pred, st)
	}
	done := make(chan struct{})
	defer func() {
		st.mu.Lock()
		st.dead = true
		st.held = nil
		st.mu.Unlock()
		close(done)
	}()
	go st.flusher(s, frng, done)

	for {
		req, err := ss.Recv()
		if err != nil {
			return err
		}
		ids := req.GetRequestIds()
		reqs := req.GetRequests()
		s.run.count("srv_batches", 1)
		if len(ids) > 1 {
			s.run.count("srv_batches_multi", 1)
		}
		var now []c18Item
		var hold []c18Item
		killNow := false
		st.mu.Lock()
		for i, id := range ids {
			if i >= len(reqs) {
				break
			}
			kind, key := c18ReqKey(reqs[i])
			it := c18Item{reqID: id, kind: kind, key: key}
			if kind == c18KindResolveLock {
				it.exec = s.run.rlExecuted(reqs[i].GetResolveLock())
			}
			if c := s.run.lookup(key); c != nil {
				it.call = c
				c.srvRecv.Add(1)
				c.srvStream.Store(st.id)
				if c.fwd != fwd {
					s.run.count("fwd_mismatch", 1)
				}
				st.received = append(st.received, c)
				if c.cancelMode == c18CancelOnRecv {
					c.doCancel()
				}
				if c.srvMode == c18SrvGate || (s.plan.gateAll && c.srvMode == c18SrvEcho) {
					it.gated = true
					hold = append(hold, it)
					s.run.count("srv_gated", 1)
					continue
				}
				switch c.srvMode {
				case c18SrvKill:
					killNow = true
					continue
				case c18SrvDrop:
					s.run.count("srv_dropped", 1)
					continue
				case c18SrvSlow:
					it.notBefore = time.Now().Add(c.slowDelay)
					hold = append(hold, it)
					s.run.count("srv_slowed", 1)
					continue
				}
			}
			now = append(now, it)
		}
		st.nrecv += len(ids)
		nrecv := st.nrecv
		mode := rng.Intn(100)
		switch {
		case mode < s.plan.holdPct:
			hold = append(hold, now...)
			s.run.count("srv_held", len(now))
			now = nil
		case mode < s.plan.holdPct+s.plan.shufflePct && len(now) > 1:
			rng.Shuffle(len(now), func(i, j int) { now[i], now[j] = now[j], now[i] })
			s.run.count("srv_shuffled_batches", 1)
			parts := 1 + rng.Intn(3)
			for p := 0; p < parts && len(now) > 0; p++ {
				k := len(now)
				if p < parts-1 {
					k = 1 + rng.Intn(len(now))
				}
				st.sendLocked(s, now[:k], rng)
				now = now[k:]
				if p > 0 {
					s.run.count("srv_split_msgs", 1)
				}
			}
			now = nil
		}
		st.sendLocked(s, now, rng)
		st.held = append(st.held, hold...)
		st.mu.Unlock()

		total := s.totalRecv.Add(int64(len(ids)))
		s.maybeRestart(total)
		if killNow {
			s.run.count("stream_kills", 1)
			return status.Error(codes.Unavailable, "verif: directed stream failure")
		}
		if st.killAt > 0 && nrecv >= st.killAt {
			s.run.count("stream_kills", 1)
			if rng.Intn(2) == 0 {
				return status.Error(codes.Unavailable, "verif: scripted stream failure")
			}
			return nil
		}
	}
}

// ---- unary fall-backs (batching disabled, or request types that cannot be batched)

func (s *c18Server) unary(ctx context.Context, key []byte) error {
	s.run.count("srv_unary", 1)
	total := s.totalRecv.Add(1)
	defer s.maybeRestart(total)
	c := s.run.lookup(key)
	if c == nil {
		return nil
	}
	c.srvRecv.Add(1)
	if c.fwd != c18MD(ctx, forwardMetadataKey) {
		s.run.count("fwd_mismatch", 1)
	}
	if c.cancelMode == c18CancelOnRecv {
		c.doCancel()
	}
	switch c.srvMode {
	case c18SrvDrop:
		s.run.count("srv_dropped", 1)
		<-ctx.Done()
		return ctx.Err()
	case c18SrvSlow:
		s.run.count("srv_slowed", 1)
		select {
		case <-ctx.Done():
			return ctx.Err()
		case <-time.After(c.slowDelay):
		}
	}
	c.srvAnswered.Add(1)
	return nil
}

func (s *c18Server) KvGet(ctx context.Context, req *kvrpcpb.GetRequest) (*kvrpcpb.GetResponse, error) {
	if err := s.unary(ctx, req.GetKey()); err != nil {
		return nil, err
	}
	return &kvrpcpb.GetResponse{Value: req.GetKey()}, nil
}

func (s *c18Server) RawGet(ctx context.Context, req *kvrpcpb.RawGetRequest) (*kvrpcpb.RawGetResponse, error) {
	if err := s.unary(ctx, req.GetKey()); err != nil {
		return nil, err
	}
	return &kvrpcpb.RawGetResponse{Value: req.GetKey()}, nil
}

func (s *c18Server) Coprocessor(ctx context.Context, req *coprocessor.Request) (*coprocessor.Response, error) {
	if err := s.unary(ctx, req.GetData()); err != nil {
		return nil, err
	}
	return &coprocessor.Response{Data: req.GetData()}, nil
}

func (s *c18Server) KvBatchGet(ctx context.Context, req *kvrpcpb.BatchGetRequest) (*kvrpcpb.BatchGetResponse, error) {
	var key []byte
	if len(req.GetKeys()) > 0 {
		key = req.GetKeys()[0]
	}
	if err := s.unary(ctx, key); err != nil {
		return nil, err
	}
	return &kvrpcpb.BatchGetResponse{Pairs: []*kvrpcpb.KvPair{{Key: key, Value: key}}}, nil
}

func (s *c18Server) MvccGetByKey(ctx context.Context, req *kvrpcpb.MvccGetByKeyRequest) (*kvrpcpb.MvccGetByKeyResponse, error) {
	if err := s.unary(ctx, req.GetKey()); err != nil {
		return nil, err
	}
	return &kvrpcpb.MvccGetByKeyResponse{Error: string(req.GetKey())}, nil
}

func (s *c18Server) KvResolveLock(ctx context.Context, req *kvrpcpb.ResolveLockRequest) (*kvrpcpb.ResolveLockResponse, error) {
	s.run.count("srv_unary", 1)
	total := s.totalRecv.Add(1)
	defer s.maybeRestart(total)
	ex := s.run.rlExecuted(req)
	ex.ansSeq.Store(s.run.seq.Add(1))
	return &kvrpcpb.ResolveLockResponse{}, nil
}

// ---- connection-level hostility: what a client meets on the address while there is no gRPC server

const (
	c18FrontNone        = iota // nothing listens: connection refused
	c18FrontBlackHole          // accepts TCP, never speaks HTTP/2
	c18FrontCloseAccept        // closes every connection right after accept
)

var c18FrontName = [...]string{"refuse", "blackhole", "closeaccept"}

// front occupies s.addr with the given behaviour and returns the function that ends it.
func (s *c18Server) front(mode int) (stop func()) {
	s.run.frontActive.Add(1)
	s.run.count("front_"+c18FrontName[mode], 1)
	if mode == c18FrontNone {
		return func() { s.run.frontActive.Add(-1) }
	}
	var lis net.Listener
	var err error
	for i := 0; i < 200; i++ {
		if lis, err = net.Listen("tcp", s.addr); err == nil {
			break
		}
		time.Sleep(5 * time.Millisecond)
	}
	if err != nil {
		s.run.harnessError("front listener: " + err.Error())
		return func() { s.run.frontActive.Add(-1) }
	}
	var mu sync.Mutex
	var conns []net.Conn
	closed := false
	go func() {
		for {
			c, err := lis.Accept()
			if err != nil {
				return
			}
			s.run.count("front_accepts", 1)
			mu.Lock()
			if mode == c18FrontCloseAccept || closed {
				c.Close()
			} else {
				conns = append(conns, c)
			}
			mu.Unlock()
		}
	}()
	return func() {
		lis.Close()
		mu.Lock()
		closed = true
		for _, c := range conns {
			c.Close()
		}
		mu.Unlock()
		s.run.frontActive.Add(-1)
	}
}

// startBehindFront reserves an address, lets the hostile front occupy it and brings the real server up later (or never).
func (s *c18Server) startBehindFront() error {
	lis, err := net.Listen("tcp", "127.0.0.1:0")
	if err != nil {
		return err
	}
	s.addr = lis.Addr().String()
	lis.Close()
	stopFront := s.front(s.plan.frontMode)
	if s.plan.frontFor == 0 {
		s.run.count("front_never_up", 1)
		s.frontStop = stopFront
		return nil
	}
	s.mu.Lock()
	s.restarting = true
	s.wg.Add(1)
	s.mu.Unlock()
	go func() {
		defer s.wg.Done()
		time.Sleep(s.plan.frontFor)
		stopFront()
		if err := s.start(); err != nil {
			s.run.harnessError("late server start: " + err.Error())
		}
		s.mu.Lock()
		s.restarting = false
		s.mu.Unlock()
	}()
	return nil
}
