//go:build verif

package client

// C18 — the request-collapse layer (client_collapse.go) in front of the batch client.
//
// ResolveLock requests without Keys and without TxnInfos are collapsed by a single-flight group: concurrent
// *identical* requests share one execution — that is the documented purpose and is accepted.  A ResolveLock response
// carries nothing that could echo an id, so these calls are judged against the server's execution log: every executed
// ResolveLock is recorded with (region id of the request context, start_version, commit_version, is_async, keys,
// txn_infos) and its logical receive/answer times.  Oracle: a ResolveLock call that returns success must be backed by
// at least one server-side execution of a request with the SAME identity whose answer left the server before the call
// returned — only identical requests may share a response.  (An execution that was *answered* before the call was
// invoked can legitimately back it: single-flight lets a caller join a flight until its leader has picked up the
// result.  Such cases are only counted.  Every group of the workload uses a start_version of its own, so nothing
// older than the group can ever have the identity.)
//
// Workload: resolver goroutines run next to the ordinary callers, under the same stream faults / closes; each group
// fires concurrently: 2-4 identical collapsible requests, the same start_version/commit_version for other regions,
// another commit version (in yet another region: the collapse key deliberately has no commit version, a transaction
// has only one), lite requests (Keys set) and batch requests (TxnInfos) — the last two are never collapsed.

import (
	"fmt"
	"math/rand"
	"sync"
	"sync/atomic"
	"time"

	"github.com/pingcap/kvproto/pkg/kvrpcpb"
	"github.com/tikv/client-go/v2/tikvrpc"
	"github.com/tikv/client-go/v2/verifh/vrep"
)

type c18RLSpec struct {
	Variant string   `json:"variant"`
	Region  uint64   `json:"region"`
	Start   uint64   `json:"start_version"`
	Commit  uint64   `json:"commit_version"`
	IsAsync bool     `json:"is_async"`
	Keys    []string `json:"keys,omitempty"`
	Batch   bool     `json:"batch"` // TxnInfos{Start -> Commit} instead of StartVersion/CommitVersion
}

func (sp *c18RLSpec) identity() string {
	if sp.Batch {
		return fmt.Sprintf("r%d|s0|c0|a%v|k[]|t[%d:%d]", sp.Region, sp.IsAsync, sp.Start, sp.Commit)
	}
	return fmt.Sprintf("r%d|s%d|c%d|a%v|k%q|t[]", sp.Region, sp.Start, sp.Commit, sp.IsAsync, sp.Keys)
}

func c18RLIdentityOf(req *kvrpcpb.ResolveLockRequest) string {
	keys := []string{}
	for _, k := range req.GetKeys() {
		keys = append(keys, string(k))
	}
	ti := ""
	for i, t := range req.GetTxnInfos() {
		if i > 0 {
			ti += ","
		}
		ti += fmt.Sprintf("%d:%d", t.GetTxn(), t.GetStatus())
	}
	if len(keys) == 0 {
		return fmt.Sprintf("r%d|s%d|c%d|a%v|k[]|t[%s]", req.GetContext().GetRegionId(), req.GetStartVersion(), req.GetCommitVersion(), req.GetIsAsync(), ti)
	}
	return fmt.Sprintf("r%d|s%d|c%d|a%v|k%q|t[%s]", req.GetContext().GetRegionId(), req.GetStartVersion(), req.GetCommitVersion(), req.GetIsAsync(), keys, ti)
}

func (sp *c18RLSpec) request() *tikvrpc.Request {
	r := &kvrpcpb.ResolveLockRequest{IsAsync: sp.IsAsync}
	if sp.Batch {
		r.TxnInfos = []*kvrpcpb.TxnInfo{{Txn: sp.Start, Status: sp.Commit}}
	} else {
		r.StartVersion, r.CommitVersion = sp.Start, sp.Commit
		for _, k := range sp.Keys {
			r.Keys = append(r.Keys, []byte(k))
		}
	}
	// the region travels in the request's RPC context, as the region request sender sets it
	return tikvrpc.NewRequest(tikvrpc.CmdResolveLock, r, kvrpcpb.Context{RegionId: sp.Region, RegionEpoch: nil})
}

type c18RLExec struct {
	recvSeq int64
	ansSeq  atomic.Int64 // 0 until the answer is handed to the stream
}

// rlExecuted is called by the server for every ResolveLock request it executes.
func (run *c18Run) rlExecuted(req *kvrpcpb.ResolveLockRequest) *c18RLExec {
	ex := &c18RLExec{recvSeq: run.seq.Add(1)}
	id := c18RLIdentityOf(req)
	run.rlMu.Lock()
	run.rlExecs[id] = append(run.rlExecs[id], ex)
	run.rlMu.Unlock()
	run.count("rl_server_execs", 1)
	return ex
}

func (run *c18Run) evalResolveLock(c *c18Call, resp *tikvrpc.Response, api string) {
	r, ok := resp.Resp.(*kvrpcpb.ResolveLockResponse)
	if !ok {
		run.violate("identity:"+api+":response-of-another-request-type", fmt.Sprintf("ResolveLock call %s got a %T", c.id, resp.Resp), c)
		return
	}
	if r.GetRegionError() != nil || r.GetError() != nil {
		run.violate("identity:"+api+":response-never-sent-by-server", fmt.Sprintf("ResolveLock call %s got errors the server never sends: %v", c.id, r), c)
		return
	}
	ret, inv := c.returnSeq.Load(), c.invokeSeq
	run.rlMu.Lock()
	execs := run.rlExecs[c.rl.identity()]
	run.rlMu.Unlock()
	backed, fresh := false, false
	for _, e := range execs {
		if a := e.ansSeq.Load(); a != 0 && a < ret {
			backed = true
			if a > inv {
				fresh = true
			}
		}
	}
	v := c.rl.Variant
	run.count("rl_ok", 1)
	run.count("rl_ok_"+v, 1)
	switch {
	case !backed:
		run.violate("identity:resolvelock:success-without-identical-execution:"+v,
			fmt.Sprintf("ResolveLock call %s (%s, %s) returned success, but the server executed no request with this region/start_version/commit_version/keys that was answered before the call returned (%d execution(s) with this identity in total): the caller got the response of a different request",
				c.id, v, c.rl.identity(), len(execs)), c)
	case !fresh:
		run.count("rl_ok_joined_flight_answered_before_invocation", 1)
	}
}

// rlSummary counts how many successful calls shared an execution (evidence that the collapse layer was exercised).
func (run *c18Run) rlSummary(all []*c18Call) {
	okByID := map[string]int{}
	for _, c := range all {
		if c.rl == nil {
			continue
		}
		run.count("rl_calls", 1)
		if c.returns.Load() == 0 {
			continue
		}
		c.mu.Lock()
		ok := c.err == nil
		c.mu.Unlock()
		if ok {
			okByID[c.rl.identity()]++
		}
	}
	run.rlMu.Lock()
	defer run.rlMu.Unlock()
	for id, n := range okByID {
		if ex := len(run.rlExecs[id]); ex > 0 && n > ex {
			run.count("rl_shared_executions", n-ex)
		}
	}
}

func (run *c18Run) startResolvers(wg *sync.WaitGroup, directed bool) {
	if directed {
		return
	}
	scn := run.scn
	groups := vrep.Pick(5, 8)
	if scn.Front != "" && scn.FrontMs == 0 {
		groups = 2 // the store never comes up: every group only sits out the dial time-out
	}
	for g := 0; g < 2; g++ {
		wg.Add(1)
		go func(g int) {
			defer wg.Done()
			rng := rand.New(rand.NewSource(scn.Seed ^ int64(0x5eed0000+g)))
			for k := 0; k < groups; k++ {
				if run.resolveGroup(rng, g, k) == 0 {
					time.Sleep(3 * time.Millisecond) // everything failed fast (outage / closed): pace
				}
			}
		}(g)
	}
}

// resolveGroup fires one group of concurrent ResolveLock calls and returns how many succeeded.
func (run *c18Run) resolveGroup(rng *rand.Rand, g, k int) int {
	scn := run.scn
	// unique in the whole process: the single-flight group is a package variable
	start := (((uint64(run.factor)*4096+uint64(scn.Idx))*8+uint64(g))*4096+uint64(k))*16 + 1000
	commit := start + 1
	isAsync := rng.Intn(6) == 0
	region := uint64(10 + 10*rng.Intn(5))
	fwd := ""
	if scn.Fwd && rng.Intn(3) == 0 {
		fwd = "fwd-a:20160"
	}
	var specs []*c18RLSpec
	add := func(n int, sp c18RLSpec) {
		for i := 0; i < n; i++ {
			c := sp
			specs = append(specs, &c)
		}
	}
	add(2+rng.Intn(3), c18RLSpec{Variant: "dup", Region: region, Start: start, Commit: commit, IsAsync: isAsync})
	for j, n := 1, 1+rng.Intn(3); j <= n; j++ {
		add(1+rng.Intn(2), c18RLSpec{Variant: "other_region", Region: region + uint64(j), Start: start, Commit: commit, IsAsync: isAsync})
	}
	if rng.Intn(2) == 0 {
		add(1, c18RLSpec{Variant: "other_commit", Region: region + 7, Start: start, Commit: commit + 5, IsAsync: isAsync})
	}
	add(1+rng.Intn(2), c18RLSpec{Variant: "lite", Region: region, Start: start, Commit: commit, IsAsync: isAsync, Keys: []string{"k1"}})
	if rng.Intn(2) == 0 {
		add(1, c18RLSpec{Variant: "lite", Region: region, Start: start, Commit: commit, IsAsync: isAsync, Keys: []string{"k2", "k3"}})
	}
	add(1+rng.Intn(2), c18RLSpec{Variant: "batch", Region: region, Start: start, Commit: commit, Batch: true})
	rng.Shuffle(len(specs), func(i, j int) { specs[i], specs[j] = specs[j], specs[i] })

	calls := make([]*c18Call, len(specs))
	for i, sp := range specs {
		c := &c18Call{caller: -3 - g, seq: k*64 + i, done: make(chan struct{}), kind: c18KindResolveLock, rl: sp, fwd: fwd, timeout: scn.LongTimeout,
			id: fmt.Sprintf("v%d.%d/rl%d/g%d/q%d", run.factor, scn.Idx, g, k, i)}
		c.async = scn.MaxBatch > 0 && rng.Intn(100) < scn.AsyncPct
		if rng.Intn(100) < scn.HighPriPct {
			c.pri = uint64(highTaskPriority + rng.Intn(7))
		}
		calls[i] = c
	}
	var wg sync.WaitGroup
	begin := make(chan struct{})
	for _, c := range calls {
		wg.Add(1)
		go func(c *c18Call) {
			defer wg.Done()
			<-begin
			run.issue(c)
			if c.async {
				<-c18After(c, scn.LongTimeout+time.Second)
			}
		}(c)
	}
	close(begin)
	wg.Wait()
	ok := 0
	for _, c := range calls {
		if c.returns.Load() > 0 {
			c.mu.Lock()
			if c.err == nil {
				ok++
			}
			c.mu.Unlock()
		}
	}
	return ok
}
