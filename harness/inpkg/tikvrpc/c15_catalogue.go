//go:build verif

package tikvrpc

// C15 (tikvrpc part) — the command catalogue, enumerated by reflection.
//
// Sources: (a) every value v in [0, 1<<14) with CmdType(v).String() != the
// unknown form, (b) a go/parser scan of the CmdType constants of tikvrpc.go
// (the working tree under test).  The union is the catalogue; a constant only
// one source knows is reported in the evidence (CmdEmpty has no String case).
// The request message of a command is the accessor return type of *Request
// that AttachContext, ToBatchCommandsRequest, GenRegionErrorResp, CallRPC,
// CallDebugRPC, GetSize and GetStartTS all take without a type-assertion
// panic; the response type is the reply object the generated gRPC client
// allocates for that request (fake grpc.ClientConnInterface, no network).

import (
	"context"
	"os"
	"path/filepath"
	"reflect"
	"testing"

	"github.com/pingcap/kvproto/pkg/debugpb"
	"github.com/pingcap/kvproto/pkg/errorpb"
	"github.com/pingcap/kvproto/pkg/kvrpcpb"
	"github.com/pingcap/kvproto/pkg/tikvpb"
	"github.com/tikv/client-go/v2/verifh/vcat"
)

const c15UnknownStr = "Unknown"

// c15SourceFile locates tikvrpc.go of the tree under test (cwd of an
// in-package test is the package directory).
func c15SourceFile() string {
	for _, p := range []string{"tikvrpc.go", filepath.Join("..", "tikvrpc", "tikvrpc.go"), filepath.Join("..", "..", "tikvrpc", "tikvrpc.go")} {
		if _, err := os.Stat(p); err == nil {
			return p
		}
	}
	return "tikvrpc.go"
}

type c15Catalogue struct {
	Cmds        []*vcat.Cmd
	OnlyParser  []string // constants whose String() is the unknown form
	OnlyString  []int64  // values with a String() but no constant
	ParserCount int
	StringCount int
	Accessors   []vcat.Accessor
	Conn        *vcat.FakeConn
}

func c15Enumerate() (*c15Catalogue, error) {
	cat := &c15Catalogue{Conn: &vcat.FakeConn{}}
	consts, err := vcat.ParseConsts(c15SourceFile(), "CmdType")
	if err != nil {
		return nil, err
	}
	values := map[int64][]string{}
	for _, c := range consts {
		values[c.Value] = append(values[c.Value], c.Name)
	}
	cat.ParserCount = len(values)
	for v := int64(0); v < 1<<14; v++ {
		if CmdType(v).String() != c15UnknownStr {
			cat.StringCount++
			if _, ok := values[v]; !ok {
				cat.OnlyString = append(cat.OnlyString, v)
				values[v] = []string{"value-" + CmdType(v).String()}
			}
		}
	}
	for v, names := range values {
		if CmdType(v).String() == c15UnknownStr {
			cat.OnlyParser = append(cat.OnlyParser, names...)
		}
	}
	cat.Accessors = vcat.Accessors(reflect.TypeOf(&Request{}))
	seen := map[reflect.Type]bool{}
	var types []reflect.Type
	for _, a := range cat.Accessors {
		if !seen[a.Msg] {
			seen[a.Msg] = true
			types = append(types, a.Msg)
		}
	}
	cc, err := cat.Conn.Dial()
	if err != nil {
		return nil, err
	}
	client := tikvpb.NewTikvClient(cc)
	dbg := debugpb.NewDebugClient(cc)
	probes := []vcat.Probe{
		{Name: "AttachContext", Run: func(r interface{}) bool {
			return AttachContext(r.(*Request), kvrpcpb.Context{RegionId: 7})
		}},
		{Name: "AttachContext2", Run: func(r interface{}) bool { // second attach takes the copy-on-write branch
			AttachContext(r.(*Request), kvrpcpb.Context{RegionId: 7})
			return AttachContext(r.(*Request), kvrpcpb.Context{RegionId: 8})
		}},
		{Name: "ToBatchCommandsRequest", Run: func(r interface{}) bool { return r.(*Request).ToBatchCommandsRequest() != nil }},
		{Name: "GenRegionErrorResp", Run: func(r interface{}) bool {
			_, err := GenRegionErrorResp(r.(*Request), &errorpb.Error{Message: "x"})
			return err == nil
		}},
		{Name: "CallRPC", Run: func(r interface{}) bool {
			resp, err := CallRPC(context.Background(), client, r.(*Request))
			if err != nil {
				return false
			}
			// learn the element type of streaming replies
			switch s := resp.Resp.(type) {
			case *CopStreamResponse:
				s.Tikv_CoprocessorStreamClient.Recv()
			case *BatchCopStreamResponse:
				s.Tikv_BatchCoprocessorClient.Recv()
			case *MPPStreamResponse:
				s.Tikv_EstablishMPPConnectionClient.Recv()
			}
			return true
		}},
		{Name: "CallDebugRPC", Run: func(r interface{}) bool {
			_, err := CallDebugRPC(context.Background(), dbg, r.(*Request))
			return err == nil
		}},
		{Name: "GetSize", Run: func(r interface{}) bool { r.(*Request).GetSize(); return true }},
		{Name: "GetStartTS", Run: func(r interface{}) bool { r.(*Request).GetStartTS(); return true }},
	}
	cat.Cmds = vcat.BuildCatalogue(values, func(v int64) string { return CmdType(v).String() }, types,
		func(cmd int64, msg interface{}) interface{} { return &Request{Type: CmdType(cmd), Req: msg} }, probes, cat.Conn)
	return cat, nil
}

func c15Logf(t *testing.T, cat *c15Catalogue) {
	for _, c := range cat.Cmds {
		req, resp := "<nil>", "<nil>"
		if c.Req != nil {
			req = vcat.TypeName(c.Req)
		}
		if c.Resp != nil {
			resp = vcat.TypeName(c.Resp)
		}
		t.Logf("cmd %-32s %5d %-26s req=%-44s resp=%-46s stream=%v untyped=%v acc=%v pan=%v cands=%v", c.Name, c.Value, c.Str, req, resp, c.RespStream, c.Untyped, c.Accepted, c.Panics, c.Cands)
	}
}
